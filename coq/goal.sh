#!/bin/bash
# goal.sh <file.v> <line> : print the proof state just before <line>
f=$1; n=$2
head -n $((n-1)) "$f" > /tmp/_goal_$$.v
echo "Show." >> /tmp/_goal_$$.v
timeout 300 coqtop -Q theories AC -batch -l /tmp/_goal_$$.v 2>&1 | tail -${3:-60}
rm -f /tmp/_goal_$$.v
