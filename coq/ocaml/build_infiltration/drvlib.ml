(* drvlib.ml — float instance of the extracted [num] record and the line protocol.
   Trusted base: this file.  No Extract Constant is used anywhere; the float
   arithmetic enters the extracted, polymorphic model only through [fnum]. *)
open Model

let rec pos_of_int (n : int) : positive =
  if n = 1 then XH else if n land 1 = 0 then XO (pos_of_int (n lsr 1)) else XI (pos_of_int (n lsr 1))
let z_of_int (n : int) : z = if n = 0 then Z0 else if n > 0 then Zpos (pos_of_int n) else Zneg (pos_of_int (-n))
let rec int_of_pos = function XH -> 1 | XO p -> 2 * int_of_pos p | XI p -> 2 * int_of_pos p + 1
let int_of_z = function Z0 -> 0 | Zpos p -> int_of_pos p | Zneg p -> - (int_of_pos p)
let rec float_of_pos = function XH -> 1.0 | XO p -> 2.0 *. float_of_pos p | XI p -> 2.0 *. float_of_pos p +. 1.0
let float_of_z = function Z0 -> 0.0 | Zpos p -> float_of_pos p | Zneg p -> -. (float_of_pos p)
let rec nat_of_int n = if n <= 0 then O else S (nat_of_int (n - 1))
let rec int_of_nat = function O -> 0 | S n -> 1 + int_of_nat n

(* round half to even, as C rint() in the default rounding mode *)
let rint (x : float) : float =
  if Float.is_integer x || Float.is_nan x || Float.abs x >= 4503599627370496.0 then x
  else
    let f = Float.floor x in
    let d = x -. f in
    if d < 0.5 then f else if d > 0.5 then f +. 1.0
    else if Float.rem f 2.0 = 0.0 then f else f +. 1.0

let pow10f d = 10.0 ** float_of_int d

(* numpy scalar round(x, d), d >= 0:  rint(x * 10^d) / 10^d *)
let round_np (d : z) (x : float) : float =
  let d = int_of_z d in
  if d = 0 then rint x else let p = pow10f d in rint (x *. p) /. p

(* CPython float round(x, d): correctly rounded decimal (glibc printf is exact, half-even) *)
let round_py (d : z) (x : float) : float =
  let d = int_of_z d in
  if Float.is_nan x || Float.is_integer x || Float.abs x = Float.infinity then x
  else float_of_string (Printf.sprintf "%.*f" d x)

let fnum : float num = {
  nopp = (fun x -> -. x);
  nadd = ( +. ); nsub = ( -. ); nmul = ( *. ); ndiv = ( /. );
  nleb = (fun x y -> x <= y); nltb = (fun x y -> x < y); neqb = (fun x y -> x = y);
  nofZ = float_of_z;
  nexp = exp; nln = log; nlog10 = log10; npow = ( ** );
  nrint = (fun x -> z_of_int (int_of_float (rint x)));
  nround_np = round_np; nround_py = round_py;
  ntrunc = (fun x -> z_of_int (int_of_float x));
  nfloor = (fun x -> z_of_int (int_of_float (Float.floor x)));
}

(* ---- token stream ---------------------------------------------------------------- *)
type toks = { mutable rest : string list }
exception Bad of string
let next t = match t.rest with [] -> raise (Bad "eol") | x :: r -> t.rest <- r; x
let rf t : float = Int64.float_of_bits (Int64.of_string ("0x" ^ next t))
let ri t : int = int_of_string (next t)
let rz t : z = z_of_int (ri t)
let rn t : nat = nat_of_int (ri t)
let rb t : bool = match next t with "T" -> true | "F" -> false | s -> raise (Bad ("bool " ^ s))
let rlist (rd : toks -> 'a) t : 'a list = let n = ri t in List.init n (fun _ -> rd t)
let rfl t = rlist rf t
let ropt (rd : toks -> 'a) t : 'a option = match next t with "N" -> None | "S" -> Some (rd t) | s -> raise (Bad ("opt " ^ s))

(* one compartment: dz dzsum zmid layer th_dry th_wp th_fc th_s ksat tau pen acr bcr *)
let rcomp t : float comp =
  let dz = rf t in let dzsum = rf t in let zmid = rf t in let layer = rz t in
  let dry = rf t in let wp = rf t in let fc = rf t in let s = rf t in
  let ksat = rf t in let tau = rf t in let pen = rf t in let acr = rf t in let bcr = rf t in
  { c_dz = dz; c_dzsum = dzsum; c_zmid = zmid; c_layer = layer; c_th_dry = dry; c_th_wp = wp; c_th_fc = fc;
    c_th_s = s; c_ksat = ksat; c_tau = tau; c_pen = pen; c_acr = acr; c_bcr = bcr }
let rprof t : float comp list = rlist rcomp t

let buf = Buffer.create 65536
let wf (x : float) = Buffer.add_string buf (Printf.sprintf "%016Lx " (Int64.bits_of_float x))
let wi (n : int) = Buffer.add_string buf (string_of_int n); Buffer.add_char buf ' '
let wz (n : z) = wi (int_of_z n)
let wn (n : nat) = wi (int_of_nat n)
let wb (b : bool) = Buffer.add_string buf (if b then "T " else "F ")
let ws (s : string) = Buffer.add_string buf s; Buffer.add_char buf ' '
let wlist (w : 'a -> unit) (l : 'a list) = wi (List.length l); List.iter w l
let wfl = wlist wf
let wopt (w : 'a -> unit) = function None -> ws "N" | Some x -> ws "S"; w x

let table : (string, toks -> unit) Hashtbl.t = Hashtbl.create 64
let reg name f = Hashtbl.replace table name f

let main () =
  let out = Buffer.create (1 lsl 20) in
  (try
    while true do
      let line = input_line stdin in
      Buffer.clear buf;
      (match String.split_on_char ' ' (String.trim line) |> List.filter (fun s -> s <> "") with
       | [] -> ()
       | name :: args ->
         (match Hashtbl.find_opt table name with
          | None -> Buffer.add_string buf ("ERR unknown " ^ name)
          | Some f ->
            (try f { rest = args } with
             | Bad m -> Buffer.clear buf; Buffer.add_string buf ("ERR bad " ^ m)
             | Stack_overflow -> Buffer.clear buf; Buffer.add_string buf "ERR stack"
             | e -> Buffer.clear buf; Buffer.add_string buf ("ERR exn " ^ Printexc.to_string e))));
      Buffer.add_buffer out buf; Buffer.add_char out '\n';
      if Buffer.length out > (1 lsl 19) then (print_string (Buffer.contents out); Buffer.clear out)
    done
  with End_of_file -> ());
  print_string (Buffer.contents out); flush stdout
