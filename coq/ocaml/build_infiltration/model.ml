
(** val negb : bool -> bool **)

let negb = function
| true -> false
| false -> true

type nat =
| O
| S of nat

(** val fst : ('a1 * 'a2) -> 'a1 **)

let fst = function
| (x, _) -> x

(** val snd : ('a1 * 'a2) -> 'a2 **)

let snd = function
| (_, y) -> y



type positive =
| XI of positive
| XO of positive
| XH

type z =
| Z0
| Zpos of positive
| Zneg of positive

(** val rev_append : 'a1 list -> 'a1 list -> 'a1 list **)

let rec rev_append l l' =
  match l with
  | [] -> l'
  | a :: l0 -> rev_append l0 (a :: l')

(** val map : ('a1 -> 'a2) -> 'a1 list -> 'a2 list **)

let rec map f = function
| [] -> []
| a :: t -> (f a) :: (map f t)

type 'f num = { nopp : ('f -> 'f); nadd : ('f -> 'f -> 'f);
                nsub : ('f -> 'f -> 'f); nmul : ('f -> 'f -> 'f);
                ndiv : ('f -> 'f -> 'f); nleb : ('f -> 'f -> bool);
                nltb : ('f -> 'f -> bool); neqb : ('f -> 'f -> bool);
                nofZ : (z -> 'f); nexp : ('f -> 'f); nln : ('f -> 'f);
                nlog10 : ('f -> 'f); npow : ('f -> 'f -> 'f);
                nrint : ('f -> z); nround_np : (z -> 'f -> 'f);
                nround_py : (z -> 'f -> 'f); ntrunc : ('f -> z);
                nfloor : ('f -> z) }

type 'f numOps = 'f num

(** val num_ops : 'a1 numOps -> 'a1 num **)

let num_ops numOps0 =
  numOps0

(** val pmax : 'a1 numOps -> 'a1 -> 'a1 -> 'a1 **)

let pmax n a b =
  if (num_ops n).nltb a b then b else a

type 'f comp = { c_dz : 'f; c_dzsum : 'f; c_zmid : 'f; c_layer : z;
                 c_th_dry : 'f; c_th_wp : 'f; c_th_fc : 'f; c_th_s : 
                 'f; c_ksat : 'f; c_tau : 'f; c_pen : 'f; c_acr : 'f;
                 c_bcr : 'f }

(** val storage : 'a1 numOps -> 'a1 comp list -> 'a1 list -> 'a1 **)

let rec storage n p th =
  match p with
  | [] -> (num_ops n).nofZ Z0
  | c :: p' ->
    (match th with
     | [] -> (num_ops n).nofZ Z0
     | t :: th' ->
       (num_ops n).nadd
         ((num_ops n).nmul ((num_ops n).nmul t c.c_dz)
           ((num_ops n).nofZ (Zpos (XO (XO (XO (XI (XO (XI (XI (XI (XI
             XH)))))))))))) (storage n p' th'))

type 'f done0 = ('f comp * 'f) * 'f

(** val d_comp : 'a1 done0 -> 'a1 comp **)

let d_comp d =
  fst (fst d)

(** val d_th : 'a1 done0 -> 'a1 **)

let d_th d =
  snd (fst d)

(** val d_fl : 'a1 done0 -> 'a1 **)

let d_fl =
  snd

(** val inf_backup :
    'a1 numOps -> 'a1 -> 'a1 done0 list -> 'a1 done0 list * 'a1 **)

let rec inf_backup n excess done1 = match done1 with
| [] -> ([], excess)
| d :: r ->
  if (num_ops n).nltb ((num_ops n).nofZ Z0) excess
  then let c = d_comp d in
       let fl' = (num_ops n).nsub (d_fl d) excess in
       let t' =
         (num_ops n).nadd (d_th d)
           ((num_ops n).ndiv excess
             ((num_ops n).nmul c.c_dz
               ((num_ops n).nofZ (Zpos (XO (XO (XO (XI (XO (XI (XI (XI (XI
                 XH)))))))))))))
       in
       if (num_ops n).nltb c.c_th_s t'
       then let res =
              inf_backup n
                ((num_ops n).nmul
                  ((num_ops n).nmul ((num_ops n).nsub t' c.c_th_s)
                    ((num_ops n).nofZ (Zpos (XO (XO (XO (XI (XO (XI (XI (XI
                      (XI XH)))))))))))) c.c_dz) r
            in
            ((((c, c.c_th_s), fl') :: (fst res)), (snd res))
       else ((((c, t'), fl') :: r), ((num_ops n).nofZ Z0))
  else (done1, excess)

(** val inf_dthdtS : 'a1 numOps -> 'a1 comp -> 'a1 **)

let inf_dthdtS n c =
  (num_ops n).nmul c.c_tau ((num_ops n).nsub c.c_th_s c.c_th_fc)

(** val inf_theta0 : 'a1 numOps -> 'a1 comp -> 'a1 -> 'a1 -> 'a1 * 'a1 **)

let inf_theta0 n c fcadj tostore =
  let dthdtS = inf_dthdtS n c in
  let dthdt0 =
    (num_ops n).ndiv tostore
      ((num_ops n).nmul
        ((num_ops n).nofZ (Zpos (XO (XO (XO (XI (XO (XI (XI (XI (XI
          XH))))))))))) c.c_dz)
  in
  if (num_ops n).nltb dthdt0 dthdtS
  then let theta0 =
         if (num_ops n).nleb dthdt0 ((num_ops n).nofZ Z0)
         then fcadj
         else (num_ops n).nadd c.c_th_fc
                ((num_ops n).nln
                  ((num_ops n).nadd ((num_ops n).nofZ (Zpos XH))
                    ((num_ops n).ndiv
                      ((num_ops n).nmul dthdt0
                        ((num_ops n).nsub
                          ((num_ops n).nexp
                            ((num_ops n).nsub c.c_th_s c.c_th_fc))
                          ((num_ops n).nofZ (Zpos XH))))
                      ((num_ops n).nmul c.c_tau
                        ((num_ops n).nsub c.c_th_s c.c_th_fc)))))
       in
       if (num_ops n).nltb c.c_th_s theta0
       then (c.c_th_s, dthdt0)
       else if (num_ops n).nleb theta0 fcadj
            then (fcadj, ((num_ops n).nofZ Z0))
            else (theta0, dthdt0)
  else (c.c_th_s, dthdtS)

(** val inf_drainmax : 'a1 numOps -> 'a1 comp -> 'a1 -> 'a1 -> 'a1 **)

let inf_drainmax n c fl dthdt0 =
  let factor =
    (num_ops n).ndiv c.c_ksat
      ((num_ops n).nmul
        ((num_ops n).nmul (inf_dthdtS n c)
          ((num_ops n).nofZ (Zpos (XO (XO (XO (XI (XO (XI (XI (XI (XI
            XH)))))))))))) c.c_dz)
  in
  let drainmax =
    (num_ops n).nmul
      ((num_ops n).nmul ((num_ops n).nmul factor dthdt0)
        ((num_ops n).nofZ (Zpos (XO (XO (XO (XI (XO (XI (XI (XI (XI
          XH)))))))))))) c.c_dz
  in
  let drainage = (num_ops n).nadd drainmax fl in
  if (num_ops n).nltb c.c_ksat drainage
  then (num_ops n).nsub c.c_ksat fl
  else drainmax

(** val inf_store :
    'a1 numOps -> 'a1 comp -> 'a1 -> 'a1 -> 'a1 -> 'a1 * 'a1 **)

let inf_store n c t theta0 tostore =
  let diff = (num_ops n).nsub theta0 t in
  if (num_ops n).nltb ((num_ops n).nofZ Z0) diff
  then let t1 =
         (num_ops n).nadd t
           ((num_ops n).ndiv tostore
             ((num_ops n).nmul
               ((num_ops n).nofZ (Zpos (XO (XO (XO (XI (XO (XI (XI (XI (XI
                 XH))))))))))) c.c_dz))
       in
       if (num_ops n).nltb theta0 t1
       then (theta0,
              ((num_ops n).nmul
                ((num_ops n).nmul ((num_ops n).nsub t1 theta0)
                  ((num_ops n).nofZ (Zpos (XO (XO (XO (XI (XO (XI (XI (XI (XI
                    XH)))))))))))) c.c_dz))
       else (t1, ((num_ops n).nofZ Z0))
  else (t, tostore)

(** val inf_comp :
    'a1 numOps -> 'a1 comp -> 'a1 -> 'a1 -> 'a1 -> 'a1 ->
    (('a1 * 'a1) * 'a1) * 'a1 **)

let inf_comp n c fcadj t fl tostore =
  let td = inf_theta0 n c fcadj tostore in
  let drainmax = inf_drainmax n c fl (snd td) in
  let st = inf_store n c t (fst td) tostore in
  let fl' = (num_ops n).nadd fl (snd st) in
  let excess = (num_ops n).nsub (snd st) drainmax in
  let excess0 =
    if (num_ops n).nltb excess ((num_ops n).nofZ Z0)
    then (num_ops n).nofZ Z0
    else excess
  in
  ((((fst st), fl'), ((num_ops n).nsub (snd st) excess0)), excess0)

(** val inf_finish :
    'a1 done0 list -> 'a1 list -> 'a1 list -> 'a1 list * 'a1 list **)

let inf_finish done1 th fl =
  ((rev_append (map d_th done1) th), (rev_append (map d_fl done1) fl))

(** val inf_loop :
    'a1 numOps -> 'a1 comp list -> 'a1 list -> 'a1 list -> 'a1 list -> 'a1
    done0 list -> 'a1 -> 'a1 -> ((('a1 list * 'a1 list) * 'a1) * 'a1) option **)

let rec inf_loop n p fc th fl done1 tostore runoff =
  match th with
  | [] -> Some (((inf_finish done1 th fl), tostore), runoff)
  | t :: th' ->
    if (num_ops n).nltb ((num_ops n).nofZ Z0) tostore
    then (match p with
          | [] -> None
          | c :: p' ->
            (match fc with
             | [] -> None
             | a :: fc' ->
               (match fl with
                | [] -> None
                | f :: fl' ->
                  let r = inf_comp n c a t f tostore in
                  let t1 = fst (fst (fst r)) in
                  let f1 = snd (fst (fst r)) in
                  let ts1 = snd (fst r) in
                  let ex = snd r in
                  let done2 = ((c, t1), f1) :: done1 in
                  if (num_ops n).nltb ((num_ops n).nofZ Z0) ex
                  then let b = inf_backup n ex done2 in
                       inf_loop n p' fc' th' fl' (fst b) ts1
                         (if (num_ops n).nltb ((num_ops n).nofZ Z0) (snd b)
                          then (num_ops n).nadd runoff (snd b)
                          else runoff)
                  else inf_loop n p' fc' th' fl' done2 ts1 runoff)))
    else Some (((inf_finish done1 th fl), tostore), runoff)

(** val inf_surface_bunds :
    'a1 numOps -> 'a1 option -> 'a1 -> 'a1 -> 'a1 -> (('a1 * 'a1) * 'a1)
    option **)

let inf_surface_bunds n k0 infl surf zbund =
  let infltot = (num_ops n).nadd infl surf in
  if (num_ops n).nltb ((num_ops n).nofZ Z0) infltot
  then (match k0 with
        | Some k ->
          let tostore = if (num_ops n).nltb k infltot then k else infltot in
          let s1 =
            if (num_ops n).nltb k infltot
            then (num_ops n).nsub infltot k
            else (num_ops n).nofZ Z0
          in
          if (num_ops n).nltb zbund s1
          then Some ((tostore, ((num_ops n).nsub s1 zbund)),
                 ((num_ops n).nmul zbund ((num_ops n).nofZ (Zpos XH))))
          else Some ((tostore, ((num_ops n).nofZ Z0)), s1)
        | None -> None)
  else Some ((((num_ops n).nofZ Z0), ((num_ops n).nofZ Z0)), surf)

(** val inf_surface_nobunds :
    'a1 numOps -> 'a1 option -> 'a1 -> 'a1 -> (('a1 * 'a1) * 'a1) option **)

let inf_surface_nobunds n k0 infl surf =
  match k0 with
  | Some k ->
    let tostore = if (num_ops n).nltb k infl then k else infl in
    let ri =
      if (num_ops n).nltb k infl
      then (num_ops n).nsub infl k
      else (num_ops n).nofZ Z0
    in
    Some ((tostore, ((num_ops n).nadd ri surf)), ((num_ops n).nofZ Z0))
  | None -> None

(** val infiltration :
    'a1 numOps -> 'a1 comp list -> 'a1 -> 'a1 list -> 'a1 list -> 'a1 -> 'a1
    -> 'a1 -> bool -> 'a1 -> 'a1 list -> 'a1 -> 'a1 -> bool -> ((((('a1
    list * 'a1) * 'a1) * 'a1) * 'a1) * 'a1 list) option **)

let infiltration n p surf fcadj th infl irr appeff bunds zbund fluxout deepperc0 runoff0 gs =
  let infl0 = pmax n infl ((num_ops n).nofZ Z0) in
  let infl1 =
    if gs
    then (num_ops n).nadd infl0
           ((num_ops n).nmul irr
             ((num_ops n).ndiv appeff
               ((num_ops n).nofZ (Zpos (XO (XO (XI (XO (XO (XI XH))))))))))
    else infl0
  in
  if negb ((num_ops n).nleb ((num_ops n).nofZ Z0) infl1)
  then None
  else let k0 = match p with
                | [] -> None
                | c :: _ -> Some c.c_ksat in
       let bund_on =
         (&&) bunds
           ((num_ops n).nltb
             ((num_ops n).ndiv ((num_ops n).nofZ (Zpos XH))
               ((num_ops n).nofZ (Zpos (XO (XO (XO (XI (XO (XI (XI (XI (XI
                 XH)))))))))))) zbund)
       in
       let nobund =
         (||) (negb bunds)
           ((num_ops n).nleb zbund
             ((num_ops n).ndiv ((num_ops n).nofZ (Zpos XH))
               ((num_ops n).nofZ (Zpos (XO (XO (XO (XI (XO (XI (XI (XI (XI
                 XH)))))))))))))
       in
       let surface =
         if nobund
         then inf_surface_nobunds n k0 infl1 surf
         else if bund_on
              then inf_surface_bunds n k0 infl1 surf zbund
              else None
       in
       (match surface with
        | Some p0 ->
          let (p1, surf1) = p0 in
          let (tostore, runoffini) = p1 in
          let loopres =
            if (num_ops n).nltb ((num_ops n).nofZ Z0) tostore
            then inf_loop n p fcadj th fluxout [] tostore
                   ((num_ops n).nofZ Z0)
            else Some (((th, fluxout), ((num_ops n).nofZ Z0)),
                   ((num_ops n).nofZ Z0))
          in
          (match loopres with
           | Some p2 ->
             let (p3, runoff) = p2 in
             let (thfl, deepperc) = p3 in
             let runoff1 = (num_ops n).nadd runoff runoffini in
             let upd = (&&) ((num_ops n).nltb runoffini runoff1) bund_on in
             let s =
               (num_ops n).nadd surf1 ((num_ops n).nsub runoff1 runoffini)
             in
             let surf2 =
               if upd
               then if (num_ops n).nltb zbund s then zbund else s
               else surf1
             in
             let runoff2 =
               if upd
               then if (num_ops n).nltb zbund s
                    then (num_ops n).nadd runoffini ((num_ops n).nsub s zbund)
                    else runoffini
               else runoff1
             in
             Some ((((((fst thfl), surf2),
             ((num_ops n).nadd deepperc deepperc0)),
             ((num_ops n).nadd runoff2 runoff0)),
             ((num_ops n).nsub infl1 runoff2)), (snd thfl))
           | None -> None)
        | None -> None)

(** val keep_nat : nat -> nat **)

let keep_nat x =
  S x
