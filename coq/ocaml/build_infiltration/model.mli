
val negb : bool -> bool

type nat =
| O
| S of nat

val fst : ('a1 * 'a2) -> 'a1

val snd : ('a1 * 'a2) -> 'a2



type positive =
| XI of positive
| XO of positive
| XH

type z =
| Z0
| Zpos of positive
| Zneg of positive

val rev_append : 'a1 list -> 'a1 list -> 'a1 list

val map : ('a1 -> 'a2) -> 'a1 list -> 'a2 list

type 'f num = { nopp : ('f -> 'f); nadd : ('f -> 'f -> 'f);
                nsub : ('f -> 'f -> 'f); nmul : ('f -> 'f -> 'f);
                ndiv : ('f -> 'f -> 'f); nleb : ('f -> 'f -> bool);
                nltb : ('f -> 'f -> bool); neqb : ('f -> 'f -> bool);
                nofZ : (z -> 'f); nexp : ('f -> 'f); nln : ('f -> 'f);
                nlog10 : ('f -> 'f); npow : ('f -> 'f -> 'f);
                nrint : ('f -> z); nround_np : (z -> 'f -> 'f);
                nround_py : (z -> 'f -> 'f); ntrunc : ('f -> z);
                nfloor : ('f -> z) }

type 'f numOps = 'f num

val num_ops : 'a1 numOps -> 'a1 num

val pmax : 'a1 numOps -> 'a1 -> 'a1 -> 'a1

type 'f comp = { c_dz : 'f; c_dzsum : 'f; c_zmid : 'f; c_layer : z;
                 c_th_dry : 'f; c_th_wp : 'f; c_th_fc : 'f; c_th_s : 
                 'f; c_ksat : 'f; c_tau : 'f; c_pen : 'f; c_acr : 'f;
                 c_bcr : 'f }

val storage : 'a1 numOps -> 'a1 comp list -> 'a1 list -> 'a1

type 'f done0 = ('f comp * 'f) * 'f

val d_comp : 'a1 done0 -> 'a1 comp

val d_th : 'a1 done0 -> 'a1

val d_fl : 'a1 done0 -> 'a1

val inf_backup : 'a1 numOps -> 'a1 -> 'a1 done0 list -> 'a1 done0 list * 'a1

val inf_dthdtS : 'a1 numOps -> 'a1 comp -> 'a1

val inf_theta0 : 'a1 numOps -> 'a1 comp -> 'a1 -> 'a1 -> 'a1 * 'a1

val inf_drainmax : 'a1 numOps -> 'a1 comp -> 'a1 -> 'a1 -> 'a1

val inf_store : 'a1 numOps -> 'a1 comp -> 'a1 -> 'a1 -> 'a1 -> 'a1 * 'a1

val inf_comp :
  'a1 numOps -> 'a1 comp -> 'a1 -> 'a1 -> 'a1 -> 'a1 ->
  (('a1 * 'a1) * 'a1) * 'a1

val inf_finish : 'a1 done0 list -> 'a1 list -> 'a1 list -> 'a1 list * 'a1 list

val inf_loop :
  'a1 numOps -> 'a1 comp list -> 'a1 list -> 'a1 list -> 'a1 list -> 'a1
  done0 list -> 'a1 -> 'a1 -> ((('a1 list * 'a1 list) * 'a1) * 'a1) option

val inf_surface_bunds :
  'a1 numOps -> 'a1 option -> 'a1 -> 'a1 -> 'a1 -> (('a1 * 'a1) * 'a1) option

val inf_surface_nobunds :
  'a1 numOps -> 'a1 option -> 'a1 -> 'a1 -> (('a1 * 'a1) * 'a1) option

val infiltration :
  'a1 numOps -> 'a1 comp list -> 'a1 -> 'a1 list -> 'a1 list -> 'a1 -> 'a1 ->
  'a1 -> bool -> 'a1 -> 'a1 list -> 'a1 -> 'a1 -> bool -> ((((('a1
  list * 'a1) * 'a1) * 'a1) * 'a1) * 'a1 list) option

val keep_nat : nat -> nat
