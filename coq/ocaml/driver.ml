(* driver.ml — one wrapper per extracted entry point: parse tokens, call the model at
   the float instance, print the result.  Wrappers contain no arithmetic. *)
open Model
open Drvlib
let n = fnum

let () =
  reg "growing_degree_day" (fun t ->
    let m = rz t in let a = rf t in let b = rf t in let c = rf t in let d = rf t in
    wopt wf (growing_degree_day n m a b c d));
  reg "water_stress" (fun t ->
    let pu0 = rf t in let pu1 = rf t in let pu2 = rf t in let pu3 = rf t in
    let pl0 = rf t in let pl1 = rf t in let pl2 = rf t in let pl3 = rf t in
    let etadj = rz t in let cb = rf t in
    let f0 = rf t in let f1 = rf t in let f2 = rf t in
    let beta_on = rb t in let dr = rf t in let taw = rf t in let et0 = rf t in
    let k = water_stress n pu0 pu1 pu2 pu3 pl0 pl1 pl2 pl3 etadj cb f0 f1 f2 beta_on dr taw et0 in
    wf k.ksw_Exp; wf k.ksw_Sto; wf k.ksw_Sen; wf k.ksw_Pol; wf k.ksw_StoLin);
  reg "kst_heat" (fun t ->
    let fl = rz t in let a = rf t in let b = rf t in let c = rf t in let d = rf t in
    wopt wf (kst_heat n fl a b c d));
  reg "kst_cold" (fun t ->
    let fl = rz t in let a = rf t in let b = rf t in let c = rf t in let d = rf t in
    wopt wf (kst_cold n fl a b c d));
  reg "aeration_stress" (fun t ->
    let a = rf t in let b = rf t in let c = rf t in let d = rf t in let e = rf t in
    wopt (fun (x, y) -> wf x; wf y) (aeration_stress n a b c d e));
  reg "cc_development" (fun t ->
    let cco = rf t in let ccx = rf t in let cgc = rf t in let cdc = rf t in let dt = rf t in
    let m = if rb t then Growth else Decline in let ccx0 = rf t in
    wf (cc_development n cco ccx cgc cdc dt m ccx0));
  reg "cc_required_time_cgc" (fun t ->
    let a = rf t in let b = rf t in let c = rf t in let d = rf t in
    wf (cc_required_time_cgc n a b c d));
  reg "cc_required_time_cdc" (fun t ->
    let a = rf t in let b = rf t in let c = rf t in
    wf (cc_required_time_cdc n a b c));
  reg "fco2" (fun t ->
    let c = rf t in let r = rf t in let bs = rf t in let bf = rf t in let fs = rf t in let wp = rf t in
    wf (fco2 n c r bs bf fs wp));
  reg "root_zone_water" (fun t ->
    let p = rprof t in let zroot = rf t in let th = rfl t in let ztop = rf t in let zmin = rf t in let aer = rf t in
    wopt (fun r -> wf r.rz_WrAct; wf r.rz_Dr_Zt; wf r.rz_Dr_Rz; wf r.rz_TAW_Zt; wf r.rz_TAW_Rz; wf r.rz_Act; wf r.rz_S;
                   wf r.rz_FC; wf r.rz_WP; wf r.rz_Dry; wf r.rz_Aer) (root_zone_water n p zroot th ztop zmin aer));
  main ()
