(* drv_api.ml — wrapper for the api unit: parse a clock, the recorded physics streams (one per _initialize) and a call
   sequence; run the extracted Api.v instance; print every outcome and the observable object state after every call.
   A sequence whose FIRST outcome is a clock error of the initialisation is printed as "N" (malformed stream). *)
open Model_api
open Drvlib

let rop t : op =
  match ri t with
  | 0 -> let n = rz t in let i = rb t in let p = rb t in Run (n, i, p)
  | 1 -> let i = rb t in RunTill i
  | 2 -> GetResults | 3 -> GetFlux | 4 -> GetStorage | 5 -> GetGrowth | 6 -> GetInfo
  | k -> raise (Bad ("op " ^ string_of_int k))

let wexc = function
  | ValueError_num_steps -> ws "VN" | ValueError_not_executed -> ws "VX" | ValueError_length -> ws "VL"
  | AttributeError_weather -> ws "AW" | AttributeError_clock_struct -> ws "AC" | AttributeError_outputs -> ws "AO"
  | ClockError IndexError -> ws "CI" | ClockError KeyError -> ws "CK"

let wkind = function Flux -> ws "flux" | Storage -> ws "storage" | Growth -> ws "growth"

let woutcome = function
  | Returned b -> ws "R"; wb b
  | Raised k -> ws "X"; wexc k
  | NoReturn -> ws "NR"
  | Results n -> ws "S"; wn n
  | NotFinished -> ws "NF"
  | Table (k, n, f) -> ws "T"; wkind k; wn n; wb f
  | Info (e, f) -> ws "I"; wb e; wb f

let () =
  reg "api_seq" (fun t ->
    let nsteps = rz t in let pl = rlist rz t in let hv = rlist rz t in let off = rb t in
    let streams = rlist (rlist (fun t -> let d = rb t in let m = rb t in (d, m))) t in
    let ops = rlist rop t in
    let obs = api_obs nsteps pl hv off streams ops in
    match obs with
    | (Raised (ClockError _), _) :: _ -> ws "N"
    | _ ->
      ws "S";
      wlist (fun (o, (((((ni, ex), ff), sticky), frames), mv)) ->
          woutcome o; wn ni; wb ex; wb ff; wb sticky; wb frames;
          wopt (fun (((fin, rows), sums), (tsc, season)) ->
              wb fin;
              wlist (fun (ts, ((k, gs), dap)) -> wz ts; wz k; wb gs; wz dap) rows;
              wlist (fun ((k, st), dt) -> wz k; wz st; wz dt) sums;
              wz tsc; wz season) mv) obs);
  main ()
