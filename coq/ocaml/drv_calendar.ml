(* drv_calendar.ml — wrapper for the calendar unit: dates, window, season list, crop-calendar day counts. *)
open Model_calendar
open Drvlib

let err_name = function
  | ValueError_BadDate -> "ValueError_BadDate"
  | ValueError_TooLong -> "ValueError_TooLong"
  | IndexError_TimeSpan -> "IndexError_TimeSpan"
  | ValueError_Uncovered -> "ValueError_Uncovered"
  | DateParseError_MonthDay -> "DateParseError_MonthDay"
  | IndexError_NoPlanting -> "IndexError_NoPlanting"
  | AssertionError_NotEnoughGDD -> "AssertionError_NotEnoughGDD"
  | AssertionError_OverAYear -> "AssertionError_OverAYear"

let wres (w : 'a -> unit) = function
  | Ok x -> ws "S"; w x
  | Err e -> ws "N"; ws (err_name e)

let rdate t = let y = rz t in let m = rz t in let d = rz t in ((y, m), d)
let rmd t = let m = rz t in let d = rz t in (m, d)

let rcrop t : float calCrop =
  let det = rz t in let ct = rz t in
  let em = rf t in let sen = rf t in let mat = rf t in let his = rf t in let flo = rf t in let yf = rf t in
  let cc0 = rf t in let ccx = rf t in let cgc = rf t in
  { k_determinant = det; k_croptype = ct; k_emergence = em; k_senescence = sen; k_maturity = mat; k_histart = his;
    k_flowering = flo; k_yldform = yf; k_cc0 = cc0; k_ccx = ccx; k_cgc = cgc }

let () =
  (* date n y m d : civil_from_days n ; days_from_civil y m d ; valid_date y m d ; is_leap y *)
  reg "date" (fun t ->
    let n = rz t in let y = rz t in let m = rz t in let d = rz t in
    let ((y', m'), d') = civil_from_days n in
    wz y'; wz m'; wz d'; wz (days_from_civil y m d); wb (valid_date y m d); wb (is_leap y));
  reg "valid" (fun t -> let y = rz t in let m = rz t in let d = rz t in wb (valid_date y m d); wb (sim_date_ok ((y, m), d)));
  reg "date_lt" (fun t -> let a = rdate t in let b = rdate t in wb (date_lt a b));
  reg "default_harvest" (fun t -> let pl = rmd t in let mat = rz t in let (m, d) = default_harvest pl mat in wz m; wz d);
  reg "cal_init" (fun t ->
    let st = rdate t in let en = rdate t in let w0 = rz t in let w1 = rz t in let pl = rmd t in
    let hv = ropt rmd t in let mat = rz t in
    wres (fun c -> wz c.ci_n_steps; wlist (fun (p, h) -> wz p; wz h) c.ci_seasons; wz c.ci_season_counter)
      (calendar_init st en w0 w1 pl hv mat));
  reg "cal_derived" (fun t ->
    let k = rcrop t in let d = cal_derived fnum k in
    wf d.r_canopydevend; wz d.r_canopy10pct; wz d.r_maxcanopy; wf d.r_hiend; wopt wf d.r_floweringend);
  reg "gdd_calendar" (fun t ->
    let k = rcrop t in let g = rfl t in
    wres (fun r -> wz r.g_maturitycd; wz r.g_maxcanopycd; wz r.g_canopydevendcd; wz r.g_histartcd; wz r.g_hiendcd;
                   wz r.g_yldformcd; wz r.g_floweringcd)
      (gdd_calendar fnum k g));
  reg "clip" (fun t ->
    let s = rz t in let e = rz t in let rows = rlist (fun t -> let d = rz t in (d, ())) t in
    wlist (fun (d, ()) -> wz d) (clip_weather s e rows));
  main ()
