(* drv_canopy.ml — wrappers for the canopy unit: parse tokens, call the model at the float
   instance, print the result.  No arithmetic here. *)
open Model_canopy
open Drvlib
let n = fnum

(* crop: cal em mat cde sen CC0 CCx CGC CDC pu0..3 pl0..3 etadj beta fs0..2 *)
let rcrop t : float cropC =
  let cal = rz t in let em = rf t in let mat = rf t in let cde = rf t in let sen = rf t in
  let cc0 = rf t in let ccx = rf t in let cgc = rf t in let cdc = rf t in
  let pu0 = rf t in let pu1 = rf t in let pu2 = rf t in let pu3 = rf t in
  let pl0 = rf t in let pl1 = rf t in let pl2 = rf t in let pl3 = rf t in
  let etadj = rz t in let beta = rf t in let fs0 = rf t in let fs1 = rf t in let fs2 = rf t in
  { k_cal = cal; k_emergence = em; k_maturity = mat; k_canopy_dev_end = cde; k_senescence = sen;
    k_CC0 = cc0; k_CCx = ccx; k_CGC = cgc; k_CDC = cdc;
    k_pu0 = pu0; k_pu1 = pu1; k_pu2 = pu2; k_pu3 = pu3; k_pl0 = pl0; k_pl1 = pl1; k_pl2 = pl2; k_pl3 = pl3;
    k_etadj = etadj; k_beta = beta; k_fs0 = fs0; k_fs1 = fs1; k_fs2 = fs2 }

(* state: cc cc_prev cc_ns cc_adj cc_adj_ns ccx_act ccx_act_ns ccx_w ccx_w_ns cc0_adj ccx_early_sen t_early_sen
          protected_seed premat_senes crop_dead *)
let rstate t : float canopyS =
  let cc = rf t in let ccp = rf t in let ccns = rf t in let adj = rf t in let adjns = rf t in
  let xa = rf t in let xans = rf t in let xw = rf t in let xwns = rf t in
  let c0a = rf t in let ces = rf t in let tes = rf t in
  let prot = rb t in let premat = rb t in let dead = rb t in
  { s_cc = cc; s_cc_prev = ccp; s_cc_ns = ccns; s_cc_adj = adj; s_cc_adj_ns = adjns;
    s_ccx_act = xa; s_ccx_act_ns = xans; s_ccx_w = xw; s_ccx_w_ns = xwns;
    s_cc0_adj = c0a; s_ccx_early_sen = ces; s_t_early_sen = tes;
    s_protected_seed = prot; s_premat_senes = premat; s_crop_dead = dead }

let wstate (s : float canopyS) =
  wf s.s_cc; wf s.s_cc_prev; wf s.s_cc_ns; wf s.s_cc_adj; wf s.s_cc_adj_ns;
  wf s.s_ccx_act; wf s.s_ccx_act_ns; wf s.s_ccx_w; wf s.s_ccx_w_ns;
  wf s.s_cc0_adj; wf s.s_ccx_early_sen; wf s.s_t_early_sen;
  wb s.s_protected_seed; wb s.s_premat_senes; wb s.s_crop_dead

let () =
  reg "adjust_CCx" (fun t ->
    let a = rf t in let b = rf t in let c = rf t in let d = rf t in let e = rf t in
    let f = rf t in let g = rf t in let h = rf t in let i = rf t in
    wf (adjust_CCx n a b c d e f g h i));
  reg "update_CCx_CDC" (fun t ->
    let a = rf t in let b = rf t in let c = rf t in let d = rf t in
    let (x, y) = update_CCx_CDC n a b c d in wf x; wf y);
  reg "canopy_cover" (fun t ->
    let k = rcrop t in let s = rstate t in
    let dap = rz t in let dcds = rz t in let gddcum = rf t in let dgdds = rf t in let gdd = rf t in
    let drrz = rf t in let drzt = rf t in let tawrz = rf t in let tawzt = rf t in let et0 = rf t in
    let gs = rb t in
    wopt wstate (canopy_cover n k s dap dcds gddcum dgdds gdd drrz drzt tawrz tawzt et0 gs));
  main ()
