(* drv_clock.ml — wrapper for the clock unit: parse tokens, run the extracted Clock.v instance, print. *)
open Model_clock
open Drvlib

let () =
  reg "clock_run" (fun t ->
    let nsteps = rz t in let pl = rlist rz t in let hv = rlist rz t in let off = rb t in
    let obs = rlist (fun t -> let d = rb t in let m = rb t in (d, m)) t in
    let ks = rlist rn t in let till = rb t in
    wopt (fun (((fin, rows), sums), ((((tsc, season), dap), mature), hflag)) ->
        wb fin;
        wlist (fun (ts, ((k, gs), dap)) -> wz ts; wz k; wb gs; wz dap) rows;
        wlist (fun ((k, st), dt) -> wz k; wz st; wz dt) sums;
        wz tsc; wz season; wz dap; wb mature; wb hflag)
      (clock_run nsteps pl hv off obs ks till));
  main ()
