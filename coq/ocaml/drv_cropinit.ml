(* drv_cropinit.ml — wrapper for the cropinit unit: the two harvest-index searches, Crop.calculate_additional_params,
   the SwitchGDD conversion formulas and the crop part of compute_variables.  No arithmetic here. *)
open Model_cropinit
open Drvlib
let n = fnum

let cal_err = function
  | ValueError_BadDate -> "ValueError_BadDate"
  | ValueError_TooLong -> "ValueError_TooLong"
  | IndexError_TimeSpan -> "IndexError_TimeSpan"
  | ValueError_Uncovered -> "ValueError_Uncovered"
  | DateParseError_MonthDay -> "DateParseError_MonthDay"
  | IndexError_NoPlanting -> "IndexError_NoPlanting"
  | AssertionError_NotEnoughGDD -> "AssertionError_NotEnoughGDD"
  | AssertionError_OverAYear -> "AssertionError_OverAYear"

let err_name = function
  | CalE e -> cal_err e
  | HIGC_NoReturn -> "HIGC_NoReturn"
  | HILinear_ZeroDivision -> "HILinear_ZeroDivision"

(* tail-recursive (the library's nat_of_int is not) *)
let nat_big (k : int) : nat = let rec go acc k = if k <= 0 then acc else go (S acc) (k - 1) in go O k

let rcal t : float calCrop =
  let det = rz t in let ct = rz t in
  let em = rf t in let sen = rf t in let mat = rf t in let his = rf t in let flo = rf t in let yf = rf t in
  let cc0 = rf t in let ccx = rf t in let cgc = rf t in
  { k_determinant = det; k_croptype = ct; k_emergence = em; k_senescence = sen; k_maturity = mat; k_histart = his;
    k_flowering = flo; k_yldform = yf; k_cc0 = cc0; k_ccx = ccx; k_cgc = cgc }

let wpair (ts, d) = wz ts; wf d

let () =
  (* higc tHI HI0 HIini *)
  reg "higc" (fun t -> let thi = rf t in let hi0 = rf t in let ini = rf t in wopt wf (calculate_HIGC n thi hi0 ini));
  (* higc_lin k tHI HI0 HIini : the same search with a unary budget of k steps *)
  reg "higc_lin" (fun t -> let k = ri t in let thi = rf t in let hi0 = rf t in let ini = rf t in
                           wopt wf (higc_lin n (nat_big k) thi hi0 ini));
  (* hilin tmax HIini HI0 HIGC *)
  reg "hilin" (fun t -> let tmax = rf t in let ini = rf t in let hi0 = rf t in let g = rf t in
                        wopt wpair (calculate_HI_linear n tmax ini hi0 g));
  reg "hilin_lin" (fun t -> let k = ri t in let tmax = rf t in let ini = rf t in let hi0 = rf t in let g = rf t in
                            wopt wpair (hilin_lin n (nat_big k) tmax ini hi0 g));
  reg "hilin_bits" (fun t -> let tmax = rf t in wn (hilin_bits n tmax));
  reg "addpar" (fun t -> let pp = rf t in let ss = rf t in let q1 = rf t in let q2 = rf t in
                         wf (cc0_of n pp ss); let (a, b) = sx_terms n q1 q2 in wf a; wf b);
  reg "cgc_gdd" (fun t -> let ccx = rf t in let cc0 = rf t in let mc = rf t in let em = rf t in wf (cgc_to_gdd n ccx cc0 mc em));
  reg "cdc_gdd" (fun t -> let ccx = rf t in let cdc = rf t in let tcd = rf t in let tg = rf t in wf (cdc_to_gdd n ccx cdc tcd tg));
  (* crop_init mode <cal: det ct em sen mat his flo yf cc0 ccx cgc> PlantPop SeedSize SxTopQ SxBotQ HI0 HIini bsted bface fsink WP <gdd list> conc ref *)
  reg "crop_init" (fun t ->
    let mode = rz t in let k = rcal t in
    let pp = rf t in let ss = rf t in let q1 = rf t in let q2 = rf t in let hi0 = rf t in let ini = rf t in
    let bs = rf t in let bf = rf t in let fs = rf t in let wp = rf t in
    let gdd = rfl t in let conc = rf t in let rf_ = rf t in
    let c = { i_mode = mode; i_cal = k; i_PlantPop = pp; i_SeedSize = ss; i_SxTopQ = q1; i_SxBotQ = q2; i_HI0 = hi0;
              i_HIini = ini; i_bsted = bs; i_bface = bf; i_fsink = fs; i_WP = wp } in
    match crop_init n c gdd conc rf_ with
    | IErr e -> ws "N"; ws (err_name e)
    | IOk o ->
      ws "S"; wf o.o_CC0; wf o.o_SxTop; wf o.o_SxBot;
      wopt (fun d -> wf d.r_canopydevend; wz d.r_canopy10pct; wz d.r_maxcanopy; wf d.r_hiend; wopt wf d.r_floweringend) o.o_cal;
      wopt (fun r -> wz r.g_maturitycd; wz r.g_maxcanopycd; wz r.g_canopydevendcd; wz r.g_histartcd; wz r.g_hiendcd;
                     wz r.g_yldformcd; wz r.g_floweringcd) o.o_gdd;
      wf o.o_YldFormCD; wf o.o_HIGC; wz o.o_tLinSwitch; wf o.o_dHILinear; wf o.o_fCO2);
  main ()
