(* drv_dayc.ml — wrapper for the CONCRETE day (DayConcrete.v): `par` stores the run parameters (profile, soil scalars,
   irrigation / field management, the crop of the season and the filler crop with everything the unit models read),
   `dayc` runs one recorded day through Clock.day_step with [procs_concrete] — or, per process, with the recorded
   result ("R ...") instead of the concrete unit ("C"): the hybrid mode used to localise a disagreement.
   Field orders: harness/suites/day.py (STATE, SPEC, *_F) and harness/suites/dayc.py (FULL crop encoders). *)
open Model_dayc
open Drvlib
let tr : float trigOps = { tsin = sin; tpi = Float.pi }

let r_gd t =
  let v_gdd = rf t in
  v_gdd
let w_gd (a : float a_gd) =
  wz a.gdA_method; wf a.gdA_tupp; wf a.gdA_tbase; wf a.gdA_tmax; wf a.gdA_tmin
let r_gw t =
  let v_fcadj = rfl t in
  let v_wtsoil = ropt rb t in
  let v_zgw = ropt rf t in
  { gwR_fcadj = v_fcadj; gwR_wtsoil = v_wtsoil; gwR_zgw = v_zgw }
let w_gw (a : float a_gw) =
  wopt wf a.gwA_zgw; wfl a.gwA_th; wfl a.gwA_fcadj; wz a.gwA_wt; wf a.gwA_gw
let r_rd t =
  let v_zroot = rf t in
  let v_rcor = rf t in
  { rdR_zroot = v_zroot; rdR_rcor = v_rcor }
let w_rd (a : float a_rd) =
  (fun c -> wz c.c_id) a.rdA_crop; wz a.rdA_dap; wf a.rdA_zroot; wz a.rdA_dcd; wf a.rdA_gddcum; wf a.rdA_dgdd; wf a.rdA_trratio; wfl a.rdA_th; wf a.rdA_cc; wf a.rdA_ccns; wb a.rdA_germ; wf a.rdA_rcor; wf a.rdA_tpot; wopt wf a.rdA_zgw; wf a.rdA_gdd; wb a.rdA_gs; wz a.rdA_wt
let r_pi t =
  let v_th = rfl t in
  let v_preirr = rf t in
  { piR_th = v_th; piR_preirr = v_preirr }
let w_pi (a : float a_pi) =
  (fun c -> wz c.c_id) a.piA_crop; wz a.piA_dap; wf a.piA_zroot; wfl a.piA_th; wb a.piA_gs; (fun c -> wz c.i_id) a.piA_irr
let r_dr t =
  let v_th = rfl t in
  let v_deepperc = rf t in
  let v_flux = rfl t in
  { drR_th = v_th; drR_deepperc = v_deepperc; drR_flux = v_flux }
let w_dr (a : float a_dr) =
  wfl a.drA_th; wfl a.drA_fcadj
let r_rp t =
  let v_runoff = rf t in
  let v_infl = rf t in
  let v_daysub = rf t in
  { rpR_runoff = v_runoff; rpR_infl = v_infl; rpR_daysub = v_daysub }
let w_rp (a : float a_rp) =
  wf a.rpA_rain; wfl a.rpA_th; wf a.rpA_daysub; wb a.rpA_srinhb; wb a.rpA_bunds; wf a.rpA_zbund; wf a.rpA_pct; wf a.rpA_cn; wz a.rpA_adjcn; wf a.rpA_zcn; wz a.rpA_ncomp
let r_ir t =
  let v_depletion = rf t in
  let v_taw = rf t in
  let v_irrcum = rf t in
  let v_irr = rf t in
  { irR_depletion = v_depletion; irR_taw = v_taw; irR_irrcum = v_irrcum; irR_irr = v_irr }
let w_ir (a : float a_ir) =
  wz a.irA_method; wfl a.irA_smt; wf a.irA_eff; wf a.irA_maxirr; wz a.irA_interval; wfl a.irA_sched; wf a.irA_depth; wf a.irA_maxseason; wz a.irA_stage; wf a.irA_irrcum; wf a.irA_epot; wf a.irA_tpot; wf a.irA_zroot; wfl a.irA_th; wz a.irA_dap; wz a.irA_tsc; (fun c -> wz c.c_id) a.irA_crop; wf a.irA_ztop; wb a.irA_gs; wf a.irA_rain; wf a.irA_runoff
let r_inf t =
  let v_th = rfl t in
  let v_surf = rf t in
  let v_deepperc = rf t in
  let v_runoff = rf t in
  let v_infl = rf t in
  let v_flux = rfl t in
  { infR_th = v_th; infR_surf = v_surf; infR_deepperc = v_deepperc; infR_runoff = v_runoff; infR_infl = v_infl; infR_flux = v_flux }
let w_inf (a : float a_inf) =
  wf a.infA_surf; wfl a.infA_fcadj; wfl a.infA_th; wf a.infA_infl; wf a.infA_irr; wf a.infA_eff; wb a.infA_bunds; wf a.infA_zbund; wfl a.infA_flux; wf a.infA_deepperc; wf a.infA_runoff; wb a.infA_gs
let r_cr t =
  let v_th = rfl t in
  let v_cr = rf t in
  { crR_th = v_th; crR_cr = v_cr }
let w_cr (a : float a_cr) =
  wz a.crA_nlayer; wf a.crA_fshape; wfl a.crA_th; wfl a.crA_fcadj; wopt wf a.crA_zgw; wfl a.crA_flux; wz a.crA_wt
let r_ge t =
  let v_germ = rb t in
  let v_prot = rb t in
  let v_dcd = rz t in
  let v_dgdd = rf t in
  { geR_germ = v_germ; geR_prot = v_prot; geR_dcd = v_dcd; geR_dgdd = v_dgdd }
let w_ge (a : float a_ge) =
  wb a.geA_germ; wb a.geA_prot; wz a.geA_dcd; wf a.geA_dgdd; wfl a.geA_th; wf a.geA_zgerm; wf a.geA_germthr; wf a.geA_plantmethod; wf a.geA_gdd; wb a.geA_gs
let r_gst t =
  let v_stage = rz t in
  v_stage
let w_gst (a : float a_gst) =
  (fun c -> wz c.c_id) a.gstA_crop; wz a.gstA_dap; wz a.gstA_dcd; wf a.gstA_gddcum; wf a.gstA_dgdd; wz a.gstA_old; wb a.gstA_gs
let r_cc t =
  let v_cc = rf t in
  let v_cc_prev = rf t in
  let v_cc_ns = rf t in
  let v_cc_adj = rf t in
  let v_cc_adj_ns = rf t in
  let v_ccx_act = rf t in
  let v_ccx_act_ns = rf t in
  let v_ccx_w = rf t in
  let v_ccx_w_ns = rf t in
  let v_cc0_adj = rf t in
  let v_ccx_early_sen = rf t in
  let v_t_early_sen = rf t in
  let v_prot = rb t in
  let v_premat = rb t in
  let v_dead = rb t in
  { ccR_cc = v_cc; ccR_cc_prev = v_cc_prev; ccR_cc_ns = v_cc_ns; ccR_cc_adj = v_cc_adj; ccR_cc_adj_ns = v_cc_adj_ns; ccR_ccx_act = v_ccx_act; ccR_ccx_act_ns = v_ccx_act_ns; ccR_ccx_w = v_ccx_w; ccR_ccx_w_ns = v_ccx_w_ns; ccR_cc0_adj = v_cc0_adj; ccR_ccx_early_sen = v_ccx_early_sen; ccR_t_early_sen = v_t_early_sen; ccR_prot = v_prot; ccR_premat = v_premat; ccR_dead = v_dead }
let w_cc (a : float a_cc) =
  (fun c -> wz c.c_id) a.ccA_crop; wf a.ccA_ztop; wz a.ccA_dap; wz a.ccA_dcd; wf a.ccA_gddcum; wf a.ccA_dgdd; wfl a.ccA_th; wf a.ccA_zroot; wf a.ccA_cc; wf a.ccA_cc_prev; wf a.ccA_cc_ns; wf a.ccA_cc_adj; wf a.ccA_cc_adj_ns; wf a.ccA_ccx_act; wf a.ccA_ccx_act_ns; wf a.ccA_ccx_w; wf a.ccA_ccx_w_ns; wf a.ccA_cc0_adj; wf a.ccA_ccx_early_sen; wf a.ccA_t_early_sen; wb a.ccA_prot; wb a.ccA_premat; wb a.ccA_dead; wf a.ccA_gdd; wf a.ccA_et0; wb a.ccA_gs
let r_ev t =
  let v_epot = rf t in
  let v_th = rfl t in
  let v_stage2 = rb t in
  let v_wstage2 = rf t in
  let v_wsurf = rf t in
  let v_surf = rf t in
  let v_evapz = rf t in
  let v_es = rf t in
  let v_espot = rf t in
  { evR_epot = v_epot; evR_th = v_th; evR_stage2 = v_stage2; evR_wstage2 = v_wstage2; evR_wsurf = v_wsurf; evR_surf = v_surf; evR_evapz = v_evapz; evR_es = v_es; evR_espot = v_espot }
let w_ev (a : float a_ev) =
  wz a.evA_steps; wb a.evA_simoff; wz a.evA_tsc; wf a.evA_zmin; wf a.evA_zmax; wf a.evA_rew; wf a.evA_kex; wf a.evA_fwcc; wf a.evA_fwrelexp; wf a.evA_fevap; wz a.evA_caltype; wf a.evA_senescence; wz a.evA_method; wf a.evA_wetsurf; wb a.evA_mulches; wf a.evA_fmulch; wf a.evA_mulchpct; wz a.evA_dap; wf a.evA_wsurf; wf a.evA_evapz; wb a.evA_stage2; wfl a.evA_th; wz a.evA_dcd; wf a.evA_gddcum; wf a.evA_dgdd; wf a.evA_ccxw; wf a.evA_ccadj; wf a.evA_ccxact; wf a.evA_cc; wb a.evA_premat; wf a.evA_surf; wf a.evA_wstage2; wf a.evA_epot; wf a.evA_et0; wf a.evA_infl; wf a.evA_rain; wf a.evA_irr; wb a.evA_gs
let r_tr t =
  let v_tr = rf t in
  let v_trpot_ns = rf t in
  let v_trpot = rf t in
  let v_irrnet = rf t in
  let v_age_days_ns = rf t in
  let v_age_days = rf t in
  let v_cc = rf t in
  let v_surf = rf t in
  let v_day_sub = rf t in
  let v_aer_comp = rfl t in
  let v_th = rfl t in
  let v_aer_days = rf t in
  let v_irr_net_cum = rf t in
  let v_depletion = rf t in
  let v_taw = rf t in
  let v_tr_ratio = rf t in
  let v_t_pot = rf t in
  { trR_tr = v_tr; trR_trpot_ns = v_trpot_ns; trR_trpot = v_trpot; trR_irrnet = v_irrnet; trR_age_days_ns = v_age_days_ns; trR_age_days = v_age_days; trR_cc = v_cc; trR_surf = v_surf; trR_day_sub = v_day_sub; trR_aer_comp = v_aer_comp; trR_th = v_th; trR_aer_days = v_aer_days; trR_irr_net_cum = v_irr_net_cum; trR_depletion = v_depletion; trR_taw = v_taw; trR_tr_ratio = v_tr_ratio; trR_t_pot = v_t_pot }
let w_tr (a : float a_tr) =
  wz a.trA_ncomp; wf a.trA_ztop; (fun c -> wz c.c_id) a.trA_crop; wz a.trA_method; wf a.trA_smt; wz a.trA_dap; wz a.trA_dcd; wf a.trA_age_days_ns; wf a.trA_age_days; wf a.trA_ccx_w_ns; wf a.trA_ccx_w; wf a.trA_cc_adj_ns; wf a.trA_cc_adj; wf a.trA_cc_ns; wf a.trA_cc; wf a.trA_cc_prev; wf a.trA_surf; wf a.trA_day_sub; wfl a.trA_aer_comp; wf a.trA_zroot; wfl a.trA_th; wf a.trA_t_early_sen; wf a.trA_aer_days; wf a.trA_rcor; wf a.trA_irr_net_cum; wf a.trA_depletion; wf a.trA_taw; wf a.trA_tr_ratio; wf a.trA_et0; wf a.trA_co2c; wf a.trA_co2r; wb a.trA_gs; wf a.trA_gdd
let r_gi t =
  let v_th = rfl t in
  let v_gwin = rf t in
  { giR_th = v_th; giR_gwin = v_gwin }
let w_gi (a : float a_gi) =
  wfl a.giA_th; wopt wb a.giA_wtsoil; wopt wf a.giA_zgw
let r_hr t =
  let v_hiref = rf t in
  let v_yf = rb t in
  let v_pct = rf t in
  { hrR_hiref = v_hiref; hrR_yf = v_yf; hrR_pct = v_pct }
let w_hr (a : float a_hr) =
  wf a.hrA_hiref; wf a.hrA_hifinal; wz a.hrA_dap; wz a.hrA_dcd; wb a.hrA_yf; wf a.hrA_pct; wf a.hrA_cc; wf a.hrA_ccprev; wf a.hrA_ccxw; (fun c -> wz c.c_id) a.hrA_crop; wb a.hrA_gs
let r_bm t =
  let v_b = rf t in
  let v_bns = rf t in
  { bmR_b = v_b; bmR_bns = v_bns }
let w_bm (a : float a_bm) =
  (fun c -> wz c.c_id) a.bmA_crop; wz a.bmA_dap; wz a.bmA_dcd; wf a.bmA_hiref; wf a.bmA_pct; wf a.bmA_b; wf a.bmA_bns; wf a.bmA_tr; wf a.bmA_trpot; wf a.bmA_et0; wb a.bmA_gs
let r_hi t =
  let v_hi = rf t in
  let v_hiadj = rf t in
  let v_preadj = rb t in
  let v_fpre = rf t in
  let v_fpol = rf t in
  let v_scor1 = rf t in
  let v_scor2 = rf t in
  let v_upp = rf t in
  let v_dwn = rf t in
  let v_fpost = rf t in
  { hiR_hi = v_hi; hiR_hiadj = v_hiadj; hiR_preadj = v_preadj; hiR_fpre = v_fpre; hiR_fpol = v_fpol; hiR_scor1 = v_scor1; hiR_scor2 = v_scor2; hiR_upp = v_upp; hiR_dwn = v_dwn; hiR_fpost = v_fpost }
let w_hi (a : float a_hi) =
  wf a.hiA_ztop; (fun c -> wz c.c_id) a.hiA_crop; wf a.hiA_hi; wf a.hiA_hiadj; wb a.hiA_preadj; wf a.hiA_fpre; wf a.hiA_fpol; wf a.hiA_scor1; wf a.hiA_scor2; wf a.hiA_upp; wf a.hiA_dwn; wf a.hiA_fpost; wf a.hiA_zroot; wfl a.hiA_th; wf a.hiA_t_early_sen; wf a.hiA_hiref; wz a.hiA_dap; wz a.hiA_dcd; wb a.hiA_yf; wf a.hiA_b; wf a.hiA_bns; wf a.hiA_cc; wf a.hiA_et0; wf a.hiA_tmax; wf a.hiA_tmin; wb a.hiA_gs
let r_rz t =
  let v_wr = rf t in
  let v_drzt = rf t in
  let v_drrz = rf t in
  let v_tawzt = rf t in
  let v_tawrz = rf t in
  { rzR_wr = v_wr; rzR_drzt = v_drzt; rzR_drrz = v_drrz; rzR_tawzt = v_tawzt; rzR_tawrz = v_tawrz }
let w_rz (a : float a_rz) =
  wf a.rzA_zroot; wfl a.rzA_th; wf a.rzA_ztop; wf a.rzA_zmin; wf a.rzA_aer
let r_state t : float dState =
  let v_age_days = rf t in
  let v_age_days_ns = rf t in
  let v_aer_days = rf t in
  let v_aer_days_comp = rfl t in
  let v_irr_cum = rf t in
  let v_delayed_gdds = rf t in
  let v_delayed_cds = rz t in
  let v_pct_lag_phase = rf t in
  let v_t_early_sen = rf t in
  let v_gdd_cum = rf t in
  let v_day_submerged = rf t in
  let v_irr_net_cum = rf t in
  let v_e_pot = rf t in
  let v_t_pot = rf t in
  let v_pre_adj = rb t in
  let v_crop_dead = rb t in
  let v_germination = rb t in
  let v_premat_senes = rb t in
  let v_growing_season = rb t in
  let v_yield_form = rb t in
  let v_stage2 = rb t in
  let v_wt_in_soil = ropt rb t in
  let v_stage = rf t in
  let v_f_pre = rf t in
  let v_f_post = rf t in
  let v_fpost_dwn = rf t in
  let v_fpost_upp = rf t in
  let v_h1_cor_asum = rf t in
  let v_h1_cor_bsum = rf t in
  let v_f_pol = rf t in
  let v_s_cor1 = rf t in
  let v_s_cor2 = rf t in
  let v_hi_ref = rf t in
  let v_HIfinal = rf t in
  let v_growth_stage = rz t in
  let v_tr_ratio = rf t in
  let v_r_cor = rf t in
  let v_canopy_cover = rf t in
  let v_canopy_cover_adj = rf t in
  let v_canopy_cover_ns = rf t in
  let v_canopy_cover_adj_ns = rf t in
  let v_biomass = rf t in
  let v_biomass_ns = rf t in
  let v_YieldPot = rf t in
  let v_harvest_index = rf t in
  let v_harvest_index_adj = rf t in
  let v_ccx_act = rf t in
  let v_ccx_act_ns = rf t in
  let v_ccx_w = rf t in
  let v_ccx_w_ns = rf t in
  let v_ccx_early_sen = rf t in
  let v_cc_prev = rf t in
  let v_protected_seed = rb t in
  let v_DryYield = rf t in
  let v_FreshYield = rf t in
  let v_z_root = rf t in
  let v_cc0_adj = rf t in
  let v_surface_storage = rf t in
  let v_z_gw = ropt rf t in
  let v_th_fc_Adj = rfl t in
  let v_th = rfl t in
  let v_thini = rfl t in
  let v_time_step_counter = rz t in
  let v_precipitation = rf t in
  let v_temp_max = rf t in
  let v_temp_min = rf t in
  let v_et0 = rf t in
  let v_sumET0EarlySen = rf t in
  let v_gdd = rf t in
  let v_w_surf = rf t in
  let v_evap_z = rf t in
  let v_w_stage_2 = rf t in
  let v_depletion = rf t in
  let v_taw = rf t in
  { d_age_days = v_age_days; d_age_days_ns = v_age_days_ns; d_aer_days = v_aer_days; d_aer_days_comp = v_aer_days_comp; d_irr_cum = v_irr_cum; d_delayed_gdds = v_delayed_gdds; d_delayed_cds = v_delayed_cds; d_pct_lag_phase = v_pct_lag_phase; d_t_early_sen = v_t_early_sen; d_gdd_cum = v_gdd_cum; d_day_submerged = v_day_submerged; d_irr_net_cum = v_irr_net_cum; d_e_pot = v_e_pot; d_t_pot = v_t_pot; d_pre_adj = v_pre_adj; d_crop_dead = v_crop_dead; d_germination = v_germination; d_premat_senes = v_premat_senes; d_growing_season = v_growing_season; d_yield_form = v_yield_form; d_stage2 = v_stage2; d_wt_in_soil = v_wt_in_soil; d_stage = v_stage; d_f_pre = v_f_pre; d_f_post = v_f_post; d_fpost_dwn = v_fpost_dwn; d_fpost_upp = v_fpost_upp; d_h1_cor_asum = v_h1_cor_asum; d_h1_cor_bsum = v_h1_cor_bsum; d_f_pol = v_f_pol; d_s_cor1 = v_s_cor1; d_s_cor2 = v_s_cor2; d_hi_ref = v_hi_ref; d_HIfinal = v_HIfinal; d_growth_stage = v_growth_stage; d_tr_ratio = v_tr_ratio; d_r_cor = v_r_cor; d_canopy_cover = v_canopy_cover; d_canopy_cover_adj = v_canopy_cover_adj; d_canopy_cover_ns = v_canopy_cover_ns; d_canopy_cover_adj_ns = v_canopy_cover_adj_ns; d_biomass = v_biomass; d_biomass_ns = v_biomass_ns; d_YieldPot = v_YieldPot; d_harvest_index = v_harvest_index; d_harvest_index_adj = v_harvest_index_adj; d_ccx_act = v_ccx_act; d_ccx_act_ns = v_ccx_act_ns; d_ccx_w = v_ccx_w; d_ccx_w_ns = v_ccx_w_ns; d_ccx_early_sen = v_ccx_early_sen; d_cc_prev = v_cc_prev; d_protected_seed = v_protected_seed; d_DryYield = v_DryYield; d_FreshYield = v_FreshYield; d_z_root = v_z_root; d_cc0_adj = v_cc0_adj; d_surface_storage = v_surface_storage; d_z_gw = v_z_gw; d_th_fc_Adj = v_th_fc_Adj; d_th = v_th; d_thini = v_thini; d_time_step_counter = v_time_step_counter; d_precipitation = v_precipitation; d_temp_max = v_temp_max; d_temp_min = v_temp_min; d_et0 = v_et0; d_sumET0EarlySen = v_sumET0EarlySen; d_gdd = v_gdd; d_w_surf = v_w_surf; d_evap_z = v_evap_z; d_w_stage_2 = v_w_stage_2; d_depletion = v_depletion; d_taw = v_taw }
let w_state (s : float dState) =
  wf s.d_age_days; wf s.d_age_days_ns; wf s.d_aer_days; wfl s.d_aer_days_comp; wf s.d_irr_cum; wf s.d_delayed_gdds; wz s.d_delayed_cds; wf s.d_pct_lag_phase; wf s.d_t_early_sen; wf s.d_gdd_cum; wf s.d_day_submerged; wf s.d_irr_net_cum; wf s.d_e_pot; wf s.d_t_pot; wb s.d_pre_adj; wb s.d_crop_dead; wb s.d_germination; wb s.d_premat_senes; wb s.d_growing_season; wb s.d_yield_form; wb s.d_stage2; wopt wb s.d_wt_in_soil; wf s.d_stage; wf s.d_f_pre; wf s.d_f_post; wf s.d_fpost_dwn; wf s.d_fpost_upp; wf s.d_h1_cor_asum; wf s.d_h1_cor_bsum; wf s.d_f_pol; wf s.d_s_cor1; wf s.d_s_cor2; wf s.d_hi_ref; wf s.d_HIfinal; wz s.d_growth_stage; wf s.d_tr_ratio; wf s.d_r_cor; wf s.d_canopy_cover; wf s.d_canopy_cover_adj; wf s.d_canopy_cover_ns; wf s.d_canopy_cover_adj_ns; wf s.d_biomass; wf s.d_biomass_ns; wf s.d_YieldPot; wf s.d_harvest_index; wf s.d_harvest_index_adj; wf s.d_ccx_act; wf s.d_ccx_act_ns; wf s.d_ccx_w; wf s.d_ccx_w_ns; wf s.d_ccx_early_sen; wf s.d_cc_prev; wb s.d_protected_seed; wf s.d_DryYield; wf s.d_FreshYield; wf s.d_z_root; wf s.d_cc0_adj; wf s.d_surface_storage; wopt wf s.d_z_gw; wfl s.d_th_fc_Adj; wfl s.d_th; wfl s.d_thini; wz s.d_time_step_counter; wf s.d_precipitation; wf s.d_temp_max; wf s.d_temp_min; wf s.d_et0; wf s.d_sumET0EarlySen; wf s.d_gdd; wf s.d_w_surf; wf s.d_evap_z; wf s.d_w_stage_2; wf s.d_depletion; wf s.d_taw

let r_crop t : float dCrop =
  let id = rz t in let m = rz t in let tupp = rf t in let tbase = rf t in let germthr = rf t in let pm = rf t in
  let cal = rz t in let sen = rf t in let yld = rf t in let mat = rf t in let zmin = rf t in let aer = rf t in
  let cc0 = rf t in let hi0 = rf t in
  { c_id = id; c_GDDmethod = m; c_Tupp = tupp; c_Tbase = tbase; c_GermThr = germthr; c_PlantMethod = pm; c_CalendarType = cal;
    c_Senescence = sen; c_YldWC = yld; c_Maturity = mat; c_Zmin = zmin; c_Aer = aer; c_CC0 = cc0; c_HI0 = hi0 }
let r_irr t : float dIrr =
  let id = rz t in let m = rz t in let smt = rfl t in let eff = rf t in let maxirr = rf t in let itv = rz t in
  let sched = rfl t in let depth = rf t in let maxs = rf t in let net = rf t in let wet = rf t in
  { i_id = id; i_method = m; i_SMT = smt; i_AppEff = eff; i_MaxIrr = maxirr; i_IrrInterval = itv; i_Schedule = sched;
    i_depth = depth; i_MaxIrrSeason = maxs; i_NetIrrSMT = net; i_WetSurf = wet }
let r_field t : float dField =
  let id = rz t in let sr = rb t in let bunds = rb t in let zb = rf t in let adj = rb t in let pct = rf t in
  let mul = rb t in let fm = rf t in let mp = rf t in let bw = rf t in
  { f_id = id; f_sr_inhb = sr; f_bunds = bunds; f_z_bund = zb; f_cn_adj = adj; f_cn_adj_pct = pct; f_mulches = mul;
    f_f_mulch = fm; f_mulch_pct = mp; f_bund_water = bw }
let r_soil t : float dSoil =
  let cn = rf t in let adjcn = rz t in let zcn = rf t in let ncomp = rz t in let ztop = rf t in let nlayer = rz t in
  let fshape = rf t in let zgerm = rf t in let zmin = rf t in let zmax = rf t in let rew = rf t in let kex = rf t in
  let fwcc = rf t in let fwrel = rf t in let fevap = rf t in let prof = rprof t in
  { so_cn = cn; so_adj_cn = adjcn; so_z_cn = zcn; so_nComp = ncomp; so_z_top = ztop; so_nLayer = nlayer; so_fshape_cr = fshape;
    so_z_germ = zgerm; so_evap_z_min = zmin; so_evap_z_max = zmax; so_rew = rew; so_kex = kex; so_fwcc = fwcc;
    so_f_wrel_exp = fwrel; so_f_evap = fevap; so_prof = prof }

(* Zmin Zmax PctZmin Emergence MaxRooting fshape_r fshape_ex CalendarType SxTop SxBot p_up[1] fshape_w[1] *)
let r_rootcrop t : float rootCrop =
  let zmin = rf t in let zmax = rf t in let pct = rf t in let em = rf t in let mr = rf t in
  let fr = rf t in let fex = rf t in let cal = rz t in let sxt = rf t in let sxb = rf t in
  let pu = rf t in let fw = rf t in
  { rc_Zmin = zmin; rc_Zmax = zmax; rc_PctZmin = pct; rc_Emergence = em; rc_MaxRooting = mr; rc_fshape_r = fr;
    rc_fshape_ex = fex; rc_cal = cal; rc_SxTop = sxt; rc_SxBot = sxb; rc_pup1 = pu; rc_fshape_w1 = fw }
(* CalendarType Emergence Maturity CanopyDevEnd Senescence CC0 CCx CGC CDC p_up[0..3] p_lo[0..3] ETadj beta fshape_w[0..2] *)
let r_cropc t : float cropC =
  let cal = rz t in let em = rf t in let mat = rf t in let cde = rf t in let sen = rf t in let cc0 = rf t in
  let ccx = rf t in let cgc = rf t in let cdc = rf t in
  let pu0 = rf t in let pu1 = rf t in let pu2 = rf t in let pu3 = rf t in
  let pl0 = rf t in let pl1 = rf t in let pl2 = rf t in let pl3 = rf t in
  let etadj = rz t in let beta = rf t in let fs0 = rf t in let fs1 = rf t in let fs2 = rf t in
  { k_cal = cal; k_emergence = em; k_maturity = mat; k_canopy_dev_end = cde; k_senescence = sen; k_CC0 = cc0; k_CCx = ccx;
    k_CGC = cgc; k_CDC = cdc; k_pu4 = pu0; k_pu5 = pu1; k_pu6 = pu2; k_pu7 = pu3; k_pl4 = pl0; k_pl5 = pl1; k_pl6 = pl2; k_pl7 = pl3;
    k_etadj = etadj; k_beta0 = beta; k_fs3 = fs0; k_fs4 = fs1; k_fs5 = fs2 }
let r_ycrop t : float yCrop =
  let ct = rz t in let det = rf t in let his = rf t in let yf = rf t in let hie = rf t in let flo = rf t in
  let cde = rf t in let tl = rf t in let dl = rf t in let gc = rf t in let hi0 = rf t in let hini = rf t in
  let wp = rf t in let wpy = rf t in let fco2 = rf t in let dpre = rf t in let dhi0 = rf t in let a = rf t in
  let b = rf t in let exc = rf t in let ccmin = rf t in let ywc = rf t in
  { y_CropType = ct; y_Determinant = det; y_HIstartCD = his; y_YldFormCD = yf; y_HIendCD = hie; y_FloweringCD = flo;
    y_CanopyDevEndCD = cde; y_tLinSwitch = tl; y_dHILinear = dl; y_HIGC = gc; y_HI0 = hi0; y_HIini = hini;
    y_WP = wp; y_WPy = wpy; y_fCO2 = fco2; y_dHI_pre = dpre; y_dHI0 = dhi0; y_a_HI = a; y_b_HI = b; y_exc = exc;
    y_CCmin = ccmin; y_YldWC = ywc }
let r_scrop t : float sCrop =
  let zmin = rf t in let aer = rf t in
  let pu0 = rf t in let pu1 = rf t in let pu2 = rf t in let pu3 = rf t in
  let pl0 = rf t in let pl1 = rf t in let pl2 = rf t in let pl3 = rf t in
  let etadj = rz t in let beta = rf t in let fs0 = rf t in let fs1 = rf t in let fs2 = rf t in
  let ph = rz t in let pc = rz t in let txl = rf t in let txu = rf t in let tnl = rf t in let tnu = rf t in
  let fb = rf t in
  { s_Zmin = zmin; s_Aer = aer; s_pu0 = pu0; s_pu1 = pu1; s_pu2 = pu2; s_pu3 = pu3; s_pl0 = pl0; s_pl1 = pl1;
    s_pl2 = pl2; s_pl3 = pl3; s_ETadj = etadj; s_beta = beta; s_fs0 = fs0; s_fs1 = fs1; s_fs2 = fs2;
    s_PolHeat = ph; s_PolCold = pc; s_Tmax_lo = txl; s_Tmax_up = txu; s_Tmin_lo = tnl; s_Tmin_up = tnu;
    s_fshape_b = fb }
let r_trcrop t : float trCrop =
  let maxcd = rf t in let kcb = rf t in let fage = rf t in let atr = rf t in
  let cold = rz t in let gup = rf t in let glo = rf t in
  let lag = rf t in let zmin = rf t in let aer = rf t in
  let pu0 = rf t in let pu1 = rf t in let pu2 = rf t in let pu3 = rf t in
  let pl0 = rf t in let pl1 = rf t in let pl2 = rf t in let pl3 = rf t in
  let etadj = rz t in let beta = rf t in let fs0 = rf t in let fs1 = rf t in let fs2 = rf t in
  let sxt = rf t in let sxb = rf t in
  { k_MaxCanopyCD = maxcd; k_Kcb = kcb; k_fage = fage; k_a_Tr = atr; k_TrColdStress = cold; k_GDD_up = gup;
    k_GDD_lo = glo; k_LagAer = lag; k_Zmin = zmin; k_Aer = aer; k_pu0 = pu0; k_pu1 = pu1; k_pu2 = pu2; k_pu3 = pu3;
    k_pl0 = pl0; k_pl1 = pl1; k_pl2 = pl2; k_pl3 = pl3; k_ETadj = etadj; k_beta = beta; k_fs0 = fs0; k_fs1 = fs1;
    k_fs2 = fs2; k_SxTop = sxt; k_SxBot = sxb }
let r_cropfull t : float cropFull =
  let root = r_rootcrop t in let can = r_cropc t in let y = r_ycrop t in let s = r_scrop t in let k = r_trcrop t in
  let c10 = rf t in let maxcan = rf t in
  { cf_root = root; cf_can = can; cf_y = y; cf_s = s; cf_tr = k; cf_c10 = c10; cf_maxcan = maxcan }

let w_st (s : float dState st) = wz s.dap; wb s.mature; wb s.hflag; w_state s.phys

(* the run parameters set by the last `par` line *)
let cur_par : float dPar option ref = ref None
let cur_crops : (z -> float cropFull) ref = ref (fun _ -> raise (Bad "no par"))

(* "C": use the concrete process; "R <tokens>": use the recorded result *)
let hyb1 (rd : toks -> 'r) t (conc : 'a -> 'r option) : 'a -> 'r option =
  match next t with "C" -> conc | "R" -> let x = rd t in (fun _ -> Some x) | s -> raise (Bad ("mode " ^ s))
let hyb2 (rd : toks -> 'r) t (conc : 'p -> 'a -> 'r option) : 'p -> 'a -> 'r option =
  match next t with "C" -> conc | "R" -> let x = rd t in (fun _ _ -> Some x) | s -> raise (Bad ("mode " ^ s))

let () =
  reg "par" (fun t ->
    let soil = r_soil t in let irr = r_irr t in let firr = r_irr t in let field = r_field t in let ffield = r_field t in
    let wt = rz t in let co2c = rf t in let co2r = rf t in let steps = rz t in let simoff = rb t in
    let crop = r_crop t in let cf = r_cropfull t in let fcrop = r_crop t in let fcf = r_cropfull t in
    if t.rest <> [] then raise (Bad "trailing tokens");
    cur_par := Some { p_soil = soil; p_irr = irr; p_fallow_irr = firr; p_field = field; p_fallow_field = ffield;
                      p_crop = (fun _ -> crop); p_fallow_crop = fcrop; p_water_table = wt; p_co2c = (fun _ -> co2c); p_co2r = co2r;
                      p_evap_steps = steps; p_sim_off = simoff };
    cur_crops := (fun id -> if int_of_z id = -1 then fcf else cf);
    ws "OK");
  reg "dayc" (fun t ->
    let par = match !cur_par with Some p -> p | None -> raise (Bad "no par") in
    let tsc = rz t in let season = rz t in let dap = rz t in let mature = rb t in let hflag = rb t in
    let pl = rlist rz t in let hv = rlist rz t in
    let rain = rf t in let tmax = rf t in let tmin = rf t in let et0 = rf t in let gw = rf t in
    let w = { w_rain = rain; w_tmax = tmax; w_tmin = tmin; w_et0 = et0; w_gw = gw } in
    let s = r_state t in
    let pc = procs_concrete fnum tr !cur_crops in
    (* growing_degree_day: "C" | "R N" | "R S g" *)
    let x_gd = (match next t with
                | "C" -> pc.po_gd
                | "R" -> let g = ropt r_gd t in (fun _ -> g)
                | m -> raise (Bad ("mode " ^ m))) in
    let x_gw = hyb2 r_gw t pc.po_gw in let x_rd = hyb2 r_rd t pc.po_rd in let x_pi = hyb2 r_pi t pc.po_pi in
    let x_dr = hyb2 r_dr t pc.po_dr in let x_rp = hyb2 r_rp t pc.po_rp in let x_ir = hyb2 r_ir t pc.po_ir in
    let x_inf = hyb2 r_inf t pc.po_inf in let x_cr = hyb2 r_cr t pc.po_cr in let x_ge = hyb2 r_ge t pc.po_ge in
    let x_gst = hyb1 r_gst t pc.po_gst in let x_cc = hyb2 r_cc t pc.po_cc in let x_ev = hyb2 r_ev t pc.po_ev in
    let x_tr = hyb2 r_tr t pc.po_tr in let x_gi = hyb2 r_gi t pc.po_gi in let x_hr = hyb1 r_hr t pc.po_hr in
    let x_bm = hyb1 r_bm t pc.po_bm in let x_hi = hyb2 r_hi t pc.po_hi in let x_rz = hyb2 r_rz t pc.po_rz in
    if t.rest <> [] then raise (Bad "trailing tokens");
    let po = { po_gd = x_gd; po_gw = x_gw; po_rd = x_rd; po_pi = x_pi; po_dr = x_dr; po_rp = x_rp; po_ir = x_ir; po_inf = x_inf;
               po_cr = x_cr; po_ge = x_ge; po_gst = x_gst; po_cc = x_cc; po_ev = x_ev; po_tr = x_tr; po_gi = x_gi; po_hr = x_hr;
               po_bm = x_bm; po_hi = x_hi; po_rz = x_rz } in
    let c = { n_steps = z_of_int 0; plant = pl; harv = hv; off_season = par.p_sim_off } in
    let st0 = { phys = s; tsc = tsc; season = season; dap = dap; mature = mature; hflag = hflag; fin = false } in
    match day_step_opt fnum par po c w st0 with
    | None -> ws "N"
    | Some ((st1, (_, row)), sr) ->
      ws "S"; w_st st1;
      let f = row.r_flux in
      wz f.fl_tsc; wz f.fl_season; wz f.fl_dap; wf f.fl_Wr; wopt wf f.fl_zgw; wf f.fl_surf; wf f.fl_IrrDay; wf f.fl_Infl;
      wf f.fl_Runoff; wf f.fl_DeepPerc; wf f.fl_CR; wf f.fl_GwIn; wf f.fl_Es; wf f.fl_EsPot; wf f.fl_Tr; wf f.fl_TrPot;
      let g = row.r_growth in
      wz g.gr_tsc; wz g.gr_season; wz g.gr_dap; wf g.gr_gdd; wf g.gr_gdd_cum; wf g.gr_z_root; wf g.gr_cc; wf g.gr_cc_ns;
      wf g.gr_B; wf g.gr_B_ns; wf g.gr_HI; wf g.gr_HIadj; wf g.gr_Dry; wf g.gr_Fresh; wf g.gr_Pot;
      let o = row.r_sto in
      wz o.st_tsc; wb o.st_gs; wz o.st_dap; wfl o.st_th;
      wopt (fun r -> wz r.s_season; wz r.s_date; wz r.s_step; wf r.s_out.o_Dry; wf r.s_out.o_Fresh; wf r.s_out.o_Pot; wf r.s_out.o_IrrTot) sr);
  (* ---- the whole run (RunConcrete.v) ----------------------------------------------------------------------------
     `rpar k <par tokens>`: the parameters as they are on the days of season k (k = -1: before the first planting);
     `runc n_steps <clock0> nW <5 tokens per step> <state>`: run_till_c from the given clock/state; one output line:
     status (F fin | R | P tsc | U), final clock + state, the rows of the three tables in chronological order, the summary rows *)
  let season_tab : (int, float dCrop * float cropFull * float) Hashtbl.t = Hashtbl.create 8 in
  let base_par : float dPar option ref = ref None in
  let fallow_full : float cropFull option ref = ref None in
  reg "rpar" (fun t ->
    let k = ri t in
    let soil = r_soil t in let irr = r_irr t in let firr = r_irr t in let field = r_field t in let ffield = r_field t in
    let wt = rz t in let co2c = rf t in let co2r = rf t in let steps = rz t in let simoff = rb t in
    let crop = r_crop t in let cf = r_cropfull t in let fcrop = r_crop t in let fcf = r_cropfull t in
    if t.rest <> [] then raise (Bad "trailing tokens");
    if k = -2 then (Hashtbl.reset season_tab; base_par := None);
    Hashtbl.replace season_tab k (crop, cf, co2c);
    fallow_full := Some fcf;
    base_par := Some { p_soil = soil; p_irr = irr; p_fallow_irr = firr; p_field = field; p_fallow_field = ffield;
                       p_crop = (fun _ -> fcrop); p_fallow_crop = fcrop; p_water_table = wt; p_co2c = (fun _ -> co2c); p_co2r = co2r;
                       p_evap_steps = steps; p_sim_off = simoff };
    ws "OK");
  reg "rclear" (fun t -> Hashtbl.reset season_tab; base_par := None; ws "OK");
  reg "runc" (fun t ->
    let bp = match !base_par with Some p -> p | None -> raise (Bad "no rpar") in
    let fcf = match !fallow_full with Some p -> p | None -> raise (Bad "no rpar") in
    let look k = match Hashtbl.find_opt season_tab (int_of_z k) with Some x -> Some x | None -> None in
    let par = { bp with p_crop = (fun k -> match look k with Some (c, _, _) -> c | None -> bp.p_fallow_crop);
                        p_co2c = (fun k -> match look k with Some (_, _, c) -> c | None -> bp.p_co2c k) } in
    let crops id = let i = int_of_z id in if i < 0 then fcf else (match Hashtbl.find_opt season_tab i with Some (_, cf, _) -> cf | None -> fcf) in
    let nsteps = rz t in
    let tsc = rz t in let season = rz t in let dap = rz t in let mature = rb t in let hflag = rb t in
    let pl = rlist rz t in let hv = rlist rz t in
    let wsl = rlist (fun t -> let rain = rf t in let tmax = rf t in let tmin = rf t in let et0 = rf t in let gw = rf t in
                               { w_rain = rain; w_tmax = tmax; w_tmin = tmin; w_et0 = et0; w_gw = gw }) t in
    let s = r_state t in
    (* optional call partition: "K n k1 .. kn" = run_model(num_steps = k1), then k2, ... (run_steps_c); default: till termination *)
    let parts = (match t.rest with [] -> None | _ -> (match next t with "K" -> Some (rlist ri t) | x -> raise (Bad ("mode " ^ x)))) in
    if t.rest <> [] then raise (Bad "trailing tokens");
    let c = { n_steps = nsteps; plant = pl; harv = hv; off_season = par.p_sim_off } in
    let m0 = { st0 = { phys = s; tsc = tsc; season = season; dap = dap; mature = mature; hflag = hflag; fin = false };
               tabs = { rows = []; sums = [] } } in
    let w_row (row : float dRow) =
      let f = row.r_flux in
      wz f.fl_tsc; wz f.fl_season; wz f.fl_dap; wf f.fl_Wr; wopt wf f.fl_zgw; wf f.fl_surf; wf f.fl_IrrDay; wf f.fl_Infl;
      wf f.fl_Runoff; wf f.fl_DeepPerc; wf f.fl_CR; wf f.fl_GwIn; wf f.fl_Es; wf f.fl_EsPot; wf f.fl_Tr; wf f.fl_TrPot;
      let g = row.r_growth in
      wz g.gr_tsc; wz g.gr_season; wz g.gr_dap; wf g.gr_gdd; wf g.gr_gdd_cum; wf g.gr_z_root; wf g.gr_cc; wf g.gr_cc_ns;
      wf g.gr_B; wf g.gr_B_ns; wf g.gr_HI; wf g.gr_HIadj; wf g.gr_Dry; wf g.gr_Fresh; wf g.gr_Pot;
      let o = row.r_sto in
      wz o.st_tsc; wb o.st_gs; wz o.st_dap; wfl o.st_th in
    let w_sum r = wz r.s_season; wz r.s_date; wz r.s_step; wf r.s_out.o_Dry; wf r.s_out.o_Fresh; wf r.s_out.o_Pot; wf r.s_out.o_IrrTot in
    let result = (match parts with
      | None -> run_till_c fnum tr par crops c wsl (nat_of_int (int_of_z nsteps + 2)) m0
      | Some ks ->
        let rec go m = function
          | [] -> Some (GOk m)
          | k :: rest -> if m.st0.fin then Some (GOk m)      (* a call on a finished model is not part of the property *)
                         else (match run_steps_c fnum tr par crops c wsl (nat_of_int k) m with
                               | GOk m' -> go m' rest
                               | r -> Some r) in
        go m0 ks) in
    match result with
    | None -> ws "U"
    | Some (GRaise IndexError) -> ws "R IndexError"
    | Some (GRaise KeyError) -> ws "R KeyError"
    | Some (Stopped tt) -> ws "P"; wz tt
    | Some (GOk m) ->
      ws "F"; wz m.st0.tsc; wz m.st0.season; wb m.st0.fin; w_st m.st0;
      let rs = List.rev m.tabs.rows in
      wi (List.length rs); List.iter (fun (_, row) -> ws "|"; w_row row) rs;
      let ss = List.rev m.tabs.sums in
      ws "#"; wi (List.length ss); List.iter w_sum ss);
  main ()
