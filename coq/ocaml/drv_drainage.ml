(* drv_drainage.ml — wrapper for the drainage unit: parse tokens, call the model at the float
   instance, print the result.  No arithmetic here. *)
open Model_drainage
open Drvlib
let n = fnum

let () =
  reg "drainage" (fun t ->
    let p = rprof t in let th = rfl t in let fcadj = rfl t in
    wopt (fun ((th', dp), fl) -> wfl th'; wf dp; wfl fl) (drainage n p th fcadj));
  main ()
