(* drv_evap.ml — wrapper for the evaporation unit: parse tokens, call the model at the float
   instance, print the result.  No arithmetic here. *)
open Model_evap
open Drvlib
let n = fnum

let () =
  reg "evap_layer_water_content" (fun t ->
    let p = rprof t in let th = rfl t in let z = rf t in
    wopt (fun e -> wf e.el_sat; wf e.el_fc; wf e.el_wp; wf e.el_dry; wf e.el_act)
      (evap_layer_water_content n th z p));
  reg "soil_evaporation" (fun t ->
    (* argument order = the Python signature (without the unused NewCond_Epot) *)
    let steps = rz t in let simoff = rb t in let tsc = rz t in let p = rprof t in
    let zmin = rf t in let zmax = rf t in let rew = rf t in let kex = rf t in let fwcc = rf t in
    let fwrelexp = rf t in let fevap = rf t in let caltype = rz t in let senescence = rf t in
    let irrmethod = rz t in let wetsurf = rf t in let mulches = rb t in let fmulch = rf t in let mulchpct = rf t in
    let dap = rz t in let wsurf = rf t in let evapz = rf t in let stage2 = rb t in let th = rfl t in
    let delayedcds = rf t in let gddcum = rf t in let delayedgdds = rf t in
    let ccxw = rf t in let ccadj = rf t in let ccxact = rf t in let cc = rf t in let premat = rb t in
    let surf = rf t in let wstage2 = rf t in
    let et0 = rf t in let infl = rf t in let rain = rf t in let irr = rf t in let gs = rb t in
    let par = { ep_steps = steps; ep_simoff = simoff; ep_zmin = zmin; ep_zmax = zmax; ep_rew = rew; ep_kex = kex;
                ep_fwcc = fwcc; ep_fwrelexp = fwrelexp; ep_fevap = fevap; ep_caltype = caltype;
                ep_senescence = senescence; ep_irrmethod = irrmethod; ep_wetsurf = wetsurf; ep_mulches = mulches;
                ep_fmulch = fmulch; ep_mulchpct = mulchpct } in
    let st = { es_tsc = tsc; es_dap = dap; es_wsurf = wsurf; es_evapz = evapz; es_stage2 = stage2;
               es_delayedcds = delayedcds; es_gddcum = gddcum; es_delayedgdds = delayedgdds; es_ccxw = ccxw;
               es_ccadj = ccadj; es_ccxact = ccxact; es_cc = cc; es_prematsenes = premat; es_surf = surf;
               es_wstage2 = wstage2 } in
    wopt (fun o -> wf o.eo_epot; wfl o.eo_th; wb o.eo_stage2; wf o.eo_wstage2; wf o.eo_wsurf; wf o.eo_surf;
                   wf o.eo_evapz; wf o.eo_es; wf o.eo_espot)
      (soil_evaporation n par p st th et0 infl rain irr gs));
  main ()
