(* drv_gw.ml — wrappers for the groundwater unit (check_groundwater_table, capillary_rise,
   groundwater_inflow): parse tokens, call the model at the float instance, print the result.
   No arithmetic here. *)
open Model_gw
open Drvlib
let n = fnum

let () =
  reg "check_groundwater_table" (fun t ->
    let p = rprof t in let fc0 = rfl t in let wt = rz t in let zgw = rf t in
    wopt (fun (fc, o) -> wfl fc; wopt (fun (b, z) -> wb b; wf z) o)
      (check_groundwater_table n p fc0 wt zgw));
  reg "capillary_rise" (fun t ->
    let p = rprof t in let nl = rz t in let fshape = rf t in let th = rfl t in let fc = rfl t in
    let zgw = rf t in let flux = rfl t in let wt = rz t in
    wopt (fun (th', cr) -> wfl th'; wf cr) (capillary_rise n p nl fshape th fc zgw flux wt));
  reg "groundwater_inflow" (fun t ->
    let p = rprof t in let th = rfl t in let wt = rb t in let zgw = rf t in
    wopt (fun (th', g) -> wfl th'; wf g) (groundwater_inflow n p th wt zgw));
  main ()
