(* drv_infiltration.ml — wrapper for the infiltration unit: parse tokens, call the model at
   the float instance, print the result.  No arithmetic here. *)
open Model_infiltration
open Drvlib
let n = fnum

let () =
  reg "infiltration" (fun t ->
    let p = rprof t in let surf = rf t in let fcadj = rfl t in let th = rfl t in
    let infl = rf t in let irr = rf t in let eff = rf t in let bunds = rb t in let zb = rf t in
    let flux = rfl t in let dp0 = rf t in let ro0 = rf t in let gs = rb t in
    wopt (fun (((((th', s), dp), ro), inf), fl) -> wfl th'; wf s; wf dp; wf ro; wf inf; wfl fl)
      (infiltration n p surf fcadj th infl irr eff bunds zb flux dp0 ro0 gs));
  main ()
