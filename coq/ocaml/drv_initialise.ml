(* drv_initialise.ml — wrapper for the initialise unit (Init/Initialise.v).
   `config <tokens>`   stores the user's configuration (token order: harness/suites/initialise.py `enc_config`);
   `initialise`        N <error> | S <par tokens of season 0, as dayc.par_hook> <clock> <weather of every step> <initial state>;
   `season k`          the par tokens with the crop / CO2 concentration of season k (as recorded on the days of season k);
   `run_config`        I <error> | the output of drv_dayc's `runc` (status, final clock + state, the three tables, summary rows),
                       the whole run started from the configuration alone.
   Printers w_state / w_row: copies of drv_dayc.ml.  No arithmetic here. *)
open Model_initialise
open Drvlib
let n = fnum
let tr : float trigOps = { tsin = sin; tpi = Float.pi }

(* ---- readers ------------------------------------------------------------------------------------------------------- *)
let rdate t = let y = rz t in let m = rz t in let d = rz t in ((y, m), d)
let rmd t = let m = rz t in let d = rz t in (m, d)
let rcol t : col = match ri t with
  | 0 -> CDate | 1 -> CMinTemp | 2 -> CMaxTemp | 3 -> CPrecip | 4 -> CRefET | k -> COther (z_of_int k)
let rcell t : float cell = match next t with
  | "D" -> VDate (rz t) | "X" -> VNum (rf t) | s -> raise (Bad ("cell " ^ s))
let rtable t : float table =
  let cols = rlist rcol t in
  let nc = List.length cols in
  let rows = rlist (fun t -> let i = rz t in let cs = List.init nc (fun _ -> rcell t) in (i, cs)) t in
  { t_cols = cols; t_rows = rows }
let rpairs t : (z * float) list = rlist (fun t -> let d = rz t in let v = rf t in (d, v)) t
let rlayer t : float layerIn =
  match next t with
  | "H" ->
    let th = rf t in let wp = rf t in let fc = rf t in let s = rf t in let ks = rf t in let pen = rf t in
    LHyd { ls_thick = th; ls_wp = wp; ls_fc = fc; ls_s = s; ls_ksat = ks; ls_pen = pen }
  | "X" ->
    let th = rf t in let sa = rf t in let cl = rf t in let om = rf t in let pen = rf t in
    LTex (th, sa, cl, om, pen)
  | s -> raise (Bad ("layer " ^ s))
let rty t = match next t with "Prop" -> TProp | "Pct" -> TPct | "Num" -> TNum | s -> raise (Bad ("type " ^ s))
let rme t = match next t with "Layer" -> MLayer | "Depth" -> MDepth | s -> raise (Bad ("method " ^ s))
let rval t : float wcVal =
  match next t with
  | "SAT" -> VTok PSAT | "FC" -> VTok PFC | "WP" -> VTok PWP | "OTHER" -> VTok POther
  | "V" -> VNum0 (rf t)
  | s -> raise (Bad ("value " ^ s))
let rfm t : float fieldM =
  let a = rb t in let b = rb t in let c = rb t in let d = rb t in
  let e = rf t in let f = rf t in let g = rf t in let h = rf t in let i = rf t in
  { fm_mulches = a; fm_bunds = b; fm_cn_adj = c; fm_sr_inhb = d; fm_mulch_pct = e; fm_f_mulch = f;
    fm_z_bund = g; fm_bund_water = h; fm_cn_adj_pct = i }

let rsoil t : float soilU =
  let dz = rfl t in let layers = rlist rlayer t in
  let cn = rf t in let calc = rz t in let adjrew = rz t in let rew = rf t in let zsurf = rf t in let zmin = rf t in let zmax = rf t in
  let kex = rf t in let fevap = rf t in let fwrel = rf t in let fwcc = rf t in let zcn = rf t in let zgerm = rf t in let adjcn = rz t in
  let fshape = rf t in let ztop = rf t in
  { so_dz = dz; so_layers = layers; so_u_cn = cn; so_u_calc_cn = calc; so_u_adj_rew = adjrew; so_u_rew = rew; so_u_evap_z_surf = zsurf;
    so_u_evap_z_min = zmin; so_u_evap_z_max = zmax; so_u_kex = kex; so_u_f_evap = fevap; so_u_f_wrel_exp = fwrel; so_u_fwcc = fwcc;
    so_u_z_cn = zcn; so_u_z_germ = zgerm; so_u_adj_cn = adjcn; so_u_fshape_cr = fshape; so_u_z_top = ztop }

let rcrop t : float cropU =
  let pl = rmd t in let hv = ropt rmd t in
  let ct = rz t in let cal = rz t in let sw = rz t in let gm = rz t in let etadj = rz t in let ph = rz t in let pc = rz t in let tc = rz t in
  let f () = rf t in
  let plantm = f () in let det = f () in let tupp = f () in let tbase = f () in let germ = f () in let yldwc = f () in
  let zmin = f () in let zmax = f () in let aer = f () in let lag = f () in let pct = f () in let fr = f () in let fex = f () in let fb = f () in
  let sxt = f () in let sxb = f () in let seed = f () in let pop = f () in
  let ccx = f () in let cdc = f () in let cgc = f () in let cdccd = f () in let cgccd = f () in
  let kcb = f () in let fage = f () in let atr = f () in let wp = f () in let wpy = f () in let fsink = f () in let bsted = f () in let bface = f () in
  let hi0 = f () in let hiini = f () in let dpre = f () in let ahi = f () in let bhi = f () in let dhi0 = f () in let exc = f () in
  let ccmin = f () in let beta = f () in
  let pu1 = f () in let pu2 = f () in let pu3 = f () in let pu4 = f () in let pl1 = f () in let pl2 = f () in let pl3 = f () in let pl4 = f () in
  let fw1 = f () in let fw2 = f () in let fw3 = f () in
  let txu = f () in let txl = f () in let tnu = f () in let tnl = f () in let gup = f () in let glo = f () in
  let emcd = f () in let mrcd = f () in let secd = f () in let macd = f () in let hiscd = f () in let flcd = f () in let yfcd = f () in
  let em = f () in let mr = f () in let se = f () in let ma = f () in let his = f () in let fl = f () in let yf = f () in
  { u_planting = pl; u_harvest = hv; u_CropType = ct; u_CalendarType = cal; u_SwitchGDD = sw; u_GDDmethod = gm; u_ETadj = etadj;
    u_PolHeatStress = ph; u_PolColdStress = pc; u_TrColdStress = tc; u_PlantMethod = plantm; u_Determinant = det; u_Tupp = tupp;
    u_Tbase = tbase; u_GermThr = germ; u_YldWC = yldwc; u_Zmin = zmin; u_Zmax = zmax; u_Aer = aer; u_LagAer = lag; u_PctZmin = pct;
    u_fshape_r = fr; u_fshape_ex = fex; u_fshape_b = fb; u_SxTopQ = sxt; u_SxBotQ = sxb; u_SeedSize = seed; u_PlantPop = pop;
    u_CCx = ccx; u_CDC = cdc; u_CGC = cgc; u_CDC_CD = cdccd; u_CGC_CD = cgccd; u_Kcb = kcb; u_fage = fage; u_a_Tr = atr; u_WP = wp;
    u_WPy = wpy; u_fsink = fsink; u_bsted = bsted; u_bface = bface; u_HI0 = hi0; u_HIini = hiini; u_dHI_pre = dpre; u_a_HI = ahi;
    u_b_HI = bhi; u_dHI0 = dhi0; u_exc = exc; u_CCmin = ccmin; u_beta = beta;
    u_pu1 = pu1; u_pu2 = pu2; u_pu3 = pu3; u_pu4 = pu4; u_pl1 = pl1; u_pl2 = pl2; u_pl3 = pl3; u_pl4 = pl4;
    u_fw1 = fw1; u_fw2 = fw2; u_fw3 = fw3; u_Tmax_up = txu; u_Tmax_lo = txl; u_Tmin_up = tnu; u_Tmin_lo = tnl; u_GDD_up = gup;
    u_GDD_lo = glo; u_EmergenceCD = emcd; u_MaxRootingCD = mrcd; u_SenescenceCD = secd; u_MaturityCD = macd; u_HIstartCD = hiscd;
    u_FloweringCD = flcd; u_YldFormCD = yfcd; u_Emergence = em; u_MaxRooting = mr; u_Senescence = se; u_Maturity = ma;
    u_HIstart = his; u_Flowering = fl; u_YldForm = yf }

let rconfig t : float config =
  let st = rdate t in let en = rdate t in
  let tab = rtable t in
  let soil = rsoil t in
  let crop = rcrop t in
  let ty = rty t in let me = rme t in let dl = rfl t in let vals = rlist rval t in
  let m = rz t in let smt = rfl t in let eff = rf t in let maxirr = rf t in let itv = rz t in let sched = rpairs t in
  let depth = rf t in let maxs = rf t in let net = rf t in let wet = rf t in
  let fld = rfm t in let ffld = rfm t in
  let present = rb t in
  let gm = (match ri t with 0 -> GwConstant | 1 -> GwVariable | _ -> GwOtherMethod) in
  let obs = rpairs t in
  let cref = rf t in let cur = rf t in let cst = rb t in let data = rpairs t in
  let off = rb t in
  if t.rest <> [] then raise (Bad "trailing tokens");
  { cf_start = st; cf_end = en; cf_weather = tab; cf_soil = soil; cf_crop = crop;
    cf_iwc = { w_type = ty; w_method = me; w_depth_layer = dl; w_value = vals };
    cf_irr = { ir_method = m; ir_SMT = smt; ir_AppEff = eff; ir_MaxIrr = maxirr; ir_IrrInterval = itv; ir_sched = sched;
               ir_depth = depth; ir_MaxIrrSeason = maxs; ir_NetIrrSMT = net; ir_WetSurf = wet };
    cf_field = fld; cf_fallow_field = ffld;
    cf_gw = { gw_present = present; gw_method = gm; gw_obs = obs };
    cf_co2 = { co2_ref = cref; co2_current = cur; co2_constant = cst; co2_data = data; co2_processed = [] };
    cf_off_season = off }

(* ---- printers ------------------------------------------------------------------------------------------------------ *)
let cal_err = function
  | ValueError_BadDate -> "ValueError_BadDate" | ValueError_TooLong -> "ValueError_TooLong"
  | IndexError_TimeSpan -> "IndexError_TimeSpan" | ValueError_Uncovered -> "ValueError_Uncovered"
  | DateParseError_MonthDay -> "DateParseError_MonthDay" | IndexError_NoPlanting -> "IndexError_NoPlanting"
  | AssertionError_NotEnoughGDD -> "AssertionError_NotEnoughGDD" | AssertionError_OverAYear -> "AssertionError_OverAYear"
let in_err = function
  | EMissingCol -> "EMissingCol" | EDupCol -> "EDupCol" | EEmpty -> "EEmpty" | EStart -> "EStart" | EEnd -> "EEnd" | ECell -> "ECell"
  | EDupLabel -> "EDupLabel" | EUnbound -> "EUnbound" | ENoData -> "ENoData" | EKey -> "EKey"
let crop_err = function
  | CalE e -> cal_err e | HIGC_NoReturn -> "HIGC_NoReturn" | HILinear_ZeroDivision -> "HILinear_ZeroDivision"
let err_name = function
  | ECal e -> "Cal:" ^ cal_err e | EIn e -> "In:" ^ in_err e | ECrop e -> "Crop:" ^ crop_err e
  | ESoil -> "Soil" | EIwc -> "Iwc" | EKsat -> "Ksat" | ECapRise -> "CapRise" | EGwNaN -> "GwNaN" | EState -> "State"
  | EGddMethod -> "GddMethod" | EUnsupported -> "Unsupported"

let w_state (s : float dState) =
  wf s.d_age_days; wf s.d_age_days_ns; wf s.d_aer_days; wfl s.d_aer_days_comp; wf s.d_irr_cum; wf s.d_delayed_gdds; wz s.d_delayed_cds; wf s.d_pct_lag_phase; wf s.d_t_early_sen; wf s.d_gdd_cum; wf s.d_day_submerged; wf s.d_irr_net_cum; wf s.d_e_pot; wf s.d_t_pot; wb s.d_pre_adj; wb s.d_crop_dead; wb s.d_germination; wb s.d_premat_senes; wb s.d_growing_season; wb s.d_yield_form; wb s.d_stage2; wopt wb s.d_wt_in_soil; wf s.d_stage; wf s.d_f_pre; wf s.d_f_post; wf s.d_fpost_dwn; wf s.d_fpost_upp; wf s.d_h1_cor_asum; wf s.d_h1_cor_bsum; wf s.d_f_pol; wf s.d_s_cor1; wf s.d_s_cor2; wf s.d_hi_ref; wf s.d_HIfinal; wz s.d_growth_stage; wf s.d_tr_ratio; wf s.d_r_cor; wf s.d_canopy_cover; wf s.d_canopy_cover_adj; wf s.d_canopy_cover_ns; wf s.d_canopy_cover_adj_ns; wf s.d_biomass; wf s.d_biomass_ns; wf s.d_YieldPot; wf s.d_harvest_index; wf s.d_harvest_index_adj; wf s.d_ccx_act; wf s.d_ccx_act_ns; wf s.d_ccx_w; wf s.d_ccx_w_ns; wf s.d_ccx_early_sen; wf s.d_cc_prev; wb s.d_protected_seed; wf s.d_DryYield; wf s.d_FreshYield; wf s.d_z_root; wf s.d_cc0_adj; wf s.d_surface_storage; wopt wf s.d_z_gw; wfl s.d_th_fc_Adj; wfl s.d_th; wfl s.d_thini; wz s.d_time_step_counter; wf s.d_precipitation; wf s.d_temp_max; wf s.d_temp_min; wf s.d_et0; wf s.d_sumET0EarlySen; wf s.d_gdd; wf s.d_w_surf; wf s.d_evap_z; wf s.d_w_stage_2; wf s.d_depletion; wf s.d_taw

(* dayc.par_hook, token for token *)
let w_comp (c : float comp) =
  wf c.c_dz; wf c.c_dzsum; wf c.c_zmid; wz c.c_layer; wf c.c_th_dry; wf c.c_th_wp; wf c.c_th_fc; wf c.c_th_s; wf c.c_ksat; wf c.c_tau;
  wf c.c_pen; wf c.c_acr; wf c.c_bcr
let w_soil (s : float dSoil) =
  wf s.so_cn; wz s.so_adj_cn; wf s.so_z_cn; wz s.so_nComp; wf s.so_z_top; wz s.so_nLayer; wf s.so_fshape_cr; wf s.so_z_germ;
  wf s.so_evap_z_min; wf s.so_evap_z_max; wf s.so_rew; wf s.so_kex; wf s.so_fwcc; wf s.so_f_wrel_exp; wf s.so_f_evap;
  wlist w_comp s.so_prof
let w_irr (i : float dIrr) =
  wz i.i_id; wz i.i_method; wfl i.i_SMT; wf i.i_AppEff; wf i.i_MaxIrr; wz i.i_IrrInterval; wfl i.i_Schedule; wf i.i_depth;
  wf i.i_MaxIrrSeason; wf i.i_NetIrrSMT; wf i.i_WetSurf
let w_field (f : float dField) =
  wz f.f_id; wb f.f_sr_inhb; wb f.f_bunds; wf f.f_z_bund; wb f.f_cn_adj; wf f.f_cn_adj_pct; wb f.f_mulches; wf f.f_f_mulch;
  wf f.f_mulch_pct; wf f.f_bund_water
let w_crop (c : float dCrop) =
  wz c.c_id; wz c.c_GDDmethod; wf c.c_Tupp; wf c.c_Tbase; wf c.c_GermThr; wf c.c_PlantMethod; wz c.c_CalendarType; wf c.c_Senescence;
  wf c.c_YldWC; wf c.c_Maturity; wf c.c_Zmin; wf c.c_Aer; wf c.c_CC0; wf c.c_HI0
let w_full (f : float cropFull) =
  let r = f.cf_root in
  wf r.rc_Zmin; wf r.rc_Zmax; wf r.rc_PctZmin; wf r.rc_Emergence; wf r.rc_MaxRooting; wf r.rc_fshape_r; wf r.rc_fshape_ex; wz r.rc_cal;
  wf r.rc_SxTop; wf r.rc_SxBot; wf r.rc_pup1; wf r.rc_fshape_w1;
  let c = f.cf_can in
  wz c.k_cal; wf c.k_emergence; wf c.k_maturity; wf c.k_canopy_dev_end; wf c.k_senescence; wf c.k_CC0; wf c.k_CCx; wf c.k_CGC; wf c.k_CDC;
  wf c.k_pu4; wf c.k_pu5; wf c.k_pu6; wf c.k_pu7; wf c.k_pl4; wf c.k_pl5; wf c.k_pl6; wf c.k_pl7; wz c.k_etadj; wf c.k_beta0;
  wf c.k_fs3; wf c.k_fs4; wf c.k_fs5;
  let y = f.cf_y in
  wz y.y_CropType; wf y.y_Determinant; wf y.y_HIstartCD; wf y.y_YldFormCD; wf y.y_HIendCD; wf y.y_FloweringCD; wf y.y_CanopyDevEndCD;
  wf y.y_tLinSwitch; wf y.y_dHILinear; wf y.y_HIGC; wf y.y_HI0; wf y.y_HIini; wf y.y_WP; wf y.y_WPy; wf y.y_fCO2; wf y.y_dHI_pre;
  wf y.y_dHI0; wf y.y_a_HI; wf y.y_b_HI; wf y.y_exc; wf y.y_CCmin; wf y.y_YldWC;
  let s = f.cf_s in
  wf s.s_Zmin; wf s.s_Aer; wf s.s_pu0; wf s.s_pu1; wf s.s_pu2; wf s.s_pu3; wf s.s_pl0; wf s.s_pl1; wf s.s_pl2; wf s.s_pl3; wz s.s_ETadj;
  wf s.s_beta; wf s.s_fs0; wf s.s_fs1; wf s.s_fs2; wz s.s_PolHeat; wz s.s_PolCold; wf s.s_Tmax_lo; wf s.s_Tmax_up; wf s.s_Tmin_lo;
  wf s.s_Tmin_up; wf s.s_fshape_b;
  let k = f.cf_tr in
  wf k.k_MaxCanopyCD; wf k.k_Kcb; wf k.k_fage; wf k.k_a_Tr; wz k.k_TrColdStress; wf k.k_GDD_up; wf k.k_GDD_lo; wf k.k_LagAer; wf k.k_Zmin;
  wf k.k_Aer; wf k.k_pu0; wf k.k_pu1; wf k.k_pu2; wf k.k_pu3; wf k.k_pl0; wf k.k_pl1; wf k.k_pl2; wf k.k_pl3; wz k.k_ETadj; wf k.k_beta;
  wf k.k_fs0; wf k.k_fs1; wf k.k_fs2; wf k.k_SxTop; wf k.k_SxBot;
  wf f.cf_c10; wf f.cf_maxcan

let w_par (i : float init) (k : z) =
  let p = i.i_par in
  w_soil p.p_soil; w_irr p.p_irr; w_irr p.p_fallow_irr; w_field p.p_field; w_field p.p_fallow_field;
  wz p.p_water_table; wf (p.p_co2c k); wf p.p_co2r; wz p.p_evap_steps; wb p.p_sim_off;
  w_crop (p.p_crop k); w_full (i.i_crops k);
  w_crop p.p_fallow_crop; w_full (i.i_crops (z_of_int (-1)))
(* the structures right after _initialize(): the concentration and the crop objects as initialisation leaves them are the ones the
   model keeps for the days before the first season (p_co2c (-1), the filler crop = a copy of the crop of season 0 at that time);
   the crop of season 0 IN FORCE during season 0 (after its reset, when the run starts before the first planting date) is compared
   by `season 0` *)
let w_par_init (i : float init) =
  let p = i.i_par in
  let m1 = z_of_int (-1) in
  w_soil p.p_soil; w_irr p.p_irr; w_irr p.p_fallow_irr; w_field p.p_field; w_field p.p_fallow_field;
  wz p.p_water_table; wf (p.p_co2c m1); wf p.p_co2r; wz p.p_evap_steps; wb p.p_sim_off;
  w_crop { p.p_fallow_crop with c_id = z_of_int 0 }; w_full (i.i_crops m1);
  w_crop p.p_fallow_crop; w_full (i.i_crops m1)

let cur : float config option ref = ref None
let cur_init : float init ires0 option ref = ref None
let get_init () =
  match !cur_init with
  | Some r -> r
  | None ->
    let cfg = (match !cur with Some c -> c | None -> raise (Bad "no config")) in
    let r = initialise n cfg in
    cur_init := Some r; r

let () =
  reg "config" (fun t -> cur := Some (rconfig t); cur_init := None; ws "OK");
  reg "initialise" (fun t ->
    match get_init () with
    | IErr_ e -> ws "N"; ws (err_name e)
    | IOk0 i ->
      ws "S"; w_par_init i;
      let c = i.i_clock in
      wz c.n_steps; wlist wz c.plant; wlist wz c.harv;
      wz (match c.plant with p :: _ -> if int_of_z p = 0 then z_of_int 0 else z_of_int (-1) | [] -> z_of_int (-1));
      wb c.off_season;
      wlist (fun (w : float w) -> wf w.w_rain; wf w.w_tmax; wf w.w_tmin; wf w.w_et0; wf w.w_gw) i.i_weather;
      w_state i.i_state);
  reg "season" (fun t ->
    let k = rz t in
    match get_init () with
    | IErr_ e -> ws "N"; ws (err_name e)
    | IOk0 i -> ws "S"; w_par i k);
  reg "run_config" (fun t ->
    let cfg = (match !cur with Some c -> c | None -> raise (Bad "no config")) in
    let fuel = (match get_init () with IOk0 i -> int_of_z i.i_clock.n_steps + 2 | IErr_ _ -> 0) in
    let w_st (s : float dState st) = wz s.dap; wb s.mature; wb s.hflag; w_state s.phys in
    let w_row (row : float dRow) =
      let f = row.r_flux in
      wz f.fl_tsc; wz f.fl_season; wz f.fl_dap; wf f.fl_Wr; wopt wf f.fl_zgw; wf f.fl_surf; wf f.fl_IrrDay; wf f.fl_Infl;
      wf f.fl_Runoff; wf f.fl_DeepPerc; wf f.fl_CR; wf f.fl_GwIn; wf f.fl_Es; wf f.fl_EsPot; wf f.fl_Tr; wf f.fl_TrPot;
      let g = row.r_growth in
      wz g.gr_tsc; wz g.gr_season; wz g.gr_dap; wf g.gr_gdd; wf g.gr_gdd_cum; wf g.gr_z_root; wf g.gr_cc; wf g.gr_cc_ns;
      wf g.gr_B; wf g.gr_B_ns; wf g.gr_HI; wf g.gr_HIadj; wf g.gr_Dry; wf g.gr_Fresh; wf g.gr_Pot;
      let o = row.r_sto in
      wz o.st_tsc; wb o.st_gs; wz o.st_dap; wfl o.st_th in
    let w_sum r = wz r.s_season; wz r.s_date; wz r.s_step; wf r.s_out.o_Dry; wf r.s_out.o_Fresh; wf r.s_out.o_Pot; wf r.s_out.o_IrrTot in
    match run_config n tr cfg (nat_of_int fuel) with
    | RInitErr e -> ws "I"; ws (err_name e)
    | RRaise IndexError -> ws "R IndexError"
    | RRaise KeyError -> ws "R KeyError"
    | RResetRaise (kb, None) -> ws "X"; wz kb
    | RResetRaise (kb, Some m) ->
      (* the rows / summary rows of the seasons before kb: what the implementation has written when the reset raises *)
      let k = int_of_z kb in
      ws "X"; wz kb;
      let rs = List.filter (fun (_, (row : float dRow)) -> int_of_z row.r_flux.fl_season < k) (List.rev m.tabs.rows) in
      wi (List.length rs); List.iter (fun (_, row) -> ws "|"; w_row row) rs;
      let ss = List.filter (fun r -> int_of_z r.s_season < k) (List.rev m.tabs.sums) in
      ws "#"; wi (List.length ss); List.iter w_sum ss
    | RRun None -> ws "U"
    | RRun (Some (GRaise IndexError)) -> ws "R IndexError"
    | RRun (Some (GRaise KeyError)) -> ws "R KeyError"
    | RRun (Some (Stopped tt)) -> ws "P"; wz tt
    | RRun (Some (GOk m)) ->
      ws "F"; wz m.st0.tsc; wz m.st0.season; wb m.st0.fin; w_st m.st0;
      let rs = List.rev m.tabs.rows in
      wi (List.length rs); List.iter (fun (_, row) -> ws "|"; w_row row) rs;
      let ss = List.rev m.tabs.sums in
      ws "#"; wi (List.length ss); List.iter w_sum ss);
  main ()
