(* drv_initstate.ml — wrapper for the initial-state unit (Init/InitState.v).
   `initstate <par tokens> k zgw0 fc_reset th0`: the parameters exactly as harness/suites/dayc.py `par_hook` encodes them
   (soil scalars + profile, IrrMngt, FallowIrrMngt, FieldMngt, FallowFieldMngt, water_table, CO2 current / reference, evaporation
   sub-steps, off-season flag, the crop of season 0 + its full record, the filler crop + its full record; the two full crop
   records — 105 tokens each, dayc.enc_full — are not read by initialisation and are skipped), then the initial season
   counter, `N | S z_gw[0]`, the "initial content is FC" flag and the interpolated initial water contents.
   Output: N | S <state>, the state in the token order of harness/suites/day.py STATE.
   Readers r_crop / r_irr / r_field / r_soil and printer w_state: copies of drv_dayc.ml.  No arithmetic here. *)
open Model_initstate
open Drvlib

let w_state (s : float dState) =
  wf s.d_age_days; wf s.d_age_days_ns; wf s.d_aer_days; wfl s.d_aer_days_comp; wf s.d_irr_cum; wf s.d_delayed_gdds; wz s.d_delayed_cds; wf s.d_pct_lag_phase; wf s.d_t_early_sen; wf s.d_gdd_cum; wf s.d_day_submerged; wf s.d_irr_net_cum; wf s.d_e_pot; wf s.d_t_pot; wb s.d_pre_adj; wb s.d_crop_dead; wb s.d_germination; wb s.d_premat_senes; wb s.d_growing_season; wb s.d_yield_form; wb s.d_stage2; wopt wb s.d_wt_in_soil; wf s.d_stage; wf s.d_f_pre; wf s.d_f_post; wf s.d_fpost_dwn; wf s.d_fpost_upp; wf s.d_h1_cor_asum; wf s.d_h1_cor_bsum; wf s.d_f_pol; wf s.d_s_cor1; wf s.d_s_cor2; wf s.d_hi_ref; wf s.d_HIfinal; wz s.d_growth_stage; wf s.d_tr_ratio; wf s.d_r_cor; wf s.d_canopy_cover; wf s.d_canopy_cover_adj; wf s.d_canopy_cover_ns; wf s.d_canopy_cover_adj_ns; wf s.d_biomass; wf s.d_biomass_ns; wf s.d_YieldPot; wf s.d_harvest_index; wf s.d_harvest_index_adj; wf s.d_ccx_act; wf s.d_ccx_act_ns; wf s.d_ccx_w; wf s.d_ccx_w_ns; wf s.d_ccx_early_sen; wf s.d_cc_prev; wb s.d_protected_seed; wf s.d_DryYield; wf s.d_FreshYield; wf s.d_z_root; wf s.d_cc0_adj; wf s.d_surface_storage; wopt wf s.d_z_gw; wfl s.d_th_fc_Adj; wfl s.d_th; wfl s.d_thini; wz s.d_time_step_counter; wf s.d_precipitation; wf s.d_temp_max; wf s.d_temp_min; wf s.d_et0; wf s.d_sumET0EarlySen; wf s.d_gdd; wf s.d_w_surf; wf s.d_evap_z; wf s.d_w_stage_2; wf s.d_depletion; wf s.d_taw
let r_crop t : float dCrop =
  let id = rz t in let m = rz t in let tupp = rf t in let tbase = rf t in let germthr = rf t in let pm = rf t in
  let cal = rz t in let sen = rf t in let yld = rf t in let mat = rf t in let zmin = rf t in let aer = rf t in
  let cc0 = rf t in let hi0 = rf t in
  { c_id = id; c_GDDmethod = m; c_Tupp = tupp; c_Tbase = tbase; c_GermThr = germthr; c_PlantMethod = pm; c_CalendarType = cal;
    c_Senescence = sen; c_YldWC = yld; c_Maturity = mat; c_Zmin = zmin; c_Aer = aer; c_CC0 = cc0; c_HI0 = hi0 }
let r_irr t : float dIrr =
  let id = rz t in let m = rz t in let smt = rfl t in let eff = rf t in let maxirr = rf t in let itv = rz t in
  let sched = rfl t in let depth = rf t in let maxs = rf t in let net = rf t in let wet = rf t in
  { i_id = id; i_method = m; i_SMT = smt; i_AppEff = eff; i_MaxIrr = maxirr; i_IrrInterval = itv; i_Schedule = sched;
    i_depth = depth; i_MaxIrrSeason = maxs; i_NetIrrSMT = net; i_WetSurf = wet }
let r_field t : float dField =
  let id = rz t in let sr = rb t in let bunds = rb t in let zb = rf t in let adj = rb t in let pct = rf t in
  let mul = rb t in let fm = rf t in let mp = rf t in let bw = rf t in
  { f_id = id; f_sr_inhb = sr; f_bunds = bunds; f_z_bund = zb; f_cn_adj = adj; f_cn_adj_pct = pct; f_mulches = mul;
    f_f_mulch = fm; f_mulch_pct = mp; f_bund_water = bw }
let r_soil t : float dSoil =
  let cn = rf t in let adjcn = rz t in let zcn = rf t in let ncomp = rz t in let ztop = rf t in let nlayer = rz t in
  let fshape = rf t in let zgerm = rf t in let zmin = rf t in let zmax = rf t in let rew = rf t in let kex = rf t in
  let fwcc = rf t in let fwrel = rf t in let fevap = rf t in let prof = rprof t in
  { so_cn = cn; so_adj_cn = adjcn; so_z_cn = zcn; so_nComp = ncomp; so_z_top = ztop; so_nLayer = nlayer; so_fshape_cr = fshape;
    so_z_germ = zgerm; so_evap_z_min = zmin; so_evap_z_max = zmax; so_rew = rew; so_kex = kex; so_fwcc = fwcc;
    so_f_wrel_exp = fwrel; so_f_evap = fevap; so_prof = prof }

let n_full = 105      (* len(dayc.enc_full(crop)); the suite asserts it *)
let skip k t = for _ = 1 to k do ignore (next t) done

let r_par t : float dPar =
  let soil = r_soil t in let irr = r_irr t in let firr = r_irr t in let field = r_field t in let ffield = r_field t in
  let wt = rz t in let co2c = rf t in let co2r = rf t in let steps = rz t in let simoff = rb t in
  let crop = r_crop t in skip n_full t; let fcrop = r_crop t in skip n_full t;
  { p_soil = soil; p_irr = irr; p_fallow_irr = firr; p_field = field; p_fallow_field = ffield;
    p_crop = (fun _ -> crop); p_fallow_crop = fcrop; p_water_table = wt; p_co2c = (fun _ -> co2c); p_co2r = co2r;
    p_evap_steps = steps; p_sim_off = simoff }

let () =
  reg "initstate" (fun t ->
    let par = r_par t in
    let k = rz t in let zgw0 = ropt rf t in let fcr = rb t in let th0 = rfl t in
    if t.rest <> [] then raise (Bad "trailing tokens");
    wopt w_state (init_state fnum par k zgw0 fcr th0));
  (* the water-table part alone: prof wt zgw0 fc_reset th0 -> N | S z_gw wt_in_soil th_fc_Adj th *)
  reg "initwater" (fun t ->
    let p = rprof t in let wt = rz t in let zgw0 = ropt rf t in let fcr = rb t in let th0 = rfl t in
    if t.rest <> [] then raise (Bad "trailing tokens");
    wopt (fun (((z, b), fc), th) -> wf z; wb b; wfl fc; wfl th) (init_water fnum p wt zgw0 fcr th0));
  main ()
