(* drv_inputs.ml — wrappers for the inputs unit (weather binding, irrigation schedule re-indexing,
   groundwater series, CO2 / field management read): parse tokens, call the model at the float
   instance, print.  No arithmetic here. *)
open Model_inputs
open Drvlib
let n = fnum

let err_code = function
  | EMissingCol -> 1 | EDupCol -> 2 | EEmpty -> 3 | EStart -> 4 | EEnd -> 5 | ECell -> 6
  | EDupLabel -> 7 | EUnbound -> 8 | ENoData -> 9 | EKey -> 10

let wres (w : 'a -> unit) = function Err e -> ws "N"; wi (err_code e) | Ok x -> ws "S"; w x

let rcol t : col = match ri t with
  | 0 -> CDate | 1 -> CMinTemp | 2 -> CMaxTemp | 3 -> CPrecip | 4 -> CRefET | k -> COther (z_of_int k)
let rcell t : float cell = match next t with
  | "D" -> VDate (rz t) | "X" -> VNum (rf t) | s -> raise (Bad ("cell " ^ s))
let rtable t : float table =
  let cols = rlist rcol t in
  let nc = List.length cols in
  let rows = rlist (fun t -> let i = rz t in let cs = List.init nc (fun _ -> rcell t) in (i, cs)) t in
  { t_cols = cols; t_rows = rows }
let wwrow (r : float wRow) = wf r.w_tmin; wf r.w_tmax; wf r.w_prec; wf r.w_et0; wz r.w_date
let rpairs t : (z * float) list = rlist (fun t -> let d = rz t in let v = rf t in (d, v)) t
let wnan (o : float option) = match o with Some v -> wf v | None -> wf Float.nan

let () =
  (* weather s e table -> first initialisation: index labels of the clipped table + matrix;
     then the matrix of a second initialisation from the written-back table *)
  reg "weather" (fun t ->
    let s = rz t in let e = rz t in let tb = rtable t in
    (match clip_table s e tb with
     | Err e -> ws "N"; wi (err_code e)
     | Ok tb' ->
       ws "S"; wlist (fun (i, _) -> wz i) tb'.t_rows;
       wres (wlist wwrow) (select_weather tb');
       wres (wlist wwrow) (bind_weather s e tb');
       (* a third one from the matrix seen as a table *)
       (match bind_weather s e tb with
        | Ok w -> wres (wlist wwrow) (bind_weather s e (as_table w))
        | Err _ -> ())));
  reg "schedule" (fun t ->
    let m = rz t in let s = rz t in let e = rz t in let sc = rpairs t in
    wres wfl (irr_schedule n m s e sc));
  reg "gw" (fun t ->
    let present = rb t in
    let m = (match ri t with 0 -> GwConstant | 1 -> GwVariable | _ -> GwOtherMethod) in
    let s = rz t in let e = rz t in let obs = rpairs t in
    wres (wlist wnan) (gw_series n present m s e obs);
    wopt wfl (gw_daily n present m s e obs));
  reg "interp" (fun t ->
    let pts = rpairs t in let xs = rlist rz t in
    List.iter (fun x -> wopt wf (np_interp n pts x)) xs);
  reg "co2" (fun t ->
    let sy = rz t in let ey = rz t in let cref = rf t in let cur = rf t in let cst = rb t in
    let data = rpairs t in let ys = rlist rz t in
    let c = { co2_ref = cref; co2_current = cur; co2_constant = cst; co2_data = data; co2_processed = [] } in
    (match co2_init n sy ey c with
     | Err e -> ws "N"; wi (err_code e)
     | Ok c1 ->
       ws "S"; wf c1.co2_current; wlist (fun (y, v) -> wz y; wf v) c1.co2_processed;
       List.iter (fun y -> wres wf (co2_season n c1 y)) ys;
       (* second initialisation from the written-back object *)
       (match co2_init n sy ey c1 with
        | Err e -> ws "N"; wi (err_code e)
        | Ok c2 -> ws "S"; wf c2.co2_current; wlist (fun (y, v) -> wz y; wf v) c2.co2_processed)));
  reg "fieldm" (fun t ->
    let rfm t = let a = rb t in let b = rb t in let c = rb t in let d = rb t in
      let e = rf t in let f = rf t in let g = rf t in let h = rf t in let i = rf t in
      { fm_mulches = a; fm_bunds = b; fm_cn_adj = c; fm_sr_inhb = d; fm_mulch_pct = e; fm_f_mulch = f;
        fm_z_bund = g; fm_bund_water = h; fm_cn_adj_pct = i } in
    let wfm m = wb m.fm_mulches; wb m.fm_bunds; wb m.fm_cn_adj; wb m.fm_sr_inhb; wf m.fm_mulch_pct;
      wf m.fm_f_mulch; wf m.fm_z_bund; wf m.fm_bund_water; wf m.fm_cn_adj_pct in
    let a = rfm t in let b = rfm t in
    let (a', b') = read_field_management a b in wfm a'; wfm b');
  main ()
