(* drv_rainirr.ml — wrappers for the rainirr unit (rainfall_partition, irrigation, growth_stage): parse tokens,
   call the model at the float instance, print the result.  No arithmetic here. *)
open Model_rainirr
open Drvlib
let n = fnum

let () =
  reg "rainfall_partition" (fun t ->
    let pr = rf t in let th = rfl t in let daysub = rz t in let srinhb = rb t in let bunds = rb t in
    let zb = rf t in let pct = rf t in let cn0 = rf t in let adjcn = rz t in let zcn = rf t in
    let ncomp = rz t in let p = rprof t in
    wopt (fun ((ro, infl), ds) -> wf ro; wf infl; wz ds)
      (rainfall_partition n pr th daysub srinhb bunds zb pct cn0 adjcn zcn ncomp p));
  reg "irrigation" (fun t ->
    let meth = rz t in let smt = rfl t in let eff = rf t in let maxirr = rf t in let interval = rz t in
    let sched = rfl t in let depth = rf t in let maxseason = rf t in let stage = rz t in let irrcum = rf t in
    let epot = rf t in let tpot = rf t in let zroot = rf t in let th = rfl t in let dap = rz t in
    let tsc = rz t in let zmin = rf t in let aer = rf t in let p = rprof t in let ztop = rf t in
    let gs = rb t in let rain = rf t in let runoff = rf t in
    wopt (fun (((depl, taw), cum), irr) -> wf depl; wf taw; wf cum; wf irr)
      (irrigation n meth smt eff maxirr interval sched depth maxseason stage irrcum epot tpot zroot th dap tsc
         zmin aer p ztop gs rain runoff));
  reg "growth_stage" (fun t ->
    let cal = rz t in let dap = rz t in let dcds = rz t in let gddcum = rf t in let dgdd = rf t in
    let c10 = rf t in let maxcan = rf t in let sen = rf t in let old = rz t in let gs = rb t in
    wopt wz (growth_stage n cal dap dcds gddcum dgdd c10 maxcan sen old gs));
  main ()
