(* drv_roots.ml — wrappers for the roots unit (root_development, germination, pre_irrigation, np_sum):
   parse tokens, call the model at the float instance, print the result.  No arithmetic here. *)
open Model_roots
open Drvlib
let n = fnum

(* Zmin Zmax PctZmin Emergence MaxRooting fshape_r fshape_ex CalendarType SxTop SxBot p_up[1] fshape_w[1] *)
let rcrop t : float rootCrop =
  let zmin = rf t in let zmax = rf t in let pct = rf t in let em = rf t in let mr = rf t in
  let fr = rf t in let fex = rf t in let cal = rz t in let sxt = rf t in let sxb = rf t in
  let pu = rf t in let fw = rf t in
  { rc_Zmin = zmin; rc_Zmax = zmax; rc_PctZmin = pct; rc_Emergence = em; rc_MaxRooting = mr; rc_fshape_r = fr;
    rc_fshape_ex = fex; rc_cal = cal; rc_SxTop = sxt; rc_SxBot = sxb; rc_pup1 = pu; rc_fshape_w1 = fw }

let () =
  reg "np_sum" (fun t -> let l = rfl t in wf (np_sum n l));
  reg "root_development" (fun t ->
    let c = rcrop t in let p = rprof t in let dap = rz t in let zroot = rf t in let dcd = rz t in
    let gddcum = rf t in let dgdd = rf t in let trr = rf t in let th = rfl t in let cc = rf t in let ccns = rf t in
    let germ = rb t in let rcor = rf t in let tpot = rf t in let zgw = rf t in let gdd = rf t in
    let gs = rb t in let wt = rz t in
    wopt (fun (z, r) -> wf z; wf r)
      (root_development n c p dap zroot dcd gddcum dgdd trr th cc ccns germ rcor tpot zgw gdd gs wt));
  reg "germination" (fun t ->
    let germ = rb t in let prot = rb t in let dcd = rz t in let dgdd = rf t in let th = rfl t in
    let zgerm = rf t in let p = rprof t in let thr = rf t in let pm = rf t in let gdd = rf t in let gs = rb t in
    wopt (fun g -> wb g.g_germ; wb g.g_prot; wz g.g_dcd; wf g.g_dgdd)
      (germination n germ prot dcd dgdd th zgerm p thr pm gdd gs));
  reg "pre_irrigation" (fun t ->
    let p = rprof t in let zmin = rf t in let zroot = rf t in let th = rfl t in let dap = rz t in
    let gs = rb t in let meth = rz t in let smt = rf t in
    wopt (fun (th', pre) -> wfl th'; wf pre) (pre_irrigation n p zmin zroot th dap gs meth smt));
  main ()
