(* drv_soilinit.ml — wrapper for the soil-initialisation unit: parse tokens, call the model at
   the float instance, print the result.  No arithmetic here. *)
open Model_soilinit
open Drvlib
let n = fnum

(* layer: `H thick wp fc s ksat pen`  |  `X thick sand clay om pen` *)
let rlayer t : float layerIn =
  match next t with
  | "H" ->
    let th = rf t in let wp = rf t in let fc = rf t in let s = rf t in let ks = rf t in let pen = rf t in
    LHyd { ls_thick = th; ls_wp = wp; ls_fc = fc; ls_s = s; ls_ksat = ks; ls_pen = pen }
  | "X" ->
    let th = rf t in let sa = rf t in let cl = rf t in let om = rf t in let pen = rf t in
    LTex (th, sa, cl, om, pen)
  | s -> raise (Bad ("layer " ^ s))

let rty t = match next t with "Prop" -> TProp | "Pct" -> TPct | "Num" -> TNum | s -> raise (Bad ("type " ^ s))
let rme t = match next t with "Layer" -> MLayer | "Depth" -> MDepth | s -> raise (Bad ("method " ^ s))
(* value: `SAT` `FC` `WP` `OTHER` | `V <float>` *)
let rval t : float wcVal =
  match next t with
  | "SAT" -> VTok PSAT | "FC" -> VTok PFC | "WP" -> VTok PWP | "OTHER" -> VTok POther
  | "V" -> VNum (rf t)
  | s -> raise (Bad ("value " ^ s))

let asg_of (r : float row) = match r.r_asg with Some a -> a | None -> raise (Bad "unassigned row")

(* every DataFrame / SoilProfile column, one list per column *)
let wrows (rows : float row list) =
  wfl (List.map (fun r -> r.r_dz) rows);
  wfl (List.map (fun r -> r.r_dzsum) rows);
  wfl (List.map (fun r -> r.r_zbot) rows);
  wfl (List.map (fun r -> r.r_ztop) rows);
  wfl (List.map (fun r -> r.r_zmid) rows);
  wlist wz (List.map (fun r -> (asg_of r).a_layer) rows);
  wfl (List.map (fun r -> (asg_of r).a_dry) rows);
  wfl (List.map (fun r -> (asg_of r).a_wp) rows);
  wfl (List.map (fun r -> (asg_of r).a_fc) rows);
  wfl (List.map (fun r -> (asg_of r).a_s) rows);
  wfl (List.map (fun r -> (asg_of r).a_ksat) rows);
  wfl (List.map (fun r -> (asg_of r).a_tau) rows);
  wfl (List.map (fun r -> (asg_of r).a_pen) rows)

let () =
  (* soil_init fuel zmax dz layers type method depth_layer values *)
  reg "soil_init" (fun t ->
    let fuel = rn t in let zmax = rf t in let dz = rfl t in let layers = rlist rlayer t in
    let ty = rty t in let me = rme t in let dl = rfl t in let vals = rlist rval t in
    wopt (fun si ->
        wrows si.si_rows;
        (* aCR, bCR as create_soil_profile builds them without a water table: through to_comp *)
        (match to_comps n si.si_rows with
         | Some cs -> wfl (List.map (fun c -> c.c_acr) cs); wfl (List.map (fun c -> c.c_bcr) cs)
         | None -> raise (Bad "to_comps"));
        wf si.si_zsoil; wfl si.si_th; wfl si.si_fcadj; wfl si.si_fcadj_prof)
      (soil_init_in n fuel zmax dz layers ty me dl vals));
  (* build dz layers : the Soil object after fill_nan *)
  reg "build" (fun t ->
    let dz = rfl t in let layers = rlist rlayer t in
    wopt (fun (rows, zs) -> wrows rows; wf zs) (build_in n dz layers));
  reg "texture" (fun t ->
    let sa = rf t in let cl = rf t in let om = rf t in
    wopt (fun (((wp, fc), s), ks) -> wf wp; wf fc; wf s; wf ks) (texture_props n sa cl om));
  reg "tau" (fun t -> let ks = rf t in wf (tau_of n ks));
  reg "pwsum" (fun t -> let l = rfl t in wf (pw_sum n l));
  reg "kmean" (fun t -> let l = rfl t in wf (kahan_mean n l));
  reg "interp" (fun t -> let x = rf t in let xs = rfl t in let ys = rfl t in wopt wf (interp n x xs ys));
  main ()
