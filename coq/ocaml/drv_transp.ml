(* drv_transp.ml — wrapper for the transpiration unit: parse tokens, call the model at the float
   instance, print the result.  No arithmetic here. *)
open Model_transp
open Drvlib
let n = fnum

let rcrop t : float trCrop =
  let maxcd = rf t in let kcb = rf t in let fage = rf t in let atr = rf t in
  let cold = rz t in let gup = rf t in let glo = rf t in
  let lag = rf t in let zmin = rf t in let aer = rf t in
  let pu0 = rf t in let pu1 = rf t in let pu2 = rf t in let pu3 = rf t in
  let pl0 = rf t in let pl1 = rf t in let pl2 = rf t in let pl3 = rf t in
  let etadj = rz t in let beta = rf t in let fs0 = rf t in let fs1 = rf t in let fs2 = rf t in
  let sxt = rf t in let sxb = rf t in
  { k_MaxCanopyCD = maxcd; k_Kcb = kcb; k_fage = fage; k_a_Tr = atr; k_TrColdStress = cold; k_GDD_up = gup;
    k_GDD_lo = glo; k_LagAer = lag; k_Zmin = zmin; k_Aer = aer; k_pu0 = pu0; k_pu1 = pu1; k_pu2 = pu2; k_pu3 = pu3;
    k_pl0 = pl0; k_pl1 = pl1; k_pl2 = pl2; k_pl3 = pl3; k_ETadj = etadj; k_beta = beta; k_fs0 = fs0; k_fs1 = fs1;
    k_fs2 = fs2; k_SxTop = sxt; k_SxBot = sxb }

let rstate t : float trState =
  let dap = rf t in let dcd = rf t in let agens = rf t in let age = rf t in
  let ccxwns = rf t in let ccxw = rf t in let ccadjns = rf t in let ccadj = rf t in
  let ccns = rf t in let cc = rf t in let ccprev = rf t in
  let surf = rf t in let dsub = rf t in let aerc = rfl t in
  let zroot = rf t in let th = rfl t in let tes = rf t in let aerd = rf t in let rcor = rf t in
  let cum = rf t in let depl = rf t in let taw = rf t in let ratio = rf t in let tpot = rf t in
  { s_dap = dap; s_delayed_cds = dcd; s_age_days_ns = agens; s_age_days = age; s_ccx_w_ns = ccxwns; s_ccx_w = ccxw;
    s_cc_adj_ns = ccadjns; s_cc_adj = ccadj; s_cc_ns = ccns; s_cc = cc; s_cc_prev = ccprev; s_surf = surf;
    s_day_sub = dsub; s_aer_comp = aerc; s_z_root = zroot; s_th = th; s_t_early_sen = tes; s_aer_days = aerd;
    s_r_cor = rcor; s_irr_net_cum = cum; s_depletion = depl; s_taw = taw; s_tr_ratio = ratio; s_t_pot = tpot }

let () =
  reg "transpiration" (fun t ->
    let p = rprof t in let ztop = rf t in let k = rcrop t in let meth = rz t in let smt = rf t in
    let s = rstate t in let et0 = rf t in let co2c = rf t in let co2r = rf t in let gs = rb t in let gdd = rf t in
    wopt (fun o ->
        wf o.o_TrAct; wf o.o_TrPot_NS; wf o.o_TrPot0; wf o.o_IrrNet;
        let s = o.o_state in
        wf s.s_age_days_ns; wf s.s_age_days; wf s.s_cc; wf s.s_surf; wf s.s_day_sub; wfl s.s_aer_comp; wfl s.s_th;
        wf s.s_aer_days; wf s.s_irr_net_cum; wf s.s_depletion; wf s.s_taw; wf s.s_tr_ratio; wf s.s_t_pot)
      (transpiration n p ztop k meth smt s et0 co2c co2r gs gdd));
  main ()
