(* drv_yield.ml — wrappers for the yield unit: parse tokens, call the model at the float instance,
   print the result.  No arithmetic here.  sin / pi enter through the [trigOps] record (libm sin, Float.pi). *)
open Model_yield
open Drvlib
let n = fnum
let tr : float trigOps = { tsin = sin; tpi = Float.pi }

(* CropType Determinant HIstartCD YldFormCD HIendCD FloweringCD CanopyDevEndCD tLinSwitch dHILinear HIGC HI0 HIini
   WP WPy fCO2 dHI_pre dHI0 a_HI b_HI exc CCmin YldWC *)
let rycrop t : float yCrop =
  let ct = rz t in let det = rf t in let his = rf t in let yf = rf t in let hie = rf t in let flo = rf t in
  let cde = rf t in let tl = rf t in let dl = rf t in let gc = rf t in let hi0 = rf t in let hini = rf t in
  let wp = rf t in let wpy = rf t in let fco2 = rf t in let dpre = rf t in let dhi0 = rf t in let a = rf t in
  let b = rf t in let exc = rf t in let ccmin = rf t in let ywc = rf t in
  { y_CropType = ct; y_Determinant = det; y_HIstartCD = his; y_YldFormCD = yf; y_HIendCD = hie; y_FloweringCD = flo;
    y_CanopyDevEndCD = cde; y_tLinSwitch = tl; y_dHILinear = dl; y_HIGC = gc; y_HI0 = hi0; y_HIini = hini;
    y_WP = wp; y_WPy = wpy; y_fCO2 = fco2; y_dHI_pre = dpre; y_dHI0 = dhi0; y_a_HI = a; y_b_HI = b; y_exc = exc;
    y_CCmin = ccmin; y_YldWC = ywc }

(* Zmin Aer pu0..3 pl0..3 ETadj beta fs0..2 PolHeat PolCold Tmax_lo Tmax_up Tmin_lo Tmin_up fshape_b *)
let rscrop t : float sCrop =
  let zmin = rf t in let aer = rf t in
  let pu0 = rf t in let pu1 = rf t in let pu2 = rf t in let pu3 = rf t in
  let pl0 = rf t in let pl1 = rf t in let pl2 = rf t in let pl3 = rf t in
  let etadj = rz t in let beta = rf t in let fs0 = rf t in let fs1 = rf t in let fs2 = rf t in
  let ph = rz t in let pc = rz t in let txl = rf t in let txu = rf t in let tnl = rf t in let tnu = rf t in
  let fb = rf t in
  { s_Zmin = zmin; s_Aer = aer; s_pu0 = pu0; s_pu1 = pu1; s_pu2 = pu2; s_pu3 = pu3; s_pl0 = pl0; s_pl1 = pl1;
    s_pl2 = pl2; s_pl3 = pl3; s_ETadj = etadj; s_beta = beta; s_fs0 = fs0; s_fs1 = fs1; s_fs2 = fs2;
    s_PolHeat = ph; s_PolCold = pc; s_Tmax_lo = txl; s_Tmax_up = txu; s_Tmin_lo = tnl; s_Tmin_up = tnu;
    s_fshape_b = fb }

(* hi hiadj preadj fpre fpol scor1 scor2 upp dwn fpost *)
let rhstate t : float hState =
  let hi = rf t in let hiadj = rf t in let pre = rb t in let fpre = rf t in let fpol = rf t in
  let s1 = rf t in let s2 = rf t in let upp = rf t in let dwn = rf t in let fpost = rf t in
  { h_hi = hi; h_hiadj = hiadj; h_preadj = pre; h_fpre = fpre; h_fpol = fpol; h_scor1 = s1; h_scor2 = s2;
    h_upp = upp; h_dwn = dwn; h_fpost = fpost }
let whstate (s : float hState) =
  wf s.h_hi; wf s.h_hiadj; wb s.h_preadj; wf s.h_fpre; wf s.h_fpol; wf s.h_scor1; wf s.h_scor2;
  wf s.h_upp; wf s.h_dwn; wf s.h_fpost

let () =
  reg "biomass_accumulation" (fun t ->
    let c = rycrop t in let dap = rz t in let dcds = rz t in let hiref = rf t in let pct = rf t in
    let b = rf t in let bns = rf t in let trv = rf t in let trpot = rf t in let et0 = rf t in let gs = rb t in
    wopt (fun (b', bns') -> wf b'; wf bns') (biomass_accumulation n c dap dcds hiref pct b bns trv trpot et0 gs));
  reg "HIref_current_day" (fun t ->
    let c = rycrop t in let hiref = rf t in let hifinal = rf t in let dap = rz t in let dcds = rz t in
    let yf = rb t in let pct = rf t in let cc = rf t in let ccxw = rf t in let gs = rb t in
    let ((h, yf'), pct') = hIref_current_day n c hiref hifinal dap dcds yf pct cc ccxw gs in
    wf h; wb yf'; wf pct');
  reg "HIadj_pre_anthesis" (fun t ->
    let b = rf t in let bns = rf t in let cc = rf t in let dpre = rf t in
    wf (hIadj_pre_anthesis n tr b bns cc dpre));
  reg "HIadj_pollination" (fun t ->
    let cc = rf t in let fpol = rf t in let flo = rf t in let ccmin = rf t in let exc = rf t in
    let kpol = rf t in let polc = rf t in let polh = rf t in let hit = rf t in
    wopt wf (hIadj_pollination n cc fpol flo ccmin exc kpol polc polh hit));
  reg "HIadj_post_anthesis" (fun t ->
    let c = rycrop t in let dcds = rz t in let s1 = rf t in let s2 = rf t in let dap = rz t in
    let fpre = rf t in let cc = rf t in let upp = rf t in let dwn = rf t in let kexp = rf t in let ksto = rf t in
    wopt (fun (p : float post) -> wf p.p_scor1; wf p.p_scor2; wf p.p_upp; wf p.p_dwn; wf p.p_fpost)
      (hIadj_post_anthesis n dcds s1 s2 dap fpre cc upp dwn c kexp ksto));
  reg "harvest_index" (fun t ->
    let p = rprof t in let ztop = rf t in let c = rycrop t in let sc = rscrop t in let s = rhstate t in
    let zroot = rf t in let th = rfl t in let tes = rf t in let hiref = rf t in let dap = rz t in let dcds = rz t in
    let yf = rb t in let b = rf t in let bns = rf t in let cc = rf t in
    let et0 = rf t in let tmax = rf t in let tmin = rf t in let gs = rb t in
    wopt whstate (harvest_index n tr p ztop c sc s zroot th tes hiref dap dcds yf b bns cc et0 tmax tmin gs));
  reg "yields" (fun t ->
    let b = rf t in let bns = rf t in let hi = rf t in let hiadj = rf t in let ywc = rf t in let gs = rb t in
    let caltype = rz t in let dap = rz t in let gddcum = rf t in let mat = rf t in let mature = rb t in
    let ((dry, fresh), pot) = yields n b bns hi hiadj ywc gs in
    wf dry; wf fresh; wf pot; wb (crop_mature n caltype dap gddcum mat mature gs));
  main ()
