(* Api.v — the public wrapper `AquaCropModel` (aquacrop/core.py) as a state machine over call sequences,
   with ABSTRACT physics (the same section variables as Clock.v).  Definitions only; Z / nat / bool / list.

   Sources: core.py — run_model (both modes; initialize_model, process_outputs; the private flags
   __steps_are_finished, __has_model_executed, __has_model_finished), _perform_timestep, get_simulation_results,
   get_water_storage, get_water_flux, get_crop_growth, get_additional_information;
   timestep/outputs_when_model_is_finished.py (the three daily arrays become DataFrames when the model is finished
   or when __steps_are_finished is set); entities/output.py (Output.__init__: fresh zero arrays, empty summary).

   What is reused from Clock.v (not re-modelled): [perform] (= _perform_timestep up to the DataFrame conversion),
   [init_model] (= the clock part of _initialize), [Model] (clock state + the rows written so far).

   The object state:
     model              None before the first successful _initialize; afterwards the clock state, the physical state
                        and the rows written to the CURRENT Output object (a new one at every _initialize)
     inits              number of _initialize calls so far.  _initialize is not pure with respect to the object
                        (it overwrites self.weather_df with the clipped table and fills crop.harvest_date), so the
                        physical state it produces is a priori a function of how often it ran: [init_phys i]
     executed           __has_model_executed   (set at the successful END of a run_model call only)
     finished_flag      __has_model_finished   (idem; NOT touched by _initialize, NOT touched by a raising call)
     steps_are_finished __steps_are_finished   (set by process_outputs=True on the last requested step; NEVER reset)
     tables_are_frames  water_flux / water_storage / crop_growth of the current Output are DataFrames

   The code is modelled as of /repo commit b7ac20d (run_model with num_steps returns True at once on a finished model).

   Facts established by running the code (pandas 2.x, numpy arrays of >= 4 rows):
   * solution_single_time_step writes the day's row with `outputs.water_storage[row_day, :3] = np.array([..3 values..])`.
     When water_storage is a DataFrame this is DataFrame.__setitem__ with the tuple as a COLUMN key and a 3-element
     value: pandas raises `ValueError: Length of values (3) does not match length of index (n_steps)`.  It is raised
     after the day's processes ran (in place on the state object) but before anything is written to a table and before
     the clock moves; nothing of it is observable through the public methods, so the model leaves the state unchanged.
   * a run_model call that raises keeps everything done before the raise (completed steps, a completed _initialize,
     __steps_are_finished) and updates neither __has_model_executed nor __has_model_finished.
   * exceptions of the physics of a day are outside this model (Clock.v: [defined]); a raising _initialize
     (no growing season in the window, ...) is modelled only as far as [init_model] goes and leaves the state
     unchanged here (the code leaves a half-initialised object: _clock_struct set, _weather not). *)
From Coq Require Import ZArith List Bool.
From AC Require Import Clock.
Import ListNotations.
Local Open Scope Z_scope.

Inductive TableKind := Flux | Storage | Growth.

Inductive ExcKind :=
| ValueError_num_steps          (* "num_steps must be equal to or greater than 1." *)
| ValueError_not_executed       (* "You cannot get results without running the model. ..." *)
| ValueError_length             (* "Length of values (3) does not match length of index (n)": a day's row written into a DataFrame *)
| AttributeError_weather        (* 'AquaCropModel' object has no attribute '_weather': a step before any _initialize
                                   (since b7ac20d unreachable through run_model: the finished-test reads _clock_struct first) *)
| AttributeError_clock_struct   (* ... '_clock_struct': run_model (either mode, num_steps >= 1) before any _initialize *)
| AttributeError_outputs        (* ... '_outputs' (unreachable: executed implies initialised) *)
| ClockError (e : Err).         (* IndexError / KeyError of the clock (Clock.v); never raised for well-formed clocks *)

Inductive Op :=
| Run (num_steps : Z) (initialize_model process_outputs : bool)   (* run_model(num_steps, False, initialize_model, process_outputs) *)
| RunTill (initialize_model : bool)                               (* run_model(till_termination=True, initialize_model=...) *)
| GetResults | GetFlux | GetStorage | GetGrowth | GetInfo.

Inductive Outcome :=
| Returned (b : bool)                                   (* run_model returned b (it only ever returns True) *)
| Raised (k : ExcKind)
| NoReturn                                              (* the `while` loop did not end within n_steps steps *)
| Results (n_summary_rows : nat)                        (* get_simulation_results: the summary DataFrame *)
| NotFinished                                           (* get_simulation_results: False *)
| Table (k : TableKind) (rows_written : nat) (is_frame : bool)
| Info (executed finished : bool).                      (* get_additional_information (executed is True whenever it returns) *)

Section Api.
  Variable Phys : Type.
  Variable W : Type.
  Variable Row : Type.
  Variable Out : Type.
  Variable proc : Z -> bool -> Z -> Z -> W -> Phys -> Phys * Row.
  Variable dead : Phys -> bool.
  Variable matured : Z -> Z -> Phys -> bool.
  Variable summary_of : Z -> bool -> Phys -> Out.
  Variable reset : Z -> list W -> Phys -> Phys.
  Variable init_phys : nat -> Phys.          (* the physical state produced by the i-th _initialize of this object *)

  Record ApiSt := mkApi { model : option (Model Phys Row Out); inits : nat; executed : bool; finished_flag : bool;
                          steps_are_finished : bool; tables_are_frames : bool }.

  (* a newly constructed AquaCropModel (class attributes: all three flags False) *)
  Definition fresh : ApiSt := mkApi None 0 false false false false.

  Definition model_finished (s : ApiSt) : bool := match model s with Some m => fin (st m) | None => false end.
  Definition set_flags (s : ApiSt) (e f : bool) : ApiSt :=
    mkApi (model s) (inits s) e f (steps_are_finished s) (tables_are_frames s).
  Definition set_sticky (s : ApiSt) : ApiSt :=
    mkApi (model s) (inits s) (executed s) (finished_flag s) true (tables_are_frames s).

  (* _initialize: new clock, new state, new Output (arrays, empty summary); NONE of the three private flags is reset *)
  Definition initialise (c : ClockP) (s : ApiSt) : ApiSt + ExcKind :=
    match init_model Phys Row Out c (init_phys (inits s)) with
    | Raise e => inr (ClockError e)
    | Ok m0 => inl (mkApi (Some m0) (S (inits s)) (executed s) (finished_flag s) (steps_are_finished s) false)
    end.

  (* _perform_timestep: weather row, the day (writes its row: raises when the tables are DataFrames), termination test,
     update_time, then outputs_when_model_is_finished(model_is_finished, ..., __steps_are_finished) *)
  Definition perform_api (c : ClockP) (ws : list W) (s : ApiSt) : ApiSt + ExcKind :=
    match model s with
    | None => inr AttributeError_weather
    | Some m =>
      match nthW W ws (tsc (st m)) with
      | None => inr (ClockError IndexError)
      | Some _ =>
        if tables_are_frames s then inr ValueError_length
        else match perform Phys W Row Out proc dead matured summary_of reset c ws m with
             | Raise e => inr (ClockError e)
             | Ok m' => inl (mkApi (Some m') (inits s) (executed s) (finished_flag s) (steps_are_finished s)
                                   (fin (st m') || steps_are_finished s))
             end
      end
    end.

  (* the `for i in range(num_steps)` loop; k = iterations left.  `i == range(num_steps)[-1]` is `k = 1` *)
  Fixpoint run_loop (c : ClockP) (ws : list W) (k : nat) (po : bool) (s : ApiSt) : ApiSt * Outcome :=
    match k with
    | O => (set_flags s true false, Returned true)
    | S k' =>
      let s1 := if (match k' with O => true | S _ => false end) && po then set_sticky s else s in
      match perform_api c ws s1 with
      | inr e => (s1, Raised e)
      | inl s2 => if model_finished s2 then (set_flags s2 true true, Returned true) else run_loop c ws k' po s2
      end
    end.

  (* run_model(num_steps = n, till_termination = False, ...): initialises BEFORE it checks num_steps; then (repair b7ac20d)
     `if self._clock_struct.model_is_finished:` sets __has_model_executed and __has_model_finished and returns True without
     performing a step — before the loop, so process_outputs is not looked at and __steps_are_finished is not written
     (nor are the two execution-time stamps).  Without a _clock_struct that line raises the AttributeError. *)
  Definition do_run (c : ClockP) (ws : list W) (n : Z) (init po : bool) (s : ApiSt) : ApiSt * Outcome :=
    match (if init then initialise c s else inl s) with
    | inr e => (s, Raised e)
    | inl s0 =>
      if n <? 1 then (s0, Raised ValueError_num_steps)
      else match model s0 with
           | None => (s0, Raised AttributeError_clock_struct)
           | Some m => if fin (st m) then (set_flags s0 true true, Returned true)
                       else run_loop c ws (Z.to_nat n) po s0
           end
    end.

  (* `while self._clock_struct.model_is_finished is False` *)
  Fixpoint till_loop (c : ClockP) (ws : list W) (fuel : nat) (s : ApiSt) : ApiSt * Outcome :=
    match model s with
    | None => (s, Raised AttributeError_clock_struct)
    | Some m =>
      if fin (st m) then (set_flags s true true, Returned true)
      else match fuel with
           | O => (s, NoReturn)
           | S f => match perform_api c ws s with
                    | inr e => (s, Raised e)
                    | inl s' => till_loop c ws f s'
                    end
           end
    end.

  Definition till_fuel (c : ClockP) : nat := Z.to_nat (n_steps c).

  Definition do_till (c : ClockP) (ws : list W) (init : bool) (s : ApiSt) : ApiSt * Outcome :=
    match (if init then initialise c s else inl s) with
    | inr e => (s, Raised e)
    | inl s0 => till_loop c ws (till_fuel c) s0
    end.

  Definition get_table (k : TableKind) (s : ApiSt) : Outcome :=
    if executed s then
      match model s with
      | Some m => Table k (length (rows (tabs m))) (tables_are_frames s)
      | None => Raised AttributeError_outputs
      end
    else Raised ValueError_not_executed.

  Definition get_results (s : ApiSt) : Outcome :=
    if executed s then
      if finished_flag s then
        match model s with
        | Some m => Results (length (sums (tabs m)))
        | None => Raised AttributeError_outputs
        end
      else NotFinished
    else Raised ValueError_not_executed.

  Definition get_info (s : ApiSt) : Outcome :=
    if executed s then Info true (finished_flag s) else Raised ValueError_not_executed.

  Definition api_step (c : ClockP) (ws : list W) (op : Op) (s : ApiSt) : ApiSt * Outcome :=
    match op with
    | Run n i p => do_run c ws n i p s
    | RunTill i => do_till c ws i s
    | GetResults => (s, get_results s)
    | GetFlux => (s, get_table Flux s)
    | GetStorage => (s, get_table Storage s)
    | GetGrowth => (s, get_table Growth s)
    | GetInfo => (s, get_info s)
    end.

  (* a sequence of calls on one object: the final state and every outcome, in call order *)
  Fixpoint api_run (c : ClockP) (ws : list W) (ops : list Op) (s : ApiSt) : ApiSt * list Outcome :=
    match ops with
    | [] => (s, [])
    | op :: r => let '(s1, o) := api_step c ws op s in
                 let '(s2, os) := api_run c ws r s1 in (s2, o :: os)
    end.

  (* the same, keeping every intermediate state (used by the correspondence check) *)
  Fixpoint api_trace (c : ClockP) (ws : list W) (ops : list Op) (s : ApiSt) : list (Outcome * ApiSt) :=
    match ops with
    | [] => []
    | op :: r => let '(s1, o) := api_step c ws op s in (o, s1) :: api_trace c ws r s1
    end.
End Api.

Arguments model {Phys Row Out}. Arguments inits {Phys Row Out}. Arguments executed {Phys Row Out}.
Arguments finished_flag {Phys Row Out}. Arguments steps_are_finished {Phys Row Out}. Arguments tables_are_frames {Phys Row Out}.

(* ---- the instance used ONLY by the correspondence check and by the concrete examples/refutations of ApiP.v:
   the physics is the recorded stream of (crop_dead, maturity reached) of Inst/ClockInst.v, one stream per _initialize *)
From AC.Inst Require Import ClockInst.

Definition t_init (streams : list (list (bool * bool))) (i : nat) : TPhys :=
  {| cur_dead := false; cur_mat := false; stream := nth i streams [] |}.

Definition TApiSt := ApiSt TPhys TRow unit.
Definition t_fresh : TApiSt := fresh TPhys TRow unit.
Definition t_api_step (streams : list (list (bool * bool))) :=
  api_step TPhys unit TRow unit t_proc t_dead t_matured t_summary t_reset (t_init streams).
Definition t_api_run (streams : list (list (bool * bool))) :=
  api_run TPhys unit TRow unit t_proc t_dead t_matured t_summary t_reset (t_init streams).
Definition t_api_trace (streams : list (list (bool * bool))) :=
  api_trace TPhys unit TRow unit t_proc t_dead t_matured t_summary t_reset (t_init streams).

(* what the harness can see of the object after a call: the private flags, the kind of the tables, and (if initialised)
   model_is_finished, the rows written (step, season, in-season?, dap), the summary rows, the step and season counters *)
Definition api_view (s : TApiSt) :=
  (inits s, executed s, finished_flag s, steps_are_finished s, tables_are_frames s,
   match model s with
   | None => None
   | Some m => Some (fin (st m), rev (rows (tabs m)),
                     rev (map (fun r => (s_season r, s_step r, s_date r)) (sums (tabs m))), (tsc (st m), season (st m)))
   end).

Definition api_obs (nsteps : Z) (pl hv : list Z) (off : bool) (streams : list (list (bool * bool))) (ops : list Op) :=
  let c := {| n_steps := nsteps; plant := pl; harv := hv; off_season := off |} in
  let ws := repeat tt (Z.to_nat nsteps) in
  map (fun os => (fst os, api_view (snd os))) (t_api_trace streams c ws ops t_fresh).
