(* Clock.v — layer C/D: the day orchestration and the run loop with ABSTRACT physics.

   Sources: aquacrop/timestep/run_single_timestep.py (growing-season test, dap counter, maturity
   test, harvest flag and summary row), check_if_model_is_finished.py, update_time.py,
   aquacrop/core.py (_perform_timestep, run_model in both modes).

   Dates are day offsets from the simulation start: time_span[i] = i, 0 <= i < n_steps; the
   simulation end date is n_steps - 1.  Planting/harvest dates are offsets too (a harvest date may lie
   beyond the window).  Everything the 17 physical processes do is one abstract function [proc]; the
   theorems of Properties/C06, C07, C09, C14 hold for EVERY choice of it.  No reals here: Z, lists, bool. *)
From Coq Require Import ZArith List Bool Lia.
Import ListNotations.
Local Open Scope Z_scope.

Section Orchestration.
  Variable Phys : Type.      (* the physical state: every field of the state object not named below *)
  Variable W : Type.         (* one weather record *)
  Variable Row : Type.       (* what one day writes to the three daily tables *)
  Variable Out : Type.       (* the crop-dependent part of a summary row (yields, seasonal irrigation) *)

  (* the processes of one day: (season index, in-season?, days after planting, step) -> weather -> state -> state, row *)
  Variable proc : Z -> bool -> Z -> Z -> W -> Phys -> Phys * Row.
  Variable dead : Phys -> bool.                 (* crop_dead, set by the canopy process *)
  Variable matured : Z -> Z -> Phys -> bool.    (* season, dap: dap >= Maturity / gdd_cum >= Maturity *)
  Variable summary_of : Z -> bool -> Phys -> Out.   (* season, in-season?: yields and seasonal irrigation of the day *)
  Variable reset : Z -> list W -> Phys -> Phys. (* reset_initial_conditions for season k (reads the weather only for GDD crops) *)

  Record ClockP := { n_steps : Z; plant : list Z; harv : list Z; off_season : bool }.
  Definition n_seasons (c : ClockP) : Z := Z.of_nat (length (plant c)).
  Definition nthZ (l : list Z) (k : Z) : option Z := if k <? 0 then None else nth_error l (Z.to_nat k).

  Record St := { phys : Phys; tsc : Z; season : Z; dap : Z; mature : bool; hflag : bool; fin : bool }.

  (* one summary row: season, date following the harvest step, harvest step, crop outputs *)
  Record SumRow := { s_season : Z; s_date : Z; s_step : Z; s_out : Out }.

  Inductive Err := IndexError | KeyError.
  Inductive res (A : Type) := Ok (a : A) | Raise (e : Err).
  Arguments Ok {A}. Arguments Raise {A}.

  Definition in_season (c : ClockP) (s : St) : bool :=
    if 0 <=? season s then
      match nthZ (plant c) (season s), nthZ (harv c) (season s) with
      | Some p, Some h => (p <=? tsc s) && (tsc s <=? h) && negb (mature s) && negb (dead (phys s)) && negb (hflag s)
      | _, _ => false
      end
    else false.

  (* solution_single_time_step: returns the new state, the day's row, and the summary row if one is written *)
  Definition day_step (c : ClockP) (w : W) (s : St) : St * (Z * Row) * option SumRow :=
    let gs := in_season c s in
    let dap' := if gs then dap s + 1 else 0 in
    let '(ph, row) := proc (season s) gs dap' (tsc s) w (phys s) in
    let mature' := if gs && matured (season s) dap' ph then true else mature s in
    let harvest_today := match nthZ (harv c) (season s) with Some h => h =? tsc s + 1 | None => false end in
    let emit := (-1 <? season s) && (mature' || dead ph || harvest_today) && negb (hflag s) in
    let sr := if emit then Some {| s_season := season s; s_date := tsc s + 1; s_step := tsc s; s_out := summary_of (season s) gs ph |} else None in
    ({| phys := ph; tsc := tsc s; season := season s; dap := dap'; mature := mature'; hflag := if emit then true else hflag s; fin := fin s |},
     (tsc s, row), sr).

  Definition check_finished (c : ClockP) (s : St) : bool :=
    let f := negb (tsc s + 1 <? n_steps c - 1) in
    if hflag s && (season s =? n_seasons c - 1) then true else f.

  Definition start_season (k : Z) (ws : list W) (s : St) (t : Z) : St :=
    {| phys := reset k ws (phys s); tsc := t; season := k; dap := 0; mature := false; hflag := false; fin := fin s |}.

  (* update_time; time_span[t+1] must exist for the new step t *)
  Definition update_time (c : ClockP) (ws : list W) (s : St) : res St :=
    if fin s then Ok s
    else if hflag s && negb (off_season c) then
      if season s <? n_seasons c - 1 then
        match nthZ (plant c) (season s + 1) with
        | None => Raise IndexError
        | Some t => if (0 <=? t) && (t <? n_steps c) then
                      if t + 1 <? n_steps c then Ok (start_season (season s + 1) ws s t) else Raise IndexError
                    else Raise KeyError
        end
      else Ok s
    else
      let t := tsc s + 1 in
      if t + 1 <? n_steps c then
        let s1 := {| phys := phys s; tsc := t; season := season s; dap := dap s; mature := mature s; hflag := hflag s; fin := fin s |} in
        if season s <? n_seasons c - 1 then
          match nthZ (plant c) (season s + 1) with
          | None => Raise IndexError
          | Some p => if p =? t then Ok (start_season (season s + 1) ws s1 t) else Ok s1
          end
        else Ok s1
      else Raise IndexError.

  (* tables: the rows written so far (most recent first) *)
  Record Tables := { rows : list (Z * Row); sums : list SumRow }.
  Record Model := { st : St; tabs : Tables }.

  Definition nthW (ws : list W) (t : Z) : option W := if t <? 0 then None else nth_error ws (Z.to_nat t).

  (* AquaCropModel._perform_timestep *)
  Definition perform (c : ClockP) (ws : list W) (m : Model) : res Model :=
    match nthW ws (tsc (st m)) with
    | None => Raise IndexError
    | Some w =>
      let '(s1, row, sr) := day_step c w (st m) in
      let s2 := {| phys := phys s1; tsc := tsc s1; season := season s1; dap := dap s1; mature := mature s1;
                   hflag := hflag s1; fin := check_finished c s1 |} in
      match update_time c ws s2 with
      | Raise e => Raise e
      | Ok s3 => Ok {| st := s3; tabs := {| rows := row :: rows (tabs m);
                                           sums := match sr with Some r => r :: sums (tabs m) | None => sums (tabs m) end |} |}
      end
    end.

  (* run_model(num_steps = k, initialize_model = False): at most k steps, stops when finished *)
  Fixpoint run_steps (c : ClockP) (ws : list W) (k : nat) (m : Model) : res Model :=
    match k with
    | O => Ok m
    | S k' => match perform c ws m with
              | Raise e => Raise e
              | Ok m' => if fin (st m') then Ok m' else run_steps c ws k' m'
              end
    end.

  (* run_model(till_termination = True): `while not finished`; fuel bounds the loop, None = fuel exhausted *)
  Fixpoint run_till (c : ClockP) (ws : list W) (fuel : nat) (m : Model) : option (res Model) :=
    if fin (st m) then Some (Ok m)
    else match fuel with
         | O => None
         | S f => match perform c ws m with
                  | Raise e => Some (Raise e)
                  | Ok m' => run_till c ws f m'
                  end
         end.

  Definition init_model (c : ClockP) (p0 : Phys) : res Model :=
    match plant c with
    | [] => Raise IndexError
    | p :: _ => Ok {| st := {| phys := p0; tsc := 0; season := if p =? 0 then 0 else -1; dap := 0; mature := false; hflag := false; fin := false |};
                      tabs := {| rows := []; sums := [] |} |}
    end.

  (* ---- the run loop around a day that may raise --------------------------------------------------------------------
     [defined season gs dap tsc w phys] says whether the processes of the day return (the Python processes may raise:
     IndexError, UnboundLocalError, AssertionError, ZeroDivisionError).  A day that is not defined stops the run:
     the result is [Stopped t] (the exception propagates out of run_model, nothing of step t is written). *)
  Variable defined : Z -> bool -> Z -> Z -> W -> Phys -> bool.
  Inductive gres (A : Type) := GOk (a : A) | GRaise (e : Err) | Stopped (t : Z).
  Arguments GOk {A}. Arguments GRaise {A}. Arguments Stopped {A}.
  Definition day_defined (c : ClockP) (w : W) (s : St) : bool :=
    let gs := in_season c s in
    defined (season s) gs (if gs then dap s + 1 else 0) (tsc s) w (phys s).
  Definition perform_g (c : ClockP) (ws : list W) (m : Model) : gres Model :=
    match nthW ws (tsc (st m)) with
    | None => GRaise IndexError
    | Some w => if day_defined c w (st m)
                then match perform c ws m with Ok m' => GOk m' | Raise e => GRaise e end
                else Stopped (tsc (st m))
    end.
  Fixpoint run_steps_g (c : ClockP) (ws : list W) (k : nat) (m : Model) : gres Model :=
    match k with
    | O => GOk m
    | S k' => match perform_g c ws m with
              | GOk m' => if fin (st m') then GOk m' else run_steps_g c ws k' m'
              | r => r
              end
    end.
  Fixpoint run_till_g (c : ClockP) (ws : list W) (fuel : nat) (m : Model) : option (gres Model) :=
    if fin (st m) then Some (GOk m)
    else match fuel with
         | O => None
         | S f => match perform_g c ws m with
                  | GOk m' => run_till_g c ws f m'
                  | r => Some r
                  end
         end.
End Orchestration.

Arguments Ok {A}. Arguments Raise {A}.
Arguments GOk {A}. Arguments GRaise {A}. Arguments Stopped {A}.
Arguments phys {Phys}. Arguments tsc {Phys}. Arguments season {Phys}. Arguments dap {Phys}. Arguments mature {Phys}.
Arguments hflag {Phys}. Arguments fin {Phys}.
Arguments s_season {Out}. Arguments s_date {Out}. Arguments s_step {Out}. Arguments s_out {Out}.
Arguments rows {Row Out}. Arguments sums {Row Out}. Arguments st {Phys Row Out}. Arguments tabs {Phys Row Out}.
