(* Canopy.v — aquacrop/solution/{canopy_cover,adjust_CCx,update_CCx_CDC}.py
   The state object / crop object of the Python code are replaced by explicit records; the
   call of root_zone_water is replaced by its four results that are read (Dr.Rz, Dr.Zt, TAW.Rz, TAW.Zt).
   Definitions only; proofs are in proofs/CanopyR.v. *)
From AC Require Import Num Kernels.

Section M.
  Context {F : Type} {N : NumOps F}.
  Local Open Scope num_scope.

  (* ---- adjust_CCx.py ------------------------------------------------------------------ *)
  Definition adjust_CCx (cc_prev CCo CCx CGC CDC dt tSum CanopyDevEnd Crop_CCx : F) : F :=
    let tCCtmp := cc_required_time_cgc cc_prev CCo CCx CGC in
    if tCCtmp >? #0 then
      let tCCtmp := tCCtmp + (CanopyDevEnd - tSum) + dt in
      cc_development CCo CCx CGC CDC tCCtmp Growth Crop_CCx
    else #0.

  (* ---- update_CCx_CDC.py -------------------------------------------------------------- *)
  Definition update_CCx_CDC (cc_prev CDC CCx dt : F) : F * F :=
    let CCXadj := cc_prev / (#1 - 5#/100 * (nexp num_ops (dt * ((CDC * 333#/100) / (CCx + 229#/100))) - #1)) in
    let CDCadj := CDC * ((CCXadj + 229#/100) / (CCx + 229#/100)) in
    (CCXadj, CDCadj).

  (* ---- the crop parameters read by canopy_cover ---------------------------------------- *)
  Record CropC := {
    k_cal : Z;                       (* CalendarType: 1 calendar days, 2 growing degree days *)
    k_emergence : F; k_maturity : F; k_canopy_dev_end : F; k_senescence : F;
    k_CC0 : F; k_CCx : F; k_CGC : F; k_CDC : F;
    k_pu0 : F; k_pu1 : F; k_pu2 : F; k_pu3 : F;      (* p_up[0..3] *)
    k_pl0 : F; k_pl1 : F; k_pl2 : F; k_pl3 : F;      (* p_lo[0..3] *)
    k_etadj : Z; k_beta : F;
    k_fs0 : F; k_fs1 : F; k_fs2 : F                  (* fshape_w[0..2] *)
  }.

  (* ---- the fields of InitCond/NewCond read or written by canopy_cover ------------------ *)
  Record CanopyS := {
    s_cc : F; s_cc_prev : F; s_cc_ns : F; s_cc_adj : F; s_cc_adj_ns : F;
    s_ccx_act : F; s_ccx_act_ns : F; s_ccx_w : F; s_ccx_w_ns : F;
    s_cc0_adj : F; s_ccx_early_sen : F; s_t_early_sen : F;
    s_protected_seed : bool; s_premat_senes : bool; s_crop_dead : bool
  }.

  Definition ws_of (k : CropC) (beta_on : bool) (Dr taw et0 : F) : Ksw :=
    water_stress (k_pu0 k) (k_pu1 k) (k_pu2 k) (k_pu3 k) (k_pl0 k) (k_pl1 k) (k_pl2 k) (k_pl3 k)
                 (k_etadj k) (k_beta k) (k_fs0 k) (k_fs1 k) (k_fs2 k) beta_on Dr taw et0.

  (* micro-advective adjustment  1.72 cc - cc**2 + 0.3 cc**3.  `cc ** 2` is libm pow(cc, 2.0) (CPython float_pow and
     numpy's scalar power alike), which is NOT always equal to the correctly rounded cc*cc (glibc pow is within 1 ulp
     only; measured 4 differences in 18000 calls), hence npow and not a product. *)
  Definition cc_adj_of (cc : F) : F :=
    (172#/100 * cc) - (npow num_ops cc #2) + (3#/10 * npow num_ops cc #3).

  (* `(tCCadj < Emergence) or (round(tCCadj) > Maturity)` *)
  Definition cc_outside (k : CropC) (tcc : F) : bool :=
    (tcc <? k_emergence k) || (#(nrint num_ops tcc) >? k_maturity k).

  (* ## Canopy development (potential) ##   returns (cc_ns, ccx_act_ns, ccx_w_ns) *)
  Definition cc_potential (k : CropC) (tcc dt : F) (cc_ns0 ccx_act_ns0 ccx_w_ns0 : F) : F * F * F :=
    if cc_outside k tcc then (#0, ccx_act_ns0, ccx_w_ns0)
    else if tcc <? k_canopy_dev_end k then
      let cc_ns :=
        if cc_ns0 <=? k_CC0 k then k_CC0 k * nexp num_ops (k_CGC k * dt)
        else cc_development (k_CC0 k) (98#/100 * k_CCx k) (k_CGC k) (k_CDC k) (tcc - k_emergence k) Growth (k_CCx k) in
      (cc_ns, cc_ns, ccx_w_ns0)
    else if tcc >? k_canopy_dev_end k then
      let ccx_w_ns := ccx_act_ns0 in
      if tcc <? k_senescence k then (cc_ns0, cc_ns0, ccx_w_ns)
      else
        (cc_development (k_CC0 k) ccx_act_ns0 (k_CGC k) (k_CDC k) (tcc - k_senescence k) Decline ccx_act_ns0,
         ccx_act_ns0, ccx_w_ns)
    else (cc_ns0, ccx_act_ns0, ccx_w_ns0).

  (* the `Canopy growing` sub-branch with expansion stress: returns (cc, cc0_adj) *)
  Definition cc_growing (k : CropC) (tcc dt : F) (ksw_exp : F) (cc0 cc0_adj : F) : F * F :=
    if cc0 <? 9799#/10000 * k_CCx k then
      let CGCadj := k_CGC k * ksw_exp in
      if CGCadj >? #0 then
        let CCXadj := adjust_CCx cc0 cc0_adj (k_CCx k) CGCadj (k_CDC k) dt tcc (k_canopy_dev_end k) (k_CCx k) in
        if CCXadj <? #0 then (cc0, cc0_adj)
        else if nabs (cc0 - (9799#/10000 * k_CCx k)) <? 1#/1000 then
          (cc_development (k_CC0 k) (k_CCx k) (k_CGC k) (k_CDC k) (tcc - k_emergence k) Growth (k_CCx k), cc0_adj)
        else
          let tReq := cc_required_time_cgc cc0 cc0_adj CCXadj CGCadj in
          if tReq >? #0 then
            (cc_development cc0_adj CCXadj CGCadj (k_CDC k) (tReq + dt) Growth (k_CCx k), cc0_adj)
          else (cc0, cc0_adj)
      else
        (cc0, if cc0 >? cc0_adj then k_CC0 k else cc0)
    else
      (cc_development (k_CC0 k) (k_CCx k) (k_CGC k) (k_CDC k) (tcc - k_emergence k) Growth (k_CCx k), k_CC0 k).

  Definition death_check (cc : F) (dead0 dead : bool) : F * bool :=
    if (cc <? 1#/1000) && negb dead0 then (#0, true) else (cc, dead).

  (* ## Canopy development (actual) ##   returns (cc, cc0_adj, ccx_act, protected_seed, crop_dead) *)
  Definition cc_actual (k : CropC) (tcc dt : F) (ksw_exp : F) (s : CanopyS) : F * F * F * bool * bool :=
    let cc0 := s_cc s in let cc0_adj := s_cc0_adj s in let ccx_act0 := s_ccx_act s in
    let prot := s_protected_seed s in let dead0 := s_crop_dead s in
    if cc_outside k tcc then (#0, k_CC0 k, ccx_act0, prot, dead0)
    else if tcc <? k_canopy_dev_end k then
      let '(cc, cc0_adj', prot') :=
        if (cc0 <=? cc0_adj) || (prot && (cc0 <=? 125#/100 * cc0_adj)) then
          if prot then
            let cc := cc_development (k_CC0 k) (k_CCx k) (k_CGC k) (k_CDC k) (tcc - k_emergence k) Growth (k_CCx k) in
            (cc, cc0_adj, if cc >? 125#/100 * cc0_adj then false else prot)
          else (cc0_adj * nexp num_ops (k_CGC k * dt), cc0_adj, prot)
        else
          let '(cc, c0a) := cc_growing k tcc dt ksw_exp cc0 cc0_adj in (cc, c0a, prot) in
      (cc, cc0_adj', (if cc >? ccx_act0 then cc else ccx_act0), prot', dead0)
    else if tcc >? k_canopy_dev_end k then
      let '(cc, ccx_act) :=
        if tcc <? k_senescence k then (cc0, if cc0 >? ccx_act0 then cc0 else ccx_act0)
        else
          let CDCadj := k_CDC k * ((ccx_act0 + 229#/100) / (k_CCx k + 229#/100)) in
          (cc_development cc0_adj ccx_act0 (k_CGC k) CDCadj (tcc - k_senescence k) Decline ccx_act0, ccx_act0) in
      let '(cc, dead) := death_check cc dead0 dead0 in
      (cc, cc0_adj, ccx_act, prot, dead)
    else (cc0, cc0_adj, ccx_act0, prot, dead0).

  (* new canopy size after senescence `CCsen` *)
  Definition cc_sen (cc0 ccx_early_sen CDCadj dt : F) : F :=
    if ccx_early_sen <? 1#/1000 then #0
    else
      let tReq := (nln num_ops (#1 + (#1 - cc0 / ccx_early_sen) / 5#/100)) /
                  ((CDCadj * 333#/100) / (ccx_early_sen + 229#/100)) in
      let tmp := tReq + dt in
      let c := ccx_early_sen * (#1 - 5#/100 *
                 (nexp num_ops (tmp * ((CDCadj * 333#/100) / (ccx_early_sen + 229#/100))) - #1)) in
      if c <? #0 then #0 else c.

  (* ## Canopy senescence due to water stress (actual) ##
     [a] = (cc, cc0_adj, ccx_act, protected_seed, crop_dead) after the "actual" block;
     returns (cc, cc0_adj, ccx_act, crop_dead, premat_senes, ccx_early_sen, t_early_sen, ccx_w) *)
  Definition cc_stress_branch (k : CropC) (s : CanopyS) (tcc dt Dr taw et0 : F) (cc cc0_adj ccx_act : F) (dead : bool)
    : F * F * F * bool :=
    let cc0 := s_cc s in let tes0 := s_t_early_sen s in
    let ces := if tes0 =? #0 then cc0 else s_ccx_early_sen s in
    let ksw2 := ws_of k false Dr taw et0 in
    let CDCadj := if Ksw_Sen ksw2 >? 99999#/100000 then 1#/10000
                  else (#1 - npow num_ops (Ksw_Sen ksw2) #8) * k_CDC k in
    let CCsen := cc_sen cc0 ces CDCadj dt in
    let '(cc, cc0_adj, ccx_act) :=
      if tcc <? k_senescence k then
        let CCsen := if CCsen >? k_CCx k then k_CCx k else CCsen in
        let cc := if CCsen >? cc0 then cc0 else CCsen in
        (cc, (if cc <? k_CC0 k then cc else k_CC0 k), cc)
      else ((if CCsen <? cc then CCsen else cc), cc0_adj, ccx_act) in
    let '(cc, dead) := death_check cc (s_crop_dead s) dead in
    (cc, cc0_adj, ccx_act, dead).

  Definition cc_rewater_branch (k : CropC) (s : CanopyS) (tcc dt : F) (cc cc0_adj ccx_act : F) (dead : bool)
    : F * F * bool :=
    if (tcc >? k_senescence k) && (s_t_early_sen s >? #0) then
      let '(CCXadj, CDCadj) := update_CCx_CDC (s_cc s) (k_CDC k) (k_CCx k) (tcc - dt - k_senescence k) in
      let cc := cc_development cc0_adj CCXadj (k_CGC k) CDCadj (tcc - k_senescence k) Decline CCXadj in
      let '(cc, dead) := death_check cc (s_crop_dead s) dead in
      (cc, CCXadj, dead)
    else (cc, ccx_act, dead).

  Definition cc_senescence (k : CropC) (s : CanopyS) (tcc dt ksw_sen Dr taw et0 : F)
             (cc cc0_adj ccx_act : F) (dead : bool) : F * F * F * bool * bool * F * F * F :=
    let tes0 := s_t_early_sen s in
    if (tcc >=? k_emergence k) && ((tcc <? k_senescence k) || (tes0 >? #0)) then
      let '(cc, cc0_adj, ccx_act, dead, premat, ces, tes) :=
        if (ksw_sen <? #1) && negb (s_protected_seed s) then
          let '(cc, cc0_adj, ccx_act, dead) := cc_stress_branch k s tcc dt Dr taw et0 cc cc0_adj ccx_act dead in
          (cc, cc0_adj, ccx_act, dead, true, (if tes0 =? #0 then s_cc s else s_ccx_early_sen s), tes0 + dt)
        else
          let '(cc, ccx_act, dead) := cc_rewater_branch k s tcc dt cc cc0_adj ccx_act dead in
          (cc, cc0_adj, ccx_act, dead, false, s_ccx_early_sen s, #0) in
      (cc, cc0_adj, ccx_act, dead, premat, ces, tes, (if cc >? s_ccx_w s then cc else s_ccx_w s))
    else (cc, cc0_adj, ccx_act, dead, s_premat_senes s, s_ccx_early_sen s, tes0, s_ccx_w s).

  (* potential canopy not lower than actual: returns (cc_ns, ccx_act_ns) *)
  Definition cc_ns_raise (k : CropC) (tcc cc cc_ns ccx_act_ns : F) : F * F :=
    if cc_ns <? cc then (cc, if tcc <? k_canopy_dev_end k then cc else ccx_act_ns) else (cc_ns, ccx_act_ns).

  (* the growing-season body of the function *)
  Definition canopy_gs (k : CropC) (s : CanopyS) (tcc dt : F) (Dr_Rz Dr_Zt TAW_Rz TAW_Zt et0 : F) : CanopyS :=
    let '(Dr, taw) := if Dr_Rz / TAW_Rz <=? Dr_Zt / TAW_Zt then (Dr_Rz, TAW_Rz) else (Dr_Zt, TAW_Zt) in
    let ksw := ws_of k (s_t_early_sen s >? #0) Dr taw et0 in
    let '(cc_ns, ccx_act_ns, ccx_w_ns) := cc_potential k tcc dt (s_cc_ns s) (s_ccx_act_ns s) (s_ccx_w_ns s) in
    let '(cc, cc0_adj, ccx_act, prot, dead) := cc_actual k tcc dt (Ksw_Exp ksw) s in
    let '(cc, cc0_adj, ccx_act, dead, premat, ces, tes, ccx_w) :=
      cc_senescence k s tcc dt (Ksw_Sen ksw) Dr taw et0 cc cc0_adj ccx_act dead in
    let '(cc_ns, ccx_act_ns) := cc_ns_raise k tcc cc cc_ns ccx_act_ns in
    {| s_cc := cc; s_cc_prev := s_cc s; s_cc_ns := cc_ns; s_cc_adj := cc_adj_of cc; s_cc_adj_ns := cc_adj_of cc_ns;
       s_ccx_act := ccx_act; s_ccx_act_ns := ccx_act_ns; s_ccx_w := ccx_w; s_ccx_w_ns := ccx_w_ns;
       s_cc0_adj := cc0_adj; s_ccx_early_sen := ces; s_t_early_sen := tes;
       s_protected_seed := prot; s_premat_senes := premat; s_crop_dead := dead |}.

  Definition canopy_off (s : CanopyS) : CanopyS :=
    {| s_cc := #0; s_cc_prev := s_cc s; s_cc_ns := #0; s_cc_adj := #0; s_cc_adj_ns := #0;
       s_ccx_act := #0; s_ccx_act_ns := #0; s_ccx_w := #0; s_ccx_w_ns := #0;
       s_cc0_adj := s_cc0_adj s; s_ccx_early_sen := s_ccx_early_sen s; s_t_early_sen := s_t_early_sen s;
       s_protected_seed := s_protected_seed s; s_premat_senes := s_premat_senes s; s_crop_dead := s_crop_dead s |}.

  (* canopy_cover(Crop, prof, Soil_zTop, InitCond, gdd, et0, growing_season).
     dap, delayed_cds are Python ints; gdd_cum, delayed_gdds, gdd floats.
     None: CalendarType outside {1,2} leaves dtCC unbound (UnboundLocalError). *)
  Definition canopy_cover (k : CropC) (s : CanopyS) (dap delayed_cds : Z) (gdd_cum delayed_gdds gdd : F)
             (Dr_Rz Dr_Zt TAW_Rz TAW_Zt et0 : F) (growing_season : bool) : option CanopyS :=
    if growing_season then
      if (k_cal k =? 1)%Z then
        Some (canopy_gs k s #(dap - delayed_cds) #1 Dr_Rz Dr_Zt TAW_Rz TAW_Zt et0)
      else if (k_cal k =? 2)%Z then
        Some (canopy_gs k s (gdd_cum - delayed_gdds) gdd Dr_Rz Dr_Zt TAW_Rz TAW_Zt et0)
      else None
    else Some (canopy_off s).
End M.
