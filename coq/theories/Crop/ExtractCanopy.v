(* ExtractCanopy.v — stand-alone extraction of the canopy unit (ExtrOcamlBasic only). *)
From AC Require Import Num Params Kernels.
From AC.Crop Require Import Canopy.
From Coq Require Import ExtrOcamlBasic.
Definition keep_nat : nat -> nat := S.
Extraction Language OCaml.
Extraction "ocaml/model_canopy.ml" keep_nat storage adjust_CCx update_CCx_CDC canopy_cover.
