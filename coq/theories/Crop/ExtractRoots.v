(* ExtractRoots.v — stand-alone extraction of the roots unit (ExtrOcamlBasic only). *)
From AC Require Import Num Params.
From AC.Crop Require Import Roots.
From Coq Require Import ExtrOcamlBasic.
Definition keep_nat : nat -> nat := S.
Extraction Language OCaml.
Extraction "ocaml/model_roots.ml" keep_nat storage np_sum root_development germination pre_irrigation.
