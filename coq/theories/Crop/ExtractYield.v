(* ExtractYield.v — stand-alone extraction of the yield unit (ExtrOcamlBasic only). *)
From AC Require Import Num Params Kernels.
From AC.Water Require Import RootZone.
From AC.Crop Require Import Yield.
From Coq Require Import ExtrOcamlBasic.
Definition keep_nat : nat -> nat := S.
Extraction Language OCaml.
Extraction "ocaml/model_yield.ml" keep_nat storage
  biomass_accumulation HIref_current_day HIadj_pre_anthesis HIadj_pollination HIadj_post_anthesis
  hi_core harvest_index yields crop_mature.
