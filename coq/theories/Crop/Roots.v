(* Roots.v — aquacrop/solution/{root_development,germination,pre_irrigation}.py

   The three functions take/return the state object in Python; here the fields read are explicit
   arguments and the fields written are returned.  [None] = the Python code raises
   (IndexError, UnboundLocalError, ZeroDivisionError).

   root_development(Crop, prof, DAP, Zroot, DelayedCDs, GDDcum, DelayedGDDs, TrRatio, th, CC, CC_NS, Germination,
                    rCor, Tpot, zGW, gdd, growing_season, water_table_presence) -> (Zroot, rCor)
   germination(InitCond, Soil_zGerm, prof, Crop_GermThr, Crop_PlantMethod, gdd, growing_season)
        writes germination, protected_seed, delayed_cds, delayed_gdds
   pre_irrigation(prof, Crop, InitCond, growing_season, IrrMngt) -> (th, PreIrr) *)
From AC Require Import Num Params.

Section M.
  Context {F : Type} {N : NumOps F}.
  Local Open Scope num_scope.

  (* ---- numpy's float64 add.reduce on a contiguous vector: `prof.dz[l_idx].sum()` --------------------
     0 + pairwise_sum: fewer than 8 elements are added left to right; up to 128 elements go through eight
     interleaved accumulators combined as ((r0+r1)+(r2+r3))+((r4+r5)+(r6+r7)) and the tail (< 8 elements)
     is added left to right; longer vectors are split at n/2 rounded down to a multiple of 8. *)
  Fixpoint seq_add (acc : F) (l : list F) : F :=
    match l with [] => acc | x :: r => seq_add (acc + x) r end.

  Fixpoint np_block (r0 r1 r2 r3 r4 r5 r6 r7 : F) (l : list F) : F :=
    match l with
    | a0 :: a1 :: a2 :: a3 :: a4 :: a5 :: a6 :: a7 :: l' =>
      np_block (r0 + a0) (r1 + a1) (r2 + a2) (r3 + a3) (r4 + a4) (r5 + a5) (r6 + a6) (r7 + a7) l'
    | _ => seq_add (((r0 + r1) + (r2 + r3)) + ((r4 + r5) + (r6 + r7))) l
    end.

  Fixpoint np_pairwise (fuel : nat) (l : list F) : F :=
    let n := length l in
    if Nat.ltb n 8 then seq_add #0 l
    else if Nat.leb n 128 then
      match l with
      | a0 :: a1 :: a2 :: a3 :: a4 :: a5 :: a6 :: a7 :: l' => np_block a0 a1 a2 a3 a4 a5 a6 a7 l'
      | _ => #0
      end
    else
      match fuel with
      | O => #0
      | S f =>
        let n2 := Nat.sub (Nat.div n 2) (Nat.modulo (Nat.div n 2) 8) in
        np_pairwise f (firstn n2 l) + np_pairwise f (skipn n2 l)
      end.

  Definition np_sum (l : list F) : F := #0 + np_pairwise (length l) l.

  (* ---- soil layers as the code sees them ---------------------------------------------------------- *)
  (* np.unique(prof.Layer).shape[0] *)
  Fixpoint nunique (l : list Z) : nat :=
    match l with
    | [] => O
    | x :: r => if existsb (Z.eqb x) r then nunique r else S (nunique r)
    end.

  (* l_idx = np.argwhere(prof.Layer == k): (prof.dz[l_idx].sum(), prof.Penetrability[l_idx[0]]);
     the second component is None when l_idx is empty (l_idx[0] raises IndexError) *)
  Definition LayerInfo : Type := (F * option F)%type.
  Definition layer_info (p : list (Comp F)) (k : Z) : LayerInfo :=
    let cs := filter (fun c => (c_layer c =? k)%Z) p in
    (np_sum (map c_dz cs), match cs with [] => None | c :: _ => Some (c_pen c) end).

  (* layers k, k+1, ..., k+n-1 *)
  Fixpoint layer_tab (p : list (Comp F)) (k : Z) (n : nat) : list LayerInfo :=
    match n with O => [] | S n' => layer_info p k :: layer_tab p (k + 1)%Z n' end.

  (* `while (round(Zsoil, 2) <= Crop.Zmin) and (layeri < Soil_nLayer)`: [cur] is layer layeri, [rest] the deeper
     layers; returns (Zsoil, current layer, deeper layers) *)
  Fixpoint rd_skip (zmin zsoil : F) (cur : LayerInfo) (rest : list LayerInfo) : F * LayerInfo * list LayerInfo :=
    match rest with
    | [] => (zsoil, cur, [])
    | e :: r => if nround_np num_ops 2 zsoil <=? zmin then rd_skip zmin (zsoil + fst e) e r else (zsoil, cur, rest)
    end.

  (* `while EndProf == False`: returns ZrOUT *)
  Fixpoint rd_walk (zradj zrremain deltaz zsoil : F) (cur : LayerInfo) (rest : list LayerInfo) : option F :=
    match snd cur with
    | None => None
    | Some pen =>
      let zrtest := zradj + (zrremain * (pen / #100)) in
      match rest with
      | [] => Some zrtest
      | e :: r =>
        if (pen =? #0) || (zrtest <=? zsoil) then Some zrtest
        else rd_walk zsoil (zrremain - (deltaz / (pen / #100))) (fst e) (zsoil + fst e) e r
      end
    end.

  (* the whole "restrictive soil horizons" block for a potential depth Zr > Zmin *)
  Definition rd_restrict (p : list (Comp F)) (zmin zr : F) : option F :=
    match layer_tab p 1 (nunique (map c_layer p)) with
    | [] => None
    | e :: r =>
      let '(zsoil, cur, rest) := rd_skip zmin (fst e) e r in
      rd_walk zmin (zr - zmin) (zsoil - zmin) zsoil cur rest
    end.

  (* ---- crop parameters read by root_development --------------------------------------------------- *)
  Record RootCrop := {
    rc_Zmin : F; rc_Zmax : F; rc_PctZmin : F; rc_Emergence : F; rc_MaxRooting : F;
    rc_fshape_r : F; rc_fshape_ex : F; rc_cal : Z;           (* CalendarType *)
    rc_SxTop : F; rc_SxBot : F;
    rc_pup1 : F; rc_fshape_w1 : F }.                          (* p_up[1], fshape_w[1] *)

  (* potential root depth at (adjusted) time t; the flag says the value came out of np.power (a numpy scalar:
     a later division by a Python-float zero does not raise) *)
  Definition rd_pot (c : RootCrop) (zini : F) (t0 : Z) (t : F) : option (F * bool) :=
    let tmax := rc_MaxRooting c in
    let z :=
      if t >=? tmax then Some (rc_Zmax c, false)
      else if t <=? #t0 then Some (zini, false)
      else if rc_fshape_r c =? #0 then None
      else
        let X := (t - #t0) / (tmax - #t0) in
        Some (zini + (rc_Zmax c - zini) * npow num_ops X (#1 / rc_fshape_r c), true) in
    match z with
    | None => None
    | Some zz => if fst zz <? rc_Zmin c then Some (rc_Zmin c, false) else Some zz
    end.

  (* stomatal-stress factor on the expansion rate *)
  Definition rd_stomatal (c : RootCrop) (trratio dzr : F) : F :=
    if trratio <? 9999#/10000 then
      if rc_fshape_ex c >=? #0 then dzr * trratio
      else dzr * ((nexp num_ops (trratio * rc_fshape_ex c) - #1) / (nexp num_ops (rc_fshape_ex c) - #1))
    else dzr.

  (* idx = argwhere(prof.dzsum >= ZiTmp)[0] together with th[idx] *)
  Fixpoint rd_find (zi : F) (p : list (Comp F)) (th : list F) : option (Comp F * F) :=
    match p with
    | [] => None
    | c :: p' =>
      match th with
      | [] => if c_dzsum c >=? zi then None else rd_find zi p' []
      | t :: th' => if c_dzsum c >=? zi then Some (c, t) else rd_find zi p' th'
      end
    end.

  (* dry soil at the expansion front *)
  Definition rd_dry (c : RootCrop) (p : list (Comp F)) (th : list F) (zinit dzr : F) : option F :=
    if dzr >? 1#/1000 then
      let pz := rc_pup1 c + ((#1 - rc_pup1 c) / #2) in
      match rd_find (zinit + dzr) p th with
      | None => None
      | Some (cm, t) =>
        let taw := c_th_fc cm - c_th_wp cm in
        let thr := c_th_fc cm - (pz * taw) in
        if t <? thr then
          if t <=? c_th_wp cm then Some #0
          else
            let wrel := (c_th_fc cm - t) / taw in
            let drel := #1 - ((#1 - wrel) / (#1 - pz)) in
            let ks := #1 - ((nexp num_ops (drel * rc_fshape_w1 c) - #1) / (nexp num_ops (rc_fshape_w1 c) - #1)) in
            Some (dzr * ks)
        else Some dzr
      end
    else Some dzr.

  (* root-density correction *)
  Definition rd_rcor (c : RootCrop) (zroot zrpot : F) (pot_np : bool) (tpot trratio : F) : option F :=
    if zroot <? zrpot then
      if negb pot_np && ((zroot =? #0) || (rc_SxBot c =? #0)) then None        (* ZeroDivisionError on Python floats *)
      else
        let r := (#2 * (zrpot / zroot) * ((rc_SxTop c + rc_SxBot c) / #2) - rc_SxTop c) / rc_SxBot c in
        if tpot >? #0 then
          let r := r * trratio in
          Some (if r <? #1 then #1 else r)
        else Some r
    else Some #1.

  (* water-table limit *)
  Definition rd_table (zmin zroot zgw : F) (wt : Z) : F :=
    if (wt =? 1)%Z && (zgw >? #0) then
      if zroot >? zgw then (if zgw <? zmin then zmin else zgw) else zroot
    else zroot.

  Definition rd_zini (c : RootCrop) : F := rc_Zmin c * (rc_PctZmin c / #100).
  Definition rd_t0 (c : RootCrop) : Z := nrint num_ops (rc_Emergence c / #2).
  Definition rd_potential (c : RootCrop) (t : F) : option (F * bool) := rd_pot c (rd_zini c) (rd_t0 c) t.

  (* (tAdj, tOld): development time today and yesterday, in days or in growing degree days *)
  Definition rd_times (c : RootCrop) (dap dcd : Z) (gddcum dgdd gdd : F) : option (F * F) :=
    if (rc_cal c =? 1)%Z then Some (#(dap - dcd), #(dap - dcd - 1))
    else if (rc_cal c =? 2)%Z then Some (gddcum - dgdd, gddcum - dgdd - gdd)
    else None.

  (* `_restricted_depth(Z)` applied only when Z > Zmin (what the code does to ZrOld; Zr is only restricted when > Zmin) *)
  Definition rd_restricted (p : list (Comp F)) (zmin z : F) : option F :=
    if z >? zmin then rd_restrict p zmin z else Some z.

  (* the day's expansion dZr after restrictive horizons (today's AND yesterday's potential depth go through the
     penetrability walk), stomatal stress, dry expansion front, early senescence and failed germination *)
  Definition rd_dzr (c : RootCrop) (p : list (Comp F)) (th : list F) (zinit zrold zr trratio cc ccns : F) (germ : bool)
    : option F :=
    let dzr0 :=
      if zr >? rc_Zmin c then
        match rd_restrict p (rc_Zmin c) zr with
        | None => None
        | Some zr1 =>
          match rd_restricted p (rc_Zmin c) zrold with
          | None => None
          | Some zo1 => Some (zr1 - zo1)
          end
        end
      else Some (zr - zrold) in
    match dzr0 with
    | None => None
    | Some dzr =>
      let dzr := rd_stomatal c trratio dzr in
      match rd_dry c p th zinit dzr with
      | None => None
      | Some dzr =>
        let dzr := if (cc <=? #0) && (ccns >? 5#/10) then #0 else dzr in
        Some (if germ then dzr else #0)
      end
    end.

  Definition root_development (c : RootCrop) (p : list (Comp F)) (dap : Z) (zroot : F) (dcd : Z)
             (gddcum dgdd trratio : F) (th : list F) (cc ccns : F) (germ : bool) (rcor tpot zgw gdd : F)
             (gs : bool) (wt : Z) : option (F * F) :=
    if gs then
      let zmin := rc_Zmin c in
      let zinit := if (dap =? 1)%Z then zmin else zroot in
      match rd_times c dap dcd gddcum dgdd gdd with
      | None => None
      | Some (tadj, told) =>
        match rd_potential c told, rd_potential c tadj with
        | Some (zrold, _), Some (zr, pot_np) =>
          match rd_dzr c p th zinit zrold zr trratio cc ccns germ with
          | None => None
          | Some dzr =>
            let zroot1 := zinit + dzr in
            match rd_rcor c zroot1 zr pot_np tpot trratio with
            | None => None
            | Some rcor1 => Some (rd_table zmin zroot1 zgw wt, rcor1)
            end
          end
        | _, _ => None
        end
      end
    else Some (#0, rcor).

  (* ---- germination.py ------------------------------------------------------------------------------ *)
  Record GermOut := { g_germ : bool; g_prot : bool; g_dcd : Z; g_dgdd : F }.

  Definition germ_term (factor x dz : F) : F := nround_np num_ops 3 (factor * #1000 * x * dz).

  (* `for ii in range(comp_sto + 1)` with comp_sto = argwhere(prof.dzsum >= zGerm)[0]: (Wr, WrFC, WrWP) *)
  Fixpoint germ_loop (zgerm : F) (p : list (Comp F)) (th : list F) (wr wrfc wrwp : F) : option (F * F * F) :=
    match p, th with
    | c :: p', t :: th' =>
      let factor := if c_dzsum c >? zgerm then #1 - ((c_dzsum c - zgerm) / c_dz c) else #1 in
      let wr' := wr + germ_term factor t (c_dz c) in
      let wrfc' := wrfc + germ_term factor (c_th_fc c) (c_dz c) in
      let wrwp' := wrwp + germ_term factor (c_th_wp c) (c_dz c) in
      if c_dzsum c >=? zgerm then Some (wr', wrfc', wrwp') else germ_loop zgerm p' th' wr' wrfc' wrwp'
    | _, _ => None
    end.

  (* proportional water content of the germination layer *)
  Definition germ_wcprop (w : F * F * F) : F :=
    let '(wr, wrfc, wrwp) := w in
    let wr := if wr <? #0 then #0 else wr in
    #1 - ((wrfc - wr) / (wrfc - wrwp)).

  Definition germination (germ prot : bool) (dcd : Z) (dgdd : F) (th : list F) (zgerm : F) (p : list (Comp F))
             (germthr plantmethod gdd : F) (gs : bool) : option GermOut :=
    if gs then
      if germ then Some {| g_germ := germ; g_prot := prot; g_dcd := dcd; g_dgdd := dgdd |}
      else
        match germ_loop zgerm p th #0 #0 #0 with
        | None => None
        | Some w =>
          if germ_wcprop w >=? germthr then
            Some {| g_germ := true; g_prot := (plantmethod =? #1); g_dcd := dcd; g_dgdd := dgdd |}
          else
            Some {| g_germ := false; g_prot := false; g_dcd := (dcd + 1)%Z; g_dgdd := dgdd + gdd |}
        end
    else Some {| g_germ := false; g_prot := false; g_dcd := 0%Z; g_dgdd := #0 |}.

  (* ---- pre_irrigation.py ---------------------------------------------------------------------------- *)
  Definition pre_thcrit (smt : F) (c : Comp F) : F := c_th_wp c + ((smt / #100) * (c_th_fc c - c_th_wp c)).

  (* `for ii in range(int(compRz))` with compRz = argwhere(prof.dzsum >= rootdepth)[0]: the compartment that
     contains the bottom of the root zone is NOT treated (the code's range stops before it) *)
  Fixpoint pre_loop (rootdepth smt : F) (p : list (Comp F)) (th : list F) (pre : F) : option (list F * F) :=
    match p with
    | [] => None
    | c :: p' =>
      if c_dzsum c >=? rootdepth then Some (th, pre)
      else
        match th with
        | [] => None
        | t :: th' =>
          let thcrit := pre_thcrit smt c in
          if t <? thcrit then
            match pre_loop rootdepth smt p' th' (pre + ((thcrit - t) * #1000 * c_dz c)) with
            | None => None
            | Some (r, q) => Some (thcrit :: r, q)
            end
          else
            match pre_loop rootdepth smt p' th' pre with
            | None => None
            | Some (r, q) => Some (t :: r, q)
            end
        end
    end.

  Definition pre_irrigation (p : list (Comp F)) (zmin zroot : F) (th : list F) (dap : Z) (gs : bool)
             (method : Z) (smt : F) : option (list F * F) :=
    if gs then
      if negb (method =? 4)%Z || negb (dap =? 1)%Z then Some (th, #0)
      else pre_loop (nround_py num_ops 2 (pmax zroot zmin)) smt p th #0
    else Some (th, #0).
End M.
Arguments RootCrop F : clear implicits.
Arguments GermOut F : clear implicits.
Arguments LayerInfo F : clear implicits.
