(* Yield.v — biomass, reference / adjusted harvest index and the yield lines.
   Source: aquacrop/solution/{biomass_accumulation,HIref_current_day,harvest_index,HIadj_pre_anthesis,
   HIadj_pollination,HIadj_post_anthesis}.py and steps 18-19 of aquacrop/timestep/run_single_timestep.py.
   The Python functions read a crop object and a state object; here the fields read are explicit
   arguments (records [YCrop], [SCrop], [HState]) and the fields written are the results.

   Division conventions (decided by the dynamic types observed in real runs):
   * quotients whose numerator is an np.float64 in the running model (B/B_NS, Dr/TAW, DryYield/(YldWC/100),
     the logistic HI curve) are total IEEE divisions (inf/NaN, no exception);
   * quotients of Python numbers by a Python number that can be 0 raise ZeroDivisionError -> [None]
     (Tr/et0 on the no-canopy days where Tr is the int 0, HIt/(YldFormCD/3), t/FloweringCD, tmax/DayCor). *)
From AC Require Import Num Params Kernels.
From AC.Water Require Import RootZone.

(* np.sin / np.pi (HIadj_pre_anthesis.py) are not in [Num]; they enter through this small class
   (float instance: libm sin and the double nearest to pi; real instance: sin, PI). *)
Class TrigOps (F : Type) := { tsin : F -> F; tpi : F }.

Section M.
  Context {F : Type} {N : NumOps F} {T : TrigOps F}.
  Local Open Scope num_scope.

  (* crop fields read by the yield unit *)
  Record YCrop := {
    y_CropType : Z;        (* 1 leafy, 2 root/tuber, 3 fruit/grain *)
    y_Determinant : F;
    y_HIstartCD : F; y_YldFormCD : F; y_HIendCD : F; y_FloweringCD : F; y_CanopyDevEndCD : F;
    y_tLinSwitch : F; y_dHILinear : F; y_HIGC : F; y_HI0 : F; y_HIini : F;
    y_WP : F; y_WPy : F; y_fCO2 : F;
    y_dHI_pre : F; y_dHI0 : F; y_a_HI : F; y_b_HI : F; y_exc : F; y_CCmin : F; y_YldWC : F
  }.

  Definition is23 (c : YCrop) : bool := (y_CropType c =? 2)%Z || (y_CropType c =? 3)%Z.
  Definition is12 (c : YCrop) : bool := (y_CropType c =? 1)%Z || (y_CropType c =? 2)%Z.

  (* HIt = DAP - DelayedCDs - HIstartCD - 1  (DAP, DelayedCDs Python ints) *)
  Definition hit (c : YCrop) (dap dcds : Z) : F := #(dap - dcds) - y_HIstartCD c - #1.

  (* ---- biomass_accumulation.py -------------------------------------------------------- *)
  Definition fswitch (c : YCrop) (t pct : F) : option F :=
    if y_Determinant c =? #1 then Some (pct / #100)
    else
      let y3 := y_YldFormCD c / #3 in
      if t <? y3 then (if y3 =? #0 then None else Some (t / y3)) else Some #1.

  (* WP after the yield-formation adjustment, before the CO2 factor *)
  Definition wp_adj (c : YCrop) (t hiref pct : F) : option F :=
    if is23 c && (#0 <? hiref) then
      match fswitch c t pct with
      | Some fs => Some (y_WP c * (#1 - (#1 - y_WPy c / #100) * fs))
      | None => None
      end
    else Some (y_WP c).

  (* returns (B, B_NS) *)
  Definition biomass_accumulation (c : YCrop) (dap dcds : Z) (hiref pct B Bns Tr TrPot et0 : F) (gs : bool)
    : option (F * F) :=
    if gs then
      match wp_adj c (hit c dap dcds) hiref pct with
      | None => None
      | Some w =>
        if et0 =? #0 then None else
        let w := w * y_fCO2 c in
        let dBns := w * (TrPot / et0) in
        let dB := w * (Tr / et0) in
        let dB := if dB =? dB then dB else #0 in      (* np.isnan(dB) *)
        Some (B + dB, Bns + dBns)
      end
    else Some (#0, #0).

  (* ---- HIref_current_day.py ------------------------------------------------------------ *)
  Definition hi_logistic (c : YCrop) (t : F) : F :=
    (y_HIini c * y_HI0 c) / (y_HIini c + (y_HI0 c - y_HIini c) * nexp num_ops ((- y_HIGC c) * t)).

  (* "Limit hi_ref and round off computed value" *)
  Definition hi_limit (c : YCrop) (h : F) : F :=
    if y_HI0 c <? h then y_HI0 c
    else if h <=? y_HIini c + 4#/1000 then #0
    else if (y_HI0 c - h) <? 4#/1000 then y_HI0 c
    else h.

  (* (PctLagPhase, HIref) before limiting; [pct], [hiref] are the incoming values, kept for unknown crop types *)
  Definition hi_curve (c : YCrop) (t pct hiref : F) : F * F :=
    if is12 c then
      let h := hi_logistic c t in
      (#100, if 9799#/10000 * y_HI0 c <=? h then y_HI0 c else h)
    else if (y_CropType c =? 3)%Z then
      if t <? y_tLinSwitch c then (#100 * (t / y_tLinSwitch c), hi_logistic c t)
      else (#100, hi_logistic c (y_tLinSwitch c) + (y_dHILinear c * (t - y_tLinSwitch c)))
    else (pct, hiref).

  (* the HIfinal the function computes locally (and does NOT return: the caller never sees it) *)
  Definition hi_final_local (c : YCrop) (hifinal t cc ccxw h : F) : F :=
    if (hifinal =? y_HI0 c) && (t <=? y_YldFormCD c) && (cc <=? 5#/100) && (#0 <? ccxw) && (cc <? ccxw) && is23 c
    then h else hifinal.

  (* returns (HIref, YieldForm, PctLagPhase) *)
  Definition HIref_current_day (c : YCrop) (hiref hifinal : F) (dap dcds : Z) (yf : bool) (pct cc ccxw : F) (gs : bool)
    : F * bool * F :=
    if gs then
      let yf' := y_HIstartCD c <? #(dap - dcds) in
      let t := hit c dap dcds in
      if t <=? #0 then (#0, yf', #0)
      else
        let '(pct', h) := hi_curve c t pct hiref in
        let h := hi_limit c h in
        let hf := hi_final_local c hifinal t cc ccxw h in
        let h := if hf <? h then hf else h in
        (h, yf', pct')
    else (#0, yf, pct).

  (* ---- HIadj_pre_anthesis.py ----------------------------------------------------------- *)
  Definition HIadj_pre_anthesis (B Bns cc dHI_pre : F) : F :=
    let fpre :=
      if #0 <? dHI_pre then
        let Br := B / Bns in
        let Br_range := nln num_ops dHI_pre / 562#/100 in
        let Br_upp := #1 in
        let Br_low := #1 - Br_range in
        let Br_top := Br_upp - (Br_range / #3) in
        let ratio_low := (Br - Br_low) / (Br_top - Br_low) in
        let ratio_upp := (Br - Br_top) / (Br_upp - Br_top) in
        if (Br_low <=? Br) && (Br <? Br_top) then
          #1 + (((#1 + tsin ((15#/10 - ratio_low) * tpi)) / #2) * (dHI_pre / #100))
        else if (Br_top <? Br) && (Br <=? Br_upp) then
          #1 + (((#1 + tsin ((5#/10 + ratio_upp) * tpi)) / #2) * (dHI_pre / #100))
        else #1
      else #1 in
    if cc <=? 1#/100 then #0 else fpre.

  (* ---- HIadj_pollination.py ------------------------------------------------------------ *)
  (* fractional flowering curve at time t (F1 for t = HIt-1, F2 for t = HIt) *)
  Definition flow_frac (t flo : F) : option F :=
    if t =? #0 then Some #0
    else if flo =? #0 then None
    else
      let p := #100 * (t / flo) in
      let p := if #100 <? p then #100 else p in
      let f := 558#/100000 * nexp num_ops (63#/100 * nln num_ops p) - (969#/1000000 * p) - 383#/100000 in
      Some (if f <? #0 then #0 else f).

  Definition frac_flow (t flo : F) : option (option F) :=   (* outer None: raises; inner None: FracFlow unbound *)
    if t =? #0 then Some (Some #0)
    else if #0 <? t then
      match flow_frac (t - #1) flo, flow_frac t flo with
      | Some F1, Some F2 =>
        Some (Some (if nabs (F1 - F2) <? 1#/10000000 then #0 else #100 * ((F1 + F2) / #2) / flo))
      | _, _ => None
      end
    else Some None.

  Definition HIadj_pollination (cc fpol flo ccmin exc ksw_pol kst_polc kst_polh t : F) : option F :=
    match frac_flow t flo with
    | None => None
    | Some ff =>
      let dF :=
        if cc <? ccmin then Some #0
        else match ff with
             | None => None      (* UnboundLocalError: FracFlow *)
             | Some ff => let ks := pmin (pmin ksw_pol kst_polc) kst_polh in
                          Some (ks * ff * (#1 + (exc / #100)))
             end in
      match dF with
      | None => None
      | Some d => let f := fpol + d in Some (if #1 <? f then #1 else f)
      end
    end.

  (* ---- HIadj_post_anthesis.py ---------------------------------------------------------- *)
  Record Post := { p_scor1 : F; p_scor2 : F; p_upp : F; p_dwn : F; p_fpost : F }.

  Definition HIadj_post_anthesis (dcds : Z) (scor1 scor2 : F) (dap : Z) (fpre cc upp dwn : F) (c : YCrop)
             (ksw_exp ksw_sto : F) : option Post :=
    let tmax1 := y_CanopyDevEndCD c - y_HIstartCD c in
    let d := #(dap - dcds) in
    let daycor := d - #1 - y_HIstartCD c in
    let r1 :=
      if (d <=? y_CanopyDevEndCD c + #1) && (#0 <? tmax1) && (99#/100 <? fpre) && (1#/1000 <? cc) && (#0 <? y_a_HI c) then
        let dcor := #1 + (#1 - ksw_exp) / y_a_HI c in
        let s1 := scor1 + (dcor / tmax1) in
        if daycor =? #0 then None else Some (s1, (tmax1 / daycor) * s1)
      else Some (scor1, upp) in
    let tmax2 := y_YldFormCD c in
    let r2 :=
      if (d <=? y_HIendCD c + #1) && (#0 <? tmax2) && (99#/100 <? fpre) && (1#/1000 <? cc) && (#0 <? y_b_HI c) then
        let dcor := npow num_ops ksw_sto (1#/10) * (#1 - (#1 - ksw_sto) / y_b_HI c) in
        let s2 := scor2 + (dcor / tmax2) in
        if daycor =? #0 then None else Some (s2, (tmax2 / daycor) * s2)
      else Some (scor2, dwn) in
    match r1, r2 with
    | Some (s1, upp), Some (s2, dwn) =>
      let fpost :=
        if (tmax1 =? #0) && (tmax2 =? #0) then #1
        else if tmax2 =? #0 then upp
        else if tmax1 =? #0 then dwn
        else if tmax1 <=? tmax2 then dwn * (((tmax1 * upp) + (tmax2 - tmax1)) / tmax2)
        else upp * (((tmax2 * dwn) + (tmax1 - tmax2)) / tmax1) in
      Some {| p_scor1 := s1; p_scor2 := s2; p_upp := upp; p_dwn := dwn; p_fpost := fpost |}
    | _, _ => None
    end.

  (* ---- harvest_index.py ---------------------------------------------------------------- *)
  (* state fields written by harvest_index *)
  Record HState := {
    h_hi : F; h_hiadj : F; h_preadj : bool; h_fpre : F; h_fpol : F;
    h_scor1 : F; h_scor2 : F; h_upp : F; h_dwn : F; h_fpost : F }.

  (* HImult: product of the pre- and post-anthesis factors with the explicit cap *)
  Definition hi_mult (c : YCrop) (fpre fpost : F) : F :=
    let m := fpre * fpost in
    if #1 + (y_dHI0 c / #100) <? m then #1 + (y_dHI0 c / #100) else m.

  (* everything after the stress coefficients, inside the growing season *)
  Definition hi_core (c : YCrop) (s : HState) (hiref : F) (dap dcds : Z) (yf : bool) (B Bns cc : F)
             (ksw_exp ksw_sto ksw_pol polH polC : F) : option HState :=
    let t := hit c dap dcds in
    if yf && (#0 <=? t) then
      if is23 c then
        let '(preadj, fpre) :=
          if negb (h_preadj s) then (true, HIadj_pre_anthesis B Bns cc (y_dHI_pre c)) else (h_preadj s, h_fpre s) in
        let fpol :=
          if (y_CropType c =? 3)%Z && ((#0 <? t) && (t <=? y_FloweringCD c))
          then HIadj_pollination cc (h_fpol s) (y_FloweringCD c) (y_CCmin c) (y_exc c) ksw_pol polC polH t
          else Some (h_fpol s) in
        let post :=
          if #0 <? t then HIadj_post_anthesis dcds (h_scor1 s) (h_scor2 s) dap fpre cc (h_upp s) (h_dwn s) c ksw_exp ksw_sto
          else Some {| p_scor1 := h_scor1 s; p_scor2 := h_scor2 s; p_upp := h_upp s; p_dwn := h_dwn s; p_fpost := h_fpost s |} in
        match fpol, post with
        | Some fpol, Some po =>
          let himax := if (y_CropType c =? 3)%Z then fpol * y_HI0 c else y_HI0 c in
          let m := hi_mult c fpre (p_fpost po) in
          let hiadj := if hiref <=? himax then m * hiref else m * himax in
          Some {| h_hi := hiref; h_hiadj := hiadj; h_preadj := preadj; h_fpre := fpre; h_fpol := fpol;
                  h_scor1 := p_scor1 po; h_scor2 := p_scor2 po; h_upp := p_upp po; h_dwn := p_dwn po; h_fpost := p_fpost po |}
        | _, _ => None
        end
      else if (y_CropType c =? 1)%Z then
        Some {| h_hi := hiref; h_hiadj := hiref; h_preadj := h_preadj s; h_fpre := h_fpre s; h_fpol := h_fpol s;
                h_scor1 := h_scor1 s; h_scor2 := h_scor2 s; h_upp := h_upp s; h_dwn := h_dwn s; h_fpost := h_fpost s |}
      else None                                   (* harvest_index_adj unbound *)
    else Some s.                                  (* HIi = InitCond_HI, harvest_index_adj = InitCond_HIadj *)

  (* crop fields read only through root_zone_water / water_stress / temperature_stress *)
  Record SCrop := {
    s_Zmin : F; s_Aer : F;
    s_pu0 : F; s_pu1 : F; s_pu2 : F; s_pu3 : F; s_pl0 : F; s_pl1 : F; s_pl2 : F; s_pl3 : F;
    s_ETadj : Z; s_beta : F; s_fs0 : F; s_fs1 : F; s_fs2 : F;
    s_PolHeat : Z; s_PolCold : Z; s_Tmax_lo : F; s_Tmax_up : F; s_Tmin_lo : F; s_Tmin_up : F; s_fshape_b : F }.

  Definition harvest_index (p : list (Comp F)) (ztop : F) (c : YCrop) (sc : SCrop) (s : HState)
             (zroot : F) (th : list F) (t_early_sen hiref : F) (dap dcds : Z) (yf : bool) (B Bns cc : F)
             (et0 tmax tmin : F) (gs : bool) : option HState :=
    if gs then
      match root_zone_water p zroot th ztop (s_Zmin sc) (s_Aer sc) with
      | None => None
      | Some rz =>
        let '(dr, taw) :=
          if rz_Dr_Rz rz / rz_TAW_Rz rz <=? rz_Dr_Zt rz / rz_TAW_Zt rz
          then (rz_Dr_Rz rz, rz_TAW_Rz rz) else (rz_Dr_Zt rz, rz_TAW_Zt rz) in
        let k := water_stress (s_pu0 sc) (s_pu1 sc) (s_pu2 sc) (s_pu3 sc) (s_pl0 sc) (s_pl1 sc) (s_pl2 sc) (s_pl3 sc)
                              (s_ETadj sc) (s_beta sc) (s_fs0 sc) (s_fs1 sc) (s_fs2 sc) (#0 <? t_early_sen) dr taw et0 in
        match kst_heat (s_PolHeat sc) (s_Tmax_lo sc) (s_Tmax_up sc) (s_fshape_b sc) tmax,
              kst_cold (s_PolCold sc) (s_Tmin_lo sc) (s_Tmin_up sc) (s_fshape_b sc) tmin with
        | Some polH, Some polC =>
          hi_core c s hiref dap dcds yf B Bns cc (Ksw_Exp k) (Ksw_Sto k) (Ksw_Pol k) polH polC
        | _, _ => None
        end
      end
    else
      Some {| h_hi := #0; h_hiadj := #0; h_preadj := h_preadj s; h_fpre := h_fpre s; h_fpol := h_fpol s;
              h_scor1 := h_scor1 s; h_scor2 := h_scor2 s; h_upp := h_upp s; h_dwn := h_dwn s; h_fpost := h_fpost s |}.

  (* ---- run_single_timestep.py, steps 18-19 --------------------------------------------- *)
  (* returns (DryYield, FreshYield, YieldPot); [hi] = harvest_index, [hiadj] = harvest_index_adj *)
  Definition yields (B Bns hi hiadj YldWC : F) (gs : bool) : F * F * F :=
    let pot := (Bns / #100) * hi in
    if gs then
      let dry := (B / #100) * hiadj in
      (dry, dry / (YldWC / #100), pot)
    else (#0, #0, pot).

  (* the crop_mature flag set in the same block *)
  Definition crop_mature (caltype dap : Z) (gdd_cum maturity : F) (mature gs : bool) : bool :=
    if gs then
      if ((caltype =? 1)%Z && (maturity <=? #dap)) || ((caltype =? 2)%Z && (maturity <=? gdd_cum)) then true else mature
    else mature.
End M.
