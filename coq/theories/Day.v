(* Day.v — the ORCHESTRATION of one simulated day and of the season reset, with ABSTRACT processes.

   Sources: aquacrop/timestep/run_single_timestep.py (solution_single_time_step: which state field / parameter /
   weather value goes into which process, which result is stored into which state field, what is written into the
   three daily rows and the seasonal summary row) and aquacrop/timestep/reset_initial_conditions.py.

   The 19 functions called by the orchestration (17 processes + growing_degree_day + root_zone_water) are the fields of
   the record [Procs]: functions from an argument record [A_x] to a result record [R_x].  The argument record lists
   exactly the values the Python passes at the call site; where the Python passes the whole state object the record
   lists the fields the callee reads (analysis of the callee, same as the argument lists of the process models in
   Water/*.v, Crop/*.v) and the result record the fields it writes.  The soil profile (one run-constant object) is
   passed as a separate first argument wherever the Python passes `Soil.Profile`.

   [day_core] computes the new state, the three rows AND the trace of the argument records it handed to the
   processes.  Structure: [arg_x] builds the argument record of process x from the context (parameters, clock, weather,
   state before the step) and the results of earlier processes; [results] makes the 19 calls in source order;
   [state_of] / [row_of] / [trace_of] say where the results go (the SAME [arg_x] terms are used for the calls and for
   the trace).  The replay
   correspondence (harness/suites/day.py) runs it with recorded results and compares state, rows, summary and
   trace with the real run bit for bit.  [day_proc] has exactly the type of Clock.v's [proc].

   The clock fields dap, crop_mature, harvest_flag are NOT in [DState]: Clock.v's [St] carries them ([day_proc]
   receives the already incremented dap).  Definitions only; numbers generic in F. *)
From AC Require Import Num Params Clock.

Section M.
  Context {F : Type} {N : NumOps F}.
  Local Open Scope num_scope.

  (* ---- parameters (inputs; none of them occurs in a result type) -------------------------------------------- *)
  (* the crop scalars read by the orchestration itself; [c_id] stands for the rest of the crop object, which is
     handed to the processes as a whole (season index, -1 = the fallow filler crop) *)
  Record DCrop := {
    c_id : Z; c_GDDmethod : Z; c_Tupp : F; c_Tbase : F; c_GermThr : F; c_PlantMethod : F; c_CalendarType : Z;
    c_Senescence : F; c_YldWC : F; c_Maturity : F; c_Zmin : F; c_Aer : F; c_CC0 : F; c_HI0 : F }.
  (* irrigation management ([i_id]: 0 = IrrMngt, 1 = FallowIrrMngt) *)
  Record DIrr := {
    i_id : Z; i_method : Z; i_SMT : list F; i_AppEff : F; i_MaxIrr : F; i_IrrInterval : Z; i_Schedule : list F;
    i_depth : F; i_MaxIrrSeason : F; i_NetIrrSMT : F; i_WetSurf : F }.
  (* field management ([f_id]: 0 = FieldMngt, 1 = FallowFieldMngt) *)
  Record DField := {
    f_id : Z; f_sr_inhb : bool; f_bunds : bool; f_z_bund : F; f_cn_adj : bool; f_cn_adj_pct : F;
    f_mulches : bool; f_f_mulch : F; f_mulch_pct : F; f_bund_water : F }.
  Record DSoil := {
    so_cn : F; so_adj_cn : Z; so_z_cn : F; so_nComp : Z; so_z_top : F; so_nLayer : Z; so_fshape_cr : F;
    so_z_germ : F; so_evap_z_min : F; so_evap_z_max : F; so_rew : F; so_kex : F; so_fwcc : F;
    so_f_wrel_exp : F; so_f_evap : F; so_prof : list (Comp F) }.
  (* [p_crop k], [p_co2c k]: the crop object / CO2 concentration in force during season k (reset_initial_conditions
     recomputes crop.fCO2, the thermal calendar of GDD crops and CO2.current_concentration at the start of season k;
     that recomputation is outside this model) *)
  Record DPar := {
    p_soil : DSoil; p_irr : DIrr; p_fallow_irr : DIrr; p_field : DField; p_fallow_field : DField;
    p_crop : Z -> DCrop; p_fallow_crop : DCrop; p_water_table : Z; p_co2c : Z -> F; p_co2r : F;
    p_evap_steps : Z; p_sim_off : bool }.
  (* one day of weather; [w_gw] = param_struct.z_gw[step] (0 when there is no water table) *)
  Record W := { w_rain : F; w_tmax : F; w_tmin : F; w_et0 : F; w_gw : F }.

  (* ---- argument / result records of the processes, and the state ------------------------------------------- *)
  (* growing_degree_day *)
  Record A_gd := {
    gdA_method : Z; gdA_tupp : F; gdA_tbase : F; gdA_tmax : F; gdA_tmin : F }.
  Record R_gd := {
    gdR_gdd : F }.
  (* check_groundwater_table *)
  Record A_gw := {
    gwA_zgw : option F; gwA_th : list F; gwA_fcadj : list F; gwA_wt : Z; gwA_gw : F }.
  Record R_gw := {
    gwR_fcadj : list F; gwR_wtsoil : option bool; gwR_zgw : option F }.
  (* root_development *)
  Record A_rd := {
    rdA_crop : DCrop; rdA_dap : Z; rdA_zroot : F; rdA_dcd : Z; rdA_gddcum : F; rdA_dgdd : F; rdA_trratio : F; rdA_th : list F; rdA_cc : F; rdA_ccns : F; rdA_germ : bool; rdA_rcor : F; rdA_tpot : F; rdA_zgw : option F; rdA_gdd : F; rdA_gs : bool; rdA_wt : Z }.
  Record R_rd := {
    rdR_zroot : F; rdR_rcor : F }.
  (* pre_irrigation *)
  Record A_pi := {
    piA_crop : DCrop; piA_dap : Z; piA_zroot : F; piA_th : list F; piA_gs : bool; piA_irr : DIrr }.
  Record R_pi := {
    piR_th : list F; piR_preirr : F }.
  (* drainage *)
  Record A_dr := {
    drA_th : list F; drA_fcadj : list F }.
  Record R_dr := {
    drR_th : list F; drR_deepperc : F; drR_flux : list F }.
  (* rainfall_partition *)
  Record A_rp := {
    rpA_rain : F; rpA_th : list F; rpA_daysub : F; rpA_srinhb : bool; rpA_bunds : bool; rpA_zbund : F; rpA_pct : F; rpA_cn : F; rpA_adjcn : Z; rpA_zcn : F; rpA_ncomp : Z }.
  Record R_rp := {
    rpR_runoff : F; rpR_infl : F; rpR_daysub : F }.
  (* irrigation *)
  Record A_ir := {
    irA_method : Z; irA_smt : list F; irA_eff : F; irA_maxirr : F; irA_interval : Z; irA_sched : list F; irA_depth : F; irA_maxseason : F; irA_stage : Z; irA_irrcum : F; irA_epot : F; irA_tpot : F; irA_zroot : F; irA_th : list F; irA_dap : Z; irA_tsc : Z; irA_crop : DCrop; irA_ztop : F; irA_gs : bool; irA_rain : F; irA_runoff : F }.
  Record R_ir := {
    irR_depletion : F; irR_taw : F; irR_irrcum : F; irR_irr : F }.
  (* infiltration *)
  Record A_inf := {
    infA_surf : F; infA_fcadj : list F; infA_th : list F; infA_infl : F; infA_irr : F; infA_eff : F; infA_bunds : bool; infA_zbund : F; infA_flux : list F; infA_deepperc : F; infA_runoff : F; infA_gs : bool }.
  Record R_inf := {
    infR_th : list F; infR_surf : F; infR_deepperc : F; infR_runoff : F; infR_infl : F; infR_flux : list F }.
  (* capillary_rise *)
  Record A_cr := {
    crA_nlayer : Z; crA_fshape : F; crA_th : list F; crA_fcadj : list F; crA_zgw : option F; crA_flux : list F; crA_wt : Z }.
  Record R_cr := {
    crR_th : list F; crR_cr : F }.
  (* germination *)
  Record A_ge := {
    geA_germ : bool; geA_prot : bool; geA_dcd : Z; geA_dgdd : F; geA_th : list F; geA_zgerm : F; geA_germthr : F; geA_plantmethod : F; geA_gdd : F; geA_gs : bool }.
  Record R_ge := {
    geR_germ : bool; geR_prot : bool; geR_dcd : Z; geR_dgdd : F }.
  (* growth_stage *)
  Record A_gst := {
    gstA_crop : DCrop; gstA_dap : Z; gstA_dcd : Z; gstA_gddcum : F; gstA_dgdd : F; gstA_old : Z; gstA_gs : bool }.
  Record R_gst := {
    gstR_stage : Z }.
  (* canopy_cover *)
  Record A_cc := {
    ccA_crop : DCrop; ccA_ztop : F; ccA_dap : Z; ccA_dcd : Z; ccA_gddcum : F; ccA_dgdd : F; ccA_th : list F; ccA_zroot : F; ccA_cc : F; ccA_cc_prev : F; ccA_cc_ns : F; ccA_cc_adj : F; ccA_cc_adj_ns : F; ccA_ccx_act : F; ccA_ccx_act_ns : F; ccA_ccx_w : F; ccA_ccx_w_ns : F; ccA_cc0_adj : F; ccA_ccx_early_sen : F; ccA_t_early_sen : F; ccA_prot : bool; ccA_premat : bool; ccA_dead : bool; ccA_gdd : F; ccA_et0 : F; ccA_gs : bool }.
  Record R_cc := {
    ccR_cc : F; ccR_cc_prev : F; ccR_cc_ns : F; ccR_cc_adj : F; ccR_cc_adj_ns : F; ccR_ccx_act : F; ccR_ccx_act_ns : F; ccR_ccx_w : F; ccR_ccx_w_ns : F; ccR_cc0_adj : F; ccR_ccx_early_sen : F; ccR_t_early_sen : F; ccR_prot : bool; ccR_premat : bool; ccR_dead : bool }.
  (* soil_evaporation *)
  Record A_ev := {
    evA_steps : Z; evA_simoff : bool; evA_tsc : Z; evA_zmin : F; evA_zmax : F; evA_rew : F; evA_kex : F; evA_fwcc : F; evA_fwrelexp : F; evA_fevap : F; evA_caltype : Z; evA_senescence : F; evA_method : Z; evA_wetsurf : F; evA_mulches : bool; evA_fmulch : F; evA_mulchpct : F; evA_dap : Z; evA_wsurf : F; evA_evapz : F; evA_stage2 : bool; evA_th : list F; evA_dcd : Z; evA_gddcum : F; evA_dgdd : F; evA_ccxw : F; evA_ccadj : F; evA_ccxact : F; evA_cc : F; evA_premat : bool; evA_surf : F; evA_wstage2 : F; evA_epot : F; evA_et0 : F; evA_infl : F; evA_rain : F; evA_irr : F; evA_gs : bool }.
  Record R_ev := {
    evR_epot : F; evR_th : list F; evR_stage2 : bool; evR_wstage2 : F; evR_wsurf : F; evR_surf : F; evR_evapz : F; evR_es : F; evR_espot : F }.
  (* transpiration *)
  Record A_tr := {
    trA_ncomp : Z; trA_ztop : F; trA_crop : DCrop; trA_method : Z; trA_smt : F; trA_dap : Z; trA_dcd : Z; trA_age_days_ns : F; trA_age_days : F; trA_ccx_w_ns : F; trA_ccx_w : F; trA_cc_adj_ns : F; trA_cc_adj : F; trA_cc_ns : F; trA_cc : F; trA_cc_prev : F; trA_surf : F; trA_day_sub : F; trA_aer_comp : list F; trA_zroot : F; trA_th : list F; trA_t_early_sen : F; trA_aer_days : F; trA_rcor : F; trA_irr_net_cum : F; trA_depletion : F; trA_taw : F; trA_tr_ratio : F; trA_et0 : F; trA_co2c : F; trA_co2r : F; trA_gs : bool; trA_gdd : F }.
  Record R_tr := {
    trR_tr : F; trR_trpot_ns : F; trR_trpot : F; trR_irrnet : F; trR_age_days_ns : F; trR_age_days : F; trR_cc : F; trR_surf : F; trR_day_sub : F; trR_aer_comp : list F; trR_th : list F; trR_aer_days : F; trR_irr_net_cum : F; trR_depletion : F; trR_taw : F; trR_tr_ratio : F; trR_t_pot : F }.
  (* groundwater_inflow *)
  Record A_gi := {
    giA_th : list F; giA_wtsoil : option bool; giA_zgw : option F }.
  Record R_gi := {
    giR_th : list F; giR_gwin : F }.
  (* HIref_current_day *)
  Record A_hr := {
    hrA_hiref : F; hrA_hifinal : F; hrA_dap : Z; hrA_dcd : Z; hrA_yf : bool; hrA_pct : F; hrA_cc : F; hrA_ccprev : F; hrA_ccxw : F; hrA_crop : DCrop; hrA_gs : bool }.
  Record R_hr := {
    hrR_hiref : F; hrR_yf : bool; hrR_pct : F }.
  (* biomass_accumulation *)
  Record A_bm := {
    bmA_crop : DCrop; bmA_dap : Z; bmA_dcd : Z; bmA_hiref : F; bmA_pct : F; bmA_b : F; bmA_bns : F; bmA_tr : F; bmA_trpot : F; bmA_et0 : F; bmA_gs : bool }.
  Record R_bm := {
    bmR_b : F; bmR_bns : F }.
  (* harvest_index *)
  Record A_hi := {
    hiA_ztop : F; hiA_crop : DCrop; hiA_hi : F; hiA_hiadj : F; hiA_preadj : bool; hiA_fpre : F; hiA_fpol : F; hiA_scor1 : F; hiA_scor2 : F; hiA_upp : F; hiA_dwn : F; hiA_fpost : F; hiA_zroot : F; hiA_th : list F; hiA_t_early_sen : F; hiA_hiref : F; hiA_dap : Z; hiA_dcd : Z; hiA_yf : bool; hiA_b : F; hiA_bns : F; hiA_cc : F; hiA_et0 : F; hiA_tmax : F; hiA_tmin : F; hiA_gs : bool }.
  Record R_hi := {
    hiR_hi : F; hiR_hiadj : F; hiR_preadj : bool; hiR_fpre : F; hiR_fpol : F; hiR_scor1 : F; hiR_scor2 : F; hiR_upp : F; hiR_dwn : F; hiR_fpost : F }.
  (* root_zone_water *)
  Record A_rz := {
    rzA_zroot : F; rzA_th : list F; rzA_ztop : F; rzA_zmin : F; rzA_aer : F }.
  Record R_rz := {
    rzR_wr : F; rzR_drzt : F; rzR_drrz : F; rzR_tawzt : F; rzR_tawrz : F }.
  Record DState := {
    d_age_days : F;
    d_age_days_ns : F;
    d_aer_days : F;
    d_aer_days_comp : list F;
    d_irr_cum : F;
    d_delayed_gdds : F;
    d_delayed_cds : Z;
    d_pct_lag_phase : F;
    d_t_early_sen : F;
    d_gdd_cum : F;
    d_day_submerged : F;
    d_irr_net_cum : F;
    d_e_pot : F;
    d_t_pot : F;
    d_pre_adj : bool;
    d_crop_dead : bool;
    d_germination : bool;
    d_premat_senes : bool;
    d_growing_season : bool;
    d_yield_form : bool;
    d_stage2 : bool;
    d_wt_in_soil : option bool;
    d_stage : F;
    d_f_pre : F;
    d_f_post : F;
    d_fpost_dwn : F;
    d_fpost_upp : F;
    d_h1_cor_asum : F;
    d_h1_cor_bsum : F;
    d_f_pol : F;
    d_s_cor1 : F;
    d_s_cor2 : F;
    d_hi_ref : F;
    d_HIfinal : F;
    d_growth_stage : Z;
    d_tr_ratio : F;
    d_r_cor : F;
    d_canopy_cover : F;
    d_canopy_cover_adj : F;
    d_canopy_cover_ns : F;
    d_canopy_cover_adj_ns : F;
    d_biomass : F;
    d_biomass_ns : F;
    d_YieldPot : F;
    d_harvest_index : F;
    d_harvest_index_adj : F;
    d_ccx_act : F;
    d_ccx_act_ns : F;
    d_ccx_w : F;
    d_ccx_w_ns : F;
    d_ccx_early_sen : F;
    d_cc_prev : F;
    d_protected_seed : bool;
    d_DryYield : F;
    d_FreshYield : F;
    d_z_root : F;
    d_cc0_adj : F;
    d_surface_storage : F;
    d_z_gw : option F;
    d_th_fc_Adj : list F;
    d_th : list F;
    d_thini : list F;
    d_time_step_counter : Z;
    d_precipitation : F;
    d_temp_max : F;
    d_temp_min : F;
    d_et0 : F;
    d_sumET0EarlySen : F;
    d_gdd : F;
    d_w_surf : F;
    d_evap_z : F;
    d_w_stage_2 : F;
    d_depletion : F;
    d_taw : F }.

  Record Procs := {
    p_gd : A_gd -> R_gd;
    p_gw : list (Comp F) -> A_gw -> R_gw;
    p_rd : list (Comp F) -> A_rd -> R_rd;
    p_pi : list (Comp F) -> A_pi -> R_pi;
    p_dr : list (Comp F) -> A_dr -> R_dr;
    p_rp : list (Comp F) -> A_rp -> R_rp;
    p_ir : list (Comp F) -> A_ir -> R_ir;
    p_inf : list (Comp F) -> A_inf -> R_inf;
    p_cr : list (Comp F) -> A_cr -> R_cr;
    p_ge : list (Comp F) -> A_ge -> R_ge;
    p_gst : A_gst -> R_gst;
    p_cc : list (Comp F) -> A_cc -> R_cc;
    p_ev : list (Comp F) -> A_ev -> R_ev;
    p_tr : list (Comp F) -> A_tr -> R_tr;
    p_gi : list (Comp F) -> A_gi -> R_gi;
    p_hr : A_hr -> R_hr;
    p_bm : A_bm -> R_bm;
    p_hi : list (Comp F) -> A_hi -> R_hi;
    p_rz : list (Comp F) -> A_rz -> R_rz }.

  (* the arguments handed to the processes on one day (growing_degree_day is called in the season only) *)
  Record Trace := {
    t_gd : option A_gd; t_gw : A_gw; t_rd : A_rd; t_pi : A_pi; t_dr : A_dr; t_rp : A_rp; t_ir : A_ir; t_inf : A_inf;
    t_cr : A_cr; t_ge : A_ge; t_gst : A_gst; t_cc : A_cc; t_ev : A_ev; t_tr : A_tr; t_gi : A_gi; t_hr : A_hr;
    t_bm : A_bm; t_hi : A_hi; t_rz : A_rz }.

  (* ---- the three daily rows ---------------------------------------------------------------------------------- *)
  (* outputs.water_flux[step, :]; the groundwater column holds NaN (here None) when there is no water table *)
  Record FluxRow := {
    fl_tsc : Z; fl_season : Z; fl_dap : Z; fl_Wr : F; fl_zgw : option F; fl_surf : F; fl_IrrDay : F; fl_Infl : F;
    fl_Runoff : F; fl_DeepPerc : F; fl_CR : F; fl_GwIn : F; fl_Es : F; fl_EsPot : F; fl_Tr : F; fl_TrPot : F }.
  (* outputs.crop_growth[step, :] *)
  Record GrowthRow := {
    gr_tsc : Z; gr_season : Z; gr_dap : Z; gr_gdd : F; gr_gdd_cum : F; gr_z_root : F; gr_cc : F; gr_cc_ns : F;
    gr_B : F; gr_B_ns : F; gr_HI : F; gr_HIadj : F; gr_Dry : F; gr_Fresh : F; gr_Pot : F }.
  (* outputs.water_storage[step, :] *)
  Record StoRow := { st_tsc : Z; st_gs : bool; st_dap : Z; st_th : list F }.
  Record DRow := { r_flux : FluxRow; r_growth : GrowthRow; r_sto : StoRow }.
  (* the crop-dependent part of a summary row *)
  Record DOut := { o_Dry : F; o_Fresh : F; o_Pot : F; o_IrrTot : F }.

  Record DayOut := { o_state : DState; o_row : DRow; o_trace : Trace }.

  (* ---- selection of the parameter objects (l.93-129) --------------------------------------------------------- *)
  (* before the first season the filler crop is used, with `Crop_.Aer = 5; Crop_.Zmin = 0.3` stored into it *)
  Definition fallow_crop (c : DCrop) : DCrop :=
    {| c_id := c_id c; c_GDDmethod := c_GDDmethod c; c_Tupp := c_Tupp c; c_Tbase := c_Tbase c; c_GermThr := c_GermThr c;
       c_PlantMethod := c_PlantMethod c; c_CalendarType := c_CalendarType c; c_Senescence := c_Senescence c;
       c_YldWC := c_YldWC c; c_Maturity := c_Maturity c; c_Zmin := 3#/10; c_Aer := #5; c_CC0 := c_CC0 c; c_HI0 := c_HI0 c |}.
  Definition sel_crop (par : DPar) (season : Z) : DCrop :=
    if (0 <=? season)%Z then p_crop par season else fallow_crop (p_fallow_crop par).
  Definition sel_irr (par : DPar) (season : Z) : DIrr :=
    if (0 <=? season)%Z then p_irr par else p_fallow_irr par.
  Definition sel_field (par : DPar) (season : Z) (gs : bool) : DField :=
    if (0 <=? season)%Z then (if gs then p_field par else p_fallow_field par) else p_fallow_field par.

  (* ---- solution_single_time_step ------------------------------------------------------------------------------ *)
  (* everything the step receives: parameters, clock values (season index, in-season?, days after planting already
     incremented, step), the day's weather, the state before the step *)
  Record Ctx := { x_par : DPar; x_season : Z; x_gs : bool; x_dap : Z; x_tsc : Z; x_w : W; x_s : DState }.
  Definition x_soil (x : Ctx) : DSoil := p_soil (x_par x).
  Definition x_prof (x : Ctx) : list (Comp F) := so_prof (x_soil x).
  Definition x_crop (x : Ctx) : DCrop := sel_crop (x_par x) (x_season x).
  Definition x_irr (x : Ctx) : DIrr := sel_irr (x_par x) (x_season x).
  Definition x_field (x : Ctx) : DField := sel_field (x_par x) (x_season x) (x_gs x).
  Definition x_wt (x : Ctx) : Z := p_water_table (x_par x).

  (* what the processes returned; [rs_gdd] is the local `gdd` (growing_degree_day's result in the season, 0.3 outside) *)
  Record Results := {
    rs_gdd : F; rs_gw : R_gw; rs_rd : R_rd; rs_pi : R_pi; rs_dr : R_dr; rs_rp : R_rp; rs_ir : R_ir; rs_inf : R_inf;
    rs_cr : R_cr; rs_ge : R_ge; rs_gst : R_gst; rs_cc : R_cc; rs_ev : R_ev; rs_tr : R_tr; rs_gi : R_gi; rs_hr : R_hr;
    rs_bm : R_bm; rs_hi : R_hi; rs_rz : R_rz }.

  (* time counters (l.131-152) *)
  Definition arg_gd (x : Ctx) : A_gd :=
    {| gdA_method := c_GDDmethod (x_crop x); gdA_tupp := c_Tupp (x_crop x); gdA_tbase := c_Tbase (x_crop x);
       gdA_tmax := w_tmax (x_w x); gdA_tmin := w_tmin (x_w x) |}.
  Definition gdd_cum_of (x : Ctx) (gdd : F) : F := if x_gs x then d_gdd_cum (x_s x) + gdd else #0.
  (* 1. groundwater table *)
  Definition arg_gw (x : Ctx) : A_gw :=
    let s := x_s x in
    {| gwA_zgw := d_z_gw s; gwA_th := d_th s; gwA_fcadj := d_th_fc_Adj s; gwA_wt := x_wt x; gwA_gw := w_gw (x_w x) |}.
  (* 2. root development *)
  Definition arg_rd (x : Ctx) (gdd : F) (r_gw : R_gw) : A_rd :=
    let s := x_s x in
    {| rdA_crop := x_crop x; rdA_dap := x_dap x; rdA_zroot := d_z_root s; rdA_dcd := d_delayed_cds s; rdA_gddcum := gdd_cum_of x gdd;
       rdA_dgdd := d_delayed_gdds s; rdA_trratio := d_tr_ratio s; rdA_th := d_th s; rdA_cc := d_canopy_cover s;
       rdA_ccns := d_canopy_cover_ns s; rdA_germ := d_germination s; rdA_rcor := d_r_cor s; rdA_tpot := d_t_pot s;
       rdA_zgw := gwR_zgw r_gw; rdA_gdd := gdd; rdA_gs := x_gs x; rdA_wt := x_wt x |}.
  (* 3. pre-irrigation *)
  Definition arg_pi (x : Ctx) (r_rd : R_rd) : A_pi :=
    {| piA_crop := x_crop x; piA_dap := x_dap x; piA_zroot := rdR_zroot r_rd; piA_th := d_th (x_s x); piA_gs := x_gs x;
       piA_irr := x_irr x |}.
  (* 4. drainage *)
  Definition arg_dr (x : Ctx) (r_gw : R_gw) (r_pi : R_pi) : A_dr := {| drA_th := piR_th r_pi; drA_fcadj := gwR_fcadj r_gw |}.
  (* 5. surface runoff; the curve-number percentage applies only when the adjustment is switched on *)
  Definition arg_rp (x : Ctx) (r_dr : R_dr) : A_rp :=
    let field := x_field x in let soil := x_soil x in
    {| rpA_rain := w_rain (x_w x); rpA_th := drR_th r_dr; rpA_daysub := d_day_submerged (x_s x); rpA_srinhb := f_sr_inhb field;
       rpA_bunds := f_bunds field; rpA_zbund := f_z_bund field;
       rpA_pct := if f_cn_adj field then f_cn_adj_pct field else #0;
       rpA_cn := so_cn soil; rpA_adjcn := so_adj_cn soil; rpA_zcn := so_z_cn soil; rpA_ncomp := so_nComp soil |}.
  (* 6. irrigation *)
  Definition arg_ir (x : Ctx) (r_rd : R_rd) (r_dr : R_dr) (r_rp : R_rp) : A_ir :=
    let s := x_s x in let irr := x_irr x in
    {| irA_method := i_method irr; irA_smt := i_SMT irr; irA_eff := i_AppEff irr; irA_maxirr := i_MaxIrr irr;
       irA_interval := i_IrrInterval irr; irA_sched := i_Schedule irr; irA_depth := i_depth irr;
       irA_maxseason := i_MaxIrrSeason irr; irA_stage := d_growth_stage s; irA_irrcum := d_irr_cum s;
       irA_epot := d_e_pot s; irA_tpot := d_t_pot s; irA_zroot := rdR_zroot r_rd; irA_th := drR_th r_dr; irA_dap := x_dap x;
       irA_tsc := x_tsc x; irA_crop := x_crop x; irA_ztop := so_z_top (x_soil x); irA_gs := x_gs x; irA_rain := w_rain (x_w x);
       irA_runoff := rpR_runoff r_rp |}.
  (* 7. infiltration (receives drainage's DeepPerc and FluxOut, rainfall_partition's Runoff and Infl) *)
  Definition arg_inf (x : Ctx) (r_gw : R_gw) (r_dr : R_dr) (r_rp : R_rp) (r_ir : R_ir) : A_inf :=
    let field := x_field x in
    {| infA_surf := d_surface_storage (x_s x); infA_fcadj := gwR_fcadj r_gw; infA_th := drR_th r_dr; infA_infl := rpR_infl r_rp;
       infA_irr := irR_irr r_ir; infA_eff := i_AppEff (x_irr x); infA_bunds := f_bunds field; infA_zbund := f_z_bund field;
       infA_flux := drR_flux r_dr; infA_deepperc := drR_deepperc r_dr; infA_runoff := rpR_runoff r_rp; infA_gs := x_gs x |}.
  (* 8. capillary rise *)
  Definition arg_cr (x : Ctx) (r_gw : R_gw) (r_inf : R_inf) : A_cr :=
    {| crA_nlayer := so_nLayer (x_soil x); crA_fshape := so_fshape_cr (x_soil x); crA_th := infR_th r_inf; crA_fcadj := gwR_fcadj r_gw;
       crA_zgw := gwR_zgw r_gw; crA_flux := infR_flux r_inf; crA_wt := x_wt x |}.
  (* 9. germination *)
  Definition arg_ge (x : Ctx) (gdd : F) (r_cr : R_cr) : A_ge :=
    let s := x_s x in
    {| geA_germ := d_germination s; geA_prot := d_protected_seed s; geA_dcd := d_delayed_cds s;
       geA_dgdd := d_delayed_gdds s; geA_th := crR_th r_cr; geA_zgerm := so_z_germ (x_soil x); geA_germthr := c_GermThr (x_crop x);
       geA_plantmethod := c_PlantMethod (x_crop x); geA_gdd := gdd; geA_gs := x_gs x |}.
  (* 10. growth stage *)
  Definition arg_gst (x : Ctx) (gdd : F) (r_ge : R_ge) : A_gst :=
    {| gstA_crop := x_crop x; gstA_dap := x_dap x; gstA_dcd := geR_dcd r_ge; gstA_gddcum := gdd_cum_of x gdd; gstA_dgdd := geR_dgdd r_ge;
       gstA_old := d_growth_stage (x_s x); gstA_gs := x_gs x |}.
  (* 11. canopy cover *)
  Definition arg_cc (x : Ctx) (gdd : F) (r_rd : R_rd) (r_cr : R_cr) (r_ge : R_ge) : A_cc :=
    let s := x_s x in
    {| ccA_crop := x_crop x; ccA_ztop := so_z_top (x_soil x); ccA_dap := x_dap x; ccA_dcd := geR_dcd r_ge; ccA_gddcum := gdd_cum_of x gdd;
       ccA_dgdd := geR_dgdd r_ge; ccA_th := crR_th r_cr; ccA_zroot := rdR_zroot r_rd; ccA_cc := d_canopy_cover s; ccA_cc_prev := d_cc_prev s;
       ccA_cc_ns := d_canopy_cover_ns s; ccA_cc_adj := d_canopy_cover_adj s; ccA_cc_adj_ns := d_canopy_cover_adj_ns s;
       ccA_ccx_act := d_ccx_act s; ccA_ccx_act_ns := d_ccx_act_ns s; ccA_ccx_w := d_ccx_w s; ccA_ccx_w_ns := d_ccx_w_ns s;
       ccA_cc0_adj := d_cc0_adj s; ccA_ccx_early_sen := d_ccx_early_sen s; ccA_t_early_sen := d_t_early_sen s;
       ccA_prot := geR_prot r_ge; ccA_premat := d_premat_senes s; ccA_dead := d_crop_dead s;
       ccA_gdd := gdd; ccA_et0 := w_et0 (x_w x); ccA_gs := x_gs x |}.
  (* 12. soil evaporation *)
  Definition arg_ev (x : Ctx) (gdd : F) (r_ir : R_ir) (r_inf : R_inf) (r_cr : R_cr) (r_ge : R_ge) (r_cc : R_cc) : A_ev :=
    let s := x_s x in let soil := x_soil x in let crop := x_crop x in let irr := x_irr x in let field := x_field x in
    {| evA_steps := p_evap_steps (x_par x); evA_simoff := p_sim_off (x_par x); evA_tsc := x_tsc x; evA_zmin := so_evap_z_min soil;
       evA_zmax := so_evap_z_max soil; evA_rew := so_rew soil; evA_kex := so_kex soil; evA_fwcc := so_fwcc soil;
       evA_fwrelexp := so_f_wrel_exp soil; evA_fevap := so_f_evap soil; evA_caltype := c_CalendarType crop;
       evA_senescence := c_Senescence crop; evA_method := i_method irr; evA_wetsurf := i_WetSurf irr;
       evA_mulches := f_mulches field; evA_fmulch := f_f_mulch field; evA_mulchpct := f_mulch_pct field; evA_dap := x_dap x;
       evA_wsurf := d_w_surf s; evA_evapz := d_evap_z s; evA_stage2 := d_stage2 s; evA_th := crR_th r_cr; evA_dcd := geR_dcd r_ge;
       evA_gddcum := gdd_cum_of x gdd; evA_dgdd := geR_dgdd r_ge; evA_ccxw := ccR_ccx_w r_cc; evA_ccadj := ccR_cc_adj r_cc;
       evA_ccxact := ccR_ccx_act r_cc; evA_cc := ccR_cc r_cc; evA_premat := ccR_premat r_cc; evA_surf := infR_surf r_inf;
       evA_wstage2 := d_w_stage_2 s; evA_epot := d_e_pot s; evA_et0 := w_et0 (x_w x); evA_infl := infR_infl r_inf;
       evA_rain := w_rain (x_w x); evA_irr := irR_irr r_ir; evA_gs := x_gs x |}.
  (* 13. transpiration *)
  Definition arg_tr (x : Ctx) (gdd : F) (r_rd : R_rd) (r_rp : R_rp) (r_ir : R_ir) (r_ge : R_ge) (r_cc : R_cc) (r_ev : R_ev) : A_tr :=
    let s := x_s x in
    {| trA_ncomp := so_nComp (x_soil x); trA_ztop := so_z_top (x_soil x); trA_crop := x_crop x; trA_method := i_method (x_irr x);
       trA_smt := i_NetIrrSMT (x_irr x); trA_dap := x_dap x; trA_dcd := geR_dcd r_ge; trA_age_days_ns := d_age_days_ns s;
       trA_age_days := d_age_days s; trA_ccx_w_ns := ccR_ccx_w_ns r_cc; trA_ccx_w := ccR_ccx_w r_cc;
       trA_cc_adj_ns := ccR_cc_adj_ns r_cc; trA_cc_adj := ccR_cc_adj r_cc; trA_cc_ns := ccR_cc_ns r_cc; trA_cc := ccR_cc r_cc;
       trA_cc_prev := ccR_cc_prev r_cc; trA_surf := evR_surf r_ev; trA_day_sub := rpR_daysub r_rp;
       trA_aer_comp := d_aer_days_comp s; trA_zroot := rdR_zroot r_rd; trA_th := evR_th r_ev; trA_t_early_sen := ccR_t_early_sen r_cc;
       trA_aer_days := d_aer_days s; trA_rcor := rdR_rcor r_rd; trA_irr_net_cum := d_irr_net_cum s;
       trA_depletion := irR_depletion r_ir; trA_taw := irR_taw r_ir; trA_tr_ratio := d_tr_ratio s; trA_et0 := w_et0 (x_w x);
       trA_co2c := p_co2c (x_par x) (x_season x); trA_co2r := p_co2r (x_par x); trA_gs := x_gs x; trA_gdd := gdd |}.
  (* 14. groundwater inflow *)
  Definition arg_gi (x : Ctx) (r_gw : R_gw) (r_tr : R_tr) : A_gi :=
    {| giA_th := trR_th r_tr; giA_wtsoil := gwR_wtsoil r_gw; giA_zgw := gwR_zgw r_gw |}.
  (* 15. reference harvest index *)
  Definition arg_hr (x : Ctx) (r_ge : R_ge) (r_cc : R_cc) (r_tr : R_tr) : A_hr :=
    let s := x_s x in
    {| hrA_hiref := d_hi_ref s; hrA_hifinal := d_HIfinal s; hrA_dap := x_dap x; hrA_dcd := geR_dcd r_ge; hrA_yf := d_yield_form s;
       hrA_pct := d_pct_lag_phase s; hrA_cc := trR_cc r_tr; hrA_ccprev := ccR_cc_prev r_cc; hrA_ccxw := ccR_ccx_w r_cc;
       hrA_crop := x_crop x; hrA_gs := x_gs x |}.
  (* 16. biomass accumulation *)
  Definition arg_bm (x : Ctx) (r_ge : R_ge) (r_tr : R_tr) (r_hr : R_hr) : A_bm :=
    {| bmA_crop := x_crop x; bmA_dap := x_dap x; bmA_dcd := geR_dcd r_ge; bmA_hiref := hrR_hiref r_hr; bmA_pct := hrR_pct r_hr;
       bmA_b := d_biomass (x_s x); bmA_bns := d_biomass_ns (x_s x); bmA_tr := trR_tr r_tr; bmA_trpot := trR_trpot_ns r_tr;
       bmA_et0 := w_et0 (x_w x); bmA_gs := x_gs x |}.
  (* 17. harvest index *)
  Definition arg_hi (x : Ctx) (r_rd : R_rd) (r_ge : R_ge) (r_cc : R_cc) (r_tr : R_tr) (r_gi : R_gi) (r_hr : R_hr) (r_bm : R_bm) : A_hi :=
    let s := x_s x in
    {| hiA_ztop := so_z_top (x_soil x); hiA_crop := x_crop x; hiA_hi := d_harvest_index s; hiA_hiadj := d_harvest_index_adj s;
       hiA_preadj := d_pre_adj s; hiA_fpre := d_f_pre s; hiA_fpol := d_f_pol s; hiA_scor1 := d_s_cor1 s; hiA_scor2 := d_s_cor2 s;
       hiA_upp := d_fpost_upp s; hiA_dwn := d_fpost_dwn s; hiA_fpost := d_f_post s; hiA_zroot := rdR_zroot r_rd; hiA_th := giR_th r_gi;
       hiA_t_early_sen := ccR_t_early_sen r_cc; hiA_hiref := hrR_hiref r_hr; hiA_dap := x_dap x; hiA_dcd := geR_dcd r_ge;
       hiA_yf := hrR_yf r_hr; hiA_b := bmR_b r_bm; hiA_bns := bmR_bns r_bm; hiA_cc := trR_cc r_tr; hiA_et0 := w_et0 (x_w x);
       hiA_tmax := w_tmax (x_w x); hiA_tmin := w_tmin (x_w x); hiA_gs := x_gs x |}.
  (* 20. root zone water *)
  Definition arg_rz (x : Ctx) (r_rd : R_rd) (r_gi : R_gi) : A_rz :=
    {| rzA_zroot := rdR_zroot r_rd; rzA_th := giR_th r_gi; rzA_ztop := so_z_top (x_soil x); rzA_zmin := c_Zmin (x_crop x);
       rzA_aer := c_Aer (x_crop x) |}.

  (* the calls, in the order of the source *)
  Definition results (x : Ctx) (P : Procs) : Results :=
    let prof := x_prof x in
    let gdd := if x_gs x then gdR_gdd (p_gd P (arg_gd x)) else 3#/10 in    (* l.151: the local gdd is 0.3 outside the season *)
    let r_gw := p_gw P prof (arg_gw x) in
    let r_rd := p_rd P prof (arg_rd x gdd r_gw) in
    let r_pi := p_pi P prof (arg_pi x r_rd) in
    let r_dr := p_dr P prof (arg_dr x r_gw r_pi) in
    let r_rp := p_rp P prof (arg_rp x r_dr) in
    let r_ir := p_ir P prof (arg_ir x r_rd r_dr r_rp) in
    let r_inf := p_inf P prof (arg_inf x r_gw r_dr r_rp r_ir) in
    let r_cr := p_cr P prof (arg_cr x r_gw r_inf) in
    let r_ge := p_ge P prof (arg_ge x gdd r_cr) in
    let r_gst := p_gst P (arg_gst x gdd r_ge) in
    let r_cc := p_cc P prof (arg_cc x gdd r_rd r_cr r_ge) in
    let r_ev := p_ev P prof (arg_ev x gdd r_ir r_inf r_cr r_ge r_cc) in
    let r_tr := p_tr P prof (arg_tr x gdd r_rd r_rp r_ir r_ge r_cc r_ev) in
    let r_gi := p_gi P prof (arg_gi x r_gw r_tr) in
    let r_hr := p_hr P (arg_hr x r_ge r_cc r_tr) in
    let r_bm := p_bm P (arg_bm x r_ge r_tr r_hr) in
    let r_hi := p_hi P prof (arg_hi x r_rd r_ge r_cc r_tr r_gi r_hr r_bm) in
    let r_rz := p_rz P prof (arg_rz x r_rd r_gi) in
    {| rs_gdd := gdd; rs_gw := r_gw; rs_rd := r_rd; rs_pi := r_pi; rs_dr := r_dr; rs_rp := r_rp; rs_ir := r_ir; rs_inf := r_inf;
       rs_cr := r_cr; rs_ge := r_ge; rs_gst := r_gst; rs_cc := r_cc; rs_ev := r_ev; rs_tr := r_tr; rs_gi := r_gi; rs_hr := r_hr;
       rs_bm := r_bm; rs_hi := r_hi; rs_rz := r_rz |}.

  (* the arguments handed to the processes, as functions of the results of the earlier processes *)
  Definition trace_of (x : Ctx) (R : Results) : Trace :=
    let gdd := rs_gdd R in
    {| t_gd := if x_gs x then Some (arg_gd x) else None; t_gw := arg_gw x; t_rd := arg_rd x gdd (rs_gw R); t_pi := arg_pi x (rs_rd R);
       t_dr := arg_dr x (rs_gw R) (rs_pi R); t_rp := arg_rp x (rs_dr R); t_ir := arg_ir x (rs_rd R) (rs_dr R) (rs_rp R);
       t_inf := arg_inf x (rs_gw R) (rs_dr R) (rs_rp R) (rs_ir R); t_cr := arg_cr x (rs_gw R) (rs_inf R);
       t_ge := arg_ge x gdd (rs_cr R); t_gst := arg_gst x gdd (rs_ge R); t_cc := arg_cc x gdd (rs_rd R) (rs_cr R) (rs_ge R);
       t_ev := arg_ev x gdd (rs_ir R) (rs_inf R) (rs_cr R) (rs_ge R) (rs_cc R);
       t_tr := arg_tr x gdd (rs_rd R) (rs_rp R) (rs_ir R) (rs_ge R) (rs_cc R) (rs_ev R); t_gi := arg_gi x (rs_gw R) (rs_tr R);
       t_hr := arg_hr x (rs_ge R) (rs_cc R) (rs_tr R); t_bm := arg_bm x (rs_ge R) (rs_tr R) (rs_hr R);
       t_hi := arg_hi x (rs_rd R) (rs_ge R) (rs_cc R) (rs_tr R) (rs_gi R) (rs_hr R) (rs_bm R); t_rz := arg_rz x (rs_rd R) (rs_gi R) |}.

  (* 18. yield potential, 19. dry and fresh yield; 21. the net irrigation of the day includes the pre-irrigation *)
  Definition ypot_of (R : Results) : F := (bmR_bns (rs_bm R) / #100) * hiR_hi (rs_hi R).
  Definition dry_of (x : Ctx) (R : Results) : F := if x_gs x then (bmR_b (rs_bm R) / #100) * hiR_hiadj (rs_hi R) else #0.
  Definition fresh_of (x : Ctx) (R : Results) : F := if x_gs x then dry_of x R / (c_YldWC (x_crop x) / #100) else #0.
  Definition irrnet_of (R : Results) : F := trR_irrnet (rs_tr R) + piR_preirr (rs_pi R).
  Definition irrday_of (x : Ctx) (R : Results) : F :=
    if x_gs x then (if (i_method (x_irr x) =? 4)%Z then irrnet_of R else irR_irr (rs_ir R)) else #0.

  (* which result is stored into which state field *)
  Definition state_of (x : Ctx) (R : Results) : DState :=
    let s := x_s x in let gs := x_gs x in let w := x_w x in
    let r_gw := rs_gw R in let r_rd := rs_rd R in let r_ir := rs_ir R in let r_ge := rs_ge R in let r_cc := rs_cc R in
    let r_ev := rs_ev R in let r_tr := rs_tr R in let r_hr := rs_hr R in let r_bm := rs_bm R in let r_hi := rs_hi R in
    let r_rz := rs_rz R in
    {| d_age_days := trR_age_days r_tr; d_age_days_ns := trR_age_days_ns r_tr; d_aer_days := trR_aer_days r_tr;
       d_aer_days_comp := trR_aer_comp r_tr; d_irr_cum := irR_irrcum r_ir; d_delayed_gdds := geR_dgdd r_ge; d_delayed_cds := geR_dcd r_ge;
       d_pct_lag_phase := hrR_pct r_hr; d_t_early_sen := ccR_t_early_sen r_cc; d_gdd_cum := gdd_cum_of x (rs_gdd R);
       d_day_submerged := trR_day_sub r_tr; d_irr_net_cum := trR_irr_net_cum r_tr + piR_preirr (rs_pi R); d_e_pot := evR_epot r_ev;
       d_t_pot := trR_t_pot r_tr;
       d_pre_adj := hiR_preadj r_hi; d_crop_dead := ccR_dead r_cc; d_germination := geR_germ r_ge; d_premat_senes := ccR_premat r_cc;
       d_growing_season := gs; d_yield_form := hrR_yf r_hr; d_stage2 := evR_stage2 r_ev; d_wt_in_soil := gwR_wtsoil r_gw;
       d_stage := d_stage s; d_f_pre := hiR_fpre r_hi; d_f_post := hiR_fpost r_hi; d_fpost_dwn := hiR_dwn r_hi;
       d_fpost_upp := hiR_upp r_hi; d_h1_cor_asum := d_h1_cor_asum s; d_h1_cor_bsum := d_h1_cor_bsum s; d_f_pol := hiR_fpol r_hi;
       d_s_cor1 := hiR_scor1 r_hi; d_s_cor2 := hiR_scor2 r_hi; d_hi_ref := hrR_hiref r_hr; d_HIfinal := d_HIfinal s;
       d_growth_stage := gstR_stage (rs_gst R); d_tr_ratio := trR_tr_ratio r_tr; d_r_cor := rdR_rcor r_rd;
       d_canopy_cover := trR_cc r_tr; d_canopy_cover_adj := ccR_cc_adj r_cc; d_canopy_cover_ns := ccR_cc_ns r_cc;
       d_canopy_cover_adj_ns := ccR_cc_adj_ns r_cc; d_biomass := bmR_b r_bm; d_biomass_ns := bmR_bns r_bm; d_YieldPot := ypot_of R;
       d_harvest_index := hiR_hi r_hi; d_harvest_index_adj := hiR_hiadj r_hi; d_ccx_act := ccR_ccx_act r_cc;
       d_ccx_act_ns := ccR_ccx_act_ns r_cc; d_ccx_w := ccR_ccx_w r_cc; d_ccx_w_ns := ccR_ccx_w_ns r_cc;
       d_ccx_early_sen := ccR_ccx_early_sen r_cc; d_cc_prev := ccR_cc_prev r_cc; d_protected_seed := ccR_prot r_cc;
       d_DryYield := dry_of x R; d_FreshYield := fresh_of x R; d_z_root := rdR_zroot r_rd; d_cc0_adj := ccR_cc0_adj r_cc;
       d_surface_storage := trR_surf r_tr; d_z_gw := gwR_zgw r_gw; d_th_fc_Adj := gwR_fcadj r_gw; d_th := giR_th (rs_gi R);
       d_thini := d_thini s;
       d_time_step_counter := x_tsc x; d_precipitation := w_rain w; d_temp_max := w_tmax w; d_temp_min := w_tmin w; d_et0 := w_et0 w;
       d_sumET0EarlySen := d_sumET0EarlySen s; d_gdd := if gs then rs_gdd R else d_gdd s; d_w_surf := evR_wsurf r_ev;
       d_evap_z := evR_evapz r_ev; d_w_stage_2 := evR_wstage2 r_ev;
       (* outside the season depletion / taw of the root zone are stored (l.468-469) *)
       d_depletion := if gs then trR_depletion r_tr else rzR_drrz r_rz;
       d_taw := if gs then trR_taw r_tr else rzR_tawrz r_rz |}.

  (* what is written into the three tables *)
  Definition row_of (x : Ctx) (R : Results) : DRow :=
    let tsc := x_tsc x in let season := x_season x in let dap := x_dap x in
    let r_inf := rs_inf R in let r_ev := rs_ev R in let r_tr := rs_tr R in let r_cc := rs_cc R in let r_bm := rs_bm R in
    let r_hi := rs_hi R in
    {| r_flux := {| fl_tsc := tsc; fl_season := season; fl_dap := dap; fl_Wr := rzR_wr (rs_rz R); fl_zgw := gwR_zgw (rs_gw R);
                    fl_surf := trR_surf r_tr; fl_IrrDay := irrday_of x R; fl_Infl := infR_infl r_inf; fl_Runoff := infR_runoff r_inf;
                    fl_DeepPerc := infR_deepperc r_inf; fl_CR := crR_cr (rs_cr R); fl_GwIn := giR_gwin (rs_gi R); fl_Es := evR_es r_ev;
                    fl_EsPot := evR_espot r_ev; fl_Tr := trR_tr r_tr; fl_TrPot := trR_trpot r_tr |};
       r_growth := {| gr_tsc := tsc; gr_season := season; gr_dap := dap; gr_gdd := rs_gdd R; gr_gdd_cum := gdd_cum_of x (rs_gdd R);
                      gr_z_root := rdR_zroot (rs_rd R);
                      gr_cc := trR_cc r_tr; gr_cc_ns := ccR_cc_ns r_cc; gr_B := bmR_b r_bm; gr_B_ns := bmR_bns r_bm;
                      gr_HI := hiR_hi r_hi; gr_HIadj := hiR_hiadj r_hi; gr_Dry := dry_of x R; gr_Fresh := fresh_of x R; gr_Pot := ypot_of R |};
       r_sto := {| st_tsc := tsc; st_gs := x_gs x; st_dap := dap; st_th := giR_th (rs_gi R) |} |}.

  Definition day_out (x : Ctx) (R : Results) : DayOut :=
    {| o_state := state_of x R; o_row := row_of x R; o_trace := trace_of x R |}.

  Definition day_core (par : DPar) (P : Procs) (season : Z) (gs : bool) (dap tsc : Z) (w : W) (s : DState) : DayOut :=
    let x := {| x_par := par; x_season := season; x_gs := gs; x_dap := dap; x_tsc := tsc; x_w := w; x_s := s |} in
    day_out x (results x P).

  (* exactly the type of Clock.v's [proc]: season, in-season?, days after planting (already incremented), step *)
  Definition day_proc (par : DPar) (P : Procs) (season : Z) (gs : bool) (dap tsc : Z) (w : W) (s : DState) : DState * DRow :=
    let o := day_core par P season gs dap tsc w s in (o_state o, o_row o).

  (* crop_dead, set by the canopy process *)
  Definition dead (s : DState) : bool := d_crop_dead s.
  (* l.420-424: `(CalendarType == 1 and dap >= Maturity) or (CalendarType == 2 and gdd_cum >= Maturity)` *)
  Definition matured (par : DPar) (season dap : Z) (s : DState) : bool :=
    let crop := sel_crop par season in
    ((c_CalendarType crop =? 1)%Z && (c_Maturity crop <=? #dap)) || ((c_CalendarType crop =? 2)%Z && (c_Maturity crop <=? d_gdd_cum s)).
  (* l.454-466 and l.529-538: yields of the day and the seasonal irrigation total *)
  Definition summary_of (par : DPar) (season : Z) (gs : bool) (s : DState) : DOut :=
    {| o_Dry := d_DryYield s; o_Fresh := d_FreshYield s; o_Pot := d_YieldPot s;
       o_IrrTot := if gs then (if (i_method (sel_irr par season) =? 4)%Z then d_irr_net_cum s else d_irr_cum s) else #0 |}.

  (* ---- reset_initial_conditions ------------------------------------------------------------------------------- *)
  (* the state part; dap, crop_mature, harvest_flag are reset by Clock.start_season.  The weather list is read by the
     implementation only to recompute the thermal calendar of GDD crops, which lives in the crop object ([p_crop k]). *)
  Definition reset (par : DPar) (k : Z) (ws : list W) (s : DState) : DState :=
    let crop := p_crop par k in
    let field := p_field par in
    let skip := negb (p_sim_off par) in      (* `if ClockStruct.sim_off_season is False:` *)
    {| d_age_days := #0; d_age_days_ns := #0; d_aer_days := #0;
       d_aer_days_comp := repeat #0 (Z.to_nat (so_nComp (p_soil par))); d_irr_cum := #0; d_delayed_gdds := #0; d_delayed_cds := 0%Z;
       d_pct_lag_phase := #0; d_t_early_sen := #0; d_gdd_cum := #0; d_day_submerged := #0; d_irr_net_cum := #0;
       d_e_pot := if skip then #0 else d_e_pot s; d_t_pot := if skip then #0 else d_t_pot s;
       d_pre_adj := false; d_crop_dead := false; d_germination := false; d_premat_senes := false;
       d_growing_season := d_growing_season s; d_yield_form := d_yield_form s; d_stage2 := d_stage2 s; d_wt_in_soil := d_wt_in_soil s;
       d_stage := #1; d_f_pre := #1; d_f_post := #1; d_fpost_dwn := #1; d_fpost_upp := #1; d_h1_cor_asum := #0; d_h1_cor_bsum := #0;
       d_f_pol := #0; d_s_cor1 := #0; d_s_cor2 := #0; d_hi_ref := d_hi_ref s; d_HIfinal := c_HI0 crop; d_growth_stage := 0%Z;
       d_tr_ratio := #1; d_r_cor := #1; d_canopy_cover := #0; d_canopy_cover_adj := #0; d_canopy_cover_ns := #0;
       d_canopy_cover_adj_ns := #0; d_biomass := #0; d_biomass_ns := #0; d_YieldPot := d_YieldPot s; d_harvest_index := #0;
       d_harvest_index_adj := #0; d_ccx_act := #0; d_ccx_act_ns := #0; d_ccx_w := #0; d_ccx_w_ns := #0; d_ccx_early_sen := #0;
       d_cc_prev := #0; d_protected_seed := false; d_DryYield := #0; d_FreshYield := #0; d_z_root := d_z_root s;
       d_cc0_adj := c_CC0 crop;
       d_surface_storage := if skip then (if f_bunds field && (f_z_bund field >? 1#/1000) then pmin (f_bund_water field) (f_z_bund field) else #0)
                            else d_surface_storage s;
       d_z_gw := d_z_gw s; d_th_fc_Adj := d_th_fc_Adj s; d_th := if skip then d_thini s else d_th s; d_thini := d_thini s;
       d_time_step_counter := d_time_step_counter s; d_precipitation := d_precipitation s; d_temp_max := d_temp_max s;
       d_temp_min := d_temp_min s; d_et0 := d_et0 s; d_sumET0EarlySen := #0; d_gdd := d_gdd s; d_w_surf := d_w_surf s;
       d_evap_z := d_evap_z s; d_w_stage_2 := d_w_stage_2 s; d_depletion := d_depletion s; d_taw := d_taw s |}.

  (* ---- instances of Clock.v ----------------------------------------------------------------------------------- *)
  Definition DSt := St DState.
  Definition day_step' (par : DPar) (P : Procs) :=
    day_step DState W DRow DOut (day_proc par P) dead (matured par) (summary_of par).
  Definition start_season' (par : DPar) := start_season DState W (reset par).

  (* what the replay correspondence runs: the clock's day step and the trace of the same day *)
  Definition day_replay (par : DPar) (P : Procs) (c : ClockP) (w : W) (st : DSt)
    : DSt * (Z * DRow) * option (SumRow DOut) * Trace :=
    let gs := in_season DState dead c st in
    let dap' := if gs then (Clock.dap st + 1)%Z else 0%Z in
    (day_step' par P c w st, o_trace (day_core par P (season st) gs dap' (tsc st) w (phys st))).
End M.
Arguments DCrop F : clear implicits.
Arguments DIrr F : clear implicits.
Arguments DField F : clear implicits.
Arguments DSoil F : clear implicits.
Arguments DPar F : clear implicits.
Arguments W F : clear implicits.
Arguments A_gd F : clear implicits.
Arguments R_gd F : clear implicits.
Arguments A_gw F : clear implicits.
Arguments R_gw F : clear implicits.
Arguments A_rd F : clear implicits.
Arguments R_rd F : clear implicits.
Arguments A_pi F : clear implicits.
Arguments R_pi F : clear implicits.
Arguments A_dr F : clear implicits.
Arguments R_dr F : clear implicits.
Arguments A_rp F : clear implicits.
Arguments R_rp F : clear implicits.
Arguments A_ir F : clear implicits.
Arguments R_ir F : clear implicits.
Arguments A_inf F : clear implicits.
Arguments R_inf F : clear implicits.
Arguments A_cr F : clear implicits.
Arguments R_cr F : clear implicits.
Arguments A_ge F : clear implicits.
Arguments R_ge F : clear implicits.
Arguments A_gst F : clear implicits.
Arguments A_cc F : clear implicits.
Arguments R_cc F : clear implicits.
Arguments A_ev F : clear implicits.
Arguments R_ev F : clear implicits.
Arguments A_tr F : clear implicits.
Arguments R_tr F : clear implicits.
Arguments A_gi F : clear implicits.
Arguments R_gi F : clear implicits.
Arguments A_hr F : clear implicits.
Arguments R_hr F : clear implicits.
Arguments A_bm F : clear implicits.
Arguments R_bm F : clear implicits.
Arguments A_hi F : clear implicits.
Arguments R_hi F : clear implicits.
Arguments A_rz F : clear implicits.
Arguments R_rz F : clear implicits.
Arguments DState F : clear implicits.
Arguments Procs F : clear implicits.
Arguments Trace F : clear implicits.
Arguments FluxRow F : clear implicits.
Arguments GrowthRow F : clear implicits.
Arguments StoRow F : clear implicits.
Arguments DRow F : clear implicits.
Arguments DOut F : clear implicits.
Arguments DayOut F : clear implicits.
Arguments Ctx F : clear implicits.
Arguments Results F : clear implicits.
