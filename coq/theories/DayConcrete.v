(* DayConcrete.v — the CONCRETE day: the abstract processes of Day.v instantiated with the unit models.

   [ProcsO] is [Procs] with optional results (None = the Python process raises); [results_opt] / [day_core_opt] /
   [day_proc_opt] run a day in the option monad, [total] turns a [ProcsO] into a [Procs] (defaults in place of a raise)
   so that Day.v's definitions and DayP.v's theorems apply unchanged to a day that is defined ([results_opt_total]
   in proofs/DayConcreteP.v).

   [procs_concrete crops] : every field calls the unit model (Kernels.v, the files of Water/ and Crop/) on the arguments taken from
   the argument record [A_x] of Day.v and packs the result into [R_x].  The part of a crop object that only the
   processes read is looked up by the crop's tag: [crops : Z -> CropFull] (season index, -1 = filler crop); Zmin and
   Aer, which the orchestration overrides for the filler crop, are taken from the [DCrop] record handed over by
   the orchestration.  Definitions only; numbers generic in F. *)
From AC Require Import Num Params Kernels Clock Day.
From AC.Water Require RootZone RainIrr Infiltration Drainage Groundwater Evaporation Transpiration.
From AC.Crop Require Canopy Roots Yield.

Section M.
  Context {F : Type} {N : NumOps F} {T : Yield.TrigOps F}.
  Local Open Scope num_scope.

  (* ---- processes that may raise: every field returns an option ------------------------------------------- *)
  Record ProcsO := {
    po_gd : A_gd F -> option (R_gd F);
    po_gw : list (Comp F) -> A_gw F -> option (R_gw F);
    po_rd : list (Comp F) -> A_rd F -> option (R_rd F);
    po_pi : list (Comp F) -> A_pi F -> option (R_pi F);
    po_dr : list (Comp F) -> A_dr F -> option (R_dr F);
    po_rp : list (Comp F) -> A_rp F -> option (R_rp F);
    po_ir : list (Comp F) -> A_ir F -> option (R_ir F);
    po_inf : list (Comp F) -> A_inf F -> option (R_inf F);
    po_cr : list (Comp F) -> A_cr F -> option (R_cr F);
    po_ge : list (Comp F) -> A_ge F -> option (R_ge F);
    po_gst : A_gst F -> option (R_gst);
    po_cc : list (Comp F) -> A_cc F -> option (R_cc F);
    po_ev : list (Comp F) -> A_ev F -> option (R_ev F);
    po_tr : list (Comp F) -> A_tr F -> option (R_tr F);
    po_gi : list (Comp F) -> A_gi F -> option (R_gi F);
    po_hr : A_hr F -> option (R_hr F);
    po_bm : A_bm F -> option (R_bm F);
    po_hi : list (Comp F) -> A_hi F -> option (R_hi F);
    po_rz : list (Comp F) -> A_rz F -> option (R_rz F) }.

  (* default results (never used when the day is defined) *)
  Definition dflt_gd : R_gd F := {| gdR_gdd := #0 |}.
  Definition dflt_gw : R_gw F := {| gwR_fcadj := []; gwR_wtsoil := None; gwR_zgw := None |}.
  Definition dflt_rd : R_rd F := {| rdR_zroot := #0; rdR_rcor := #0 |}.
  Definition dflt_pi : R_pi F := {| piR_th := []; piR_preirr := #0 |}.
  Definition dflt_dr : R_dr F := {| drR_th := []; drR_deepperc := #0; drR_flux := [] |}.
  Definition dflt_rp : R_rp F := {| rpR_runoff := #0; rpR_infl := #0; rpR_daysub := #0 |}.
  Definition dflt_ir : R_ir F := {| irR_depletion := #0; irR_taw := #0; irR_irrcum := #0; irR_irr := #0 |}.
  Definition dflt_inf : R_inf F := {| infR_th := []; infR_surf := #0; infR_deepperc := #0; infR_runoff := #0; infR_infl := #0; infR_flux := [] |}.
  Definition dflt_cr : R_cr F := {| crR_th := []; crR_cr := #0 |}.
  Definition dflt_ge : R_ge F := {| geR_germ := false; geR_prot := false; geR_dcd := 0%Z; geR_dgdd := #0 |}.
  Definition dflt_gst : R_gst := {| gstR_stage := 0%Z |}.
  Definition dflt_cc : R_cc F := {| ccR_cc := #0; ccR_cc_prev := #0; ccR_cc_ns := #0; ccR_cc_adj := #0; ccR_cc_adj_ns := #0; ccR_ccx_act := #0; ccR_ccx_act_ns := #0; ccR_ccx_w := #0; ccR_ccx_w_ns := #0; ccR_cc0_adj := #0; ccR_ccx_early_sen := #0; ccR_t_early_sen := #0; ccR_prot := false; ccR_premat := false; ccR_dead := false |}.
  Definition dflt_ev : R_ev F := {| evR_epot := #0; evR_th := []; evR_stage2 := false; evR_wstage2 := #0; evR_wsurf := #0; evR_surf := #0; evR_evapz := #0; evR_es := #0; evR_espot := #0 |}.
  Definition dflt_tr : R_tr F := {| trR_tr := #0; trR_trpot_ns := #0; trR_trpot := #0; trR_irrnet := #0; trR_age_days_ns := #0; trR_age_days := #0; trR_cc := #0; trR_surf := #0; trR_day_sub := #0; trR_aer_comp := []; trR_th := []; trR_aer_days := #0; trR_irr_net_cum := #0; trR_depletion := #0; trR_taw := #0; trR_tr_ratio := #0; trR_t_pot := #0 |}.
  Definition dflt_gi : R_gi F := {| giR_th := []; giR_gwin := #0 |}.
  Definition dflt_hr : R_hr F := {| hrR_hiref := #0; hrR_yf := false; hrR_pct := #0 |}.
  Definition dflt_bm : R_bm F := {| bmR_b := #0; bmR_bns := #0 |}.
  Definition dflt_hi : R_hi F := {| hiR_hi := #0; hiR_hiadj := #0; hiR_preadj := false; hiR_fpre := #0; hiR_fpol := #0; hiR_scor1 := #0; hiR_scor2 := #0; hiR_upp := #0; hiR_dwn := #0; hiR_fpost := #0 |}.
  Definition dflt_rz : R_rz F := {| rzR_wr := #0; rzR_drzt := #0; rzR_drrz := #0; rzR_tawzt := #0; rzR_tawrz := #0 |}.

  Definition odflt {A} (d : A) (o : option A) : A := match o with Some a => a | None => d end.
  (* the total processes obtained by substituting the defaults for `raise` *)
  Definition total (PO : ProcsO) : Procs F := {|
    p_gd := fun a => odflt dflt_gd (po_gd PO a);
    p_gw := fun p a => odflt dflt_gw (po_gw PO p a);
    p_rd := fun p a => odflt dflt_rd (po_rd PO p a);
    p_pi := fun p a => odflt dflt_pi (po_pi PO p a);
    p_dr := fun p a => odflt dflt_dr (po_dr PO p a);
    p_rp := fun p a => odflt dflt_rp (po_rp PO p a);
    p_ir := fun p a => odflt dflt_ir (po_ir PO p a);
    p_inf := fun p a => odflt dflt_inf (po_inf PO p a);
    p_cr := fun p a => odflt dflt_cr (po_cr PO p a);
    p_ge := fun p a => odflt dflt_ge (po_ge PO p a);
    p_gst := fun a => odflt dflt_gst (po_gst PO a);
    p_cc := fun p a => odflt dflt_cc (po_cc PO p a);
    p_ev := fun p a => odflt dflt_ev (po_ev PO p a);
    p_tr := fun p a => odflt dflt_tr (po_tr PO p a);
    p_gi := fun p a => odflt dflt_gi (po_gi PO p a);
    p_hr := fun a => odflt dflt_hr (po_hr PO a);
    p_bm := fun a => odflt dflt_bm (po_bm PO a);
    p_hi := fun p a => odflt dflt_hi (po_hi PO p a);
    p_rz := fun p a => odflt dflt_rz (po_rz PO p a) |}.

  Definition obind {A B} (o : option A) (f : A -> option B) : option B := match o with Some a => f a | None => None end.
  Notation "'do' x <- o ; k" := (obind o (fun x => k)) (at level 200, x name, o at level 100, k at level 200).

  (* the calls of one day in source order (Day.results), stopping at the first process that raises *)
  Definition results_opt (x : Ctx F) (PO : ProcsO) : option (Results F) :=
    let prof := x_prof x in
    do gdd <- (if x_gs x then match po_gd PO (arg_gd x) with Some g => Some (gdR_gdd g) | None => None end else Some 3#/10);
    do r_gw <- po_gw PO prof (arg_gw x);
    do r_rd <- po_rd PO prof (arg_rd x gdd r_gw);
    do r_pi <- po_pi PO prof (arg_pi x r_rd);
    do r_dr <- po_dr PO prof (arg_dr x r_gw r_pi);
    do r_rp <- po_rp PO prof (arg_rp x r_dr);
    do r_ir <- po_ir PO prof (arg_ir x r_rd r_dr r_rp);
    do r_inf <- po_inf PO prof (arg_inf x r_gw r_dr r_rp r_ir);
    do r_cr <- po_cr PO prof (arg_cr x r_gw r_inf);
    do r_ge <- po_ge PO prof (arg_ge x gdd r_cr);
    do r_gst <- po_gst PO (arg_gst x gdd r_ge);
    do r_cc <- po_cc PO prof (arg_cc x gdd r_rd r_cr r_ge);
    do r_ev <- po_ev PO prof (arg_ev x gdd r_ir r_inf r_cr r_ge r_cc);
    do r_tr <- po_tr PO prof (arg_tr x gdd r_rd r_rp r_ir r_ge r_cc r_ev);
    do r_gi <- po_gi PO prof (arg_gi x r_gw r_tr);
    do r_hr <- po_hr PO (arg_hr x r_ge r_cc r_tr);
    do r_bm <- po_bm PO (arg_bm x r_ge r_tr r_hr);
    do r_hi <- po_hi PO prof (arg_hi x r_rd r_ge r_cc r_tr r_gi r_hr r_bm);
    do r_rz <- po_rz PO prof (arg_rz x r_rd r_gi);
    Some {| rs_gdd := gdd; rs_gw := r_gw; rs_rd := r_rd; rs_pi := r_pi; rs_dr := r_dr; rs_rp := r_rp; rs_ir := r_ir; rs_inf := r_inf;
            rs_cr := r_cr; rs_ge := r_ge; rs_gst := r_gst; rs_cc := r_cc; rs_ev := r_ev; rs_tr := r_tr; rs_gi := r_gi; rs_hr := r_hr;
            rs_bm := r_bm; rs_hi := r_hi; rs_rz := r_rz |}.

  Definition mk_ctx (par : DPar F) (season : Z) (gs : bool) (dap tsc : Z) (w : W F) (s : DState F) : Ctx F :=
    {| x_par := par; x_season := season; x_gs := gs; x_dap := dap; x_tsc := tsc; x_w := w; x_s := s |}.

  Definition day_core_opt (par : DPar F) (PO : ProcsO) (season : Z) (gs : bool) (dap tsc : Z) (w : W F) (s : DState F)
    : option (DayOut F) :=
    let x := mk_ctx par season gs dap tsc w s in
    match results_opt x PO with Some R => Some (day_out x R) | None => None end.

  Definition day_proc_opt (par : DPar F) (PO : ProcsO) (season : Z) (gs : bool) (dap tsc : Z) (w : W F) (s : DState F)
    : option (DState F * DRow F) :=
    match day_core_opt par PO season gs dap tsc w s with Some o => Some (o_state o, o_row o) | None => None end.

  (* the clock's day step around a day that may raise: None when a process raises (nothing is written then) *)
  Definition day_step_opt (par : DPar F) (PO : ProcsO) (c : ClockP) (w : W F) (st : St (DState F))
    : option (St (DState F) * (Z * DRow F) * option (SumRow (DOut F))) :=
    let gs := in_season (DState F) dead c st in
    let dap' := if gs then (Clock.dap st + 1)%Z else 0%Z in
    match day_proc_opt par PO (season st) gs dap' (tsc st) w (phys st) with
    | None => None
    | Some _ => Some (day_step' par (total PO) c w st)
    end.

  (* ---- the part of a crop object read only by the processes -------------------------------------------------- *)
  Record CropFull := {
    cf_root : Roots.RootCrop F; cf_can : Canopy.CropC (F:=F); cf_y : Yield.YCrop (F:=F); cf_s : Yield.SCrop (F:=F);
    cf_tr : Transpiration.TrCrop (F:=F);
    cf_c10 : F; cf_maxcan : F }.      (* Canopy10Pct, MaxCanopy (growth_stage) *)

  (* Zmin / Aer as the orchestration hands them over *)
  Definition root_crop (cf : CropFull) (dc : DCrop F) : Roots.RootCrop F :=
    let c := cf_root cf in
    {| Roots.rc_Zmin := c_Zmin dc; Roots.rc_Zmax := Roots.rc_Zmax c; Roots.rc_PctZmin := Roots.rc_PctZmin c;
       Roots.rc_Emergence := Roots.rc_Emergence c; Roots.rc_MaxRooting := Roots.rc_MaxRooting c;
       Roots.rc_fshape_r := Roots.rc_fshape_r c; Roots.rc_fshape_ex := Roots.rc_fshape_ex c; Roots.rc_cal := Roots.rc_cal c;
       Roots.rc_SxTop := Roots.rc_SxTop c; Roots.rc_SxBot := Roots.rc_SxBot c; Roots.rc_pup1 := Roots.rc_pup1 c;
       Roots.rc_fshape_w1 := Roots.rc_fshape_w1 c |}.
  Definition tr_crop (cf : CropFull) (dc : DCrop F) : Transpiration.TrCrop (F:=F) :=
    let k := cf_tr cf in
    {| Transpiration.k_MaxCanopyCD := Transpiration.k_MaxCanopyCD k; Transpiration.k_Kcb := Transpiration.k_Kcb k;
       Transpiration.k_fage := Transpiration.k_fage k; Transpiration.k_a_Tr := Transpiration.k_a_Tr k;
       Transpiration.k_TrColdStress := Transpiration.k_TrColdStress k; Transpiration.k_GDD_up := Transpiration.k_GDD_up k;
       Transpiration.k_GDD_lo := Transpiration.k_GDD_lo k; Transpiration.k_LagAer := Transpiration.k_LagAer k;
       Transpiration.k_Zmin := c_Zmin dc; Transpiration.k_Aer := c_Aer dc;
       Transpiration.k_pu0 := Transpiration.k_pu0 k; Transpiration.k_pu1 := Transpiration.k_pu1 k;
       Transpiration.k_pu2 := Transpiration.k_pu2 k; Transpiration.k_pu3 := Transpiration.k_pu3 k;
       Transpiration.k_pl0 := Transpiration.k_pl0 k; Transpiration.k_pl1 := Transpiration.k_pl1 k;
       Transpiration.k_pl2 := Transpiration.k_pl2 k; Transpiration.k_pl3 := Transpiration.k_pl3 k;
       Transpiration.k_ETadj := Transpiration.k_ETadj k; Transpiration.k_beta := Transpiration.k_beta k;
       Transpiration.k_fs0 := Transpiration.k_fs0 k; Transpiration.k_fs1 := Transpiration.k_fs1 k;
       Transpiration.k_fs2 := Transpiration.k_fs2 k; Transpiration.k_SxTop := Transpiration.k_SxTop k;
       Transpiration.k_SxBot := Transpiration.k_SxBot k |}.
  Definition s_crop (cf : CropFull) (dc : DCrop F) : Yield.SCrop (F:=F) :=
    let c := cf_s cf in
    {| Yield.s_Zmin := c_Zmin dc; Yield.s_Aer := c_Aer dc;
       Yield.s_pu0 := Yield.s_pu0 c; Yield.s_pu1 := Yield.s_pu1 c; Yield.s_pu2 := Yield.s_pu2 c; Yield.s_pu3 := Yield.s_pu3 c;
       Yield.s_pl0 := Yield.s_pl0 c; Yield.s_pl1 := Yield.s_pl1 c; Yield.s_pl2 := Yield.s_pl2 c; Yield.s_pl3 := Yield.s_pl3 c;
       Yield.s_ETadj := Yield.s_ETadj c; Yield.s_beta := Yield.s_beta c; Yield.s_fs0 := Yield.s_fs0 c; Yield.s_fs1 := Yield.s_fs1 c;
       Yield.s_fs2 := Yield.s_fs2 c; Yield.s_PolHeat := Yield.s_PolHeat c; Yield.s_PolCold := Yield.s_PolCold c;
       Yield.s_Tmax_lo := Yield.s_Tmax_lo c; Yield.s_Tmax_up := Yield.s_Tmax_up c; Yield.s_Tmin_lo := Yield.s_Tmin_lo c;
       Yield.s_Tmin_up := Yield.s_Tmin_up c; Yield.s_fshape_b := Yield.s_fshape_b c |}.

  (* a groundwater depth that is None (no water table): the processes do not read it then; with a water table a missing
     depth makes the Python comparison raise *)
  Definition zgw_of (wt : Z) (o : option F) : option F :=
    match o with Some z => Some z | None => if (wt =? 1)%Z then None else Some #0 end.

  Section Concrete.
    Variable crops : Z -> CropFull.
    Let full (dc : DCrop F) : CropFull := crops (c_id dc).

    Definition c_gd (a : A_gd F) : option (R_gd F) :=
      match growing_degree_day (gdA_method a) (gdA_tupp a) (gdA_tbase a) (gdA_tmax a) (gdA_tmin a) with
      | Some g => Some {| gdR_gdd := g |} | None => None end.

    Definition c_gw (p : list (Comp F)) (a : A_gw F) : option (R_gw F) :=
      match Groundwater.check_groundwater_table p (gwA_fcadj a) (gwA_wt a) (gwA_gw a) with
      | Some (fc, o) => Some {| gwR_fcadj := fc; gwR_wtsoil := match o with Some (b, _) => Some b | None => None end;
                                gwR_zgw := match o with Some (_, z) => Some z | None => None end |}
      | None => None end.

    Definition c_rd (p : list (Comp F)) (a : A_rd F) : option (R_rd F) :=
      do zgw <- zgw_of (rdA_wt a) (rdA_zgw a);
      match Roots.root_development (root_crop (full (rdA_crop a)) (rdA_crop a)) p (rdA_dap a) (rdA_zroot a) (rdA_dcd a) (rdA_gddcum a)
                                   (rdA_dgdd a) (rdA_trratio a) (rdA_th a) (rdA_cc a) (rdA_ccns a) (rdA_germ a) (rdA_rcor a)
                                   (rdA_tpot a) zgw (rdA_gdd a) (rdA_gs a) (rdA_wt a) with
      | Some (z, r) => Some {| rdR_zroot := z; rdR_rcor := r |} | None => None end.

    Definition c_pi (p : list (Comp F)) (a : A_pi F) : option (R_pi F) :=
      match Roots.pre_irrigation p (c_Zmin (piA_crop a)) (piA_zroot a) (piA_th a) (piA_dap a) (piA_gs a)
                                 (i_method (piA_irr a)) (i_NetIrrSMT (piA_irr a)) with
      | Some (th, pre) => Some {| piR_th := th; piR_preirr := pre |} | None => None end.

    Definition c_dr (p : list (Comp F)) (a : A_dr F) : option (R_dr F) :=
      match Drainage.drainage p (drA_th a) (drA_fcadj a) with
      | Some (th, dp, fl) => Some {| drR_th := th; drR_deepperc := dp; drR_flux := fl |} | None => None end.

    (* day_submerged is an integer counter kept as a number in the state record *)
    Definition c_rp (p : list (Comp F)) (a : A_rp F) : option (R_rp F) :=
      match RainIrr.rainfall_partition (rpA_rain a) (rpA_th a) (ntrunc num_ops (rpA_daysub a)) (rpA_srinhb a) (rpA_bunds a)
                                       (rpA_zbund a) (rpA_pct a) (rpA_cn a) (rpA_adjcn a) (rpA_zcn a) (rpA_ncomp a) p with
      | Some (ro, infl, ds) => Some {| rpR_runoff := ro; rpR_infl := infl; rpR_daysub := #ds |} | None => None end.

    Definition c_ir (p : list (Comp F)) (a : A_ir F) : option (R_ir F) :=
      match RainIrr.irrigation (irA_method a) (irA_smt a) (irA_eff a) (irA_maxirr a) (irA_interval a) (irA_sched a) (irA_depth a)
                               (irA_maxseason a) (irA_stage a) (irA_irrcum a) (irA_epot a) (irA_tpot a) (irA_zroot a) (irA_th a)
                               (irA_dap a) (irA_tsc a) (c_Zmin (irA_crop a)) (c_Aer (irA_crop a)) p (irA_ztop a) (irA_gs a)
                               (irA_rain a) (irA_runoff a) with
      | Some (depl, taw, cum, irr) => Some {| irR_depletion := depl; irR_taw := taw; irR_irrcum := cum; irR_irr := irr |}
      | None => None end.

    Definition c_inf (p : list (Comp F)) (a : A_inf F) : option (R_inf F) :=
      match Infiltration.infiltration p (infA_surf a) (infA_fcadj a) (infA_th a) (infA_infl a) (infA_irr a) (infA_eff a)
                                      (infA_bunds a) (infA_zbund a) (infA_flux a) (infA_deepperc a) (infA_runoff a) (infA_gs a) with
      | Some (th, surf, dp, ro, infl, fl) =>
        Some {| infR_th := th; infR_surf := surf; infR_deepperc := dp; infR_runoff := ro; infR_infl := infl; infR_flux := fl |}
      | None => None end.

    Definition c_cr (p : list (Comp F)) (a : A_cr F) : option (R_cr F) :=
      do zgw <- zgw_of (crA_wt a) (crA_zgw a);
      match Groundwater.capillary_rise p (crA_nlayer a) (crA_fshape a) (crA_th a) (crA_fcadj a) zgw (crA_flux a) (crA_wt a) with
      | Some (th, cr) => Some {| crR_th := th; crR_cr := cr |} | None => None end.

    Definition c_ge (p : list (Comp F)) (a : A_ge F) : option (R_ge F) :=
      match Roots.germination (geA_germ a) (geA_prot a) (geA_dcd a) (geA_dgdd a) (geA_th a) (geA_zgerm a) p (geA_germthr a)
                              (geA_plantmethod a) (geA_gdd a) (geA_gs a) with
      | Some g => Some {| geR_germ := Roots.g_germ g; geR_prot := Roots.g_prot g; geR_dcd := Roots.g_dcd g; geR_dgdd := Roots.g_dgdd g |}
      | None => None end.

    Definition c_gst (a : A_gst F) : option R_gst :=
      let dc := gstA_crop a in
      match RainIrr.growth_stage (c_CalendarType dc) (gstA_dap a) (gstA_dcd a) (gstA_gddcum a) (gstA_dgdd a) (cf_c10 (full dc))
                                 (cf_maxcan (full dc)) (c_Senescence dc) (gstA_old a) (gstA_gs a) with
      | Some z => Some {| gstR_stage := z |} | None => None end.

    Definition canopy_state (a : A_cc F) : Canopy.CanopyS (F:=F) :=
      {| Canopy.s_cc := ccA_cc a; Canopy.s_cc_prev := ccA_cc_prev a; Canopy.s_cc_ns := ccA_cc_ns a; Canopy.s_cc_adj := ccA_cc_adj a;
         Canopy.s_cc_adj_ns := ccA_cc_adj_ns a; Canopy.s_ccx_act := ccA_ccx_act a; Canopy.s_ccx_act_ns := ccA_ccx_act_ns a;
         Canopy.s_ccx_w := ccA_ccx_w a; Canopy.s_ccx_w_ns := ccA_ccx_w_ns a; Canopy.s_cc0_adj := ccA_cc0_adj a;
         Canopy.s_ccx_early_sen := ccA_ccx_early_sen a; Canopy.s_t_early_sen := ccA_t_early_sen a;
         Canopy.s_protected_seed := ccA_prot a; Canopy.s_premat_senes := ccA_premat a; Canopy.s_crop_dead := ccA_dead a |}.
    Definition canopy_result (s : Canopy.CanopyS (F:=F)) : R_cc F :=
      {| ccR_cc := Canopy.s_cc s; ccR_cc_prev := Canopy.s_cc_prev s; ccR_cc_ns := Canopy.s_cc_ns s; ccR_cc_adj := Canopy.s_cc_adj s;
         ccR_cc_adj_ns := Canopy.s_cc_adj_ns s; ccR_ccx_act := Canopy.s_ccx_act s; ccR_ccx_act_ns := Canopy.s_ccx_act_ns s;
         ccR_ccx_w := Canopy.s_ccx_w s; ccR_ccx_w_ns := Canopy.s_ccx_w_ns s; ccR_cc0_adj := Canopy.s_cc0_adj s;
         ccR_ccx_early_sen := Canopy.s_ccx_early_sen s; ccR_t_early_sen := Canopy.s_t_early_sen s;
         ccR_prot := Canopy.s_protected_seed s; ccR_premat := Canopy.s_premat_senes s; ccR_dead := Canopy.s_crop_dead s |}.
    (* canopy_cover calls root_zone_water itself, in the season only *)
    Definition c_cc (p : list (Comp F)) (a : A_cc F) : option (R_cc F) :=
      let dc := ccA_crop a in
      let k := cf_can (full dc) in
      let run dr_rz dr_zt taw_rz taw_zt :=
        match Canopy.canopy_cover k (canopy_state a) (ccA_dap a) (ccA_dcd a) (ccA_gddcum a) (ccA_dgdd a) (ccA_gdd a)
                                  dr_rz dr_zt taw_rz taw_zt (ccA_et0 a) (ccA_gs a) with
        | Some s => Some (canopy_result s) | None => None end in
      if ccA_gs a then
        match RootZone.root_zone_water p (ccA_zroot a) (ccA_th a) (ccA_ztop a) (c_Zmin dc) (c_Aer dc) with
        | Some rz => run (RootZone.rz_Dr_Rz rz) (RootZone.rz_Dr_Zt rz) (RootZone.rz_TAW_Rz rz) (RootZone.rz_TAW_Zt rz)
        | None => None end
      else run #0 #0 #0 #0.

    Definition ev_par (a : A_ev F) : Evaporation.EvPar (F:=F) :=
      {| Evaporation.ep_steps := evA_steps a; Evaporation.ep_simoff := evA_simoff a; Evaporation.ep_zmin := evA_zmin a;
         Evaporation.ep_zmax := evA_zmax a; Evaporation.ep_rew := evA_rew a; Evaporation.ep_kex := evA_kex a;
         Evaporation.ep_fwcc := evA_fwcc a; Evaporation.ep_fwrelexp := evA_fwrelexp a; Evaporation.ep_fevap := evA_fevap a;
         Evaporation.ep_caltype := evA_caltype a; Evaporation.ep_senescence := evA_senescence a;
         Evaporation.ep_irrmethod := evA_method a; Evaporation.ep_wetsurf := evA_wetsurf a;
         Evaporation.ep_mulches := evA_mulches a; Evaporation.ep_fmulch := evA_fmulch a;
         Evaporation.ep_mulchpct := evA_mulchpct a |}.
    Definition ev_state (a : A_ev F) : Evaporation.EvState (F:=F) :=
      {| Evaporation.es_tsc := evA_tsc a; Evaporation.es_dap := evA_dap a; Evaporation.es_wsurf := evA_wsurf a;
         Evaporation.es_evapz := evA_evapz a; Evaporation.es_stage2 := evA_stage2 a; Evaporation.es_delayedcds := #(evA_dcd a);
         Evaporation.es_gddcum := evA_gddcum a; Evaporation.es_delayedgdds := evA_dgdd a; Evaporation.es_ccxw := evA_ccxw a;
         Evaporation.es_ccadj := evA_ccadj a; Evaporation.es_ccxact := evA_ccxact a; Evaporation.es_cc := evA_cc a;
         Evaporation.es_prematsenes := evA_premat a; Evaporation.es_surf := evA_surf a; Evaporation.es_wstage2 := evA_wstage2 a |}.
    Definition c_ev (p : list (Comp F)) (a : A_ev F) : option (R_ev F) :=
      match Evaporation.soil_evaporation (ev_par a) p (ev_state a) (evA_th a) (evA_et0 a) (evA_infl a) (evA_rain a) (evA_irr a) (evA_gs a) with
      | Some o => Some {| evR_epot := Evaporation.eo_epot o; evR_th := Evaporation.eo_th o; evR_stage2 := Evaporation.eo_stage2 o;
                          evR_wstage2 := Evaporation.eo_wstage2 o; evR_wsurf := Evaporation.eo_wsurf o; evR_surf := Evaporation.eo_surf o;
                          evR_evapz := Evaporation.eo_evapz o; evR_es := Evaporation.eo_es o; evR_espot := Evaporation.eo_espot o |}
      | None => None end.

    Definition tr_state (a : A_tr F) : Transpiration.TrState (F:=F) :=
      {| Transpiration.s_dap := #(trA_dap a); Transpiration.s_delayed_cds := #(trA_dcd a);
         Transpiration.s_age_days_ns := trA_age_days_ns a; Transpiration.s_age_days := trA_age_days a;
         Transpiration.s_ccx_w_ns := trA_ccx_w_ns a; Transpiration.s_ccx_w := trA_ccx_w a;
         Transpiration.s_cc_adj_ns := trA_cc_adj_ns a; Transpiration.s_cc_adj := trA_cc_adj a;
         Transpiration.s_cc_ns := trA_cc_ns a; Transpiration.s_cc := trA_cc a; Transpiration.s_cc_prev := trA_cc_prev a;
         Transpiration.s_surf := trA_surf a; Transpiration.s_day_sub := trA_day_sub a; Transpiration.s_aer_comp := trA_aer_comp a;
         Transpiration.s_z_root := trA_zroot a; Transpiration.s_th := trA_th a; Transpiration.s_t_early_sen := trA_t_early_sen a;
         Transpiration.s_aer_days := trA_aer_days a; Transpiration.s_r_cor := trA_rcor a;
         Transpiration.s_irr_net_cum := trA_irr_net_cum a; Transpiration.s_depletion := trA_depletion a;
         Transpiration.s_taw := trA_taw a; Transpiration.s_tr_ratio := trA_tr_ratio a; Transpiration.s_t_pot := #0 |}.
    Definition c_tr (p : list (Comp F)) (a : A_tr F) : option (R_tr F) :=
      let dc := trA_crop a in
      match Transpiration.transpiration p (trA_ztop a) (tr_crop (full dc) dc) (trA_method a) (trA_smt a) (tr_state a) (trA_et0 a)
                                        (trA_co2c a) (trA_co2r a) (trA_gs a) (trA_gdd a) with
      | Some o =>
        let s := Transpiration.o_state o in
        Some {| trR_tr := Transpiration.o_TrAct o; trR_trpot_ns := Transpiration.o_TrPot_NS o; trR_trpot := Transpiration.o_TrPot0 o;
                trR_irrnet := Transpiration.o_IrrNet o; trR_age_days_ns := Transpiration.s_age_days_ns s;
                trR_age_days := Transpiration.s_age_days s; trR_cc := Transpiration.s_cc s; trR_surf := Transpiration.s_surf s;
                trR_day_sub := Transpiration.s_day_sub s; trR_aer_comp := Transpiration.s_aer_comp s; trR_th := Transpiration.s_th s;
                trR_aer_days := Transpiration.s_aer_days s; trR_irr_net_cum := Transpiration.s_irr_net_cum s;
                trR_depletion := Transpiration.s_depletion s; trR_taw := Transpiration.s_taw s;
                trR_tr_ratio := Transpiration.s_tr_ratio s; trR_t_pot := Transpiration.s_t_pot s |}
      | None => None end.

    (* `NewCond.wt_in_soil == True`: None compares unequal *)
    Definition gi_wts (a : A_gi F) : bool := match giA_wtsoil a with Some b => b | None => false end.
    Definition c_gi (p : list (Comp F)) (a : A_gi F) : option (R_gi F) :=
      do zgw <- (match giA_zgw a with Some z => Some z | None => if gi_wts a then None else Some #0 end);
      match Groundwater.groundwater_inflow p (giA_th a) (gi_wts a) zgw with
      | Some (th, g) => Some {| giR_th := th; giR_gwin := g |} | None => None end.

    Definition c_hr (a : A_hr F) : option (R_hr F) :=
      let '(h, yf, pct) := Yield.HIref_current_day (cf_y (full (hrA_crop a))) (hrA_hiref a) (hrA_hifinal a) (hrA_dap a) (hrA_dcd a)
                                                   (hrA_yf a) (hrA_pct a) (hrA_cc a) (hrA_ccxw a) (hrA_gs a) in
      Some {| hrR_hiref := h; hrR_yf := yf; hrR_pct := pct |}.

    Definition c_bm (a : A_bm F) : option (R_bm F) :=
      match Yield.biomass_accumulation (cf_y (full (bmA_crop a))) (bmA_dap a) (bmA_dcd a) (bmA_hiref a) (bmA_pct a) (bmA_b a)
                                       (bmA_bns a) (bmA_tr a) (bmA_trpot a) (bmA_et0 a) (bmA_gs a) with
      | Some (b, bns) => Some {| bmR_b := b; bmR_bns := bns |} | None => None end.

    Definition c_hi (p : list (Comp F)) (a : A_hi F) : option (R_hi F) :=
      let dc := hiA_crop a in
      let s := {| Yield.h_hi := hiA_hi a; Yield.h_hiadj := hiA_hiadj a; Yield.h_preadj := hiA_preadj a; Yield.h_fpre := hiA_fpre a;
                  Yield.h_fpol := hiA_fpol a; Yield.h_scor1 := hiA_scor1 a; Yield.h_scor2 := hiA_scor2 a; Yield.h_upp := hiA_upp a;
                  Yield.h_dwn := hiA_dwn a; Yield.h_fpost := hiA_fpost a |} in
      match Yield.harvest_index p (hiA_ztop a) (cf_y (full dc)) (s_crop (full dc) dc) s (hiA_zroot a) (hiA_th a) (hiA_t_early_sen a)
                                (hiA_hiref a) (hiA_dap a) (hiA_dcd a) (hiA_yf a) (hiA_b a) (hiA_bns a) (hiA_cc a) (hiA_et0 a)
                                (hiA_tmax a) (hiA_tmin a) (hiA_gs a) with
      | Some h => Some {| hiR_hi := Yield.h_hi h; hiR_hiadj := Yield.h_hiadj h; hiR_preadj := Yield.h_preadj h; hiR_fpre := Yield.h_fpre h;
                          hiR_fpol := Yield.h_fpol h; hiR_scor1 := Yield.h_scor1 h; hiR_scor2 := Yield.h_scor2 h; hiR_upp := Yield.h_upp h;
                          hiR_dwn := Yield.h_dwn h; hiR_fpost := Yield.h_fpost h |}
      | None => None end.

    Definition c_rz (p : list (Comp F)) (a : A_rz F) : option (R_rz F) :=
      match RootZone.root_zone_water p (rzA_zroot a) (rzA_th a) (rzA_ztop a) (rzA_zmin a) (rzA_aer a) with
      | Some rz => Some {| rzR_wr := RootZone.rz_WrAct rz; rzR_drzt := RootZone.rz_Dr_Zt rz; rzR_drrz := RootZone.rz_Dr_Rz rz;
                           rzR_tawzt := RootZone.rz_TAW_Zt rz; rzR_tawrz := RootZone.rz_TAW_Rz rz |}
      | None => None end.

    Definition procs_concrete : ProcsO :=
      {| po_gd := c_gd; po_gw := c_gw; po_rd := c_rd; po_pi := c_pi; po_dr := c_dr; po_rp := c_rp; po_ir := c_ir; po_inf := c_inf;
         po_cr := c_cr; po_ge := c_ge; po_gst := c_gst; po_cc := c_cc; po_ev := c_ev; po_tr := c_tr; po_gi := c_gi; po_hr := c_hr;
         po_bm := c_bm; po_hi := c_hi; po_rz := c_rz |}.
  End Concrete.
End M.
Arguments ProcsO F : clear implicits.
Arguments CropFull F : clear implicits.
