(* Extract.v — extraction of the executable model for the correspondence check.
   Only ExtrOcamlBasic's directives are in force (bool, option, unit, list, prod,
   sumbool, sumor; andb/orb inlined).  Z, positive, nat stay the extracted datatypes;
   the float instance of [Num] is an OCaml record value supplied by ocaml/driver.ml. *)
From AC Require Import Num Kernels Params.
From AC.Water Require Import RootZone.
From Coq Require Import ExtrOcamlBasic.
Definition keep_nat : nat -> nat := S.
Extraction Language OCaml.
Extraction "ocaml/model.ml" keep_nat
  growing_degree_day water_stress kst_heat kst_cold aeration_stress cc_development
  cc_required_time_cgc cc_required_time_cdc fco2
  storage root_zone_water.
