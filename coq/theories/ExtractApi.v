(* ExtractApi.v — stand-alone extraction of the api unit (ExtrOcamlBasic only). *)
From AC Require Import Num Params Clock Api.
From Coq Require Import ExtrOcamlBasic.
Definition keep_nat : nat -> nat := S.
Extraction Language OCaml.
Extraction "ocaml/model_api.ml" keep_nat storage api_obs.
