(* ExtractDay.v — stand-alone extraction of the day-orchestration unit (ExtrOcamlBasic only). *)
From AC Require Import Num Params Clock Day.
From Coq Require Import ExtrOcamlBasic.
Definition keep_nat : nat -> nat := S.
Extraction Language OCaml.
Extraction "ocaml/model_day.ml" keep_nat storage day_replay start_season'.
