(* ExtractDayConcrete.v — stand-alone extraction of the concrete day (ExtrOcamlBasic only). *)
From AC Require Import Num Params Clock Day DayConcrete.
From Coq Require Import ExtrOcamlBasic.
Definition keep_nat : nat -> nat := S.
Extraction Language OCaml.
Extraction "ocaml/model_dayc.ml" keep_nat storage procs_concrete day_step_opt start_season'.
