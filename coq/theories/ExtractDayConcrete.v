(* ExtractDayConcrete.v — stand-alone extraction of the concrete day and of the concrete whole run (ExtrOcamlBasic only). *)
From AC Require Import Num Params Clock Day DayConcrete RunConcrete.
From Coq Require Import ExtrOcamlBasic.
Definition keep_nat : nat -> nat := S.
Extraction Language OCaml.
Extraction "ocaml/model_dayc.ml" keep_nat storage procs_concrete day_step_opt start_season' run_till_c run_steps_c init_c.
