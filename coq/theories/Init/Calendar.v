(* Calendar.v — initialisation unit "calendar": dates, the simulation window and the season list.

   Sources: aquacrop/initialize/read_clocks_parameters.py (n_steps, time_span, 580-year test),
   aquacrop/initialize/read_model_parameters.py (default harvest date, single_year test with mock years
   1990 / 1992, planting and harvest years, partial-first-season shift, season_counter),
   aquacrop/initialize/compute_crop_calendar.py (calendar-day mode derived counts; thermal mode:
   cumulative-GDD searches), aquacrop/core.py (_sim_date_format_is_correct, the two setters),
   aquacrop/initialize/read_weather_inputs.py (coverage test, clipping).

   Dates are triples (y, m, d) of Z; a day number is Python's date.toordinal() (0001-01-01 = 1), computed by
   H. Hinnant's days_from_civil / civil_from_days.  pandas parses "Y/M/D" strings with Y in 1000..9999 exactly
   when (M, D) is a valid day of the proleptic Gregorian year Y; that is [valid_date].  Where pandas / Python
   raises, the model returns [Err e], e naming the exception class and the raise site.
   The date part is Z / list only; the crop-calendar part (round, log, cumulative sums) is generic in F. *)
From Coq Require Import ZArith List Bool.
From AC Require Import Num.
Import ListNotations.

(* ---------------------------------------------------------------------------------------------- *)
(* Gregorian calendar *)
Section Dates.
  Local Open Scope Z_scope.

  Definition is_leap (y : Z) : bool := (y mod 4 =? 0) && (negb (y mod 100 =? 0) || (y mod 400 =? 0)).

  Definition days_in_month (y m : Z) : Z :=
    if m =? 2 then (if is_leap y then 29 else 28)
    else if (m =? 4) || (m =? 6) || (m =? 9) || (m =? 11) then 30 else 31.

  Definition valid_date (y m d : Z) : bool :=
    (1 <=? m) && (m <=? 12) && (1 <=? d) && (d <=? days_in_month y m).

  (* day number of y/m/d, = datetime.date(y,m,d).toordinal() *)
  Definition days_from_civil (y m d : Z) : Z :=
    let y' := if m <=? 2 then y - 1 else y in
    let era := y' / 400 in
    let yoe := y' - era * 400 in
    let mp := if m <=? 2 then m + 9 else m - 3 in
    let doy := (153 * mp + 2) / 5 + d - 1 in
    let doe := yoe * 365 + yoe / 4 - yoe / 100 + doy in
    era * 146097 + doe - 305.

  (* inverse: = datetime.date.fromordinal(n) as (year, month, day) *)
  Definition civil_from_days (n : Z) : Z * Z * Z :=
    let z := n + 305 in
    let era := z / 146097 in
    let doe := z - era * 146097 in
    let yoe := (doe - doe / 1460 + doe / 36524 - doe / 146096) / 365 in
    let y := yoe + era * 400 in
    let doy := doe - (365 * yoe + yoe / 4 - yoe / 100) in
    let mp := (5 * doy + 2) / 153 in
    let d := doy - (153 * mp + 2) / 5 + 1 in
    let m := if mp <? 10 then mp + 3 else mp - 9 in
    ((if m <=? 2 then y + 1 else y), m, d).

  Definition date_lt (a b : Z * Z * Z) : bool :=
    let '(y1, m1, d1) := a in let '(y2, m2, d2) := b in
    (y1 <? y2) || ((y1 =? y2) && ((m1 <? m2) || ((m1 =? m2) && (d1 <? d2)))).
End Dates.

(* ---------------------------------------------------------------------------------------------- *)
(* errors: exception class + raise site *)
Inductive CalErr :=
| ValueError_BadDate        (* core.py setters: "sim_start_time format must be 'YYYY/MM/DD'" (documented) *)
| ValueError_TooLong        (* check_max_simulation_days: > 580 years (documented) *)
| IndexError_TimeSpan       (* read_clock_parameters: time_span[0] / time_span[1] on a window of < 2 days *)
| ValueError_Uncovered      (* read_weather_inputs: weather does not cover the window (documented) *)
| DateParseError_MonthDay   (* pd.to_datetime("1990/" + mm/dd): planting or harvest day not a day of 1990 (incl. 02/29) *)
| IndexError_NoPlanting     (* read_model_parameters: plant_years[0] / planting_dates[0] on an empty list (finding 11) *)
| AssertionError_NotEnoughGDD  (* compute_crop_calendar (documented) *)
| AssertionError_OverAYear.    (* compute_crop_calendar (documented) *)

Inductive result (A : Type) := Ok (a : A) | Err (e : CalErr).
Arguments Ok {A}. Arguments Err {A}.

Definition bind {A B} (r : result A) (f : A -> result B) : result B :=
  match r with Ok a => f a | Err e => Err e end.
Notation "'do' x <- r ; k" := (bind r (fun x => k)) (at level 200, x pattern, r at level 100, k at level 200).

Section Seasons.
  Local Open Scope Z_scope.

  (* pd.to_datetime(str(y) + "/" + mm/dd) *)
  Definition parse (y m d : Z) : result Z :=
    if valid_date y m d then Ok (days_from_civil y m d) else Err DateParseError_MonthDay.

  (* list(range(a, b)) *)
  Definition zrange (a b : Z) : list Z := map (fun i => a + Z.of_nat i) (seq 0 (Z.to_nat (b - a))).

  (* _sim_date_format_is_correct: datetime.strptime(s, "%Y/%m/%d") *)
  Definition sim_date_ok (dt : Z * Z * Z) : bool :=
    let '(y, m, d) := dt in (1 <=? y) && (y <=? 9999) && valid_date y m d.

  (* read_clock_parameters (+ the setters of core.py): n_steps *)
  Definition read_clock (st en : Z * Z * Z) : result Z :=
    if negb (sim_date_ok st) then Err ValueError_BadDate
    else if negb (sim_date_ok en) then Err ValueError_BadDate
    else
      let '(sy, sm, sd) := st in let '(ey, em, ed) := en in
      if 580 <? ey - sy then Err ValueError_TooLong
      else
        let n := days_from_civil ey em ed - days_from_civil sy sm sd + 1 in
        (* time_span = date_range(start, end); time_span[0], time_span[1] *)
        if n <? 2 then Err IndexError_TimeSpan else Ok n.

  (* read_weather_inputs: [w0], [w1] day numbers of the first / last weather row *)
  Definition check_weather (w0 w1 s e : Z) : result unit :=
    if s <? w0 then Err ValueError_Uncovered
    else if w1 <? e then Err ValueError_Uncovered
    else Ok tt.

  (* the clipping: rows (day number, payload) with start <= day <= end *)
  Definition clip_weather {A} (s e : Z) (rows : list (Z * A)) : list (Z * A) :=
    filter (fun r => fst r <=? e) (filter (fun r => s <=? fst r) rows).

  (* harvest date computed when crop.harvest_date is None: plant (in 1990) + int(MaturityCD + 30) days, month/day only *)
  Definition default_harvest (pl : Z * Z) (maturityCD : Z) : Z * Z :=
    let '(pm, pd) := pl in
    let '(_, m, d) := civil_from_days (days_from_civil 1990 pm pd + (maturityCD + 30)) in (m, d).

  (* crop.harvest_date after the `if crop.harvest_date is None` block; [sy] = year of the start date.
     compute_crop_calendar first parses the planting day in the start year (its planting-date list is still empty),
     then read_model_parameters parses it in 1990 *)
  Definition harvest_md (sy : Z) (pl : Z * Z) (hv : option (Z * Z)) (maturityCD : Z) : result (Z * Z) :=
    match hv with
    | Some h => Ok h
    | None => let '(pm, pd) := pl in
              do _ <- parse sy pm pd;
              do _ <- parse 1990 pm pd; Ok (default_harvest pl maturityCD)
    end.

  (* plant_years, harvest_years before the partial-first-season shift *)
  Definition season_years (sy : Z) (en : Z * Z * Z) (pl hv : Z * Z) : result (list Z * list Z) :=
    let '(ey, em, ed) := en in let '(pm, pd) := pl in let '(hm, hd) := hv in
    do p90 <- parse 1990 pm pd;
    do h90 <- parse 1990 hm hd;
    if p90 <? h90 then
      do mock_end <- parse 1992 em ed;
      do mock_start <- parse 1992 pm pd;
      let ey' := if mock_end <=? mock_start then ey - 1 else ey in
      Ok (zrange sy (ey' + 1), zrange sy (ey' + 1))
    else
      do h2 <- parse (ey + 2) hm hd;
      if h2 <? days_from_civil ey em ed then Ok (zrange sy (ey + 1), zrange (sy + 1) (ey + 2))
      else Ok (zrange sy ey, zrange (sy + 1) (ey + 1)).

  (* pd.to_datetime([...]) of the planting / harvest strings, as offsets from the start day *)
  Fixpoint season_dates (s : Z) (pl hv : Z * Z) (pys hys : list Z) : result (list (Z * Z)) :=
    match pys, hys with
    | py :: pys', hy :: hys' =>
        do p <- parse py (fst pl) (snd pl);
        do h <- parse hy (fst hv) (snd hv);
        do r <- season_dates s pl hv pys' hys';
        Ok ((p - s, h - s) :: r)
    | _, _ => Ok []
    end.

  (* read_model_parameters, date part: list of (planting offset, harvest offset) *)
  Definition season_list (st en : Z * Z * Z) (pl : Z * Z) (hv : option (Z * Z)) (maturityCD : Z) : result (list (Z * Z)) :=
    let '(sy, sm, sd) := st in
    let s := days_from_civil sy sm sd in
    do h <- harvest_md sy pl hv maturityCD;
    do yrs <- season_years sy en pl h;
    let '(pys, hys) := yrs in
    match pys with
    | [] => Err IndexError_NoPlanting                       (* plant_years[0] *)
    | py0 :: _ =>
        do p0 <- parse py0 (fst pl) (snd pl);
        let '(pys, hys) := if p0 <? s then (tl pys, tl hys) else (pys, hys) in
        do l <- season_dates s pl h pys hys;
        match l with
        | [] => Err IndexError_NoPlanting                   (* planting_dates[0] *)
        | _ => Ok l
        end
    end.

  Definition initial_season_counter (l : list (Z * Z)) : Z :=
    match l with (p, _) :: _ => if p =? 0 then 0 else -1 | [] => -1 end.

  Record CalInit := { ci_n_steps : Z; ci_seasons : list (Z * Z); ci_season_counter : Z }.

  (* AquaCropModel.__init__ + _initialize up to read_model_parameters; [w0],[w1]: first/last weather day numbers *)
  Definition calendar_init (st en : Z * Z * Z) (w0 w1 : Z) (pl : Z * Z) (hv : option (Z * Z)) (maturityCD : Z) : result CalInit :=
    do n <- read_clock st en;
    let '(sy, sm, sd) := st in let '(ey, em, ed) := en in
    do _ <- check_weather w0 w1 (days_from_civil sy sm sd) (days_from_civil ey em ed);
    do l <- season_list st en pl hv maturityCD;
    Ok {| ci_n_steps := n; ci_seasons := l; ci_season_counter := initial_season_counter l |}.
End Seasons.

(* ---------------------------------------------------------------------------------------------- *)
(* compute_crop_calendar *)
Section CropCalendar.
  Context {F : Type} {N : NumOps F}.
  Local Open Scope num_scope.

  (* the inputs read by compute_crop_calendar; times are calendar days (mode 1) or GDD (mode 2) *)
  Record CalCrop := { k_determinant : Z; k_croptype : Z;
    k_emergence : F; k_senescence : F; k_maturity : F; k_histart : F; k_flowering : F; k_yldform : F;
    k_cc0 : F; k_ccx : F; k_cgc : F }.

  (* quantities derived in both modes: CanopyDevEnd, Canopy10Pct, MaxCanopy (Python round() -> int), HIend, FloweringEnd *)
  Record CalDerived := { r_canopydevend : F; r_canopy10pct : Z; r_maxcanopy : Z; r_hiend : F; r_floweringend : option F }.

  Definition cal_derived (k : CalCrop) : CalDerived :=
    {| r_canopydevend := if (k_determinant k =? 1)%Z then nofZ num_ops (nrint num_ops (k_histart k + k_flowering k / #2)) else k_senescence k;
       r_canopy10pct := nrint num_ops (k_emergence k + nln num_ops (1#/10 / k_cc0 k) / k_cgc k);
       r_maxcanopy := nrint num_ops (k_emergence k +
          nln num_ops ((25#/100 * k_ccx k * k_ccx k / k_cc0 k) / (k_ccx k - 98#/100 * k_ccx k)) / k_cgc k);
       r_hiend := k_histart k + k_yldform k;
       r_floweringend := if (k_croptype k =? 3)%Z then Some (k_histart k + k_flowering k) else None |}.

  (* np.cumsum *)
  Fixpoint cumsum_from (acc : F) (l : list F) : list F :=
    match l with [] => [] | x :: r => let a := acc + x in a :: cumsum_from a r end.
  Definition cumsum (l : list F) : list F :=
    match l with [] => [] | x :: r => x :: cumsum_from x r end.

  (* (gdd_cum > x).idxmax(): index of the first element exceeding x, 0 when there is none *)
  Fixpoint first_gt_from (i : Z) (l : list F) (x : F) : option Z :=
    match l with [] => None | c :: r => if x <? c then Some i else first_gt_from (i + 1)%Z r x end.
  Definition idxmax_gt (l : list F) (x : F) : Z := match first_gt_from 0 l x with Some i => i | None => 0%Z end.

  Record GddCD := { g_maturitycd : Z; g_maxcanopycd : Z; g_canopydevendcd : Z; g_histartcd : Z; g_hiendcd : Z;
                    g_yldformcd : Z; g_floweringcd : Z }.

  (* thermal mode: calendar-day lengths of the first season from the daily GDD list starting on the planting date *)
  Definition gdd_calendar (k : CalCrop) (gdd : list F) : result GddCD :=
    let d := cal_derived k in
    let cum := cumsum gdd in
    match rev cum with
    | [] => Err IndexError_NoPlanting   (* gdd_cum.values[-1] on an empty series *)
    | last :: _ =>
      if negb (k_maturity k <? last) then Err AssertionError_NotEnoughGDD
      else
        let mat := (idxmax_gt cum (k_maturity k) + 1)%Z in
        if negb (mat <? 365)%Z then Err AssertionError_OverAYear
        else
          let his := (idxmax_gt cum (k_histart k) + 1)%Z in
          let hie := (idxmax_gt cum (r_hiend d) + 1)%Z in
          Ok {| g_maturitycd := mat;
                g_maxcanopycd := (idxmax_gt cum (nofZ num_ops (r_maxcanopy d)) + 1)%Z;
                g_canopydevendcd := (idxmax_gt cum (r_canopydevend d) + 1)%Z;
                g_histartcd := his; g_hiendcd := hie; g_yldformcd := (hie - his)%Z;
                g_floweringcd := match r_floweringend d with
                                 | Some fe => (idxmax_gt cum fe + 1 - his)%Z
                                 | None => (-999)%Z end |}
    end.
End CropCalendar.
