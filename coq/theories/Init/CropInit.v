(* CropInit.v — initialisation unit "cropinit": harvest-index searches and the crop parameters derived at initialisation.

   Sources: aquacrop/initialize/calculate_HIGC.py, aquacrop/initialize/calculate_HI_linear.py,
   aquacrop/entities/crop.py (Crop.calculate_additional_params: CC0, SxTop, SxBot),
   the crop part of aquacrop/initialize/compute_variables.py (crop calendar -> HIGC -> tLinSwitch / dHILinear -> fCO2) and,
   for the SwitchGDD = 1 branch of aquacrop/initialize/compute_crop_calendar.py, the two conversion formulas (CGC, CDC).
   Reused: Calendar.cal_derived / Calendar.gdd_calendar (crop calendar), Kernels.fco2 (CO2 factor).

   The two searches are data-dependent `while` loops.  A loop is a step function  St -> St + Rs  (inl: the test held and the
   body ran; inr: the test failed, with the value computed after the loop) iterated by [while_pow], which runs at most
   2^n steps by structural recursion on n (no large unary numbers at run time).  [while_lin] is the same loop with a
   unary step budget; proofs/CropInitR.v shows  while_pow step n = while_lin step (2^n).

   Dynamic types in the running package (they decide where Python raises):
   * YldFormCD is a Python float for the calendar-day crops of the catalogue (61.0), a Python int for AlfalfaGDD and a
     np.int64 after the thermal-mode calendar; the model takes it as a number [F];
   * np.exp(...) is a np.float64, so every quotient of the logistic estimate is an IEEE division (inf / NaN, no exception);
   * in calculate_HI_linear the last quotient has the Python float  HI0 - 0  as numerator when tSwitch <= 0, and then a
     zero denominator (YldFormCD = -1) raises ZeroDivisionError -> None. *)
From Coq Require Import ZArith List Bool.
From AC Require Import Num Params Kernels.
From AC.Init Require Import Calendar.
Import ListNotations.

(* ---------------------------------------------------------------------------------------------- *)
(* bounded while loops *)
Section Loops.
  Context {St Rs : Type}.

  (* at most k steps *)
  Fixpoint while_lin (step : St -> St + Rs) (k : nat) (s : St) : St + Rs :=
    match k with
    | O => inl s
    | S k' => match step s with inl s' => while_lin step k' s' | inr r => inr r end
    end.

  (* at most 2^n steps *)
  Fixpoint while_pow (step : St -> St + Rs) (n : nat) (s : St) : St + Rs :=
    match n with
    | O => step s
    | S n' => match while_pow step n' s with inl s' => while_pow step n' s' | inr r => inr r end
    end.
End Loops.

Section M.
  Context {F : Type} {N : NumOps F}.
  Local Open Scope num_scope.

  (* ---- the logistic harvest-index estimate shared by the two searches ------------------------ *)
  (*  (HIini * HI0) / (HIini + (HI0 - HIini) * np.exp(-HIGC * t))  *)
  Definition hi_est (HIini HI0 HIGC t : F) : F :=
    (HIini * HI0) / (HIini + (HI0 - HIini) * nexp num_ops ((- HIGC) * t)).

  (* ---- calculate_HIGC.py ------------------------------------------------------------------------ *)
  (* state (HIGC, HIest); one evaluation of the loop test, then either the body or the code after the loop *)
  Definition higc_step (tHI HI0 HIini : F) (s : F * F) : (F * F) + F :=
    let '(g, e) := s in
    if e <=? 98#/100 * HI0 then
      let g' := g + 1#/1000 in
      inl (g', hi_est HIini HI0 g' tHI)
    else inr (if HI0 <=? e then g - 1#/1000 else g).

  Definition higc_init : F * F := (1#/1000, #0).

  (* 2^20 = 1 048 576 steps.  Justification for doubles: exp(-HIGC*tHI) is 0.0 as soon as HIGC*tHI > 745.2, i.e. after at
     most 745 200 / tHI iterations; from then on HIest = (HIini*HI0)/HIini, which leaves the loop unless it never will
     (see the divergence theorems).  Over the reals the loop needs  floor(1000 ln(49 (HI0-HIini)/HIini) / tHI)  iterations. *)
  Definition higc_bits : nat := 20.

  Definition higc_result (r : (F * F) + F) : option F := match r with inr g => Some g | inl _ => None end.

  (* None: the loop is still running after 2^20 steps (the Python call does not return) *)
  Definition calculate_HIGC (tHI HI0 HIini : F) : option F :=
    higc_result (while_pow (higc_step tHI HI0 HIini) higc_bits higc_init).

  (* the same search with an explicit unary budget (used by the theorems) *)
  Definition higc_lin (k : nat) (tHI HI0 HIini : F) : option F :=
    higc_result (while_lin (higc_step tHI HI0 HIini) k higc_init).

  (* ---- calculate_HI_linear.py ------------------------------------------------------------------- *)
  (* state (ti, HIest, HIprev) *)
  Definition hilin_step (tmax HIini HI0 HIGC : F) (s : Z * F * F) : (Z * F * F) + Z :=
    let '(ti, e, prev) := s in
    if (e <=? HI0) && (#ti <? tmax) then
      let ti' := (ti + 1)%Z in
      let hn := hi_est HIini HI0 HIGC #ti' in
      inl (ti', hn + (tmax - #ti') * (hn - prev), hn)
    else inr ti.

  Definition hilin_init (HIini : F) : Z * F * F := (0%Z, #0, HIini).

  (* the loop runs at most ceil(tmax) times; 2^bits >= trunc(tmax) + 2 *)
  Definition hilin_bits (tmax : F) : nat := Z.to_nat (Z.log2_up (Z.max 2 (ntrunc num_ops tmax + 2)%Z)).

  (* the code after the loop, from the final ti *)
  Definition hilin_finish (tmax HIini HI0 HIGC : F) (ti : Z) : option (Z * F) :=
    let ts := (ti - 1)%Z in
    if (0 <? ts)%Z then Some (ts, (HI0 - hi_est HIini HI0 HIGC #ts) / (tmax - #ts))
    else if tmax - #ts =? #0 then None          (* Python float / 0: ZeroDivisionError *)
    else Some (ts, (HI0 - #0) / (tmax - #ts)).

  Definition hilin_result (tmax HIini HI0 HIGC : F) (r : (Z * F * F) + Z) : option (Z * F) :=
    match r with inr ti => hilin_finish tmax HIini HI0 HIGC ti | inl _ => None end.

  (* (tLinSwitch, dHILinear) *)
  Definition calculate_HI_linear (tmax HIini HI0 HIGC : F) : option (Z * F) :=
    hilin_result tmax HIini HI0 HIGC (while_pow (hilin_step tmax HIini HI0 HIGC) (hilin_bits tmax) (hilin_init HIini)).

  Definition hilin_lin (k : nat) (tmax HIini HI0 HIGC : F) : option (Z * F) :=
    hilin_result tmax HIini HI0 HIGC (while_lin (hilin_step tmax HIini HI0 HIGC) k (hilin_init HIini)).

  (* ---- Crop.calculate_additional_params --------------------------------------------------------- *)
  Definition cc0_of (PlantPop SeedSize : F) : F := PlantPop * SeedSize * 1#/100000000.

  (* (SxTop, SxBot) from the two quarter-point extraction rates *)
  Definition sx_terms (SxTopQ SxBotQ : F) : F * F :=
    if SxTopQ =? SxBotQ then (SxTopQ, SxBotQ)
    else
      let '(S1, S2) := if SxTopQ <? SxBotQ then (SxBotQ, SxTopQ) else (SxTopQ, SxBotQ) in
      let xx := #3 * (S2 / (S1 - S2)) in
      let '(SS1, SS2) :=
        if xx <? 5#/10 then ((#4 / 35#/10) * S1, #0)
        else ((xx + 35#/10) * (S1 / (xx + #3)), (xx - 5#/10) * (S2 / xx)) in
      if SxBotQ <? SxTopQ then (SS1, SS2) else (SS2, SS1).

  (* ---- compute_crop_calendar, SwitchGDD = 1: the two conversion formulas ------------------------ *)
  (* CGC in thermal time from the (thermal) MaxCanopy and Emergence computed by prepare_gdd; crop.CCx**2 is libm pow *)
  Definition cgc_to_gdd (CCx CC0 maxcanopy emergence : F) : F :=
    (nln num_ops ((((98#/100 * CCx) - CCx) * CC0) / ((- 25#/100) * (npow num_ops CCx #2)))) / (- (maxcanopy - emergence)).

  (* CDC in thermal time; tCD = MaturityCD - SenescenceCD, tGDD = Maturity - Senescence (both replaced when <= 0) *)
  Definition cdc_to_gdd (CCx CDC_CD tCD tGDD : F) : F :=
    let tCD := if tCD <=? #0 then #1 else tCD in
    let CCi := CCx * (#1 - 5#/100 * (nexp num_ops (((333#/100 * CDC_CD) / (CCx + 229#/100)) * tCD) - #1)) in
    let CCi := if CCi <? #0 then #0 else CCi in
    let tGDD := if tGDD <=? #0 then #5 else tGDD in
    ((CCx + 229#/100) * nln num_ops ((((CCi / CCx) - #1) / (- 5#/100)) + #1)) / (333#/100 * tGDD).

  (* ---- the crop part of compute_variables (SwitchGDD = 0) ---------------------------------------- *)
  Inductive InitErr :=
  | CalE (e : CalErr)            (* an exception of compute_crop_calendar *)
  | HIGC_NoReturn                (* calculate_HIGC does not return *)
  | HILinear_ZeroDivision.       (* calculate_HI_linear: ZeroDivisionError *)

  Inductive ires (A : Type) := IOk (a : A) | IErr (e : InitErr).
  Arguments IOk {A}. Arguments IErr {A}.

  (* what is read: the calendar mode (1 calendar days, 2 thermal), the calendar inputs [k] in the unit of the mode
     (k_cc0 is ignored: CC0 is recomputed from PlantPop and SeedSize as Crop.__init__ does), and the scalars below *)
  Record CropIn := {
    i_mode : Z; i_cal : CalCrop (F:=F);
    i_PlantPop : F; i_SeedSize : F; i_SxTopQ : F; i_SxBotQ : F;
    i_HI0 : F; i_HIini : F;
    i_bsted : F; i_bface : F; i_fsink : F; i_WP : F }.

  (* what is written on the crop object *)
  Record CropOut := {
    o_CC0 : F; o_SxTop : F; o_SxBot : F;
    o_cal : option (CalDerived (F:=F));       (* CanopyDevEnd, Canopy10Pct, MaxCanopy, HIend, FloweringEnd (None: unknown mode) *)
    o_gdd : option GddCD;             (* thermal mode: the calendar-day lengths of the first season *)
    o_YldFormCD : F;                  (* the value the two searches receive *)
    o_HIGC : F; o_tLinSwitch : Z; o_dHILinear : F;
    o_fCO2 : F }.

  Definition with_cc0 (k : CalCrop (F:=F)) (cc0 : F) : CalCrop (F:=F) :=
    {| k_determinant := k_determinant k; k_croptype := k_croptype k; k_emergence := k_emergence k;
       k_senescence := k_senescence k; k_maturity := k_maturity k; k_histart := k_histart k;
       k_flowering := k_flowering k; k_yldform := k_yldform k; k_cc0 := cc0; k_ccx := k_ccx k; k_cgc := k_cgc k |}.

  (* [gdd]: daily growing degree days from the first planting date (thermal mode only); [conc], [ref]: CO2 *)
  Definition crop_init (c : CropIn) (gdd : list F) (conc ref : F) : ires CropOut :=
    let cc0 := cc0_of (i_PlantPop c) (i_SeedSize c) in
    let '(sxt, sxb) := sx_terms (i_SxTopQ c) (i_SxBotQ c) in
    let k := with_cc0 (i_cal c) cc0 in
    let cal :=
      if (i_mode c =? 1)%Z then IOk (Some (cal_derived k), None, k_yldform k)
      else if (i_mode c =? 2)%Z then
        match gdd_calendar k gdd with
        | Ok g => IOk (Some (cal_derived k), Some g, #(g_yldformcd g))
        | Err e => IErr (CalE e)
        end
      else IOk (None, None, k_yldform k) in
    match cal with
    | IErr e => IErr e
    | IOk (d, g, yf) =>
      match calculate_HIGC yf (i_HI0 c) (i_HIini c) with
      | None => IErr HIGC_NoReturn
      | Some higc =>
        let lin :=
          if (k_croptype k =? 3)%Z then
            match calculate_HI_linear yf (i_HIini c) (i_HI0 c) higc with
            | Some r => IOk r
            | None => IErr HILinear_ZeroDivision
            end
          else IOk (0%Z, #0) in
        match lin with
        | IErr e => IErr e
        | IOk (ts, dl) =>
          IOk {| o_CC0 := cc0; o_SxTop := sxt; o_SxBot := sxb; o_cal := d; o_gdd := g; o_YldFormCD := yf;
                 o_HIGC := higc; o_tLinSwitch := ts; o_dHILinear := dl;
                 o_fCO2 := fco2 conc ref (i_bsted c) (i_bface c) (i_fsink c) (i_WP c) |}
        end
      end
    end.
End M.
Arguments IOk {A}. Arguments IErr {A}.
