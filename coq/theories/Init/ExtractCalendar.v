(* ExtractCalendar.v — stand-alone extraction of the calendar unit (ExtrOcamlBasic only). *)
From AC Require Import Num Params.
From AC.Init Require Import Calendar.
From Coq Require Import ExtrOcamlBasic.
Definition keep_nat : nat -> nat := S.
Extraction Language OCaml.
Extraction "ocaml/model_calendar.ml" keep_nat storage is_leap days_in_month valid_date days_from_civil civil_from_days date_lt
  sim_date_ok read_clock check_weather clip_weather default_harvest season_list initial_season_counter calendar_init
  cal_derived cumsum idxmax_gt gdd_calendar.
