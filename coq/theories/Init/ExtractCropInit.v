(* ExtractCropInit.v — stand-alone extraction of the cropinit unit (ExtrOcamlBasic only). *)
From AC Require Import Num Params Kernels.
From AC.Init Require Import Calendar CropInit.
From Coq Require Import ExtrOcamlBasic.
Definition keep_nat : nat -> nat := S.
Extraction Language OCaml.
Extraction "ocaml/model_cropinit.ml" keep_nat storage hi_est calculate_HIGC higc_lin calculate_HI_linear hilin_lin hilin_bits
  cc0_of sx_terms cgc_to_gdd cdc_to_gdd crop_init.
