(* ExtractInitState.v — stand-alone extraction of the initial-state unit (ExtrOcamlBasic only). *)
From AC Require Import Num Params Clock Day.
From AC.Init Require Import InitState.
From Coq Require Import ExtrOcamlBasic.
Definition keep_nat : nat -> nat := S.
Extraction Language OCaml.
Extraction "ocaml/model_initstate.ml" keep_nat storage init_state init_water init_fcadj init_surface.
