(* ExtractInitialise.v — stand-alone extraction of the initialise unit (ExtrOcamlBasic only). *)
From AC Require Import Num Params Clock Day DayConcrete RunConcrete.
From AC.Init Require Import Initialise.
From Coq Require Import ExtrOcamlBasic.
Definition keep_nat : nat -> nat := S.
Extraction Language OCaml.
Extraction "ocaml/model_initialise.ml" keep_nat storage initialise run_config.
