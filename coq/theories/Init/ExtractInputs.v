(* ExtractInputs.v — stand-alone extraction of the inputs unit (ExtrOcamlBasic only). *)
From AC Require Import Num Params.
From AC.Init Require Import Inputs.
From Coq Require Import ExtrOcamlBasic.
Definition keep_nat : nat -> nat := S.
Extraction Language OCaml.
Extraction "ocaml/model_inputs.ml" keep_nat storage
  clip_table select_weather bind_weather weather_at as_table
  schedule_reindex irr_schedule irr_smt
  np_interp obs_sorted gw_time_interp gw_series gw_daily gw_at
  read_field_management co2_process co2_init co2_season.
