(* ExtractSoilBuild.v — stand-alone extraction of the soil-initialisation unit (ExtrOcamlBasic only). *)
From AC Require Import Num Params.
From AC.Init Require Import SoilBuild.
From Coq Require Import ExtrOcamlBasic.
Definition keep_nat : nat -> nat := S.
Extraction Language OCaml.
Extraction "ocaml/model_soilinit.ml" keep_nat storage soil_init_in build_in build_profile texture_props layer_from_texture
  tau_of pw_sum kahan_mean interp deepen initial_wc.
