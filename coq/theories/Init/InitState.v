(* InitState.v — the state object right after AquaCropModel._initialize().

   Sources: aquacrop/entities/initParamVariables.py        (InitialCondition.__init__: the defaults of every state field)
            aquacrop/initialize/read_model_initial_conditions.py
                                                            (what initialisation overwrites: z_root, cc0_adj, HIfinal,
                                                             surface_storage, z_gw, wt_in_soil, th_fc_Adj, th, thini)

   [init_state par k zgw0 fc_reset th0]:
     par       the run parameters as the day model sees them (Day.DPar); the crop of the first season is [p_crop par 0];
     k         ClockStruct.season_counter at initialisation (0: the first step is the first planting step; -1: it is not);
     zgw0      ParamStruct.z_gw[time_step_counter] (None: the array has no such entry -> IndexError with a water table);
     fc_reset  `typestr == "Prop" and datapoints[-1] == "FC"` (the initial water content is given as field capacity);
     th0       the initial water contents as the Layer / Depth interpolation computed them (SoilBuild.initial_wc, tied to
               the code by its own suite `soilinit`), BEFORE the two water-table overrides modelled here.
   Result: the full Day.DState, None where the code raises.

   Remarks on the code that exists:
   * the adjusted field capacity at initialisation repeats the loop of solution/check_groundwater_table.py
     (Groundwater.gw_xmax / gw_far are reused) with two differences: the denominator is `Xmax ** 2` (libm pow) instead of
     `Xmax * Xmax`, and the result is rounded to 3 decimals (`np.round(thfcAdj, 3)`).  A negative water-table depth does not
     raise here (wt_in_soil = False, th_fc_Adj = th_fc).
   * with a water table and an initial content given as "FC" the code stores the th_fc_Adj ARRAY OBJECT into th
     (`InitCond.th = InitCond.th_fc_Adj`), so the saturation of the compartments below the table that follows
     (`InitCond.th[ii] = ...`) is written into th_fc_Adj as well ([fc'] below).
   * "below the table" is decided twice with two different mid-points: wt_in_soil with profile.zMid (which fill_nan does
     not recompute after the profile was deepened), the first saturated compartment with (top + bottom) / 2 recomputed
     from dzsum; the saturated content is the LAYER MEAN of th_s (Hydrology = groupby("Layer").mean(), Kahan summation:
     SoilBuild.kahan_mean is reused), not the compartment's own th_s.
   * water_table neither 0 nor 1: nothing is stored (z_gw, wt_in_soil and th_fc_Adj keep the defaults of __init__:
     -999, False, zeros) — not reachable through GroundWater ("Y"/"N").
   Definitions only; numbers generic in F. *)
From AC Require Import Num Params Clock Day.
From AC.Water Require Import Groundwater.
From AC.Init Require Import SoilBuild.

Section M.
  Context {F : Type} {N : NumOps F}.
  Local Open Scope num_scope.

  (* ---- surface storage between bunds (l.67-92): the field management in force on the first day ------------------- *)
  (* `if bunds and float(z_bund) > 0.001: s = float(bund_water); if s > float(z_bund): s = float(z_bund)  else: s = 0` *)
  Definition init_surface (f : DField F) : F :=
    if f_bunds f && (f_z_bund f >? 1#/1000) then pmin (f_bund_water f) (f_z_bund f) else #0.

  (* ---- adjusted field capacity with a water table (l.122-157) ----------------------------------------------------- *)
  (* the `else` branch of the loop body; `Xmax ** 2` and `(...) ** 2` are libm pow *)
  Definition init_fcadj_comp (zgw : F) (c : Comp F) : F :=
    if c_th_fc c >=? c_th_s c then c_th_fc c
    else if c_zmid c >=? zgw then c_th_s c
    else
      let xmax := gw_xmax c in
      let dV := c_th_s c - c_th_fc c in
      c_th_fc c + ((dV / npow num_ops xmax #2) * npow num_ops (c_zmid c - (zgw - xmax)) #2).

  (* bottom-up loop with early exit, written top-down as Groundwater.gw_fcadj_loop: the boolean says whether the exit
     (`compi = -1`, every compartment above gets th_fc) has happened in this compartment or in one below it *)
  Fixpoint init_fcadj_loop (zgw : F) (p : list (Comp F)) : list F * bool :=
    match p with
    | [] => ([], false)
    | c :: r =>
      let res := init_fcadj_loop zgw r in
      if snd res then (c_th_fc c :: fst res, true)
      else if gw_far zgw c then (c_th_fc c :: fst res, true)
      else (init_fcadj_comp zgw c :: fst res, false)
    end.

  (* `InitCond.th_fc_Adj = np.round(thfcAdj, 3)` *)
  Definition init_fcadj (zgw : F) (p : list (Comp F)) : list F :=
    map (nround_np num_ops 3) (fst (init_fcadj_loop zgw p)).

  (* `if z_gw >= 0: wt_in_soil = any(zMid >= z_gw) else: False` *)
  Definition init_wt_in_soil (zgw : F) (p : list (Comp F)) : bool :=
    (zgw >=? #0) && gw_wt_in_soil zgw p.

  (* ---- saturation below the table (l.300-311) ---------------------------------------------------------------------- *)
  (* hydf.th_s.loc[L]: mean of th_s over the compartments of layer L *)
  Definition hyd_th_s (p : list (Comp F)) (L : Z) : F :=
    kahan_mean (flat_map (fun c => if (c_layer c =? L)%Z then [c_th_s c] else []) p).

  (* `for ii in range(idx, len(profile)): th[ii] = hydf.th_s.loc[Layer[ii]]`; None = th shorter than the profile *)
  Fixpoint sat_from (pall p : list (Comp F)) (th : list F) : option (list F) :=
    match p with
    | [] => Some th
    | c :: p' =>
      match th with
      | [] => None
      | _ :: th' =>
        match sat_from pall p' th' with
        | Some l => Some (hyd_th_s pall (c_layer c) :: l)
        | None => None
        end
      end
    end.

  (* `idx = np.where(comp_mid >= z_gw)[0][0]`, comp_mid = (append([0], dzsum[:-1]) + dzsum) / 2; [top] is the bottom of
     the compartment above; None = IndexError (no such compartment, or th too short) *)
  Fixpoint sat_find (pall : list (Comp F)) (zgw top : F) (p : list (Comp F)) (th : list F) : option (list F) :=
    match p with
    | [] => None
    | c :: p' =>
      if ((top + c_dzsum c) / #2) >=? zgw then sat_from pall p th
      else
        match th with
        | [] => None
        | t :: th' =>
          match sat_find pall zgw (c_dzsum c) p' th' with
          | Some l => Some (t :: l)
          | None => None
          end
        end
    end.

  (* ---- the water-table part: (z_gw, wt_in_soil, th_fc_Adj, th) ----------------------------------------------------- *)
  Definition init_water (prof : list (Comp F)) (wt : Z) (zgw0 : option F) (fc_reset : bool) (th0 : list F)
    : option (F * bool * list F * list F) :=
    if (wt =? 0)%Z then Some (#(-999), false, map (fun c => c_th_fc c) prof, th0)
    else if (wt =? 1)%Z then
      match zgw0 with
      | None => None                                             (* ParamStruct.z_gw[0]: IndexError *)
      | Some zgw =>
        let wts := init_wt_in_soil zgw prof in
        let fc := init_fcadj zgw prof in
        let th1 := if fc_reset then fc else th0 in
        if wts then
          match sat_find prof zgw #0 prof th1 with
          | None => None
          | Some th2 => Some (zgw, true, (if fc_reset then th2 else fc), th2)   (* th IS th_fc_Adj when fc_reset *)
          end
        else Some (zgw, false, fc, th1)
      end
    else Some (#(-999), false, map (fun _ => #0) prof, th0).

  (* ---- read_model_initial_conditions -------------------------------------------------------------------------------- *)
  Definition init_state (par : DPar F) (k : Z) (zgw0 : option F) (fc_reset : bool) (th0 : list F) : option (DState F) :=
    let prof := so_prof (p_soil par) in
    let crop0 := p_crop par 0%Z in
    (* l.52-58, l.67-92: only the season counters -1 and 0 store something *)
    let zroot := if (k =? -1)%Z then #0 else if (k =? 0)%Z then c_Zmin crop0 else #0 in
    let cc0 := if (k =? -1)%Z then #0 else if (k =? 0)%Z then c_CC0 crop0 else #0 in
    let surf := if (k =? -1)%Z then init_surface (p_fallow_field par)
                else if (k =? 0)%Z then init_surface (p_field par) else #0 in
    match init_water prof (p_water_table par) zgw0 fc_reset th0 with
    | None => None
    | Some (zgw, wts, fc, th) =>
      Some
        {| d_age_days := #0; d_age_days_ns := #0; d_aer_days := #0; d_aer_days_comp := map (fun _ => #0) prof; d_irr_cum := #0;
           d_delayed_gdds := #0; d_delayed_cds := 0%Z; d_pct_lag_phase := #0; d_t_early_sen := #0; d_gdd_cum := #0;
           d_day_submerged := #0; d_irr_net_cum := #0; d_e_pot := #0; d_t_pot := #0;
           d_pre_adj := false; d_crop_dead := false; d_germination := false; d_premat_senes := false; d_growing_season := false;
           d_yield_form := false; d_stage2 := false; d_wt_in_soil := Some wts;
           d_stage := #1; d_f_pre := #1; d_f_post := #1; d_fpost_dwn := #1; d_fpost_upp := #1; d_h1_cor_asum := #0;
           d_h1_cor_bsum := #0; d_f_pol := #0; d_s_cor1 := #0; d_s_cor2 := #0; d_hi_ref := #0;
           d_HIfinal := c_HI0 crop0;                                   (* `InitCond.HIfinal = crop.HI0` *)
           d_growth_stage := 0%Z; d_tr_ratio := #1; d_r_cor := #1;
           d_canopy_cover := #0; d_canopy_cover_adj := #0; d_canopy_cover_ns := #0; d_canopy_cover_adj_ns := #0; d_biomass := #0;
           d_biomass_ns := #0; d_YieldPot := #0; d_harvest_index := #0; d_harvest_index_adj := #0; d_ccx_act := #0;
           d_ccx_act_ns := #0; d_ccx_w := #0; d_ccx_w_ns := #0; d_ccx_early_sen := #0; d_cc_prev := #0; d_protected_seed := false;
           d_DryYield := #0; d_FreshYield := #0;
           d_z_root := zroot; d_cc0_adj := cc0; d_surface_storage := surf; d_z_gw := Some zgw;
           d_th_fc_Adj := fc; d_th := th; d_thini := th;               (* thini: an independent copy of th *)
           d_time_step_counter := 0%Z; d_precipitation := #0; d_temp_max := #0; d_temp_min := #0; d_et0 := #0;
           d_sumET0EarlySen := #0; d_gdd := #0; d_w_surf := #0; d_evap_z := #0; d_w_stage_2 := #0; d_depletion := #0; d_taw := #0 |}
    end.
End M.
