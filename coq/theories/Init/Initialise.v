(* Initialise.v — unit "initialise": AquaCropModel._initialize() as ONE function of the user's configuration, and the
   whole simulation started from it.

   Sources: aquacrop/core.py (_initialize: the order of the steps), initialize/read_clocks_parameters.py,
   read_weather_inputs.py, read_model_parameters.py, read_irrigation_management.py, read_field_managment.py,
   read_groundwater_table.py, compute_variables.py, compute_crop_calendar.py, read_model_initial_conditions.py,
   create_soil_profile.py, entities/soil.py (add_capillary_rise_params), entities/crop.py, entities/co2.py and, for the crop
   of a later season, timestep/reset_initial_conditions.py (CO2 concentration / fCO2 of the season; thermal calendar and
   harvest-index searches of a thermal-time crop).

   This file COMPOSES the initialisation units (each of them tied to the code by its own suite):
     Calendar   read_clock, season_list, cal_derived, gdd_calendar          Inputs    bind_weather, irr_schedule, gw_daily, co2_init, co2_season
     SoilBuild  build_deepened, initial_wc (profile, deepening, water content)    CropInit  crop_init (CC0, SxTop/SxBot, calendar, HIGC, HI-linear, fCO2)
     InitState  init_state (state object, water-table overrides)            Kernels   growing_degree_day, fco2
   What is modelled HERE (not in any unit): the glue of read_model_parameters / compute_variables (z_top, rew, curve number from
   Ksat, nLayer, nComp), Soil.add_capillary_rise_params, the assembly of the parameter records the daily processes read
   (Day.DPar, DayConcrete.CropFull), the two calls of compute_crop_calendar when no harvest date is given, and the crop of every
   season as reset_initial_conditions leaves it.

   Dates in a [Config] are proleptic Gregorian day numbers (Python date.toordinal()); the groundwater interpolation works on
   days since 1970-01-01 (pandas' int64 view), hence [epoch].  Definitions only; numbers generic in F. *)
From Coq Require Import ZArith List Bool.
From AC Require Import Num Params Kernels Clock Day DayConcrete RunConcrete.
From AC.Water Require Transpiration.
From AC.Crop Require Canopy Roots Yield.
From AC.Init Require Calendar Inputs SoilBuild CropInit InitState.
Import ListNotations.

(* ---- errors: the error kinds of the units, plus the raise sites of the glue ------------------------------------------- *)
Inductive IErr :=
| ECal (e : Calendar.CalErr)          (* dates, window, season list, thermal calendar *)
| EIn (e : Inputs.InErr)              (* weather table, irrigation schedule, groundwater observations, CO2 table *)
| ECrop (e : CropInit.InitErr)        (* crop calendar / harvest-index searches *)
| ESoil                               (* Soil.fill_nan / the deepening loop raise (SoilBuild.build_deepened = None) *)
| EIwc                                (* the initial water content raises (SoilBuild.initial_wc = None) *)
| EKsat                               (* compute_variables: `assert ksat > 0` with calc_cn = 1 *)
| ECapRise                            (* add_capillary_rise_params: `assert aCR != 0` / `assert bCR != 0` *)
| EGwNaN                              (* a NaN groundwater depth on a simulation day (not reachable in the present code) *)
| EState                              (* read_model_initial_conditions raises in the water-table part (InitState.init_state = None) *)
| EGddMethod                          (* thermal calendar with GDDmethod outside {1,2,3}: UnboundLocalError *)
| EUnsupported.                       (* SwitchGDD = 1 (prepare_gdd) and calendar types other than 1, 2: outside this model *)

Inductive ires (A : Type) := IOk (a : A) | IErr_ (e : IErr).
Arguments IOk {A}. Arguments IErr_ {A}.
Definition ibind {A B} (r : ires A) (f : A -> ires B) : ires B := match r with IOk a => f a | IErr_ e => IErr_ e end.
Definition of_cal {A} (r : Calendar.result A) : ires A := match r with Calendar.Ok a => IOk a | Calendar.Err e => IErr_ (ECal e) end.
Definition of_in {A} (r : Inputs.res A) : ires A := match r with Inputs.Ok a => IOk a | Inputs.Err e => IErr_ (EIn e) end.
Definition of_crop {A} (r : CropInit.ires A) : ires A := match r with CropInit.IOk a => IOk a | CropInit.IErr e => IErr_ (ECrop e) end.
Definition of_opt {A} (e : IErr) (o : option A) : ires A := match o with Some a => IOk a | None => IErr_ e end.

(* 1970-01-01 as a day number *)
Definition epoch : Z := 719163.

Section M.
  Context {F : Type} {N : NumOps F} {T : Yield.TrigOps F}.
  Local Open Scope num_scope.
  Notation "'do' x <- r ; k" := (ibind r (fun x => k)) (at level 200, x pattern, r at level 100, k at level 200).

  (* ================================================================================================================= *)
  (* the user's configuration                                                                                           *)
  (* ================================================================================================================= *)
  (* the Crop object as the user hands it over: the catalogue row after the keyword overrides, as numbers *)
  Record CropU := {
    u_planting : Z * Z; u_harvest : option (Z * Z);          (* month, day *)
    u_CropType : Z; u_CalendarType : Z; u_SwitchGDD : Z; u_GDDmethod : Z;
    u_ETadj : Z; u_PolHeatStress : Z; u_PolColdStress : Z; u_TrColdStress : Z;
    u_PlantMethod : F; u_Determinant : F;
    u_Tupp : F; u_Tbase : F; u_GermThr : F; u_YldWC : F;
    u_Zmin : F; u_Zmax : F; u_Aer : F; u_LagAer : F; u_PctZmin : F; u_fshape_r : F; u_fshape_ex : F; u_fshape_b : F;
    u_SxTopQ : F; u_SxBotQ : F; u_SeedSize : F; u_PlantPop : F;
    u_CCx : F; u_CDC : F; u_CGC : F; u_CDC_CD : F; u_CGC_CD : F;
    u_Kcb : F; u_fage : F; u_a_Tr : F; u_WP : F; u_WPy : F; u_fsink : F; u_bsted : F; u_bface : F;
    u_HI0 : F; u_HIini : F; u_dHI_pre : F; u_a_HI : F; u_b_HI : F; u_dHI0 : F; u_exc : F; u_CCmin : F; u_beta : F;
    u_pu1 : F; u_pu2 : F; u_pu3 : F; u_pu4 : F; u_pl1 : F; u_pl2 : F; u_pl3 : F; u_pl4 : F;
    u_fw1 : F; u_fw2 : F; u_fw3 : F;
    u_Tmax_up : F; u_Tmax_lo : F; u_Tmin_up : F; u_Tmin_lo : F; u_GDD_up : F; u_GDD_lo : F;
    (* calendar in calendar days *)
    u_EmergenceCD : F; u_MaxRootingCD : F; u_SenescenceCD : F; u_MaturityCD : F; u_HIstartCD : F; u_FloweringCD : F; u_YldFormCD : F;
    (* calendar in growing degree days *)
    u_Emergence : F; u_MaxRooting : F; u_Senescence : F; u_Maturity : F; u_HIstart : F; u_Flowering : F; u_YldForm : F }.

  (* the Soil object: compartment thicknesses, the add_layer / add_layer_from_texture calls, the scalars *)
  Record SoilU := {
    so_dz : list F; so_layers : list (SoilBuild.LayerIn (F:=F));
    so_u_cn : F; so_u_calc_cn : Z; so_u_adj_rew : Z; so_u_rew : F; so_u_evap_z_surf : F; so_u_evap_z_min : F; so_u_evap_z_max : F;
    so_u_kex : F; so_u_f_evap : F; so_u_f_wrel_exp : F; so_u_fwcc : F; so_u_z_cn : F; so_u_z_germ : F; so_u_adj_cn : Z;
    so_u_fshape_cr : F; so_u_z_top : F }.

  Record IwcU := { w_type : SoilBuild.WcType; w_method : SoilBuild.WcMethod; w_depth_layer : list F;
                   w_value : list (SoilBuild.WcVal (F:=F)) }.

  (* the IrrigationManagement object; the schedule as (day number, depth) rows *)
  Record IrrU := {
    ir_method : Z; ir_SMT : list F; ir_AppEff : F; ir_MaxIrr : F; ir_IrrInterval : Z; ir_sched : list (Z * F);
    ir_depth : F; ir_MaxIrrSeason : F; ir_NetIrrSMT : F; ir_WetSurf : F }.

  Record GwU := { gw_present : bool; gw_method : Inputs.GwMethod; gw_obs : list (Z * F) }.   (* (day number, depth) *)

  Record Config := {
    cf_start : Z * Z * Z; cf_end : Z * Z * Z;                    (* year, month, day *)
    cf_weather : Inputs.Table F;                                 (* Date cells are day numbers *)
    cf_soil : SoilU; cf_crop : CropU; cf_iwc : IwcU; cf_irr : IrrU;
    cf_field : Inputs.FieldM F; cf_fallow_field : Inputs.FieldM F;
    cf_gw : GwU; cf_co2 : Inputs.CO2 F; cf_off_season : bool }.

  (* [i_reset_ok k] = false: reset_initial_conditions raises at the start of season k (thermal-time crop: the weather from that
     season's planting date on does not hold enough growing degree days, ...); the run stops when it gets there *)
  Record Init := { i_par : DPar F; i_crops : Z -> CropFull F; i_clock : ClockP; i_weather : list (W F); i_state : DState F;
                   i_reset_ok : Z -> bool }.

  (* ================================================================================================================= *)
  (* soil glue                                                                                                          *)
  (* ================================================================================================================= *)
  Definition deepen_fuel : nat := 1000.

  (* Soil.add_capillary_rise_params: (aCR, bCR) of one layer from the layer means (groupby("Layer").mean()) *)
  Definition cr_params (thwp thfc ths ksat : F) : F * F :=
    let lk := nln num_ops ksat in
    let sandy := ((- 3112#/10000) - ksat / #100000, (- 14936#/10000) + 2416#/10000 * lk) in
    let loamy := ((- 4986#/10000) + #9 * ksat / #100000, (- 21320#/10000) + 4778#/10000 * lk) in
    let sandy_clayey := ((- 5677#/10000) - #4 * ksat / #100000, (- 37189#/10000) + 5922#/10000 * lk) in
    let silty_clayey := ((- 6366#/10000) + #8 * ksat / #10000, (- 19165#/10000) + 7063#/10000 * lk) in
    if ths <=? 55#/100 then
      if thwp >=? 20#/100 then
        (if (ths >=? 49#/100) && (thfc >=? 40#/100) then silty_clayey else sandy_clayey)
      else if thfc <? 23#/100 then sandy
      else if (thwp >? 16#/100) && (ksat <? #100) then sandy_clayey
      else if (thwp <? 6#/100) && (thfc <? 28#/100) && (ksat >? #750) then sandy
      else loamy
    else silty_clayey.

  Definition layer_cr (rows : list (SoilBuild.Row (F:=F))) (L : Z) : F * F :=
    cr_params (SoilBuild.kahan_mean (SoilBuild.layer_vals SoilBuild.a_wp L rows))
              (SoilBuild.kahan_mean (SoilBuild.layer_vals SoilBuild.a_fc L rows))
              (SoilBuild.kahan_mean (SoilBuild.layer_vals SoilBuild.a_s L rows))
              (SoilBuild.kahan_mean (SoilBuild.layer_vals SoilBuild.a_ksat L rows)).

  (* `assert aCR != 0; assert bCR != 0` for every layer that has a compartment *)
  Definition cr_ok (rows : list (SoilBuild.Row (F:=F))) : bool :=
    forallb (fun r => let '(a, b) := layer_cr rows (SoilBuild.row_layer r) in negb (a =? #0) && negb (b =? #0)) rows.

  Definition set_cr (c : Comp F) (ab : F * F) : Comp F :=
    {| c_dz := c_dz c; c_dzsum := c_dzsum c; c_zmid := c_zmid c; c_layer := c_layer c; c_th_dry := c_th_dry c; c_th_wp := c_th_wp c;
       c_th_fc := c_th_fc c; c_th_s := c_th_s c; c_ksat := c_ksat c; c_tau := c_tau c; c_pen := c_pen c;
       c_acr := fst ab; c_bcr := snd ab |}.

  (* the SoilProfile arrays (create_soil_profile): aCR / bCR are the layer values with a water table, dz * 0.0 without *)
  Definition profile_of (wt : bool) (rows : list (SoilBuild.Row (F:=F))) : ires (list (Comp F)) :=
    do cs <- of_opt ESoil (SoilBuild.to_comps rows);
    if wt then
      if cr_ok rows then IOk (map (fun c => set_cr c (layer_cr rows (c_layer c))) cs) else IErr_ ECapRise
    else IOk cs.

  (* compute_variables: curve number from the Ksat of the first compartment *)
  Definition cn_of (s : SoilU) (ksat0 : F) : ires F :=
    if (so_u_calc_cn s =? 1)%Z then
      if ksat0 >? #864 then IOk #46
      else if ksat0 >? #347 then IOk #61
      else if ksat0 >? #36 then IOk #72
      else if ksat0 >? #0 then IOk #77
      else IErr_ EKsat
    else IOk (so_u_cn s).

  (* compute_variables: readily evaporable water; profile.th_fc.iloc[0] is a numpy scalar: numpy's round *)
  Definition rew_of (s : SoilU) (fc0 dry0 : F) : F :=
    if (so_u_adj_rew s =? 0)%Z then nround_np num_ops 2 (#1000 * (fc0 - dry0) * so_u_evap_z_surf s) else so_u_rew s.

  Definition soil_of (s : SoilU) (prof : list (Comp F)) : ires (DSoil F) :=
    match prof with
    | [] => IErr_ ESoil
    | c0 :: _ =>
      do cn <- cn_of s (c_ksat c0);
      IOk {| so_cn := cn; so_adj_cn := so_u_adj_cn s; so_z_cn := so_u_z_cn s; so_nComp := Z.of_nat (length prof);
             so_z_top := pmax (so_u_z_top s) (c_dz c0);      (* `max(soil.z_top, float(profile.dz.iloc[0]))` *)
             so_nLayer := Z.of_nat (length (so_layers s)); so_fshape_cr := so_u_fshape_cr s; so_z_germ := so_u_z_germ s;
             so_evap_z_min := so_u_evap_z_min s; so_evap_z_max := so_u_evap_z_max s; so_rew := rew_of s (c_th_fc c0) (c_th_dry c0);
             so_kex := so_u_kex s; so_fwcc := so_u_fwcc s; so_f_wrel_exp := so_u_f_wrel_exp s; so_f_evap := so_u_f_evap s;
             so_prof := prof |}
    end.

  (* ================================================================================================================= *)
  (* managements                                                                                                        *)
  (* ================================================================================================================= *)
  Definition irr_of (i : IrrU) (s e : Z) : ires (DIrr F) :=
    do sch <- of_in (Inputs.irr_schedule (ir_method i) s e (ir_sched i));
    IOk {| i_id := 0%Z; i_method := ir_method i; i_SMT := Inputs.irr_smt (ir_SMT i); i_AppEff := ir_AppEff i; i_MaxIrr := ir_MaxIrr i;
           i_IrrInterval := ir_IrrInterval i; i_Schedule := sch; i_depth := ir_depth i; i_MaxIrrSeason := ir_MaxIrrSeason i;
           i_NetIrrSMT := ir_NetIrrSMT i; i_WetSurf := ir_WetSurf i |}.

  (* ParamStruct.FallowIrrMngt = IrrMngtStruct(len(time_span)): the defaults of the struct *)
  Definition fallow_irr (s e : Z) : DIrr F :=
    {| i_id := 1%Z; i_method := 0%Z; i_SMT := [#0; #0; #0; #0]; i_AppEff := #100; i_MaxIrr := #25; i_IrrInterval := 0%Z;
       i_Schedule := map (fun _ => #0) (Inputs.span s e); i_depth := #0; i_MaxIrrSeason := #10000; i_NetIrrSMT := #80;
       i_WetSurf := #100 |}.

  Definition field_of (id : Z) (f : Inputs.FieldM F) : DField F :=
    {| f_id := id; f_sr_inhb := Inputs.fm_sr_inhb f; f_bunds := Inputs.fm_bunds f; f_z_bund := Inputs.fm_z_bund f;
       f_cn_adj := Inputs.fm_cn_adj f; f_cn_adj_pct := Inputs.fm_cn_adj_pct f; f_mulches := Inputs.fm_mulches f;
       f_f_mulch := Inputs.fm_f_mulch f; f_mulch_pct := Inputs.fm_mulch_pct f; f_bund_water := Inputs.fm_bund_water f |}.

  (* ================================================================================================================= *)
  (* crop                                                                                                               *)
  (* ================================================================================================================= *)
  (* `crop.Determinant == 1` *)
  Definition det_of (u : CropU) : Z := if u_Determinant u =? #1 then 1%Z else 0%Z.

  (* the calendar inputs of compute_crop_calendar in the unit of the crop's mode.  [second]: the call made by
     compute_variables after read_model_parameters already called the function (no harvest date given): in calendar-day mode
     the first call has stored FloweringCD = -999 on a crop that is not a fruit / grain crop *)
  Definition cal_of (u : CropU) (second : bool) : Calendar.CalCrop (F:=F) :=
    if (u_CalendarType u =? 1)%Z then
      {| Calendar.k_determinant := det_of u; Calendar.k_croptype := u_CropType u; Calendar.k_emergence := u_EmergenceCD u;
         Calendar.k_senescence := u_SenescenceCD u; Calendar.k_maturity := u_MaturityCD u; Calendar.k_histart := u_HIstartCD u;
         Calendar.k_flowering := if second && negb (u_CropType u =? 3)%Z then #(-999) else u_FloweringCD u;
         Calendar.k_yldform := u_YldFormCD u; Calendar.k_cc0 := #0; Calendar.k_ccx := u_CCx u; Calendar.k_cgc := u_CGC_CD u |}
    else
      {| Calendar.k_determinant := det_of u; Calendar.k_croptype := u_CropType u; Calendar.k_emergence := u_Emergence u;
         Calendar.k_senescence := u_Senescence u; Calendar.k_maturity := u_Maturity u; Calendar.k_histart := u_HIstart u;
         Calendar.k_flowering := u_Flowering u; Calendar.k_yldform := u_YldForm u; Calendar.k_cc0 := #0; Calendar.k_ccx := u_CCx u;
         Calendar.k_cgc := u_CGC u |}.

  Definition crop_in (u : CropU) (second : bool) : CropInit.CropIn (F:=F) :=
    {| CropInit.i_mode := u_CalendarType u; CropInit.i_cal := cal_of u second;
       CropInit.i_PlantPop := u_PlantPop u; CropInit.i_SeedSize := u_SeedSize u; CropInit.i_SxTopQ := u_SxTopQ u;
       CropInit.i_SxBotQ := u_SxBotQ u; CropInit.i_HI0 := u_HI0 u; CropInit.i_HIini := u_HIini u; CropInit.i_bsted := u_bsted u;
       CropInit.i_bface := u_bface u; CropInit.i_fsink := u_fsink u; CropInit.i_WP := u_WP u |}.

  (* daily growing degree days of the weather rows from day number [from] on (the matrix is in date order: the rows with
     `Date >= from`); None = growing-degree-day method outside {1,2,3} *)
  Fixpoint gdd_from (u : CropU) (from : Z) (w : list (Inputs.WRow F)) : option (list F) :=
    match w with
    | [] => Some []
    | r :: rest =>
      if (from <=? Inputs.w_date r)%Z then
        match growing_degree_day (u_GDDmethod u) (u_Tupp u) (u_Tbase u) (Inputs.w_tmax r) (Inputs.w_tmin r), gdd_from u from rest with
        | Some g, Some gs => Some (g :: gs)
        | _, _ => None
        end
      else gdd_from u from rest
    end.

  (* the records the daily processes read, from the user's crop [u] and what the initialisation derived ([o]); [id]: season *)
  Definition dcrop_of (u : CropU) (o : CropInit.CropOut (F:=F)) (id : Z) : DCrop F :=
    let cd := (u_CalendarType u =? 1)%Z in
    {| c_id := id; c_GDDmethod := u_GDDmethod u; c_Tupp := u_Tupp u; c_Tbase := u_Tbase u; c_GermThr := u_GermThr u;
       c_PlantMethod := u_PlantMethod u; c_CalendarType := u_CalendarType u;
       c_Senescence := if cd then u_SenescenceCD u else u_Senescence u; c_YldWC := u_YldWC u;
       c_Maturity := if cd then u_MaturityCD u else u_Maturity u; c_Zmin := u_Zmin u; c_Aer := u_Aer u;
       c_CC0 := CropInit.o_CC0 o; c_HI0 := u_HI0 u |}.

  Definition derived_of (o : CropInit.CropOut (F:=F)) : Calendar.CalDerived (F:=F) :=
    match CropInit.o_cal o with
    | Some d => d
    | None => {| Calendar.r_canopydevend := #0; Calendar.r_canopy10pct := 0%Z; Calendar.r_maxcanopy := 0%Z; Calendar.r_hiend := #0;
                 Calendar.r_floweringend := None |}
    end.

  Definition cropfull_of (u : CropU) (o : CropInit.CropOut (F:=F)) : CropFull F :=
    let cd := (u_CalendarType u =? 1)%Z in
    let d := derived_of o in
    let g := CropInit.o_gdd o in
    let em := if cd then u_EmergenceCD u else u_Emergence u in
    let gz (f : Calendar.GddCD -> Z) (dflt : F) : F := match g with Some r => #(f r) | None => dflt end in
    {| cf_root := {| Roots.rc_Zmin := u_Zmin u; Roots.rc_Zmax := u_Zmax u; Roots.rc_PctZmin := u_PctZmin u; Roots.rc_Emergence := em;
                     Roots.rc_MaxRooting := if cd then u_MaxRootingCD u else u_MaxRooting u; Roots.rc_fshape_r := u_fshape_r u;
                     Roots.rc_fshape_ex := u_fshape_ex u; Roots.rc_cal := u_CalendarType u; Roots.rc_SxTop := CropInit.o_SxTop o;
                     Roots.rc_SxBot := CropInit.o_SxBot o; Roots.rc_pup1 := u_pu2 u; Roots.rc_fshape_w1 := u_fw2 u |};
       cf_can := {| Canopy.k_cal := u_CalendarType u; Canopy.k_emergence := em;
                    Canopy.k_maturity := if cd then u_MaturityCD u else u_Maturity u;
                    Canopy.k_canopy_dev_end := Calendar.r_canopydevend d;
                    Canopy.k_senescence := if cd then u_SenescenceCD u else u_Senescence u;
                    Canopy.k_CC0 := CropInit.o_CC0 o; Canopy.k_CCx := u_CCx u;
                    Canopy.k_CGC := if cd then u_CGC_CD u else u_CGC u; Canopy.k_CDC := if cd then u_CDC_CD u else u_CDC u;
                    Canopy.k_pu0 := u_pu1 u; Canopy.k_pu1 := u_pu2 u; Canopy.k_pu2 := u_pu3 u; Canopy.k_pu3 := u_pu4 u;
                    Canopy.k_pl0 := u_pl1 u; Canopy.k_pl1 := u_pl2 u; Canopy.k_pl2 := u_pl3 u; Canopy.k_pl3 := u_pl4 u;
                    Canopy.k_etadj := u_ETadj u; Canopy.k_beta := u_beta u;
                    Canopy.k_fs0 := u_fw1 u; Canopy.k_fs1 := u_fw2 u; Canopy.k_fs2 := u_fw3 u |};
       cf_y := {| Yield.y_CropType := u_CropType u; Yield.y_Determinant := u_Determinant u;
                  Yield.y_HIstartCD := gz Calendar.g_histartcd (u_HIstartCD u);
                  Yield.y_YldFormCD := CropInit.o_YldFormCD o;
                  Yield.y_HIendCD := gz Calendar.g_hiendcd (Calendar.r_hiend d);
                  Yield.y_FloweringCD := gz Calendar.g_floweringcd (if (u_CropType u =? 3)%Z then u_FloweringCD u else #(-999));
                  Yield.y_CanopyDevEndCD := gz Calendar.g_canopydevendcd (Calendar.r_canopydevend d);
                  Yield.y_tLinSwitch := #(CropInit.o_tLinSwitch o); Yield.y_dHILinear := CropInit.o_dHILinear o;
                  Yield.y_HIGC := CropInit.o_HIGC o; Yield.y_HI0 := u_HI0 u; Yield.y_HIini := u_HIini u; Yield.y_WP := u_WP u;
                  Yield.y_WPy := u_WPy u; Yield.y_fCO2 := CropInit.o_fCO2 o; Yield.y_dHI_pre := u_dHI_pre u; Yield.y_dHI0 := u_dHI0 u;
                  Yield.y_a_HI := u_a_HI u; Yield.y_b_HI := u_b_HI u; Yield.y_exc := u_exc u; Yield.y_CCmin := u_CCmin u;
                  Yield.y_YldWC := u_YldWC u |};
       cf_s := {| Yield.s_Zmin := u_Zmin u; Yield.s_Aer := u_Aer u;
                  Yield.s_pu0 := u_pu1 u; Yield.s_pu1 := u_pu2 u; Yield.s_pu2 := u_pu3 u; Yield.s_pu3 := u_pu4 u;
                  Yield.s_pl0 := u_pl1 u; Yield.s_pl1 := u_pl2 u; Yield.s_pl2 := u_pl3 u; Yield.s_pl3 := u_pl4 u;
                  Yield.s_ETadj := u_ETadj u; Yield.s_beta := u_beta u; Yield.s_fs0 := u_fw1 u; Yield.s_fs1 := u_fw2 u;
                  Yield.s_fs2 := u_fw3 u; Yield.s_PolHeat := u_PolHeatStress u; Yield.s_PolCold := u_PolColdStress u;
                  Yield.s_Tmax_lo := u_Tmax_lo u; Yield.s_Tmax_up := u_Tmax_up u; Yield.s_Tmin_lo := u_Tmin_lo u;
                  Yield.s_Tmin_up := u_Tmin_up u; Yield.s_fshape_b := u_fshape_b u |};
       cf_tr := {| Transpiration.k_MaxCanopyCD := gz Calendar.g_maxcanopycd #(Calendar.r_maxcanopy d);
                   Transpiration.k_Kcb := u_Kcb u; Transpiration.k_fage := u_fage u; Transpiration.k_a_Tr := u_a_Tr u;
                   Transpiration.k_TrColdStress := u_TrColdStress u; Transpiration.k_GDD_up := u_GDD_up u;
                   Transpiration.k_GDD_lo := u_GDD_lo u; Transpiration.k_LagAer := u_LagAer u; Transpiration.k_Zmin := u_Zmin u;
                   Transpiration.k_Aer := u_Aer u;
                   Transpiration.k_pu0 := u_pu1 u; Transpiration.k_pu1 := u_pu2 u; Transpiration.k_pu2 := u_pu3 u;
                   Transpiration.k_pu3 := u_pu4 u; Transpiration.k_pl0 := u_pl1 u; Transpiration.k_pl1 := u_pl2 u;
                   Transpiration.k_pl2 := u_pl3 u; Transpiration.k_pl3 := u_pl4 u; Transpiration.k_ETadj := u_ETadj u;
                   Transpiration.k_beta := u_beta u; Transpiration.k_fs0 := u_fw1 u; Transpiration.k_fs1 := u_fw2 u;
                   Transpiration.k_fs2 := u_fw3 u; Transpiration.k_SxTop := CropInit.o_SxTop o; Transpiration.k_SxBot := CropInit.o_SxBot o |};
       cf_c10 := #(Calendar.r_canopy10pct d); cf_maxcan := #(Calendar.r_maxcanopy d) |}.

  (* replace what reset_initial_conditions recomputes at the start of a season *)
  Definition with_fco2 (o : CropInit.CropOut (F:=F)) (f : F) : CropInit.CropOut (F:=F) :=
    {| CropInit.o_CC0 := CropInit.o_CC0 o; CropInit.o_SxTop := CropInit.o_SxTop o; CropInit.o_SxBot := CropInit.o_SxBot o;
       CropInit.o_cal := CropInit.o_cal o; CropInit.o_gdd := CropInit.o_gdd o; CropInit.o_YldFormCD := CropInit.o_YldFormCD o;
       CropInit.o_HIGC := CropInit.o_HIGC o; CropInit.o_tLinSwitch := CropInit.o_tLinSwitch o;
       CropInit.o_dHILinear := CropInit.o_dHILinear o; CropInit.o_fCO2 := f |}.

  (* the thermal calendar, HIGC and the linear switch as reset_initial_conditions recomputes them from the degree days [gdd] of
     the weather from the season's planting date on; None where that recomputation raises (the run stops there) *)
  Definition reseason_gdd (u : CropU) (o : CropInit.CropOut (F:=F)) (gdd : list F) : option (CropInit.CropOut (F:=F)) :=
    match CropInit.crop_init (crop_in u true) gdd #1 #1 with
    | CropInit.IOk o' =>
      Some {| CropInit.o_CC0 := CropInit.o_CC0 o; CropInit.o_SxTop := CropInit.o_SxTop o; CropInit.o_SxBot := CropInit.o_SxBot o;
              CropInit.o_cal := CropInit.o_cal o; CropInit.o_gdd := CropInit.o_gdd o'; CropInit.o_YldFormCD := CropInit.o_YldFormCD o';
              CropInit.o_HIGC := CropInit.o_HIGC o'; CropInit.o_tLinSwitch := CropInit.o_tLinSwitch o';
              CropInit.o_dHILinear := CropInit.o_dHILinear o'; CropInit.o_fCO2 := CropInit.o_fCO2 o |}
    | CropInit.IErr _ => None
    end.

  (* ================================================================================================================= *)
  (* AquaCropModel._initialize                                                                                          *)
  (* ================================================================================================================= *)
  Definition day_of (d : Z * Z * Z) : Z := let '(y, m, dd) := d in Calendar.days_from_civil y m dd.
  Definition year_of_day (n : Z) : Z := let '(y, _, _) := Calendar.civil_from_days n in y.

  (* `typestr == "Prop" and datapoints[-1] == "FC"` *)
  Definition fc_reset_of (w : IwcU) : bool :=
    match w_type w, last (w_value w) (SoilBuild.VTok SoilBuild.POther) with
    | SoilBuild.TProp, SoilBuild.VTok SoilBuild.PFC => true
    | _, _ => false
    end.

  Definition to_epoch (obs : list (Z * F)) : list (Z * F) := map (fun p => ((fst p - epoch)%Z, snd p)) obs.

  (* the weather records of the run: _weather[t] and z_gw[t] (0 without a water table) *)
  Fixpoint weather_of (wt : bool) (w : list (Inputs.WRow F)) (z : list F) : list (W F) :=
    match w with
    | [] => []
    | r :: rest =>
      {| w_rain := Inputs.w_prec r; w_tmax := Inputs.w_tmax r; w_tmin := Inputs.w_tmin r; w_et0 := Inputs.w_et0 r;
         w_gw := if wt then hd #0 z else #0 |} :: weather_of wt rest (tl z)
    end.

  (* the default harvest date needs MaturityCD: `int(crop.MaturityCD + 30)`, handed to Calendar.default_harvest as m with m + 30 *)
  Definition maturity_arg (m : F) : Z := let t := ntrunc num_ops (m + #30) in (t - 30)%Z.

  (* the planting date compute_crop_calendar uses while the season list does not exist yet (read_model_parameters, no harvest
     date): the planting day in the start year, or in the next year when that lies before the start *)
  Definition first_pl_date (st : Z * Z * Z) (pl : Z * Z) : ires Z :=
    let '(sy, _, _) := st in
    do p <- of_cal (Calendar.parse sy (fst pl) (snd pl));
    if (p <? day_of st)%Z then of_cal (Calendar.parse (sy + 1) (fst pl) (snd pl)) else IOk p.

  (* the concentration and the crop of season k as reset_initial_conditions leaves them (computed once per season, with the
     flag "the reset does not raise"); season 0 is reset only when the run starts before the first planting date ([k0] = -1).
     [s]: day number of the start date, [p]: planting step of the season *)
  Definition season_of (u : CropU) (s k0 : Z) (wsel : list (Inputs.WRow F)) (co2 : Inputs.CO2 F) (conc0 : F)
             (o0 : CropInit.CropOut (F:=F)) (k p : Z) : F * CropInit.CropOut (F:=F) * bool :=
    if (k =? 0)%Z && (k0 =? 0)%Z then (conc0, o0, true)
    else
      match Inputs.co2_season co2 (year_of_day (s + p)) with
      | Inputs.Err _ => (conc0, o0, false)              (* co2_data_processed.loc[year]: KeyError *)
      | Inputs.Ok c =>
        let o1 := with_fco2 o0 (fco2 c (Inputs.co2_ref co2) (u_bsted u) (u_bface u) (u_fsink u) (u_WP u)) in
        if (u_CalendarType u =? 2)%Z then
          match gdd_from u (s + p) wsel with
          | Some gdd => match reseason_gdd u o1 gdd with Some o2 => (c, o2, true) | None => (c, o1, false) end
          | None => (c, o1, false)
          end
        else (c, o1, true)
      end.

  Definition seasons_of (u : CropU) (s k0 : Z) (l : list (Z * Z)) (wsel : list (Inputs.WRow F)) (co2 : Inputs.CO2 F) (conc0 : F)
             (o0 : CropInit.CropOut (F:=F)) : list (F * CropInit.CropOut (F:=F) * bool) :=
    map (fun kp => season_of u s k0 wsel co2 conc0 o0 (fst kp) (snd kp)) (combine (Calendar.zrange 0 (Z.of_nat (length l))) (map fst l)).

  (* before the first season (k < 0): the concentration and the crop as initialisation leaves them *)
  Definition look3 (seasons : list (F * CropInit.CropOut (F:=F) * bool)) (conc0 : F) (o0 : CropInit.CropOut (F:=F)) (k : Z)
    : F * CropInit.CropOut (F:=F) * bool :=
    if (k <? 0)%Z then (conc0, o0, true) else nth (Z.to_nat k) seasons (conc0, o0, true).

  Definition par_of (cfg : Config) (s e : Z) (soil : DSoil F) (irr : DIrr F) (seasons : list (F * CropInit.CropOut (F:=F) * bool))
             (conc0 : F) (o0 : CropInit.CropOut (F:=F)) : DPar F :=
    let u := cf_crop cfg in
    {| p_soil := soil; p_irr := irr; p_fallow_irr := fallow_irr s e;
       p_field := field_of 0 (cf_field cfg); p_fallow_field := field_of 1 (cf_fallow_field cfg);
       p_crop := fun k => dcrop_of u (snd (fst (look3 seasons conc0 o0 k))) k; p_fallow_crop := dcrop_of u o0 (-1);
       p_water_table := if gw_present (cf_gw cfg) then 1%Z else 0%Z; p_co2c := fun k => fst (fst (look3 seasons conc0 o0 k));
       p_co2r := Inputs.co2_ref (cf_co2 cfg); p_evap_steps := 20%Z; p_sim_off := cf_off_season cfg |}.

  Definition crops_of (u : CropU) (seasons : list (F * CropInit.CropOut (F:=F) * bool)) (conc0 : F) (o0 : CropInit.CropOut (F:=F))
    : Z -> CropFull F := fun k => cropfull_of u (snd (fst (look3 seasons conc0 o0 k))).

  Definition initialise (cfg : Config) : ires Init :=
    let u := cf_crop cfg in
    let st := cf_start cfg in let en := cf_end cfg in
    (* read_clock_parameters *)
    do n <- of_cal (Calendar.read_clock st en);
    let s := day_of st in let e := day_of en in
    let sy := year_of_day s in let ey := year_of_day e in
    (* read_weather_inputs (the matrix itself is built at the very end of _initialize; its content is fixed here) *)
    do tab <- of_in (Inputs.clip_table s e (cf_weather cfg));
    (* read_model_parameters: soil.fill_nan, the deepening loop *)
    let so := cf_soil cfg in let iw := cf_iwc cfg in
    do Ls <- of_opt ESoil (SoilBuild.resolve_layers (so_layers so));
    do _ <- (match so_dz so, Ls with [], _ => IErr_ ESoil | _, [] => IErr_ ESoil | _, _ => IOk tt end);
    do rz <- of_opt ESoil (SoilBuild.build_deepened deepen_fuel (u_Zmax u) (so_dz so) Ls);
    let '(rows, zsoil) := rz in
    (* crop calendar of the first call (only when no harvest date is given) and the season list *)
    do _ <- (if (u_SwitchGDD u =? 1)%Z then IErr_ EUnsupported
             else if (u_CalendarType u =? 1)%Z || (u_CalendarType u =? 2)%Z then IOk tt else IErr_ EUnsupported);
    do wsel <- of_in (Inputs.select_weather tab);
    do mat <- (if (u_CalendarType u =? 1)%Z then IOk (maturity_arg (u_MaturityCD u))
               else match u_harvest u with
                    | Some _ => IOk 0%Z
                    | None =>
                      do p0 <- first_pl_date st (u_planting u);
                      do gdd <- of_opt EGddMethod (gdd_from u p0 wsel);
                      do g <- of_cal (Calendar.gdd_calendar (CropInit.with_cc0 (cal_of u false) (CropInit.cc0_of (u_PlantPop u) (u_SeedSize u))) gdd);
                      IOk (Calendar.g_maturitycd g)        (* np.int64 + 30 *)
                    end);
    do l <- of_cal (Calendar.season_list st en (u_planting u) (u_harvest u) mat);
    let k0 := Calendar.initial_season_counter l in
    let clock := {| n_steps := n; plant := map fst l; harv := map snd l; off_season := cf_off_season cfg |} in
    (* read_irrigation_management, read_field_management, read_groundwater_table *)
    do irr <- irr_of (cf_irr cfg) s e;
    let gw := cf_gw cfg in
    do zser <- of_in (Inputs.gw_series (gw_present gw) (gw_method gw) (s - epoch)%Z (e - epoch)%Z (to_epoch (gw_obs gw)));
    do zgw <- of_opt EGwNaN (Inputs.all_some zser);
    (* compute_variables: capillary-rise parameters, REW, curve number, crop calendar, harvest-index searches, CO2 *)
    do prof <- profile_of (gw_present gw) rows;
    do soil <- soil_of so prof;
    let second := match u_harvest u with None => true | Some _ => false end in
    let pl0 := (s + match l with (p, _) :: _ => p | [] => 0%Z end)%Z in
    do gdd0 <- (if (u_CalendarType u =? 2)%Z then of_opt EGddMethod (gdd_from u pl0 wsel) else IOk []);
    (* the searches come before the CO2 table in compute_variables; crop_init computes fCO2 last, from the concentration *)
    let co2r := Inputs.co2_init sy ey (cf_co2 cfg) in
    let cref := Inputs.co2_ref (cf_co2 cfg) in
    let conc0 := match co2r with Inputs.Ok c => Inputs.co2_current c | Inputs.Err _ => cref end in
    do o0 <- of_crop (CropInit.crop_init (crop_in u second) gdd0 conc0 cref);
    do co2 <- of_in co2r;
    let seasons := seasons_of u s k0 l wsel co2 conc0 o0 in
    let par := par_of cfg s e soil irr seasons conc0 o0 in
    let crops := crops_of u seasons conc0 o0 in
    (* read_model_initial_conditions: the initial water content, then the state object *)
    do th0 <- of_opt EIwc (SoilBuild.initial_wc (w_type iw) (w_method iw) rows zsoil (w_depth_layer iw) (w_value iw));
    do s0 <- of_opt EState (InitState.init_state par k0 (if gw_present gw then hd_error zgw else None) (fc_reset_of iw) th0);
    IOk {| i_par := par; i_crops := crops; i_clock := clock; i_weather := weather_of (gw_present gw) wsel zgw; i_state := s0;
           i_reset_ok := fun k => snd (look3 seasons conc0 o0 k) |}.

  (* ================================================================================================================= *)
  (* the whole simulation from the user's configuration: AquaCropModel(...).run_model(till_termination=True)            *)
  (* ================================================================================================================= *)
  Inductive RunRes :=
  | RInitErr (e : IErr)                  (* _initialize raises *)
  | RRaise (e : Clock.Err)               (* the clock raises (empty season list) *)
  | RResetRaise (k : Z) (m : option (CModel (F:=F)))
                                         (* reset_initial_conditions raises at the start of season k; [m]: the model's run, of which the
                                            rows of the seasons before k are what the implementation wrote (when the run got that far
                                            without another exception) *)
  | RRun (r : option (gres (CModel (F:=F)))).   (* the run: None = fuel exhausted *)

  (* the first season whose reset raises *)
  Definition first_bad_season (i : Init) : option Z :=
    find (fun k => negb (i_reset_ok i k)) (Calendar.zrange 0 (n_seasons (i_clock i))).

  Definition run_config (cfg : Config) (fuel : nat) : RunRes :=
    match initialise cfg with
    | IErr_ e => RInitErr e
    | IOk i =>
      match init_c (i_clock i) (i_state i) with
      | Raise e => RRaise e
      | Ok m0 =>
        let r := run_till_c (i_par i) (i_crops i) (i_clock i) (i_weather i) fuel m0 in
        match first_bad_season i with
        | None => RRun r
        | Some kb =>
          (* the season counter reaches kb exactly when the step counter reaches the planting step of season kb *)
          let entered (t : Z) := match nthZ (plant (i_clock i)) kb with Some p => (p <=? t)%Z | None => false end in
          match r with
          | Some (GOk m) => if (kb <=? season (st m))%Z then RResetRaise kb (Some m) else RRun r
          | Some (Stopped t) => if entered t then RResetRaise kb None else RRun r
          | _ => RRun r
          end
        end
      end
    end.
End M.
Arguments Config F : clear implicits.
Arguments Init F : clear implicits.
Arguments CropU F : clear implicits.
Arguments SoilU F : clear implicits.
Arguments IwcU F : clear implicits.
Arguments IrrU F : clear implicits.
Arguments GwU F : clear implicits.
