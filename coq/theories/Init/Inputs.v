(* Inputs.v — how the user's inputs are bound to the simulation window (initialisation glue).

   Sources (all in /repo/aquacrop):
     (a) weather      initialize/read_weather_inputs.py, core.py (_initialize: the write-back
                      [self.weather_df = clipped] and the matrix [self.weather_df[[five names]].values]),
                      core.py (_weather_data_current_timestep: row [time_step_counter]);
     (b) irrigation   initialize/read_irrigation_management.py, entities/irrigationManagement.py;
     (c) groundwater  initialize/read_groundwater_table.py, entities/groundWater.py
                      (Series.loc enlargement, sort_index, interpolate(method="time") = np.interp over the
                      index in microseconds, bfill, reindex -- the code after commit 400240e);
     (d) field mngt   initialize/read_field_managment.py; CO2: entities/co2.py, the CO2 part of
                      initialize/compute_variables.py and of timestep/reset_initial_conditions.py.

   Dates are day numbers (Z); [span s e] is ClockStruct.time_span.  pandas objects are plain lists:
   a DataFrame is a list of column names, an (ignored) index and rows of cells; a float Series that may
   hold NaN is a [list (option F)] ([None] = NaN).  Definitions only; proofs in proofs/InputsP.v. *)
From AC Require Import Num Params.
Local Open Scope Z_scope.

(* ---- errors: which Python exception, raised where -------------------------------------------- *)
Inductive InErr :=
| EMissingCol    (* ValueError, AquaCropModel.weather_df setter: one of the five columns is missing          *)
| EDupCol        (* a required column name occurs twice: ValueError (truth value of a Series) for Date;       *)
                 (* for the other four the code builds a wider matrix -- outside the model, reported as error *)
| EEmpty         (* IndexError: weather_df.Date.iloc[0] on a table without rows                                *)
| EStart         (* ValueError "The first date of the climate data cannot be longer than the start date ..."  *)
| EEnd           (* ValueError "The model end date cannot be longer than the last date of climate data."      *)
| ECell          (* a cell of the wrong kind (TypeError when a Date cell is compared with a Timestamp)        *)
| EDupLabel      (* ValueError "cannot reindex on an axis with duplicate labels" (irrigation schedule)        *)
| EUnbound       (* UnboundLocalError: z_gw never assigned (no observation, or unknown method with >1 obs)    *)
| ENoData        (* ValueError: np.interp on an empty CO2 table                                               *)
| EKey.          (* KeyError: co2_data_processed.loc[year] for a year outside the window                      *)

Inductive res (A : Type) := Ok (a : A) | Err (e : InErr).
Arguments Ok {A}. Arguments Err {A}.

Definition bindr {A B} (x : res A) (f : A -> res B) : res B :=
  match x with Ok a => f a | Err e => Err e end.

Fixpoint mapr {A B} (f : A -> res B) (l : list A) : res (list B) :=
  match l with
  | [] => Ok []
  | a :: r => bindr (f a) (fun b => bindr (mapr f r) (fun bs => Ok (b :: bs)))
  end.

(* ClockStruct.time_span = pd.date_range(start, end, freq="D") *)
Definition span (s e : Z) : list Z :=
  map (fun i => s + Z.of_nat i) (seq 0 (Z.to_nat (e - s + 1))).

(* ---- column names ---------------------------------------------------------------------------- *)
Inductive Col := CDate | CMinTemp | CMaxTemp | CPrecip | CRefET | COther (k : Z).

Definition col_eqb (a b : Col) : bool :=
  match a, b with
  | CDate, CDate | CMinTemp, CMinTemp | CMaxTemp, CMaxTemp | CPrecip, CPrecip | CRefET, CRefET => true
  | COther i, COther j => Z.eqb i j
  | _, _ => false
  end.

Section M.
  Context {F : Type} {N : NumOps F}.
  Local Open Scope num_scope.

  (* ================================================================================================ *)
  (* (a) weather                                                                                      *)
  (* ================================================================================================ *)
  Inductive Cell := VDate (d : Z) | VNum (x : F).

  (* a DataFrame: column labels and rows; every row carries its index label (arbitrary, never read) *)
  Record Table := { t_cols : list Col; t_rows : list (Z * list Cell) }.

  (* one row of model._weather: columns 0..3 read by run_single_timestep, column 4 by the GDD reset *)
  Record WRow := { w_tmin : F; w_tmax : F; w_prec : F; w_et0 : F; w_date : Z }.

  (* position(s) of a label among the columns *)
  Fixpoint col_find (c : Col) (cols : list Col) (i : nat) : list nat :=
    match cols with
    | [] => []
    | c' :: r => if col_eqb c c' then i :: col_find c r (S i) else col_find c r (S i)
    end.

  (* df[name] for a label that must occur exactly once *)
  Definition col_pos (c : Col) (cols : list Col) : res nat :=
    match col_find c cols 0 with
    | [] => Err EMissingCol
    | [i] => Ok i
    | _ => Err EDupCol
    end.

  Definition cell_date (c : option Cell) : res Z :=
    match c with Some (VDate d) => Ok d | _ => Err ECell end.
  Definition cell_num (c : option Cell) : res F :=
    match c with Some (VNum x) => Ok x | _ => Err ECell end.

  Definition row_date (jd : nat) (r : Z * list Cell) : res Z := cell_date (nth_error (snd r) jd).

  Definition in_window (s e d : Z) : bool := (s <=? d)%Z && (d <=? e)%Z.

  (* weather_df[weather_df.Date >= start][... <= end]: rows kept in table order, with their index labels *)
  Fixpoint clip_rows (s e : Z) (jd : nat) (rows : list (Z * list Cell)) : res (list (Z * list Cell)) :=
    match rows with
    | [] => Ok []
    | r :: rs =>
      bindr (row_date jd r) (fun d =>
      bindr (clip_rows s e jd rs) (fun rs' =>
        Ok (if in_window s e d then r :: rs' else rs')))
    end.

  (* read_weather_inputs: the table written back to model.weather_df *)
  Definition clip_table (s e : Z) (t : Table) : res Table :=
    (* the setter has checked that the five names are present *)
    bindr (col_pos CMinTemp (t_cols t)) (fun _ =>
    bindr (col_pos CMaxTemp (t_cols t)) (fun _ =>
    bindr (col_pos CPrecip (t_cols t)) (fun _ =>
    bindr (col_pos CRefET (t_cols t)) (fun _ =>
    bindr (col_pos CDate (t_cols t)) (fun jd =>
    match t_rows t with
    | [] => Err EEmpty
    | r0 :: _ =>
      bindr (row_date jd r0) (fun d0 =>
      if (s <? d0)%Z then Err EStart else
      bindr (row_date jd (last (t_rows t) r0)) (fun dl =>
      if (dl <? e)%Z then Err EEnd else
      bindr (clip_rows s e jd (t_rows t)) (fun rs =>
      Ok {| t_cols := t_cols t; t_rows := rs |})))
    end))))).

  (* weather_df[["MinTemp","MaxTemp","Precipitation","ReferenceET","Date"]].values *)
  Definition select_row (jn jx jp je jd : nat) (row : Z * list Cell) : res WRow :=
    let r := snd row in
    bindr (cell_num (nth_error r jn)) (fun a =>
    bindr (cell_num (nth_error r jx)) (fun b =>
    bindr (cell_num (nth_error r jp)) (fun c =>
    bindr (cell_num (nth_error r je)) (fun d =>
    bindr (cell_date (nth_error r jd)) (fun dt =>
    Ok {| w_tmin := a; w_tmax := b; w_prec := c; w_et0 := d; w_date := dt |}))))).

  Definition select_weather (t : Table) : res (list WRow) :=
    bindr (col_pos CMinTemp (t_cols t)) (fun jn =>
    bindr (col_pos CMaxTemp (t_cols t)) (fun jx =>
    bindr (col_pos CPrecip (t_cols t)) (fun jp =>
    bindr (col_pos CRefET (t_cols t)) (fun je =>
    bindr (col_pos CDate (t_cols t)) (fun jd =>
    mapr (select_row jn jx jp je jd) (t_rows t)))))).

  (* model._weather after _initialize() *)
  Definition bind_weather (s e : Z) (t : Table) : res (list WRow) :=
    bindr (clip_table s e t) select_weather.

  (* _weather[time_step_counter]: IndexError when the matrix has fewer rows than steps *)
  Definition weather_at (w : list WRow) (k : nat) : option WRow := nth_error w k.

  (* the matrix seen as a table again (five columns in matrix order, default index) *)
  Definition wrow_cells (w : WRow) : list Cell :=
    [VNum (w_tmin w); VNum (w_tmax w); VNum (w_prec w); VNum (w_et0 w); VDate (w_date w)].
  Definition as_table (w : list WRow) : Table :=
    {| t_cols := [CMinTemp; CMaxTemp; CPrecip; CRefET; CDate];
       t_rows := combine (map Z.of_nat (seq 0 (length w))) (map wrow_cells w) |}.

  (* ================================================================================================ *)
  (* (b) irrigation schedule                                                                           *)
  (* ================================================================================================ *)
  Fixpoint has_dup (l : list Z) : bool :=
    match l with
    | [] => false
    | d :: r => existsb (Z.eqb d) r || has_dup r
    end.

  Definition lookup_date (d : Z) (sched : list (Z * F)) : option F :=
    match find (fun p => Z.eqb (fst p) d) sched with Some p => Some (snd p) | None => None end.

  (* df.index = DatetimeIndex(df.Date); df.reindex(time_span, fill_value=0).drop("Date").values.flatten():
     reindex refuses ANY duplicate label, also one outside the window *)
  Definition schedule_reindex (s e : Z) (sched : list (Z * F)) : res (list F) :=
    if has_dup (map fst sched) then Err EDupLabel
    else Ok (map (fun d => match lookup_date d sched with Some x => x | None => #0 end) (span s e)).

  (* read_irrigation_management: IrrMngtStruct.Schedule; method 3 = predefined schedule *)
  Definition irr_schedule (method : Z) (s e : Z) (sched : list (Z * F)) : res (list F) :=
    if (method =? 3)%Z then schedule_reindex s e sched
    else Ok (map (fun _ => #0) (span s e)).

  (* IrrMngtStruct.SMT = np.array(IrrMngt.SMT, dtype=float) *)
  Definition irr_smt (smt : list F) : list F := smt.

  (* ================================================================================================ *)
  (* np.interp on integer abscissae (positions / years), xp strictly increasing                       *)
  (* ================================================================================================ *)
  (* numpy/_core/src/multiarray/compiled_base.c: slope = (fp[j+1]-fp[j])/(xp[j+1]-xp[j]);
     res = slope*(x - xp[j]) + fp[j];  x == xp[j] returns fp[j]; left/right = fp[0]/fp[-1] *)
  Definition lin_interp (x0 : Z) (y0 : F) (x1 : Z) (y1 : F) (x : Z) : F :=
    ((y1 - y0) / (#x1 - #x0)) * (#x - #x0) + y0.

  Fixpoint interp_from (x0 : Z) (y0 : F) (rest : list (Z * F)) (x : Z) : F :=
    match rest with
    | [] => y0
    | (x1, y1) :: r =>
      if (x <? x1)%Z then (if (x =? x0)%Z then y0 else lin_interp x0 y0 x1 y1 x)
      else interp_from x1 y1 r x
    end.

  Definition np_interp (pts : list (Z * F)) (x : Z) : option F :=
    match pts with
    | [] => None
    | (x0, y0) :: r => Some (if (x <? x0)%Z then y0 else interp_from x0 y0 r x)
    end.

  (* ================================================================================================ *)
  (* (c) groundwater series                                                                            *)
  (* ================================================================================================ *)
  Inductive GwMethod := GwConstant | GwVariable | GwOtherMethod.

  (* a float Series with a date index: (label, value), None = NaN *)
  Definition Series := list (Z * option F).

  Definition nan_series (s e : Z) : Series := map (fun d => (d, None)) (span s e).

  (* "Constant": rows in the order given;  z[index >= date] = depth;  row 0 also z[index <= date] = depth *)
  Definition set_from (d : Z) (v : F) (z : Series) : Series :=
    map (fun p => if (d <=? fst p)%Z then (fst p, Some v) else p) z.
  Definition set_upto (d : Z) (v : F) (z : Series) : Series :=
    map (fun p => if (fst p <=? d)%Z then (fst p, Some v) else p) z.

  Fixpoint gw_const_rows (first : bool) (obs : list (Z * F)) (z : Series) : Series :=
    match obs with
    | [] => z
    | (d, v) :: r =>
      let z1 := set_from d v z in
      let z2 := if first then set_upto d v z1 else z1 in
      gw_const_rows false r z2
    end.

  (* "Variable" (as repaired by commit 400240e):
       for every row, in the order given:  z.loc[date] = depth    (overwrites a label already present --
                                            a simulation day or an earlier observation of the same date --
                                            otherwise the series is enlarged by that label)
       z.sort_index().interpolate(method="time").bfill().reindex(time_span)
     After sort_index the non-NaN entries are the observations, one per date (the LAST write of a date
     wins), in date order; interpolate(method="time") is np.interp over the index viewed as int64
     (datetime64[us] under pandas 3: microseconds since 1970-01-01, i.e. day * 86400e6, exact in float64),
     applied to the NaN entries only; NaN before the first observation are left by interpolate and filled
     with the first observed depth by bfill (= np.interp's left value); after the last observation np.interp
     gives the last depth; reindex keeps the simulation days. *)
  Definition time_unit : Z := 86400000000.

  (* the observations as sort_index leaves them: sorted by date, one per date, last write wins *)
  Fixpoint insert_obs (d : Z) (v : F) (pts : list (Z * F)) : list (Z * F) :=
    match pts with
    | [] => [(d, v)]
    | (d', v') :: r =>
      if (d <? d')%Z then (d, v) :: pts
      else if (d =? d')%Z then (d, v) :: r
      else (d', v') :: insert_obs d v r
    end.
  Definition obs_sorted (obs : list (Z * F)) : list (Z * F) :=
    fold_left (fun acc p => insert_obs (fst p) (snd p) acc) obs [].

  Definition to_time (pts : list (Z * F)) : list (Z * F) := map (fun p => ((fst p * time_unit)%Z, snd p)) pts.

  (* the depth of simulation day d *)
  Definition gw_time_interp (pts : list (Z * F)) (d : Z) : option F :=
    match lookup_date d pts with
    | Some v => Some v                                   (* an observed day keeps its value *)
    | None => np_interp (to_time pts) (d * time_unit)%Z  (* a NaN day: np.interp over microseconds *)
    end.

  (* read_groundwater_table: ParamStruct.z_gw, one entry per simulation day *)
  Definition gw_series (present : bool) (m : GwMethod) (s e : Z) (obs : list (Z * F))
    : res (list (option F)) :=
    if negb present then Ok (map (fun _ => Some (#999 * #1)) (span s e))
    else match obs with
    | [] => Err EUnbound
    | [(_, v)] => Ok (map (fun _ => Some (v * #1)) (span s e))
    | _ =>
      match m with
      | GwConstant => Ok (map snd (gw_const_rows true obs (nan_series s e)))
      | GwVariable => Ok (map (gw_time_interp (obs_sorted obs)) (span s e))
      | GwOtherMethod => Err EUnbound
      end
    end.

  (* z_gw[time_step_counter] on day k (None = NaN; no branch of the present code produces one) *)
  Definition gw_at (z : list (option F)) (k : nat) : option F :=
    match nth_error z k with Some (Some v) => Some v | _ => None end.

  (* the series as the daily loop can use it: an error as soon as one simulation day is NaN *)
  Fixpoint all_some (l : list (option F)) : option (list F) :=
    match l with
    | [] => Some []
    | Some v :: r => match all_some r with Some vs => Some (v :: vs) | None => None end
    | None :: _ => None
    end.
  Definition gw_daily (present : bool) (m : GwMethod) (s e : Z) (obs : list (Z * F)) : option (list F) :=
    match gw_series present m s e obs with
    | Ok z => all_some (firstn (Z.to_nat (e - s + 1)) z)
    | Err _ => None
    end.

  (* ================================================================================================ *)
  (* (d) field management and CO2                                                                      *)
  (* ================================================================================================ *)
  (* read_field_management copies every attribute the struct knows from the user's object *)
  Record FieldM := { fm_mulches : bool; fm_bunds : bool; fm_cn_adj : bool; fm_sr_inhb : bool;
                     fm_mulch_pct : F; fm_f_mulch : F; fm_z_bund : F; fm_bund_water : F; fm_cn_adj_pct : F }.
  Definition read_field_management (fm fallow : FieldM) : FieldM * FieldM := (fm, fallow).

  (* the user's CO2 object: the fields that initialisation reads and writes back *)
  Record CO2 := { co2_ref : F; co2_current : F; co2_constant : bool; co2_data : list (Z * F);
                  co2_processed : list (Z * F) }.

  Definition years (sy ey : Z) : list Z := span sy ey.   (* np.arange(start_year, end_year + 1) *)

  (* co2_data_processed = Series(np.interp(sim_years, data.year, data.ppm), index=sim_years) *)
  Definition co2_process (sy ey : Z) (data : list (Z * F)) : res (list (Z * F)) :=
    mapr (fun y => match np_interp data y with Some v => Ok (y, v) | None => Err ENoData end) (years sy ey).

  Definition first_conc (proc : list (Z * F)) : res F :=
    match proc with (_, v) :: _ => Ok v | [] => Err EKey end.

  (* compute_variables: the concentration used for the first season, written back to the CO2 object *)
  Definition co2_init (sy ey : Z) (c : CO2) : res CO2 :=
    bindr (co2_process sy ey (co2_data c)) (fun proc =>
    bindr (first_conc proc) (fun c0 =>
    let conc := if co2_constant c then (if #0 <? co2_current c then co2_current c else c0) else c0 in
    Ok {| co2_ref := co2_ref c; co2_current := conc; co2_constant := co2_constant c;
          co2_data := co2_data c; co2_processed := proc |})).

  (* reset_initial_conditions: the concentration of a later season starting in calendar year y *)
  Definition co2_season (c : CO2) (y : Z) : res F :=
    if co2_constant c then
      (if #0 <? co2_current c then Ok (co2_current c) else first_conc (co2_processed c))
    else match find (fun p => Z.eqb (fst p) y) (co2_processed c) with
         | Some p => Ok (snd p)
         | None => Err EKey
         end.
End M.

Arguments Cell F : clear implicits.
Arguments Table F : clear implicits.
Arguments WRow F : clear implicits.
Arguments Series F : clear implicits.
Arguments FieldM F : clear implicits.
Arguments CO2 F : clear implicits.
