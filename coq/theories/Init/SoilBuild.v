(* SoilBuild.v — construction of the soil profile and of the initial water content.
   Sources:  aquacrop/entities/soil.py            (Soil.create_df, add_layer, add_layer_from_texture,
                                                    calculate_soil_hydraulic_properties, fill_nan,
                                                    add_capillary_rise_params)
             aquacrop/initialize/read_model_parameters.py   (fill_nan + the profile-deepening loop)
             aquacrop/initialize/read_model_initial_conditions.py  (th_fc_Adj without water table,
                                                    Hydrology = groupby("Layer").mean(), initial water content)
             aquacrop/initialize/create_soil_profile.py     (DataFrame -> SoilProfile arrays)
   The pandas DataFrame is a [list Row]; a NaN "Layer"/property cell is [r_asg = None].
   pandas operations are plain list functions: [ffill] = carry the last assignment downward,
   [Series.map]/[.loc[mask]] = [map] with a per-row test, [groupby("Layer").mean()] = Kahan-compensated
   sum of the rows of the layer divided by their number (pandas' group_mean), [Series.sum()] = numpy's
   pairwise summation.  Definitions only; proofs are in proofs/SoilBuildR.v. *)
From AC Require Import Num Params.

Section M.
  Context {F : Type} {N : NumOps F}.
  Local Open Scope num_scope.

  (* arguments of Soil.add_layer(thickness, thWP, thFC, thS, Ksat, penetrability) *)
  Record LayerSpec := { ls_thick : F; ls_wp : F; ls_fc : F; ls_s : F; ls_ksat : F; ls_pen : F }.

  (* the cells add_layer writes into the rows of one layer *)
  Record Asg := { a_layer : Z; a_dry : F; a_wp : F; a_fc : F; a_s : F; a_ksat : F; a_pen : F; a_tau : F }.

  (* one DataFrame row: geometry columns (always defined) and the layer columns (NaN = None) *)
  Record Row := { r_dz : F; r_dzsum : F; r_zbot : F; r_ztop : F; r_zmid : F; r_asg : option Asg }.

  Definition set_asg (r : Row) (a : option Asg) : Row :=
    {| r_dz := r_dz r; r_dzsum := r_dzsum r; r_zbot := r_zbot r; r_ztop := r_ztop r; r_zmid := r_zmid r; r_asg := a |}.
  Definition set_dz (r : Row) (d : F) : Row :=
    {| r_dz := d; r_dzsum := r_dzsum r; r_zbot := r_zbot r; r_ztop := r_ztop r; r_zmid := r_zmid r; r_asg := r_asg r |}.
  Definition set_dz_dzsum (r : Row) (d s : F) : Row :=
    {| r_dz := d; r_dzsum := s; r_zbot := r_zbot r; r_ztop := r_ztop r; r_zmid := r_zmid r; r_asg := r_asg r |}.

  (* ---------------------------------------------------------------------------------------------
     Soil.create_df:  dzsum = np.cumsum(dz).round(2); zBot = dzsum; z_top = zBot - dz; zMid = (z_top + zBot)/2 *)
  Fixpoint create_rows (acc : F) (dz : list F) : list Row :=
    match dz with
    | [] => []
    | d :: rest =>
      let acc' := acc + d in
      let s := nround_np num_ops 2 acc' in
      {| r_dz := d; r_dzsum := s; r_zbot := s; r_ztop := s - d; r_zmid := ((s - d) + s) / #2; r_asg := None |}
        :: create_rows acc' rest
    end.
  Definition create_df (dz : list F) : list Row := create_rows #0 dz.

  (* ---------------------------------------------------------------------------------------------
     Soil.add_layer *)
  (* tau = round(0.0866 * Ksat**0.35, 2) (Python float -> CPython round), clamped to [0,1] *)
  Definition tau_of (ksat : F) : F :=
    let t := nround_py num_ops 2 (866#/10000 * npow num_ops ksat (35#/100)) in
    if #1 <? t then #1 else if t <? #0 then #0 else t.

  (* len(profile.dropna().Layer.unique()): layers are handed out as 1,2,3,... to non-empty row sets and are
     never overwritten, so the number of distinct assigned layers is the largest assigned number *)
  Definition max_layer (rows : list Row) : Z :=
    fold_left (fun m r => match r_asg r with Some a => Z.max m (a_layer a) | None => m end) rows 0%Z.

  (* profile[profile.Layer == L].dzsum.values[-1] *)
  Definition last_dzsum (L : Z) (rows : list Row) : option F :=
    fold_left (fun acc r => match r_asg r with
                            | Some a => if (a_layer a =? L)%Z then Some (r_dzsum r) else acc
                            | None => acc end) rows None.

  Definition is_unassigned (r : Row) : bool := match r_asg r with None => true | Some _ => false end.

  Definition mk_asg (new : Z) (L : LayerSpec) : Asg :=
    {| a_layer := new; a_dry := ls_wp L / #2; a_wp := ls_wp L; a_fc := ls_fc L; a_s := ls_s L;
       a_ksat := ls_ksat L; a_pen := ls_pen L; a_tau := tau_of (ls_ksat L) |}.

  Definition add_layer (rows : list Row) (L : LayerSpec) : option (list Row) :=
    let new := (max_layer rows + 1)%Z in
    let a := mk_asg new L in
    if ls_ksat L <? #0 then None     (* Ksat**0.35 is complex: round(complex, 2) raises TypeError *)
    else if (new =? 1)%Z then
      (* round(thickness, 2) >= round(profile.dzsum, 2): CPython round on the left, Series.round on the right *)
      let t := nround_py num_ops 2 (ls_thick L) in
      Some (map (fun r => if nround_np num_ops 2 (r_dzsum r) <=? t then set_asg r (Some a) else r) rows)
    else
      match last_dzsum (new - 1)%Z rows with
      | None => None
      | Some last =>
        (* round(thickness + last, 2) >= round(profile.dzsum, 2): the sum is a numpy float64 (numpy's rounding), Series.round on the right
           (since the repair of the unrounded comparison, which missed boundaries such as 0.1 + 0.35 < 0.45) *)
        let lim := nround_np num_ops 2 (ls_thick L + last) in
        Some (map (fun r => if (nround_np num_ops 2 (r_dzsum r) <=? lim) && is_unassigned r then set_asg r (Some a) else r) rows)
      end.

  Fixpoint add_layers (rows : list Row) (Ls : list LayerSpec) : option (list Row) :=
    match Ls with
    | [] => Some rows
    | L :: Ls' => match add_layer rows L with Some rows' => add_layers rows' Ls' | None => None end
    end.

  (* ---------------------------------------------------------------------------------------------
     Series.sum() = numpy pairwise summation of a contiguous double array *)
  Fixpoint zip_add (r a : list F) : list F :=
    match r, a with
    | x :: r', y :: a' => (x + y) :: zip_add r' a'
    | _, _ => r
    end.
  Fixpoint pw_loop (nb : nat) (r rest : list F) : list F * list F :=
    match nb with
    | O => (r, rest)
    | S k => pw_loop k (zip_add r (firstn 8 rest)) (skipn 8 rest)
    end.
  Definition pw_block (l : list F) : F :=      (* 8 <= n <= 128 *)
    let nb := Nat.div (length l) 8 in
    let '(r, rest) := pw_loop (Nat.pred nb) (firstn 8 l) (skipn 8 l) in
    match r with
    | [r0; r1; r2; r3; r4; r5; r6; r7] =>
      fold_left (fun a x => a + x) rest (((r0 + r1) + (r2 + r3)) + ((r4 + r5) + (r6 + r7)))
    | _ => #0
    end.
  Fixpoint pw_sum_fuel (fuel : nat) (l : list F) : F :=
    let n := length l in
    if Nat.ltb n 8 then fold_left (fun a x => a + x) l #0
    else if Nat.leb n 128 then pw_block l
    else match fuel with
         | O => #0
         | S f =>
           let n2 := Nat.div n 2 in
           let n2 := (n2 - Nat.modulo n2 8)%nat in
           pw_sum_fuel f (firstn n2 l) + pw_sum_fuel f (skipn n2 l)
         end.
  Definition pw_sum (l : list F) : F := pw_sum_fuel (length l) l.

  (* ---------------------------------------------------------------------------------------------
     Soil.fill_nan:  profile = profile.ffill(); dz = dz.round(2); dzsum = dz.cumsum().round(2);
                     zSoil = round(dz.sum(), 2); Layer.astype(int) (raises when a NaN is left).
     zBot, z_top and zMid are NOT recomputed. *)
  Fixpoint ffill_rows (last : option Asg) (rows : list Row) : list Row :=
    match rows with
    | [] => []
    | r :: rest =>
      let a := match r_asg r with Some a => Some a | None => last end in
      set_asg r a :: ffill_rows a rest
    end.
  Fixpoint redz_rows (acc : F) (rows : list Row) : list Row :=
    match rows with
    | [] => []
    | r :: rest =>
      let d := nround_np num_ops 2 (r_dz r) in
      let acc' := acc + d in
      set_dz_dzsum r d (nround_np num_ops 2 acc') :: redz_rows acc' rest
    end.
  Definition fill_nan (rows : list Row) : option (list Row * F) :=
    let rows' := redz_rows #0 (ffill_rows None rows) in
    if existsb is_unassigned rows' then None
    else Some (rows', nround_np num_ops 2 (pw_sum (map r_dz rows'))).

  (* ---------------------------------------------------------------------------------------------
     read_model_parameters (as of /repo commit 1d078f4):
       while soil.zSoil < crop.Zmax + 0.1:
           for i in soil.profile.index[::-1]:
               if dz[i] < 0.25: dz[i] += 0.1; soil.fill_nan(); break
           else:
               dz[index[-1]] += 0.1; soil.fill_nan()      # every compartment is >= 0.25: the bottom one keeps growing
     [fuel] bounds the number of iterations of the while loop (None when exhausted). *)
  Fixpoint grow_last (rows : list Row) : option (list Row) :=
    match rows with
    | [] => None
    | r :: rest =>
      match grow_last rest with
      | Some rest' => Some (r :: rest')
      | None => if r_dz r <? 25#/100 then Some (set_dz r (r_dz r + 1#/10) :: rest) else None
      end
    end.

  (* the else branch: profile.index[-1] (IndexError on an empty profile) *)
  Fixpoint grow_bottom (rows : list Row) : option (list Row) :=
    match rows with
    | [] => None
    | [r] => Some [set_dz r (r_dz r + 1#/10)]
    | r :: rest => match grow_bottom rest with Some rest' => Some (r :: rest') | None => None end
    end.

  Definition grow_step (rows : list Row) : option (list Row) :=
    match grow_last rows with
    | Some rows' => Some rows'
    | None => grow_bottom rows
    end.

  Fixpoint deepen (fuel : nat) (zmax : F) (rows : list Row) (zsoil : F) : option (list Row * F) :=
    match fuel with
    | O => None
    | S f =>
      if zsoil <? zmax + 1#/10 then
        match grow_step rows with
        | Some rows' =>
          match fill_nan rows' with
          | Some (rows'', zs') => deepen f zmax rows'' zs'
          | None => None
          end
        | None => None
        end
      else Some (rows, zsoil)
    end.

  (* ---------------------------------------------------------------------------------------------
     Saxton & Rawls (2006) pedotransfer: Soil.calculate_soil_hydraulic_properties(Sand/100, Clay/100, OrgMat, DF=1).
     Returns (th_wp, th_fc, th_s, Ksat) rounded as the code rounds them; None where round() raises
     (Ksat NaN or infinite: th_wp <= 0 or th_s < th_fc before rounding). *)
  Definition nfinite (x : F) : bool := (x - x) =? #0.

  Definition sr_raw (sand clay om : F) : F * F * F * F :=
    let S := sand / #100 in
    let C := clay / #100 in
    let pred_wp := (- (24#/1000 * S)) + (487#/1000 * C) + (6#/1000 * om) + (5#/1000 * S * om)
                   - (13#/1000 * C * om) + (68#/1000 * S * C) + 31#/1000 in
    let th_wp := pred_wp + (14#/100 * pred_wp) - 2#/100 in
    let pred_fc := (- (251#/1000 * S)) + (195#/1000 * C) + (11#/1000 * om) + (6#/1000 * S * om)
                   - (27#/1000 * C * om) + (452#/1000 * S * C) + 299#/1000 in
    let predadj_fc := pred_fc + ((1283#/1000 * (pred_fc * pred_fc)) - (374#/1000 * pred_fc) - 15#/1000) in
    let pred_s33 := (278#/1000 * S) + (34#/1000 * C) + (22#/1000 * om) - (18#/1000 * S * om)
                    - (27#/1000 * C * om) - (584#/1000 * S * C) + 78#/1000 in
    let predadj_s33 := pred_s33 + ((636#/1000 * pred_s33) - 107#/1000) in
    let pred_s := (predadj_fc + predadj_s33) + (((- 97#/1000) * S) + 43#/1000) in
    let pN := (#1 - pred_s) * 265#/100 in
    let pDF := pN * #1 in
    let poroscomp := (#1 - (pDF / 265#/100)) - (#1 - (pN / 265#/100)) in
    let poroscompOM := #1 - (pDF / 265#/100) in
    let th_fc := predadj_fc + (2#/10 * poroscomp) in
    let th_s := poroscompOM in
    let lmbda := #1 / ((nln num_ops #1500 - nln num_ops #33) / (nln num_ops th_fc - nln num_ops th_wp)) in
    let ksat := (#1930 * npow num_ops (th_s - th_fc) (#3 - lmbda)) * #24 in
    (th_wp, th_fc, th_s, ksat).

  Definition rnd_dec (scale : Z) (x : F) : F := let k := nrint num_ops (#scale * x) in #k / #scale.

  Definition texture_props (sand clay om : F) : option (F * F * F * F) :=
    let '(th_wp, th_fc, th_s, ksat) := sr_raw sand clay om in
    if nfinite ksat then
      Some (rnd_dec 1000 th_wp, rnd_dec 1000 th_fc, rnd_dec 1000 th_s, rnd_dec 10 ksat)
    else None.

  (* Soil.add_layer_from_texture(thickness, Sand, Clay, OrgMat, penetrability) *)
  Definition layer_from_texture (thick sand clay om pen : F) : option LayerSpec :=
    match texture_props sand clay om with
    | Some (wp, fc, s, ks) =>
      Some {| ls_thick := thick; ls_wp := wp; ls_fc := fc; ls_s := s; ls_ksat := ks; ls_pen := pen |}
    | None => None
    end.

  (* ---------------------------------------------------------------------------------------------
     the profile as the daily processes see it (create_soil_profile, no water table: aCR = bCR = dz*0.0) *)
  Definition to_comp (r : Row) : option (Comp F) :=
    match r_asg r with
    | None => None
    | Some a =>
      Some {| c_dz := r_dz r; c_dzsum := r_dzsum r; c_zmid := r_zmid r; c_layer := a_layer a;
              c_th_dry := a_dry a; c_th_wp := a_wp a; c_th_fc := a_fc a; c_th_s := a_s a;
              c_ksat := a_ksat a; c_tau := a_tau a; c_pen := a_pen a;
              c_acr := r_dz r * #0; c_bcr := r_dz r * #0 |}
    end.
  Fixpoint to_comps (rows : list Row) : option (list (Comp F)) :=
    match rows with
    | [] => Some []
    | r :: rest =>
      match to_comp r, to_comps rest with
      | Some c, Some cs => Some (c :: cs)
      | _, _ => None
      end
    end.

  (* Soil(...) + add_layer* + fill_nan *)
  Definition build_rows (dz : list F) (layers : list LayerSpec) : option (list Row * F) :=
    match add_layers (create_df dz) layers with
    | Some rows => fill_nan rows
    | None => None
    end.

  Definition build_profile (dz : list F) (layers : list LayerSpec) : option (list (Comp F)) :=
    match build_rows dz layers with
    | Some (rows, _) => to_comps rows
    | None => None
    end.

  (* ... + the deepening loop of read_model_parameters *)
  Definition build_deepened (fuel : nat) (zmax : F) (dz : list F) (layers : list LayerSpec)
    : option (list Row * F) :=
    match build_rows dz layers with
    | Some (rows, zs) => deepen fuel zmax rows zs
    | None => None
    end.

  (* ---------------------------------------------------------------------------------------------
     Hydrology = profile.groupby("Layer").mean(): pandas group_mean = Kahan summation / count *)
  Fixpoint kahan (s c : F) (xs : list F) : F :=
    match xs with
    | [] => s
    | v :: rest =>
      let y := v - c in
      let t := s + y in
      kahan t ((t - s) - y) rest
    end.
  Fixpoint len_F (xs : list F) : Z := match xs with [] => 0%Z | _ :: r => (1 + len_F r)%Z end.
  Definition kahan_mean (xs : list F) : F := kahan #0 #0 xs / #(len_F xs).

  Definition layer_vals (f : Asg -> F) (L : Z) (rows : list Row) : list F :=
    flat_map (fun r => match r_asg r with
                       | Some a => if (a_layer a =? L)%Z then [f a] else []
                       | None => [] end) rows.

  (* hydf.loc[L] -> (th_wp, th_fc, th_s); KeyError (None) when no compartment belongs to layer L *)
  Definition hyd_lookup (rows : list Row) (L : Z) : option (F * F * F) :=
    match layer_vals a_wp L rows with
    | [] => None
    | _ => Some (kahan_mean (layer_vals a_wp L rows), kahan_mean (layer_vals a_fc L rows),
                 kahan_mean (layer_vals a_s L rows))
    end.

  (* ---------------------------------------------------------------------------------------------
     initial water content *)
  Inductive WcType := TProp | TPct | TNum.
  Inductive WcMethod := MLayer | MDepth.
  Inductive PropTok := PSAT | PFC | PWP | POther.
  (* one entry of InitWC.value: a property name (type Prop) or a number (types Pct, Num) *)
  Inductive WcVal := VTok (p : PropTok) | VNum (x : F).

  Definition row_layer (r : Row) : Z := match r_asg r with Some a => a_layer a | None => 0%Z end.

  (* layer at a depth:  profile.query("depth<dzsum").Layer.iloc[0]  if depth < dzsum[-1] else Layer[-1] *)
  Fixpoint first_below (depth : F) (rows : list Row) : option Z :=
    match rows with
    | [] => None
    | r :: rest => if depth <? r_dzsum r then Some (row_layer r) else first_below depth rest
    end.
  Fixpoint last_row (rows : list Row) : option Row :=
    match rows with [] => None | [r] => Some r | _ :: rest => last_row rest end.
  Definition layer_at (depth : F) (rows : list Row) : option Z :=
    match last_row rows with
    | None => None
    | Some rl => if depth <? r_dzsum rl then first_below depth rows else Some (row_layer rl)
    end.

  (* hydf.loc[layer] with a float key: matches the integer label with the same value *)
  Definition hyd_lookup_f (rows : list Row) (layer : F) : option (F * F * F) :=
    let L := ntrunc num_ops layer in
    if #L =? layer then hyd_lookup rows L else None.

  Definition point_value (ty : WcType) (h : F * F * F) (v : WcVal) : option F :=
    let '(wp, fc, s) := h in
    match ty, v with
    | TPct, VNum x => Some (wp + ((x / #100) * (fc - wp)))
    | TProp, VTok PSAT => Some s
    | TProp, VTok PFC => Some fc
    | TProp, VTok PWP => Some wp
    | TProp, VTok POther => Some #0
    | _, _ => None
    end.

  (* the loop `for ii in range(len(values))` computing values[ii]; IndexError when depth_layer is shorter *)
  Fixpoint iwc_values (ty : WcType) (me : WcMethod) (rows : list Row) (dl : list F) (vals : list WcVal)
    : option (list F) :=
    match vals with
    | [] => Some []
    | v :: vals' =>
      match dl with
      | [] => None
      | d :: dl' =>
        let here :=
          match ty with
          | TNum => match v with VNum x => Some x | VTok _ => None end
          | _ =>
            let h := match me with
                     | MDepth => match layer_at d rows with Some L => hyd_lookup rows L | None => None end
                     | MLayer => hyd_lookup_f rows d
                     end in
            match h with Some h => point_value ty h v | None => None end
          end in
        match here, iwc_values ty me rows dl' vals' with
        | Some x, Some xs => Some (x :: xs)
        | _, _ => None
        end
      end
    end.

  (* method Layer:  for ii: thini[profile.Layer == int(layer_ii)] = values[ii]  (later entries overwrite) *)
  Fixpoint assign_layers (rows : list Row) (th : list F) (dl vals : list F) : list F :=
    match dl, vals with
    | d :: dl', v :: vals' =>
      let L := ntrunc num_ops d in
      let th' := map (fun rt => if (row_layer (fst rt) =? L)%Z then v else snd rt) (combine rows th) in
      assign_layers rows th' dl' vals'
    | _, _ => th
    end.

  (* np.interp(x, xp, fp) for non-decreasing xp (numpy's compiled_interp, linear search) *)
  Fixpoint last_F (d : F) (l : list F) : F := match l with [] => d | x :: r => last_F x r end.
  Fixpoint interp_seg (x x0 y0 : F) (xs ys : list F) : F :=
    (* invariant: x0 <= x *)
    match xs, ys with
    | x1 :: xs', y1 :: ys' =>
      if x1 <=? x then interp_seg x x1 y1 xs' ys'
      else if x0 =? x then y0
      else ((y1 - y0) / (x1 - x0)) * (x - x0) + y0
    | _, _ => y0
    end.
  Definition interp (x : F) (xs ys : list F) : option F :=
    match xs, ys with
    | x0 :: xs', y0 :: ys' =>
      if last_F x0 xs' <? x then Some (last_F y0 ys')
      else if x <? x0 then Some y0
      else Some (interp_seg x x0 y0 xs' ys')
    | _, _ => None
    end.

  (* comp_mid = (append([0], dzsum[:-1]) + dzsum) / 2, then np.interp *)
  Fixpoint interp_rows (top : F) (rows : list Row) (xs ys : list F) : option (list F) :=
    match rows with
    | [] => Some []
    | r :: rest =>
      match interp ((top + r_dzsum r) / #2) xs ys, interp_rows (r_dzsum r) rest xs ys with
      | Some t, Some ts => Some (t :: ts)
      | _, _ => None
      end
    end.

  Definition nat_eqb_len {A B} (a : list A) (b : list B) : bool := Nat.eqb (length a) (length b).

  Definition initial_wc (ty : WcType) (me : WcMethod) (rows : list Row) (zsoil : F)
             (dl : list F) (vals : list WcVal) : option (list F) :=
    match iwc_values ty me rows dl vals with
    | None => None
    | Some values =>
      match me with
      | MLayer => Some (assign_layers rows (map (fun _ => #0) rows) dl values)
      | MDepth =>
        match dl, values with
        | d0 :: _, v0 :: _ =>
          if negb (nat_eqb_len dl values) then None   (* np.interp: fp and xp are not of the same length *)
          else
            let '(xs, ys) := if #0 <? d0 then (#0 :: dl, v0 :: values) else (dl, values) in
            let '(xs, ys) := if last_F #0 xs <? zsoil then (xs ++ [zsoil], ys ++ [last_F #0 ys]) else (xs, ys) in
            interp_rows #0 rows xs ys
        | _, _ => None                                (* depths[0]: IndexError *)
        end
      end
    end.

  (* adjusted field capacity without a water table: InitCond.th_fc_Adj = th_fc; Profile.th_fc_Adj = np.round(th_fc, 3) *)
  Definition fc_adj_init (rows : list Row) : list F :=
    map (fun r => match r_asg r with Some a => a_fc a | None => #0 end) rows.
  Definition fc_adj_prof (rows : list Row) : list F := map (nround_np num_ops 3) (fc_adj_init rows).

  (* a layer as the user adds it: add_layer (hydraulic values) or add_layer_from_texture *)
  Inductive LayerIn :=
  | LHyd (L : LayerSpec)
  | LTex (thick sand clay om pen : F).
  Fixpoint resolve_layers (ls : list LayerIn) : option (list LayerSpec) :=
    match ls with
    | [] => Some []
    | l :: rest =>
      let here := match l with
                  | LHyd L => Some L
                  | LTex t sa cl om pen => layer_from_texture t sa cl om pen
                  end in
      match here, resolve_layers rest with
      | Some L, Some Ls => Some (L :: Ls)
      | _, _ => None
      end
    end.

  (* ---------------------------------------------------------------------------------------------
     the whole soil part of AquaCropModel._initialize (no water table) *)
  Record SoilInit := { si_rows : list Row; si_zsoil : F; si_th : list F; si_fcadj : list F; si_fcadj_prof : list F }.

  Definition soil_init (fuel : nat) (zmax : F) (dz : list F) (layers : list LayerSpec)
             (ty : WcType) (me : WcMethod) (dl : list F) (vals : list WcVal) : option SoilInit :=
    match dz, layers with
    | [], _ => None     (* Soil.__init__: dz[0] raises IndexError *)
    | _, [] => None     (* no add_layer call: the hydraulic columns do not exist *)
    | _, _ =>
      match build_deepened fuel zmax dz layers with
      | None => None
      | Some (rows, zs) =>
        match initial_wc ty me rows zs dl vals with
        | None => None
        | Some th => Some {| si_rows := rows; si_zsoil := zs; si_th := th; si_fcadj := fc_adj_init rows;
                             si_fcadj_prof := fc_adj_prof rows |}
        end
      end
    end.

  Definition soil_init_in (fuel : nat) (zmax : F) (dz : list F) (layers : list LayerIn)
             (ty : WcType) (me : WcMethod) (dl : list F) (vals : list WcVal) : option SoilInit :=
    match resolve_layers layers with
    | Some Ls => soil_init fuel zmax dz Ls ty me dl vals
    | None => None
    end.

  (* Soil(...) + add_layer* + fill_nan only (what a Soil object holds before a model is initialised) *)
  Definition build_in (dz : list F) (layers : list LayerIn) : option (list Row * F) :=
    match dz, resolve_layers layers with
    | _ :: _, Some Ls => build_rows dz Ls
    | _, _ => None
    end.
End M.
