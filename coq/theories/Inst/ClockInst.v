(* ClockInst.v — an executable instance of Clock.v used ONLY by the correspondence check:
   the physics is replaced by a recorded stream of the two booleans the clock logic consumes
   (crop_dead and "maturity reached" as observed in the implementation after each day's processes).
   The clock logic itself (growing-season test, dap counter, harvest flag, summary row, termination
   test, update_time incl. season jumps, both run modes) is the extracted Clock.v, unchanged. *)
From Coq Require Import ZArith List Bool.
From AC Require Import Clock.
Import ListNotations.
Local Open Scope Z_scope.

Record TPhys := { cur_dead : bool; cur_mat : bool; stream : list (bool * bool) }.
Definition TRow : Type := (Z * bool * Z)%type.      (* season, growing season?, days after planting *)

Definition t_proc (k : Z) (gs : bool) (dap' : Z) (t : Z) (w : unit) (p : TPhys) : TPhys * TRow :=
  match stream p with
  | [] => ({| cur_dead := cur_dead p; cur_mat := false; stream := [] |}, (k, gs, dap'))
  | (d, mt) :: r => ({| cur_dead := d; cur_mat := mt; stream := r |}, (k, gs, dap'))
  end.
Definition t_dead (p : TPhys) : bool := cur_dead p.
Definition t_matured (k dap' : Z) (p : TPhys) : bool := cur_mat p.
Definition t_summary (k : Z) (gs : bool) (p : TPhys) : unit := tt.
Definition t_reset (k : Z) (ws : list unit) (p : TPhys) : TPhys := {| cur_dead := false; cur_mat := false; stream := stream p |}.

Definition TModel := Model TPhys TRow unit.

Definition t_perform := perform TPhys unit TRow unit t_proc t_dead t_matured t_summary t_reset.
Definition t_run_steps := run_steps TPhys unit TRow unit t_proc t_dead t_matured t_summary t_reset.
Definition t_run_till := run_till TPhys unit TRow unit t_proc t_dead t_matured t_summary t_reset.

(* flatten the result for printing: Some (finished, rows oldest first, summary rows oldest first) / None on a raise or fuel exhaustion *)
Definition t_view (m : TModel) : bool * list (Z * TRow) * list (Z * Z * Z) * (Z * Z * Z * bool * bool) :=
  (fin (st m), rev (rows (tabs m)), rev (map (fun r => (s_season r, s_step r, s_date r)) (sums (tabs m))),
   (tsc (st m), season (st m), dap (st m), mature (st m), hflag (st m))).

Fixpoint t_calls (c : ClockP) (ws : list unit) (ks : list nat) (m : TModel) : res TModel :=
  match ks with
  | [] => Ok m
  | k :: r => match t_run_steps c ws k m with Raise e => Raise e | Ok m' => t_calls c ws r m' end
  end.

Definition clock_run (nsteps : Z) (pl hv : list Z) (off : bool) (obs : list (bool * bool)) (ks : list nat) (till : bool) :=
  let c := {| n_steps := nsteps; plant := pl; harv := hv; off_season := off |} in
  let ws := repeat tt (Z.to_nat nsteps) in
  match init_model TPhys TRow unit c {| cur_dead := false; cur_mat := false; stream := obs |} with
  | Raise e => None
  | Ok m0 =>
    match t_calls c ws ks m0 with
    | Raise e => None
    | Ok m1 => if till then match t_run_till c ws (Z.to_nat nsteps) m1 with Some (Ok m2) => Some (t_view m2) | _ => None end
               else Some (t_view m1)
    end
  end.
