(* ExtractClock.v — stand-alone extraction of the clock unit (ExtrOcamlBasic only). *)
From AC Require Import Num Params Clock.
From AC.Inst Require Import ClockInst.
From Coq Require Import ExtrOcamlBasic.
Definition keep_nat : nat -> nat := S.
Extraction Language OCaml.
Extraction "ocaml/model_clock.ml" keep_nat storage clock_run.
