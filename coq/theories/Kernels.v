(* Kernels.v — layer A: pure scalar response functions.
   Source: aquacrop/solution/{growing_degree_day,water_stress,temperature_stress,
   aeration_stress,cc_development,cc_required_time}.py and the CO2 block of
   aquacrop/initialize/compute_variables.py (same formulas in reset_initial_conditions.py). *)
From AC Require Import Num.

Section Kernels.
  Context {F : Type} {N : NumOps F}.
  Local Open Scope num_scope.

  (* ---- growing_degree_day.py -------------------------------------------------------- *)
  (* returns None for a method outside {1,2,3}: Python leaves [gdd] unbound (UnboundLocalError) *)
  Definition growing_degree_day (method : Z) (Tupp Tbase tmax tmin : F) : option F :=
    if (method =? 1)%Z then
      let Tmean := (tmax + tmin) / #2 in
      let Tmean := pmin Tmean Tupp in
      let Tmean := pmax Tmean Tbase in
      Some (Tmean - Tbase)
    else if (method =? 2)%Z then
      let tmax := pmax (pmin tmax Tupp) Tbase in
      let tmin := pmax (pmin tmin Tupp) Tbase in
      Some ((tmax + tmin) / #2 - Tbase)
    else if (method =? 3)%Z then
      let tmax := pmax (pmin tmax Tupp) Tbase in
      let tmin := pmin tmin Tupp in
      let Tmean := pmax ((tmax + tmin) / #2) Tbase in
      Some (Tmean - Tbase)
    else None.

  (* ---- water_stress.py ------------------------------------------------------------- *)
  (* thresholds: index 0 expansion, 1 stomata, 2 senescence, 3 pollination *)
  Definition ws_adj (et0 p : F) : F := p + (4#/100 * (#5 - et0)) * nlog10 num_ops (#10 - #9 * p).
  Definition clip01 (p : F) : F := npmin (npmax p #0) #1.

  (* threshold after the ET0 adjustment (ii < 3 only), the early-senescence factor (ii = 2, upper) and clipping *)
  Definition ws_threshold (etadj : Z) (adj_this : bool) (sen_fac : option F) (et0 p : F) : F :=
    let p := if (etadj =? 1)%Z && adj_this then ws_adj et0 p else p in
    let p := match sen_fac with Some b => p * (#1 - b / #100) | None => p end in
    clip01 p.

  Definition ws_drel (p_up p_lo Dr taw : F) : F :=
    if Dr <=? p_up * taw then #0
    else if (p_up * taw <? Dr) && (Dr <? p_lo * taw) then
      #1 - ((p_lo - (Dr / taw)) / (p_lo - p_up))
    else if p_lo * taw <=? Dr then #1
    else #0.   (* np.zeros default when no branch fires (NaN inputs only) *)

  Definition ws_ks (drel fshape : F) : F :=
    #1 - ((nexp num_ops (drel * fshape) - #1) / (nexp num_ops fshape - #1)).

  Record Ksw := { Ksw_Exp : F; Ksw_Sto : F; Ksw_Sen : F; Ksw_Pol : F; Ksw_StoLin : F }.

  (* p_up, p_lo: four thresholds each; fshape: three shape factors; beta_on := beta == True and tEarlySen > 0 *)
  Definition water_stress (pu0 pu1 pu2 pu3 pl0 pl1 pl2 pl3 : F) (etadj : Z) (crop_beta : F)
             (fs0 fs1 fs2 : F) (beta_on : bool) (Dr taw et0 : F) : Ksw :=
    let sen := if beta_on then Some crop_beta else None in
    let u0 := ws_threshold etadj true None et0 pu0 in
    let u1 := ws_threshold etadj true None et0 pu1 in
    let u2 := ws_threshold etadj true sen et0 pu2 in
    let u3 := ws_threshold etadj false None et0 pu3 in
    let l0 := ws_threshold etadj true None et0 pl0 in
    let l1 := ws_threshold etadj true None et0 pl1 in
    let l2 := ws_threshold etadj true None et0 pl2 in
    let l3 := ws_threshold etadj false None et0 pl3 in
    let d0 := ws_drel u0 l0 Dr taw in
    let d1 := ws_drel u1 l1 Dr taw in
    let d2 := ws_drel u2 l2 Dr taw in
    let d3 := ws_drel u3 l3 Dr taw in
    {| Ksw_Exp := ws_ks d0 fs0; Ksw_Sto := ws_ks d1 fs1; Ksw_Sen := ws_ks d2 fs2;
       Ksw_Pol := #1 - d3; Ksw_StoLin := #1 - d1 |}.

  (* ---- temperature_stress.py ------------------------------------------------------- *)
  Definition ks_logistic (fshape_b trel : F) : F :=
    (#1 * 1#/1000) / (1#/1000 + (#1 - 1#/1000) * nexp num_ops ((- fshape_b) * (#1 - trel))).

  (* None: flag outside {0,1} leaves the result unbound in Python *)
  Definition kst_heat (flag : Z) (Tmax_lo Tmax_up fshape_b tmax : F) : option F :=
    if (flag =? 0)%Z then Some #1
    else if (flag =? 1)%Z then
      if tmax <=? Tmax_lo then Some #1
      else if Tmax_up <=? tmax then Some #0
      else Some (ks_logistic fshape_b ((tmax - Tmax_lo) / (Tmax_up - Tmax_lo)))
    else None.

  Definition kst_cold (flag : Z) (Tmin_lo Tmin_up fshape_b tmin : F) : option F :=
    if (flag =? 0)%Z then Some #1
    else if (flag =? 1)%Z then
      if Tmin_up <=? tmin then Some #1
      else if tmin <=? Tmin_lo then Some #0
      else Some (ks_logistic fshape_b ((Tmin_up - tmin) / (Tmin_up - Tmin_lo)))
    else None.

  (* ---- aeration_stress.py ---------------------------------------------------------- *)
  Definition aeration_stress (aer_days lag_aer thS thAct thAer : F) : option (F * F) :=
    if thAer <? thAct then
      let ks :=
        if aer_days <? lag_aer then
          let stress := #1 - ((thS - thAct) / (thS - thAer)) in
          Some (#1 - ((aer_days / #3) * stress))
        else if lag_aer <=? aer_days then Some ((thS - thAct) / (thS - thAer))
        else None in
      let d := aer_days + #1 in
      let d := if lag_aer <? d then lag_aer else d in
      match ks with Some k => Some (k, d) | None => None end
    else Some (#1, #0).

  (* ---- cc_development.py ----------------------------------------------------------- *)
  Definition cc_clamp01 (cc : F) : F := if #1 <? cc then #1 else if cc <? #0 then #0 else cc.

  Definition cc_growth (CCo CCx CGC dt : F) : F :=
    let cc := CCo * nexp num_ops (CGC * dt) in
    let cc := if CCx / #2 <? cc
              then CCx - 25#/100 * (CCx / CCo) * CCx * nexp num_ops ((- CGC) * dt) else cc in
    let cc := if CCx <? cc then CCx else cc in
    cc_clamp01 cc.

  Definition cc_decline (CCx CDC dt CCx0 : F) : F :=
    let cc := if CCx <? 1#/1000 then #0
              else CCx * (#1 - 5#/100 *
                     (nexp num_ops (dt * CDC * 333#/100 * ((CCx + 229#/100) / (CCx0 + 229#/100)) / (CCx + 229#/100)) - #1)) in
    cc_clamp01 cc.

  Inductive cc_mode := Growth | Decline.
  Definition cc_development (CCo CCx CGC CDC dt : F) (m : cc_mode) (CCx0 : F) : F :=
    match m with Growth => cc_growth CCo CCx CGC dt | Decline => cc_decline CCx CDC dt CCx0 end.

  (* ---- cc_required_time.py --------------------------------------------------------- *)
  Definition cc_required_time_cgc (cc_prev CCo CCx CGC : F) : F :=
    let x := if cc_prev <=? CCx / #2 then nln num_ops (cc_prev / CCo)
             else nln num_ops ((25#/100 * CCx * CCx / CCo) / (CCx - cc_prev)) in
    x / CGC.
  Definition cc_required_time_cdc (cc_prev CCx CDC : F) : F :=
    (nln num_ops (#1 + (#1 - cc_prev / CCx) / 5#/100)) / (CDC / CCx).

  (* ---- CO2 productivity factor (compute_variables.py / reset_initial_conditions.py) -- *)
  Definition fco2_weight (c ref : F) : F :=
    if c <=? ref then #0 else if #550 <=? c then #1 else #1 - ((#550 - c) / (#550 - ref)).

  Definition fco2_old (c ref bsted bface fsink : F) : F :=
    let fw := fco2_weight c ref in
    (c / ref) / (#1 + (c - ref) * ((#1 - fw) * bsted + fw * ((bsted * fsink) + (bface * (#1 - fsink))))).

  Definition fco2_new (c ref fsink : F) : F :=
    let fshape := (- 461824#/100000) - 343831#/100000 * fsink - 532587#/100000 * fsink * fsink in
    if #2000 <=? c then 158#/100
    else #1 + 58#/100 * ((nexp num_ops (((c - ref) / (#2000 - ref)) * fshape) - #1) / (nexp num_ops fshape - #1)).

  Definition fco2_select (c ref bsted bface fsink : F) : F :=
    let old := fco2_old c ref bsted bface fsink in
    if c <=? ref then old
    else let new := fco2_new c ref fsink in
         if (c <=? #550) && (old <? new) then old else new.

  Definition fco2_ftype (WP : F) : F :=
    if #40 <=? WP then #0 else if WP <=? #20 then #1 else (#40 - WP) / (#40 - #20).

  Definition fco2 (c ref bsted bface fsink WP : F) : F :=
    #1 + fco2_ftype WP * (fco2_select c ref bsted bface fsink - #1).
End Kernels.
