(* Num.v — the number interface the whole model is generic in.
   One Gallina term, two interpretations:
     * [RInst.RN : Num R]            — exact reals, the object of the theorems;
     * the OCaml driver's float record — IEEE doubles + libm, the object that is
       executed against the Python implementation bit-for-bit.
   Nothing in this file (or in any model file) mentions R or floats. *)
From Coq Require Export ZArith List Bool.
Export ListNotations.

Record Num (F : Type) := {
  nopp : F -> F;
  nadd : F -> F -> F; nsub : F -> F -> F; nmul : F -> F -> F; ndiv : F -> F -> F;
  nleb : F -> F -> bool; nltb : F -> F -> bool; neqb : F -> F -> bool;
  nofZ : Z -> F;
  nexp : F -> F; nln : F -> F; nlog10 : F -> F; npow : F -> F -> F;
  nrint : F -> Z;              (* round half even to an integer: Python round(x), np.rint *)
  nround_np : Z -> F -> F;     (* numpy scalar round(x,d) = rint(x*10^d)/10^d            *)
  nround_py : Z -> F -> F;     (* CPython float round(x,d): correctly rounded decimal     *)
  ntrunc : F -> Z;             (* int(x): truncation toward zero                          *)
  nfloor : F -> Z              (* floor(x)                                                *)
}.
Arguments nopp {F} _. Arguments nadd {F} _. Arguments nsub {F} _. Arguments nmul {F} _. Arguments ndiv {F} _.
Arguments nleb {F} _. Arguments nltb {F} _. Arguments neqb {F} _. Arguments nofZ {F} _.
Arguments nexp {F} _. Arguments nln {F} _. Arguments nlog10 {F} _. Arguments npow {F} _.
Arguments nrint {F} _. Arguments nround_np {F} _. Arguments nround_py {F} _.
Arguments ntrunc {F} _. Arguments nfloor {F} _.

Declare Scope num_scope.
Delimit Scope num_scope with num.

(* Inside a model file:  Section M. Context {F : Type} (N : Num F).  Local Open Scope num_scope.
   and the notations below refer to that N through the section-local [NumOps] instance. *)
Class NumOps (F : Type) := num_ops : Num F.

Notation "x + y" := (nadd num_ops x y) : num_scope.
Notation "x - y" := (nsub num_ops x y) : num_scope.
Notation "x * y" := (nmul num_ops x y) : num_scope.
Notation "x / y" := (ndiv num_ops x y) : num_scope.
Notation "x <=? y" := (nleb num_ops x y) : num_scope.
Notation "x <? y" := (nltb num_ops x y) : num_scope.
Notation "x =? y" := (neqb num_ops x y) : num_scope.
Notation "x >=? y" := (nleb num_ops y x) (at level 70) : num_scope.
Notation "x >? y" := (nltb num_ops y x) (at level 70) : num_scope.
Notation "# z" := (nofZ num_ops z%Z) (at level 1, format "# z") : num_scope.
(* the decimal literal m/d, d a power of ten: the double nearest to it in floats *)
Notation "m #/ d" := (ndiv num_ops (nofZ num_ops m%Z) (nofZ num_ops d%Z)) (at level 1, format "m #/ d") : num_scope.
Notation "- x" := (nopp num_ops x) : num_scope.

Section Basics.
  Context {F : Type} {N : NumOps F}.
  Local Open Scope num_scope.

  (* Python's builtin min(a,b) / max(a,b): returns a unless b is strictly smaller / larger *)
  Definition pmin (a b : F) : F := if b <? a then b else a.
  Definition pmax (a b : F) : F := if a <? b then b else a.
  (* np.minimum / np.maximum on non-NaN scalars *)
  Definition npmin (a b : F) : F := if a <? b then a else b.
  Definition npmax (a b : F) : F := if a <? b then b else a.
  Definition nabs (x : F) : F := if x <? #0 then - x else x.

  (* left-to-right sum, Python's builtin sum() and explicit += loops *)
  Definition sum_seq (l : list F) : F := fold_left (fun a x => a + x) l #0.
End Basics.
