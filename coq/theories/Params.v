(* Params.v — per-compartment constants and profile helpers shared by the process models.
   A soil profile is a [list Comp], surface first; water contents are a parallel [list F].
   Source of the fields: aquacrop/entities/soilProfile.py (arrays indexed by compartment). *)
From AC Require Import Num.

Section Params.
  Context {F : Type} {N : NumOps F}.
  Local Open Scope num_scope.

  Record Comp := {
    c_dz : F;        (* thickness (m)                              prof.dz[i]    *)
    c_dzsum : F;     (* depth of the compartment bottom (m)        prof.dzsum[i] *)
    c_zmid : F;      (* depth of the compartment centre (m)        prof.zMid[i]  *)
    c_layer : Z;     (* soil layer number, 1-based                 prof.Layer[i] *)
    c_th_dry : F; c_th_wp : F; c_th_fc : F; c_th_s : F;
    c_ksat : F; c_tau : F; c_pen : F;   (* Ksat (mm/day), drainage coefficient, Penetrability (%) *)
    c_acr : F; c_bcr : F                (* capillary-rise parameters aCR, bCR *)
  }.

  (* water stored in a profile (mm): sum_i th_i * dz_i * 1000, summed left to right *)
  Fixpoint storage (p : list Comp) (th : list F) : F :=
    match p, th with
    | c :: p', t :: th' => t * c_dz c * #1000 + storage p' th'
    | _, _ => #0
    end.

  (* np.sum(mask) style counters and argwhere(...)[0] searches, with None where Python raises IndexError *)
  Fixpoint count_if {A} (f : A -> bool) (l : list A) : Z :=
    match l with [] => 0%Z | x :: r => ((if f x then 1 else 0) + count_if f r)%Z end.
  Fixpoint find_first {A} (f : A -> bool) (l : list A) (i : Z) : option Z :=
    match l with [] => None | x :: r => if f x then Some i else find_first f r (i + 1)%Z end.
End Params.
Arguments Comp F : clear implicits.
