(* C07 — the simulation calendar is exact.
   Theorems only (proofs are instantiations of lemmas in proofs/ClockP.v and proofs/CalendarP.v).  They hold for EVERY
   physics: the processes of a day, the death and maturity tests, the season reset are section variables.
   Time is counted in days from the simulation start (time_span[i] = i); the Gregorian date arithmetic and the season
   list construction are the subject of C07_dates below (Init/Calendar.v).  Z / list / bool only: no axioms. *)
From Coq Require Import ZArith List Bool Lia Sorted.
From AC Require Import Clock.
From AC.proofs Require Import ClockP.
Import ListNotations.
Local Open Scope Z_scope.

Section C07.
  Variable Phys W Row Out : Type.
  Variable proc : Z -> bool -> Z -> Z -> W -> Phys -> Phys * Row.
  Variable dead : Phys -> bool.
  Variable matured : Z -> Z -> Phys -> bool.
  Variable summary_of : Z -> bool -> Phys -> Out.
  Variable reset : Z -> list W -> Phys -> Phys.
  Notation day_step := (day_step Phys W Row Out proc dead matured summary_of).
  Notation perform := (perform Phys W Row Out proc dead matured summary_of reset).
  Notation run_steps := (run_steps Phys W Row Out proc dead matured summary_of reset).
  Notation run_till := (run_till Phys W Row Out proc dead matured summary_of reset).
  Notation in_season := (in_season Phys dead).
  Notation minv := (minv Phys Row Out).
  Notation rows_inv := (rows_inv Phys Row Out).
  Notation wf_clock := ClockP.wf_clock.

  (* Each calendar day at most once and in chronological order; every row carries the step index of its date:
     after ANY number of steps the row list is strictly decreasing (most recent first) in its step index, every index
     lies in [0, current step), and time never runs backwards. *)
  Theorem C07_chronological : forall c ws n m m', wf_clock c -> minv c m -> rows_inv m ->
    run_steps c ws n m = Ok m' ->
    (StronglySorted Z.gt (map fst (rows (tabs m'))) /\
     Forall (fun r => 0 <= fst r < (if fin (st m') then tsc (st m') + 1 else tsc (st m'))) (rows (tabs m'))) /\
    tsc (st m) <= tsc (st m') /\ (fin (st m') = false -> minv c m').
  Proof. exact (run_steps_chronological Phys W Row Out proc dead matured summary_of reset). Qed.

  (* One public step: the row written carries the step's own index; unless the run finishes time moves strictly forward:
     by exactly one day when the off-season is simulated (no day skipped) or no harvest happened, and straight to the next
     planting date when the off-season is not simulated and the season was harvested. *)
  Theorem C07_step : forall c ws m m', wf_clock c -> minv c m -> perform c ws m = Ok m' ->
    exists w s1 row sr, nthW W ws (tsc (st m)) = Some w /\ day_step c w (st m) = (s1, row, sr) /\
      rows (tabs m') = row :: rows (tabs m) /\ fst row = tsc (st m) /\
      sums (tabs m') = match sr with Some r => r :: sums (tabs m) | None => sums (tabs m) end /\
      (fin (st m') = true -> st m' = set_fin Phys s1 true /\
           (hflag s1 && (season s1 =? n_seasons c - 1) = true \/ tsc (st m) + 1 = n_steps c - 1)) /\
      (fin (st m') = false -> minv c m' /\ tsc (st m) < tsc (st m') /\
           ((off_season c = true \/ hflag s1 = false) -> tsc (st m') = tsc (st m) + 1) /\
           ((off_season c = false /\ hflag s1 = true) ->
              nthZ (plant c) (season (st m) + 1) = Some (tsc (st m')) /\ season (st m') = season (st m) + 1) /\
           ((season (st m') = season s1 /\ hflag (st m') = hflag s1 /\ dap (st m') = dap s1 /\ mature (st m') = mature s1 /\ phys (st m') = phys s1) \/
            (season (st m') = season s1 + 1 /\ nthZ (plant c) (season (st m')) = Some (tsc (st m')) /\
             dap (st m') = 0 /\ mature (st m') = false /\ hflag (st m') = false))).
  Proof. exact (perform_inv Phys W Row Out proc dead matured summary_of reset). Qed.

  (* Days after planting: +1 on every in-season day, 0 on every other day (and 0 when a season starts, see C07_step):
     within a season they count 1, 2, 3, ... without gaps. *)
  Theorem C07_dap : forall c w s s' r sr, day_step c w s = (s', r, sr) ->
    tsc s' = tsc s /\ season s' = season s /\ fin s' = fin s /\ fst r = tsc s /\
    dap s' = (if in_season c s then dap s + 1 else 0) /\
    (hflag s = true -> hflag s' = true /\ sr = None) /\
    (sr <> None <-> (hflag s = false /\ hflag s' = true)) /\
    (forall x, sr = Some x -> s_season x = season s /\ s_step x = tsc s /\ s_date x = tsc s + 1).
  Proof. exact (day_step_clock Phys W Row Out proc dead matured summary_of). Qed.

  (* A season ends on the first day maturity is reached: once mature, the harvest flag is up and the next day is not in
     season; the harvest flag is raised at the latest on the step that ends on the latest harvest date. *)
  Theorem C07_season_end_maturity : forall c w s s' r sr, day_step c w s = (s', r, sr) ->
    mature s' = true -> (0 <= season s -> hflag s' = true) /\ in_season c s' = false.
  Proof. exact (day_step_mature Phys W Row Out proc dead matured summary_of). Qed.

  (* ... and once a season's harvest is recorded (maturity, death or the latest harvest date) no later day of it is in season *)
  Theorem C07_season_ends_at_harvest : forall c s, hflag s = true -> in_season c s = false.
  Proof. exact (hflag_not_in_season Phys dead). Qed.

  Theorem C07_season_end_harvest_date : forall c w s s' r sr h, day_step c w s = (s', r, sr) ->
    0 <= season s -> nthZ (harv c) (season s) = Some h -> h = tsc s + 1 -> hflag s' = true.
  Proof. exact (day_step_harvest_date Phys W Row Out proc dead matured summary_of). Qed.

  (* The run always terminates, without raising, in at most (n_steps - 1 - current step) further steps, and it ends at the
     last scheduled season's harvest or on the day before the end date. *)
  Theorem C07_terminates : forall c ws, wf_clock c -> weather_covers W c ws -> forall fuel m, minv c m ->
    (Z.to_nat (n_steps c - 1 - tsc (st m)) <= fuel)%nat ->
    exists m', run_till c ws fuel m = Some (Ok m') /\ fin (st m') = true /\
      ((hflag (st m') = true /\ season (st m') = n_seasons c - 1) \/ tsc (st m') + 1 = n_steps c - 1).
  Proof. exact (run_till_terminates Phys W Row Out proc dead matured summary_of reset). Qed.

  (* The freshly initialised model satisfies the invariants the theorems above start from. *)
  Theorem C07_initial : forall c p0 m, wf_clock c -> 2 <= n_steps c -> plant c <> [] ->
    (forall p, nthZ (plant c) 0 = Some p -> 0 <= p) ->
    init_model Phys Row Out c p0 = Ok m -> minv c m /\ rows_inv m /\ sums_inv Phys Row Out m.
  Proof. exact (init_model_inv Phys Row Out). Qed.
End C07.

(* non-vacuity: a concrete two-season clock satisfies wf_clock *)
Example C07_wf_example : ClockP.wf_clock {| n_steps := 800; plant := [10; 375]; harv := [160; 525]; off_season := false |}.
Proof.
  constructor; cbn.
  - reflexivity.
  - intros k p h. unfold nthZ. destruct (k <? 0); [discriminate|].
    destruct (Z.to_nat k) as [|[|[|n]]]; cbn; intros H1 H2; try discriminate; injection H1 as <-; injection H2 as <-; lia.
  - intros k h p'. unfold nthZ. destruct (k <? 0) eqn:E; [discriminate|]. destruct (k + 1 <? 0); [discriminate|].
    assert (Z.to_nat (k + 1) = S (Z.to_nat k)) as -> by (apply Z.ltb_ge in E; lia).
    destruct (Z.to_nat k) as [|[|[|n]]]; cbn; intros H1 H2; try discriminate; injection H1 as <-; injection H2 as <-; lia.
  - intros k p. unfold nthZ. destruct (k <? 0); [discriminate|]. unfold Clock.n_steps.
    destruct (Z.to_nat k) as [|[|[|n]]]; cbn; intros H1; try discriminate; injection H1 as <-; lia.
Qed.

Print Assumptions C07_chronological.
Print Assumptions C07_step.
Print Assumptions C07_dap.
Print Assumptions C07_season_end_maturity.
Print Assumptions C07_season_end_harvest_date.
Print Assumptions C07_season_ends_at_harvest.
Print Assumptions C07_terminates.
Print Assumptions C07_initial.
