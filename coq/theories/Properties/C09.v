(* C09 — step-wise execution equals one uninterrupted run.
   Theorems only; they hold for EVERY physics (section variables).  A sequence of run_model(num_steps = k_i,
   initialize_model = False) calls is [run_calls]; one run to termination is [run_till].  No axioms. *)
From Coq Require Import ZArith List Bool Lia.
From AC Require Import Clock.
From AC.proofs Require Import ClockP.
Import ListNotations.
Local Open Scope Z_scope.

Section C09.
  Variable Phys W Row Out : Type.
  Variable proc : Z -> bool -> Z -> Z -> W -> Phys -> Phys * Row.
  Variable dead : Phys -> bool.
  Variable matured : Z -> Z -> Phys -> bool.
  Variable summary_of : Z -> bool -> Phys -> Out.
  Variable reset : Z -> list W -> Phys -> Phys.
  Notation run_steps := (run_steps Phys W Row Out proc dead matured summary_of reset).
  Notation run_till := (run_till Phys W Row Out proc dead matured summary_of reset).
  Notation run_calls := (run_calls Phys W Row Out proc dead matured summary_of reset).

  (* two consecutive calls of a and b steps are one call of a + b steps (stopping at termination) *)
  Theorem C09_steps_add : forall c ws a b m, fin (st m) = false ->
    run_steps c ws (a + b) m =
    match run_steps c ws a m with Raise e => Raise e | Ok m' => if fin (st m') then Ok m' else run_steps c ws b m' end.
  Proof. exact (run_steps_add Phys W Row Out proc dead matured summary_of reset). Qed.

  (* EVERY partition: whatever the step counts, once the calls have brought the model to completion the whole model —
     the three daily tables, the seasonal summary, the state and the completion flag — is the one an uninterrupted run
     to termination produces *)
  Theorem C09_partition_eq : forall c ws ks m m' fuel r, fin (st m) = false ->
    run_calls c ws ks m = Ok m' -> fin (st m') = true -> run_till c ws fuel m = Some r -> r = Ok m'.
  Proof. exact (partition_eq Phys W Row Out proc dead matured summary_of reset). Qed.

  (* a step count that overshoots the end stops at termination *)
  Theorem C09_overshoot_stops : forall c ws n extra m m', fin (st m) = false -> run_steps c ws n m = Ok m' ->
    fin (st m') = true -> run_steps c ws (n + extra) m = Ok m'.
  Proof. exact (overshoot_stops Phys W Row Out proc dead matured summary_of reset). Qed.

  (* the result of a run to termination does not depend on the loop bound *)
  Theorem C09_run_till_deterministic : forall c ws f1 f2 m r1 r2,
    run_till c ws f1 m = Some r1 -> run_till c ws f2 m = Some r2 -> r1 = r2.
  Proof. exact (run_till_fuel_irrelevant Phys W Row Out proc dead matured summary_of reset). Qed.
End C09.

Print Assumptions C09_steps_add.
Print Assumptions C09_partition_eq.
Print Assumptions C09_overshoot_stops.
Print Assumptions C09_run_till_deterministic.
