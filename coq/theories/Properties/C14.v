(* C14 — no look-ahead: past outputs do not depend on future weather.
   Theorem on Clock.v for EVERY physics (section variables): if two weather tables agree on every day before t and the
   season reset does not read the weather (crops with a calendar-day calendar: the regenerated fact reset_weather_guard_ok
   says the reset reads its weather argument only under `crop.CalendarType == 2`), then after any number of steps every
   daily row and every summary row of a step before t is identical.  Z / list / bool only: no axioms.
   Weather records outside the window: C14_inputs.v.  Extending the end date: the season list is a prefix (C07_calendar). *)
From Coq Require Import ZArith List Bool Lia.
From AC Require Import Clock.
From AC.proofs Require Import ClockP.
Import ListNotations.
Local Open Scope Z_scope.

Section C14.
  Variable Phys W Row Out : Type.
  Variable proc : Z -> bool -> Z -> Z -> W -> Phys -> Phys * Row.
  Variable dead : Phys -> bool.
  Variable matured : Z -> Z -> Phys -> bool.
  Variable summary_of : Z -> bool -> Phys -> Out.
  Variable reset : Z -> list W -> Phys -> Phys.
  Notation run_steps := (run_steps Phys W Row Out proc dead matured summary_of reset).
  Notation perform := (perform Phys W Row Out proc dead matured summary_of reset).

  Theorem C14_prefix_causal : forall c ws ws' t n, ClockP.wf_clock c -> agree_before W t ws ws' -> reset_weather_free Phys W reset ->
    forall m a b, minv Phys Row Out c m -> run_steps c ws n m = Ok a -> run_steps c ws' n m = Ok b ->
      rows_before Phys Row Out t a = rows_before Phys Row Out t b /\ sums_before Phys Row Out t a = sums_before Phys Row Out t b.
  Proof. exact (prefix_causal Phys W Row Out proc dead matured summary_of reset). Qed.

  (* one step reads only the weather record of its own day *)
  Theorem C14_step_reads_own_day : forall c ws ws' t m, agree_before W t ws ws' -> reset_weather_free Phys W reset ->
    tsc (st m) < t -> perform c ws m = perform c ws' m.
  Proof. exact (perform_agree Phys W Row Out proc dead matured summary_of reset). Qed.

  (* once the run has passed day t, rows of steps before t are never touched again *)
  Theorem C14_past_rows_frozen : forall c ws t n m a, ClockP.wf_clock c -> minv Phys Row Out c m -> t <= tsc (st m) ->
    run_steps c ws n m = Ok a ->
    rows_before Phys Row Out t a = rows_before Phys Row Out t m /\ sums_before Phys Row Out t a = sums_before Phys Row Out t m.
  Proof. intros c ws t n m a. exact (run_steps_late Phys W Row Out proc dead matured summary_of reset c ws t n m a). Qed.
End C14.

Print Assumptions C14_prefix_causal.
Print Assumptions C14_step_reads_own_day.
Print Assumptions C14_past_rows_frozen.
