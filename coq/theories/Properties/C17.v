(* C17 — stress and growth response functions are bounded and monotone.
   Theorems only; every proof is `exact <lemma>` or an instantiation of lemmas from proofs/*.v.
   Quantifiers: every row of the crop catalogue regenerated from /repo on this run, and ALL real
   arguments (no lattice).  Arithmetic is exact real arithmetic (see DESIGN.md section 4). *)
From Coq Require Import QArith Qreals Reals Lra List.
From AC Require Import Num RInst Kernels.
From AC.gen Require Import CropCatalogue.
From AC.proofs Require Import KernelsR CatalogueR.
Local Open Scope R_scope.

Definition row_water_stress (r : CropRow) (beta_on : bool) (Dr taw et0 : R) : Ksw :=
  water_stress (Q2R (c_p_up1 r)) (Q2R (c_p_up2 r)) (Q2R (c_p_up3 r)) (Q2R (c_p_up4 r))
               (Q2R (c_p_lo1 r)) (Q2R (c_p_lo2 r)) (Q2R (c_p_lo3 r)) (Q2R (c_p_lo4 r))
               (Qflag (c_ETadj r)) (Q2R (c_beta r))
               (Q2R (c_fshape_w1 r)) (Q2R (c_fshape_w2 r)) (Q2R (c_fshape_w3 r)) beta_on Dr taw et0.

(* water-stress coefficients: in [0,1], non-increasing in depletion — every crop, every ET0, every TAW > 0 *)
Theorem C17_water_stress :
  forall r, In r crop_catalogue -> forall beta_on Dr Dr' taw et0, 0 < taw -> Dr <= Dr' ->
    ksw_in01 (row_water_stress r beta_on Dr taw et0) /\
    ksw_le (row_water_stress r beta_on Dr' taw et0) (row_water_stress r beta_on Dr taw et0).
Proof.
  intros r Hr beta_on Dr Dr' taw et0 Ht Hd. destruct (catalogue_row_ok17 r Hr) as [F1 F2 F3 _ _ _ _ _ _ _ _].
  unfold row_water_stress. split; [apply water_stress_range | apply water_stress_antitone]; assumption.
Qed.

(* heat / cold pollination coefficients *)
Definition row_kst_heat r t := kst_heat (Qflag (c_PolHeatStress r)) (Q2R (c_Tmax_lo r)) (Q2R (c_Tmax_up r)) (Q2R (c_fshape_b r)) t.
Definition row_kst_cold r t := kst_cold (Qflag (c_PolColdStress r)) (Q2R (c_Tmin_lo r)) (Q2R (c_Tmin_up r)) (Q2R (c_fshape_b r)) t.

Theorem C17_temperature_stress :
  forall r, In r crop_catalogue -> forall t t', t <= t' ->
    exists h h' c c', row_kst_heat r t = Some h /\ row_kst_heat r t' = Some h' /\
                      row_kst_cold r t = Some c /\ row_kst_cold r t' = Some c' /\
                      0 <= h <= 1 /\ 0 <= c <= 1 /\ h' <= h /\ c <= c'.
Proof.
  intros r Hr t t' Ht. destruct (catalogue_row_ok17 r Hr) as [_ _ _ _ _ Hh Hc Hb _ _ _].
  unfold row_kst_heat, row_kst_cold.
  destruct (proj1 (kst_defined _ (Q2R (c_Tmax_lo r)) (Q2R (c_Tmax_up r)) (Q2R (c_fshape_b r)) t Hh)) as [h Eh].
  destruct (proj1 (kst_defined _ (Q2R (c_Tmax_lo r)) (Q2R (c_Tmax_up r)) (Q2R (c_fshape_b r)) t' Hh)) as [h' Eh'].
  destruct (proj2 (kst_defined _ (Q2R (c_Tmin_lo r)) (Q2R (c_Tmin_up r)) (Q2R (c_fshape_b r)) t Hc)) as [c Ec].
  destruct (proj2 (kst_defined _ (Q2R (c_Tmin_lo r)) (Q2R (c_Tmin_up r)) (Q2R (c_fshape_b r)) t' Hc)) as [c' Ec'].
  exists h, h', c, c'. repeat split; try assumption.
  - apply (kst_heat_range _ _ _ _ _ _ Eh).
  - apply (kst_heat_range _ _ _ _ _ _ Eh).
  - apply (kst_cold_range _ _ _ _ _ _ Ec).
  - apply (kst_cold_range _ _ _ _ _ _ Ec).
  - exact (kst_heat_antitone _ _ _ _ _ _ _ _ Hb Ht Eh Eh').
  - exact (kst_cold_monotone _ _ _ _ _ _ _ _ Hb Ht Ec Ec').
Qed.

(* growing degree days *)
Definition row_gdd r tmax tmin := growing_degree_day (Qflag (c_GDDmethod r)) (Q2R (c_Tupp r)) (Q2R (c_Tbase r)) tmax tmin.

Theorem C17_gdd :
  forall r, In r crop_catalogue -> forall tmax tmin tmax' tmin', tmax <= tmax' -> tmin <= tmin' ->
    exists g g', row_gdd r tmax tmin = Some g /\ row_gdd r tmax' tmin' = Some g' /\
                 0 <= g <= Q2R (c_Tupp r) - Q2R (c_Tbase r) /\ g <= g'.
Proof.
  intros r Hr tmax tmin tmax' tmin' H1 H2. destruct (catalogue_row_ok17 r Hr) as [_ _ _ HT Hg _ _ _ _ _ _].
  unfold row_gdd.
  destruct (gdd_defined _ (Q2R (c_Tupp r)) (Q2R (c_Tbase r)) tmax tmin Hg) as [g Eg].
  destruct (gdd_defined _ (Q2R (c_Tupp r)) (Q2R (c_Tbase r)) tmax' tmin' Hg) as [g' Eg'].
  exists g, g'. repeat split; try assumption.
  - apply (gdd_range _ _ _ _ _ _ HT Eg).
  - apply (gdd_range _ _ _ _ _ _ HT Eg).
  - exact (gdd_monotone _ _ _ _ _ _ _ _ _ HT H1 H2 Eg Eg').
Qed.

(* the statement also holds for every method in {1,2,3} and every Tbase <= Tupp, not only catalogue rows *)
Theorem C17_gdd_any_method : forall method Tupp Tbase tmax tmin tmax' tmin' g g',
  Tbase <= Tupp -> tmax <= tmax' -> tmin <= tmin' ->
  growing_degree_day method Tupp Tbase tmax tmin = Some g ->
  growing_degree_day method Tupp Tbase tmax' tmin' = Some g' -> 0 <= g <= Tupp - Tbase /\ g <= g'.
Proof.
  intros method Tupp Tbase tmax tmin tmax' tmin' g g' HT H1 H2 Eg Eg'. split.
  - exact (gdd_range _ _ _ _ _ _ HT Eg).
  - exact (gdd_monotone _ _ _ _ _ _ _ _ _ HT H1 H2 Eg Eg').
Qed.

(* canopy growth / decline curves: every crop (CC0, CCx from the catalogue), every growth and decline
   coefficient >= 0, all times *)
Theorem C17_canopy_curves :
  forall r, In r crop_catalogue -> forall CGC CDC dt dt', 0 <= CGC -> 0 <= CDC -> 0 <= dt -> dt <= dt' ->
    let CC0 := Q2R (row_CC0 r) in let CCx := Q2R (c_CCx r) in
    0 <= cc_development CC0 CCx CGC CDC dt Growth CCx <= CCx /\
    cc_development CC0 CCx CGC CDC dt Growth CCx <= cc_development CC0 CCx CGC CDC dt' Growth CCx /\
    0 <= cc_development CC0 CCx CGC CDC dt Decline CCx <= CCx /\
    cc_development CC0 CCx CGC CDC dt' Decline CCx <= cc_development CC0 CCx CGC CDC dt Decline CCx.
Proof.
  intros r Hr CGC CDC dt dt' Hg Hc Hd Hdd. destruct (catalogue_row_ok17 r Hr) as [_ _ _ _ _ _ _ _ [H0 H1] Hx _].
  cbv zeta. cbn [cc_development]. repeat split.
  - apply cc_growth_range; lra.
  - apply cc_growth_range; lra.
  - apply cc_growth_monotone; lra.
  - apply cc_decline_range; lra.
  - apply cc_decline_range; lra.
  - apply cc_decline_antitone; lra.
Qed.

(* the same for an arbitrary reduced maximum canopy CCx' (what the stress-adjusted calls pass) *)
Theorem C17_canopy_curves_general : forall CC0 CCx CCx0 CGC CDC dt dt',
  0 < CC0 -> 0 <= CCx -> 0 <= CCx0 -> 0 <= CGC -> 0 <= CDC -> 0 <= dt -> dt <= dt' ->
    0 <= cc_development CC0 CCx CGC CDC dt Growth CCx0 <= CCx /\
    cc_development CC0 CCx CGC CDC dt Growth CCx0 <= cc_development CC0 CCx CGC CDC dt' Growth CCx0 /\
    0 <= cc_development CC0 CCx CGC CDC dt Decline CCx0 <= CCx /\
    cc_development CC0 CCx CGC CDC dt' Decline CCx0 <= cc_development CC0 CCx CGC CDC dt Decline CCx0.
Proof.
  intros CC0 CCx CCx0 CGC CDC dt dt' H0 Hx Hx0 Hg Hc Hd Hdd. cbn [cc_development]. repeat split.
  - apply cc_growth_range; lra.
  - apply cc_growth_range; lra.
  - apply cc_growth_monotone; lra.
  - apply cc_decline_range; lra.
  - apply cc_decline_range; lra.
  - apply cc_decline_antitone; lra.
Qed.

(* the time-to-reach-cover function inverts the growth curve *)
Theorem C17_required_time_inverts :
  forall r, In r crop_catalogue -> forall CGC cc, 0 < CGC ->
    Q2R (row_CC0 r) < cc -> cc < Q2R (c_CCx r) ->
    cc_development (Q2R (row_CC0 r)) (Q2R (c_CCx r)) CGC 0
      (cc_required_time_cgc cc (Q2R (row_CC0 r)) (Q2R (c_CCx r)) CGC) Growth (Q2R (c_CCx r)) = cc.
Proof.
  intros r Hr CGC cc Hg Hlo Hhi. destruct (catalogue_row_ok17 r Hr) as [_ _ _ _ _ _ _ _ [H0 H1] Hx _].
  cbn [cc_development]. apply cc_required_time_inverts; lra.
Qed.

(* CO2 productivity factor: 1 at the reference concentration, non-decreasing in concentration *)
Definition row_fco2 r c := fco2 c (Q2R co2_ref) (Q2R (c_bsted r)) (Q2R (c_bface r)) (Q2R (c_fsink r)) (Q2R (c_WP r)).

Theorem C17_fco2 :
  forall r, In r crop_catalogue ->
    row_fco2 r (Q2R co2_ref) = 1 /\ forall c c', 0 < c -> c <= c' -> row_fco2 r c <= row_fco2 r c'.
Proof.
  intros r Hr. destruct (catalogue_row_ok17 r Hr) as [_ _ _ _ _ _ _ _ _ _ Hf]. unfold row_fco2. split.
  - apply fco2_at_ref. destruct Hf as [[? ?] _ _ _ _ _]. lra.
  - intros c c' H0 Hc. apply fco2_monotone; assumption.
Qed.

(* non-vacuity: the catalogue is the 37-row table and its first row satisfies the hypotheses *)
Lemma first_row_in : forall (l : list CropRow) d, l <> nil -> In (hd d l) l.
Proof. intros [|x l] d H; [contradiction | left; reflexivity]. Qed.
Example C17_catalogue_nonempty :
  length crop_catalogue = crop_count /\ crop_count = 37%nat /\
  forall d, In (hd d crop_catalogue) crop_catalogue /\ crop_ok17 (hd d crop_catalogue).
Proof.
  split; [exact crop_catalogue_length|]. split; [reflexivity|]. intros d.
  assert (H : In (hd d crop_catalogue) crop_catalogue).
  { apply first_row_in. intros E. pose proof crop_catalogue_length as L. rewrite E in L. discriminate L. }
  split; [exact H | apply catalogue_row_ok17; exact H].
Qed.

Print Assumptions C17_water_stress.
Print Assumptions C17_temperature_stress.
Print Assumptions C17_gdd.
Print Assumptions C17_gdd_any_method.
Print Assumptions C17_canopy_curves.
Print Assumptions C17_canopy_curves_general.
Print Assumptions C17_required_time_inverts.
Print Assumptions C17_fco2.
Print Assumptions C17_catalogue_nonempty.
