(* RInst.v — the real-number instance of [Num] used by every theorem, with the
   reflection lemmas and the [rnum] tactic that turn a model term into plain
   real arithmetic.  Rounding operators come from Flocq's [ZnearestE]. *)
From Coq Require Export Reals Lra Lia.
From Flocq Require Import Core.
From AC Require Export Num.
Local Open Scope R_scope.

Definition Rleb (x y : R) : bool := if Rle_dec x y then true else false.
Definition Rltb (x y : R) : bool := if Rlt_dec x y then true else false.
Definition Reqb (x y : R) : bool := if Req_EM_T x y then true else false.

Lemma Rleb_spec x y : reflect (x <= y) (Rleb x y).
Proof. unfold Rleb; destruct (Rle_dec x y); constructor; assumption. Qed.
Lemma Rltb_spec x y : reflect (x < y) (Rltb x y).
Proof. unfold Rltb; destruct (Rlt_dec x y); constructor; assumption. Qed.
Lemma Reqb_spec x y : reflect (x = y) (Reqb x y).
Proof. unfold Reqb; destruct (Req_EM_T x y); constructor; assumption. Qed.

(* x^y as Python's float ** : total, 0**y = 0 for y<>0, x**0 = 1 *)
Definition Rpow (x y : R) : R :=
  if Req_EM_T x 0 then (if Req_EM_T y 0 then 1 else 0) else Rpower x y.

Definition Rlog10 (x : R) : R := ln x / ln 10.
Definition pow10 (d : Z) : R := IZR (Z.pow 10 (Z.max d 0)).
Definition Rround (d : Z) (x : R) : R := IZR (ZnearestE (x * pow10 d)) / pow10 d.

Definition RN : Num R := {|
  nopp := Ropp;
  nadd := Rplus; nsub := Rminus; nmul := Rmult; ndiv := Rdiv;
  nleb := Rleb; nltb := Rltb; neqb := Reqb;
  nofZ := IZR;
  nexp := exp; nln := ln; nlog10 := Rlog10; npow := Rpow;
  nrint := ZnearestE;
  nround_np := Rround; nround_py := Rround;
  ntrunc := Ztrunc; nfloor := Zfloor |}.

#[export] Instance RNops : NumOps R := RN.

(* [rnum]: unfold the instance projections everywhere *)
Ltac rnum := unfold num_ops, RNops in *; cbn [RN nopp nadd nsub nmul ndiv nleb nltb neqb nofZ nexp nln nlog10 npow
                       nrint nround_np nround_py ntrunc nfloor] in *.

(* destruct one boolean comparison occurring in the goal (innermost first), leaving the real fact as hypothesis *)
Ltac no_if t := lazymatch t with context [if _ then _ else _] => fail | _ => idtac end.
Ltac rcase_goal :=
  match goal with
  | |- context [Rleb ?a ?b] => no_if a; no_if b; destruct (Rleb_spec a b); cbv beta iota
  | |- context [Rltb ?a ?b] => no_if a; no_if b; destruct (Rltb_spec a b); cbv beta iota
  | |- context [Reqb ?a ?b] => no_if a; no_if b; destruct (Reqb_spec a b); cbv beta iota
  end.
Ltac rcases := repeat rcase_goal.

Lemma Rleb_true x y : x <= y -> Rleb x y = true.
Proof. intros; destruct (Rleb_spec x y); [reflexivity|contradiction]. Qed.
Lemma Rleb_false x y : y < x -> Rleb x y = false.
Proof. intros; destruct (Rleb_spec x y); [lra|reflexivity]. Qed.
Lemma Rltb_true x y : x < y -> Rltb x y = true.
Proof. intros; destruct (Rltb_spec x y); [reflexivity|contradiction]. Qed.
Lemma Rltb_false x y : y <= x -> Rltb x y = false.
Proof. intros; destruct (Rltb_spec x y); [lra|reflexivity]. Qed.

Lemma pow10_pos d : 0 < pow10 d.
Proof.
  unfold pow10. apply IZR_lt. apply Z.pow_pos_nonneg; lia.
Qed.

(* the only fact the theorems use about round(x, d): it is within half a unit of the d-th decimal *)
Lemma Rround_err d x : Rabs (Rround d x - x) <= / 2 / pow10 d.
Proof.
  unfold Rround. pose proof (pow10_pos d) as Hp.
  pose proof (Znearest_half (fun z => negb (Z.even z)) (x * pow10 d)) as H.
  replace (IZR (ZnearestE (x * pow10 d)) / pow10 d - x)
    with ((IZR (ZnearestE (x * pow10 d)) - x * pow10 d) / pow10 d) by (field; lra).
  unfold Rdiv at 1. rewrite Rabs_mult, (Rabs_pos_eq (/ pow10 d)).
  - apply Rmult_le_compat_r; [left; apply Rinv_0_lt_compat; exact Hp | rewrite Rabs_minus_sym; exact H].
  - left; apply Rinv_0_lt_compat; exact Hp.
Qed.

Lemma Rround_mono d x y : x <= y -> Rround d x <= Rround d y.
Proof.
  intros H. unfold Rround. pose proof (pow10_pos d) as Hp.
  apply Rmult_le_compat_r; [left; apply Rinv_0_lt_compat; exact Hp|].
  apply IZR_le. apply Zrnd_le; [apply valid_rnd_N|]. apply Rmult_le_compat_r; lra.
Qed.

Lemma Rround_IZR d n : Rround d (IZR n / pow10 d) = IZR n / pow10 d.
Proof.
  unfold Rround. pose proof (pow10_pos d) as Hp.
  replace (IZR n / pow10 d * pow10 d) with (IZR n) by (field; lra).
  rewrite (@Zrnd_IZR ZnearestE (valid_rnd_N _)). reflexivity.
Qed.

Lemma exp_pos_R x : 0 < exp x. Proof. apply exp_pos. Qed.
Lemma exp_ge_1 x : 0 <= x -> 1 <= exp x.
Proof. intros [H|H]; [left; rewrite <- exp_0; apply exp_increasing; exact H| subst; rewrite exp_0; lra]. Qed.
Lemma exp_le_1 x : x <= 0 -> exp x <= 1.
Proof. intros [H|H]; [left; rewrite <- exp_0; apply exp_increasing; exact H| subst; rewrite exp_0; lra]. Qed.
Lemma exp_mono x y : x <= y -> exp x <= exp y.
Proof. intros [H|H]; [left; apply exp_increasing; exact H| subst; lra]. Qed.
Lemma exp_gt_1 x : 0 < x -> 1 < exp x.
Proof. intros H; rewrite <- exp_0; apply exp_increasing; exact H. Qed.
Lemma exp_lt_1 x : x < 0 -> exp x < 1.
Proof. intros H; rewrite <- exp_0; apply exp_increasing; exact H. Qed.
