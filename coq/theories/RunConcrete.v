(* RunConcrete.v — the CONCRETE WHOLE RUN: Clock.v's guarded run loop (a day whose processes raise stops the run)
   instantiated with the concrete day of DayConcrete.v (the 19 unit models), the season reset of Day.v and the
   maturity / death / summary tests of Day.v.  This is what `AquaCropModel.run_model` computes from the initialised
   parameter structures (profile, soil, managements, the crop of every season, CO2 of every season), the clock
   (planting / harvest steps, number of steps), the weather table and the initial state — every daily row of the three
   tables and every summary row.  Definitions only; numbers generic in F.  Tied to /repo bit-for-bit by the whole-run
   suite harness/suites/runc.py (the model's state flows from day to day; nothing recorded is fed back). *)
From AC Require Import Num Params Kernels Clock Day DayConcrete.
From AC.Crop Require Yield.

Section M.
  Context {F : Type} {N : NumOps F} {T : Yield.TrigOps F}.
  Variable par : DPar F.
  Variable crops : Z -> CropFull F.

  Definition defined_c (season : Z) (gs : bool) (dap tsc : Z) (w : W F) (s : DState F) : bool :=
    match day_proc_opt par (procs_concrete crops) season gs dap tsc w s with Some _ => true | None => false end.
  Definition proc_c : Z -> bool -> Z -> Z -> W F -> DState F -> DState F * DRow F :=
    day_proc par (total (procs_concrete crops)).

  Definition CModel := Model (DState F) (DRow F) (DOut F).
  Definition perform_c (c : ClockP) (ws : list (W F)) (m : CModel) : gres CModel :=
    perform_g (DState F) (W F) (DRow F) (DOut F) proc_c dead (matured par) (summary_of par) (reset par) defined_c c ws m.
  (* run_model(num_steps = k, initialize_model = False) *)
  Definition run_steps_c (c : ClockP) (ws : list (W F)) (k : nat) (m : CModel) : gres CModel :=
    run_steps_g (DState F) (W F) (DRow F) (DOut F) proc_c dead (matured par) (summary_of par) (reset par) defined_c c ws k m.
  (* run_model(till_termination = True) *)
  Definition run_till_c (c : ClockP) (ws : list (W F)) (fuel : nat) (m : CModel) : option (gres CModel) :=
    run_till_g (DState F) (W F) (DRow F) (DOut F) proc_c dead (matured par) (summary_of par) (reset par) defined_c c ws fuel m.
  (* the model right after initialisation, from the initial state *)
  Definition init_c (c : ClockP) (s0 : DState F) : res CModel := init_model (DState F) (DRow F) (DOut F) c s0.
End M.
