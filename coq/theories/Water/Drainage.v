(* Drainage.v — aquacrop/solution/drainage.py

   drainage(prof, th_init, th_fc_Adj_init) -> (thnew, DeepPerc, FluxOut)

   The compartment loop `for ii in range(th_init.shape[0])` is a zipper: the processed compartments are
   kept, nearest first, as triples (constants, thnew[i], FluxOut[i]); the redistribution loop
   (`while excess > 0 and precomp != 0`) is structural recursion over that reversed prefix.
   The loop-carried scalar is `drainsum`; `excess` is local to one iteration.

   The drainage ability ("dthdt as a function of theta") is written out six times in the Python with
   identical operation order; it is [drain_ability] here.  The block
   `if drainsum > cKsat: excess = excess + drainsum - cKsat; drainsum = cKsat` (5x) is [drain_cap].

   Python raising IndexError (profile arrays or th_fc_Adj shorter than th_init) = None.
   Two `if … elif …` pairs of the Python have no `else`; with a NaN operand neither arm runs and the
   preallocated 0 / the intermediate value stays in thnew[ii].  These fall-through arms are modelled
   (they are unreachable over the reals). *)
From AC Require Import Num Params.

Section M.
  Context {F : Type} {N : NumOps F}.
  Local Open Scope num_scope.

  (* a processed compartment: constants, thnew[i], FluxOut[i] *)
  Definition DDone : Type := (Comp F * F * F)%type.
  Definition dd_comp (d : DDone) : Comp F := fst (fst d).
  Definition dd_th (d : DDone) : F := snd (fst d).
  Definition dd_fl (d : DDone) : F := snd d.

  (* dthdt for water content [th] (lines 71-88, 148-166, 181-198, 225-242, 261-278) *)
  Definition drain_ability (c : Comp F) (adj th : F) : F :=
    if th <=? adj then #0
    else
      let d :=
        if th >=? c_th_s c then c_tau c * (c_th_s c - c_th_fc c)
        else c_tau c * (c_th_s c - c_th_fc c)
             * ((nexp num_ops (th - c_th_fc c) - #1) / (nexp num_ops (c_th_s c - c_th_fc c) - #1)) in
      if (th - d) <? adj then th - adj else d.

  (* restrict cumulative drainage to Ksat: (drainsum, excess) *)
  Definition drain_cap (c : Comp F) (drainsum excess : F) : F * F :=
    if drainsum >? c_ksat c then (c_ksat c, excess + drainsum - c_ksat c) else (drainsum, excess).

  (* theta needed to provide a drainage ability equal to [dthdt] (lines 123-134) *)
  Definition drain_thX (c : Comp F) (adj dthdt : F) : F :=
    if dthdt <=? #0 then adj
    else if c_tau c >? #0 then
      let A := #1 + ((dthdt * (nexp num_ops (c_th_s c - c_th_fc c) - #1)) / (c_tau c * (c_th_s c - c_th_fc c))) in
      let x := c_th_fc c + nln num_ops A in
      if x <? adj then adj else x
    else c_th_s c + 1#/100.

  (* after "update water content, drainsum = dthdt*1000*dz, cap" (lines 180-208 and 224-252) *)
  Definition drain_settle (c : Comp F) (adj thn : F) : F * F * F :=
    let d := drain_ability c adj thn in
    let r := drain_cap c (d * #1000 * c_dz c) #0 in
    (thn - d, fst r, snd r).

  (* one compartment before the redistribution loop: (thnew[ii], drainsum, excess) *)
  Definition drain_comp (c : Comp F) (t adj drainsum : F) : F * F * F :=
    let dthdt := drain_ability c adj t in
    let draincomp := dthdt * c_dz c * #1000 in
    let prethick := c_dzsum c - c_dz c in
    let drainmax := dthdt * #1000 * prethick in
    if drainsum <=? drainmax then
      let r := drain_cap c (drainsum + draincomp) #0 in
      (t - dthdt, fst r, snd r)
    else
      let dthdt := drainsum / (#1000 * prethick) in
      let thX := drain_thX c adj dthdt in
      let thn := t + (drainsum / (#1000 * c_dz c)) in
      if thX <=? c_th_s c then
        if thn >? thX then
          let ds1 := (thn - thX) * #1000 * c_dz c in
          let d := drain_ability c adj thX in
          let r := drain_cap c (ds1 + (d * #1000 * c_dz c)) #0 in
          (thX - d, fst r, snd r)
        else if thn >? adj then drain_settle c adj thn
        else (thn, #0, #0)
      else if thX >? c_th_s c then
        if thn <=? c_th_s c then
          if thn >? adj then drain_settle c adj thn
          else (thn, #0, #0)
        else if thn >? c_th_s c then
          let ex0 := (thn - c_th_s c) * #1000 * c_dz c in
          let d := drain_ability c adj thn in
          let draincomp := d * #1000 * c_dz c in
          let drainmax := d * #1000 * prethick in
          let drainmax := if drainmax >? ex0 then ex0 else drainmax in
          let r := drain_cap c (draincomp + drainmax) (ex0 - drainmax) in
          (c_th_s c - d, fst r, snd r)
        else (thn, drainsum, #0)            (* NaN water content: neither arm *)
      else (#0, drainsum, #0).              (* NaN thX: neither arm, thnew[ii] keeps the preallocated 0 *)

  (* redistribution of [excess] into the compartments above (current one first, [first] = true);
     returns the updated prefix and the excess left when the soil surface is reached — the Python
     drops that remainder silently *)
  Fixpoint drain_push (first : bool) (excess : F) (done : list DDone) : list DDone * F :=
    match done with
    | [] => ([], excess)
    | d :: r =>
      if excess >? #0 then
        let c := dd_comp d in
        let fl' := if first then dd_fl d else dd_fl d - excess in
        let t' := dd_th d + (excess / (#1000 * c_dz c)) in
        if t' >? c_th_s c then
          let res := drain_push false ((t' - c_th_s c) * #1000 * c_dz c) r in
          ((c, c_th_s c, fl') :: fst res, snd res)
        else ((c, t', fl') :: r, #0)
      else (done, excess)
    end.

  (* the compartment loop; result (processed compartments nearest first, drainsum) *)
  Fixpoint drain_loop (p : list (Comp F)) (fc th : list F) (done : list DDone) (drainsum : F)
           {struct th} : option (list DDone * F) :=
    match th with
    | [] => Some (done, drainsum)
    | t :: th' =>
      match p, fc with
      | c :: p', a :: fc' =>
        let r := drain_comp c t a drainsum in
        let thn := fst (fst r) in
        let ds := snd (fst r) in
        let ex := snd r in
        drain_loop p' fc' th' (fst (drain_push true ex ((c, thn, ds) :: done))) ds
      | _, _ => None
      end
    end.

  (* (thnew, DeepPerc, FluxOut) *)
  Definition drainage (p : list (Comp F)) (th fcadj : list F) : option (list F * F * list F) :=
    match drain_loop p fcadj th [] #0 with
    | None => None
    | Some (done, ds) => Some (rev (map dd_th done), ds, rev (map dd_fl done))
    end.
End M.
