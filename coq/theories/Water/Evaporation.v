(* Evaporation.v — aquacrop/solution/soil_evaporation.py and its helper evap_layer_water_content.py

   soil_evaporation(EvapTimeSteps, SimOffSeason, TimeStepCounter, prof, EvapZmin, EvapZmax, REW, Kex, fwcc, fWrelExp, fevap,
                    CalendarType, Senescence, IrrMethod, WetSurf, Mulches, fMulch, MulchPct, DAP, Wsurf, EvapZ, Stage2, th,
                    DelayedCDs, GDDcum, DelayedGDDs, CCxW, CCadj, CCxAct, CC, PrematSenes, SurfaceStorage, Wstage2, Epot,
                    et0, Infl, Rain, Irr, growing_season)
     -> (Epot, th, Stage2, Wstage2, Wsurf, SurfaceStorage, EvapZ, EsAct, EsPot)

   Remarks on the code as it is (all modelled faithfully):
   * `np.sum(prof.dzsum < z) + 1` counts over the WHOLE array; the loops then visit a PREFIX of that length
     (evap_layer_water_content: count+1 compartments; the two extraction loops `while ... and comp < comp_sto` with
     `comp` starting at -1 and incremented first: up to count+2 compartments — one more than the layer sums).
   * both stages clamp the available water `AvW` at 0 (stage 2 since repo commit 4d991b1; before it a negative `AvW`
     was "extracted" from the extra compartment, whose factor `1 - (dzsum - z)/dz` is <= 0).
   * `Wsurf = Wsurf - EsAct` subtracts the evaporation taken from ponded water as well.
   * the incoming `NewCond_Epot` is never read (overwritten by EsPot); it is not an argument of the model.
   * `x ** 2`, `x ** 3` are libm pow (both for float and np.float64); pow(x,2) differs from x*x on ~0.09 % of doubles,
     so [npow] is used for both.
   * `round(., 2)` is always applied to an np.float64 (the layer sums come from array elements): [nround_np].
   * IndexError (profile shorter than the evaporation layer needs, th shorter than the profile), UnboundLocalError
     (`tAdj` for a CalendarType other than 1, 2 in the growing season) = None.  EvapTimeSteps <= 0 is outside the
     modelled domain (None; Python raises ZeroDivisionError only when ToExtract happens to be a Python float). *)
From AC Require Import Num Params.

Section M.
  Context {F : Type} {N : NumOps F}.
  Local Open Scope num_scope.

  (* proportion of compartment [c] inside a layer of depth [z] *)
  Definition ev_factor (c : Comp F) (z : F) : F :=
    if c_dzsum c >? z then #1 - ((c_dzsum c - z) / c_dz c) else #1.

  (* np.sum(prof.dzsum < z) *)
  Definition ev_count (p : list (Comp F)) (z : F) : Z := count_if (fun c => c_dzsum c <? z) p.

  Record EL := { el_sat : F; el_fc : F; el_wp : F; el_dry : F; el_act : F }.
  Definition el0 : EL := {| el_sat := #0; el_fc := #0; el_wp := #0; el_dry := #0; el_act := #0 |}.

  (* `for ii in range(comp_sto)` *)
  Fixpoint elwc_loop (n : nat) (z : F) (p : list (Comp F)) (th : list F) (a : EL) : option EL :=
    match n with
    | O => Some a
    | S n' =>
      match p, th with
      | c :: p', t :: th' =>
        let f := ev_factor c z in
        elwc_loop n' z p' th'
          {| el_sat := el_sat a + (f * #1000 * c_th_s c * c_dz c);
             el_fc := el_fc a + (f * #1000 * c_th_fc c * c_dz c);
             el_wp := el_wp a + (f * #1000 * c_th_wp c * c_dz c);
             el_dry := el_dry a + (f * #1000 * c_th_dry c * c_dz c);
             el_act := el_act a + (f * #1000 * t * c_dz c) |}
      | _, _ => None
      end
    end.

  Definition evap_layer_water_content (th : list F) (z : F) (p : list (Comp F)) : option EL :=
    match elwc_loop (Z.to_nat (ev_count p z + 1)) z p th el0 with
    | None => None
    | Some a => Some {| el_sat := el_sat a; el_fc := el_fc a; el_wp := el_wp a; el_dry := el_dry a;
                        el_act := if el_act a <? #0 then #0 else el_act a |}
    end.

  (* proportional water storage for the start of stage two *)
  Definition ev_wstage2 (e : EL) (rew : F) : F :=
    let w := nround_np num_ops 2 ((el_act e - (el_fc e - rew)) / (el_sat e - (el_fc e - rew))) in
    if w <? #0 then #0 else w.

  (* the two extraction loops `while (Extract > 0) and (comp < comp_sto)` (identical in stage 1 and stage 2).
     [n] = comp_sto + 1 = number of compartments that may be visited.  Result (th, Extract, EsAct, ToExtract). *)
  Fixpoint ev_extract (n : nat) (z : F) (p : list (Comp F)) (th : list F) (ex es te : F)
    : option (list F * F * F * F) :=
    if ex >? #0 then
      match n with
      | O => Some (th, ex, es, te)
      | S n' =>
        match p, th with
        | c :: p', t :: th' =>
          let f := ev_factor c z in
          let wdry := #1000 * c_th_dry c * c_dz c in
          let w := #1000 * t * c_dz c in
          let avw0 := (w - wdry) * f in
          let avw := if avw0 <? #0 then #0 else avw0 in
          if avw >=? ex then
            Some ((w - ex) / (#1000 * c_dz c) :: th', #0, es + ex, te - ex)
          else
            match ev_extract n' z p' th' (ex - avw) (es + avw) (te - avw) with
            | None => None
            | Some (thr, ex', es', te') => Some ((w - avw) / (#1000 * c_dz c) :: thr, ex', es', te')
            end
        | _, _ => None
        end
      end
    else Some (th, ex, es, te).

  (* relative depletion of the evaporation layer in stage 2, and the expansion threshold *)
  Definition ev_wrel (e : EL) (wstage2 rew : F) : F :=
    let wupper := wstage2 * (el_sat e - (el_fc e - rew)) + (el_fc e - rew) in
    let wlower := el_dry e in
    (el_act e - wlower) / (wupper - wlower).
  Definition ev_wcheck (fwrelexp zmin zmax z : F) : F := fwrelexp * ((zmax - z) / (zmax - zmin)).

  (* `while (Wrel < Wcheck) and (EvapZ < EvapZmax)`: expand the layer by 1 mm; result (EvapZ, Wrel) *)
  Fixpoint ev_expand (fuel : nat) (p : list (Comp F)) (th : list F) (wstage2 rew fwrelexp zmin zmax z wrel wcheck : F)
    : option (F * F) :=
    if (wrel <? wcheck) && (z <? zmax) then
      match fuel with
      | O => None
      | S fuel' =>
        let z' := z + 1#/1000 in
        match evap_layer_water_content th z' p with
        | None => None
        | Some e => ev_expand fuel' p th wstage2 rew fwrelexp zmin zmax z' (ev_wrel e wstage2 rew) (ev_wcheck fwrelexp zmin zmax z')
        end
      end
    else Some (z, wrel).

  (* iterations of the expansion loop started at depth z: at most ceil((zmax - z)/0.001) *)
  Definition ev_fuel (zmax z : F) : nat := Z.to_nat (ntrunc num_ops ((zmax - z) * #1000) + 2).

  Definition ev_kr (fevap wrel : F) : F :=
    let kr := (nexp num_ops (fevap * wrel) - #1) / (nexp num_ops fevap - #1) in
    if kr >? #1 then #1 else kr.

  (* first half of a sub-daily step: expand the layer if needed; result (EvapZ, ToExtractStg2) *)
  Definition ev_step_demand (p : list (Comp F)) (wstage2 rew fwrelexp fevap zmin zmax edt : F) (th : list F) (z : F)
    : option (F * F) :=
    match evap_layer_water_content th z p with
    | None => None
    | Some e =>
      let wrel := ev_wrel e wstage2 rew in
      let ex :=
        if zmax >? zmin then
          ev_expand (ev_fuel zmax z) p th wstage2 rew fwrelexp zmin zmax z wrel (ev_wcheck fwrelexp zmin zmax z)
        else Some (z, wrel) in
      match ex with
      | None => None
      | Some (z', wrel') => Some (z', ev_kr fevap wrel' * edt)
      end
    end.

  (* one sub-daily step of stage 2: state (th, EvapZ, EsAct, ToExtract) *)
  Definition ev_stage2_step (p : list (Comp F)) (wstage2 rew fwrelexp fevap zmin zmax edt : F)
             (s : list F * F * F * F) : option (list F * F * F * F) :=
    let '(th, z, es, te) := s in
    match ev_step_demand p wstage2 rew fwrelexp fevap zmin zmax edt th z with
    | None => None
    | Some (z', toextractstg2) =>
      match ev_extract (Z.to_nat (ev_count p z' + 2)) z' p th toextractstg2 es te with
      | None => None
      | Some (th', _, es', te') => Some (th', z', es', te')
      end
    end.

  Fixpoint ev_stage2_loop (k : nat) (p : list (Comp F)) (wstage2 rew fwrelexp fevap zmin zmax edt : F)
           (s : list F * F * F * F) : option (list F * F * F * F) :=
    match k with
    | O => Some s
    | S k' =>
      match ev_stage2_step p wstage2 rew fwrelexp fevap zmin zmax edt s with
      | None => None
      | Some s' => ev_stage2_loop k' p wstage2 rew fwrelexp fevap zmin zmax edt s'
      end
    end.

  (* ---- parameters, state, result ------------------------------------------------------------------- *)
  Record EvPar := {
    ep_steps : Z; ep_simoff : bool;
    ep_zmin : F; ep_zmax : F; ep_rew : F; ep_kex : F; ep_fwcc : F; ep_fwrelexp : F; ep_fevap : F;
    ep_caltype : Z; ep_senescence : F; ep_irrmethod : Z; ep_wetsurf : F;
    ep_mulches : bool; ep_fmulch : F; ep_mulchpct : F }.

  Record EvState := {
    es_tsc : Z; es_dap : Z; es_wsurf : F; es_evapz : F; es_stage2 : bool;
    es_delayedcds : F; es_gddcum : F; es_delayedgdds : F;
    es_ccxw : F; es_ccadj : F; es_ccxact : F; es_cc : F; es_prematsenes : bool;
    es_surf : F; es_wstage2 : F }.

  Record EvOut := {
    eo_epot : F; eo_th : list F; eo_stage2 : bool; eo_wstage2 : F; eo_wsurf : F; eo_surf : F; eo_evapz : F;
    eo_es : F; eo_espot : F }.

  (* potential soil evaporation in the growing season, before mulches / partial wetting *)
  Definition ev_espot_gs (par : EvPar) (st : EvState) (et0 tadj : F) : F :=
    let kex := ep_kex par in let fwcc := ep_fwcc par in
    let ccxact := es_ccxact st in let cc := es_cc st in
    let espotmax := kex * et0 * (#1 - es_ccxw st * (fwcc / #100)) in
    let espot0 := kex * (#1 - es_ccadj st) * et0 in
    let espot1 := if espot0 <? #0 then #0 else espot0 in
    let espot2 :=
      if (tadj >? ep_senescence par) && (ccxact >? #0) then
        let mult := if cc >? (ccxact / #2) then (if cc >? ccxact then #0 else (ccxact - cc) / (ccxact / #2)) else #1 in
        let e := espot1 * (#1 - ccxact * (fwcc / #100) * mult) in
        let ccxactadj := (172#/100 * ccxact) - npow num_ops ccxact #2 + 3#/10 * npow num_ops ccxact #3 in
        let espotmin0 := kex * (#1 - ccxactadj) * et0 in
        let espotmin := if espotmin0 <? #0 then #0 else espotmin0 in
        if e <? espotmin then espotmin else if e >? espotmax then espotmax else e
      else espot1 in
    if es_prematsenes st then (if espot2 >? espotmax then espotmax else espot2) else espot2.

  (* None = UnboundLocalError on tAdj *)
  Definition ev_espot_base (par : EvPar) (st : EvState) (et0 : F) (gs : bool) : option F :=
    if gs then
      if (ep_caltype par =? 1)%Z then Some (ev_espot_gs par st et0 (# (es_dap st) - es_delayedcds st))
      else if (ep_caltype par =? 2)%Z then Some (ev_espot_gs par st et0 (es_gddcum st - es_delayedgdds st))
      else None
    else Some (ep_kex par * et0).

  (* mulches and partial wetting: EsPot = min(EsPotIrr, EsPotMul) *)
  Definition ev_espot_adj (par : EvPar) (surf rain irr espot : F) : F :=
    let espotmul :=
      if surf <? 1#/1000000 then
        (if ep_mulches par then espot * (#1 - ep_fmulch par * (ep_mulchpct par / #100)) else espot)
      else espot in
    let espotirr :=
      if (irr >? #0) && negb (ep_irrmethod par =? 4)%Z then
        (if (rain >? #1) || (surf >? #0) then espot else espot * (ep_wetsurf par / #100))
      else espot in
    pmin espotirr espotmul.

  (* evaporation from ponded water: (EsAct, SurfaceStorage) *)
  Definition ev_pond_all (surf espot : F) : bool := (surf >? #0) && (surf >? espot).
  Definition ev_pond_part (surf espot : F) : bool := (surf >? #0) && negb (surf >? espot).
  Definition ev_pond_es (surf espot : F) : F :=
    if ev_pond_all surf espot then espot else if ev_pond_part surf espot then surf else #0.
  Definition ev_pond_surf (surf espot : F) : F :=
    if ev_pond_all surf espot then surf - ev_pond_es surf espot else if ev_pond_part surf espot then #0 else surf.

  (* everything up to the end of stage 1 *)
  Record EvMid := {
    em_espot : F; em_surf : F; em_wsurf : F; em_wstage2 : F; em_stage2 : bool; em_evapz : F;
    em_th : list F; em_es : F; em_te : F }.

  Definition ev_stage1 (par : EvPar) (p : list (Comp F)) (st : EvState) (th : list F)
             (et0 infl rain irr : F) (gs : bool) : option EvMid :=
    let zmin := ep_zmin par in let rew := ep_rew par in
    (* day-1 initialisation: (Wsurf, EvapZ, Stage2, Wstage2) *)
    let init :=
      if (es_tsc st =? 0)%Z || ((es_dap st =? 1)%Z && negb (ep_simoff par)) then
        match evap_layer_water_content th zmin p with
        | None => None
        | Some e => Some (#0, zmin, true, ev_wstage2 e rew)
        end
      else Some (es_wsurf st, es_evapz st, es_stage2 st, es_wstage2 st) in
    match init with
    | None => None
    | Some (wsurf0, evapz0, stage20, wstage20) =>
      (* stage 1 preparation: rewetting by rain / irrigation *)
      let rewet := ((rain >? #0) || ((irr >? #0) && negb (ep_irrmethod par =? 4)%Z)) && (infl >? #0) in
      let wsurf1 := if rewet then (if infl >? rew then rew else infl) else wsurf0 in
      let wstage21 := if rewet then #0 else wstage20 in
      let evapz1 := if rewet then zmin else evapz0 in
      let stage21 := if rewet then false else stage20 in
      match ev_espot_base par st et0 gs with
      | None => None
      | Some espot_b =>
        let surf := es_surf st in
        let espot := ev_espot_adj par surf rain irr espot_b in
        (* surface (ponded) evaporation *)
        let pond_part := ev_pond_part surf espot in
        let esact0 := ev_pond_es surf espot in
        let surf' := ev_pond_surf surf espot in
        let wsurf2 := if pond_part then rew else wsurf1 in
        let wstage22 := if pond_part then #0 else wstage21 in
        let evapz2 := if pond_part then zmin else evapz1 in
        let stage22 := if pond_part then false else stage21 in
        (* stage 1 *)
        let toextract0 := espot - esact0 in
        let ex1 := pmin toextract0 wsurf2 in
        let mk th1 es1 te1 ws wst :=
          {| em_espot := espot; em_surf := surf'; em_wsurf := ws; em_wstage2 := wst; em_stage2 := stage22;
             em_evapz := evapz2; em_th := th1; em_es := es1; em_te := te1 |} in
        if ex1 >? #0 then
          match ev_extract (Z.to_nat (ev_count p zmin + 2)) zmin p th ex1 esact0 toextract0 with
          | None => None
          | Some (th1, ex1', es1, te1) =>
            let ws := wsurf2 - es1 in
            let ws := if (ws <? #0) || (ex1' >? 1#/10000) then #0 else ws in
            if ws <? 1#/10000 then
              match evap_layer_water_content th1 evapz2 p with
              | None => None
              | Some e => Some (mk th1 es1 te1 ws (ev_wstage2 e rew))
              end
            else Some (mk th1 es1 te1 ws wstage22)
          end
        else Some (mk th esact0 toextract0 wsurf2 wstage22)
      end
    end.

  Definition soil_evaporation (par : EvPar) (p : list (Comp F)) (st : EvState) (th : list F)
             (et0 infl rain irr : F) (gs : bool) : option EvOut :=
    if (ep_steps par <=? 0)%Z then None else
    match ev_stage1 par p st th et0 infl rain irr gs with
    | None => None
    | Some m =>
      let espot := em_espot m in
      (* stage 2 *)
      if em_te m >? #0 then
        let edt := em_te m / # (ep_steps par) in
        match ev_stage2_loop (Z.to_nat (ep_steps par)) p (em_wstage2 m) (ep_rew par) (ep_fwrelexp par) (ep_fevap par)
                             (ep_zmin par) (ep_zmax par) edt (em_th m, em_evapz m, em_es m, em_te m) with
        | None => None
        | Some (th2, z2, es2, _) =>
          Some {| eo_epot := espot; eo_th := th2; eo_stage2 := true; eo_wstage2 := em_wstage2 m; eo_wsurf := em_wsurf m;
                  eo_surf := em_surf m; eo_evapz := z2; eo_es := es2; eo_espot := espot |}
        end
      else
        Some {| eo_epot := espot; eo_th := em_th m; eo_stage2 := em_stage2 m; eo_wstage2 := em_wstage2 m;
                eo_wsurf := em_wsurf m; eo_surf := em_surf m; eo_evapz := em_evapz m; eo_es := em_es m; eo_espot := espot |}
    end.
End M.
