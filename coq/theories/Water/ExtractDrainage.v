(* ExtractDrainage.v — stand-alone extraction of the drainage unit (ExtrOcamlBasic only). *)
From AC Require Import Num Params.
From AC.Water Require Import Drainage.
From Coq Require Import ExtrOcamlBasic.
Definition keep_nat : nat -> nat := S.
Extraction Language OCaml.
Extraction "ocaml/model_drainage.ml" keep_nat storage drainage.
