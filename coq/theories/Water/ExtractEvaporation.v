(* ExtractEvaporation.v — stand-alone extraction of the evaporation unit (ExtrOcamlBasic only). *)
From AC Require Import Num Params.
From AC.Water Require Import Evaporation.
From Coq Require Import ExtrOcamlBasic.
Definition keep_nat : nat -> nat := S.
Extraction Language OCaml.
Extraction "ocaml/model_evap.ml" keep_nat storage evap_layer_water_content soil_evaporation.
