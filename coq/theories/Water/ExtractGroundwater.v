(* ExtractGroundwater.v — stand-alone extraction of the groundwater unit (ExtrOcamlBasic only). *)
From AC Require Import Num Params.
From AC.Water Require Import Groundwater.
From Coq Require Import ExtrOcamlBasic.
Definition keep_nat : nat -> nat := S.
Extraction Language OCaml.
Extraction "ocaml/model_gw.ml" keep_nat storage check_groundwater_table capillary_rise groundwater_inflow.
