(* ExtractInfiltration.v — stand-alone extraction of the infiltration unit (ExtrOcamlBasic only). *)
From AC Require Import Num Params.
From AC.Water Require Import Infiltration.
From Coq Require Import ExtrOcamlBasic.
Definition keep_nat : nat -> nat := S.
Extraction Language OCaml.
Extraction "ocaml/model_infiltration.ml" keep_nat storage infiltration.
