(* ExtractRainIrr.v — stand-alone extraction of the rainirr unit (ExtrOcamlBasic only). *)
From AC Require Import Num Params.
From AC.Water Require Import RootZone RainIrr.
From Coq Require Import ExtrOcamlBasic.
Definition keep_nat : nat -> nat := S.
Extraction Language OCaml.
Extraction "ocaml/model_rainirr.ml" keep_nat storage rainfall_partition irrigation growth_stage.
