(* ExtractTranspiration.v — stand-alone extraction of the transpiration unit (ExtrOcamlBasic only). *)
From AC Require Import Num Params Kernels.
From AC.Water Require Import RootZone Transpiration.
From Coq Require Import ExtrOcamlBasic.
Definition keep_nat : nat -> nat := S.
Extraction Language OCaml.
Extraction "ocaml/model_transp.ml" keep_nat storage transpiration.
