(* Groundwater.v — aquacrop/solution/check_groundwater_table.py, capillary_rise.py, groundwater_inflow.py

   The three functions read and write fields of the state object `NewCond`; the model takes the fields read as
   explicit arguments and returns the fields written.

   check_groundwater_table(prof, _, _, th_fc_Adj, water_table, z_gw) -> (th_fc_Adj, wt_in_soil, z_gw)
     water_table <> 1 : (th_fc_Adj unchanged, None, None)                      -> Some (fcadj0, None)
     water_table  = 1 : z_gw < 0 or NaN -> UnboundLocalError (NewCond_WTinSoil) -> None
                        else (thfcAdj, any(zMid >= z_gw), z_gw)                 -> Some (fcadj, Some (wt_in_soil, z_gw))
   capillary_rise(prof, nLayer, fshape_cr, NewCond{th, th_fc_Adj, z_gw}, FluxOut, water_table) -> (th, CrTot)
   groundwater_inflow(prof, NewCond{th, wt_in_soil, z_gw}) -> (th, GwIn)

   Remarks on the code that exists:
   * check_groundwater_table walks the compartments bottom-up and, at the first compartment that is "far" from the
     table (z_gw - zMid >= Xmax), assigns th_fc to that compartment AND EVERY COMPARTMENT ABOVE IT without testing them
     ([gw_fcadj_loop]: the flag is "the exit already happened below").
   * capillary_rise: the block marked "this needs fixing, will currently break" is dead: after
     `assert prof.Layer[-1] == Soil_nLayer` the condition `layeri < Soil_nLayer` of its `while` is false, and the
     `zTopLayer` sum it uses has no other reader.  It is therefore not modelled (only the assertion is).
   * capillary_rise keeps its own running compartment bottom `zBot = dzsum[-1] - dz[n-1] - ...` ([zbot] below). *)
From AC Require Import Num Params.

Section M.
  Context {F : Type} {N : NumOps F}.
  Local Open Scope num_scope.

  (* ------------------------------------------------------------------ check_groundwater_table *)
  Definition gw_xmax (c : Comp F) : F :=
    if c_th_fc c <=? 1#/10 then #1
    else if c_th_fc c >=? 3#/10 then #2
    else
      let pF := #2 + ((3#/10 * (c_th_fc c - 1#/10)) / 2#/10) in
      nexp num_ops (pF * nln num_ops #10) / #100.

  (* `(NewCond_zGW < 0) or ((NewCond_zGW - zMid[compi]) >= Xmax)` *)
  Definition gw_far (zgw : F) (c : Comp F) : bool :=
    (zgw <? #0) || (zgw - c_zmid c >=? gw_xmax c).

  (* the `else` branch: value of a compartment that is near the table *)
  Definition gw_fcadj_comp (zgw : F) (c : Comp F) : F :=
    if c_th_fc c >=? c_th_s c then c_th_fc c
    else if c_zmid c >=? zgw then c_th_s c
    else
      let xmax := gw_xmax c in
      let dV := c_th_s c - c_th_fc c in
      let d := c_zmid c - (zgw - xmax) in
      c_th_fc c + ((dV / (xmax * xmax)) * npow num_ops d #2).   (* `** 2` is libm pow: NOT always equal to d*d in doubles *)

  (* bottom-up loop with early exit, written top-down: the boolean says whether the exit
     (`compi = -1`) has happened in this compartment or in one below it *)
  Fixpoint gw_fcadj_loop (zgw : F) (p : list (Comp F)) : list F * bool :=
    match p with
    | [] => ([], false)
    | c :: r =>
      let res := gw_fcadj_loop zgw r in
      if snd res then (c_th_fc c :: fst res, true)
      else if gw_far zgw c then (c_th_fc c :: fst res, true)
      else (gw_fcadj_comp zgw c :: fst res, false)
    end.

  Definition gw_wt_in_soil (zgw : F) (p : list (Comp F)) : bool :=
    existsb (fun c => c_zmid c >=? zgw) p.

  Definition check_groundwater_table (p : list (Comp F)) (fcadj0 : list F) (wt : Z) (zgw : F)
    : option (list F * option (bool * F)) :=
    if Z.eqb wt 1 then
      if zgw >=? #0 then Some (fst (gw_fcadj_loop zgw p), Some (gw_wt_in_soil zgw p, zgw))
      else None                                  (* NewCond_WTinSoil unbound at `return` *)
    else Some (fcadj0, None).

  (* ------------------------------------------------------------------ groundwater_inflow *)
  (* `for ii in range(idx, len(prof.Comp))`: saturate; [g] is the running GwIn; None = th shorter than the profile *)
  Fixpoint gwi_sat (p : list (Comp F)) (th : list F) (g : F) : option (list F * F) :=
    match p with
    | [] => Some (th, g)
    | c :: p' =>
      match th with
      | [] => None
      | t :: th' =>
        if t <? c_th_s c then
          match gwi_sat p' th' (g + (((c_th_s c - t) * #1000) * c_dz c)) with
          | Some (l, g') => Some (c_th_s c :: l, g')
          | None => None
          end
        else
          match gwi_sat p' th' g with
          | Some (l, g') => Some (t :: l, g')
          | None => None
          end
      end
    end.

  (* `idx = np.argwhere(zMid >= z_gw).flatten()[0]` then the loop; None = IndexError (no such compartment,
     or th shorter than the profile) *)
  Fixpoint gwi_find (zgw : F) (p : list (Comp F)) (th : list F) : option (list F * F) :=
    match p with
    | [] => None
    | c :: p' =>
      if c_zmid c >=? zgw then gwi_sat p th #0
      else
        match th with
        | [] => None
        | t :: th' =>
          match gwi_find zgw p' th' with
          | Some (l, g) => Some (t :: l, g)
          | None => None
          end
        end
    end.

  Definition groundwater_inflow (p : list (Comp F)) (th : list F) (wt_in_soil : bool) (zgw : F)
    : option (list F * F) :=
    if wt_in_soil then gwi_find zgw p th else Some (th, #0).

  (* ------------------------------------------------------------------ capillary_rise *)
  (* maximum capillary rise that a compartment whose reference depth is [zbotmid] can receive *)
  Definition cr_lim (zgw : F) (c : Comp F) (zbotmid : F) : F :=
    if (c_ksat c >? #0) && (zgw >? #0) && (zgw - zbotmid <? #4) then
      if zbotmid >=? zgw then #99
      else
        let m := nexp num_ops ((nln num_ops (zgw - zbotmid) - c_bcr c) / c_acr c) in
        if m >? #99 then #99 else m
    else #0.

  (* driving force *)
  Definition cr_df (fshape : F) (c : Comp F) (t a : F) : F :=
    if (t >=? c_th_wp c) && (fshape >? #0) then
      let df := #1 - npow num_ops ((t - c_th_wp c) / (a - c_th_wp c)) fshape in
      if df >? #1 then #1 else if df <? #0 then #0 else df
    else #1.

  (* relative hydraulic conductivity *)
  Definition cr_krel (c : Comp F) (t : F) : F :=
    let thr := (c_th_wp c + c_th_fc c) / #2 in
    if t <? thr then
      if (t <=? c_th_wp c) || (thr <=? c_th_wp c) then #0
      else (t - c_th_wp c) / (thr - c_th_wp c)
    else #1.

  (* body of the loop for one compartment: (th[compi], MaxCR, WCr) after the "store water" block *)
  Definition cr_comp (zgw fshape : F) (c : Comp F) (t a maxcr zbot wcr : F) : F * F * F :=
    let df := cr_df fshape c t a in
    let krel := cr_krel c t in
    let dth := nround_np num_ops 4 (a - t) in
    if (dth >? #0) && (zbot - (c_dz c / #2) <? zgw) then
      let dthmax := ((krel * df) * maxcr) / (#1000 * c_dz c) in
      if dth >=? dthmax then (t + dthmax, #0, wcr + ((dthmax * #1000) * c_dz c))
      else (a, (krel * maxcr) - ((dth * #1000) * c_dz c), wcr + ((dth * #1000) * c_dz c))
    else (t, maxcr, wcr).

  (* a compartment with its state: constants, th, th_fc_Adj, FluxOut *)
  Definition Item : Type := (Comp F * F * F * F)%type.
  Definition i_comp (x : Item) : Comp F := fst (fst (fst x)).
  Definition i_th (x : Item) : F := snd (fst (fst x)).
  Definition i_fc (x : Item) : F := snd (fst x).
  Definition i_fl (x : Item) : F := snd x.

  (* the `while` loop over the compartments, bottom first ([rp] is the reversed profile);
     returns the water contents (bottom first) and WCr *)
  Fixpoint cr_loop (zgw fshape : F) (rp : list Item) (maxcr zbot wcr : F) : list F * F :=
    match rp with
    | [] => ([], wcr)
    | x :: r =>
      if Z.ltb 0 (nrint num_ops (maxcr * #1000)) && Z.eqb (nrint num_ops (i_fl x * #1000)) 0 then
        let c := i_comp x in
        let s := cr_comp zgw fshape c (i_th x) (i_fc x) maxcr zbot wcr in
        let t1 := fst (fst s) in
        let maxcr1 := snd (fst s) in
        let wcr1 := snd s in
        let zbot1 := zbot - c_dz c in
        let maxcr2 :=
          match r with
          | [] => maxcr1
          | y :: _ =>
            let lim := cr_lim zgw (i_comp y) (zbot1 - (c_dz (i_comp y) / #2)) in
            if maxcr1 >? lim then lim else maxcr1
          end in
        let res := cr_loop zgw fshape r maxcr2 zbot1 wcr1 in
        (t1 :: fst res, snd res)
      else (map i_th rp, wcr)
    end.

  (* the first len(prof) entries of th / th_fc_Adj / FluxOut next to their compartments, and the rest of th.
     None when one of the arrays is shorter than the profile (IndexError in Python as soon as the loop reaches the
     missing index; the model is defined on arrays at least as long as the profile) *)
  Fixpoint cr_zip (p : list (Comp F)) (th fc fl : list F) : option (list Item * list F) :=
    match p with
    | [] => Some ([], th)
    | c :: p' =>
      match th, fc, fl with
      | t :: th', a :: fc', f :: fl' =>
        match cr_zip p' th' fc' fl' with
        | Some (l, rest) => Some ((c, t, a, f) :: l, rest)
        | None => None
        end
      | _, _, _ => None
      end
    end.

  Definition capillary_rise (p : list (Comp F)) (nlayer : Z) (fshape : F) (th fcadj : list F) (zgw : F)
             (flux : list F) (wt : Z) : option (list F * F) :=
    if Z.eqb wt 0 then Some (th, #0)
    else if Z.eqb wt 1 then
      match cr_zip p th fcadj flux with
      | None => None
      | Some (items, rest) =>
        match rev items with
        | [] => None                                       (* prof.dzsum[-1] on an empty profile *)
        | (x :: _) as rp =>
          let c := i_comp x in
          if negb (Z.eqb (c_layer c) nlayer) then None     (* assert layeri == Soil_nLayer *)
          else
            let res := cr_loop zgw fshape rp (cr_lim zgw c (c_zmid c)) (c_dzsum c) #0 in
            Some (rev (fst res) ++ rest, snd res)
        end
      end
    else None.                                             (* CrTot unbound *)
End M.
