(* Infiltration.v — aquacrop/solution/infiltration.py

   infiltration(prof, SurfaceStorage, th_fc_Adj, th, Infl, Irr, AppEff, Bunds, zBund, FluxOut, DeepPerc0, Runoff0, growing_season)
     -> (th, SurfaceStorage, DeepPerc, RunoffTot, Infl, FluxOut)

   The compartment loop is a zipper: the processed compartments are kept, nearest first, as
   triples (constants, updated water content, updated outflow); the back-up loop
   (`while excess > 0 and precomp != 0`) is structural recursion over that reversed prefix.
   The unprocessed suffix still holds the initial values, which is why `InitCond_th[ii]`,
   `thnew[ii]` and the incoming `FluxOut[ii]` are the same list heads when compartment ii is entered
   (the back-up loop started from compartment j only writes indices <= j).
   `InitCond_th_fc_Adj[ii]` is modelled lazily (inf_theta0_opt): a too short th_fc_Adj raises IndexError only in the
   branches that read it.  zBund is FieldMngt.z_bund as stored, i.e. mm; the literal threshold is 0.001. *)
From AC Require Import Num Params.

Section M.
  Context {F : Type} {N : NumOps F}.
  Local Open Scope num_scope.

  (* a processed compartment: constants, thnew[i], FluxOut[i] *)
  Definition Done : Type := (Comp F * F * F)%type.
  Definition d_comp (d : Done) : Comp F := fst (fst d).
  Definition d_th (d : Done) : F := snd (fst d).
  Definition d_fl (d : Done) : F := snd d.

  (* back-up of [excess] into the compartments above (current one first); returns the updated
     prefix and the excess left when the soil surface is reached *)
  Fixpoint inf_backup (excess : F) (done : list Done) : list Done * F :=
    match done with
    | [] => ([], excess)
    | d :: r =>
      if excess >? #0 then
        let c := d_comp d in
        let fl' := d_fl d - excess in
        let t' := d_th d + (excess / (c_dz c * #1000)) in
        if t' >? c_th_s c then
          let res := inf_backup ((t' - c_th_s c) * #1000 * c_dz c) r in
          ((c, c_th_s c, fl') :: fst res, snd res)
        else ((c, t', fl') :: r, #0)
      else (done, excess)
    end.

  Definition inf_dthdtS (c : Comp F) : F := c_tau c * (c_th_s c - c_th_fc c).

  (* water content needed to let dthdt0 drain: th_fc + log(A) *)
  Definition inf_theta_log (c : Comp F) (dthdt0 : F) : F :=
    c_th_fc c + nln num_ops (#1 + ((dthdt0 * (nexp num_ops (c_th_s c - c_th_fc c) - #1))
                                      / (c_tau c * (c_th_s c - c_th_fc c)))).

  (* (theta0, dthdt0) after the "check drainage ability" block, [fcadj] = InitCond_th_fc_Adj[ii] *)
  Definition inf_theta0 (c : Comp F) (fcadj tostore : F) : F * F :=
    let dthdtS := inf_dthdtS c in
    let dthdt0 := tostore / (#1000 * c_dz c) in
    if dthdt0 <? dthdtS then
      let theta0 := if dthdt0 <=? #0 then fcadj else inf_theta_log c dthdt0 in
      if theta0 >? c_th_s c then (c_th_s c, dthdt0)
      else if theta0 <=? fcadj then (fcadj, #0)
      else (theta0, dthdt0)
    else (c_th_s c, dthdtS).

  (* the same block when th_fc_Adj may be too short: InitCond_th_fc_Adj[ii] raises IndexError only where it is
     actually read (not when the compartment drains at its saturated ability, nor when theta0 > th_s) *)
  Definition inf_theta0_opt (c : Comp F) (fcadj : option F) (tostore : F) : option (F * F) :=
    match fcadj with
    | Some a => Some (inf_theta0 c a tostore)
    | None =>
      let dthdtS := inf_dthdtS c in
      let dthdt0 := tostore / (#1000 * c_dz c) in
      if dthdt0 <? dthdtS then
        if dthdt0 <=? #0 then None
        else if inf_theta_log c dthdt0 >? c_th_s c then Some (c_th_s c, dthdt0) else None
      else Some (c_th_s c, dthdtS)
    end.

  (* maximum flow through the compartment, limited so that drainage + infiltration <= Ksat *)
  Definition inf_drainmax (c : Comp F) (fl dthdt0 : F) : F :=
    let factor := c_ksat c / (inf_dthdtS c * #1000 * c_dz c) in
    let drainmax := factor * dthdt0 * #1000 * c_dz c in
    let drainage := drainmax + fl in
    if drainage >? c_ksat c then c_ksat c - fl else drainmax.

  (* (thnew[ii], ToStore) after the "diff > 0" block *)
  Definition inf_store (c : Comp F) (t theta0 tostore : F) : F * F :=
    let diff := theta0 - t in
    if diff >? #0 then
      let t1 := t + (tostore / (#1000 * c_dz c)) in
      if t1 >? theta0 then (theta0, (t1 - theta0) * #1000 * c_dz c) else (t1, #0)
    else (t, tostore).

  (* one compartment before the back-up loop, given (theta0, dthdt0): (thnew[ii], FluxOut[ii], ToStore, excess) *)
  Definition inf_comp_td (c : Comp F) (td : F * F) (t fl tostore : F) : F * F * F * F :=
    let drainmax := inf_drainmax c fl (snd td) in
    let st := inf_store c t (fst td) tostore in
    let fl' := fl + snd st in
    let excess := snd st - drainmax in
    let excess := if excess <? #0 then #0 else excess in
    (fst st, fl', snd st - excess, excess).

  Definition inf_comp (c : Comp F) (fcadj : option F) (t fl tostore : F) : option (F * F * F * F) :=
    match inf_theta0_opt c fcadj tostore with
    | None => None
    | Some td => Some (inf_comp_td c td t fl tostore)
    end.

  Definition inf_finish (done : list Done) (th fl : list F) : list F * list F :=
    (rev_append (map d_th done) th, rev_append (map d_fl done) fl).

  (* `while ToStore > 0 and ii < nComp-1` (nComp = len(th)); result ((th, FluxOut), ToStore, Runoff);
     None = IndexError on a profile / FluxOut array shorter than th, or on a th_fc_Adj element that is read but missing *)
  Fixpoint inf_loop (p : list (Comp F)) (fc th fl : list F) (done : list Done) (tostore runoff : F)
           {struct th} : option (list F * list F * F * F) :=
    match th with
    | [] => Some (inf_finish done th fl, tostore, runoff)
    | t :: th' =>
      if tostore >? #0 then
        match p, fl with
        | c :: p', f :: fl' =>
          match inf_comp c (hd_error fc) t f tostore with
          | None => None
          | Some r =>
            let t1 := fst (fst (fst r)) in
            let f1 := snd (fst (fst r)) in
            let ts1 := snd (fst r) in
            let ex := snd r in
            let done1 := (c, t1, f1) :: done in
            if ex >? #0 then
              let b := inf_backup ex done1 in
              inf_loop p' (tl fc) th' fl' (fst b) ts1 (if snd b >? #0 then runoff + snd b else runoff)
            else inf_loop p' (tl fc) th' fl' done1 ts1 runoff
          end
        | _, _ => None
        end
      else Some (inf_finish done th fl, tostore, runoff)
    end.

  (* (ToStore, RunoffIni, SurfaceStorage) with bunds; [k0] = prof.Ksat[0], None on an empty profile *)
  Definition inf_surface_bunds (k0 : option F) (infl surf zbund : F) : option (F * F * F) :=
    let infltot := infl + surf in
    if infltot >? #0 then
      match k0 with
      | None => None
      | Some k =>
        let tostore := if infltot >? k then k else infltot in
        let s1 := if infltot >? k then infltot - k else #0 in
        if s1 >? zbund then Some (tostore, s1 - zbund, zbund * #1) else Some (tostore, #0, s1)
      end
    else Some (#0, #0, surf).

  (* without bunds (or bunds too small): everything above Ksat runs off, so does water left behind removed bunds *)
  Definition inf_surface_nobunds (k0 : option F) (infl surf : F) : option (F * F * F) :=
    match k0 with
    | None => None
    | Some k =>
      let tostore := if infl >? k then k else infl in
      let ri := if infl >? k then infl - k else #0 in
      Some (tostore, ri + surf, #0)
    end.

  Definition infiltration (p : list (Comp F)) (surf : F) (fcadj th : list F) (infl irr appeff : F)
             (bunds : bool) (zbund : F) (fluxout : list F) (deepperc0 runoff0 : F) (gs : bool)
    : option (list F * F * F * F * F * list F) :=
    let infl := pmax infl #0 in
    let infl := if gs then infl + (irr * (appeff / #100)) else infl in
    if negb (infl >=? #0) then None                      (* assert Infl >= 0 *)
    else
      let k0 := match p with [] => None | c :: _ => Some (c_ksat c) end in
      let bund_on := bunds && (zbund >? 1#/1000) in
      let nobund := negb bunds || (zbund <=? 1#/1000) in
      let surface :=
        if nobund then inf_surface_nobunds k0 infl surf
        else if bund_on then inf_surface_bunds k0 infl surf zbund
        else None in                                     (* ToStore unbound (NaN bund height) *)
      match surface with
      | None => None
      | Some (tostore, runoffini, surf1) =>
        let loopres :=
          if tostore >? #0 then inf_loop p fcadj th fluxout [] tostore #0
          else Some ((th, fluxout), #0, #0) in
        match loopres with
        | None => None
        | Some (thfl, deepperc, runoff) =>
          let runoff := runoff + runoffini in
          let upd := (runoff >? runoffini) && bund_on in
          let s := surf1 + (runoff - runoffini) in
          let surf2 := if upd then (if s >? zbund then zbund else s) else surf1 in
          let runoff2 := if upd then (if s >? zbund then runoffini + (s - zbund) else runoffini) else runoff in
          Some (fst thfl, surf2, deepperc + deepperc0, runoff2 + runoff0, infl - runoff2, snd thfl)
        end
      end.
End M.
