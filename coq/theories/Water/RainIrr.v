(* RainIrr.v — aquacrop/solution/rainfall_partition.py, aquacrop/solution/irrigation.py,
                aquacrop/solution/growth_stage.py

   rainfall_partition(precipitation, th, DaySubmerged, SRinhb, Bunds, zBund, CNadjPct, CN, AdjCN, zCN, nComp, prof)
     -> (Runoff, Infl, DaySubmerged)
   irrigation(IrrMethod, SMT, AppEff, MaxIrr, IrrInterval, Schedule, depth, MaxIrrSeason, GrowthStage, IrrCum,
              Epot, Tpot, Zroot, th, DAP, TimeStepCounter, Crop(.Zmin,.Aer), prof, zTop, growing_season, Rain, Runoff)
     -> (Depletion, TAW, IrrCum, Irr)
   growth_stage(Crop(.CalendarType,.Canopy10Pct,.MaxCanopy,.Senescence), InitCond(.dap,.delayed_cds,.gdd_cum,
              .delayed_gdds,.growth_stage), growing_season) -> growth_stage

   Number types at the call sites of run_single_timestep.py (checked in a scratch run): precipitation, CN, CNadjPct,
   zCN, MaxIrr, AppEff ... are Python floats/ints, so `cn ** 2`, `cn ** 3`, `term ** 2` are CPython float powers, i.e.
   libm pow (NOT x*x: pow(x,2) differs from x*x in the last bit for ~0.08 % of the arguments on this platform), and
   divisions by a zero Python float/int raise ZeroDivisionError (None).  `round(<np.float64>)` returns a Python int
   (round half even): nrint. *)
From AC Require Import Num Params.
From AC.Water Require Import RootZone.

Section M.
  Context {F : Type} {N : NumOps F}.
  Local Open Scope num_scope.

  (* ------------------------------------------------------------------ rainfall_partition *)

  (* CNbot / CNtop: curve numbers of the dry / wet antecedent moisture classes (Python ints) *)
  Definition rp_tiny : F := nexp num_ops (#(-14) * nln num_ops #10).     (* np.exp(-14 * np.log(10)) *)
  Definition rp_cnbot (cn : F) : Z :=
    nrint num_ops (14#/10 * rp_tiny + (507#/1000 * cn) - (374#/100000 * npow num_ops cn #2)
                   + (867#/10000000 * npow num_ops cn #3)).
  Definition rp_cntop (cn : F) : Z :=
    nrint num_ops (56#/10 * rp_tiny + (233#/100 * cn) - (209#/10000 * npow num_ops cn #2)
                   + (76#/1000000 * npow num_ops cn #3)).

  (* cumulative weighting function at the compartment bottom, limited to the curve-number depth *)
  Definition rp_wx (zcn dzsum : F) : F :=
    let zz := if zcn <? dzsum then zcn else dzsum in
    1016#/1000 * (#1 - nexp num_ops ((- (416#/100)) * (zz / zcn))).
  Definition rp_clamp01 (w : F) : F := if w <? #0 then #0 else if #1 <? w then #1 else w.

  (* both `for ii in range(comp_sto)` loops fused (wrel[ii] depends on dzsum only): relative wetness of the top soil
     before clamping; None = IndexError (comp_sto exceeds the profile or the water-content array) *)
  Fixpoint rp_wet (n : nat) (zcn : F) (p : list (Comp F)) (th : list F) (xx wet : F) : option F :=
    match n with
    | O => Some wet
    | S n' =>
      match p, th with
      | c :: p', t :: th' =>
        let wx := rp_wx zcn (c_dzsum c) in
        let wrel := rp_clamp01 (wx - xx) in
        let tv := pmax (c_th_wp c) t in
        rp_wet n' zcn p' th' wx (wet + (wrel * ((tv - c_th_wp c) / (c_th_fc c - c_th_wp c))))
      | _, _ => None
      end
    end.

  (* comp_sto = int(nComp - #{dzsum >= zCN}) + 1  (both arms of the `if shape[0] == 0` compute the same number) *)
  Definition rp_comp_sto (ncomp : Z) (zcn : F) (p : list (Comp F)) : Z :=
    let cnt := count_if (fun c => zcn <=? c_dzsum c) p in (ncomp - cnt + 1)%Z.

  Definition rp_wet_top (ncomp : Z) (zcn : F) (p : list (Comp F)) (th : list F) : option F :=
    let n := rp_comp_sto ncomp zcn p in
    if (n <? 0)%Z then None                                   (* np.zeros(negative): ValueError *)
    else match rp_wet (Z.to_nat n) zcn p th #0 #0 with
         | None => None
         | Some w => Some (if #1 <? w then #1 else if w <? #0 then #0 else w)
         end.

  (* curve number adjusted for antecedent moisture (a Python int) *)
  Definition rp_cn_adjust (cn : F) (wet : F) : Z :=
    let bot := rp_cnbot cn in let top := rp_cntop cn in
    nrint num_ops (nofZ num_ops bot + nofZ num_ops (top - bot)%Z * wet).

  (* the effective curve number used for the partition *)
  Definition rp_cn (pct cn0 : F) (adjcn : Z) (zcn : F) (ncomp : Z) (p : list (Comp F)) (th : list F) : option F :=
    let cn := cn0 * (#1 + (pct / #100)) in
    if (adjcn =? 1)%Z then
      match rp_wet_top ncomp zcn p th with
      | None => None
      | Some w => Some (nofZ num_ops (rp_cn_adjust cn w))
      end
    else Some cn.

  (* SCS partition for a given curve number: (Runoff, Infl); None = ZeroDivisionError *)
  Definition rp_S (cn : F) : F := (#25400 / cn) - #254.
  Definition rp_split (cn P : F) : option (F * F) :=
    if cn =? #0 then None
    else
      let S := rp_S cn in
      let term := P - ((#5 / #100) * S) in
      if term <=? #0 then Some (#0, P)
      else
        let den := P + (#1 - (#5 / #100)) * S in
        if den =? #0 then None
        else let ro := npow num_ops term #2 / den in Some (ro, P - ro).

  Definition rainfall_partition (P : F) (th : list F) (daysub : Z) (srinhb bunds : bool) (zbund pct cn0 : F)
             (adjcn : Z) (zcn : F) (ncomp : Z) (p : list (Comp F)) : option (F * F * Z) :=
    if negb srinhb && (negb bunds || (zbund <? 1#/1000)) then
      match rp_cn pct cn0 adjcn zcn ncomp p th with
      | None => None
      | Some cn =>
        match rp_split cn P with
        | None => None
        | Some (ro, infl) => Some (ro, infl, 0%Z)
        end
      end
    else Some (#0, P, daysub).

  (* ------------------------------------------------------------------ irrigation *)

  (* Python sequence indexing with negative wrap-around; None = IndexError *)
  Definition py_index {A} (l : list A) (i : Z) : option A :=
    let n := Z.of_nat (length l) in
    let j := if (i <? 0)%Z then (i + n)%Z else i in
    if ((j <? 0) || (n <=? j))%Z then None else nth_error l (Z.to_nat j).

  Definition irr_effadj (eff : F) : F := ((#100 - eff) + #100) / #100.
  (* min(MaxIrr, max(0, depletion) * EffAdj) *)
  Definition irr_request (depl eff maxirr : F) : F := pmin maxirr (pmax #0 depl * irr_effadj eff).

  (* (NewCond_Depletion, NewCond_TAW): root-zone depletion corrected by the expected in/outflows of the day *)
  Definition irr_depletion (p : list (Comp F)) (zroot : F) (th : list F) (ztop zmin aer tpot epot rain runoff : F)
    : option (F * F) :=
    match root_zone_water p zroot th ztop zmin aer with
    | None => None
    | Some rz =>
      let abvfc := if rz_FC rz <? rz_Act rz then (rz_Act rz - rz_FC rz) * #1000 * pmax zroot zmin else #0 in
      let wcadj := tpot + epot - rain + runoff - abvfc in
      Some (rz_Dr_Rz rz + wcadj, rz_TAW_Rz rz)
    end.

  (* the `if IrrMethod == ...` chain: the value of Irr before `Irr = max(0, Irr)`; None = IndexError,
     ZeroDivisionError (interval 0), AssertionError (negative scheduled depth), UnboundLocalError (unknown method) *)
  Definition irr_method (method : Z) (smt : list F) (eff maxirr : F) (interval : Z) (sched : list F) (depth : F)
             (stage dap tsc : Z) (depl taw : F) : option F :=
    if (method =? 0)%Z then Some #0
    else if (method =? 1)%Z then
      let dr := depl / taw in
      match py_index smt (stage - 1)%Z with
      | None => None
      | Some s => if (#1 - s / #100) <? dr then Some (irr_request depl eff maxirr) else Some #0
      end
    else if (method =? 2)%Z then
      if (interval =? 0)%Z then None
      else if ((dap - 1) mod interval =? 0)%Z then Some (irr_request depl eff maxirr) else Some #0
    else if (method =? 3)%Z then
      match py_index sched tsc with
      | None => None
      | Some v => if #0 <=? v then Some (pmin maxirr v) else None
      end
    else if (method =? 4)%Z then Some #0
    else if (method =? 5)%Z then Some (pmin maxirr depth)
    else None.

  (* seasonal cap and cumulative counter: (IrrCum', Irr') *)
  Definition irr_season (maxseason cum irr : F) : F * F :=
    let irr' := if maxseason <? cum + irr then pmax #0 (maxseason - cum) else irr in
    (cum + irr', irr').

  (* result (Depletion, TAW, IrrCum, Irr) *)
  Definition irrigation (method : Z) (smt : list F) (eff maxirr : F) (interval : Z) (sched : list F)
             (depth maxseason : F) (stage : Z) (irrcum epot tpot zroot : F) (th : list F) (dap tsc : Z)
             (zmin aer : F) (p : list (Comp F)) (ztop : F) (gs : bool) (rain runoff : F)
    : option (F * F * F * F) :=
    if gs then
      match irr_depletion p zroot th ztop zmin aer tpot epot rain runoff with
      | None => None
      | Some (depl, taw) =>
        let stage' := if (dap =? 1)%Z then 1%Z else stage in
        match irr_method method smt eff maxirr interval sched depth stage' dap tsc depl taw with
        | None => None
        | Some irr0 =>
          let ci := irr_season maxseason irrcum (pmax #0 irr0) in
          Some (depl, taw, fst ci, snd ci)
        end
      end
    else
      let ci := irr_season maxseason #0 #0 in
      Some (#0, #0, fst ci, snd ci).

  (* ------------------------------------------------------------------ growth_stage *)

  (* the new NewCond.growth_stage; [old] is the value left in place when no arm fires (tAdj NaN);
     None = UnboundLocalError (CalendarType not 1 or 2) *)
  Definition growth_stage (caltype dap dcds : Z) (gddcum dgdd c10 maxcan sen : F) (old : Z) (gs : bool) : option Z :=
    if gs then
      let tadj := if (caltype =? 1)%Z then Some (nofZ num_ops (dap - dcds)%Z)
                  else if (caltype =? 2)%Z then Some (gddcum - dgdd) else None in
      match tadj with
      | None => None
      | Some t =>
        Some (if t <=? c10 then 1%Z else if t <=? maxcan then 2%Z else if t <=? sen then 3%Z
              else if sen <? t then 4%Z else old)
      end
    else Some 0%Z.
End M.
