(* RootZone.v — aquacrop/solution/root_zone_water.py *)
From AC Require Import Num Params.

Section M.
  Context {F : Type} {N : NumOps F}.
  Local Open Scope num_scope.

  Record RZ := { rz_WrAct : F; rz_Dr_Zt : F; rz_Dr_Rz : F; rz_TAW_Zt : F; rz_TAW_Rz : F;
                 rz_Act : F; rz_S : F; rz_FC : F; rz_WP : F; rz_Dry : F; rz_Aer : F }.

  Record RZacc := { a_act : F; a_s : F; a_fc : F; a_wp : F; a_dry : F; a_aer : F }.

  Definition rz_term (factor x dz : F) : F := nround_np num_ops 2 (factor * #1000 * x * dz).

  (* the loop `for ii in range(comp_sto + 1)`: every compartment up to and including the first whose
     bottom is >= rootdepth; None when no such compartment exists (IndexError in Python) *)
  Fixpoint rz_loop (rootdepth aer : F) (p : list (Comp F)) (th : list F) (a : RZacc) : option RZacc :=
    match p, th with
    | c :: p', t :: th' =>
      let factor := if rootdepth <? c_dzsum c then #1 - ((c_dzsum c - rootdepth) / c_dz c) else #1 in
      let a' := {| a_act := a_act a + rz_term factor t (c_dz c);
                   a_s := a_s a + rz_term factor (c_th_s c) (c_dz c);
                   a_fc := a_fc a + rz_term factor (c_th_fc c) (c_dz c);
                   a_wp := a_wp a + rz_term factor (c_th_wp c) (c_dz c);
                   a_dry := a_dry a + rz_term factor (c_th_dry c) (c_dz c);
                   a_aer := a_aer a + rz_term factor (c_th_s c - (aer / #100)) (c_dz c) |} in
      if rootdepth <=? c_dzsum c then Some a' else rz_loop rootdepth aer p' th' a'
    | _, _ => None
    end.

  (* top soil: compartments whose bottom is <= ztopdepth (np.sum over the whole array, taken as a prefix count) *)
  Fixpoint top_loop (n : nat) (p : list (Comp F)) (th : list F) (act fc wp : F) : F * F * F :=
    match n, p, th with
    | S n', c :: p', t :: th' =>
      top_loop n' p' th' (act + (#1 * #1000 * t * c_dz c)) (fc + (#1 * #1000 * c_th_fc c * c_dz c))
               (wp + (#1 * #1000 * c_th_wp c * c_dz c))
    | _, _, _ => (act, fc, wp)
    end.

  Definition root_zone_water (p : list (Comp F)) (zroot : F) (th : list F) (ztop zmin aer : F) : option RZ :=
    let rootdepth := nround_np num_ops 2 (npmax zroot zmin) in
    match rz_loop rootdepth aer p th {| a_act := #0; a_s := #0; a_fc := #0; a_wp := #0; a_dry := #0; a_aer := #0 |} with
    | None => None
    | Some a =>
      let WrAct := if a_act a <? #0 then #0 else a_act a in
      let TAW_Rz := pmax (a_fc a - a_wp a) #0 in
      let Dr_Rz := pmin (a_fc a - WrAct) TAW_Rz in
      let d := rootdepth * #1000 in
      let mk Dr_Zt TAW_Zt :=
        {| rz_WrAct := WrAct; rz_Dr_Zt := Dr_Zt; rz_Dr_Rz := Dr_Rz; rz_TAW_Zt := TAW_Zt; rz_TAW_Rz := TAW_Rz;
           rz_Act := WrAct / d; rz_S := a_s a / d; rz_FC := a_fc a / d; rz_WP := a_wp a / d;
           rz_Dry := a_dry a / d; rz_Aer := a_aer a / d |} in
      if ztop <? rootdepth then
        let ztopdepth := nround_py num_ops 2 ztop in
        let n := count_if (fun c => c_dzsum c <=? ztopdepth) p in
        if (n <=? 0)%Z then None      (* assert comp_sto > 0 *)
        else
          let '(act, fc, wp) := top_loop (Z.to_nat n) p th #0 #0 #0 in
          let act := if act <? #0 then #0 else act in
          let TAW_Zt := pmax (fc - wp) #0 in
          Some (mk (pmin (fc - act) TAW_Zt) TAW_Zt)
      else Some (mk Dr_Rz TAW_Rz)
    end.
End M.
