(* Transpiration.v — aquacrop/solution/transpiration.py

   transpiration(Soil_Profile, Soil_nComp, Soil_zTop, Crop, IrrMethod, NetIrrSMT, InitCond, et0, CO2, growing_season, gdd)
     -> (TrAct, TrPot_NS, TrPot0, NewCond, IrrNet)

   The state object is replaced by the record [TrState] of the fields the function reads or writes; the function
   returns the four scalars and the updated record.  `Soil_nComp` is the length of the profile list.
   Integer-valued Python quantities (dap, delayed_cds, age_days, day_submerged, LagAer, MaxCanopyCD) are numbers of
   the generic type (exact for integers), flags are [Z].

   Notes on the code as it is:
   * `InitCond_th = InitCond.th` and `NewCond = InitCond` are the same array, so `NewCond.th[comp] = InitCond_th[comp] - Sink`
     is an in-place subtraction; the value read at index comp is the not-yet-modified one.
   * `p_up_sto` is bound only when `Crop.ETadj == 1`; otherwise the first executed loop body raises
     UnboundLocalError ([None]).  `KsCold` is bound only for `TrColdStress` in {0,1}.
   * rootdepth here is `round(max(float, float), 2)` (CPython rounding, builtin max) whereas root_zone_water
     uses `round(np.maximum(..), 2)` (numpy rounding).
   * `if KsComp == AerComp: KsComp*.. else: min(KsComp, AerComp)*..` is `min(KsComp, AerComp) * ..` in both
     branches (Python's min returns its first argument on ties); modelled by [pmin]. *)
From AC Require Import Num Params Kernels.
From AC.Water Require Import RootZone.

Section M.
  Context {F : Type} {N : NumOps F}.
  Local Open Scope num_scope.

  Record TrCrop := {
    k_MaxCanopyCD : F; k_Kcb : F; k_fage : F; k_a_Tr : F;
    k_TrColdStress : Z; k_GDD_up : F; k_GDD_lo : F;
    k_LagAer : F; k_Zmin : F; k_Aer : F;
    k_pu0 : F; k_pu1 : F; k_pu2 : F; k_pu3 : F;
    k_pl0 : F; k_pl1 : F; k_pl2 : F; k_pl3 : F;
    k_ETadj : Z; k_beta : F; k_fs0 : F; k_fs1 : F; k_fs2 : F;
    k_SxTop : F; k_SxBot : F }.

  Record TrState := {
    s_dap : F; s_delayed_cds : F; s_age_days_ns : F; s_age_days : F;
    s_ccx_w_ns : F; s_ccx_w : F; s_cc_adj_ns : F; s_cc_adj : F; s_cc_ns : F; s_cc : F; s_cc_prev : F;
    s_surf : F; s_day_sub : F; s_aer_comp : list F;
    s_z_root : F; s_th : list F; s_t_early_sen : F; s_aer_days : F; s_r_cor : F;
    s_irr_net_cum : F; s_depletion : F; s_taw : F; s_tr_ratio : F; s_t_pot : F }.

  (* ---- potential transpiration ------------------------------------------------------ *)
  Definition tr_age (dap delayed maxcd age : F) : F :=
    let dapadj := dap - delayed in
    if dapadj >? maxcd then dapadj - maxcd else age.

  Definition tr_kcb (k : TrCrop) (age ccxw co2c co2r : F) : F :=
    let kcb := if age >? #5 then k_Kcb k - ((age - #5) * (k_fage k / #100)) * ccxw else k_Kcb k in
    if co2c >? co2r then kcb * (#1 - 5#/100 * ((co2c - co2r) / (#550 - co2r))) else kcb.

  Definition tr_pot (k : TrCrop) (kcb ccadj et0 cc ccxw : F) : F :=
    let t := kcb * ccadj * et0 in
    if cc <? ccxw then
      if (ccxw >? 1#/1000) && (cc >? 1#/1000) then t * npow num_ops (cc / ccxw) (k_a_Tr k) else t
    else t.

  (* cold-stress coefficient; None: TrColdStress outside {0,1} leaves KsCold unbound *)
  Definition tr_kscold (k : TrCrop) (gdd : F) : option F :=
    if (k_TrColdStress k =? 0)%Z then Some #1
    else if (k_TrColdStress k =? 1)%Z then
      if gdd >=? k_GDD_up k then Some #1
      else if gdd <=? k_GDD_lo k then Some #0
      else
        let up := #1 in
        let lo := 2#/100 in
        let fshapeb := #(-1) * nln num_ops (((lo * up) - 98#/100 * lo) / (98#/100 * (up - lo))) in
        let rel := (gdd - k_GDD_lo k) / (k_GDD_up k - k_GDD_lo k) in
        let ks := (up * lo) / (lo + (up - lo) * nexp num_ops ((- fshapeb) * rel)) in
        Some (ks - lo * (#1 - rel))
    else None.

  (* ---- surface layer ---------------------------------------------------------------- *)
  (* the submergence loop `for ii in range(nComp)` (nComp = length of the profile); None = IndexError *)
  Fixpoint tr_sub_aer (lag : F) (p : list (Comp F)) (aer : list F) : option (list F) :=
    match p with
    | [] => Some aer
    | _ :: p' =>
      match aer with
      | [] => None
      | a :: aer' =>
        let a1 := a + #1 in
        let a2 := if a1 >? lag then lag else a1 in
        match tr_sub_aer lag p' aer' with None => None | Some r => Some (a2 :: r) end
      end
    end.

  Record TrSurf := { u_surf : F; u_day_sub : F; u_aer : list F; u_TrAct0 : F; u_TrPot : F }.

  Definition tr_surface (lag : F) (p : list (Comp F)) (surf daysub : F) (aer : list F) (trpot0 : F) : option TrSurf :=
    if (surf >? #0) && (daysub <? lag) then
      let daysub := daysub + #1 in
      match tr_sub_aer lag p aer with
      | None => None
      | Some aer' =>
        let fsub := #1 - (daysub / lag) in
        let take := surf >? (fsub * trpot0) in
        let surf' := if take then surf - (fsub * trpot0) else surf in
        let tract0 := if take then fsub * trpot0 else #0 in
        let trpot := if tract0 <? (fsub * trpot0) then (fsub * trpot0) - tract0 else #0 in
        Some {| u_surf := surf'; u_day_sub := daysub; u_aer := aer'; u_TrAct0 := tract0; u_TrPot := trpot |}
      end
    else Some {| u_surf := surf; u_day_sub := daysub; u_aer := aer; u_TrAct0 := #0; u_TrPot := trpot0 |}.

  (* ---- root-zone stress -------------------------------------------------------------- *)
  (* (Dr, TAW) used for the water stress: root zone unless the top soil is wetter *)
  Definition tr_dr_taw (r : RZ) : F * F :=
    if (rz_Dr_Rz r / rz_TAW_Rz r) <=? (rz_Dr_Zt r / rz_TAW_Zt r) then (rz_Dr_Rz r, rz_TAW_Rz r)
    else (rz_Dr_Zt r, rz_TAW_Zt r).

  Definition tr_ksw (k : TrCrop) (tearly : F) (Dr taw et0 : F) : Ksw :=
    water_stress (k_pu0 k) (k_pu1 k) (k_pu2 k) (k_pu3 k) (k_pl0 k) (k_pl1 k) (k_pl2 k) (k_pl3 k)
                 (k_ETadj k) (k_beta k) (k_fs0 k) (k_fs1 k) (k_fs2 k) (tearly >? #0) Dr taw et0.

  (* ---- compartments covered by the root zone ---------------------------------------- *)
  Definition tr_rootdepth (zroot zmin : F) : F := nround_py num_ops 2 (pmax zroot zmin).

  (* comp_sto = min(np.sum(dzsum < rootdepth) + 1, nComp) *)
  Definition tr_comp_sto (p : list (Comp F)) (rootdepth : F) : nat :=
    Z.to_nat (Z.min (Z.add (count_if (fun c => c_dzsum c <? rootdepth) p) 1%Z) (Z.of_nat (length p))).

  Definition tr_rootfact (c : Comp F) (rootdepth : F) : F :=
    if c_dzsum c >? rootdepth then #1 - ((c_dzsum c - rootdepth) / c_dz c) else #1.

  Definition tr_sxbot (k : TrCrop) (rcor rootdepth : F) (c : Comp F) : F :=
    if c_dzsum c <=? rootdepth then
      k_SxBot k * rcor + ((k_SxTop k - k_SxBot k * rcor) * ((rootdepth - c_dzsum c) / rootdepth))
    else k_SxBot k * rcor.

  (* (constants, RootFact[ii], SxComp[ii]) for ii < comp_sto *)
  Definition Plan : Type := (Comp F * F * F)%type.
  Definition pl_comp (x : Plan) : Comp F := fst (fst x).
  Definition pl_rf (x : Plan) : F := snd (fst x).
  Definition pl_sx (x : Plan) : F := snd x.

  Fixpoint tr_plan (k : TrCrop) (method : Z) (rcor rootdepth : F) (n : nat) (p : list (Comp F)) (sxbot : F) : list Plan :=
    match n, p with
    | S n', c :: p' =>
      let sxbot' := tr_sxbot k rcor rootdepth c in
      let sx := if (method =? 4)%Z then (k_SxTop k + k_SxBot k) / #2 else (sxbot + sxbot') / #2 in
      (c, tr_rootfact c rootdepth, sx) :: tr_plan k method rcor rootdepth n' p' sxbot'
    | _, _ => []
    end.

  (* ---- extraction loop ---------------------------------------------------------------- *)
  Definition tr_kscomp (k : TrCrop) (c : Comp F) (t p_up_sto : F) : F :=
    let thTAW := c_th_fc c - c_th_wp c in
    let thCrit := c_th_fc c - (thTAW * p_up_sto) in
    if t >=? thCrit then #1
    else if t >? c_th_wp c then
      let Wrel := (c_th_fc c - t) / (c_th_fc c - c_th_wp c) in
      let pRel := (Wrel - k_pu1 k) / (k_pl1 k - k_pu1 k) in
      let ks := if pRel <=? #0 then #1
                else if pRel >=? #1 then #0
                else #1 - ((nexp num_ops (pRel * k_fs1 k) - #1) / (nexp num_ops (k_fs1 k) - #1)) in
      if ks >? #1 then #1 else if ks <? #0 then #0 else ks
    else #0.

  (* (AerComp, aer_days_comp[comp]) *)
  Definition tr_aercomp (k : TrCrop) (c : Comp F) (t daysub a : F) : F * F :=
    if daysub >=? k_LagAer k then (#0, a)
    else if t >? (c_th_s c - (k_Aer k / #100)) then
      let a1 := a + #1 in
      let full := a1 >=? k_LagAer k in
      let a2 := if full then k_LagAer k else a1 in
      let fAer := if full then #0 else #1 in
      let ac := (c_th_s c - t) / (c_th_s c - (c_th_s c - (k_Aer k / #100))) in
      let ac := if ac <? #0 then #0 else ac in
      ((fAer + (a2 - #1) * ac) / (fAer + a2 - #1), a2)
    else (#1, #0).

  Definition tr_sink (method : Z) (c : Comp F) (t toextract kscomp aercomp sx rf : F) : F :=
    let thx := (toextract / #1000) / c_dz c in
    let sink := if (method =? 4)%Z then aercomp * sx * rf else pmin kscomp aercomp * sx * rf in
    let sink := if thx <? sink then thx else sink in
    if (t - sink) <? c_th_dry c then
      let s := t - c_th_dry c in if s <? #0 then #0 else s
    else sink.

  (* `while ToExtract > 0 and comp < comp_sto - 1`; result (th, aer_days_comp, TrAct);
     [pus] = p_up_sto, None when unbound; None result = UnboundLocalError / IndexError *)
  Fixpoint tr_loop (k : TrCrop) (method : Z) (pus : option F) (daysub : F) (plan : list Plan) (th aer : list F)
           (toextract tract : F) : option (list F * list F * F) :=
    match plan with
    | [] => Some (th, aer, tract)
    | x :: plan' =>
      if toextract >? #0 then
        match pus, th, aer with
        | Some pu, t :: th', a :: aer' =>
          let c := pl_comp x in
          let kscomp := tr_kscomp k c t pu in
          let ad := tr_aercomp k c t daysub a in
          let sink := tr_sink method c t toextract kscomp (fst ad) (pl_sx x) (pl_rf x) in
          let t' := t - sink in
          let toextract' := toextract - (sink * #1000 * c_dz c) in
          let tract' := tract + (sink * #1000 * c_dz c) in
          match tr_loop k method pus daysub plan' th' aer' toextract' tract' with
          | None => None
          | Some (ths, aers, tr) => Some (t' :: ths, snd ad :: aers, tr)
          end
        | _, _, _ => None
        end
      else Some (th, aer, tract)
    end.

  (* ---- net irrigation ------------------------------------------------------------------ *)
  (* `for ii in range(comp_sto)`: raise th[ii] towards the layer's critical content; result (th, IrrNet) *)
  Fixpoint tr_netirr (smt : F) (plan : list Plan) (th : list F) (thcrit : F) (prelayer : Z) (irrnet : F)
    : option (list F * F) :=
    match plan with
    | [] => Some (th, irrnet)
    | x :: plan' =>
      match th with
      | [] => None
      | t :: th' =>
        let c := pl_comp x in
        let newl := (prelayer <? c_layer c)%Z in
        let thcrit' := if newl then c_th_wp c + ((smt / #100) * (c_th_fc c - c_th_wp c)) else thcrit in
        let prelayer' := if newl then c_layer c else prelayer in
        let dwc := pl_rf x * (thcrit' - t) * #1000 * c_dz c in
        let t' := t + (dwc / (#1000 * c_dz c)) in
        match tr_netirr smt plan' th' thcrit' prelayer' (irrnet + dwc) with
        | None => None
        | Some (ths, irr) => Some (t' :: ths, irr)
        end
      end
    end.

  (* the net-irrigation tail: (th, IrrNet, irr_net_cum, depletion, taw) *)
  Definition tr_tail (p : list (Comp F)) (ztop : F) (k : TrCrop) (method : Z) (smt : F) (s : TrState)
             (plan : list Plan) (th1 : list F) (trpot : F) : option (list F * F * F * F * F) :=
    if (method =? 4)%Z && (trpot >? #0) then
      match root_zone_water p (s_z_root s) th1 ztop (k_Zmin k) (k_Aer k) with
      | None => None
      | Some r2 =>
        let thcrit := rz_WP r2 + ((smt / #100) * (rz_FC r2 - rz_WP r2)) in
        let res := if rz_Act r2 <? thcrit then tr_netirr smt plan th1 thcrit 0%Z #0
                   else Some (th1, #0) in
        match res with
        | None => None
        | Some (th2, irrnet) =>
          Some (th2, irrnet, s_irr_net_cum s + irrnet, rz_Dr_Rz r2, rz_TAW_Rz r2)
        end
      end
    else if (method =? 4)%Z && (trpot <=? #0) then
      Some (th1, #0, s_irr_net_cum s, s_depletion s, s_taw s)
    else Some (th1, #0, #0, s_depletion s, s_taw s).

  Record TrOut := { o_TrAct : F; o_TrPot_NS : F; o_TrPot0 : F; o_IrrNet : F; o_state : TrState }.

  Definition tr_ratio (tract trpot0 : F) : F :=
    let r := if trpot0 >? #0 then (if tract <? trpot0 then tract / trpot0 else #1) else #1 in
    if r <? #0 then #0 else if r >? #1 then #1 else r.

  Definition transpiration (p : list (Comp F)) (ztop : F) (k : TrCrop) (method : Z) (smt : F) (s : TrState)
             (et0 co2c co2r : F) (gs : bool) (gdd : F) : option TrOut :=
    if gs then
      (* potential transpiration *)
      let age_ns := tr_age (s_dap s) (s_delayed_cds s) (k_MaxCanopyCD k) (s_age_days_ns s) in
      let kcb_ns := tr_kcb k age_ns (s_ccx_w_ns s) co2c co2r in
      let trpot_ns := tr_pot k kcb_ns (s_cc_adj_ns s) et0 (s_cc_ns s) (s_ccx_w_ns s) in
      let age := tr_age (s_dap s) (s_delayed_cds s) (k_MaxCanopyCD k) (s_age_days s) in
      let kcb := tr_kcb k age (s_ccx_w s) co2c co2r in
      let trpot0 := tr_pot k kcb (s_cc_adj s) et0 (s_cc s) (s_ccx_w s) in
      match tr_kscold k gdd with
      | None => None
      | Some kscold =>
        let trpot0 := trpot0 * kscold in
        let trpot_ns := trpot_ns * kscold in
        (* surface layer *)
        match tr_surface (k_LagAer k) p (s_surf s) (s_day_sub s) (s_aer_comp s) trpot0 with
        | None => None
        | Some u =>
          (* root-zone water and aeration stress *)
          match root_zone_water p (s_z_root s) (s_th s) ztop (k_Zmin k) (k_Aer k) with
          | None => None
          | Some r =>
            let dt := tr_dr_taw r in
            let ksw := tr_ksw k (s_t_early_sen s) (fst dt) (snd dt) et0 in
            match aeration_stress (s_aer_days s) (k_LagAer k) (rz_S r) (rz_Act r) (rz_Aer r) with
            | None => None
            | Some (ksa, aer_days') =>
              let ks := pmin (Ksw_StoLin ksw) ksa in
              let trpot := if (method =? 4)%Z then u_TrPot u else u_TrPot u * ks in
              (* compartments covered by the root zone *)
              let rootdepth := tr_rootdepth (s_z_root s) (k_Zmin k) in
              let plan := tr_plan k method (s_r_cor s) rootdepth (tr_comp_sto p rootdepth) p (k_SxTop k) in
              let pus := if (k_ETadj k =? 1)%Z then Some (ws_adj et0 (k_pu1 k)) else None in
              match tr_loop k method pus (u_day_sub u) plan (s_th s) (u_aer u) trpot #0 with
              | None => None
              | Some (th1, aer1, tract) =>
                (* net irrigation *)
                let tail := tr_tail p ztop k method smt s plan th1 trpot in
                match tail with
                | None => None
                | Some (th2, irrnet, cum, depl, taw) =>
                  let tract := tract + u_TrAct0 u in
                  let cc' := if ((s_cc s - s_cc_prev s) >? 5#/1000) && (tract =? #0) then s_cc_prev s else s_cc s in
                  Some {| o_TrAct := tract; o_TrPot_NS := trpot_ns; o_TrPot0 := trpot0; o_IrrNet := irrnet;
                          o_state := {| s_dap := s_dap s; s_delayed_cds := s_delayed_cds s;
                                        s_age_days_ns := age_ns; s_age_days := age;
                                        s_ccx_w_ns := s_ccx_w_ns s; s_ccx_w := s_ccx_w s;
                                        s_cc_adj_ns := s_cc_adj_ns s; s_cc_adj := s_cc_adj s;
                                        s_cc_ns := s_cc_ns s; s_cc := cc'; s_cc_prev := s_cc_prev s;
                                        s_surf := u_surf u; s_day_sub := u_day_sub u; s_aer_comp := aer1;
                                        s_z_root := s_z_root s; s_th := th2; s_t_early_sen := s_t_early_sen s;
                                        s_aer_days := aer_days'; s_r_cor := s_r_cor s;
                                        s_irr_net_cum := cum; s_depletion := depl; s_taw := taw;
                                        s_tr_ratio := tr_ratio tract trpot0; s_t_pot := trpot0 |} |}
                end
              end
            end
          end
        end
      end
    else
      Some {| o_TrAct := #0; o_TrPot_NS := #0; o_TrPot0 := #0; o_IrrNet := #0;
              o_state := {| s_dap := s_dap s; s_delayed_cds := s_delayed_cds s;
                            s_age_days_ns := s_age_days_ns s; s_age_days := s_age_days s;
                            s_ccx_w_ns := s_ccx_w_ns s; s_ccx_w := s_ccx_w s;
                            s_cc_adj_ns := s_cc_adj_ns s; s_cc_adj := s_cc_adj s;
                            s_cc_ns := s_cc_ns s; s_cc := s_cc s; s_cc_prev := s_cc_prev s;
                            s_surf := s_surf s; s_day_sub := s_day_sub s; s_aer_comp := s_aer_comp s;
                            s_z_root := s_z_root s; s_th := s_th s; s_t_early_sen := s_t_early_sen s;
                            s_aer_days := s_aer_days s; s_r_cor := s_r_cor s;
                            s_irr_net_cum := #0; s_depletion := s_depletion s; s_taw := s_taw s;
                            s_tr_ratio := s_tr_ratio s; s_t_pot := #0 |} |}.
End M.
