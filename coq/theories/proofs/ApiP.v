(* ApiP.v — theorems about the AquaCropModel wrapper of Api.v (property C09 at the API level), for EVERY choice of the
   physics (section variables, as in ClockP.v).  Z / nat / list / bool only; axiom-free.
   The code is the one of /repo commit b7ac20d: run_model(num_steps=k) on a finished model returns True at once.

   Positive results (the call patterns for which C09 holds at the API level):
     api_partition, api_partition_wf   ANY list of run_model(num_steps=k_i>=1, initialize_model=False) calls after one
                                       initialising call — including calls made after the finishing one — if it leaves the
                                       model finished, leaves the WHOLE object (tables, summary, clock, the three flags,
                                       table kind) equal to one run to termination, and every call returned True
     api_after_termination(_gen/_runs) a run_model(num_steps=k>=1, initialize_model=False, process_outputs=any) call on a
                                       finished object returns True, performs no step, changes nothing but the two
                                       reporting flags (which it sets), does not set __steps_are_finished
     api_overshoot                     a step count that overshoots stops at termination
     api_unfinished, api_unfinished_seq, api_finished
                                       until then: get_simulation_results() is False, has_model_finished False, arrays
     api_num_steps_*                   num_steps < 1 raises — AFTER a requested initialisation was carried out
   Refutations that still hold for the repaired code (each is an observation about core.py, replayed on real models by
   harness/suites/api.py, DIRECTED):
     api_partition_process_outputs_refuted, api_unfinished_refuted, api_reinitialise_refuted (general form:
     sticky_blocks_rerun), api_num_steps_state_refuted.
   (api_after_termination_refuted of the previous version — a call after termination raised — was repaired in b7ac20d
    and is replaced by api_after_termination.) *)
From Coq Require Import ZArith List Bool Lia.
From AC Require Import Clock Api.
From AC.proofs Require Import ClockP.
From AC.Inst Require Import ClockInst.
Import ListNotations.
Local Open Scope Z_scope.

Section ApiProofs.
  Variable Phys W Row Out : Type.
  Variable proc : Z -> bool -> Z -> Z -> W -> Phys -> Phys * Row.
  Variable dead : Phys -> bool.
  Variable matured : Z -> Z -> Phys -> bool.
  Variable summary_of : Z -> bool -> Phys -> Out.
  Variable reset : Z -> list W -> Phys -> Phys.
  Variable init_phys : nat -> Phys.

  Notation Model := (Model Phys Row Out).
  Notation ApiSt := (ApiSt Phys Row Out).
  Notation mkApi := (mkApi Phys Row Out).
  Notation perform := (perform Phys W Row Out proc dead matured summary_of reset).
  Notation run_steps := (run_steps Phys W Row Out proc dead matured summary_of reset).
  Notation run_till := (run_till Phys W Row Out proc dead matured summary_of reset).
  Notation run_calls := (run_calls Phys W Row Out proc dead matured summary_of reset).
  Notation perform_api := (perform_api Phys W Row Out proc dead matured summary_of reset).
  Notation run_loop := (run_loop Phys W Row Out proc dead matured summary_of reset).
  Notation till_loop := (till_loop Phys W Row Out proc dead matured summary_of reset).
  Notation do_run := (do_run Phys W Row Out proc dead matured summary_of reset init_phys).
  Notation do_till := (do_till Phys W Row Out proc dead matured summary_of reset init_phys).
  Notation initialise := (initialise Phys Row Out init_phys).
  Notation api_step := (api_step Phys W Row Out proc dead matured summary_of reset init_phys).
  Notation api_run := (api_run Phys W Row Out proc dead matured summary_of reset init_phys).
  Notation model_finished := (model_finished Phys Row Out).
  Notation get_results := (get_results Phys Row Out).
  Notation get_info := (get_info Phys Row Out).
  Notation get_table := (get_table Phys Row Out).
  Notation set_flags := (set_flags Phys Row Out).

  (* ---- the states of an object on which process_outputs=True was never used: initialised, __steps_are_finished False,
     and the tables are DataFrames exactly when the clock is finished.  [e], [f] are the two reporting flags. *)
  Definition cl (m : Model) (ni : nat) (e f : bool) : ApiSt := mkApi (Some m) ni e f false (fin (st m)).

  (* the calls run_model(num_steps = k, initialize_model = False, process_outputs = False) *)
  Definition runs (ks : list Z) : list Op := map (fun k => Run k false false) ks.

  Lemma perform_nthW c ws m m' : perform c ws m = Ok m' -> nthW W ws (tsc (st m)) <> None.
  Proof. unfold Clock.perform. destruct (nthW W ws (tsc (st m))); [discriminate|discriminate]. Qed.

  Lemma perform_api_ok c ws m ni e f m' : fin (st m) = false -> perform c ws m = Ok m' ->
    perform_api c ws (cl m ni e f) = inl (cl m' ni e f).
  Proof.
    intros Hf Hp. unfold Api.perform_api, cl. cbn [model tables_are_frames inits executed finished_flag steps_are_finished].
    pose proof (perform_nthW c ws m m' Hp) as Hw. destruct (nthW W ws (tsc (st m))); [|congruence].
    rewrite Hf, Hp, orb_false_r. reflexivity.
  Qed.

  Lemma perform_api_raise c ws m ni e f err : fin (st m) = false -> perform c ws m = Raise err ->
    perform_api c ws (cl m ni e f) = inr (ClockError err).
  Proof.
    intros Hf Hp. unfold Api.perform_api, cl. cbn [model tables_are_frames].
    destruct (nthW W ws (tsc (st m))) eqn:Ew.
    - rewrite Hf, Hp. reflexivity.
    - unfold Clock.perform in Hp. rewrite Ew in Hp. injection Hp as <-. reflexivity.
  Qed.

  (* a step on a finished object would raise (the day's row would be written into a DataFrame); since b7ac20d neither
     mode of run_model performs such a step *)
  Lemma perform_api_finished c ws m ni e f : fin (st m) = true ->
    perform_api c ws (cl m ni e f) = inr (match nthW W ws (tsc (st m)) with Some _ => ValueError_length | None => ClockError IndexError end).
  Proof.
    intros Hf. unfold Api.perform_api, cl. cbn [model tables_are_frames]. destruct (nthW W ws (tsc (st m))); [rewrite Hf|]; reflexivity.
  Qed.

  (* ---- the `for` loop of run_model against Clock.run_steps ------------------------------------------------- *)
  Lemma run_loop_clean c ws ni k : forall m e f, fin (st m) = false ->
    (exists m', run_steps c ws k m = Ok m' /\
                run_loop c ws k false (cl m ni e f) = (cl m' ni true (fin (st m')), Returned true)) \/
    (exists m1 err, fin (st m1) = false /\ perform c ws m1 = Raise err /\ run_steps c ws k m = Raise err /\
                    run_loop c ws k false (cl m ni e f) = (cl m1 ni e f, Raised (ClockError err))).
  Proof.
    induction k as [|k IH]; intros m e f Hf.
    - left. exists m. split; [reflexivity|]. cbn. unfold Api.set_flags, cl. cbn. rewrite Hf. reflexivity.
    - cbn [Api.run_loop Clock.run_steps]. rewrite andb_false_r.
      destruct (perform c ws m) as [m2|err] eqn:Ep.
      + rewrite (perform_api_ok c ws m ni e f m2 Hf Ep).
        assert (Emf : model_finished (cl m2 ni e f) = fin (st m2)) by reflexivity. rewrite !Emf.
        destruct (fin (st m2)) eqn:E2.
        * left. exists m2. split; [reflexivity|]. unfold Api.set_flags, cl. cbn. rewrite E2. reflexivity.
        * apply IH. exact E2.
      + right. exists m, err. rewrite (perform_api_raise c ws m ni e f err Hf Ep). repeat split; assumption.
  Qed.

  Lemma run_loop_stuck c ws m ni e f k err : fin (st m) = false -> perform c ws m = Raise err ->
    run_loop c ws (S k) false (cl m ni e f) = (cl m ni e f, Raised (ClockError err)).
  Proof.
    intros Hf Hp. cbn [Api.run_loop]. rewrite andb_false_r, (perform_api_raise c ws m ni e f err Hf Hp). reflexivity.
  Qed.

  Lemma do_run_small c ws n po s : n < 1 -> do_run c ws n false po s = (s, Raised ValueError_num_steps).
  Proof. intros H. unfold Api.do_run. replace (n <? 1) with true by (symmetry; apply Z.ltb_lt; lia). reflexivity. Qed.

  Lemma do_run_unfinished c ws n po m ni e f : 1 <= n -> fin (st m) = false ->
    do_run c ws n false po (cl m ni e f) = run_loop c ws (Z.to_nat n) po (cl m ni e f).
  Proof.
    intros H Hf. unfold Api.do_run. replace (n <? 1) with false by (symmetry; apply Z.ltb_ge; lia).
    cbn [model cl]. rewrite Hf. reflexivity.
  Qed.

  (* the repaired branch: a finished model is not stepped; the two reporting flags are set, nothing else is written *)
  Lemma do_run_finished c ws n po s m : 1 <= n -> model s = Some m -> fin (st m) = true ->
    do_run c ws n false po s = (set_flags s true true, Returned true).
  Proof.
    intros H Hm Hf. unfold Api.do_run. replace (n <? 1) with false by (symmetry; apply Z.ltb_ge; lia).
    rewrite Hm, Hf. reflexivity.
  Qed.

  Lemma to_nat_S n : 1 <= n -> exists k, Z.to_nat n = S k.
  Proof. intros H. exists (Z.to_nat (n - 1)). lia. Qed.

  Lemma api_run_cons c ws op r s : api_run c ws (op :: r) s =
    (fst (api_run c ws r (fst (api_step c ws op s))), snd (api_step c ws op s) :: snd (api_run c ws r (fst (api_step c ws op s)))).
  Proof. cbn [Api.api_run]. destruct (api_step c ws op s) as [s1 o]. cbn [fst snd]. destruct (api_run c ws r s1). reflexivity. Qed.

  (* a finished object absorbs further run calls: each returns True and the object stays as it is *)
  Lemma runs_finished c ws m ni ks : Forall (fun k => 1 <= k) ks -> fin (st m) = true ->
    api_run c ws (runs ks) (cl m ni true true) = (cl m ni true true, repeat (Returned true) (length ks)).
  Proof.
    intros Hk Hf. induction Hk as [|k r Hk _ IH]; [reflexivity|].
    unfold runs. cbn [map]. rewrite api_run_cons. cbn [Api.api_step].
    rewrite (do_run_finished c ws k false (cl m ni true true) m Hk eq_refl Hf). cbn [fst snd].
    fold (runs r). change (set_flags (cl m ni true true) true true) with (cl m ni true true). rewrite IH. reflexivity.
  Qed.

  (* an object whose next step raises a clock error is not changed by further run calls *)
  Lemma runs_stuck c ws m ni e f ks err : Forall (fun k => 1 <= k) ks -> fin (st m) = false -> perform c ws m = Raise err ->
    fst (api_run c ws (runs ks) (cl m ni e f)) = cl m ni e f.
  Proof.
    intros Hk Hf Hp. induction Hk as [|k r Hk _ IH]; [reflexivity|].
    unfold runs. cbn [map]. rewrite api_run_cons. cbn [fst Api.api_step]. rewrite (do_run_unfinished c ws k false m ni e f Hk Hf).
    destruct (to_nat_S k Hk) as [k' ->]. rewrite (run_loop_stuck c ws m ni e f k' err Hf Hp). exact IH.
  Qed.

  (* the call sequence against ClockP.run_calls *)
  Lemma runs_calls c ws ni ks : Forall (fun k => 1 <= k) ks -> forall m e f, fin (st m) = false ->
    (exists mN e' f', fst (api_run c ws (runs ks) (cl m ni e f)) = cl mN ni e' f' /\ fin (st mN) = false) \/
    (exists mN, api_run c ws (runs ks) (cl m ni e f) = (cl mN ni true true, repeat (Returned true) (length ks)) /\
                fin (st mN) = true /\ run_calls c ws (map Z.to_nat ks) m = Ok mN).
  Proof.
    intros Hk. induction Hk as [|k r Hk Hr IH]; intros m e f Hf.
    - left. exists m, e, f. split; [reflexivity|exact Hf].
    - unfold runs. cbn [map]. rewrite api_run_cons. cbn [Api.api_step]. rewrite (do_run_unfinished c ws k false m ni e f Hk Hf).
      cbn [ClockP.run_calls]. rewrite Hf. fold (runs r).
      destruct (run_loop_clean c ws ni (Z.to_nat k) m e f Hf) as [(m' & Hs & ->)|(m1 & err & Hf1 & Hp1 & Hs & ->)]; cbn [fst snd]; rewrite Hs.
      + destruct (Bool.bool_dec (fin (st m')) true) as [E'|E'].
        * right. exists m'. rewrite E'. rewrite (runs_finished c ws m' ni r Hr E'). cbn [fst snd length repeat].
          split; [reflexivity|]. split; [reflexivity|]. apply run_calls_finished. exact E'.
        * apply not_true_is_false in E'.
          destruct (IH m' true (fin (st m')) E') as [(mN & e' & f' & H1 & H2)|(mN & H1 & H2 & H3)].
          -- left. exists mN, e', f'. cbn [fst]. split; assumption.
          -- right. exists mN. rewrite H1. cbn [fst snd length repeat]. split; [reflexivity|]. split; assumption.
      + left. exists m1, e, f. cbn [fst]. rewrite (runs_stuck c ws m1 ni e f r err Hr Hf1 Hp1). split; [reflexivity|exact Hf1].
  Qed.

  (* ---- the `while` loop of run_model against Clock.run_till --------------------------------------------------- *)
  Lemma run_till_fin c ws fuel m : fin (st m) = true -> run_till c ws fuel m = Some (Ok m).
  Proof. intros H. destruct fuel; cbn; rewrite H; reflexivity. Qed.

  Lemma run_till_ok_fin c ws fuel : forall m m', run_till c ws fuel m = Some (Ok m') -> fin (st m') = true.
  Proof.
    induction fuel as [|fuel IH]; intros m m'; cbn; destruct (fin (st m)) eqn:E; try discriminate.
    - intros H; injection H as <-; exact E.
    - intros H; injection H as <-; exact E.
    - destruct (perform c ws m) as [m1|err]; [apply IH|discriminate].
  Qed.

  Lemma till_loop_fin c ws fuel m ni e f : fin (st m) = true ->
    till_loop c ws fuel (cl m ni e f) = (cl m ni true true, Returned true).
  Proof. intros H. destruct fuel; cbn; rewrite H; unfold Api.set_flags, cl; cbn; rewrite H; reflexivity. Qed.

  Lemma till_loop_clean c ws ni fuel : forall m e f, fin (st m) = false ->
    match run_till c ws fuel m with
    | Some (Ok m') => till_loop c ws fuel (cl m ni e f) = (cl m' ni true true, Returned true)
    | Some (Raise err) => exists m1, fin (st m1) = false /\ till_loop c ws fuel (cl m ni e f) = (cl m1 ni e f, Raised (ClockError err))
    | None => exists m1, fin (st m1) = false /\ till_loop c ws fuel (cl m ni e f) = (cl m1 ni e f, NoReturn)
    end.
  Proof.
    induction fuel as [|fuel IH]; intros m e f Hf.
    - cbn. rewrite Hf. exists m. split; [exact Hf|reflexivity].
    - cbn [Clock.run_till Api.till_loop]. cbn [model cl]. rewrite Hf.
      destruct (perform c ws m) as [m1|err] eqn:Ep.
      + rewrite (perform_api_ok c ws m ni e f m1 Hf Ep).
        destruct (fin (st m1)) eqn:E1.
        * rewrite (run_till_fin c ws fuel m1 E1). apply till_loop_fin. exact E1.
        * apply IH. exact E1.
      + rewrite (perform_api_raise c ws m ni e f err Hf Ep). exists m. split; [exact Hf|reflexivity].
  Qed.

  (* ---- _initialize ------------------------------------------------------------------------------------------ *)
  Lemma initialise_ok c s : plant c <> [] -> steps_are_finished s = false ->
    exists m0, fin (st m0) = false /\ init_model Phys Row Out c (init_phys (inits s)) = Ok m0 /\
               initialise c s = inl (cl m0 (S (inits s)) (executed s) (finished_flag s)).
  Proof.
    intros Hp Hs. unfold Api.initialise, Clock.init_model. destruct (plant c) as [|p r]; [congruence|].
    eexists. split; [|split; [reflexivity|]]; [reflexivity|]. unfold cl. cbn. rewrite Hs. reflexivity.
  Qed.

  Lemma do_run_init c ws n po s s1 : initialise c s = inl s1 -> do_run c ws n true po s = do_run c ws n false po s1.
  Proof. intros H. unfold Api.do_run. rewrite H. reflexivity. Qed.

  Lemma do_till_init c ws s s1 : initialise c s = inl s1 -> do_till c ws true s = do_till c ws false s1.
  Proof. intros H. unfold Api.do_till. rewrite H. reflexivity. Qed.

  (* =========================================================================================================== *)
  (* C09 at the API level: from an initialised, unfinished object on which process_outputs was never used, ANY list of
     run_model(num_steps = k_i >= 1, initialize_model = False) calls — calls after the finishing one included — that
     leaves the model finished produces exactly the object that run_model(till_termination = True,
     initialize_model = False) produces: the three daily tables and the summary (the whole [Model]), the clock,
     __has_model_executed, __has_model_finished, __steps_are_finished and the kind of the tables (DataFrames);
     and every one of the calls returned True *)
  Theorem api_partition_from c ws ni ks m e f sN outs sT oT :
    fin (st m) = false -> Forall (fun k => 1 <= k) ks ->
    api_run c ws (runs ks) (cl m ni e f) = (sN, outs) -> model_finished sN = true ->
    api_step c ws (RunTill false) (cl m ni e f) = (sT, oT) -> oT <> NoReturn ->
    sT = sN /\ oT = Returned true /\ outs = repeat (Returned true) (length ks) /\
    exists mN, sN = cl mN ni true true /\ fin (st mN) = true.
  Proof.
    intros Hf Hk Hr HfN Ht Hnr.
    pose proof (runs_calls c ws ni ks Hk m e f Hf) as Hc. rewrite Hr in Hc. cbn [fst] in Hc.
    destruct Hc as [(mN & e' & f' & -> & HN)|(mN & Heq & HN & Hc)].
    - unfold Api.model_finished, cl in HfN. cbn in HfN. congruence.
    - injection Heq as -> ->. cbn [Api.api_step] in Ht. unfold Api.do_till in Ht.
      pose proof (till_loop_clean c ws ni (till_fuel c) m e f Hf) as Hl.
      destruct (run_till c ws (till_fuel c) m) as [r|] eqn:Er.
      + pose proof (partition_eq Phys W Row Out proc dead matured summary_of reset c ws _ m mN _ r Hf Hc HN Er) as ->.
        rewrite Hl in Ht. injection Ht as <- <-. split; [reflexivity|]. split; [reflexivity|]. split; [reflexivity|].
        exists mN. split; [reflexivity|exact HN].
      + destruct Hl as (m1 & _ & Hl). rewrite Hl in Ht. injection Ht as _ <-. congruence.
  Qed.

  (* the same with the initialising call included: run_model(num_steps = k0) (initialize_model defaults to True) followed
     by run_model(num_steps = k_i, initialize_model = False), against run_model(till_termination = True), on an object
     in ANY state in which __steps_are_finished is still False (in particular a new object) *)
  Theorem api_partition c ws s0 k0 ks sN outs sT oT :
    plant c <> [] -> steps_are_finished s0 = false -> 1 <= k0 -> Forall (fun k => 1 <= k) ks ->
    api_run c ws (Run k0 true false :: runs ks) s0 = (sN, outs) -> model_finished sN = true ->
    api_step c ws (RunTill true) s0 = (sT, oT) -> oT <> NoReturn ->
    sT = sN /\ oT = Returned true /\ outs = repeat (Returned true) (S (length ks)) /\
    executed sN = true /\ finished_flag sN = true /\ tables_are_frames sN = true /\ steps_are_finished sN = false.
  Proof.
    intros Hp Hs Hk0 Hk Hr HfN Ht Hnr.
    destruct (initialise_ok c s0 Hp Hs) as (m0 & Hf0 & _ & Hi).
    cbn [Api.api_step] in Ht. rewrite (do_till_init c ws s0 _ Hi) in Ht.
    rewrite api_run_cons in Hr. cbn [Api.api_step] in Hr. rewrite (do_run_init c ws k0 false s0 _ Hi) in Hr.
    assert (Hr' : api_run c ws (runs (k0 :: ks)) (cl m0 (S (inits s0)) (executed s0) (finished_flag s0)) = (sN, outs)).
    { unfold runs. cbn [map]. rewrite api_run_cons. cbn [Api.api_step]. exact Hr. }
    destruct (api_partition_from c ws _ (k0 :: ks) m0 _ _ sN outs sT oT Hf0 (Forall_cons _ Hk0 Hk) Hr' HfN Ht Hnr) as (A & B & C & mN & -> & HN).
    split; [exact A|]. split; [exact B|]. split; [exact C|]. unfold cl. cbn. rewrite HN. repeat split; reflexivity.
  Qed.

  (* for a well-formed clock and a weather table covering the window the run to termination always returns
     (ClockP.run_till_terminates), so the hypothesis [oT <> NoReturn] can be dropped *)
  Theorem api_partition_wf c ws s0 k0 ks sN outs :
    wf_clock c -> weather_covers W c ws -> 2 <= n_steps c -> plant c <> [] -> (forall p, nthZ (plant c) 0 = Some p -> 0 <= p) ->
    steps_are_finished s0 = false -> 1 <= k0 -> Forall (fun k => 1 <= k) ks ->
    api_run c ws (Run k0 true false :: runs ks) s0 = (sN, outs) -> model_finished sN = true ->
    api_step c ws (RunTill true) s0 = (sN, Returned true).
  Proof.
    intros Hwf Hw Hn Hp Hp0 Hs Hk0 Hk Hr HfN.
    destruct (api_step c ws (RunTill true) s0) as [sT oT] eqn:Ht.
    assert (Hnr : oT <> NoReturn).
    { destruct (initialise_ok c s0 Hp Hs) as (m0 & Hf0 & Hi0 & Hi).
      cbn [Api.api_step] in Ht. rewrite (do_till_init c ws s0 _ Hi) in Ht. unfold Api.do_till in Ht.
      destruct (init_model_inv Phys Row Out c _ m0 Hwf Hn Hp Hp0 Hi0) as (Hm & _ & _).
      destruct (run_till_terminates Phys W Row Out proc dead matured summary_of reset c ws Hwf Hw (till_fuel c) m0 Hm) as (m' & Hrt & _).
      { unfold till_fuel. pose proof (ci_tsc _ c _ (proj1 Hm)). lia. }
      pose proof (till_loop_clean c ws (S (inits s0)) (till_fuel c) m0 (executed s0) (finished_flag s0) Hf0) as Hl.
      rewrite Hrt in Hl. rewrite Hl in Ht. injection Ht as _ <-. discriminate. }
    destruct (api_partition c ws s0 k0 ks sN outs sT oT Hp Hs Hk0 Hk Hr HfN Ht Hnr) as (-> & -> & _). reflexivity.
  Qed.

  (* a step count that overshoots the end stops at termination: same object, same outcome *)
  Theorem api_overshoot_from c ws ni m e f n extra s' o :
    fin (st m) = false -> 1 <= n -> 0 <= extra ->
    api_step c ws (Run n false false) (cl m ni e f) = (s', o) -> model_finished s' = true ->
    api_step c ws (Run (n + extra) false false) (cl m ni e f) = (s', o).
  Proof.
    intros Hf Hn He Hr Hf'. cbn [Api.api_step] in *. rewrite (do_run_unfinished c ws n false m ni e f Hn Hf) in Hr.
    rewrite (do_run_unfinished c ws (n + extra) false m ni e f ltac:(lia) Hf).
    replace (Z.to_nat (n + extra)) with (Z.to_nat n + Z.to_nat extra)%nat by lia.
    destruct (run_loop_clean c ws ni (Z.to_nat n) m e f Hf) as [(m' & Hs & Hl)|(m1 & err & Hf1 & _ & _ & Hl)]; rewrite Hl in Hr; injection Hr as <- <-.
    - unfold Api.model_finished, cl in Hf'. cbn in Hf'.
      pose proof (overshoot_stops Phys W Row Out proc dead matured summary_of reset c ws _ (Z.to_nat extra) m m' Hf Hs Hf') as Ho.
      destruct (run_loop_clean c ws ni (Z.to_nat n + Z.to_nat extra) m e f Hf) as [(m'' & Hs2 & ->)|(m2 & err & _ & _ & Hs2 & _)]; [|congruence].
      rewrite Ho in Hs2. injection Hs2 as <-. reflexivity.
    - unfold Api.model_finished, cl in Hf'. cbn in Hf'. congruence.
  Qed.

  Theorem api_overshoot c ws s0 n extra s' o :
    plant c <> [] -> steps_are_finished s0 = false -> 1 <= n -> 0 <= extra ->
    api_step c ws (Run n true false) s0 = (s', o) -> model_finished s' = true ->
    api_step c ws (Run (n + extra) true false) s0 = (s', o).
  Proof.
    intros Hp Hs Hn He Hr Hf'. destruct (initialise_ok c s0 Hp Hs) as (m0 & Hf0 & _ & Hi).
    cbn [Api.api_step] in *. rewrite (do_run_init c ws n false s0 _ Hi) in Hr. rewrite (do_run_init c ws (n + extra) false s0 _ Hi).
    exact (api_overshoot_from c ws _ m0 _ _ n extra s' o Hf0 Hn He Hr Hf').
  Qed.

  (* ---- the object reports itself unfinished until the clock is finished --------------------------------------- *)
  (* [good s]: process_outputs never used, the object has executed, and its reporting flag and table kind follow the clock *)
  Definition good (s : ApiSt) : Prop := exists m ni, s = cl m ni true (fin (st m)).

  (* the calls that keep an object good: run_model(num_steps = any k, initialize_model=False, process_outputs=False),
     run_model(till_termination=True, initialize_model=False), and the five getters *)
  Definition plain (op : Op) : Prop :=
    match op with Run _ i p => i = false /\ p = false | RunTill i => i = false | _ => True end.

  Lemma good_step c ws op s : good s -> plain op -> good (fst (api_step c ws op s)).
  Proof.
    intros (m & ni & ->) Hop. destruct op as [n i p|i| | | | |]; cbn [Api.api_step fst]; try (exists m, ni; reflexivity).
    - destruct Hop as [-> ->]. destruct (Z_lt_ge_dec n 1) as [Hlt|Hge].
      { rewrite (do_run_small c ws n false _ Hlt). exists m, ni. reflexivity. }
      assert (Hn : 1 <= n) by lia.
      destruct (Bool.bool_dec (fin (st m)) true) as [Ef|Ef].
      + rewrite (do_run_finished c ws n false (cl m ni true (fin (st m))) m Hn eq_refl Ef). cbn [fst]. exists m, ni.
        unfold Api.set_flags, cl. cbn. rewrite Ef. reflexivity.
      + apply not_true_is_false in Ef. rewrite (do_run_unfinished c ws n false m ni true (fin (st m)) Hn Ef).
        destruct (run_loop_clean c ws ni (Z.to_nat n) m true (fin (st m)) Ef) as [(m' & _ & ->)|(m1 & err & Hf1 & _ & _ & ->)]; cbn [fst].
        * exists m', ni. reflexivity.
        * exists m1, ni. rewrite Ef, Hf1. reflexivity.
    - cbn in Hop. subst i. unfold Api.do_till. destruct (Bool.bool_dec (fin (st m)) true) as [Ef|Ef].
      + rewrite (till_loop_fin c ws _ m ni true (fin (st m)) Ef). exists m, ni. cbn [fst]. rewrite Ef. reflexivity.
      + apply not_true_is_false in Ef. pose proof (till_loop_clean c ws ni (till_fuel c) m true (fin (st m)) Ef) as Hl.
        destruct (run_till c ws (till_fuel c) m) as [[m'|err]|] eqn:Er.
        * rewrite Hl. exists m', ni. cbn [fst]. rewrite (run_till_ok_fin c ws _ _ _ Er). reflexivity.
        * destruct Hl as (m1 & Hf1 & ->). exists m1, ni. cbn [fst]. rewrite Ef, Hf1. reflexivity.
        * destruct Hl as (m1 & Hf1 & ->). exists m1, ni. cbn [fst]. rewrite Ef, Hf1. reflexivity.
  Qed.

  Lemma good_run c ws ops : forall s, good s -> Forall plain ops -> good (fst (api_run c ws ops s)).
  Proof.
    induction ops as [|op r IH]; intros s Hg Hp; [exact Hg|].
    rewrite api_run_cons. cbn [fst]. inversion Hp; subst. apply IH; [apply good_step; assumption|assumption].
  Qed.

  (* an initialising call that RETURNS, on an object whose __steps_are_finished is False, makes the object good *)
  Lemma good_init c ws op s0 s1 : plant c <> [] -> steps_are_finished s0 = false ->
    (op = RunTill true \/ exists k, op = Run k true false) ->
    api_step c ws op s0 = (s1, Returned true) -> good s1.
  Proof.
    intros Hp Hs Hop Hr. destruct (initialise_ok c s0 Hp Hs) as (m0 & Hf0 & _ & Hi).
    destruct Hop as [->|[k ->]]; cbn [Api.api_step] in Hr.
    - rewrite (do_till_init c ws s0 _ Hi) in Hr. unfold Api.do_till in Hr.
      pose proof (till_loop_clean c ws (S (inits s0)) (till_fuel c) m0 (executed s0) (finished_flag s0) Hf0) as Hl.
      destruct (run_till c ws (till_fuel c) m0) as [[m'|err]|] eqn:Er.
      + rewrite Hl in Hr. injection Hr as <-. exists m', (S (inits s0)). rewrite (run_till_ok_fin c ws _ _ _ Er). reflexivity.
      + destruct Hl as (m1 & _ & Hl). rewrite Hl in Hr. discriminate.
      + destruct Hl as (m1 & _ & Hl). rewrite Hl in Hr. discriminate.
    - rewrite (do_run_init c ws k false s0 _ Hi) in Hr.
      destruct (Z_lt_ge_dec k 1) as [Hlt|Hge]; [rewrite (do_run_small c ws k false _ Hlt) in Hr; discriminate|].
      rewrite (do_run_unfinished c ws k false m0 _ _ _ ltac:(lia) Hf0) in Hr.
      destruct (run_loop_clean c ws (S (inits s0)) (Z.to_nat k) m0 (executed s0) (finished_flag s0) Hf0) as [(m' & _ & Hl)|(m1 & err & _ & _ & _ & Hl)];
        rewrite Hl in Hr; [|discriminate]. injection Hr as <-. exists m', (S (inits s0)). reflexivity.
  Qed.

  (* what a good object reports *)
  Theorem api_unfinished s : good s -> model_finished s = false ->
    get_results s = NotFinished /\ get_info s = Info true false /\
    forall k, exists n, get_table k s = Table k n false.
  Proof.
    intros (m & ni & ->) Hf. unfold Api.model_finished, cl in Hf. cbn in Hf.
    unfold Api.get_results, Api.get_info, Api.get_table, cl. cbn. rewrite Hf.
    split; [reflexivity|]. split; [reflexivity|]. intros k. eexists. reflexivity.
  Qed.

  Theorem api_finished s : good s -> model_finished s = true ->
    (exists m, model s = Some m /\ get_results s = Results (length (sums (tabs m)))) /\ get_info s = Info true true /\
    forall k, exists n, get_table k s = Table k n true.
  Proof.
    intros (m & ni & ->) Hf. unfold Api.model_finished, cl in Hf. cbn in Hf.
    unfold Api.get_results, Api.get_info, Api.get_table, cl. cbn. rewrite Hf.
    split; [exists m; split; reflexivity|]. split; [reflexivity|]. intros k. eexists. reflexivity.
  Qed.

  (* the call sequences of C09: one initialising call that returns, then any plain calls; while the clock is not
     finished the object says so: get_simulation_results() is False, has_model_finished is False, tables are arrays *)
  Theorem api_unfinished_seq c ws s0 op0 s1 ops s2 outs :
    plant c <> [] -> steps_are_finished s0 = false ->
    (op0 = RunTill true \/ exists k, op0 = Run k true false) -> api_step c ws op0 s0 = (s1, Returned true) ->
    Forall plain ops -> api_run c ws ops s1 = (s2, outs) ->
    good s2 /\
    (model_finished s2 = false ->
       get_results s2 = NotFinished /\ get_info s2 = Info true false /\ forall k, exists n, get_table k s2 = Table k n false).
  Proof.
    intros Hp Hs Hop H0 Hpl Hr. pose proof (good_run c ws ops s1 (good_init c ws op0 s0 s1 Hp Hs Hop H0) Hpl) as Hg.
    rewrite Hr in Hg. cbn [fst] in Hg. split; [exact Hg|]. apply api_unfinished. exact Hg.
  Qed.

  (* ---- num_steps < 1 ------------------------------------------------------------------------------------------ *)
  Theorem api_num_steps_noinit c ws n po s : n < 1 ->
    api_step c ws (Run n false po) s = (s, Raised ValueError_num_steps).
  Proof. intros H. cbn [Api.api_step]. apply do_run_small. exact H. Qed.

  (* with initialize_model=True the code initialises BEFORE it checks num_steps: the call raises, but the object now holds
     a freshly initialised model and empty tables (arrays), while the three flags keep their old values *)
  Theorem api_num_steps_init c ws n po s m0 : n < 1 -> init_model Phys Row Out c (init_phys (inits s)) = Ok m0 ->
    api_step c ws (Run n true po) s =
      (mkApi (Some m0) (S (inits s)) (executed s) (finished_flag s) (steps_are_finished s) false, Raised ValueError_num_steps).
  Proof.
    intros H Hi. cbn. unfold Api.do_run, Api.initialise. rewrite Hi.
    replace (n <? 1) with true by (symmetry; apply Z.ltb_lt; lia). reflexivity.
  Qed.

  (* ---- general observations used by the refutations ------------------------------------------------------------ *)
  (* once the tables of an UNFINISHED model are DataFrames (process_outputs=True was used), every further step raises and
     changes nothing (only _initialize makes new arrays) *)
  Lemma frames_absorb c ws s m n : model s = Some m -> fin (st m) = false -> tables_are_frames s = true ->
    nthW W ws (tsc (st m)) <> None -> 1 <= n ->
    api_step c ws (Run n false false) s = (s, Raised ValueError_length).
  Proof.
    intros Hm Hf Hfr Hw Hn. cbn [Api.api_step]. unfold Api.do_run. replace (n <? 1) with false by (symmetry; apply Z.ltb_ge; lia).
    rewrite Hm, Hf. destruct (to_nat_S n Hn) as [k ->].
    cbn [Api.run_loop]. rewrite andb_false_r. unfold Api.perform_api. rewrite Hm, Hfr.
    destruct (nthW W ws (tsc (st m))); [reflexivity|congruence].
  Qed.

  Lemma frames_absorb_runs c ws s m ks : model s = Some m -> fin (st m) = false -> tables_are_frames s = true ->
    nthW W ws (tsc (st m)) <> None -> Forall (fun k => 1 <= k) ks ->
    api_run c ws (runs ks) s = (s, repeat (Raised ValueError_length) (length ks)).
  Proof.
    intros Hm Hf Hfr Hw Hk. induction Hk as [|k r Hk _ IH]; [reflexivity|].
    unfold runs. cbn [map]. rewrite api_run_cons, (frames_absorb c ws s m k Hm Hf Hfr Hw Hk). cbn [fst snd]. fold (runs r). rewrite IH. reflexivity.
  Qed.

  (* ---- calls after termination (repair b7ac20d) ------------------------------------------------------------------ *)
  (* on ANY object whose clock is finished, run_model(num_steps = k >= 1, initialize_model = False, process_outputs = any)
     returns True without performing a step: the object is unchanged except that __has_model_executed and
     __has_model_finished are (re)set to True; in particular process_outputs=True does not set __steps_are_finished *)
  Theorem api_after_termination_gen c ws k po s m : 1 <= k -> model s = Some m -> fin (st m) = true ->
    api_step c ws (Run k false po) s =
      (mkApi (model s) (inits s) true true (steps_are_finished s) (tables_are_frames s), Returned true).
  Proof. intros Hk Hm Hf. cbn [Api.api_step]. rewrite (do_run_finished c ws k po s m Hk Hm Hf). reflexivity. Qed.

  (* on a good finished object (the flags are already True) nothing at all changes *)
  Theorem api_after_termination c ws k po s : good s -> model_finished s = true -> 1 <= k ->
    api_step c ws (Run k false po) s = (s, Returned true).
  Proof.
    intros (m & ni & ->) Hf Hk. unfold Api.model_finished, cl in Hf. cbn in Hf.
    rewrite (api_after_termination_gen c ws k po (cl m ni true (fin (st m))) m Hk eq_refl Hf). unfold cl. cbn. rewrite Hf. reflexivity.
  Qed.

  Theorem api_after_termination_runs c ws ks s : good s -> model_finished s = true -> Forall (fun k => 1 <= k) ks ->
    api_run c ws (runs ks) s = (s, repeat (Returned true) (length ks)).
  Proof.
    intros (m & ni & ->) Hf Hk. unfold Api.model_finished, cl in Hf. cbn in Hf. rewrite Hf. apply runs_finished; assumption.
  Qed.

  (* __steps_are_finished survives _initialize: on an object on which process_outputs=True was used once, a re-initialised
     run converts the new arrays after its FIRST step and raises on its second, for every physics and every clock whose
     first step does not already finish the run *)
  Theorem sticky_blocks_rerun c ws s m0 m1 : steps_are_finished s = true ->
    init_model Phys Row Out c (init_phys (inits s)) = Ok m0 -> perform c ws m0 = Ok m1 -> fin (st m1) = false ->
    nthW W ws (tsc (st m1)) <> None -> 2 <= n_steps c ->
    snd (api_step c ws (RunTill true) s) = Raised ValueError_length /\
    forall n po, 2 <= n -> snd (api_step c ws (Run n true po) s) = Raised ValueError_length.
  Proof.
    intros Hs Hi Hp Hf1 Hw1 Hn.
    assert (Hf0 : fin (st m0) = false).
    { unfold Clock.init_model in Hi. destruct (plant c); [discriminate|]. injection Hi as <-. reflexivity. }
    pose proof (perform_nthW c ws m0 m1 Hp) as Hw0.
    set (s1 := mkApi (Some m0) (S (inits s)) (executed s) (finished_flag s) true false).
    set (s2 := mkApi (Some m1) (S (inits s)) (executed s) (finished_flag s) true true).
    assert (Hi' : initialise c s = inl s1) by (unfold Api.initialise; rewrite Hi, Hs; reflexivity).
    assert (P1 : perform_api c ws s1 = inl s2).
    { unfold Api.perform_api, s1. cbn [model tables_are_frames inits executed finished_flag steps_are_finished].
      destruct (nthW W ws (tsc (st m0))); [|congruence]. rewrite Hp, orb_true_r. reflexivity. }
    assert (P2 : perform_api c ws s2 = inr ValueError_length).
    { unfold Api.perform_api, s2. cbn [model tables_are_frames]. destruct (nthW W ws (tsc (st m1))); [reflexivity|congruence]. }
    assert (P2' : forall e f, perform_api c ws (mkApi (Some m1) (S (inits s)) e f true true) = inr ValueError_length).
    { intros e f. unfold Api.perform_api. cbn [model tables_are_frames]. destruct (nthW W ws (tsc (st m1))); [reflexivity|congruence]. }
    split.
    - cbn [Api.api_step]. rewrite (do_till_init c ws s s1 Hi'). unfold Api.do_till. cbn [initialise].
      unfold till_fuel. destruct (Z.to_nat (n_steps c)) as [|[|fuel]] eqn:En; [lia|lia|].
      cbn [Api.till_loop]. unfold s1 at 1. cbn [model]. rewrite Hf0, P1. unfold s2 at 1. cbn [model]. rewrite Hf1, P2. reflexivity.
    - intros n po H2. cbn [Api.api_step]. rewrite (do_run_init c ws n po s s1 Hi'). unfold Api.do_run.
      replace (n <? 1) with false by (symmetry; apply Z.ltb_ge; lia).
      unfold s1 at 1. cbn [model]. rewrite Hf0.
      destruct (Z.to_nat n) as [|[|k]] eqn:En; [lia|lia|].
      cbn [Api.run_loop]. rewrite andb_false_l. rewrite P1.
      assert (Emf : model_finished s2 = fin (st m1)) by reflexivity. rewrite Emf, Hf1.
      destruct k as [|k]; cbn [andb].
      + destruct po.
        * unfold Api.set_sticky, s2. cbn [model inits executed finished_flag tables_are_frames]. rewrite P2'. reflexivity.
        * rewrite P2. reflexivity.
      + rewrite P2. reflexivity.
  Qed.
End ApiProofs.

(* ============================================================================================================= *)
(* Concrete instances (Inst/ClockInst.v physics: recorded stream; here the empty stream: the crop never dies or matures).
   A 6-day window, one season planted on day 0, harvest date outside the window, off-season not simulated:
   the run performs steps 0..4 and finishes on the day before the end date. *)
Definition c6 : ClockP := {| n_steps := 6; plant := [0]; harv := [100]; off_season := false |}.
Definition ws6 : list unit := repeat tt 6.
Definition run6 := t_api_run [] c6 ws6.
Definition step6 := t_api_step [] c6 ws6.
Notation mf := (model_finished TPhys TRow unit).

(* the hypotheses of api_partition / api_partition_wf are satisfiable: 2 + 1 + 1 + 5 steps (the last call overshoots);
   api_partition_example_after: two more calls after the finishing one *)
Example api_partition_example :
  steps_are_finished t_fresh = false /\ plant c6 <> [] /\
  mf (fst (run6 (Run 2 true false :: runs [1; 1; 5]) t_fresh)) = true /\
  snd (run6 (Run 2 true false :: runs [1; 1; 5]) t_fresh) = [Returned true; Returned true; Returned true; Returned true] /\
  fst (run6 (Run 2 true false :: runs [1; 1; 5]) t_fresh) = fst (step6 (RunTill true) t_fresh) /\
  snd (step6 (RunTill true) t_fresh) = Returned true.
Proof. repeat split; try (vm_compute; reflexivity). discriminate. Qed.

Example api_partition_example_after :
  mf (fst (run6 (Run 2 true false :: runs [1; 1; 5; 3; 1]) t_fresh)) = true /\
  snd (run6 (Run 2 true false :: runs [1; 1; 5; 3; 1]) t_fresh) = repeat (Returned true) 6 /\
  fst (run6 (Run 2 true false :: runs [1; 1; 5; 3; 1]) t_fresh) = fst (step6 (RunTill true) t_fresh).
Proof. repeat split; vm_compute; reflexivity. Qed.

Example c6_wf : wf_clock c6 /\ weather_covers unit c6 ws6 /\ 2 <= n_steps c6 /\ (forall p, nthZ (plant c6) 0 = Some p -> 0 <= p).
Proof.
  split; [|split; [|split]].
  - constructor.
    + reflexivity.
    + intros k p h. unfold nthZ. destruct (k <? 0); [discriminate|]. destruct (Z.to_nat k) as [|[|?]]; cbn; intros H1 H2; inversion H1; inversion H2; lia.
    + intros k h p'. unfold nthZ. destruct (k <? 0) eqn:E; [discriminate|]. destruct (k + 1 <? 0) eqn:E2; [discriminate|].
      apply Z.ltb_ge in E, E2. replace (Z.to_nat (k + 1)) with (S (Z.to_nat k)) by lia.
      destruct (Z.to_nat k) as [|[|?]]; cbn; intros H1 H2; inversion H1; inversion H2.
    + intros k p. unfold nthZ. destruct (k <? 0); [discriminate|]. destruct (Z.to_nat k) as [|[|?]]; cbn; intros H1; inversion H1; cbn; lia.
  - intros t Ht. cbn in Ht. unfold nthW. destruct (t <? 0) eqn:E; [apply Z.ltb_lt in E; lia|].
    assert (Z.to_nat t < 6)%nat by lia. intros Hn. apply nth_error_None in Hn. cbn in Hn. lia.
  - cbn. lia.
  - cbn. intros p H. injection H as <-. lia.
Qed.

(* api_partition_wf applied to the instance: its hypotheses are satisfiable and it yields the equality computed above *)
Example api_partition_wf_applied :
  step6 (RunTill true) t_fresh = (fst (run6 (Run 2 true false :: runs [1; 1; 5]) t_fresh), Returned true).
Proof.
  destruct c6_wf as (Hwf & Hw & Hn & Hp0).
  apply (api_partition_wf TPhys unit TRow unit t_proc t_dead t_matured t_summary t_reset (t_init []) c6 ws6 t_fresh 2 [1; 1; 5]
           _ (snd (run6 (Run 2 true false :: runs [1; 1; 5]) t_fresh)) Hwf Hw Hn).
  - discriminate.
  - exact Hp0.
  - reflexivity.
  - lia.
  - repeat constructor; lia.
  - apply surjective_pairing.
  - vm_compute. reflexivity.
Qed.

Example api_overshoot_example :
  mf (fst (step6 (Run 5 true false) t_fresh)) = true /\
  step6 (Run (5 + 1000) true false) t_fresh = step6 (Run 5 true false) t_fresh.
Proof. split; vm_compute; reflexivity. Qed.

Example api_unfinished_example :
  let s := fst (run6 [Run 2 true false; Run 1 false false; GetFlux; Run 0 false false] t_fresh) in
  mf s = false /\ get_results TPhys TRow unit s = NotFinished /\ get_info TPhys TRow unit s = Info true false /\
  get_table TPhys TRow unit Flux s = Table Flux 3 false.
Proof. repeat split; vm_compute; reflexivity. Qed.

Example api_num_steps_example :
  snd (step6 (Run 0 false true) t_fresh) = Raised ValueError_num_steps /\
  snd (step6 (Run (-3) true false) t_fresh) = Raised ValueError_num_steps /\
  inits (fst (step6 (Run (-3) true false) t_fresh)) = 1%nat.
Proof. repeat split; vm_compute; reflexivity. Qed.

(* ---- Refutations: the bare statement of C09 ("ANY sequence of run calls ... without re-initialising in between ...
   same tables, summary and completion status as one run to termination; the model reports itself unfinished until
   then") is FALSE for the wrapper as it is.  Each witness is a call sequence on a new object. *)

(* (1) process_outputs=True in the middle.  After run_model(num_steps=2, process_outputs=True) the tables are DataFrames;
   EVERY later run_model(num_steps=k, initialize_model=False) raises ValueError("Length of values (3) does not match
   length of index (6)") and the model can never be brought to termination, whereas a run to termination finishes. *)
Definition s_po : TApiSt := fst (step6 (Run 2 true true) t_fresh).
Lemma s_po_facts : snd (step6 (Run 2 true true) t_fresh) = Returned true /\
  exists m, model s_po = Some m /\ tables_are_frames s_po = true /\ nthW unit ws6 (tsc (st m)) <> None /\ fin (st m) = false.
Proof.
  split; [vm_compute; reflexivity|]. eexists. split; [vm_compute; reflexivity|]. split; [vm_compute; reflexivity|].
  split; [vm_compute; discriminate|vm_compute; reflexivity].
Qed.

Theorem api_partition_process_outputs_refuted :
  mf (fst (step6 (RunTill true) t_fresh)) = true /\
  forall ks, Forall (fun k => 1 <= k) ks ->
    mf (fst (run6 (Run 2 true true :: runs ks) t_fresh)) = false /\
    snd (run6 (Run 2 true true :: runs ks) t_fresh) = Returned true :: repeat (Raised ValueError_length) (length ks).
Proof.
  split; [vm_compute; reflexivity|]. intros ks Hk.
  destruct s_po_facts as (Ho & m & Hm & Hfr & Hw & Hfin).
  unfold run6, t_api_run. rewrite api_run_cons. fold (t_api_step [] c6 ws6). fold step6. fold s_po. rewrite Ho.
  rewrite (frames_absorb_runs _ _ _ _ _ _ _ _ _ _ c6 ws6 s_po m ks Hm Hfin Hfr Hw Hk). cbn [fst snd].
  split; [unfold Api.model_finished; rewrite Hm; exact Hfin|reflexivity].
Qed.

(* (2) [repaired in b7ac20d; was api_after_termination_refuted] a call after termination: every option combination of
   run_model(num_steps=k>=1, initialize_model=False) on the finished object returns True, performs no step, leaves the
   object as it is; process_outputs=True does not set __steps_are_finished (cf. api_after_termination) *)
Example api_after_termination_example :
  let r := run6 [RunTill true; Run 1 false false; Run 7 false true; GetInfo; GetFlux; RunTill false] t_fresh in
  snd r = [Returned true; Returned true; Returned true; Info true true; Table Flux 5 true; Returned true] /\
  fst r = fst (step6 (RunTill true) t_fresh) /\ steps_are_finished (fst r) = false.
Proof. repeat split; vm_compute; reflexivity. Qed.

(* (3) "reports itself unfinished until then".  _initialize does not reset __has_model_finished: after a finished run,
   run_model(num_steps=0) (initialize_model defaults to True) raises ValueError(num_steps) but has re-initialised the object.
   The clock is at step 0, nothing has been simulated, yet get_simulation_results() returns a (empty) summary instead
   of False and has_model_finished is True; the tables are fresh zero arrays *)
Theorem api_unfinished_refuted :
  let r := run6 [RunTill true; Run 0 true false; GetResults; GetInfo; GetFlux] t_fresh in
  mf (fst r) = false /\
  snd r = [Returned true; Raised ValueError_num_steps; Results 0; Info true true; Table Flux 0 false].
Proof. split; vm_compute; reflexivity. Qed.

(* (4) __steps_are_finished is never reset, not even by _initialize.  After ONE call with process_outputs=True the object
   cannot be run to termination any more, not even with initialize_model=True: the first step after the
   re-initialisation converts the new arrays to DataFrames, the second step raises *)
Theorem api_reinitialise_refuted :
  snd (run6 [Run 1 true true; RunTill true; Run 3 true false; GetFlux] t_fresh) =
    [Returned true; Raised ValueError_length; Raised ValueError_length; Table Flux 1 true] /\
  mf (fst (run6 [Run 1 true true; RunTill true] t_fresh)) = false.
Proof. split; vm_compute; reflexivity. Qed.

(* (5) num_steps < 1 with initialize_model=True does change the object (cf. api_num_steps_init): the finished tables
   (5 rows, DataFrames) are replaced by empty arrays *)
Theorem api_num_steps_state_refuted :
  let s := fst (step6 (RunTill true) t_fresh) in
  snd (step6 (Run 0 true false) s) = Raised ValueError_num_steps /\
  get_table TPhys TRow unit Flux s = Table Flux 5 true /\
  get_table TPhys TRow unit Flux (fst (step6 (Run 0 true false) s)) = Table Flux 0 false.
Proof. repeat split; vm_compute; reflexivity. Qed.

Print Assumptions api_partition_from.
Print Assumptions api_partition.
Print Assumptions api_partition_wf.
Print Assumptions api_overshoot.
Print Assumptions api_unfinished_seq.
Print Assumptions api_finished.
Print Assumptions api_num_steps_noinit.
Print Assumptions api_num_steps_init.
Print Assumptions api_partition_process_outputs_refuted.
Print Assumptions api_after_termination_gen.
Print Assumptions api_after_termination.
Print Assumptions api_after_termination_runs.
Print Assumptions api_unfinished_refuted.
Print Assumptions api_reinitialise_refuted.
Print Assumptions api_num_steps_state_refuted.
Print Assumptions c6_wf.
Print Assumptions sticky_blocks_rerun.
Print Assumptions api_partition_wf_applied.
