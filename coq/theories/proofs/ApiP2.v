(* ApiP2.v — C11 ("re-running the same model object reproduces the first run's results exactly and does not raise") and
   the history half of C10 ("regardless of which other calls were made earlier") AT THE API LEVEL, for every physics
   (section variables as in ApiP.v).  Z / nat / list / bool only; axiom-free.

   Section hypothesis [init_idem : forall n, init_phys n = init_phys 0]: the physical state produced by the n-th
   _initialize of an object equals the one produced by the first.  At the API level this is an ASSUMPTION about the
   initialisation (it is what proofs/InitialiseP4.initialise_written_back proves for the concrete initialisation: running
   it again on the inputs it wrote back — the clipped weather table, the filled crop.harvest_date — gives the same result).

     sticky_only_by_process_outputs   a call without process_outputs=True leaves __steps_are_finished as it is
     sticky_never_reset               no call whatsoever resets __steps_are_finished once it is True
     api_rerun / api_rerun_wf         from ANY object state with __steps_are_finished False, run_model(till_termination=True)
                                      (initialize_model defaults to True) returns True and leaves the same model (clock,
                                      tables, summary), the same reporting flags and table kind as on a new object;
                                      everything but the counter [inits]
     api_rerun_runs(_wf)              the same for run_model(num_steps=k0) followed by run_model(num_steps=k_i,
                                      initialize_model=False) calls that finish the model
     api_history_independent(_wf)     ... after ANY list of earlier calls none of which used process_outputs=True
     api_po_blocks_rerun              the converse (cf. ApiP.api_reinitialise_refuted, sticky_blocks_rerun): a history with one
                                      run_model(num_steps=k, process_outputs=True) call that returned with the model unfinished
                                      makes every later run_model(till_termination=True) raise, whatever was called in between *)
From Coq Require Import ZArith List Bool Lia.
From AC Require Import Clock Api.
From AC.proofs Require Import ClockP ApiP.
From AC.Inst Require Import ClockInst.
Import ListNotations.
Local Open Scope Z_scope.

Section ApiRerun.
  Variable Phys W Row Out : Type.
  Variable proc : Z -> bool -> Z -> Z -> W -> Phys -> Phys * Row.
  Variable dead : Phys -> bool.
  Variable matured : Z -> Z -> Phys -> bool.
  Variable summary_of : Z -> bool -> Phys -> Out.
  Variable reset : Z -> list W -> Phys -> Phys.
  Variable init_phys : nat -> Phys.

  Notation Model := (Model Phys Row Out).
  Notation ApiSt := (ApiSt Phys Row Out).
  Notation mkApi := (mkApi Phys Row Out).
  Notation perform := (perform Phys W Row Out proc dead matured summary_of reset).
  Notation run_till := (run_till Phys W Row Out proc dead matured summary_of reset).
  Notation perform_api := (perform_api Phys W Row Out proc dead matured summary_of reset).
  Notation run_loop := (run_loop Phys W Row Out proc dead matured summary_of reset).
  Notation till_loop := (till_loop Phys W Row Out proc dead matured summary_of reset).
  Notation do_run := (do_run Phys W Row Out proc dead matured summary_of reset init_phys).
  Notation do_till := (do_till Phys W Row Out proc dead matured summary_of reset init_phys).
  Notation initialise := (initialise Phys Row Out init_phys).
  Notation api_step := (api_step Phys W Row Out proc dead matured summary_of reset init_phys).
  Notation api_run := (api_run Phys W Row Out proc dead matured summary_of reset init_phys).
  Notation model_finished := (model_finished Phys Row Out).
  Notation fresh := (fresh Phys Row Out).
  Notation cl := (cl Phys Row Out).
  Notation api_run_cons := (api_run_cons Phys W Row Out proc dead matured summary_of reset init_phys).

  (* ---- the sticky flag ---------------------------------------------------------------------------------------- *)
  Definition no_po (op : Op) : Prop := match op with Run _ _ p => p = false | _ => True end.

  Lemma perform_api_sticky c ws s s' : perform_api c ws s = inl s' -> steps_are_finished s' = steps_are_finished s.
  Proof.
    unfold Api.perform_api. destruct (model s) as [m|]; [|discriminate]. destruct (nthW W ws (tsc (st m))); [|discriminate].
    destruct (tables_are_frames s); [discriminate|]. destruct (perform c ws m); [|discriminate].
    intros H; injection H as <-. reflexivity.
  Qed.

  Lemma initialise_sticky c s s' : initialise c s = inl s' -> steps_are_finished s' = steps_are_finished s.
  Proof.
    unfold Api.initialise. destruct (init_model Phys Row Out c (init_phys (inits s))); [|discriminate].
    intros H; injection H as <-. reflexivity.
  Qed.

  Lemma run_loop_sticky_nopo c ws k : forall s, steps_are_finished (fst (run_loop c ws k false s)) = steps_are_finished s.
  Proof.
    induction k as [|k IH]; intros s; [reflexivity|].
    cbn [Api.run_loop]. rewrite andb_false_r. destruct (perform_api c ws s) as [s2|e] eqn:Ep; [|reflexivity].
    pose proof (perform_api_sticky c ws s s2 Ep) as H2.
    destruct (Api.model_finished Phys Row Out s2); [cbn; exact H2|]. rewrite IH. exact H2.
  Qed.

  Lemma run_loop_sticky_mono c ws k po : forall s, steps_are_finished s = true ->
    steps_are_finished (fst (run_loop c ws k po s)) = true.
  Proof.
    induction k as [|k IH]; intros s Hs; [exact Hs|].
    cbn [Api.run_loop].
    set (s1 := if (match k with O => true | S _ => false end) && po then Api.set_sticky Phys Row Out s else s).
    assert (H1 : steps_are_finished s1 = true) by (unfold s1; destruct ((match k with O => true | S _ => false end) && po); [reflexivity|exact Hs]).
    destruct (perform_api c ws s1) as [s2|e] eqn:Ep; [|exact H1].
    pose proof (perform_api_sticky c ws s1 s2 Ep) as H2. rewrite H1 in H2.
    destruct (Api.model_finished Phys Row Out s2); [cbn; exact H2|]. apply IH. exact H2.
  Qed.

  Lemma till_loop_sticky c ws fuel : forall s, steps_are_finished (fst (till_loop c ws fuel s)) = steps_are_finished s.
  Proof.
    induction fuel as [|fuel IH]; intros s; cbn [Api.till_loop]; destruct (model s) as [m|]; try reflexivity;
      destruct (fin (st m)); try reflexivity.
    destruct (perform_api c ws s) as [s2|e] eqn:Ep; [|reflexivity]. rewrite IH. exact (perform_api_sticky c ws s s2 Ep).
  Qed.

  (* only process_outputs=True writes __steps_are_finished: any other call leaves the flag as it is *)
  Theorem sticky_only_by_process_outputs c ws op s : no_po op ->
    steps_are_finished (fst (api_step c ws op s)) = steps_are_finished s.
  Proof.
    intros Hop. destruct op as [n i p|i| | | | |]; cbn [Api.api_step fst]; try reflexivity.
    - cbn in Hop. subst p. unfold Api.do_run.
      destruct (if i then initialise c s else inl s) as [s0|e] eqn:Ei; [|reflexivity].
      assert (H0 : steps_are_finished s0 = steps_are_finished s).
      { destruct i; [exact (initialise_sticky c s s0 Ei)|injection Ei as <-; reflexivity]. }
      destruct (n <? 1); [exact H0|]. destruct (model s0) as [m|]; [|exact H0].
      destruct (fin (st m)); [exact H0|]. rewrite run_loop_sticky_nopo. exact H0.
    - unfold Api.do_till. destruct (if i then initialise c s else inl s) as [s0|e] eqn:Ei; [|reflexivity].
      rewrite till_loop_sticky. destruct i; [exact (initialise_sticky c s s0 Ei)|injection Ei as <-; reflexivity].
  Qed.

  (* and nothing ever resets it: not _initialize, not a finished run, no getter *)
  Theorem sticky_never_reset c ws op s : steps_are_finished s = true -> steps_are_finished (fst (api_step c ws op s)) = true.
  Proof.
    intros Hs. destruct op as [n i p|i| | | | |]; cbn [Api.api_step fst]; try exact Hs.
    - unfold Api.do_run. destruct (if i then initialise c s else inl s) as [s0|e] eqn:Ei; [|exact Hs].
      assert (H0 : steps_are_finished s0 = true).
      { destruct i; [rewrite (initialise_sticky c s s0 Ei); exact Hs|injection Ei as <-; exact Hs]. }
      destruct (n <? 1); [exact H0|]. destruct (model s0) as [m|]; [|exact H0].
      destruct (fin (st m)); [exact H0|]. apply run_loop_sticky_mono. exact H0.
    - unfold Api.do_till. destruct (if i then initialise c s else inl s) as [s0|e] eqn:Ei; [|exact Hs].
      rewrite till_loop_sticky. destruct i; [rewrite (initialise_sticky c s s0 Ei); exact Hs|injection Ei as <-; exact Hs].
  Qed.

  Lemma sticky_run_nopo c ws ops : forall s, Forall no_po ops ->
    steps_are_finished (fst (api_run c ws ops s)) = steps_are_finished s.
  Proof.
    induction ops as [|op r IH]; intros s Hp; [reflexivity|]. inversion Hp; subst.
    rewrite api_run_cons. cbn [fst]. rewrite IH by assumption. apply sticky_only_by_process_outputs. assumption.
  Qed.

  Lemma sticky_run_mono c ws ops : forall s, steps_are_finished s = true -> steps_are_finished (fst (api_run c ws ops s)) = true.
  Proof.
    induction ops as [|op r IH]; intros s Hs; [exact Hs|].
    rewrite api_run_cons. cbn [fst]. apply IH. apply sticky_never_reset. exact Hs.
  Qed.

  (* a run_model(num_steps = k, process_outputs = True) call that returns with the model unfinished has set the flag *)
  Lemma run_loop_po_sets c ws k : forall s s', run_loop c ws (S k) true s = (s', Returned true) -> model_finished s' = false ->
    steps_are_finished s' = true.
  Proof.
    induction k as [|k IH]; intros s s'.
    - cbn [Api.run_loop andb]. destruct (perform_api c ws (Api.set_sticky Phys Row Out s)) as [s2|e] eqn:Ep; [|discriminate].
      pose proof (perform_api_sticky c ws _ s2 Ep) as H2. cbn in H2.
      destruct (Api.model_finished Phys Row Out s2) eqn:Ef; intros H; injection H as <-; intros Hf.
      + unfold Api.model_finished, Api.set_flags in *. cbn in Hf. congruence.
      + cbn. exact H2.
    - cbn [Api.run_loop andb]. destruct (perform_api c ws s) as [s2|e] eqn:Ep; [|discriminate].
      destruct (Api.model_finished Phys Row Out s2) eqn:Ef.
      + intros H; injection H as <-; intros Hf. unfold Api.model_finished, Api.set_flags in *. cbn in Hf. congruence.
      + apply IH.
  Qed.

  Lemma po_call_sets_sticky c ws k i s s1 : api_step c ws (Run k i true) s = (s1, Returned true) -> model_finished s1 = false ->
    steps_are_finished s1 = true.
  Proof.
    cbn [Api.api_step]. unfold Api.do_run. destruct (if i then initialise c s else inl s) as [s0|e]; [|discriminate].
    destruct (k <? 1) eqn:Ek; [discriminate|]. destruct (model s0) as [m|] eqn:Em; [|discriminate].
    destruct (fin (st m)) eqn:Ef.
    - intros H; injection H as <-; intros Hf. unfold Api.model_finished, Api.set_flags in Hf. cbn in Hf. rewrite Em in Hf. congruence.
    - apply Z.ltb_ge in Ek. destruct (Z.to_nat k) as [|k'] eqn:En; [lia|]. apply run_loop_po_sets.
  Qed.

  (* ---- re-running ------------------------------------------------------------------------------------------------ *)
  Hypothesis init_idem : forall n, init_phys n = init_phys 0%nat.

  (* equality of two object states on everything except the counter of _initialize calls: the model (clock state, physical
     state, the rows of the three daily tables, the summary rows), __has_model_executed, __has_model_finished,
     __steps_are_finished, and whether the tables are DataFrames *)
  Definition same_but_inits (a b : ApiSt) : Prop :=
    model a = model b /\ executed a = executed b /\ finished_flag a = finished_flag b /\
    steps_are_finished a = steps_are_finished b /\ tables_are_frames a = tables_are_frames b.

  (* C11 at the API level.  If run_model(till_termination=True) on a NEW object returns, then on the same object in ANY
     state in which __steps_are_finished is still False — after any history of calls — it returns True as well, does
     not raise, and leaves exactly the same model, flags and table kind *)
  Theorem api_rerun c ws s sF : plant c <> [] -> steps_are_finished s = false ->
    api_step c ws (RunTill true) fresh = (sF, Returned true) ->
    exists sR, api_step c ws (RunTill true) s = (sR, Returned true) /\ same_but_inits sR sF /\ inits sR = S (inits s).
  Proof.
    intros Hp Hs HF.
    destruct (initialise_ok Phys Row Out init_phys c fresh Hp eq_refl) as (mF & HfF & HiF & HIF).
    destruct (initialise_ok Phys Row Out init_phys c s Hp Hs) as (m0 & Hf0 & Hi0 & HI0).
    rewrite (init_idem (inits s)) in Hi0. cbn [inits Api.fresh] in HiF. rewrite HiF in Hi0. injection Hi0 as <-.
    cbn [Api.api_step] in *.
    rewrite (do_till_init Phys W Row Out proc dead matured summary_of reset init_phys c ws fresh _ HIF) in HF.
    rewrite (do_till_init Phys W Row Out proc dead matured summary_of reset init_phys c ws s _ HI0).
    unfold Api.do_till in *.
    pose proof (till_loop_clean Phys W Row Out proc dead matured summary_of reset c ws (S (inits fresh)) (till_fuel c) mF
                  (executed fresh) (finished_flag fresh) HfF) as LF.
    pose proof (till_loop_clean Phys W Row Out proc dead matured summary_of reset c ws (S (inits s)) (till_fuel c) mF
                  (executed s) (finished_flag s) HfF) as LS.
    destruct (run_till c ws (till_fuel c) mF) as [[m'|err]|].
    - rewrite LF in HF. injection HF as <-. rewrite LS. eexists. split; [reflexivity|].
      split; [|reflexivity]. unfold same_but_inits. repeat split; reflexivity.
    - destruct LF as (m1 & _ & LF). rewrite LF in HF. discriminate.
    - destruct LF as (m1 & _ & LF). rewrite LF in HF. discriminate.
  Qed.

  (* the run to termination on a new object returns, for a well-formed clock and a weather table covering the window *)
  Lemma till_returns_wf c ws s : wf_clock c -> weather_covers W c ws -> 2 <= n_steps c -> plant c <> [] ->
    (forall p, nthZ (plant c) 0 = Some p -> 0 <= p) -> steps_are_finished s = false ->
    exists sT, api_step c ws (RunTill true) s = (sT, Returned true).
  Proof.
    intros Hwf Hw Hn Hp Hp0 Hs.
    destruct (initialise_ok Phys Row Out init_phys c s Hp Hs) as (m0 & Hf0 & Hi0 & HI0).
    cbn [Api.api_step]. rewrite (do_till_init Phys W Row Out proc dead matured summary_of reset init_phys c ws s _ HI0).
    unfold Api.do_till.
    destruct (init_model_inv Phys Row Out c _ m0 Hwf Hn Hp Hp0 Hi0) as (Hm & _ & _).
    destruct (run_till_terminates Phys W Row Out proc dead matured summary_of reset c ws Hwf Hw (till_fuel c) m0 Hm) as (m' & Hrt & _).
    { unfold till_fuel. pose proof (ci_tsc _ c _ (proj1 Hm)). lia. }
    pose proof (till_loop_clean Phys W Row Out proc dead matured summary_of reset c ws (S (inits s)) (till_fuel c) m0
                  (executed s) (finished_flag s) Hf0) as Hl.
    rewrite Hrt in Hl. rewrite Hl. eexists. reflexivity.
  Qed.

  Theorem api_rerun_wf c ws s : wf_clock c -> weather_covers W c ws -> 2 <= n_steps c -> plant c <> [] ->
    (forall p, nthZ (plant c) 0 = Some p -> 0 <= p) -> steps_are_finished s = false ->
    exists sR, api_step c ws (RunTill true) s = (sR, Returned true) /\
               same_but_inits sR (fst (api_step c ws (RunTill true) fresh)) /\ model_finished sR = true.
  Proof.
    intros Hwf Hw Hn Hp Hp0 Hs.
    destruct (till_returns_wf c ws fresh Hwf Hw Hn Hp Hp0 eq_refl) as (sF & HF).
    destruct (api_rerun c ws s sF Hp Hs HF) as (sR & HR & Hsame & _). exists sR. rewrite HF. cbn [fst].
    split; [exact HR|]. split; [exact Hsame|].
    (* the run finished: the state is a clean finished one *)
    destruct (initialise_ok Phys Row Out init_phys c s Hp Hs) as (m0 & Hf0 & _ & HI0).
    cbn [Api.api_step] in HR. rewrite (do_till_init Phys W Row Out proc dead matured summary_of reset init_phys c ws s _ HI0) in HR.
    unfold Api.do_till in HR.
    pose proof (till_loop_clean Phys W Row Out proc dead matured summary_of reset c ws (S (inits s)) (till_fuel c) m0
                  (executed s) (finished_flag s) Hf0) as Hl.
    destruct (run_till c ws (till_fuel c) m0) as [[m'|err]|] eqn:Er.
    - rewrite Hl in HR. injection HR as <-. unfold Api.model_finished. cbn.
      exact (run_till_ok_fin Phys W Row Out proc dead matured summary_of reset c ws _ _ _ Er).
    - destruct Hl as (m1 & _ & Hl). rewrite Hl in HR. discriminate.
    - destruct Hl as (m1 & _ & Hl). rewrite Hl in HR. discriminate.
  Qed.

  (* the same for a step-wise re-run: run_model(num_steps=k0) (initialize_model defaults to True) followed by
     run_model(num_steps=k_i, initialize_model=False) calls; if they leave the model finished, the object equals (but for
     [inits]) the one a run to termination on a new object produces, and every call returned True *)
  Theorem api_rerun_runs c ws s k0 ks sN outs sF :
    plant c <> [] -> steps_are_finished s = false -> 1 <= k0 -> Forall (fun k => 1 <= k) ks ->
    api_run c ws (Run k0 true false :: runs ks) s = (sN, outs) -> model_finished sN = true ->
    api_step c ws (RunTill true) fresh = (sF, Returned true) ->
    same_but_inits sN sF /\ outs = repeat (Returned true) (S (length ks)).
  Proof.
    intros Hp Hs Hk0 Hk Hr HfN HF.
    destruct (api_rerun c ws s sF Hp Hs HF) as (sR & HR & Hsame & _).
    destruct (api_partition Phys W Row Out proc dead matured summary_of reset init_phys c ws s k0 ks sN outs sR (Returned true)
                Hp Hs Hk0 Hk Hr HfN HR ltac:(discriminate)) as (-> & _ & Ho & _).
    split; [exact Hsame|exact Ho].
  Qed.

  Theorem api_rerun_runs_wf c ws s k0 ks sN outs :
    wf_clock c -> weather_covers W c ws -> 2 <= n_steps c -> plant c <> [] -> (forall p, nthZ (plant c) 0 = Some p -> 0 <= p) ->
    steps_are_finished s = false -> 1 <= k0 -> Forall (fun k => 1 <= k) ks ->
    api_run c ws (Run k0 true false :: runs ks) s = (sN, outs) -> model_finished sN = true ->
    same_but_inits sN (fst (api_step c ws (RunTill true) fresh)) /\ outs = repeat (Returned true) (S (length ks)).
  Proof.
    intros Hwf Hw Hn Hp Hp0 Hs Hk0 Hk Hr HfN.
    destruct (till_returns_wf c ws fresh Hwf Hw Hn Hp Hp0 eq_refl) as (sF & HF). rewrite HF. cbn [fst].
    exact (api_rerun_runs c ws s k0 ks sN outs sF Hp Hs Hk0 Hk Hr HfN HF).
  Qed.

  (* ---- the history half of C10 ----------------------------------------------------------------------------------- *)
  (* ANY list of earlier calls without process_outputs=True — re-initialising calls, partial runs, runs to termination,
     getters, num_steps < 1 calls, calls after termination, raising calls — on an object whose flag is False (e.g. a new
     object): a following run_model(till_termination=True) returns True and produces the model, flags and table kind of
     a new object's run to termination *)
  Theorem api_history_independent c ws s0 ops s1 outs sF :
    plant c <> [] -> steps_are_finished s0 = false -> Forall no_po ops ->
    api_run c ws ops s0 = (s1, outs) ->
    api_step c ws (RunTill true) fresh = (sF, Returned true) ->
    exists sR, api_step c ws (RunTill true) s1 = (sR, Returned true) /\ same_but_inits sR sF.
  Proof.
    intros Hp Hs Hops Hr HF.
    pose proof (sticky_run_nopo c ws ops s0 Hops) as H1. rewrite Hr in H1. cbn [fst] in H1. rewrite Hs in H1.
    destruct (api_rerun c ws s1 sF Hp H1 HF) as (sR & HR & Hsame & _). exists sR. split; assumption.
  Qed.

  Theorem api_history_independent_wf c ws ops s1 outs :
    wf_clock c -> weather_covers W c ws -> 2 <= n_steps c -> plant c <> [] -> (forall p, nthZ (plant c) 0 = Some p -> 0 <= p) ->
    Forall no_po ops -> api_run c ws ops fresh = (s1, outs) ->
    exists sR, api_step c ws (RunTill true) s1 = (sR, Returned true) /\
               same_but_inits sR (fst (api_step c ws (RunTill true) fresh)) /\ model_finished sR = true.
  Proof.
    intros Hwf Hw Hn Hp Hp0 Hops Hr.
    pose proof (sticky_run_nopo c ws ops fresh Hops) as H1. rewrite Hr in H1. cbn [fst] in H1.
    exact (api_rerun_wf c ws s1 Hwf Hw Hn Hp Hp0 H1).
  Qed.

  (* the same for a step-wise run after the history *)
  Theorem api_history_independent_runs c ws s0 ops s1 outs k0 ks sN outsN sF :
    plant c <> [] -> steps_are_finished s0 = false -> Forall no_po ops ->
    api_run c ws ops s0 = (s1, outs) -> 1 <= k0 -> Forall (fun k => 1 <= k) ks ->
    api_run c ws (Run k0 true false :: runs ks) s1 = (sN, outsN) -> model_finished sN = true ->
    api_step c ws (RunTill true) fresh = (sF, Returned true) ->
    same_but_inits sN sF /\ outsN = repeat (Returned true) (S (length ks)).
  Proof.
    intros Hp Hs Hops Hr Hk0 Hk HrN HfN HF.
    pose proof (sticky_run_nopo c ws ops s0 Hops) as H1. rewrite Hr in H1. cbn [fst] in H1. rewrite Hs in H1.
    exact (api_rerun_runs c ws s1 k0 ks sN outsN sF Hp H1 Hk0 Hk HrN HfN HF).
  Qed.

  (* ---- the converse: one process_outputs=True call in the history ------------------------------------------------- *)
  (* If some earlier call run_model(num_steps=k, initialize_model=i, process_outputs=True) returned with the model
     unfinished, then after ANY further calls, run_model(till_termination=True) (and run_model(num_steps>=2)) with
     initialize_model=True raises ValueError("Length of values ...") — provided only that the first step of the
     re-initialised run does not already finish it.  (Does not use [init_idem].) *)
  Theorem api_po_blocks_rerun c ws k i s s1 ops s2 outs m0 m1 :
    api_step c ws (Run k i true) s = (s1, Returned true) -> model_finished s1 = false ->
    api_run c ws ops s1 = (s2, outs) ->
    init_model Phys Row Out c (init_phys (inits s2)) = Ok m0 -> perform c ws m0 = Ok m1 -> fin (st m1) = false ->
    nthW W ws (tsc (st m1)) <> None -> 2 <= n_steps c ->
    snd (api_step c ws (RunTill true) s2) = Raised ValueError_length /\
    forall n po, 2 <= n -> snd (api_step c ws (Run n true po) s2) = Raised ValueError_length.
  Proof.
    intros H1 Hf1 Hr Hi Hp Hfm Hw Hn.
    pose proof (po_call_sets_sticky c ws k i s s1 H1 Hf1) as Hs1.
    pose proof (sticky_run_mono c ws ops s1 Hs1) as Hs2. rewrite Hr in Hs2. cbn [fst] in Hs2.
    exact (sticky_blocks_rerun Phys W Row Out proc dead matured summary_of reset init_phys c ws s2 m0 m1 Hs2 Hi Hp Hfm Hw Hn).
  Qed.
End ApiRerun.

(* ============================================================================================================= *)
(* Concrete instances on the 6-day clock c6 of ApiP.v (stream physics with the empty stream for every _initialize,
   so that the initialisation is idempotent) *)
Lemma t_init_idem : forall n, t_init [] n = t_init [] 0%nat.
Proof. intros n. unfold t_init. destruct n as [|[|n]]; reflexivity. Qed.

Notation sbi := (same_but_inits TPhys TRow unit).

(* a history without process_outputs=True: a partial run, getters, a raising num_steps=0 call that re-initialised, a full
   run, calls after termination, another re-initialising partial run *)
Definition hist6 : list Op :=
  [Run 2 true false; GetFlux; Run 0 true false; GetResults; RunTill true; Run 3 false false; RunTill false;
   Run (-1) false false; Run 2 true false; GetInfo].

Example api_history_independent_example :
  Forall no_po hist6 /\
  snd (run6 hist6 t_fresh) =
    [Returned true; Table Flux 2 false; Raised ValueError_num_steps; NotFinished; Returned true; Returned true; Returned true;
     Raised ValueError_num_steps; Returned true; Info true false] /\
  snd (step6 (RunTill true) (fst (run6 hist6 t_fresh))) = Returned true /\
  sbi (fst (step6 (RunTill true) (fst (run6 hist6 t_fresh)))) (fst (step6 (RunTill true) t_fresh)) /\
  inits (fst (step6 (RunTill true) (fst (run6 hist6 t_fresh)))) = 5%nat.
Proof.
  split; [repeat constructor|]. split; [vm_compute; reflexivity|]. split; [vm_compute; reflexivity|].
  split; [|vm_compute; reflexivity]. unfold same_but_inits. repeat split; vm_compute; reflexivity.
Qed.

(* the theorem applied to the instance (its hypotheses are satisfiable) *)
Example api_history_independent_applied :
  exists sR, step6 (RunTill true) (fst (run6 hist6 t_fresh)) = (sR, Returned true) /\
             sbi sR (fst (step6 (RunTill true) t_fresh)) /\ model_finished TPhys TRow unit sR = true.
Proof.
  destruct c6_wf as (Hwf & Hw & Hn & Hp0).
  apply (api_history_independent_wf TPhys unit TRow unit t_proc t_dead t_matured t_summary t_reset (t_init []) t_init_idem
           c6 ws6 hist6 (fst (run6 hist6 t_fresh)) (snd (run6 hist6 t_fresh)) Hwf Hw Hn).
  - discriminate.
  - exact Hp0.
  - repeat constructor.
  - unfold run6, t_api_run, t_fresh. apply surjective_pairing.
Qed.

Example api_rerun_runs_example :
  let s := fst (run6 hist6 t_fresh) in
  sbi (fst (run6 (Run 2 true false :: runs [1; 1; 5; 3]) s)) (fst (step6 (RunTill true) t_fresh)) /\
  snd (run6 (Run 2 true false :: runs [1; 1; 5; 3]) s) = repeat (Returned true) 5.
Proof. split; [unfold same_but_inits; repeat split; vm_compute; reflexivity|vm_compute; reflexivity]. Qed.

(* the converse on the instance: one process_outputs=True call early in the history, then anything *)
Example api_po_blocks_rerun_example :
  let s2 := fst (run6 [Run 2 true true; GetFlux; Run 0 true false; Run 1 false false; GetInfo] t_fresh) in
  snd (step6 (RunTill true) s2) = Raised ValueError_length /\
  forall n po, 2 <= n -> snd (step6 (Run n true po) s2) = Raised ValueError_length.
Proof.
  cbv zeta.
  set (s1 := fst (step6 (Run 2 true true) t_fresh)).
  set (ops := [GetFlux; Run 0 true false; Run 1 false false; GetInfo]).
  assert (E : fst (run6 (Run 2 true true :: ops) t_fresh) = fst (run6 ops s1))
    by (vm_compute; reflexivity).
  rewrite E.
  eapply (api_po_blocks_rerun TPhys unit TRow unit t_proc t_dead t_matured t_summary t_reset (t_init []) c6 ws6 2 true t_fresh s1 ops
            (fst (run6 ops s1)) (snd (run6 ops s1))).
  - vm_compute. reflexivity.
  - vm_compute. reflexivity.
  - unfold run6, t_api_run. apply surjective_pairing.
  - vm_compute. reflexivity.
  - vm_compute. reflexivity.
  - vm_compute. reflexivity.
  - vm_compute. discriminate.
  - vm_compute. discriminate.
Qed.

Print Assumptions sticky_only_by_process_outputs.
Print Assumptions sticky_never_reset.
Print Assumptions api_rerun.
Print Assumptions api_rerun_wf.
Print Assumptions api_rerun_runs.
Print Assumptions api_rerun_runs_wf.
Print Assumptions api_history_independent.
Print Assumptions api_history_independent_wf.
Print Assumptions api_history_independent_runs.
Print Assumptions api_po_blocks_rerun.
Print Assumptions api_history_independent_example.
Print Assumptions api_history_independent_applied.
Print Assumptions api_rerun_runs_example.
Print Assumptions api_po_blocks_rerun_example.
