(* CalendarP.v — theorems about Init/Calendar.v (unit "calendar"): Gregorian day numbers, the season list, the
   window, the default harvest date.  Z / list / bool only; axiom-free (Print Assumptions at the end). *)
From Coq Require Import ZArith List Bool Lia.
From AC Require Import Num Clock.
From AC.Init Require Import Calendar.
From AC.proofs Require Import ClockP.
Import ListNotations.
Local Open Scope Z_scope.

Definition g (a : Z) : Z := 365 * a + a / 4 - a / 100 + a / 400.
Definition b2z (b : bool) : Z := if b then 1 else 0.
Definition mpof (m : Z) : Z := if m <=? 2 then m + 9 else m - 3.
Definition ypof (y m : Z) : Z := if m <=? 2 then y - 1 else y.

Lemma era_g a : let era := a / 400 in let yoe := a - era * 400 in
  era * 146097 + (yoe * 365 + yoe / 4 - yoe / 100) = g a.
Proof. unfold g. cbv zeta. (Z.div_mod_to_equations; lia). Qed.

Lemma dfc_eq y m d : days_from_civil y m d = g (ypof y m) + (153 * mpof m + 2) / 5 + d - 306.
Proof.
  unfold days_from_civil, ypof, mpof. cbv zeta.
  set (a := if m <=? 2 then y - 1 else y). set (mp := if m <=? 2 then m + 9 else m - 3).
  pose proof (era_g a) as H. cbv zeta in H. lia.
Qed.

Lemma g_step a : g (a + 1) = g a + 365 + b2z (is_leap (a + 1)).
Proof.
  unfold g, is_leap, b2z.
  destruct ((a + 1) mod 4 =? 0) eqn:E4; destruct ((a + 1) mod 100 =? 0) eqn:E100; destruct ((a + 1) mod 400 =? 0) eqn:E400; cbn [andb orb negb];
  rewrite ?Z.eqb_eq, ?Z.eqb_neq in *; (Z.div_mod_to_equations; lia).
Qed.

Lemma g_mono a b : a <= b -> g a + 365 * (b - a) <= g b.
Proof. unfold g. intros. (Z.div_mod_to_equations; lia). Qed.

Arguments is_leap : simpl never.
Definition md (p : Z) : Z := (153 * p + 2) / 5.

Lemma valid_date_spec y m d : valid_date y m d = true <-> 1 <= m <= 12 /\ 1 <= d <= days_in_month y m.
Proof. unfold valid_date. rewrite !andb_true_iff, !Z.leb_le. tauto. Qed.

Lemma month_cases m : 1 <= m <= 12 -> m = 1 \/ m = 2 \/ m = 3 \/ m = 4 \/ m = 5 \/ m = 6 \/ m = 7 \/ m = 8 \/ m = 9 \/ m = 10 \/ m = 11 \/ m = 12.
Proof. lia. Qed.

Lemma dim_bounds y m : 1 <= m <= 12 -> 28 <= days_in_month y m <= 31.
Proof. intros H. destruct (month_cases m H) as [->|[->|[->|[->|[->|[->|[->|[->|[->|[->|[->| ->]]]]]]]]]]]; unfold days_in_month; cbn -[is_leap]; try lia; destruct (is_leap y); lia. Qed.

(* day of the March-based year: bounds *)
Lemma doy_bound y m d : valid_date y m d = true ->
  0 <= md (mpof m) + d - 1 <= 364 + b2z (is_leap (ypof y m + 1)).
Proof.
  intros V. apply valid_date_spec in V as [Hm Hd].
  destruct (month_cases m Hm) as [->|[->|[->|[->|[->|[->|[->|[->|[->|[->|[->| ->]]]]]]]]]]];
  unfold days_in_month, mpof, ypof, md, b2z in *; cbn -[Z.add Z.sub Z.mul Z.div is_leap] in *;
  try replace (y - 1 + 1) with y by lia; destruct (is_leap y); try destruct (is_leap (y + 1)); Z.div_mod_to_equations; lia.
Qed.

(* the month table: md(p) + (length of month p) = md(p+1) *)
Lemma md_month y m : 1 <= m <= 12 -> m <> 2 -> md (mpof m) + days_in_month y m = md (mpof m + 1).
Proof.
  intros Hm H2. destruct (month_cases m Hm) as [->|[->|[->|[->|[->|[->|[->|[->|[->|[->|[->| ->]]]]]]]]]]]; try congruence; unfold days_in_month, mpof, md; cbn -[Z.add Z.sub Z.mul Z.div is_leap]; Z.div_mod_to_equations; lia.
Qed.

Lemma md_mono p q : p <= q -> md p <= md q.
Proof. unfold md. intros. Z.div_mod_to_equations. lia. Qed.

Theorem date_order y1 m1 d1 y2 m2 d2 :
  valid_date y1 m1 d1 = true -> valid_date y2 m2 d2 = true ->
  date_lt (y1, m1, d1) (y2, m2, d2) = true -> days_from_civil y1 m1 d1 < days_from_civil y2 m2 d2.
Proof.
  intros V1 V2 L. rewrite !dfc_eq.
  pose proof (doy_bound _ _ _ V1) as B1. pose proof (doy_bound _ _ _ V2) as B2.
  apply valid_date_spec in V1 as [Hm1 Hd1]. apply valid_date_spec in V2 as [Hm2 Hd2].
  fold (md (mpof m1)) (md (mpof m2)) in *.
  assert (Hlex : ypof y1 m1 < ypof y2 m2 \/ (ypof y1 m1 = ypof y2 m2 /\ (mpof m1 < mpof m2 \/ (mpof m1 = mpof m2 /\ d1 < d2)))).
  { unfold date_lt in L. unfold ypof, mpof.
    destruct (m1 <=? 2) eqn:E1; destruct (m2 <=? 2) eqn:E2; rewrite ?Z.leb_le, ?Z.leb_gt in *;
    rewrite !orb_true_iff, !andb_true_iff, !Z.ltb_lt, !Z.eqb_eq in L; lia. }
  destruct Hlex as [Hy|[Hy [Hp|[Hp Hd]]]].
  - pose proof (g_step (ypof y1 m1)). pose proof (g_mono (ypof y1 m1 + 1) (ypof y2 m2) ltac:(lia)). lia.
  - rewrite Hy.
    assert (m1 <> 2) by (unfold mpof in Hp; destruct (m1 <=? 2) eqn:E1; destruct (m2 <=? 2) eqn:E2; rewrite ?Z.leb_le, ?Z.leb_gt in *; lia).
    pose proof (md_month y1 m1 Hm1 H). pose proof (md_mono (mpof m1 + 1) (mpof m2) ltac:(lia)). lia.
  - rewrite Hy, Hp. lia.
Qed.

(* ---- civil_from_days: one 400-year era is checked exhaustively (146097 days), eras are handled symbolically *)
Definition era_check (doe : Z) : bool :=
  let yoe := (doe - doe / 1460 + doe / 36524 - doe / 146096) / 365 in
  let doy := doe - (365 * yoe + yoe / 4 - yoe / 100) in
  let mp := (5 * doy + 2) / 153 in
  let d := doy - (153 * mp + 2) / 5 + 1 in
  let m := if mp <? 10 then mp + 3 else mp - 9 in
  (0 <=? yoe) && (yoe <=? 399) && (0 <=? mp) && (mp <=? 11) && (1 <=? d) &&
  (d <=? days_in_month (yoe + (if m <=? 2 then 1 else 0)) m).

Fixpoint all_from (n : nat) (z : Z) (f : Z -> bool) : bool :=
  match n with O => true | S k => f z && all_from k (z + 1) f end.

Lemma all_from_spec n : forall z f, all_from n z f = true -> forall i, z <= i < z + Z.of_nat n -> f i = true.
Proof.
  induction n as [|n IH]; intros z f H i Hi; [lia|].
  cbn [all_from] in H. apply andb_true_iff in H as [H0 H1].
  destruct (Z.eq_dec i z) as [->|Hne]; [exact H0|]. apply (IH (z + 1) f H1). lia.
Qed.

Lemma era_check_all : all_from (Z.to_nat 146097) 0 era_check = true.
Proof. vm_compute. reflexivity. Qed.

Lemma era_check_ok doe : 0 <= doe < 146097 -> era_check doe = true.
Proof. intros H. apply (all_from_spec _ _ _ era_check_all). lia. Qed.

Lemma is_leap_period y k : is_leap (y + k * 400) = is_leap y.
Proof.
  unfold is_leap.
  assert ((y + k * 400) mod 4 = y mod 4) as -> by (Z.div_mod_to_equations; lia).
  assert ((y + k * 400) mod 100 = y mod 100) as -> by (Z.div_mod_to_equations; lia).
  assert ((y + k * 400) mod 400 = y mod 400) as -> by (Z.div_mod_to_equations; lia).
  reflexivity.
Qed.

Lemma dim_period y k m : days_in_month (y + k * 400) m = days_in_month y m.
Proof. unfold days_in_month. rewrite is_leap_period. reflexivity. Qed.

Theorem civil_from_days_spec n :
  let '(y, m, d) := civil_from_days n in valid_date y m d = true /\ days_from_civil y m d = n.
Proof.
  unfold civil_from_days. cbv zeta.
  set (z := n + 305). set (era := z / 146097). set (doe := z - era * 146097).
  assert (Hdoe : 0 <= doe < 146097) by (subst doe era; Z.div_mod_to_equations; lia).
  pose proof (era_check_ok doe Hdoe) as C. unfold era_check in C. cbv zeta in C.
  set (yoe := (doe - doe / 1460 + doe / 36524 - doe / 146096) / 365) in *.
  set (doy := doe - (365 * yoe + yoe / 4 - yoe / 100)) in *.
  set (mp := (5 * doy + 2) / 153) in *.
  set (q := (153 * mp + 2) / 5) in *.
  set (d := doy - q + 1) in *.
  set (m := if mp <? 10 then mp + 3 else mp - 9) in *.
  rewrite !andb_true_iff, !Z.leb_le in C. destruct C as [[[[[C1 C2] C3] C4] C5] C6].
  assert (Hm : 1 <= m <= 12 /\ (m <= 2 -> mp = m + 9) /\ (2 < m -> mp = m - 3))
    by (subst m; destruct (mp <? 10) eqn:E; rewrite ?Z.ltb_lt, ?Z.ltb_ge in E; lia).
  destruct Hm as (Hm & Hm1 & Hm2).
  split.
  - apply valid_date_spec. split; [exact Hm|]. split; [exact C5|].
    destruct (m <=? 2) eqn:E.
    + replace (yoe + era * 400 + 1) with (yoe + 1 + era * 400) by lia. rewrite dim_period. exact C6.
    + rewrite dim_period. replace (yoe + 0) with yoe in C6 by lia. exact C6.
  - unfold days_from_civil. cbv zeta.
    destruct (m <=? 2) eqn:E; rewrite ?Z.leb_le, ?Z.leb_gt in E.
    + replace (yoe + era * 400 + 1 - 1) with (yoe + era * 400) by lia.
      assert ((yoe + era * 400) / 400 = era) as -> by (Z.div_mod_to_equations; lia).
      replace (yoe + era * 400 - era * 400) with yoe by lia.
      rewrite <- (Hm1 E). fold q. subst d doy doe z. lia.
    + assert ((yoe + era * 400) / 400 = era) as -> by (Z.div_mod_to_equations; lia).
      replace (yoe + era * 400 - era * 400) with yoe by lia.
      rewrite <- (Hm2 E). fold q. subst d doy doe z. lia.
Qed.

Lemma date_lt_total a b : date_lt a b = true \/ a = b \/ date_lt b a = true.
Proof.
  destruct a as [[y1 m1] d1], b as [[y2 m2] d2]. unfold date_lt.
  rewrite !orb_true_iff, !andb_true_iff, !Z.ltb_lt, !Z.eqb_eq.
  destruct (Z.lt_total y1 y2) as [?|[?|?]]; [lia| |lia].
  destruct (Z.lt_total m1 m2) as [?|[?|?]]; [lia| |lia].
  destruct (Z.lt_total d1 d2) as [?|[?|?]]; [lia| |lia].
  right; left. congruence.
Qed.

Lemma date_lt_irrefl_asym a b : date_lt a b = true -> date_lt b a = false /\ a <> b.
Proof.
  destruct a as [[y1 m1] d1], b as [[y2 m2] d2]. unfold date_lt.
  rewrite !orb_true_iff, !andb_true_iff, !Z.ltb_lt, !Z.eqb_eq. intros H. split.
  - apply not_true_iff_false. rewrite !orb_true_iff, !andb_true_iff, !Z.ltb_lt, !Z.eqb_eq. lia.
  - intros E. injection E. lia.
Qed.

(* days_from_civil is injective on valid dates, and reflects the order *)
Theorem date_order_iff y1 m1 d1 y2 m2 d2 :
  valid_date y1 m1 d1 = true -> valid_date y2 m2 d2 = true ->
  (days_from_civil y1 m1 d1 <? days_from_civil y2 m2 d2) = date_lt (y1, m1, d1) (y2, m2, d2).
Proof.
  intros V1 V2. destruct (date_lt_total (y1, m1, d1) (y2, m2, d2)) as [L|[E|L]].
  - rewrite L. apply Z.ltb_lt. apply date_order; assumption.
  - injection E as -> -> ->. rewrite Z.ltb_irrefl. symmetry. apply not_true_iff_false. intros L.
    apply date_lt_irrefl_asym in L. tauto.
  - pose proof (date_order _ _ _ _ _ _ V2 V1 L). apply date_lt_irrefl_asym in L as [-> _]. apply Z.ltb_ge. lia.
Qed.

Theorem days_from_civil_inj y1 m1 d1 y2 m2 d2 :
  valid_date y1 m1 d1 = true -> valid_date y2 m2 d2 = true ->
  days_from_civil y1 m1 d1 = days_from_civil y2 m2 d2 -> (y1, m1, d1) = (y2, m2, d2).
Proof.
  intros V1 V2 E. destruct (date_lt_total (y1, m1, d1) (y2, m2, d2)) as [L|[E'|L]]; [|exact E'|].
  - pose proof (date_order _ _ _ _ _ _ V1 V2 L). lia.
  - pose proof (date_order _ _ _ _ _ _ V2 V1 L). lia.
Qed.

(* Theorem 1: round trips, for ALL day numbers / all valid dates of the proleptic Gregorian calendar *)
Theorem civil_roundtrip n : let '(y, m, d) := civil_from_days n in days_from_civil y m d = n.
Proof. pose proof (civil_from_days_spec n) as H. destruct (civil_from_days n) as [[y m] d]. tauto. Qed.

Theorem civil_from_days_valid n : let '(y, m, d) := civil_from_days n in valid_date y m d = true.
Proof. pose proof (civil_from_days_spec n) as H. destruct (civil_from_days n) as [[y m] d]. tauto. Qed.

Theorem civil_roundtrip_valid y m d : valid_date y m d = true -> civil_from_days (days_from_civil y m d) = (y, m, d).
Proof.
  intros V. pose proof (civil_from_days_spec (days_from_civil y m d)) as H.
  destruct (civil_from_days (days_from_civil y m d)) as [[y2 m2] d2]. destruct H as [V2 E].
  apply days_from_civil_inj; assumption.
Qed.

(* ================================================================================================ *)
(* month/day pairs *)
Definition md_valid (a : Z * Z) : bool := valid_date 1990 (fst a) (snd a).
Definition md_lt (a b : Z * Z) : bool := (fst a <? fst b) || ((fst a =? fst b) && (snd a <? snd b)).

Lemma is_leap_1990 : is_leap 1990 = false. Proof. reflexivity. Qed.
Lemma is_leap_1992 : is_leap 1992 = true. Proof. reflexivity. Qed.

Lemma dim_1990_le y m : days_in_month 1990 m <= days_in_month y m.
Proof. unfold days_in_month. rewrite is_leap_1990. destruct (m =? 2); [destruct (is_leap y); lia|lia]. Qed.
Lemma dim_le_1992 y m : days_in_month y m <= days_in_month 1992 m.
Proof. unfold days_in_month. rewrite is_leap_1992. destruct (m =? 2); [destruct (is_leap y); lia|lia]. Qed.

(* a day of 1990 (anything but 29 February) is a day of every year; a day of any year is a day of 1992 *)
Lemma valid_any_year y a : md_valid a = true -> valid_date y (fst a) (snd a) = true.
Proof. unfold md_valid. rewrite !valid_date_spec. pose proof (dim_1990_le y (fst a)). lia. Qed.
Lemma valid_in_leap y m d : valid_date y m d = true -> valid_date 1992 m d = true.
Proof. rewrite !valid_date_spec. pose proof (dim_le_1992 y m). lia. Qed.

Lemma md_lt_date_lt y a b : date_lt (y, fst a, snd a) (y, fst b, snd b) = md_lt a b.
Proof. unfold date_lt, md_lt. rewrite Z.ltb_irrefl, Z.eqb_refl. reflexivity. Qed.

(* comparisons of two month/day pairs in a mock year do not depend on the year *)
Lemma md_cmp y a b : valid_date y (fst a) (snd a) = true -> valid_date y (fst b) (snd b) = true ->
  (days_from_civil y (fst a) (snd a) <? days_from_civil y (fst b) (snd b)) = md_lt a b.
Proof. intros Va Vb. rewrite date_order_iff by assumption. apply md_lt_date_lt. Qed.

Lemma parse_ok y m d : valid_date y m d = true -> parse y m d = Ok (days_from_civil y m d).
Proof. unfold parse. intros ->. reflexivity. Qed.
Lemma parse_bad y m d : valid_date y m d = false -> parse y m d = Err DateParseError_MonthDay.
Proof. unfold parse. intros ->. reflexivity. Qed.

(* ================================================================================================ *)
(* zrange *)
Lemma zrange_nil a b : b <= a -> zrange a b = [].
Proof. intros H. unfold zrange. replace (Z.to_nat (b - a)) with 0%nat by lia. reflexivity. Qed.
Lemma zrange_cons a b : a < b -> zrange a b = a :: zrange (a + 1) b.
Proof.
  intros H. unfold zrange. replace (Z.to_nat (b - a)) with (S (Z.to_nat (b - (a + 1)))) by lia.
  cbn [seq map]. f_equal; [lia|]. rewrite <- seq_shift, map_map. apply map_ext. intros i. lia.
Qed.
Lemma tl_zrange a b : tl (zrange a b) = zrange (a + 1) b.
Proof.
  destruct (Z_lt_le_dec a b) as [H|H]; [rewrite (zrange_cons a b H); reflexivity|].
  rewrite !zrange_nil by lia. reflexivity.
Qed.

(* ================================================================================================ *)
(* the closed form of the season list *)
Definition seasons_spec (s : Z) (pl hv : Z * Z) (dy y0 : Z) (k : nat) : list (Z * Z) :=
  map (fun i => (days_from_civil (y0 + Z.of_nat i) (fst pl) (snd pl) - s,
                 days_from_civil (y0 + Z.of_nat i + dy) (fst hv) (snd hv) - s)) (seq 0 k).

Lemma seasons_spec_S s pl hv dy y0 k :
  seasons_spec s pl hv dy y0 (S k) =
  (days_from_civil y0 (fst pl) (snd pl) - s, days_from_civil (y0 + dy) (fst hv) (snd hv) - s) :: seasons_spec s pl hv dy (y0 + 1) k.
Proof.
  unfold seasons_spec. cbn [seq map]. f_equal.
  - replace (y0 + Z.of_nat 0) with y0 by lia. reflexivity.
  - rewrite <- seq_shift, map_map. apply map_ext. intros i.
    replace (y0 + Z.of_nat (S i)) with (y0 + 1 + Z.of_nat i) by lia. reflexivity.
Qed.

Lemma season_dates_zrange s pl hv dy : md_valid pl = true -> md_valid hv = true ->
  forall k y0, season_dates s pl hv (zrange y0 (y0 + Z.of_nat k)) (zrange (y0 + dy) (y0 + dy + Z.of_nat k))
             = Ok (seasons_spec s pl hv dy y0 k).
Proof.
  intros Vp Vh. induction k as [|k IH]; intros y0.
  - rewrite !zrange_nil by lia. reflexivity.
  - rewrite (zrange_cons y0) by lia. rewrite (zrange_cons (y0 + dy)) by lia.
    cbn [season_dates]. rewrite !parse_ok by (apply valid_any_year; assumption). cbn [bind].
    replace (y0 + Z.of_nat (S k)) with (y0 + 1 + Z.of_nat k) by lia.
    replace (y0 + dy + 1) with (y0 + 1 + dy) by lia.
    replace (y0 + dy + Z.of_nat (S k)) with (y0 + 1 + dy + Z.of_nat k) by lia.
    rewrite IH. cbn [bind]. rewrite seasons_spec_S. reflexivity.
Qed.

Definition first_year (st : Z * Z * Z) (pl : Z * Z) : Z :=
  let '(sy, sm, sd) := st in if date_lt (sy, fst pl, snd pl) st then sy + 1 else sy.
Definition last_year (en : Z * Z * Z) (pl hv : Z * Z) : Z :=
  let '(ey, em, ed) := en in if md_lt pl hv then (if md_lt pl (em, ed) then ey else ey - 1) else ey - 1.
Definition year_shift (pl hv : Z * Z) : Z := if md_lt pl hv then 0 else 1.
Definition day_of (dt : Z * Z * Z) : Z := let '(y, m, d) := dt in days_from_civil y m d.
Definition date_valid (dt : Z * Z * Z) : bool := let '(y, m, d) := dt in valid_date y m d.

Definition season_closed (st en : Z * Z * Z) (pl hv : Z * Z) : result (list (Z * Z)) :=
  if negb (md_valid pl) || negb (md_valid hv) then Err DateParseError_MonthDay
  else
    let y0 := first_year st pl in let y1 := last_year en pl hv in
    if y1 <? y0 then Err IndexError_NoPlanting
    else Ok (seasons_spec (day_of st) pl hv (year_shift pl hv) y0 (Z.to_nat (y1 - y0 + 1))).

Lemma season_years_closed sy en pl hv : date_valid en = true -> md_valid pl = true -> md_valid hv = true ->
  season_years sy en pl hv =
  Ok (zrange sy (last_year en pl hv + 1), zrange (sy + year_shift pl hv) (last_year en pl hv + 1 + year_shift pl hv)).
Proof.
  destruct en as [[ey em] ed], pl as [pm pd], hv as [hm hd]. intros Ve Vp Vh. cbn [date_valid] in Ve.
  unfold season_years, last_year, year_shift.
  rewrite (parse_ok 1990 pm pd) by exact Vp. rewrite (parse_ok 1990 hm hd) by exact Vh. cbn [bind].
  pose proof (md_cmp 1990 (pm, pd) (hm, hd) Vp Vh) as E90; cbn [fst snd] in E90; rewrite E90.
  destruct (md_lt (pm, pd) (hm, hd)) eqn:Esingle.
  - pose proof (valid_in_leap _ _ _ Ve) as Ve92. pose proof (valid_any_year 1992 (pm, pd) Vp) as Vp92. cbn [fst snd] in Vp92.
    rewrite (parse_ok 1992 em ed Ve92), (parse_ok 1992 pm pd Vp92). cbn [bind].
    rewrite Z.leb_antisym. pose proof (md_cmp 1992 (pm, pd) (em, ed) Vp92 Ve92) as E92; cbn [fst snd] in E92; rewrite E92.
    destruct (md_lt (pm, pd) (em, ed)); cbn [negb]; rewrite ?Z.add_0_r; reflexivity.
  - pose proof (valid_any_year (ey + 2) (hm, hd) Vh) as Vh2. cbn [fst snd] in Vh2.
    rewrite (parse_ok _ _ _ Vh2). cbn [bind].
    rewrite (date_order_iff _ _ _ _ _ _ Vh2 Ve).
    replace (date_lt (ey + 2, hm, hd) (ey, em, ed)) with false.
    2:{ symmetry. apply not_true_iff_false. unfold date_lt. rewrite !orb_true_iff, !andb_true_iff, !Z.ltb_lt, !Z.eqb_eq. lia. }
    replace (ey - 1 + 1) with ey by lia. reflexivity.
Qed.

Lemma season_list_some_closed st en pl hv mat : date_valid st = true -> date_valid en = true ->
  season_list st en pl (Some hv) mat = season_closed st en pl hv.
Proof.
  destruct st as [[sy sm] sd]. intros Vs Ve. cbn [date_valid] in Vs.
  unfold season_list, season_closed. cbn [harvest_md bind].
  destruct (md_valid pl) eqn:Vp.
  2:{ cbn [negb orb]. destruct en as [[ey em] ed], pl as [pm pd], hv as [hm hd]. unfold season_years.
      unfold md_valid in Vp. cbn [fst snd] in Vp. rewrite (parse_bad _ _ _ Vp). reflexivity. }
  destruct (md_valid hv) eqn:Vh.
  2:{ cbn [negb orb]. destruct en as [[ey em] ed], pl as [pm pd], hv as [hm hd]. unfold season_years.
      unfold md_valid in Vp, Vh. cbn [fst snd] in Vp, Vh. rewrite (parse_ok _ _ _ Vp), (parse_bad _ _ _ Vh). reflexivity. }
  cbn [negb orb]. rewrite (season_years_closed sy en pl hv Ve Vp Vh). cbn [bind].
  set (y1 := last_year en pl hv). set (dy := year_shift pl hv). cbv zeta.
  unfold first_year, day_of.
  pose proof (valid_any_year sy pl Vp) as Vp0.
  destruct (Z_lt_le_dec y1 sy) as [Hlt|Hge].
  - rewrite (zrange_nil sy) by lia.
    replace (y1 <? (if date_lt (sy, fst pl, snd pl) (sy, sm, sd) then sy + 1 else sy)) with true
      by (symmetry; apply Z.ltb_lt; destruct (date_lt _ _); lia).
    reflexivity.
  - rewrite (zrange_cons sy (y1 + 1)) by lia.
    rewrite (parse_ok _ _ _ Vp0). cbn [bind].
    rewrite (date_order_iff _ _ _ _ _ _ Vp0 Vs).
    rewrite <- (zrange_cons sy (y1 + 1)) by lia.
    destruct (date_lt (sy, fst pl, snd pl) (sy, sm, sd)) eqn:Eshift.
    + rewrite !tl_zrange.
      destruct (Z_lt_le_dec y1 (sy + 1)) as [H1|H1].
      * rewrite (zrange_nil (sy + 1)) by lia. replace (y1 <? sy + 1) with true by (symmetry; apply Z.ltb_lt; lia).
        destruct (zrange (sy + dy + 1) (y1 + 1 + dy)); reflexivity.
      * replace (y1 <? sy + 1) with false by (symmetry; apply Z.ltb_ge; lia).
        replace (y1 + 1) with (sy + 1 + Z.of_nat (Z.to_nat (y1 - (sy + 1) + 1))) at 1 by lia.
        replace (sy + dy + 1) with (sy + 1 + dy) by lia.
        replace (y1 + 1 + dy) with (sy + 1 + dy + Z.of_nat (Z.to_nat (y1 - (sy + 1) + 1))) by lia.
        rewrite (season_dates_zrange _ pl hv dy Vp Vh). cbn [bind].
        replace (Z.to_nat (y1 - (sy + 1) + 1)) with (S (Z.to_nat (y1 - (sy + 1)))) by lia.
        rewrite seasons_spec_S. reflexivity.
    + replace (y1 <? sy) with false by (symmetry; apply Z.ltb_ge; lia).
      replace (y1 + 1) with (sy + Z.of_nat (Z.to_nat (y1 - sy + 1))) at 1 by lia.
      replace (y1 + 1 + dy) with (sy + dy + Z.of_nat (Z.to_nat (y1 - sy + 1))) by lia.
      rewrite (season_dates_zrange _ pl hv dy Vp Vh). cbn [bind].
      replace (Z.to_nat (y1 - sy + 1)) with (S (Z.to_nat (y1 - sy))) by lia.
      rewrite seasons_spec_S. reflexivity.
Qed.

(* ================================================================================================ *)
(* Theorem 4 (C20): stating the default harvest date explicitly gives the same season list (no hypothesis at all) *)
Theorem default_harvest_explicit st en pl mat :
  season_list st en pl (Some (default_harvest pl mat)) mat = season_list st en pl None mat.
Proof.
  destruct st as [[sy sm] sd]. unfold season_list. cbn [harvest_md].
  set (h := default_harvest pl mat). destruct pl as [pm pd].
  destruct (valid_date 1990 pm pd) eqn:Vp.
  - rewrite (parse_ok sy pm pd) by (apply (valid_any_year sy (pm, pd)); exact Vp).
    rewrite (parse_ok 1990 pm pd Vp). reflexivity.
  - cbn [bind]. unfold season_years. destruct en as [[ey em] ed], h as [hm hd].
    rewrite (parse_bad 1990 pm pd Vp). cbn [bind].
    unfold parse at 1. destruct (valid_date sy pm pd); reflexivity.
Qed.

Theorem season_list_closed st en pl hv mat : date_valid st = true -> date_valid en = true ->
  season_list st en pl hv mat =
  season_closed st en pl (match hv with Some h => h | None => default_harvest pl mat end).
Proof.
  intros Vs Ve. destruct hv as [h|].
  - apply season_list_some_closed; assumption.
  - rewrite <- default_harvest_explicit. apply season_list_some_closed; assumption.
Qed.

(* ================================================================================================ *)
(* consequences of the closed form *)
Lemma season_closed_ok st en pl h l : season_closed st en pl h = Ok l ->
  md_valid pl = true /\ md_valid h = true /\ first_year st pl <= last_year en pl h /\
  l = seasons_spec (day_of st) pl h (year_shift pl h) (first_year st pl) (Z.to_nat (last_year en pl h - first_year st pl + 1)).
Proof.
  unfold season_closed. destruct (md_valid pl); [|discriminate]. destruct (md_valid h); [|discriminate].
  cbn [negb orb]. cbv zeta. destruct (last_year en pl h <? first_year st pl) eqn:E; [discriminate|].
  apply Z.ltb_ge in E. intros H. injection H as <-. auto.
Qed.

Lemma nth_error_map_seq {A} (f : nat -> A) n : forall a i,
  nth_error (map f (seq a n)) i = if (i <? n)%nat then Some (f (a + i)%nat) else None.
Proof.
  induction n as [|n IH]; intros a i; [destruct i; reflexivity|].
  destruct i as [|i]; cbn [seq map nth_error]; [rewrite Nat.add_0_r; reflexivity|].
  rewrite IH. replace (S a + i)%nat with (a + S i)%nat by lia.
  change (S i <? S n)%nat with (i <? n)%nat. reflexivity.
Qed.

Lemma nthZ_map_seq (f : nat -> Z) k i x :
  nthZ (map f (seq 0 k)) i = Some x <-> 0 <= i < Z.of_nat k /\ x = f (Z.to_nat i).
Proof.
  unfold nthZ. destruct (i <? 0) eqn:E; [apply Z.ltb_lt in E; split; [discriminate|lia]|]. apply Z.ltb_ge in E.
  rewrite nth_error_map_seq. cbn [Nat.add].
  destruct (Z.to_nat i <? k)%nat eqn:E2; [apply Nat.ltb_lt in E2|apply Nat.ltb_ge in E2].
  - split; [intros H; injection H as <-; split; [lia|reflexivity]|intros [_ ->]; reflexivity].
  - split; [discriminate|lia].
Qed.

Lemma plant_of_spec s pl h dy y0 k : map fst (seasons_spec s pl h dy y0 k) =
  map (fun i => days_from_civil (y0 + Z.of_nat i) (fst pl) (snd pl) - s) (seq 0 k).
Proof. unfold seasons_spec. rewrite map_map. reflexivity. Qed.
Lemma harv_of_spec s pl h dy y0 k : map snd (seasons_spec s pl h dy y0 k) =
  map (fun i => days_from_civil (y0 + Z.of_nat i + dy) (fst h) (snd h) - s) (seq 0 k).
Proof. unfold seasons_spec. rewrite map_map. reflexivity. Qed.

(* (a) the k-th planting date is the configured day in year y0 + k; (c) the k-th harvest date is the configured day in
   the same year (planting day before harvest day within a year) or the next year *)
Lemma nthZ_plant s pl h dy y0 k i p : nthZ (map fst (seasons_spec s pl h dy y0 k)) i = Some p <->
  0 <= i < Z.of_nat k /\ p = days_from_civil (y0 + i) (fst pl) (snd pl) - s.
Proof. rewrite plant_of_spec, nthZ_map_seq. split; intros [H ->]; (split; [exact H|]); rewrite Z2Nat.id by lia; reflexivity. Qed.
Lemma nthZ_harv s pl h dy y0 k i x : nthZ (map snd (seasons_spec s pl h dy y0 k)) i = Some x <->
  0 <= i < Z.of_nat k /\ x = days_from_civil (y0 + i + dy) (fst h) (snd h) - s.
Proof. rewrite harv_of_spec, nthZ_map_seq. split; intros [H ->]; (split; [exact H|]); rewrite Z2Nat.id by lia; reflexivity. Qed.

Section DateFacts.
  Variables (st en : Z * Z * Z) (pl h : Z * Z).
  Hypothesis Vs : date_valid st = true.
  Hypothesis Ve : date_valid en = true.
  Hypothesis Vp : md_valid pl = true.
  Hypothesis Vh : md_valid h = true.
  Local Notation P y := (days_from_civil y (fst pl) (snd pl)).
  Local Notation H y := (days_from_civil y (fst h) (snd h)).

  Lemma plant_year_lt y y' : y < y' -> P y < P y'.
  Proof.
    intros L. apply date_order; try (apply valid_any_year; assumption).
    unfold date_lt. apply Z.ltb_lt in L. rewrite L. reflexivity.
  Qed.
  Lemma plant_year_le y y' : y <= y' -> P y <= P y'.
  Proof. intros L. destruct (Z.eq_dec y y') as [->|N]; [lia|]. pose proof (plant_year_lt y y' ltac:(lia)). lia. Qed.

  (* (d1) planting strictly before its harvest *)
  Lemma plant_lt_harv y : P y < H (y + year_shift pl h).
  Proof.
    apply date_order; try (apply valid_any_year; assumption). unfold year_shift.
    destruct (md_lt pl h) eqn:E.
    - rewrite Z.add_0_r, md_lt_date_lt. exact E.
    - unfold date_lt. replace (y <? y + 1) with true by (symmetry; apply Z.ltb_lt; lia). reflexivity.
  Qed.
  (* (d2) harvest not after the next planting date *)
  Lemma harv_le_next y : H (y + year_shift pl h) <= P (y + 1).
  Proof.
    unfold year_shift. destruct (md_lt pl h) eqn:E.
    - rewrite Z.add_0_r. apply Z.lt_le_incl. apply date_order; try (apply valid_any_year; assumption).
      unfold date_lt. replace (y <? y + 1) with true by (symmetry; apply Z.ltb_lt; lia). reflexivity.
    - pose proof (md_cmp (y + 1) pl h (valid_any_year _ _ Vp) (valid_any_year _ _ Vh)) as C. rewrite E in C.
      apply Z.ltb_ge in C. exact C.
  Qed.
  (* (b) the first planting date is the first one on or after the start date *)
  Lemma first_year_spec : day_of st <= P (first_year st pl) /\ P (first_year st pl - 1) < day_of st.
  Proof.
    destruct st as [[sy sm] sd]. cbn [date_valid] in Vs. unfold first_year, day_of.
    pose proof (date_order_iff sy (fst pl) (snd pl) sy sm sd (valid_any_year _ _ Vp) Vs) as C.
    destruct (date_lt (sy, fst pl, snd pl) (sy, sm, sd)) eqn:E.
    - apply Z.ltb_lt in C. replace (sy + 1 - 1) with sy by lia. split; [|exact C].
      apply Z.lt_le_incl. apply date_order; [exact Vs|apply valid_any_year; exact Vp|].
      unfold date_lt. replace (sy <? sy + 1) with true by (symmetry; apply Z.ltb_lt; lia). reflexivity.
    - apply Z.ltb_ge in C. split; [exact C|].
      apply date_order; [apply valid_any_year; exact Vp|exact Vs|].
      unfold date_lt. replace (sy - 1 <? sy) with true by (symmetry; apply Z.ltb_lt; lia). reflexivity.
  Qed.
  (* (e) the last planting date lies strictly before the end date *)
  Lemma last_year_spec : P (last_year en pl h) < day_of en.
  Proof.
    destruct en as [[ey em] ed]. cbn [date_valid] in Ve. unfold last_year, day_of.
    assert (L1 : P (ey - 1) < days_from_civil ey em ed).
    { apply date_order; [apply valid_any_year; exact Vp|exact Ve|].
      unfold date_lt. replace (ey - 1 <? ey) with true by (symmetry; apply Z.ltb_lt; lia). reflexivity. }
    destruct (md_lt pl h); [|exact L1]. destruct (md_lt pl (em, ed)) eqn:E; [|exact L1].
    apply date_order; [apply valid_any_year; exact Vp|exact Ve|].
    change (date_lt (ey, fst pl, snd pl) (ey, fst (em, ed), snd (em, ed)) = true). rewrite md_lt_date_lt. exact E.
  Qed.
  (* ... and it is the last one: the next planting date of a within-year season is on or after the end date;
     a season spanning New Year is never started in the end year *)
  Lemma last_year_max : let '(ey, _, _) := en in
    if md_lt pl h then day_of en <= P (last_year en pl h + 1) else last_year en pl h = ey - 1.
  Proof.
    destruct en as [[ey em] ed]. cbn [date_valid] in Ve. unfold last_year, day_of.
    destruct (md_lt pl h); [|reflexivity]. destruct (md_lt pl (em, ed)) eqn:E.
    - apply Z.lt_le_incl. apply date_order; [exact Ve|apply valid_any_year; exact Vp|].
      unfold date_lt. replace (ey <? ey + 1) with true by (symmetry; apply Z.ltb_lt; lia). reflexivity.
    - replace (ey - 1 + 1) with ey by lia.
      pose proof (date_order_iff ey (fst pl) (snd pl) ey em ed (valid_any_year _ _ Vp) Ve) as C.
      change (date_lt (ey, fst pl, snd pl) (ey, em, ed)) with (date_lt (ey, fst pl, snd pl) (ey, fst (em, ed), snd (em, ed))) in C.
      rewrite md_lt_date_lt, E in C. apply Z.ltb_ge in C. exact C.
  Qed.
End DateFacts.

(* ================================================================================================ *)
(* Theorem 2: the specification of an accepted season list *)
Definition harvest_of (pl : Z * Z) (hv : option (Z * Z)) (mat : Z) : Z * Z :=
  match hv with Some h => h | None => default_harvest pl mat end.

Theorem season_list_spec st en pl hv mat l :
  date_valid st = true -> date_valid en = true -> season_list st en pl hv mat = Ok l ->
  let h := harvest_of pl hv mat in
  let y0 := first_year st pl in let y1 := last_year en pl h in let dy := year_shift pl h in
  let s := day_of st in
  md_valid pl = true /\ md_valid h = true /\ y0 <= y1 /\ length l = Z.to_nat (y1 - y0 + 1) /\
  (* (a) consecutive years, the configured planting day; (c) the configured harvest day, same or next year *)
  (forall k p x, nthZ (map fst l) k = Some p -> nthZ (map snd l) k = Some x ->
     p = days_from_civil (y0 + k) (fst pl) (snd pl) - s /\ x = days_from_civil (y0 + k + dy) (fst h) (snd h) - s) /\
  (dy = if md_lt pl h then 0 else 1) /\
  (* (b) the first planting date is the first one on or after the start date *)
  (s <= days_from_civil y0 (fst pl) (snd pl) /\ days_from_civil (y0 - 1) (fst pl) (snd pl) < s) /\
  (* the last planting date is before the end date, and no further season could start *)
  (days_from_civil y1 (fst pl) (snd pl) < day_of en /\
   (md_lt pl h = true -> day_of en <= days_from_civil (y1 + 1) (fst pl) (snd pl)) /\
   (md_lt pl h = false -> y1 = fst (fst en) - 1)).
Proof.
  intros Vs Ve E. rewrite (season_list_closed st en pl hv mat Vs Ve) in E. fold (harvest_of pl hv mat) in E.
  cbv zeta. set (h := harvest_of pl hv mat) in *.
  apply season_closed_ok in E as (Vp & Vh & Hy & ->).
  repeat split; try assumption.
  - unfold seasons_spec. rewrite map_length, seq_length. reflexivity.
  - apply nthZ_plant in H as [_ ->]. reflexivity.
  - apply nthZ_harv in H0 as [_ ->]. reflexivity.
  - apply (first_year_spec st pl Vs Vp).
  - apply (first_year_spec st pl Vs Vp).
  - apply (last_year_spec en pl h Ve Vp).
  - intros L. pose proof (last_year_max en pl h Ve Vp) as M. destruct en as [[ey em] ed]. rewrite L in M. exact M.
  - intros L. pose proof (last_year_max en pl h Ve Vp) as M. destruct en as [[ey em] ed]. rewrite L in M. exact M.
Qed.

(* (d), (e): the accepted season list is a well-formed clock (hypothesis of every theorem of ClockP.v), for every window *)
Theorem season_list_wf st en pl hv mat l b :
  date_valid st = true -> date_valid en = true -> season_list st en pl hv mat = Ok l ->
  wf_clock {| n_steps := day_of en - day_of st + 1; plant := map fst l; harv := map snd l; off_season := b |}.
Proof.
  intros Vs Ve E. rewrite (season_list_closed st en pl hv mat Vs Ve) in E. fold (harvest_of pl hv mat) in E.
  set (h := harvest_of pl hv mat) in *.
  apply season_closed_ok in E as (Vp & Vh & Hy & ->).
  set (y0 := first_year st pl) in *. set (y1 := last_year en pl h) in *. set (dy := year_shift pl h).
  constructor; cbn [plant harv n_steps].
  - rewrite !map_length. reflexivity.
  - intros k p x Hp Hx. apply nthZ_plant in Hp as [_ ->]. apply nthZ_harv in Hx as [_ ->].
    pose proof (plant_lt_harv pl h Vp Vh (y0 + k)). fold dy in H. lia.
  - intros k x p' Hx Hp. apply nthZ_harv in Hx as [_ ->]. apply nthZ_plant in Hp as [_ ->].
    pose proof (harv_le_next pl h Vp Vh (y0 + k)). fold dy in H. replace (y0 + (k + 1)) with (y0 + k + 1) by lia. lia.
  - intros k p Hp. apply nthZ_plant in Hp as [Hk ->].
    pose proof (first_year_spec st pl Vs Vp) as [F _]. fold y0 in F.
    pose proof (last_year_spec en pl h Ve Vp) as L. fold y1 in L.
    pose proof (plant_year_le pl Vp y0 (y0 + k) ltac:(lia)).
    pose proof (plant_year_le pl Vp (y0 + k) y1 ltac:(lia)). lia.
Qed.

Theorem season_list_nonempty st en pl hv mat l : season_list st en pl hv mat = Ok l -> l <> [].
Proof.
  destruct st as [[sy sm] sd]. unfold season_list.
  destruct (harvest_md sy pl hv mat) as [h|e]; [|discriminate]. cbn [bind].
  destruct (season_years sy en pl h) as [[pys hys]|e]; [|discriminate]. cbn [bind].
  destruct pys as [|py0 pys']; [discriminate|].
  destruct (parse py0 (fst pl) (snd pl)) as [p0|e]; [|discriminate]. cbn [bind].
  destruct (if p0 <? days_from_civil sy sm sd then (tl (py0 :: pys'), tl hys) else (py0 :: pys', hys)) as [a c].
  destruct (season_dates (days_from_civil sy sm sd) pl h a c) as [r|e]; [|discriminate]. cbn [bind].
  destruct r; [discriminate|]. intros H. injection H as <-. discriminate.
Qed.

(* ================================================================================================ *)
(* Theorem 3: exactly when the date part of read_model_parameters raises, and what *)
Theorem season_list_error_iff st en pl hv mat e :
  date_valid st = true -> date_valid en = true ->
  let h := harvest_of pl hv mat in
  (season_list st en pl hv mat = Err e <->
   (e = DateParseError_MonthDay /\ (md_valid pl = false \/ md_valid h = false)) \/
   (e = IndexError_NoPlanting /\ md_valid pl = true /\ md_valid h = true /\ last_year en pl h < first_year st pl)).
Proof.
  intros Vs Ve. cbv zeta. rewrite (season_list_closed st en pl hv mat Vs Ve). fold (harvest_of pl hv mat).
  set (h := harvest_of pl hv mat). unfold season_closed.
  destruct (md_valid pl); destruct (md_valid h); cbn [negb orb]; cbv zeta.
  2-4: (split; [intros H; injection H as <-; left; split; [reflexivity|auto]|
               intros [[-> _]|(_ & A & B & _)]; [reflexivity|discriminate]]).
  destruct (last_year en pl h <? first_year st pl) eqn:E; [apply Z.ltb_lt in E|apply Z.ltb_ge in E].
  - split; [intros H; injection H as <-; right; auto|].
    intros [[_ [A|A]]|(-> & _)]; [discriminate|discriminate|reflexivity].
  - split; [discriminate|]. intros [[_ [A|A]]|(_ & _ & _ & A)]; [discriminate|discriminate|lia].
Qed.

(* the undocumented crash of finding 11 in plain words, for seasons within a calendar year:
   IndexError exactly when no planting date p satisfies start <= p < end *)
Corollary no_planting_iff st en pl hv mat :
  date_valid st = true -> date_valid en = true ->
  let h := harvest_of pl hv mat in md_valid pl = true -> md_valid h = true -> md_lt pl h = true ->
  (season_list st en pl hv mat = Err IndexError_NoPlanting <->
   forall y, ~ (day_of st <= days_from_civil y (fst pl) (snd pl) < day_of en)).
Proof.
  intros Vs Ve h Vp Vh Single. rewrite (season_list_error_iff st en pl hv mat _ Vs Ve). fold h.
  pose proof (first_year_spec st pl Vs Vp) as [F1 F2].
  pose proof (last_year_spec en pl h Ve Vp) as L1.
  pose proof (last_year_max en pl h Ve Vp) as L2. destruct en as [[ey em] ed] eqn:Een. rewrite Single in L2. rewrite <- Een in *.
  split.
  - intros [[A _]|(_ & _ & _ & A)]; [discriminate|]. intros y [B1 B2].
    destruct (Z_lt_le_dec y (first_year st pl)) as [C|C].
    + pose proof (plant_year_le pl Vp y (first_year st pl - 1) ltac:(lia)). lia.
    + pose proof (plant_year_le pl Vp (last_year en pl h + 1) y ltac:(lia)). lia.
  - intros N. right. repeat split; try assumption.
    destruct (Z_lt_le_dec (last_year en pl h) (first_year st pl)) as [C|C]; [exact C|].
    exfalso. apply (N (first_year st pl)). split; [exact F1|].
    pose proof (plant_year_le pl Vp (first_year st pl) (last_year en pl h) C). lia.
Qed.

(* ================================================================================================ *)
(* Theorem 5: the window and the initial season counter *)
Lemma sim_date_ok_valid dt : sim_date_ok dt = true -> date_valid dt = true.
Proof. destruct dt as [[y m] d]. unfold sim_date_ok, date_valid. rewrite !andb_true_iff. tauto. Qed.

Theorem n_steps_pos st en n : read_clock st en = Ok n ->
  n = day_of en - day_of st + 1 /\ 2 <= n /\ sim_date_ok st = true /\ sim_date_ok en = true /\ fst (fst en) - fst (fst st) <= 580.
Proof.
  unfold read_clock. destruct (sim_date_ok st) eqn:Es; [|discriminate]. destruct (sim_date_ok en) eqn:Ee; [|discriminate].
  cbn [negb]. destruct st as [[sy sm] sd], en as [[ey em] ed]. cbn [fst snd day_of].
  destruct (580 <? ey - sy) eqn:E1; [discriminate|]. apply Z.ltb_ge in E1.
  destruct (days_from_civil ey em ed - days_from_civil sy sm sd + 1 <? 2) eqn:E2; [discriminate|]. apply Z.ltb_ge in E2.
  intros H. injection H as <-. auto.
Qed.

Theorem initial_season_counter_spec st en pl hv mat l :
  date_valid st = true -> date_valid en = true -> season_list st en pl hv mat = Ok l ->
  initial_season_counter l = (if (snd (fst st) =? fst pl) && (snd st =? snd pl) then 0 else -1) /\
  (initial_season_counter l = 0 <-> exists x r, l = (0, x) :: r).
Proof.
  intros Vs Ve E. split.
  2:{ unfold initial_season_counter. destruct l as [|[p x] r].
      - split; [discriminate|intros (x & r & H); discriminate].
      - destruct (p =? 0) eqn:E0; [apply Z.eqb_eq in E0; subst p; split; eauto|].
        apply Z.eqb_neq in E0. split; [discriminate|]. intros (x' & r' & H). injection H. lia. }
  rewrite (season_list_closed st en pl hv mat Vs Ve) in E. fold (harvest_of pl hv mat) in E.
  apply season_closed_ok in E as (Vp & Vh & Hy & ->).
  replace (Z.to_nat (last_year en pl (harvest_of pl hv mat) - first_year st pl + 1))
    with (S (Z.to_nat (last_year en pl (harvest_of pl hv mat) - first_year st pl))) by lia.
  rewrite seasons_spec_S. cbn [initial_season_counter].
  pose proof (first_year_spec st pl Vs Vp) as [F1 F2].
  destruct st as [[sy sm] sd]. cbn [fst snd date_valid day_of] in *. unfold first_year in *.
  destruct ((sm =? fst pl) && (sd =? snd pl)) eqn:Emd.
  - apply andb_true_iff in Emd as [A B]. apply Z.eqb_eq in A, B. subst sm sd.
    replace (date_lt (sy, fst pl, snd pl) (sy, fst pl, snd pl)) with false.
    2:{ symmetry. apply not_true_iff_false. intros L. apply date_lt_irrefl_asym in L. tauto. }
    rewrite Z.sub_diag. reflexivity.
  - destruct (_ - _ =? 0) eqn:E0; [|reflexivity]. apply Z.eqb_eq in E0. exfalso.
    assert (Einj : (if date_lt (sy, fst pl, snd pl) (sy, sm, sd) then sy + 1 else sy, fst pl, snd pl) = (sy, sm, sd)).
    { apply days_from_civil_inj; [apply valid_any_year; exact Vp|exact Vs|lia]. }
    injection Einj as _ A B. rewrite A, B, !Z.eqb_refl in Emd. discriminate.
Qed.

(* ================================================================================================ *)
(* the whole date part of the initialisation and the clock it hands to the run loop *)
Definition clock_of (c : CalInit) (off : bool) : ClockP :=
  {| n_steps := ci_n_steps c; plant := map fst (ci_seasons c); harv := map snd (ci_seasons c); off_season := off |}.

Lemma bind_ok {A B} (r : result A) (f : A -> result B) b : bind r f = Ok b -> exists a, r = Ok a /\ f a = Ok b.
Proof. destruct r; [eauto|discriminate]. Qed.

Theorem calendar_init_ok st en w0 w1 pl hv mat c off :
  calendar_init st en w0 w1 pl hv mat = Ok c ->
  wf_clock (clock_of c off) /\ 2 <= n_steps (clock_of c off) /\ plant (clock_of c off) <> [] /\
  ci_n_steps c = day_of en - day_of st + 1 /\
  season_list st en pl hv mat = Ok (ci_seasons c) /\
  ci_season_counter c = initial_season_counter (ci_seasons c) /\
  w0 <= day_of st /\ day_of en <= w1.
Proof.
  unfold calendar_init. intros H. apply bind_ok in H as (n & Hn & H).
  apply n_steps_pos in Hn as (-> & N2 & S1 & S2 & _).
  pose proof (sim_date_ok_valid _ S1) as Vs. pose proof (sim_date_ok_valid _ S2) as Ve.
  destruct st as [[sy sm] sd], en as [[ey em] ed].
  apply bind_ok in H as (u & Hw & H). apply bind_ok in H as (l & Hl & H). injection H as <-.
  unfold clock_of. cbn [ci_n_steps ci_seasons ci_season_counter n_steps plant day_of] in *.
  assert (Hne : map fst l <> []).
  { pose proof (season_list_nonempty _ _ _ _ _ _ Hl). destruct l; [congruence|cbn [map]; discriminate]. }
  unfold check_weather in Hw. revert Hw.
  destruct (days_from_civil sy sm sd <? w0) eqn:E3; [discriminate|]. apply Z.ltb_ge in E3.
  destruct (w1 <? days_from_civil ey em ed) eqn:E4; [discriminate|]. apply Z.ltb_ge in E4. intros _.
  pose proof (season_list_wf _ _ pl hv mat l off Vs Ve Hl) as Hwf. cbn [day_of] in Hwf.
  refine (conj Hwf (conj N2 (conj Hne (conj eq_refl (conj Hl (conj eq_refl (conj E3 E4))))))).
Qed.

(* C16: every way the date part of the initialisation can raise.  Documented: malformed dates (both ValueErrors of the
   setters and pandas' DateParseError for a planting / harvest day that is no day of 1990), > 580 years, uncovered window.
   NOT documented: IndexError for a window of fewer than 2 days, IndexError for a window without planting date. *)
Theorem calendar_init_error_cases st en w0 w1 pl hv mat e :
  calendar_init st en w0 w1 pl hv mat = Err e ->
  let h := harvest_of pl hv mat in
  (e = ValueError_BadDate /\ (sim_date_ok st = false \/ sim_date_ok en = false)) \/
  (sim_date_ok st = true /\ sim_date_ok en = true /\
   ((e = ValueError_TooLong /\ 580 < fst (fst en) - fst (fst st)) \/
    (fst (fst en) - fst (fst st) <= 580 /\
     ((e = IndexError_TimeSpan /\ day_of en <= day_of st) \/
      (day_of st < day_of en /\
       ((e = ValueError_Uncovered /\ (day_of st < w0 \/ w1 < day_of en)) \/
        (w0 <= day_of st /\ day_of en <= w1 /\
         ((e = DateParseError_MonthDay /\ (md_valid pl = false \/ md_valid h = false)) \/
          (e = IndexError_NoPlanting /\ md_valid pl = true /\ md_valid h = true /\ last_year en pl h < first_year st pl))))))))).
Proof.
  unfold calendar_init, read_clock. cbv zeta.
  destruct (sim_date_ok st) eqn:S1; cbn [negb]; [|intros H; injection H as <-; left; auto].
  destruct (sim_date_ok en) eqn:S2; cbn [negb]; [|intros H; injection H as <-; left; auto].
  intros H. right. split; [reflexivity|]. split; [reflexivity|].
  pose proof (sim_date_ok_valid _ S1) as Vs. pose proof (sim_date_ok_valid _ S2) as Ve.
  destruct st as [[sy sm] sd] eqn:Est, en as [[ey em] ed] eqn:Een. cbn [fst snd day_of].
  destruct (580 <? ey - sy) eqn:E1; [apply Z.ltb_lt in E1; injection H as <-; left; auto|]. apply Z.ltb_ge in E1.
  right. split; [exact E1|].
  destruct (days_from_civil ey em ed - days_from_civil sy sm sd + 1 <? 2) eqn:E2;
    [apply Z.ltb_lt in E2; injection H as <-; left; split; [reflexivity|lia]|]. apply Z.ltb_ge in E2.
  right. split; [lia|]. cbn [bind] in H. unfold check_weather in H.
  destruct (days_from_civil sy sm sd <? w0) eqn:E3; [apply Z.ltb_lt in E3; injection H as <-; left; auto|]. apply Z.ltb_ge in E3.
  destruct (w1 <? days_from_civil ey em ed) eqn:E4; [apply Z.ltb_lt in E4; injection H as <-; left; auto|]. apply Z.ltb_ge in E4.
  right. split; [exact E3|]. split; [exact E4|]. cbn [bind] in H.
  rewrite <- Est, <- Een in *.
  destruct (season_list st en pl hv mat) as [l|e'] eqn:El; [discriminate|]. injection H as <-.
  apply (season_list_error_iff st en pl hv mat e' Vs Ve) in El. exact El.
Qed.

(* ... and the valid configurations are accepted *)
Theorem calendar_init_defined st en w0 w1 pl hv mat :
  sim_date_ok st = true -> sim_date_ok en = true -> fst (fst en) - fst (fst st) <= 580 -> day_of st < day_of en ->
  w0 <= day_of st -> day_of en <= w1 ->
  md_valid pl = true -> md_valid (harvest_of pl hv mat) = true -> first_year st pl <= last_year en pl (harvest_of pl hv mat) ->
  exists c, calendar_init st en w0 w1 pl hv mat = Ok c.
Proof.
  intros S1 S2 L N W0 W1 Vp Vh Y.
  destruct (calendar_init st en w0 w1 pl hv mat) as [c|e] eqn:E; [eauto|exfalso].
  apply calendar_init_error_cases in E. cbv zeta in E.
  destruct E as [[_ [A|A]]|(_ & _ & [[_ A]|(_ & [[_ A]|(_ & [[_ [A|A]]|(_ & _ & [[_ [A|A]]|(_ & _ & _ & A)])])])])]; try congruence; lia.
Qed.

(* ================================================================================================ *)
(* the default harvest date: a crop shorter than 335 days gets its full length plus 30 days (31 across a leap day) ... *)
Lemma year_1990_1991 pm pd : days_from_civil 1991 pm pd = days_from_civil 1990 pm pd + 365.
Proof.
  rewrite !dfc_eq. unfold ypof. pose proof (g_step 1989) as A. pose proof (g_step 1990) as B.
  change (is_leap (1989 + 1)) with false in A. change (is_leap (1990 + 1)) with false in B. unfold b2z in *.
  change (1989 + 1) with 1990 in A. change (1990 + 1) with 1991 in B.
  destruct (pm <=? 2); change (1991 - 1) with 1990; change (1990 - 1) with 1989; lia.
Qed.

Theorem default_harvest_covers_maturity pl mat y : md_valid pl = true -> 0 <= mat -> mat + 30 < 365 ->
  let h := default_harvest pl mat in
  md_valid h = true /\
  mat + 30 <= days_from_civil (y + year_shift pl h) (fst h) (snd h) - days_from_civil y (fst pl) (snd pl) <= mat + 31.
Proof.
  destruct pl as [pm pd]. intros Vp M0 M1. unfold md_valid in Vp. cbn [fst snd] in Vp. cbv zeta. unfold default_harvest.
  pose proof (civil_from_days_spec (days_from_civil 1990 pm pd + (mat + 30))) as S.
  destruct (civil_from_days (days_from_civil 1990 pm pd + (mat + 30))) as [[Y m] d]. destruct S as [V E].
  cbn [fst snd].
  assert (HY : Y = 1990 \/ Y = 1991).
  { destruct (Z_lt_le_dec Y 1990) as [L|L].
    - assert (D : date_lt (Y, m, d) (1990, pm, pd) = true) by (unfold date_lt; apply Z.ltb_lt in L; rewrite L; reflexivity).
      pose proof (date_order _ _ _ _ _ _ V Vp D). lia.
    - destruct (Z_lt_le_dec 1991 Y) as [L2|L2]; [|lia].
      assert (V91 : valid_date 1991 pm pd = true) by (apply (valid_any_year 1991 (pm, pd)); exact Vp).
      assert (D : date_lt (1991, pm, pd) (Y, m, d) = true) by (unfold date_lt; apply Z.ltb_lt in L2; rewrite L2; reflexivity).
      pose proof (date_order _ _ _ _ _ _ V91 V D). rewrite year_1990_1991 in H. lia. }
  assert (Vh : valid_date 1990 m d = true).
  { destruct HY as [-> | ->]; [exact V|]. revert V. unfold valid_date, days_in_month.
    change (is_leap 1991) with false. change (is_leap 1990) with false. auto. }
  split; [exact Vh|].
  pose proof (md_cmp 1990 (pm, pd) (m, d) Vp Vh) as C. cbn [fst snd] in C.
  unfold year_shift.
  assert (Hlt : md_lt (pm, pd) (m, d) = true -> pm < m \/ (pm = m /\ pd < d)).
  { unfold md_lt. cbn [fst snd]. rewrite orb_true_iff, andb_true_iff, !Z.ltb_lt, Z.eqb_eq. tauto. }
  assert (Hge : md_lt (pm, pd) (m, d) = false -> m < pm \/ (pm = m /\ d <= pd)).
  { intros F. apply not_true_iff_false in F. unfold md_lt in F. cbn [fst snd] in F.
    rewrite orb_true_iff, andb_true_iff, !Z.ltb_lt, Z.eqb_eq in F. lia. }
  pose proof (g_step (y - 1)) as G1. pose proof (g_step y) as G2.
  replace (y - 1 + 1) with y in G1 by lia.
  pose proof (g_step 1989) as A. pose proof (g_step 1990) as B.
  change (is_leap (1989 + 1)) with false in A. change (is_leap (1990 + 1)) with false in B.
  change (1989 + 1) with 1990 in A. change (1990 + 1) with 1991 in B.
  assert (b2z (is_leap y) = 0 \/ b2z (is_leap y) = 1) by (destruct (is_leap y); cbn; lia).
  assert (b2z (is_leap (y + 1)) = 0 \/ b2z (is_leap (y + 1)) = 1) by (destruct (is_leap (y + 1)); cbn; lia).
  unfold b2z in A, B.
  destruct HY as [-> | ->].
  - (* harvest in the planting year *)
    assert (Es : md_lt (pm, pd) (m, d) = true) by (rewrite <- C; apply Z.ltb_lt; lia).
    rewrite Es. specialize (Hlt Es). rewrite Z.add_0_r. rewrite !dfc_eq in *. unfold ypof in *.
    destruct (m <=? 2) eqn:E1; destruct (pm <=? 2) eqn:E2; rewrite ?Z.leb_le, ?Z.leb_gt in *;
      change (1990 - 1) with 1989 in *; lia.
  - (* harvest in the following year *)
    assert (Es : md_lt (pm, pd) (m, d) = false).
    { pose proof (md_cmp 1991 (pm, pd) (m, d) (valid_any_year 1991 (pm, pd) Vp) V) as C'. cbn [fst snd] in C'.
      rewrite <- C'. apply Z.ltb_ge. rewrite (year_1990_1991 pm pd). lia. }
    rewrite Es. specialize (Hge Es). rewrite !dfc_eq in *. unfold ypof in *.
    destruct (m <=? 2) eqn:E1; destruct (pm <=? 2) eqn:E2; rewrite ?Z.leb_le, ?Z.leb_gt in *;
      change (1990 - 1) with 1989 in *; change (1991 - 1) with 1990 in *;
      replace (y + 1 - 1) with y by lia; lia.
Qed.

(* ... but a crop of 335 days or more (SugarCane: 365, Cassava: 360) loses a year: the harvest date falls 30 days after
   planting and the season is cut long before maturity *)
Theorem default_harvest_long_crop_refuted :
  exists st en pl mat l p x, season_list st en pl None mat = Ok l /\ nth_error l 0 = Some (p, x) /\ x - p < mat.
Proof. exists (2000, 1, 1), (2003, 12, 31), (5, 1), 365, [(121, 151); (486, 516); (851, 881); (1216, 1246)], 121, 151.
  split; [vm_compute; reflexivity|]. split; [reflexivity|lia]. Qed.

(* a default harvest date can even be 29 February (planting 12/31, MaturityCD 395): pandas then refuses "1990/2/29" *)
Example default_harvest_feb29 :
  default_harvest (12, 31) 395 = (2, 29) /\ season_list (2000, 1, 1) (2003, 12, 31) (12, 31) None 395 = Err DateParseError_MonthDay.
Proof. split; vm_compute; reflexivity. Qed.

(* ================================================================================================ *)
(* witnesses of the undocumented rejections (C16) *)
(* finding 11: a well-formed, covered window without planting date *)
Theorem no_planting_date_refuted :
  calendar_init (1980, 1, 1) (1980, 3, 1) 0 9999999 (5, 1) None 100 = Err IndexError_NoPlanting.
Proof. vm_compute. reflexivity. Qed.
(* a season spanning New Year is never started in the end year, however late the end date *)
Example new_year_season_end_year :
  season_list (1999, 11, 1) (2002, 12, 31) (10, 15) (Some (3, 1)) 0 = Ok [(349, 486); (714, 851)].
Proof. vm_compute. reflexivity. Qed.
(* a window of one day (start = end), well-formed and covered, raises IndexError (time_span[1]) *)
Theorem one_day_window_refuted :
  calendar_init (2000, 1, 1) (2000, 1, 1) 0 9999999 (1, 1) None 100 = Err IndexError_TimeSpan.
Proof. vm_compute. reflexivity. Qed.
Example two_day_window :
  calendar_init (2000, 1, 1) (2000, 1, 2) 0 9999999 (1, 1) None 100 = Ok {| ci_n_steps := 2; ci_seasons := [(0, 131)]; ci_season_counter := 0 |}.
Proof. vm_compute. reflexivity. Qed.
(* finding 17 is fixed: an end date on 29 February is accepted *)
Example end_on_leap_day :
  calendar_init (1980, 1, 1) (1984, 2, 29) 0 9999999 (5, 1) None 100 =
  Ok {| ci_n_steps := 1521; ci_seasons := [(121, 251); (486, 616); (851, 981); (1216, 1346)]; ci_season_counter := -1 |}.
Proof. vm_compute. reflexivity. Qed.

(* the hypotheses of the main theorems are satisfiable on a non-trivial instance *)
Example season_list_example :
  date_valid (2000, 4, 15) = true /\ date_valid (2003, 8, 1) = true /\
  season_list (2000, 4, 15) (2003, 8, 1) (5, 1) None 132 = Ok [(16, 178); (381, 543); (746, 908); (1111, 1273)] /\
  default_harvest (5, 1) 132 = (10, 10).
Proof. repeat split; vm_compute; reflexivity. Qed.
Example season_list_wf_example :
  wf_clock {| n_steps := 1204; plant := [16; 381; 746; 1111]; harv := [178; 543; 908; 1273]; off_season := true |}.
Proof.
  apply (season_list_wf (2000, 4, 15) (2003, 8, 1) (5, 1) None 132 [(16, 178); (381, 543); (746, 908); (1111, 1273)] true);
  vm_compute; reflexivity.
Qed.

(* ================================================================================================ *)
(* thermal mode: the cumulative-GDD searches (any number instance) *)
Section GddSearch.
  Context {F : Type} {N : NumOps F}.
  Local Open Scope num_scope.

  Lemma first_gt_from_some (l : list F) (x : F) : forall i j, first_gt_from i l x = Some j ->
    exists n c, j = (i + Z.of_nat n)%Z /\ nth_error l n = Some c /\ (x <? c) = true /\
                forall m c', (m < n)%nat -> nth_error l m = Some c' -> (x <? c') = false.
  Proof.
    induction l as [|c r IH]; intros i j H; [discriminate|]. cbn [first_gt_from] in H.
    destruct (x <? c) eqn:E.
    - injection H as <-. exists 0%nat, c. repeat split; [lia|exact E|]. intros m c' Hm. lia.
    - apply IH in H as (n & c0 & -> & Hn & Hc & Hall). exists (S n), c0. repeat split; [lia|exact Hn|exact Hc|].
      intros m c' Hm Hc'. destruct m as [|m]; [cbn in Hc'; injection Hc' as <-; exact E|].
      apply (Hall m c'); [lia|exact Hc'].
  Qed.

  Lemma first_gt_from_none (l : list F) (x : F) : forall i, first_gt_from i l x = None -> Forall (fun c => (x <? c) = false) l.
  Proof.
    induction l as [|c r IH]; intros i H; [constructor|]. cbn [first_gt_from] in H.
    destruct (x <? c) eqn:E; [discriminate|]. constructor; [exact E|apply (IH _ H)].
  Qed.

  Lemma idxmax_gt_range (l : list F) (x : F) : (0 <= idxmax_gt l x)%Z /\ (l <> [] -> (idxmax_gt l x < Z.of_nat (length l))%Z).
  Proof.
    unfold idxmax_gt. destruct (first_gt_from 0 l x) as [j|] eqn:E.
    - apply first_gt_from_some in E as (n & c & -> & Hn & _). split; [lia|]. intros _.
      assert (n < length l)%nat by (apply nth_error_Some; congruence). lia.
    - split; [lia|]. intros Hne. destruct l; [congruence|]. cbn [length]. lia.
  Qed.

  Lemma cumsum_length (l : list F) : length (cumsum l) = length l.
  Proof.
    destruct l as [|x r]; [reflexivity|]. cbn [cumsum length]. f_equal.
    revert x. induction r as [|y r IH]; intros x; [reflexivity|]. cbn [cumsum_from length]. f_equal. apply IH.
  Qed.

  (* the documented rejections are the only ones, and an accepted crop matures within a year and within the weather *)
  Theorem gdd_calendar_cases (k : CalCrop) (gdd : list F) :
    match gdd_calendar k gdd with
    | Ok r => (1 <= g_maturitycd r < 365)%Z /\ (g_maturitycd r <= Z.of_nat (length gdd))%Z /\
              g_yldformcd r = (g_hiendcd r - g_histartcd r)%Z /\ (1 <= g_histartcd r)%Z /\ (1 <= g_hiendcd r)%Z
    | Err e => (e = IndexError_NoPlanting /\ gdd = []) \/ e = AssertionError_NotEnoughGDD \/ e = AssertionError_OverAYear
    end.
  Proof.
    unfold gdd_calendar. cbv zeta.
    destruct (rev (cumsum gdd)) as [|last r] eqn:Er.
    - left. split; [reflexivity|]. apply (f_equal (@length F)) in Er. rewrite rev_length, cumsum_length in Er.
      destruct gdd; [reflexivity|discriminate].
    - destruct (k_maturity k <? last); cbn [negb]; [|auto].
      destruct (idxmax_gt (cumsum gdd) (k_maturity k) + 1 <? 365)%Z eqn:E; cbn [negb]; [|auto].
      apply Z.ltb_lt in E. cbn [g_maturitycd g_yldformcd g_hiendcd g_histartcd].
      assert (Hne : cumsum gdd <> []) by (intros C; rewrite C in Er; discriminate).
      pose proof (idxmax_gt_range (cumsum gdd) (k_maturity k)) as [A B]. specialize (B Hne). rewrite cumsum_length in B.
      pose proof (idxmax_gt_range (cumsum gdd) (k_histart k)) as [A1 _].
      pose proof (idxmax_gt_range (cumsum gdd) (r_hiend (cal_derived k))) as [A2 _].
      repeat split; lia.
  Qed.
End GddSearch.

(* ================================================================================================ *)
(* read_weather_inputs: the clipped table holds exactly the rows of the window, in their original order *)
Lemma clip_weather_In {A} (s e : Z) (rows : list (Z * A)) r :
  In r (clip_weather s e rows) <-> In r rows /\ s <= fst r <= e.
Proof. unfold clip_weather. rewrite !filter_In, !Z.leb_le. tauto. Qed.

Lemma clip_weather_all {A} (s e : Z) (rows : list (Z * A)) :
  Forall (fun r => s <= fst r <= e) rows -> clip_weather s e rows = rows.
Proof.
  unfold clip_weather. induction 1 as [|r l Hr Hl IH]; [reflexivity|]. cbn [filter].
  replace (s <=? fst r) with true by (symmetry; apply Z.leb_le; lia). cbn [filter].
  replace (fst r <=? e) with true by (symmetry; apply Z.leb_le; lia). f_equal. exact IH.
Qed.

Print Assumptions civil_roundtrip.
Print Assumptions civil_roundtrip_valid.
Print Assumptions date_order.
Print Assumptions season_list_spec.
Print Assumptions season_list_wf.
Print Assumptions season_list_error_iff.
Print Assumptions default_harvest_explicit.
Print Assumptions default_harvest_covers_maturity.
Print Assumptions calendar_init_ok.
Print Assumptions calendar_init_error_cases.
Print Assumptions initial_season_counter_spec.
Print Assumptions gdd_calendar_cases.
