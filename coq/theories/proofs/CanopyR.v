(* CanopyR.v — theorems about Crop/Canopy.v at the real instance (property C05, canopy part).
   Main results: [canopy_inv_step] (the envelope invariant is re-established by one call, any phase),
   [cc_range], [cc_ns_range], [cc_le_ns], [off_season_zero], ranges/definedness of adjust_CCx / update_CCx_CDC,
   and the refutations [ccx_act_le_refuted] (rewatering pushes ccx_act above CCx) and [cc_ns_step_refuted]
   (without the catalogue obligation CC0*exp(CGC*dt) <= CCx the first-day formula leaves [0, CCx], even [0,1]). *)
From Flocq Require Import Core.
From AC Require Import Num RInst Kernels.
From AC.proofs Require Import KernelsR.
From AC.Crop Require Import Canopy.
Local Open Scope R_scope.

(* ------------------------------------------------------------------ small helpers *)
Lemma cc_growth_range0 CCo CCx CGC dt : 0 <= CCo -> 0 <= CCx -> 0 <= cc_growth CCo CCx CGC dt <= CCx.
Proof.
  intros [Ho|Ho] Hx; [apply cc_growth_range; assumption|]. subst CCo.
  unfold cc_growth, cc_clamp01. rnum. rewrite Rmult_0_l.
  destruct (Rltb_spec (CCx / 2) 0); [lra|]. cbv zeta.
  destruct (Rltb_spec CCx 0); [lra|]. destruct (Rltb_spec 1 0); [lra|]. destruct (Rltb_spec 0 0); lra.
Qed.

(* the relative decline curve of the late season: CC = CCx_act * decl (t - Senescence) *)
Definition decl (k : @CropC R) (t : R) : R :=
  1 - 5/100 * (exp (t * (k_CDC k * (333/100) / (k_CCx k + 229/100))) - 1).

Lemma decl_anti k t t' : 0 <= k_CDC k -> 0 <= k_CCx k -> t <= t' -> decl k t' <= decl k t.
Proof.
  intros Hc Hx Ht. unfold decl.
  assert (Hr : 0 <= k_CDC k * (333/100) / (k_CCx k + 229/100)).
  { apply Rmult_le_pos; [lra | left; apply Rinv_0_lt_compat; lra]. }
  assert (exp (t * (k_CDC k * (333/100) / (k_CCx k + 229/100))) <= exp (t' * (k_CDC k * (333/100) / (k_CCx k + 229/100)))).
  { apply exp_mono. apply Rmult_le_compat_r; assumption. }
  lra.
Qed.

Lemma decl_le_1 k t : 0 <= k_CDC k -> 0 <= k_CCx k -> 0 <= t -> decl k t <= 1.
Proof.
  intros Hc Hx Ht. pose proof (decl_anti k 0 t Hc Hx Ht) as H. unfold decl in H at 2.
  rewrite Rmult_0_l, exp_0 in H. lra.
Qed.

(* the late-season call  cc_development(cc0_adj, a, CGC, CDC*((a+2.29)/(CCx+2.29)), t, "Decline", a)  *)
Lemma cc_late_eq k a t : 1/1000 <= a -> 0 <= k_CCx k ->
  cc_decline a (k_CDC k * ((a + 229/100) / (k_CCx k + 229/100))) t a = cc_clamp01 (a * decl k t).
Proof.
  intros Ha Hx. rewrite cc_decline_eq. destruct (Rltb_spec a (1/1000)); [lra|].
  f_equal. unfold decl. f_equal. f_equal. f_equal. f_equal. f_equal. field. lra.
Qed.

Lemma cc_late_small a c t : a < 1/1000 -> cc_decline a c t a = 0.
Proof.
  intros Ha. rewrite cc_decline_eq. destruct (Rltb_spec a (1/1000)); [|lra].
  apply cc_clamp01_id. lra.
Qed.

(* ------------------------------------------------------------------ hypotheses *)
Record crop_ok (k : @CropC R) : Prop := {
  ck_CC0 : 0 < k_CC0 k;
  ck_CC0x : k_CC0 k <= k_CCx k;
  ck_CCx : k_CCx k <= 1;
  ck_CGC : 0 < k_CGC k;
  ck_CDC : 0 <= k_CDC k }.

(* the catalogue obligation for the day's time step (dt = 1 in calendar mode, the day's GDD otherwise) *)
Definition step_ok (k : @CropC R) (dt : R) : Prop := 0 <= dt /\ k_CC0 k * exp (k_CGC k * dt) <= k_CCx k.

(* what is known about ccx_act: either it is below CCx, or (after a late-season rewatering) it has been back-computed
   from a canopy below CCx, so that the decline curve started from it stays below CCx from time [t0] on *)
Definition ccx_inv (k : @CropC R) (t0 a : R) : Prop :=
  forall t, t0 <= t -> k_senescence k <= t -> 1/1000 <= a -> a * decl k (t - k_senescence k) <= k_CCx k.

(* the invariant of the day loop; [t0] is the canopy time tCCadj of the previous call (any value after a reset) *)
Record canopy_inv (k : @CropC R) (t0 : R) (s : @CanopyS R) : Prop := {
  ci_cc : 0 <= s_cc s <= k_CCx k;
  ci_cc_ns : 0 <= s_cc_ns s <= k_CCx k;
  ci_ccx_act_ns : 0 <= s_ccx_act_ns s <= k_CCx k;
  ci_cc0_adj : 0 <= s_cc0_adj s <= k_CC0 k;
  ci_ccx_act : ccx_inv k t0 (s_ccx_act s) }.

Lemma ccx_inv_le k t0 a : crop_ok k -> a <= k_CCx k -> ccx_inv k t0 a.
Proof.
  intros [H0 H0x Hx1 Hg Hd] Ha t Ht0 Hts Ha1.
  pose proof (decl_le_1 k (t - k_senescence k) Hd) as H1.
  destruct (Rle_dec 0 (decl k (t - k_senescence k))); nra.
Qed.

Lemma ccx_inv_mono k t0 t1 a : t0 <= t1 -> ccx_inv k t0 a -> ccx_inv k t1 a.
Proof. intros Ht H t Ht1 Hs Ha. apply H; lra. Qed.

Lemma ccx_inv_max k t0 a b : ccx_inv k t0 a -> ccx_inv k t0 b -> ccx_inv k t0 (if Rltb a b then b else a).
Proof. intros Ha Hb. destruct (Rltb a b); assumption. Qed.

(* the late-season value stays in [0, CCx] *)
Lemma cc_late_range k t0 a tcc : crop_ok k -> ccx_inv k t0 a -> t0 <= tcc -> k_senescence k <= tcc ->
  0 <= cc_decline a (k_CDC k * ((a + 229/100) / (k_CCx k + 229/100))) (tcc - k_senescence k) a <= k_CCx k.
Proof.
  intros Hk Ha Ht Hs. pose proof Hk as [H0 H0x Hx1 Hg Hd].
  destruct (Rlt_dec a (1/1000)) as [Hsm|Hbig].
  - rewrite cc_late_small by assumption. lra.
  - rewrite cc_late_eq by lra. split; [apply cc_clamp01_range|].
    apply cc_clamp01_le; [|lra]. apply Ha; lra.
Qed.

(* ------------------------------------------------------------------ adjust_CCx / update_CCx_CDC *)
Lemma adjust_CCx_range cc_prev CCo CCx CGC CDC dt tSum cde Crop_CCx :
  0 <= CCo -> 0 <= CCx -> 0 <= adjust_CCx cc_prev CCo CCx CGC CDC dt tSum cde Crop_CCx <= CCx.
Proof.
  intros Ho Hx. unfold adjust_CCx. cbv zeta. rnum.
  destruct (Rltb 0 (cc_required_time_cgc cc_prev CCo CCx CGC)); [|lra].
  unfold cc_development. apply cc_growth_range0; assumption.
Qed.

(* definedness: the three denominators / the logarithm argument of cc_required_time reached through adjust_CCx *)
Lemma adjust_CCx_defined cc_prev CCo CCx CGC : 0 < CCo -> CCo < cc_prev -> cc_prev < CCx -> 0 < CGC ->
  CCo <> 0 /\ CGC <> 0 /\ (cc_prev <= CCx / 2 -> 0 < cc_prev / CCo) /\
  (CCx / 2 < cc_prev -> CCx - cc_prev <> 0 /\ 0 < (25/100 * CCx * CCx / CCo) / (CCx - cc_prev)).
Proof.
  intros Ho Hp Hx Hg. repeat split; try lra.
  - intros _. apply Rdiv_lt_0_compat; lra.
  - apply Rdiv_lt_0_compat; [|lra]. apply Rdiv_lt_0_compat; [nra|lra].
Qed.

Lemma update_CCx_CDC_eq k cc t :
  fst (update_CCx_CDC cc (k_CDC k) (k_CCx k) t) = cc / decl k t.
Proof. reflexivity. Qed.

Lemma update_CCx_CDC_cdc k cc t :
  snd (update_CCx_CDC cc (k_CDC k) (k_CCx k) t) =
  k_CDC k * ((fst (update_CCx_CDC cc (k_CDC k) (k_CCx k) t) + 229/100) / (k_CCx k + 229/100)).
Proof. reflexivity. Qed.

(* definedness of update_CCx_CDC: CCx + 2.29 > 0 always; the divisor decl k t is positive exactly as long as the
   reference decline curve has not reached zero, i.e. t < ln 21 / (3.33 CDC / (CCx + 2.29)) *)
Lemma update_CCx_CDC_defined k t : 0 <= k_CCx k ->
  t * (k_CDC k * (333/100) / (k_CCx k + 229/100)) < ln 21 -> k_CCx k + 229/100 <> 0 /\ 0 < decl k t.
Proof.
  intros Hx Ht. split; [lra|]. unfold decl.
  assert (exp (t * (k_CDC k * (333/100) / (k_CCx k + 229/100))) < 21).
  { apply exp_increasing in Ht. rewrite (exp_ln 21) in Ht by lra. exact Ht. }
  lra.
Qed.

(* the back-computed CCx: below the previous canopy whenever the elapsed late-season time is non-negative ... *)
Lemma update_CCx_CDC_ge k cc t : crop_ok k -> 0 <= cc -> 0 <= t -> 0 < decl k t ->
  cc <= fst (update_CCx_CDC cc (k_CDC k) (k_CCx k) t).
Proof.
  intros [H0 H0x Hx1 Hg Hd] Hc Ht Hp. rewrite update_CCx_CDC_eq.
  pose proof (decl_le_1 k t Hd ltac:(lra) Ht) as H1.
  apply (Rmult_le_reg_r (decl k t)); [exact Hp|].
  unfold Rdiv. rewrite Rmult_assoc, Rinv_l by lra. nra.
Qed.

(* ... and re-establishing the ccx_act invariant from the time of the call on *)
Lemma ccx_inv_update k cc tcc dt : crop_ok k -> 0 <= dt -> 0 <= cc <= k_CCx k ->
  ccx_inv k tcc (fst (update_CCx_CDC cc (k_CDC k) (k_CCx k) (tcc - dt - k_senescence k))).
Proof.
  intros Hk Hdt Hc. pose proof Hk as [H0 H0x Hx1 Hg Hd]. rewrite update_CCx_CDC_eq.
  set (t0 := tcc - dt - k_senescence k). intros t Ht Hs Ha.
  assert (Hanti : decl k (t - k_senescence k) <= decl k t0) by (apply decl_anti; unfold t0; lra).
  destruct (Rtotal_order (decl k t0) 0) as [Hneg|[Hz|Hpos]].
  - (* negative divisor: the quotient is <= 0 < 0.001 *)
    exfalso. assert (cc / decl k t0 <= 0); [|lra].
    unfold Rdiv. assert (/ decl k t0 < 0) by (apply Rinv_lt_0_compat; exact Hneg). nra.
  - exfalso. rewrite Hz in Ha. unfold Rdiv in Ha. rewrite Rinv_0 in Ha. lra.
  - assert (Hq : 0 <= cc / decl k t0) by (apply Rmult_le_pos; [lra | left; apply Rinv_0_lt_compat; exact Hpos]).
    destruct (Rle_dec 0 (decl k (t - k_senescence k))) as [Hd0|Hd0]; [|nra].
    assert (cc / decl k t0 * decl k (t - k_senescence k) <= cc / decl k t0 * decl k t0) by (apply Rmult_le_compat_l; assumption).
    replace (cc / decl k t0 * decl k t0) with cc in H by (field; lra). lra.
Qed.

(* ------------------------------------------------------------------ the potential canopy *)
Lemma cc_potential_range k tcc dt cc_ns0 xans0 xwns0 : crop_ok k -> step_ok k dt ->
  0 <= cc_ns0 <= k_CCx k -> 0 <= xans0 <= k_CCx k ->
  let '(cc_ns, xans, _) := cc_potential k tcc dt cc_ns0 xans0 xwns0 in
  0 <= cc_ns <= k_CCx k /\ 0 <= xans <= k_CCx k.
Proof.
  intros [H0 H0x Hx1 Hg Hd] [Hdt Hstep] Hns Hxa. unfold cc_potential. rnum.
  destruct (cc_outside k tcc); [cbv beta iota; lra|].
  destruct (Rltb_spec tcc (k_canopy_dev_end k)).
  - match goal with |- 0 <= ?X <= _ /\ _ => assert (0 <= X <= k_CCx k) end; [|lra].
    destruct (Rleb cc_ns0 (k_CC0 k)).
    + pose proof (exp_pos (k_CGC k * dt)). nra.
    + unfold cc_development. pose proof (cc_growth_range (k_CC0 k) (98/100 * k_CCx k) (k_CGC k) (tcc - k_emergence k) H0 ltac:(lra)).
      rnum. lra.
  - destruct (Rltb_spec (k_canopy_dev_end k) tcc); [|cbv beta iota; lra].
    destruct (Rltb_spec tcc (k_senescence k)); [cbv beta iota; lra|].
    unfold cc_development.
    pose proof (cc_decline_range xans0 (k_CDC k) (tcc - k_senescence k) xans0 ltac:(lra) ltac:(lra) Hd ltac:(lra)).
    rnum. cbv beta iota; lra.
Qed.

(* ------------------------------------------------------------------ the actual canopy before the stress block *)
Definition act_ok (k : @CropC R) (t : R) (cc c0a xa : R) : Prop :=
  0 <= cc <= k_CCx k /\ 0 <= c0a <= k_CC0 k /\ ccx_inv k t xa.

Lemma death_check_range k cc d0 d : 0 <= cc <= k_CCx k -> 0 <= k_CCx k -> 0 <= fst (death_check cc d0 d) <= k_CCx k.
Proof. intros H Hx. unfold death_check. destruct (_ && _); cbn [fst]; rnum; lra. Qed.

Lemma death_check_le cc d0 d : 0 <= cc -> fst (death_check cc d0 d) <= cc.
Proof. intros H. unfold death_check. destruct (_ && _); cbn [fst]; rnum; lra. Qed.

Lemma cc_growing_range k tcc dt kexp cc0 c0a : crop_ok k ->
  0 <= cc0 <= k_CCx k -> 0 <= c0a <= k_CC0 k ->
  let '(cc, c0a') := cc_growing k tcc dt kexp cc0 c0a in
  0 <= cc <= k_CCx k /\ 0 <= c0a' <= k_CC0 k.
Proof.
  intros [H0 H0x Hx1 Hg Hd] Hc Ha. unfold cc_growing, cc_development.
  pose proof (cc_growth_range (k_CC0 k) (k_CCx k) (k_CGC k) (tcc - k_emergence k) H0 ltac:(lra)) as Hgr.
  match goal with |- context [adjust_CCx ?a ?b ?c ?d ?e ?f ?g ?h ?i] =>
    pose proof (adjust_CCx_range a b c d e f g h i ltac:(lra) ltac:(lra)) as HX end.
  rnum.
  destruct (Rltb_spec cc0 (9799 / 10000 * k_CCx k)); [|cbv beta iota; lra].
  destruct (Rltb_spec 0 (k_CGC k * kexp)).
  - set (X := adjust_CCx _ _ _ _ _ _ _ _ _) in *. cbv zeta.
    destruct (Rltb_spec X 0); [cbv beta iota; lra|].
    destruct (Rltb (nabs (cc0 - 9799 / 10000 * k_CCx k)) (1 / 1000)); [cbv beta iota; lra|].
    destruct (Rltb 0 (cc_required_time_cgc cc0 c0a X (k_CGC k * kexp))); [|cbv beta iota; lra].
    pose proof (cc_growth_range0 c0a X (k_CGC k * kexp) (cc_required_time_cgc cc0 c0a X (k_CGC k * kexp) + dt) ltac:(lra) ltac:(lra)).
    rnum. cbv beta iota. lra.
  - cbv beta iota. destruct (Rltb_spec c0a cc0); lra.
Qed.

Lemma cc_actual_range k t0 tcc dt kexp s : crop_ok k -> step_ok k dt -> canopy_inv k t0 s -> t0 <= tcc ->
  let '(cc, c0a, xa, _, _) := cc_actual k tcc dt kexp s in act_ok k tcc cc c0a xa.
Proof.
  intros Hk [Hdt Hstep] [Hcc Hns Hxans Hc0a Hxa] Ht. pose proof Hk as [H0 H0x Hx1 Hg Hd].
  pose proof (ccx_inv_mono k t0 tcc _ Ht Hxa) as Hxa'.
  pose proof (cc_growth_range (k_CC0 k) (k_CCx k) (k_CGC k) (tcc - k_emergence k) H0 ltac:(lra)) as Hgr.
  pose proof (cc_growing_range k tcc dt kexp (s_cc s) (s_cc0_adj s) Hk Hcc Hc0a) as G.
  pose proof (cc_late_range k t0 (s_ccx_act s) tcc Hk Hxa Ht) as Hl.
  pose proof (exp_pos (k_CGC k * dt)) as He.
  unfold cc_actual, act_ok, cc_development. cbv zeta. rnum.
  destruct (cc_outside k tcc); [cbv beta iota; repeat split; try lra; exact Hxa'|].
  destruct (Rltb_spec tcc (k_canopy_dev_end k)).
  - (* growth phase: first the pair (cc, cc0_adj), then the ccx_act update *)
    destruct (Rleb (s_cc s) (s_cc0_adj s) || (s_protected_seed s && Rleb (s_cc s) (125 / 100 * s_cc0_adj s))).
    + destruct (s_protected_seed s); cbv beta iota.
      * repeat split; try lra. apply ccx_inv_max; [exact Hxa' | apply ccx_inv_le; [exact Hk | lra]].
      * assert (s_cc0_adj s * exp (k_CGC k * dt) <= k_CCx k).
        { apply Rle_trans with (k_CC0 k * exp (k_CGC k * dt)); [|exact Hstep]. apply Rmult_le_compat_r; lra. }
        repeat split; try lra; try nra. apply ccx_inv_max; [exact Hxa' | apply ccx_inv_le; [exact Hk | lra]].
    + destruct (cc_growing k tcc dt kexp (s_cc s) (s_cc0_adj s)) as [cc c0a']. cbv beta iota.
      repeat split; try lra. apply ccx_inv_max; [exact Hxa' | apply ccx_inv_le; [exact Hk | lra]].
  - destruct (Rltb_spec (k_canopy_dev_end k) tcc); [|cbv beta iota; repeat split; try lra; exact Hxa'].
    destruct (Rltb_spec tcc (k_senescence k)).
    + pose proof (death_check_range k (s_cc s) (s_crop_dead s) (s_crop_dead s) Hcc ltac:(lra)) as Hdc.
      cbv beta iota. destruct (death_check (s_cc s) (s_crop_dead s) (s_crop_dead s)) as [cc dd]. cbn [fst] in Hdc.
      repeat split; try lra. apply ccx_inv_max; [exact Hxa' | apply ccx_inv_le; [exact Hk | lra]].
    + specialize (Hl ltac:(lra)). rnum.
      pose proof (death_check_range k _ (s_crop_dead s) (s_crop_dead s) Hl ltac:(lra)) as Hdc.
      cbv beta iota. destruct (death_check _ (s_crop_dead s) (s_crop_dead s)) as [cc dd]. cbn [fst] in Hdc.
      repeat split; try lra. exact Hxa'.
Qed.

(* ------------------------------------------------------------------ the water-stress block *)
Lemma cc_sen_nonneg cc0 ces cdc dt : 0 <= cc_sen cc0 ces cdc dt.
Proof.
  unfold cc_sen. rnum. destruct (Rltb ces (1/1000)); [lra|]. cbv zeta.
  match goal with |- context [Rltb ?x 0] => destruct (Rltb_spec x 0) end; lra.
Qed.

Lemma cc_stress_range k s tcc dt Dr taw et0 cc c0a xa dead : crop_ok k ->
  0 <= s_cc s <= k_CCx k -> act_ok k tcc cc c0a xa ->
  let '(cc', c0a', xa', _) := cc_stress_branch k s tcc dt Dr taw et0 cc c0a xa dead in
  act_ok k tcc cc' c0a' xa' /\ (k_senescence k <= tcc -> cc' <= cc).
Proof.
  intros Hk Hcc0 [Hcc [Hc0a Hxa]]. pose proof Hk as [H0 H0x Hx1 Hg Hd].
  unfold cc_stress_branch. cbv zeta.
  match goal with |- context [cc_sen ?a ?b ?c ?d] => pose proof (cc_sen_nonneg a b c d) as Hs; set (CS := cc_sen a b c d) in * end.
  rnum. destruct (Rltb_spec tcc (k_senescence k)).
  - set (CS' := if Rltb (k_CCx k) CS then k_CCx k else CS).
    assert (HCS' : 0 <= CS' <= k_CCx k) by (unfold CS'; destruct (Rltb_spec (k_CCx k) CS); lra).
    set (c1 := if Rltb (s_cc s) CS' then s_cc s else CS').
    assert (Hc1 : 0 <= c1 <= k_CCx k) by (unfold c1; destruct (Rltb_spec (s_cc s) CS'); lra).
    pose proof (death_check_range k c1 (s_crop_dead s) dead Hc1 ltac:(lra)) as Hdc.
    destruct (death_check c1 (s_crop_dead s) dead) as [c2 dd]. cbn [fst] in Hdc.
    split; [|intros; lra]. repeat split; try lra.
    + destruct (Rltb_spec c1 (k_CC0 k)); lra.
    + destruct (Rltb_spec c1 (k_CC0 k)); lra.
    + apply ccx_inv_le; [exact Hk | lra].
  - set (c1 := if Rltb CS cc then CS else cc).
    assert (Hc1 : 0 <= c1 <= cc) by (unfold c1; destruct (Rltb_spec CS cc); lra).
    pose proof (death_check_range k c1 (s_crop_dead s) dead ltac:(lra) ltac:(lra)) as Hdc.
    pose proof (death_check_le c1 (s_crop_dead s) dead ltac:(lra)) as Hle.
    destruct (death_check c1 (s_crop_dead s) dead) as [c2 dd]. cbn [fst] in Hdc, Hle.
    split; [|intros; lra]. repeat split; try lra. exact Hxa.
Qed.

Lemma cc_rewater_range k s tcc dt cc c0a xa dead : crop_ok k -> 0 <= dt ->
  0 <= s_cc s <= k_CCx k -> act_ok k tcc cc c0a xa ->
  let '(cc', xa', _) := cc_rewater_branch k s tcc dt cc c0a xa dead in act_ok k tcc cc' c0a xa'.
Proof.
  intros Hk Hdt Hcc0 [Hcc [Hc0a Hxa]]. pose proof Hk as [H0 H0x Hx1 Hg Hd].
  unfold cc_rewater_branch. rnum.
  destruct (Rltb_spec (k_senescence k) tcc); cbn [andb]; [|repeat split; try lra; exact Hxa].
  destruct (Rltb 0 (s_t_early_sen s)); [|repeat split; try lra; exact Hxa].
  pose proof (ccx_inv_update k (s_cc s) tcc dt Hk Hdt Hcc0) as Hu.
  pose proof (update_CCx_CDC_cdc k (s_cc s) (tcc - dt - k_senescence k)) as Hc.
  destruct (update_CCx_CDC (s_cc s) (k_CDC k) (k_CCx k) (tcc - dt - k_senescence k)) as [X C]. cbn [fst snd] in Hu, Hc.
  subst C. unfold cc_development.
  pose proof (cc_late_range k tcc X tcc Hk Hu ltac:(lra) ltac:(lra)) as Hl.
  pose proof (death_check_range k _ (s_crop_dead s) dead Hl ltac:(lra)) as Hdc.
  destruct (death_check _ (s_crop_dead s) dead) as [c2 dd]. cbn [fst] in Hdc.
  repeat split; try lra. exact Hu.
Qed.

Lemma cc_senescence_range k s tcc dt ksen Dr taw et0 cc c0a xa dead : crop_ok k -> 0 <= dt ->
  0 <= s_cc s <= k_CCx k -> act_ok k tcc cc c0a xa ->
  let '(cc', c0a', xa', _, _, _, _, _) := cc_senescence k s tcc dt ksen Dr taw et0 cc c0a xa dead in
  act_ok k tcc cc' c0a' xa'.
Proof.
  intros Hk Hdt Hcc0 Ha. unfold cc_senescence. cbv zeta.
  destruct (_ && _); [|exact Ha].
  destruct (_ && _).
  - pose proof (cc_stress_range k s tcc dt Dr taw et0 cc c0a xa dead Hk Hcc0 Ha) as H.
    destruct (cc_stress_branch k s tcc dt Dr taw et0 cc c0a xa dead) as [[[c1 a1] x1] d1]. apply H.
  - pose proof (cc_rewater_range k s tcc dt cc c0a xa dead Hk Hdt Hcc0 Ha) as H.
    destruct (cc_rewater_branch k s tcc dt cc c0a xa dead) as [[c1 x1] d1]. exact H.
Qed.

(* ------------------------------------------------------------------ the whole growing-season step *)
Theorem canopy_inv_gs k t0 s tcc dt Dr_Rz Dr_Zt TAW_Rz TAW_Zt et0 :
  crop_ok k -> step_ok k dt -> canopy_inv k t0 s -> t0 <= tcc ->
  canopy_inv k tcc (canopy_gs k s tcc dt Dr_Rz Dr_Zt TAW_Rz TAW_Zt et0).
Proof.
  intros Hk Hst Hi Ht. pose proof Hk as [H0 H0x Hx1 Hg Hd]. pose proof Hst as [Hdt _].
  unfold canopy_gs.
  destruct (if nleb num_ops (Dr_Rz / TAW_Rz)%num (Dr_Zt / TAW_Zt)%num then (Dr_Rz, TAW_Rz) else (Dr_Zt, TAW_Zt)) as [Dr taw].
  pose proof (cc_potential_range k tcc dt (s_cc_ns s) (s_ccx_act_ns s) (s_ccx_w_ns s) Hk Hst (ci_cc_ns _ _ _ Hi) (ci_ccx_act_ns _ _ _ Hi)) as Hp.
  destruct (cc_potential k tcc dt (s_cc_ns s) (s_ccx_act_ns s) (s_ccx_w_ns s)) as [[cc_ns xans] xwns].
  set (ksw := ws_of k _ Dr taw et0).
  pose proof (cc_actual_range k t0 tcc dt (Ksw_Exp ksw) s Hk Hst Hi Ht) as Ha.
  destruct (cc_actual k tcc dt (Ksw_Exp ksw) s) as [[[[cc c0a] xa] prot] dead].
  pose proof (cc_senescence_range k s tcc dt (Ksw_Sen ksw) Dr taw et0 cc c0a xa dead Hk Hdt (ci_cc _ _ _ Hi) Ha) as Hs.
  destruct (cc_senescence k s tcc dt (Ksw_Sen ksw) Dr taw et0 cc c0a xa dead) as [[[[[[[cc' c0a'] xa'] dead'] premat] ces] tes] xw].
  destruct Hs as [Hcc' [Hc0a' Hxa']]. destruct Hp as [Hns Hxans].
  unfold cc_ns_raise. rnum.
  destruct (Rltb_spec cc_ns cc'); [destruct (Rltb tcc (k_canopy_dev_end k))|]; constructor; cbn; try lra; exact Hxa'.
Qed.


Lemma canopy_inv_off k t s : crop_ok k -> 0 <= s_cc0_adj s <= k_CC0 k -> canopy_inv k t (canopy_off s).
Proof.
  intros Hk Hc. pose proof Hk as [H0 H0x Hx1 Hg Hd].
  constructor; cbn; rnum; try lra. apply ccx_inv_le; [exact Hk | lra].
Qed.

(* canopy time and time step of the call, as canopy_cover computes them *)
Definition tcc_of (k : @CropC R) (dap dcds : Z) (gdd_cum dgdds : R) : R :=
  if (k_cal k =? 1)%Z then IZR (dap - dcds) else gdd_cum - dgdds.
Definition dt_of (k : @CropC R) (gdd : R) : R := if (k_cal k =? 1)%Z then 1 else gdd.

(* 2. the envelope invariant is re-established by every call of canopy_cover (all ~25 assignment sites), so that
      induction over days closes ([canopy_inv_run] below).  In the growing season the canopy clock must not run
      backwards (t0 <= tCCadj) and the day's step must satisfy the catalogue obligation [step_ok]. *)
Theorem canopy_inv_step k t0 s dap dcds gdd_cum dgdds gdd Dr_Rz Dr_Zt TAW_Rz TAW_Zt et0 gs s' :
  crop_ok k -> canopy_inv k t0 s ->
  (gs = true -> step_ok k (dt_of k gdd) /\ t0 <= tcc_of k dap dcds gdd_cum dgdds) ->
  canopy_cover k s dap dcds gdd_cum dgdds gdd Dr_Rz Dr_Zt TAW_Rz TAW_Zt et0 gs = Some s' ->
  if gs then canopy_inv k (tcc_of k dap dcds gdd_cum dgdds) s' else forall t, canopy_inv k t s'.
Proof.
  intros Hk Hi Hg. unfold canopy_cover, tcc_of, dt_of in *. destruct gs.
  - destruct (Hg eq_refl) as [Hst Ht]. clear Hg.
    destruct (k_cal k =? 1)%Z.
    + intros [= <-]. rnum. apply (canopy_inv_gs k t0); assumption.
    + destruct (k_cal k =? 2)%Z; [|discriminate]. intros [= <-]. rnum. apply (canopy_inv_gs k t0); assumption.
  - intros [= <-] t. apply canopy_inv_off; [exact Hk | exact (ci_cc0_adj _ _ _ Hi)].
Qed.

(* 2'. canopy cover lies between 0 and the crop's maximum canopy cover *)
Corollary cc_range k t0 s dap dcds gdd_cum dgdds gdd Dr_Rz Dr_Zt TAW_Rz TAW_Zt et0 gs s' :
  crop_ok k -> canopy_inv k t0 s ->
  (gs = true -> step_ok k (dt_of k gdd) /\ t0 <= tcc_of k dap dcds gdd_cum dgdds) ->
  canopy_cover k s dap dcds gdd_cum dgdds gdd Dr_Rz Dr_Zt TAW_Rz TAW_Zt et0 gs = Some s' ->
  0 <= s_cc s' <= k_CCx k.
Proof.
  intros Hk Hi Hg He. pose proof (canopy_inv_step _ _ _ _ _ _ _ _ _ _ _ _ _ _ _ Hk Hi Hg He) as H.
  destruct gs; [|specialize (H 0)]; exact (ci_cc _ _ _ H).
Qed.

(* 1. the no-stress canopy lies between 0 and the crop's maximum canopy cover *)
Corollary cc_ns_range k t0 s dap dcds gdd_cum dgdds gdd Dr_Rz Dr_Zt TAW_Rz TAW_Zt et0 gs s' :
  crop_ok k -> canopy_inv k t0 s ->
  (gs = true -> step_ok k (dt_of k gdd) /\ t0 <= tcc_of k dap dcds gdd_cum dgdds) ->
  canopy_cover k s dap dcds gdd_cum dgdds gdd Dr_Rz Dr_Zt TAW_Rz TAW_Zt et0 gs = Some s' ->
  0 <= s_cc_ns s' <= k_CCx k.
Proof.
  intros Hk Hi Hg He. pose proof (canopy_inv_step _ _ _ _ _ _ _ _ _ _ _ _ _ _ _ Hk Hi Hg He) as H.
  destruct gs; [|specialize (H 0)]; exact (ci_cc_ns _ _ _ H).
Qed.

(* 3. the actual canopy never exceeds the no-stress canopy: unconditional (the clamp at the end of the function) *)
Lemma cc_le_ns_gs k s tcc dt Dr_Rz Dr_Zt TAW_Rz TAW_Zt et0 :
  s_cc (canopy_gs k s tcc dt Dr_Rz Dr_Zt TAW_Rz TAW_Zt et0) <= s_cc_ns (canopy_gs k s tcc dt Dr_Rz Dr_Zt TAW_Rz TAW_Zt et0).
Proof.
  unfold canopy_gs.
  destruct (if nleb num_ops (Dr_Rz / TAW_Rz)%num (Dr_Zt / TAW_Zt)%num then (Dr_Rz, TAW_Rz) else (Dr_Zt, TAW_Zt)) as [Dr taw].
  destruct (cc_potential k tcc dt (s_cc_ns s) (s_ccx_act_ns s) (s_ccx_w_ns s)) as [[cc_ns xans] xwns].
  destruct (cc_actual _ _ _ _ _) as [[[[cc c0a] xa] prot] dead].
  destruct (cc_senescence _ _ _ _ _ _ _ _ _ _ _ _) as [[[[[[[cc' c0a'] xa'] dead'] premat] ces] tes] xw].
  unfold cc_ns_raise. rnum. destruct (Rltb_spec cc_ns cc'); cbn; lra.
Qed.

Theorem cc_le_ns k s dap dcds gdd_cum dgdds gdd Dr_Rz Dr_Zt TAW_Rz TAW_Zt et0 gs s' :
  canopy_cover k s dap dcds gdd_cum dgdds gdd Dr_Rz Dr_Zt TAW_Rz TAW_Zt et0 gs = Some s' -> s_cc s' <= s_cc_ns s'.
Proof.
  unfold canopy_cover. destruct gs.
  - destruct (k_cal k =? 1)%Z; [|destruct (k_cal k =? 2)%Z; [|discriminate]]; intros [= <-]; apply cc_le_ns_gs.
  - intros [= <-]. cbn. rnum. lra.
Qed.

(* 4. outside the growing season: exactly what the code sets *)
Theorem off_season_zero k s dap dcds gdd_cum dgdds gdd Dr_Rz Dr_Zt TAW_Rz TAW_Zt et0 s' :
  canopy_cover k s dap dcds gdd_cum dgdds gdd Dr_Rz Dr_Zt TAW_Rz TAW_Zt et0 false = Some s' ->
  s_cc s' = 0 /\ s_cc_adj s' = 0 /\ s_cc_ns s' = 0 /\ s_cc_adj_ns s' = 0 /\
  s_ccx_w s' = 0 /\ s_ccx_act s' = 0 /\ s_ccx_w_ns s' = 0 /\ s_ccx_act_ns s' = 0 /\
  s_cc_prev s' = s_cc s /\
  s_cc0_adj s' = s_cc0_adj s /\ s_ccx_early_sen s' = s_ccx_early_sen s /\ s_t_early_sen s' = s_t_early_sen s /\
  s_protected_seed s' = s_protected_seed s /\ s_premat_senes s' = s_premat_senes s /\ s_crop_dead s' = s_crop_dead s.
Proof. unfold canopy_cover. intros [= <-]. cbn. repeat split; reflexivity. Qed.

Lemma off_season_defined k s dap dcds gdd_cum dgdds gdd Dr_Rz Dr_Zt TAW_Rz TAW_Zt et0 :
  exists s', canopy_cover k s dap dcds gdd_cum dgdds gdd Dr_Rz Dr_Zt TAW_Rz TAW_Zt et0 false = Some s'.
Proof. eexists. reflexivity. Qed.

Lemma canopy_cover_defined k s dap dcds gdd_cum dgdds gdd Dr_Rz Dr_Zt TAW_Rz TAW_Zt et0 gs :
  (k_cal k = 1 \/ k_cal k = 2)%Z ->
  exists s', canopy_cover k s dap dcds gdd_cum dgdds gdd Dr_Rz Dr_Zt TAW_Rz TAW_Zt et0 gs = Some s'.
Proof.
  intros H. unfold canopy_cover. destruct gs; [|eexists; reflexivity].
  destruct H as [-> | ->]; cbn; eexists; reflexivity.
Qed.

(* ------------------------------------------------------------------ induction over days *)
Record day_in := {
  d_dap : Z; d_dcds : Z; d_gdd_cum : R; d_dgdds : R; d_gdd : R;
  d_Dr_Rz : R; d_Dr_Zt : R; d_TAW_Rz : R; d_TAW_Zt : R; d_et0 : R; d_gs : bool }.

Definition day_call (k : @CropC R) (s : @CanopyS R) (d : day_in) : option (@CanopyS R) :=
  canopy_cover k s (d_dap d) (d_dcds d) (d_gdd_cum d) (d_dgdds d) (d_gdd d)
               (d_Dr_Rz d) (d_Dr_Zt d) (d_TAW_Rz d) (d_TAW_Zt d) (d_et0 d) (d_gs d).

(* the states after each day *)
Fixpoint run (k : @CropC R) (s : @CanopyS R) (ds : list day_in) : option (list (@CanopyS R)) :=
  match ds with
  | [] => Some []
  | d :: ds' => match day_call k s d with
                | None => None
                | Some s' => match run k s' ds' with None => None | Some l => Some (s' :: l) end
                end
  end.

(* in a growing season the canopy clock does not run backwards and every step satisfies the catalogue obligation;
   an off-season day resets the clock *)
Fixpoint days_ok (k : @CropC R) (t0 : R) (ds : list day_in) : Prop :=
  match ds with
  | [] => True
  | d :: ds' =>
    if d_gs d then
      let t := tcc_of k (d_dap d) (d_dcds d) (d_gdd_cum d) (d_dgdds d) in
      step_ok k (dt_of k (d_gdd d)) /\ t0 <= t /\ days_ok k t ds'
    else exists t1, days_ok k t1 ds'
  end.

Definition envelope (k : @CropC R) (s : @CanopyS R) : Prop :=
  0 <= s_cc s <= k_CCx k /\ s_cc s <= s_cc_ns s /\ s_cc_ns s <= k_CCx k.

Theorem canopy_inv_run k ds : crop_ok k -> forall t0 s l,
  canopy_inv k t0 s -> days_ok k t0 ds -> run k s ds = Some l -> Forall (envelope k) l.
Proof.
  intros Hk. induction ds as [|d ds IH]; intros t0 s l Hi Hd Hr; cbn in Hr.
  - injection Hr as <-. constructor.
  - destruct (day_call k s d) as [s'|] eqn:E; [|discriminate].
    destruct (run k s' ds) as [l'|] eqn:E'; [|discriminate]. injection Hr as <-.
    unfold day_call in E. cbn in Hd.
    assert (Hg : d_gs d = true -> step_ok k (dt_of k (d_gdd d)) /\ t0 <= tcc_of k (d_dap d) (d_dcds d) (d_gdd_cum d) (d_dgdds d)).
    { intros Hgs. rewrite Hgs in Hd. tauto. }
    pose proof (canopy_inv_step _ _ _ _ _ _ _ _ _ _ _ _ _ _ _ Hk Hi Hg E) as Hs.
    pose proof (cc_le_ns _ _ _ _ _ _ _ _ _ _ _ _ _ _ E) as Hle.
    destruct (d_gs d).
    + destruct Hd as [_ [_ Hd]]. constructor.
      * split; [exact (ci_cc _ _ _ Hs)|]. split; [exact Hle | exact (proj2 (ci_cc_ns _ _ _ Hs))].
      * exact (IH _ _ _ Hs Hd E').
    + destruct Hd as [t1 Hd]. constructor.
      * split; [exact (ci_cc _ _ _ (Hs 0))|]. split; [exact Hle | exact (proj2 (ci_cc_ns _ _ _ (Hs 0)))].
      * exact (IH _ _ _ (Hs t1) Hd E').
Qed.

(* ------------------------------------------------------------------ 5. definedness of the senescence formula *)
(* CCsen: divisors ccx_early_sen (guarded by 0.001), ccx_early_sen + 2.29, CDCadj*3.33/(..) and the logarithm argument *)
Lemma cc_sen_defined cc0 ces cdc : 1/1000 <= ces -> 0 < cdc -> 0 <= cc0 <= ces ->
  ces <> 0 /\ ces + 229/100 <> 0 /\ cdc * (333/100) / (ces + 229/100) <> 0 /\ 1 <= 1 + (1 - cc0 / ces) / (5/100).
Proof.
  intros Hc Hd Hcc. repeat split; try lra.
  - apply Rgt_not_eq. apply Rdiv_lt_0_compat; lra.
  - assert (0 <= cc0 / ces <= 1) by (apply frac_range; lra).
    assert (0 <= (1 - cc0 / ces) / (5/100)); [|lra].
    apply Rmult_le_pos; [lra | left; apply Rinv_0_lt_compat; lra].
Qed.

(* the adjusted decline coefficient of the stress branch is positive whenever Ksw.sen is in [0,1] *)
Lemma cdc_adj_pos sen cdc : 0 <= sen <= 1 -> 0 < cdc ->
  0 < (if Rltb (99999/100000) sen then 1/10000 else (1 - Rpow sen 8) * cdc).
Proof.
  intros Hs Hc. destruct (Rltb_spec (99999/100000) sen); [lra|].
  apply Rmult_lt_0_compat; [|exact Hc]. unfold Rpow.
  destruct (Req_EM_T sen 0); [destruct (Req_EM_T 8 0); lra|].
  assert (Rpower sen 8 < 1); [|lra].
  unfold Rpower. rewrite <- exp_0. apply exp_increasing.
  assert (ln sen < 0); [|nra]. rewrite <- ln_1. apply ln_increasing; lra.
Qed.

(* ------------------------------------------------------------------ refutations *)
Lemma clip01_nonneg p : 0 <= clip01 p.
Proof. unfold clip01, npmin, npmax. rnum. rcases; lra. Qed.

(* no depletion: the senescence coefficient is exactly 1 *)
Lemma ksw_sen_wet (k : @CropC R) b taw et0 : 0 < taw -> Ksw_Sen (ws_of k b 0 taw et0) = 1.
Proof.
  intros Ht. unfold ws_of, water_stress. cbv zeta. cbn [Ksw_Sen]. unfold ws_ks, ws_drel.
  match goal with |- context [(ws_threshold ?a ?b ?c ?d ?e * taw)%num] =>
    assert (Hc : 0 <= ws_threshold a b c d e) by (unfold ws_threshold; cbv zeta; apply clip01_nonneg);
    set (u := ws_threshold a b c d e) in * end.
  rnum. rewrite (Rleb_true 0 (u * taw)) by nra.
  rewrite Rmult_0_l, exp_0. unfold Rdiv. ring.
Qed.

(* ccx_act after a late-season rewatering (no depletion, early senescence running) *)
Lemma canopy_gs_rewater_ccx_act (k : @CropC R) (s : @CanopyS R) tcc dt taw et0 :
  0 < taw -> k_emergence k <= tcc -> k_senescence k < tcc -> 0 < s_t_early_sen s ->
  s_ccx_act (canopy_gs k s tcc dt 0 0 taw taw et0) = s_cc s / decl k (tcc - dt - k_senescence k).
Proof.
  intros Htaw He Hs Hes. unfold canopy_gs.
  assert (Hp : (if nleb num_ops (0 / taw)%num (0 / taw)%num then (0, taw) else (0, taw)) = (0, taw))
    by (destruct (nleb _ _ _); reflexivity).
  rewrite Hp. cbv beta iota zeta. rewrite ksw_sen_wet by exact Htaw.
  destruct (cc_potential _ _ _ _ _ _) as [[cc_ns xans] xwns].
  destruct (cc_actual _ _ _ _ _) as [[[[cc c0a] xa] prot] dead].
  unfold cc_senescence, cc_rewater_branch, update_CCx_CDC. rnum.
  rewrite (Rleb_true (k_emergence k) tcc), (Rltb_true 0 (s_t_early_sen s)), (Rltb_true (k_senescence k) tcc) by lra.
  rewrite orb_true_r. cbn [andb]. rewrite (Rltb_false 1 1) by lra. cbn [andb]. cbv beta iota zeta.
  destruct (death_check _ _ _) as [c2 dd]. destruct (cc_ns_raise _ _ _ _ _) as [a b]. cbn. reflexivity.
Qed.

Definition kw : @CropC R := {|
  k_cal := 1; k_emergence := 0; k_maturity := 100; k_canopy_dev_end := 10; k_senescence := 20;
  k_CC0 := 1/100; k_CCx := 1/2; k_CGC := 1/10; k_CDC := 1/100;
  k_pu0 := 1/4; k_pu1 := 1/2; k_pu2 := 1/2; k_pu3 := 3/4; k_pl0 := 3/4; k_pl1 := 1; k_pl2 := 1; k_pl3 := 1;
  k_etadj := 0; k_beta := 12; k_fs0 := 3; k_fs1 := 3; k_fs2 := 3 |}.

Definition sw : @CanopyS R := {|
  s_cc := 1/2; s_cc_prev := 1/2; s_cc_ns := 1/2; s_cc_adj := 0; s_cc_adj_ns := 0;
  s_ccx_act := 1/2; s_ccx_act_ns := 1/2; s_ccx_w := 1/2; s_ccx_w_ns := 1/2;
  s_cc0_adj := 1/100; s_ccx_early_sen := 1/2; s_t_early_sen := 1;
  s_protected_seed := false; s_premat_senes := true; s_crop_dead := false |}.

Lemma kw_ok : crop_ok kw.
Proof. constructor; cbn; lra. Qed.

Lemma exp_small_le_3 x : x <= 1 -> exp x <= 3.
Proof. intros H. apply Rle_trans with (exp 1); [apply exp_mono; exact H | exact exp_le_3]. Qed.

Lemma kw_step : step_ok kw 1.
Proof. split; [lra|]. cbn. pose proof (exp_small_le_3 (1/10 * 1) ltac:(lra)). lra. Qed.

Lemma sw_inv : canopy_inv kw 29 sw.
Proof. constructor; cbn; try lra. apply ccx_inv_le; [exact kw_ok | cbn; lra]. Qed.

(* The simple one-step invariant `ccx_act <= CCx` of DESIGN.md is NOT re-established by the rewatering site
   (update_CCx_CDC): from a state inside the envelope, with the canopy still at CCx on day 30 (10 days into the late
   season) and full rewatering, the code back-computes ccx_act = CC / decl(9) > CCx.  This is why [canopy_inv]
   carries the weaker, time-indexed [ccx_inv] instead. *)
Theorem ccx_act_le_refuted : exists (k : @CropC R) (s : @CanopyS R) t0 tcc dt taw et0,
  crop_ok k /\ step_ok k dt /\ canopy_inv k t0 s /\ s_ccx_act s <= k_CCx k /\ t0 <= tcc /\
  k_CCx k < s_ccx_act (canopy_gs k s tcc dt 0 0 taw taw et0).
Proof.
  exists kw, sw, 29, 30, 1, 100, 5.
  split; [exact kw_ok|]. split; [exact kw_step|]. split; [exact sw_inv|].
  split; [cbn; lra|]. split; [lra|].
  rewrite canopy_gs_rewater_ccx_act by (cbn; lra). cbn [kw sw s_cc k_CCx k_senescence].
  unfold decl. cbn [kw k_CDC k_CCx].
  set (x := (30 - 1 - 20) * (1 / 100 * (333 / 100) / (1 / 2 + 229 / 100))).
  assert (Hx : 0 < x <= 1) by (unfold x; split; [apply Rmult_lt_0_compat; [lra|apply Rdiv_lt_0_compat; lra]|];
                               apply (Rmult_le_reg_r (1 / 2 + 229 / 100)); [lra|]; field_simplify; lra).
  pose proof (exp_gt_1 x ltac:(lra)). pose proof (exp_small_le_3 x ltac:(lra)).
  set (d := 1 - 5 / 100 * (exp x - 1)). assert (Hd : 0 < d < 1) by (unfold d; lra).
  assert (1 < / d). { rewrite <- Rinv_1 at 1. apply Rinv_lt_contravar; lra. }
  unfold Rdiv. nra.
Qed.

(* the potential canopy of the result is at least the value computed by the "potential" block *)
Lemma canopy_gs_cc_ns_ge (k : @CropC R) (s : @CanopyS R) tcc dt Dr_Rz Dr_Zt TAW_Rz TAW_Zt et0 :
  fst (fst (cc_potential k tcc dt (s_cc_ns s) (s_ccx_act_ns s) (s_ccx_w_ns s)))
  <= s_cc_ns (canopy_gs k s tcc dt Dr_Rz Dr_Zt TAW_Rz TAW_Zt et0).
Proof.
  unfold canopy_gs.
  destruct (if nleb num_ops (Dr_Rz / TAW_Rz)%num (Dr_Zt / TAW_Zt)%num then (Dr_Rz, TAW_Rz) else (Dr_Zt, TAW_Zt)) as [Dr taw].
  destruct (cc_potential k tcc dt (s_cc_ns s) (s_ccx_act_ns s) (s_ccx_w_ns s)) as [[cc_ns xans] xwns].
  destruct (cc_actual _ _ _ _ _) as [[[[cc c0a] xa] prot] dead].
  destruct (cc_senescence _ _ _ _ _ _ _ _ _ _ _ _) as [[[[[[[cc' c0a'] xa'] dead'] premat] ces] tes] xw].
  unfold cc_ns_raise. rnum. destruct (Rltb_spec cc_ns cc'); cbn; lra.
Qed.

Definition kv : @CropC R := {|
  k_cal := 1; k_emergence := 0; k_maturity := 100; k_canopy_dev_end := 10; k_senescence := 20;
  k_CC0 := 1/2; k_CCx := 1/2; k_CGC := 1; k_CDC := 1/100;
  k_pu0 := 1/4; k_pu1 := 1/2; k_pu2 := 1/2; k_pu3 := 3/4; k_pl0 := 3/4; k_pl1 := 1; k_pl2 := 1; k_pl3 := 1;
  k_etadj := 0; k_beta := 12; k_fs0 := 3; k_fs1 := 3; k_fs2 := 3 |}.

Definition sv : @CanopyS R := {|
  s_cc := 0; s_cc_prev := 0; s_cc_ns := 0; s_cc_adj := 0; s_cc_adj_ns := 0;
  s_ccx_act := 0; s_ccx_act_ns := 0; s_ccx_w := 0; s_ccx_w_ns := 0;
  s_cc0_adj := 1/2; s_ccx_early_sen := 0; s_t_early_sen := 0;
  s_protected_seed := false; s_premat_senes := false; s_crop_dead := false |}.

(* Without the catalogue obligation [step_ok] (CC0 * exp(CGC*dt) <= CCx) the statement is false: the first-day
   formula  canopy_cover_ns = CC0 * exp(CGC * dtCC)  is not clamped at all; the witness even leaves [0, 1]. *)
Theorem cc_ns_step_refuted : exists (k : @CropC R) (s : @CanopyS R) t0 tcc dt Dr_Rz Dr_Zt TAW_Rz TAW_Zt et0,
  crop_ok k /\ 0 <= dt /\ canopy_inv k t0 s /\ t0 <= tcc /\
  1 < s_cc_ns (canopy_gs k s tcc dt Dr_Rz Dr_Zt TAW_Rz TAW_Zt et0).
Proof.
  exists kv, sv, 0, 1, 1, 0, 0, 100, 100, 5.
  split; [constructor; cbn; lra|]. split; [lra|].
  split; [constructor; cbn; try lra; apply ccx_inv_le; [constructor; cbn; lra | cbn; lra]|].
  split; [lra|].
  eapply Rlt_le_trans; [|apply canopy_gs_cc_ns_ge].
  unfold cc_potential, cc_outside. rnum. cbn [kv sv k_emergence k_maturity k_canopy_dev_end k_CC0 k_CGC s_cc_ns].
  rewrite (@Zrnd_IZR ZnearestE (valid_rnd_N _) 1).
  rewrite (Rltb_false 1 0), (Rltb_false 100 1), (Rltb_true 1 10), (Rleb_true 0 (1/2)) by lra.
  cbn. pose proof (exp_ineq1 (1 * 1) ltac:(lra)). lra.
Qed.

(* ------------------------------------------------------------------ the hypotheses are satisfiable *)
(* Maize (calendar mode), day 41 of the season in the growth phase, mild stress history *)
Definition kmz : @CropC R := {|
  k_cal := 1; k_emergence := 6; k_maturity := 132; k_canopy_dev_end := 72; k_senescence := 107;
  k_CC0 := 4875/1000000; k_CCx := 96/100; k_CGC := 16312/100000; k_CDC := 11691/100000;
  k_pu0 := 14/100; k_pu1 := 69/100; k_pu2 := 69/100; k_pu3 := 8/10; k_pl0 := 72/100; k_pl1 := 1; k_pl2 := 1; k_pl3 := 1;
  k_etadj := 1; k_beta := 12; k_fs0 := 29/10; k_fs1 := 6; k_fs2 := 27/10 |}.

Definition smz : @CanopyS R := {|
  s_cc := 62/100; s_cc_prev := 58/100; s_cc_ns := 71/100; s_cc_adj := 0; s_cc_adj_ns := 0;
  s_ccx_act := 62/100; s_ccx_act_ns := 71/100; s_ccx_w := 62/100; s_ccx_w_ns := 0;
  s_cc0_adj := 4875/1000000; s_ccx_early_sen := 0; s_t_early_sen := 0;
  s_protected_seed := false; s_premat_senes := false; s_crop_dead := false |}.

Lemma kmz_ok : crop_ok kmz. Proof. constructor; cbn; lra. Qed.
Lemma kmz_step : step_ok kmz (dt_of kmz 0).
Proof. split; cbn; [lra|]. pose proof (exp_small_le_3 (16312/100000 * 1) ltac:(lra)). lra. Qed.
Lemma smz_inv : canopy_inv kmz 40 smz.
Proof. constructor; cbn; try lra. apply ccx_inv_le; [exact kmz_ok | cbn; lra]. Qed.

Example canopy_inv_step_ex : exists s',
  canopy_cover kmz smz 41 0 0 0 0 30 12 110 40 5 true = Some s' /\
  canopy_inv kmz 41 s' /\ 0 <= s_cc s' <= 96/100 /\ s_cc s' <= s_cc_ns s' <= 96/100.
Proof.
  destruct (canopy_cover_defined kmz smz 41 0 0 0 0 30 12 110 40 5 true (or_introl eq_refl)) as [s' E].
  exists s'. split; [exact E|].
  assert (Hg : true = true -> step_ok kmz (dt_of kmz 0) /\ 40 <= tcc_of kmz 41 0 0 0).
  { intros _. split; [exact kmz_step | cbn; lra]. }
  pose proof (canopy_inv_step _ _ _ _ _ _ _ _ _ _ _ _ _ _ _ kmz_ok smz_inv Hg E) as H. cbn in H.
  pose proof (cc_le_ns _ _ _ _ _ _ _ _ _ _ _ _ _ _ E).
  pose proof (ci_cc _ _ _ H) as A. pose proof (ci_cc_ns _ _ _ H) as B. split; [exact H|]. cbn in A, B. lra.
Qed.

(* a three-day run: growing day, growing day, off-season day *)
Definition dx1 := {| d_dap := 41; d_dcds := 0; d_gdd_cum := 0; d_dgdds := 0; d_gdd := 0; d_Dr_Rz := 30; d_Dr_Zt := 12;
                     d_TAW_Rz := 110; d_TAW_Zt := 40; d_et0 := 5; d_gs := true |}.
Definition dx2 := {| d_dap := 42; d_dcds := 0; d_gdd_cum := 0; d_dgdds := 0; d_gdd := 0; d_Dr_Rz := 90; d_Dr_Zt := 38;
                     d_TAW_Rz := 110; d_TAW_Zt := 40; d_et0 := 7; d_gs := true |}.
Definition dx3 := {| d_dap := 43; d_dcds := 0; d_gdd_cum := 0; d_dgdds := 0; d_gdd := 0; d_Dr_Rz := 90; d_Dr_Zt := 38;
                     d_TAW_Rz := 110; d_TAW_Zt := 40; d_et0 := 7; d_gs := false |}.

Example canopy_inv_run_ex :
  days_ok kmz 40 [dx1; dx2; dx3] /\ exists l, run kmz smz [dx1; dx2; dx3] = Some l /\ Forall (envelope kmz) l.
Proof.
  assert (Hd : days_ok kmz 40 [dx1; dx2; dx3]).
  { pose proof (exp_small_le_3 (16312/100000 * 1) ltac:(lra)) as He.
    cbn. unfold step_ok, dt_of, tcc_of. cbn.
    split; [lra|]. split; [lra|]. split; [lra|]. split; [lra|]. exists 0. exact I. }
  split; [exact Hd|].
  assert (Hrun : exists l, run kmz smz [dx1; dx2; dx3] = Some l).
  { unfold run, day_call.
    destruct (canopy_cover_defined kmz smz (d_dap dx1) (d_dcds dx1) (d_gdd_cum dx1) (d_dgdds dx1) (d_gdd dx1) (d_Dr_Rz dx1) (d_Dr_Zt dx1)
                (d_TAW_Rz dx1) (d_TAW_Zt dx1) (d_et0 dx1) (d_gs dx1) (or_introl eq_refl)) as [s1 ->].
    destruct (canopy_cover_defined kmz s1 (d_dap dx2) (d_dcds dx2) (d_gdd_cum dx2) (d_dgdds dx2) (d_gdd dx2) (d_Dr_Rz dx2) (d_Dr_Zt dx2)
                (d_TAW_Rz dx2) (d_TAW_Zt dx2) (d_et0 dx2) (d_gs dx2) (or_introl eq_refl)) as [s2 ->].
    destruct (canopy_cover_defined kmz s2 (d_dap dx3) (d_dcds dx3) (d_gdd_cum dx3) (d_dgdds dx3) (d_gdd dx3) (d_Dr_Rz dx3) (d_Dr_Zt dx3)
                (d_TAW_Rz dx3) (d_TAW_Zt dx3) (d_et0 dx3) (d_gs dx3) (or_introl eq_refl)) as [s3 ->].
    eexists. reflexivity. }
  destruct Hrun as [l Hl]. exists l. split; [exact Hl|].
  exact (canopy_inv_run kmz _ kmz_ok 40 smz l smz_inv Hd Hl).
Qed.
