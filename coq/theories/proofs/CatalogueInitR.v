(* CatalogueInitR.v — catalogue obligation for the harvest-index search of initialisation: for EVERY crop of the catalogue
   regenerated from /repo, with the catalogue's own reference harvest index, initial harvest index and calendar-day length of
   yield formation, `calculate_HIGC` terminates (the fuel-bounded model returns a value) — the loop of the Python code
   `while HIest <= 0.98 * HI0` is left after finitely many steps.  (For thermal-time crops the length of yield formation
   used at run time is derived from the weather; the theorem then needs 1 <= that length, which is what CropInitR
   .calculate_HIGC_defined_domain states.)  What makes the loop run forever is characterised in CropInitR.higc_diverges_*. *)
From Coq Require Import Reals QArith Qreals List Bool Lra.
From AC Require Import Num RInst.
From AC.gen Require Import CropCatalogue.
From AC.Init Require Import CropInit.
From AC.proofs Require Import CatalogueR CropInitR.
Import ListNotations.
Local Open Scope R_scope.

Definition higc_okb (r : CropRow) : bool :=
  Qltb 0 (c_HIini r) && Qltb (c_HIini r) (c_HI0 r) && Qleb (c_HI0 r) (20000 * c_HIini r)%Q.

Lemma catalogue_higc_okb : forallb higc_okb crop_catalogue = true.
Proof. vm_compute. reflexivity. Qed.

(* for every catalogue crop and EVERY length of yield formation of at least one day *)
Theorem catalogue_higc_terminates r tHI : In r crop_catalogue -> 1 <= tHI ->
  exists g, calculate_HIGC tHI (Q2R (c_HI0 r)) (Q2R (c_HIini r)) = Some g /\ 0 <= g.
Proof.
  intros Hr Ht. pose proof (proj1 (forallb_forall _ _) catalogue_higc_okb r Hr) as H.
  unfold higc_okb in H. apply andb_true_iff in H. destruct H as [H H2]. apply andb_true_iff in H. destruct H as [H0 H1].
  apply Qleb_R in H2. rewrite Q2R_mult in H2. apply Qltb_R in H1. apply Qltb_R in H0. rewrite Q2R_0 in H0.
  assert (E : Q2R 20000 = 20000) by (unfold Q2R; simpl; lra). rewrite E in H2.
  assert (D : calculate_HIGC tHI (Q2R (c_HI0 r)) (Q2R (c_HIini r)) = Some (grid (higc_exit tHI (Q2R (c_HI0 r)) (Q2R (c_HIini r)))))
    by (apply calculate_HIGC_defined_domain; [split; assumption | assumption | assumption]).
  eexists. split; [exact D|]. eapply higc_nonneg. exact D.
Qed.

(* the calendar-day crops of the catalogue state a yield-formation length of at least one day themselves; the rows that
   do not (length 0) are thermal-time crops, whose length is derived from the weather at initialisation *)
Definition yldform_okb (r : CropRow) : bool := Qleb 1 (c_YldFormCD r) || Qeq_bool (c_CalendarType r) 2.
Lemma catalogue_yldform_okb : forallb yldform_okb crop_catalogue = true.
Proof. vm_compute. reflexivity. Qed.
Theorem catalogue_calendar_higc_terminates r : In r crop_catalogue -> Qeq_bool (c_CalendarType r) 2 = false ->
  exists g, calculate_HIGC (Q2R (c_YldFormCD r)) (Q2R (c_HI0 r)) (Q2R (c_HIini r)) = Some g /\ 0 <= g.
Proof.
  intros Hr Hc. pose proof (proj1 (forallb_forall _ _) catalogue_yldform_okb r Hr) as H. unfold yldform_okb in H.
  rewrite Hc, orb_false_r in H. apply Qleb_R in H. rewrite Q2R_1 in H. apply catalogue_higc_terminates; assumption.
Qed.

Print Assumptions catalogue_higc_terminates.
Print Assumptions catalogue_calendar_higc_terminates.
