(* CatalogueR.v — obligations over the crop catalogue regenerated from /repo on every run
   (gen/CropCatalogue.v).  A boolean checker over exact rationals is evaluated on the whole
   table by vm_compute; its soundness lemma transfers each row's facts to the reals. *)
From Coq Require Import QArith Qround Qreals Reals Lra Lia List Bool String.
From AC Require Import Num RInst Kernels.
From AC.gen Require Import CropCatalogue.
From AC.proofs Require Import KernelsR.
Import ListNotations.
Local Open Scope R_scope.

Definition Qleb (a b : Q) : bool := Qle_bool a b.
Definition Qltb (a b : Q) : bool := negb (Qle_bool b a).
Definition Qneqb (a b : Q) : bool := negb (Qeq_bool a b).
Definition Qmem (a : Q) (l : list Q) : bool := existsb (Qeq_bool a) l.

Lemma Qleb_R a b : Qleb a b = true -> Q2R a <= Q2R b.
Proof. unfold Qleb. intros H. apply Qle_Rle. apply Qle_bool_iff. exact H. Qed.
Lemma Qltb_R a b : Qltb a b = true -> Q2R a < Q2R b.
Proof.
  unfold Qltb. intros H. apply Qlt_Rlt. apply Qnot_le_lt. intros C.
  apply Qle_bool_iff in C. rewrite C in H. discriminate.
Qed.
Lemma Qneqb_R a b : Qneqb a b = true -> Q2R a <> Q2R b.
Proof.
  unfold Qneqb. intros H C. apply eqR_Qeq in C. apply Qeq_bool_iff in C. rewrite C in H. discriminate.
Qed.
Lemma Qmem_In a l : Qmem a l = true -> exists b, In b l /\ (a == b)%Q.
Proof.
  unfold Qmem. intros H. apply existsb_exists in H. destruct H as [b [Hb E]].
  exists b. split; [exact Hb | apply Qeq_bool_iff; exact E].
Qed.

(* integer-valued flag of a row as a Z (floor of the rational; flags are checked to be integral) *)
Definition Qflag (q : Q) : Z := Qfloor q.
Definition Qintb (q : Q) : bool := Qeq_bool q (inject_Z (Qfloor q)).

Definition row_CC0 (r : CropRow) : Q := (c_PlantPop r * c_SeedSize r * (Qmake 1 100000000))%Q.
Definition row_B (r : CropRow) : Q := (c_bsted r * c_fsink r + c_bface r * (1 - c_fsink r))%Q.

(* ---- what C17 needs from a catalogue row ------------------------------------------- *)
Definition crop_ok17b (r : CropRow) : bool :=
  Qneqb (c_fshape_w1 r) 0 && Qneqb (c_fshape_w2 r) 0 && Qneqb (c_fshape_w3 r) 0 &&
  Qleb (c_Tbase r) (c_Tupp r) &&
  Qintb (c_GDDmethod r) && (Z.leb 1 (Qflag (c_GDDmethod r)) && Z.leb (Qflag (c_GDDmethod r)) 3) &&
  Qintb (c_PolHeatStress r) && (Z.leb 0 (Qflag (c_PolHeatStress r)) && Z.leb (Qflag (c_PolHeatStress r)) 1) &&
  Qintb (c_PolColdStress r) && (Z.leb 0 (Qflag (c_PolColdStress r)) && Z.leb (Qflag (c_PolColdStress r)) 1) &&
  Qleb 0 (c_fshape_b r) &&
  Qltb 0 (row_CC0 r) && Qltb (row_CC0 r) (c_CCx r) && Qleb (c_CCx r) 1 &&
  (* fco2_params_ok *)
  Qltb 0 co2_ref && Qltb co2_ref 550 && Qleb 0 (c_bsted r) && Qleb 0 (c_fsink r) && Qleb (c_fsink r) 1 &&
  Qleb (c_bsted r) (row_B r) && Qltb (co2_ref * c_bsted r) 1 &&
  Qleb ((row_B r - c_bsted r) * (550 + co2_ref)) (1 - co2_ref * c_bsted r).

Record crop_ok17 (r : CropRow) : Prop := {
  ok_fs1 : Q2R (c_fshape_w1 r) <> 0; ok_fs2 : Q2R (c_fshape_w2 r) <> 0; ok_fs3 : Q2R (c_fshape_w3 r) <> 0;
  ok_T : Q2R (c_Tbase r) <= Q2R (c_Tupp r);
  ok_gdd : gdd_ok (Qflag (c_GDDmethod r));
  ok_heat : (Qflag (c_PolHeatStress r) = 0 \/ Qflag (c_PolHeatStress r) = 1)%Z;
  ok_cold : (Qflag (c_PolColdStress r) = 0 \/ Qflag (c_PolColdStress r) = 1)%Z;
  ok_fb : 0 <= Q2R (c_fshape_b r);
  ok_cc0 : 0 < Q2R (row_CC0 r) < Q2R (c_CCx r);
  ok_ccx : Q2R (c_CCx r) <= 1;
  ok_fco2 : fco2_params_ok (Q2R co2_ref) (Q2R (c_bsted r)) (Q2R (c_bface r)) (Q2R (c_fsink r)) }.

Lemma Q2R_0 : Q2R 0 = 0. Proof. unfold Q2R; simpl; lra. Qed.
Lemma Q2R_1 : Q2R 1 = 1. Proof. unfold Q2R; simpl; lra. Qed.
Lemma Q2R_550 : Q2R 550 = 550. Proof. unfold Q2R; simpl; lra. Qed.

Ltac split_ands := repeat match goal with H : _ /\ _ |- _ => destruct H end.
Ltac q2r_hyps :=
  repeat match goal with
  | H : Qleb _ _ = true |- _ => apply Qleb_R in H
  | H : Qltb _ _ = true |- _ => apply Qltb_R in H
  | H : Qneqb _ _ = true |- _ => apply Qneqb_R in H
  | H : Z.leb _ _ = true |- _ => apply Z.leb_le in H
  end;
  repeat first [rewrite Q2R_minus in * | rewrite Q2R_mult in * | rewrite Q2R_plus in * | rewrite Q2R_0 in * | rewrite Q2R_1 in * | rewrite Q2R_550 in *].

Lemma crop_ok17b_sound r : crop_ok17b r = true -> crop_ok17 r.
Proof.
  unfold crop_ok17b. rewrite !andb_true_iff. intros H. split_ands. unfold row_B in *. q2r_hyps.
  constructor; try assumption; try lra; try (unfold gdd_ok; lia).
  constructor; lra.
Qed.

Lemma crop_catalogue_ok17 : forallb crop_ok17b crop_catalogue = true.
Proof. vm_compute. reflexivity. Qed.

Lemma catalogue_row_ok17 r : In r crop_catalogue -> crop_ok17 r.
Proof. intros H. apply crop_ok17b_sound. exact (proj1 (forallb_forall _ _) crop_catalogue_ok17 r H). Qed.

Lemma crop_catalogue_length : length crop_catalogue = crop_count.
Proof. vm_compute. reflexivity. Qed.
