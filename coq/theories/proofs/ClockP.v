(* ClockP.v — lemmas about the run loop of Clock.v, for EVERY choice of the physics
   (proc, dead, matured, summary_of, reset are section variables).  Z / list / bool only; axiom-free. *)
From Coq Require Import ZArith List Bool Lia Sorted.
From AC Require Import Clock.
Import ListNotations.
Local Open Scope Z_scope.

Section ClockProofs.
  Variable Phys W Row Out : Type.
  Variable proc : Z -> bool -> Z -> Z -> W -> Phys -> Phys * Row.
  Variable dead : Phys -> bool.
  Variable matured : Z -> Z -> Phys -> bool.
  Variable summary_of : Z -> bool -> Phys -> Out.
  Variable reset : Z -> list W -> Phys -> Phys.

  Notation St := (St Phys).
  Notation Model := (Model Phys Row Out).
  Notation day_step := (day_step Phys W Row Out proc dead matured summary_of).
  Notation update_time := (update_time Phys W reset).
  Notation perform := (perform Phys W Row Out proc dead matured summary_of reset).
  Notation run_steps := (run_steps Phys W Row Out proc dead matured summary_of reset).
  Notation run_till := (run_till Phys W Row Out proc dead matured summary_of reset).
  Notation in_season := (in_season Phys dead).
  Notation check_finished := (check_finished Phys).

  (* ---------------------------------------------------------------------------------- *)
  (* well-formed season list: planting and harvest offsets, one harvest strictly after its planting date and
     not after the next planting date; every planting date is a step of the window that has a successor step *)
  Record wf_clock (c : ClockP) : Prop := {
    wf_len : length (harv c) = length (plant c);
    wf_plant_harv : forall k p h, nthZ (plant c) k = Some p -> nthZ (harv c) k = Some h -> p < h;
    wf_harv_next : forall k h p', nthZ (harv c) k = Some h -> nthZ (plant c) (k + 1) = Some p' -> h <= p';
    wf_window : forall k p, nthZ (plant c) k = Some p -> 0 <= p /\ p + 1 < n_steps c }.

  Lemma nthZ_some_iff (l : list Z) k : 0 <= k < Z.of_nat (length l) -> exists x, nthZ l k = Some x.
  Proof.
    intros H. unfold nthZ. destruct (k <? 0) eqn:E; [lia|].
    destruct (nth_error l (Z.to_nat k)) eqn:E2; [eauto|].
    apply nth_error_None in E2. lia.
  Qed.
  Lemma nthZ_range (l : list Z) k x : nthZ l k = Some x -> 0 <= k < Z.of_nat (length l).
  Proof.
    unfold nthZ. destruct (k <? 0) eqn:E; [discriminate|]. intros H.
    assert (Z.to_nat k < length l)%nat by (apply nth_error_Some; congruence). lia.
  Qed.

  (* invariant of the clock state at the start of a step *)
  Record clock_inv (c : ClockP) (s : St) : Prop := {
    ci_tsc : 0 <= tsc s;
    ci_season : -1 <= season s < n_seasons c;
    ci_before : season s = -1 -> forall p, nthZ (plant c) 0 = Some p -> tsc s < p;
    ci_planted : forall p, nthZ (plant c) (season s) = Some p -> p <= tsc s;
    ci_harv : hflag s = false -> forall h, nthZ (harv c) (season s) = Some h -> tsc s < h;
    ci_next : forall p', nthZ (plant c) (season s + 1) = Some p' -> tsc s < p';
    ci_end : tsc s + 1 <= n_steps c - 1 }.

  (* ---- day_step facts --------------------------------------------------------------- *)
  Lemma day_step_clock c w s s' r sr : day_step c w s = (s', r, sr) ->
    tsc s' = tsc s /\ season s' = season s /\ fin s' = fin s /\ fst r = tsc s /\
    dap s' = (if in_season c s then dap s + 1 else 0) /\
    (hflag s = true -> hflag s' = true /\ sr = None) /\
    (sr <> None <-> (hflag s = false /\ hflag s' = true)) /\
    (forall x, sr = Some x -> s_season x = season s /\ s_step x = tsc s /\ s_date x = tsc s + 1).
  Proof.
    unfold Clock.day_step. destruct (proc _ _ _ _ _ _) as [ph row]. intros H.
    injection H as <- <- <-. cbn.
    set (e := (-1 <? season s) && (_ || _ || _)).
    repeat split; try reflexivity.
    - rewrite H, andb_false_r. reflexivity.
    - rewrite H, andb_false_r. reflexivity.
    - destruct (hflag s); [rewrite andb_false_r in *; congruence | reflexivity].
    - destruct (hflag s) eqn:E; [rewrite andb_false_r in *; congruence|].
      rewrite andb_true_r in *. destruct e; [reflexivity|congruence].
    - intros [E1 E2]. rewrite E1 in *. rewrite andb_true_r in *. destruct e; congruence.
    - destruct (e && negb (hflag s)); inversion H; reflexivity.
    - destruct (e && negb (hflag s)); inversion H; reflexivity.
    - destruct (e && negb (hflag s)); inversion H; reflexivity.
  Qed.

  (* the harvest flag is raised on the step whose end is the harvest date (if not raised before) *)
  Lemma day_step_harvest_date c w s s' r sr h : day_step c w s = (s', r, sr) ->
    0 <= season s -> nthZ (harv c) (season s) = Some h -> h = tsc s + 1 -> hflag s' = true.
  Proof.
    unfold Clock.day_step. destruct (proc _ _ _ _ _ _) as [ph row]. intros H Hs Hh ->.
    injection H as <- <- <-. cbn. rewrite Hh. rewrite Z.eqb_refl.
    replace (-1 <? season s) with true by (symmetry; apply Z.ltb_lt; lia).
    rewrite !orb_true_r. cbn. destruct (hflag s); reflexivity.
  Qed.

  (* maturity ends the season: once mature, the next step is not in season *)
  Lemma mature_not_in_season c s : mature s = true -> in_season c s = false.
  Proof.
    intros H. unfold Clock.in_season. destruct (0 <=? season s); [|reflexivity].
    destruct (nthZ (plant c) (season s)); [|reflexivity]. destruct (nthZ (harv c) (season s)); [|reflexivity].
    rewrite H. cbn. rewrite !andb_false_r. reflexivity.
  Qed.

  (* the harvest ends the season: once the summary row of a season is written, no later day of it is in season *)
  Lemma hflag_not_in_season c s : hflag s = true -> in_season c s = false.
  Proof.
    intros H. unfold Clock.in_season. destruct (0 <=? season s); [|reflexivity].
    destruct (nthZ (plant c) (season s)); [|reflexivity]. destruct (nthZ (harv c) (season s)); [|reflexivity].
    rewrite H. cbn. rewrite !andb_false_r. reflexivity.
  Qed.

  Lemma day_step_mature c w s s' r sr : day_step c w s = (s', r, sr) ->
    mature s' = true -> (0 <= season s -> hflag s' = true) /\ in_season c s' = false.
  Proof.
    intros H Hm. split; [|apply mature_not_in_season; assumption].
    revert H Hm. unfold Clock.day_step. destruct (proc _ _ _ _ _ _) as [ph row]. intros H.
    injection H as <- <- <-. cbn. intros Hm Hs. rewrite Hm. cbn.
    replace (-1 <? season s) with true by (symmetry; apply Z.ltb_lt; lia). cbn.
    destruct (hflag s); reflexivity.
  Qed.

  (* ---- update_time facts ------------------------------------------------------------ *)
  Definition set_fin (s : St) (b : bool) : St :=
    {| phys := phys s; tsc := tsc s; season := season s; dap := dap s; mature := mature s; hflag := hflag s; fin := b |}.

  Lemma perform_unfold c ws m : perform c ws m =
    match nthW W ws (tsc (st m)) with
    | None => Raise IndexError
    | Some w =>
      let '(s1, row, sr) := day_step c w (st m) in
      match update_time c ws (set_fin s1 (check_finished c s1)) with
      | Raise e => Raise e
      | Ok s3 => Ok {| st := s3; tabs := {| rows := row :: rows (tabs m);
                         sums := match sr with Some r => r :: sums (tabs m) | None => sums (tabs m) end |} |}
      end
    end.
  Proof. unfold Clock.perform. destruct (nthW W ws _); [|reflexivity]. destruct (day_step c w (st m)) as [[s1 row] sr]. reflexivity. Qed.

  Lemma inv_new_season c (s' : St) p' : wf_clock c ->
    -1 <= season s' - 1 -> season s' < n_seasons c -> nthZ (plant c) (season s') = Some p' ->
    tsc s' = p' -> clock_inv c s'.
  Proof.
    intros Hwf Hk Hn Ep Ht. destruct (wf_window c Hwf _ _ Ep) as [Hp0 Hp1].
    assert (exists h, nthZ (harv c) (season s') = Some h) as [h Eh]
      by (apply nthZ_some_iff; rewrite (wf_len c Hwf); apply nthZ_range in Ep; exact Ep).
    pose proof (wf_plant_harv c Hwf _ _ _ Ep Eh) as Hph.
    constructor.
    - lia.
    - lia.
    - intros; lia.
    - intros p Hp. rewrite Ep in Hp. injection Hp as <-. lia.
    - intros _ h' Hh'. rewrite Eh in Hh'. injection Hh' as <-. lia.
    - intros p2 Hp2. pose proof (wf_harv_next c Hwf _ _ _ Eh Hp2). lia.
    - lia.
  Qed.

  Lemma inv_next_day c (s s' : St) : clock_inv c s ->
    (hflag s = false -> forall h, nthZ (harv c) (season s) = Some h -> tsc s + 1 < h) ->
    (forall p', nthZ (plant c) (season s + 1) = Some p' -> p' <> tsc s + 1) ->
    tsc s + 1 < n_steps c - 1 ->
    tsc s' = tsc s + 1 -> season s' = season s -> hflag s' = hflag s -> clock_inv c s'.
  Proof.
    intros [I1 I2 I3 I4 I5 I6 I7] Hh Hne Hend Ht Hs Hf. constructor; rewrite ?Ht, ?Hs, ?Hf.
    - lia.
    - exact I2.
    - intros E p Hp. rewrite E in *. cbn in Hne, I6. pose proof (I6 _ Hp). pose proof (Hne _ Hp). lia.
    - intros p Hp. pose proof (I4 _ Hp). lia.
    - exact Hh.
    - intros p Hp. pose proof (I6 _ Hp). pose proof (Hne _ Hp). lia.
    - lia.
  Qed.

  (* one step from a state satisfying the invariant: time moves strictly forward unless the run has finished,
     by exactly one day when the off-season is simulated or no harvest happened, to the next planting date otherwise *)
  Lemma update_time_inv c ws s : wf_clock c -> clock_inv c s ->
    (hflag s = false -> forall h, nthZ (harv c) (season s) = Some h -> tsc s + 1 < h) ->
    fin s = check_finished c s ->
    exists s', update_time c ws s = Ok s' /\
    (fin s = true -> s' = s) /\
    (fin s = false -> clock_inv c s' /\ tsc s < tsc s' /\ fin s' = false /\
       ((off_season c = true \/ hflag s = false) -> tsc s' = tsc s + 1) /\
       ((off_season c = false /\ hflag s = true) -> nthZ (plant c) (season s + 1) = Some (tsc s') /\ season s' = season s + 1) /\
       ((season s' = season s /\ hflag s' = hflag s /\ dap s' = dap s /\ mature s' = mature s /\ phys s' = phys s) \/ (season s' = season s + 1 /\ nthZ (plant c) (season s') = Some (tsc s') /\
                                 dap s' = 0 /\ mature s' = false /\ hflag s' = false))).
  Proof.
    intros Hwf Hi Hh Hfin. unfold Clock.update_time.
    destruct (fin s) eqn:Ef; [exists s; split; [reflexivity|]; split; [reflexivity|discriminate]|].
    assert (Hnf : tsc s + 1 < n_steps c - 1 /\ (hflag s && (season s =? n_seasons c - 1) = false)).
    { symmetry in Hfin. unfold Clock.check_finished in Hfin.
      destruct (hflag s && (season s =? n_seasons c - 1)); [discriminate|].
      split; [|reflexivity]. apply negb_false_iff, Z.ltb_lt in Hfin. exact Hfin. }
    destruct Hnf as [Hn Hlast]. pose proof Hi as [I1 I2 I3 I4 I5 I6 I7].
    destruct (hflag s && negb (off_season c)) eqn:Ej.
    - (* jump to the next planting date *)
      apply andb_true_iff in Ej as [Eh Eo]. apply negb_true_iff in Eo.
      rewrite Eh in Hlast. cbn in Hlast. apply Z.eqb_neq in Hlast.
      replace (season s <? n_seasons c - 1) with true by (symmetry; apply Z.ltb_lt; lia).
      assert (exists p', nthZ (plant c) (season s + 1) = Some p') as [p' Ep]
        by (apply nthZ_some_iff; unfold Clock.n_seasons in *; lia).
      rewrite Ep. destruct (wf_window c Hwf _ _ Ep) as [Hp0 Hp1].
      replace ((0 <=? p') && (p' <? n_steps c)) with true
        by (symmetry; apply andb_true_iff; split; [apply Z.leb_le|apply Z.ltb_lt]; lia).
      replace (p' + 1 <? n_steps c) with true by (symmetry; apply Z.ltb_lt; lia).
      eexists; split; [reflexivity|]. split; [discriminate|]. intros _.
      pose proof (I6 _ Ep) as Hlt.
      split; [apply (inv_new_season c _ p' Hwf); unfold Clock.start_season; cbn; try lia; try assumption; try reflexivity|].
      unfold Clock.start_season; cbn. split; [lia|]. split; [first [assumption|reflexivity]|]. split; [intros [Ho|Hf]; congruence|].
      split; [intros _; split; [first [exact Ep|reflexivity]|reflexivity]|].
      right. repeat split; try reflexivity. exact Ep.
    - (* one day forward *)
      replace (tsc s + 1 + 1 <? n_steps c) with true by (symmetry; apply Z.ltb_lt; lia).
      assert (Hcase : off_season c = true \/ hflag s = false).
      { apply andb_false_iff in Ej as [E|E]; [right; exact E|left; apply negb_false_iff; exact E]. }
      destruct (season s <? n_seasons c - 1) eqn:El.
      + apply Z.ltb_lt in El.
        assert (exists p', nthZ (plant c) (season s + 1) = Some p') as [p' Ep]
          by (apply nthZ_some_iff; unfold Clock.n_seasons in *; lia).
        rewrite Ep. pose proof (I6 _ Ep) as Hlt.
        destruct (p' =? tsc s + 1) eqn:Epl.
        * apply Z.eqb_eq in Epl. eexists; split; [reflexivity|]. split; [discriminate|]. intros _.
          split; [apply (inv_new_season c _ p' Hwf); unfold Clock.start_season; cbn; try lia; try assumption; try reflexivity|].
          unfold Clock.start_season; cbn. split; [lia|]. split; [first [assumption|reflexivity]|]. split; [intros _; reflexivity|].
          split; [intros [Ho Hf]; destruct Hcase; congruence|].
          right. repeat split; try reflexivity. rewrite Ep, Epl. reflexivity.
        * apply Z.eqb_neq in Epl. eexists; split; [reflexivity|]. split; [discriminate|]. intros _.
          split; [apply (inv_next_day c s _ Hi Hh); cbn; try reflexivity; try exact Hn;
                  intros p2 Hp2; rewrite Ep in Hp2; injection Hp2 as <-; exact Epl|].
          unfold Clock.start_season; cbn. split; [lia|]. split; [first [assumption|reflexivity]|]. split; [intros _; reflexivity|].
          split; [intros [Ho Hf]; destruct Hcase; congruence|]. left; repeat split; reflexivity.
      + apply Z.ltb_ge in El. eexists; split; [reflexivity|]. split; [discriminate|]. intros _.
        split; [apply (inv_next_day c s _ Hi Hh); cbn; try reflexivity; try exact Hn;
                intros p2 Hp2; apply nthZ_range in Hp2; unfold Clock.n_seasons in *; lia|].
        unfold Clock.start_season; cbn. split; [lia|]. split; [first [assumption|reflexivity]|]. split; [intros _; reflexivity|].
        split; [intros [Ho Hf]; destruct Hcase; congruence|]. left; repeat split; reflexivity.
  Qed.

  (* ---- perform: one public step ------------------------------------------------------ *)
  Definition minv (c : ClockP) (m : Model) : Prop := clock_inv c (st m) /\ fin (st m) = false.

  Lemma clock_inv_transfer c (s s' : St) : clock_inv c s -> tsc s' = tsc s -> season s' = season s ->
    (hflag s' = false -> hflag s = false) -> clock_inv c s'.
  Proof.
    intros [I1 I2 I3 I4 I5 I6 I7] Ht Hs Hf. constructor; rewrite ?Ht, ?Hs; try assumption.
    intros E. apply I5, Hf, E.
  Qed.

  Lemma perform_inv c ws m m' : wf_clock c -> minv c m -> perform c ws m = Ok m' ->
    exists w s1 row sr, nthW W ws (tsc (st m)) = Some w /\ day_step c w (st m) = (s1, row, sr) /\
      rows (tabs m') = row :: rows (tabs m) /\ fst row = tsc (st m) /\
      sums (tabs m') = match sr with Some r => r :: sums (tabs m) | None => sums (tabs m) end /\
      (fin (st m') = true -> st m' = set_fin s1 true /\
           (hflag s1 && (season s1 =? n_seasons c - 1) = true \/ tsc (st m) + 1 = n_steps c - 1)) /\
      (fin (st m') = false -> minv c m' /\ tsc (st m) < tsc (st m') /\
           ((off_season c = true \/ hflag s1 = false) -> tsc (st m') = tsc (st m) + 1) /\
           ((off_season c = false /\ hflag s1 = true) ->
              nthZ (plant c) (season (st m) + 1) = Some (tsc (st m')) /\ season (st m') = season (st m) + 1) /\
           ((season (st m') = season s1 /\ hflag (st m') = hflag s1 /\ dap (st m') = dap s1 /\ mature (st m') = mature s1 /\ phys (st m') = phys s1) \/
            (season (st m') = season s1 + 1 /\ nthZ (plant c) (season (st m')) = Some (tsc (st m')) /\
             dap (st m') = 0 /\ mature (st m') = false /\ hflag (st m') = false))).
  Proof.
    intros Hwf [Hi Hnf]. rewrite perform_unfold. destruct (nthW W ws (tsc (st m))) as [w|] eqn:Ew; [|discriminate].
    destruct (day_step c w (st m)) as [[s1 row] sr] eqn:Ed.
    destruct (update_time c ws (set_fin s1 (check_finished c s1))) as [s3|e] eqn:Eu; [|discriminate].
    intros H; injection H as <-. cbn [st tabs rows sums].
    exists w, s1, row, sr.
    destruct (day_step_clock c w _ _ _ _ Ed) as (T1 & T2 & T3 & T4 & T5 & T6 & T7 & T8).
    assert (Hi1 : clock_inv c (set_fin s1 (check_finished c s1))).
    { apply (clock_inv_transfer c (st m)); cbn; try assumption.
      intros E. destruct (hflag (st m)) eqn:E0; [|reflexivity]. destruct (T6 eq_refl); congruence. }
    assert (Hh1 : hflag (set_fin s1 (check_finished c s1)) = false ->
                  forall h, nthZ (harv c) (season (set_fin s1 (check_finished c s1))) = Some h ->
                            tsc (set_fin s1 (check_finished c s1)) + 1 < h).
    { cbn. intros E h Hh. rewrite T2 in Hh. rewrite T1.
      assert (hflag (st m) = false) by (destruct (hflag (st m)) eqn:E0; [destruct (T6 eq_refl); congruence|reflexivity]).
      pose proof (ci_harv c _ Hi H h Hh).
      destruct (Z.eq_dec h (tsc (st m) + 1)) as [->|Hne]; [|lia].
      apply nthZ_range in Hh as Hr.
      rewrite (day_step_harvest_date c w _ _ _ _ _ Ed (proj1 Hr) Hh eq_refl) in E. discriminate. }
    destruct (update_time_inv c ws _ Hwf Hi1 Hh1 eq_refl) as (s3' & Eu' & U1 & U2). rewrite Eu' in Eu. injection Eu as ->.
    split; [first [reflexivity|assumption]|]. split; [first [reflexivity|assumption]|]. split; [reflexivity|]. split; [exact T4|]. split; [reflexivity|].
    destruct (check_finished c s1) eqn:Ec.
    - cbn in U1. specialize (U1 eq_refl). subst s3. cbn. split; [|discriminate]. intros _. split; [reflexivity|].
      unfold Clock.check_finished in Ec. destruct (hflag s1 && (season s1 =? n_seasons c - 1)); [left; reflexivity|].
      right. apply negb_true_iff, Z.ltb_ge in Ec. pose proof (ci_end c _ Hi). lia.
    - cbn in U2. destruct (U2 eq_refl) as (V1 & V2 & V3 & V4 & V5 & V6). split; [congruence|]. intros _.
      split; [split; assumption|]. split; [lia|]. split; [|split].
      + intros X. rewrite (V4 X). lia.
      + intros X. destruct (V5 X) as [F1 F2]. rewrite <- T2. split; assumption.
      + exact V6.
  Qed.


  (* under the invariant a step cannot raise as long as the weather table covers the window *)
  Definition weather_covers (c : ClockP) (ws : list W) : Prop := forall t, 0 <= t < n_steps c -> nthW W ws t <> None.

  Lemma perform_ok c ws m : wf_clock c -> minv c m -> weather_covers c ws -> exists m', perform c ws m = Ok m'.
  Proof.
    intros Hwf [Hi Hnf] Hw. rewrite perform_unfold.
    pose proof (ci_tsc c _ Hi). pose proof (ci_end c _ Hi).
    destruct (nthW W ws (tsc (st m))) as [w|] eqn:Ew; [|exfalso; apply (Hw (tsc (st m))); [lia|exact Ew]].
    destruct (day_step c w (st m)) as [[s1 row] sr] eqn:Ed.
    destruct (day_step_clock c w _ _ _ _ Ed) as (T1 & T2 & T3 & T4 & T5 & T6 & T7 & T8).
    assert (Hi1 : clock_inv c (set_fin s1 (check_finished c s1))).
    { apply (clock_inv_transfer c (st m)); cbn; try assumption.
      intros E. destruct (hflag (st m)) eqn:E0; [|reflexivity]. destruct (T6 eq_refl); congruence. }
    assert (Hh1 : hflag (set_fin s1 (check_finished c s1)) = false ->
                  forall h, nthZ (harv c) (season (set_fin s1 (check_finished c s1))) = Some h ->
                            tsc (set_fin s1 (check_finished c s1)) + 1 < h).
    { cbn. intros E h Hh. rewrite T2 in Hh. rewrite T1.
      assert (hflag (st m) = false) by (destruct (hflag (st m)) eqn:E0; [destruct (T6 eq_refl); congruence|reflexivity]).
      pose proof (ci_harv c _ Hi H1 h Hh).
      destruct (Z.eq_dec h (tsc (st m) + 1)) as [->|Hne]; [|lia].
      apply nthZ_range in Hh as Hr.
      rewrite (day_step_harvest_date c w _ _ _ _ _ Ed (proj1 Hr) Hh eq_refl) in E. discriminate. }
    destruct (update_time_inv c ws _ Hwf Hi1 Hh1 eq_refl) as (s3 & Eu & _). rewrite Eu. eexists; reflexivity.
  Qed.

  (* ---- C09: any partition of the run into calls ---------------------------------------- *)
  Lemma run_steps_add c ws a b m : fin (st m) = false ->
    run_steps c ws (a + b) m =
    match run_steps c ws a m with Raise e => Raise e | Ok m' => if fin (st m') then Ok m' else run_steps c ws b m' end.
  Proof.
    revert m. induction a as [|a IH]; intros m Hf.
    - cbn. rewrite Hf. reflexivity.
    - cbn. destruct (perform c ws m) as [m1|e]; [|reflexivity].
      destruct (fin (st m1)) eqn:E1; [rewrite E1; reflexivity|]. apply IH, E1.
  Qed.

  (* a user advancing the model by calls run_model(num_steps = k_i, initialize_model = False) until it reports finished *)
  Fixpoint run_calls (c : ClockP) (ws : list W) (ks : list nat) (m : Model) : res Model :=
    match ks with
    | [] => Ok m
    | k :: r => if fin (st m) then Ok m
                else match run_steps c ws k m with Raise e => Raise e | Ok m' => run_calls c ws r m' end
    end.

  Lemma run_calls_finished c ws ks m : fin (st m) = true -> run_calls c ws ks m = Ok m.
  Proof. intros H. destruct ks; cbn; [reflexivity|rewrite H; reflexivity]. Qed.

  Lemma run_calls_sum c ws ks : forall m m', fin (st m) = false -> run_calls c ws ks m = Ok m' -> fin (st m') = true ->
    run_steps c ws (fold_right Nat.add 0%nat ks) m = Ok m'.
  Proof.
    induction ks as [|k r IH]; intros m m' Hf Hr Hf'.
    - cbn in Hr. injection Hr as <-. congruence.
    - cbn [fold_right]. rewrite (run_steps_add c ws k _ m Hf). cbn in Hr. rewrite Hf in Hr.
      destruct (run_steps c ws k m) as [m1|e]; [|discriminate].
      destruct (fin (st m1)) eqn:E1.
      + rewrite (run_calls_finished c ws r m1 E1) in Hr. exact Hr.
      + apply IH; assumption.
  Qed.

  Lemma run_till_of_steps c ws n : forall m m' fuel, fin (st m) = false -> run_steps c ws n m = Ok m' ->
    fin (st m') = true -> (n <= fuel)%nat -> run_till c ws fuel m = Some (Ok m').
  Proof.
    induction n as [|n IH]; intros m m' fuel Hf Hr Hf' Hle.
    - cbn in Hr. injection Hr as <-. congruence.
    - destruct fuel as [|fuel]; [lia|]. cbn in *. rewrite Hf.
      destruct (perform c ws m) as [m1|e]; [|discriminate].
      destruct (fin (st m1)) eqn:E1.
      + injection Hr as <-. destruct fuel; cbn; rewrite E1; reflexivity.
      + apply (IH m1 m' fuel E1 Hr Hf'). lia.
  Qed.

  Lemma run_till_fuel_irrelevant c ws : forall f1 f2 m r1 r2,
    run_till c ws f1 m = Some r1 -> run_till c ws f2 m = Some r2 -> r1 = r2.
  Proof.
    induction f1 as [|f1 IH]; intros f2 m r1 r2 H1 H2.
    - cbn in H1. destruct (fin (st m)) eqn:E; [|discriminate]. destruct f2; cbn in H2; rewrite E in H2; congruence.
    - cbn in H1. destruct (fin (st m)) eqn:E.
      + destruct f2; cbn in H2; rewrite E in H2; congruence.
      + destruct f2; cbn in H2; rewrite E in H2; [discriminate|].
        destruct (perform c ws m) as [m1|e]; [|congruence]. eapply IH; eassumption.
  Qed.

  (* C09: every sequence of run calls that ends with the model finished yields exactly the model that one
     uninterrupted run to termination yields (tables, summary, state, flags) *)
  Theorem partition_eq c ws ks m m' fuel r : fin (st m) = false ->
    run_calls c ws ks m = Ok m' -> fin (st m') = true -> run_till c ws fuel m = Some r -> r = Ok m'.
  Proof.
    intros Hf Hc Hf' Hr.
    pose proof (run_calls_sum c ws ks m m' Hf Hc Hf') as Hs.
    pose proof (run_till_of_steps c ws _ m m' _ Hf Hs Hf' (Nat.le_refl _)) as Ht.
    apply (run_till_fuel_irrelevant c ws _ _ _ _ _ Hr Ht).
  Qed.

  (* a step count that overshoots the end stops at termination *)
  Theorem overshoot_stops c ws n extra m m' : fin (st m) = false -> run_steps c ws n m = Ok m' -> fin (st m') = true ->
    run_steps c ws (n + extra) m = Ok m'.
  Proof. intros Hf Hr Hf'. rewrite (run_steps_add c ws n extra m Hf), Hr, Hf'. reflexivity. Qed.

  (* until the finishing step the model reports itself unfinished: [fin] is false in every intermediate state *)
  Lemma run_steps_unfinished_prefix c ws n : forall m m', run_steps c ws n m = Ok m' -> fin (st m') = false ->
    forall k, (k <= n)%nat -> exists mk, run_steps c ws k m = Ok mk /\ (k < n -> fin (st mk) = false \/ k = 0)%nat.
  Proof.
    induction n as [|n IH]; intros m m' Hr Hf k Hk.
    - assert (k = 0)%nat by lia. subst. exists m. split; [reflexivity|lia].
    - destruct k as [|k]; [exists m; split; [reflexivity|auto]|].
      cbn in Hr |- *. destruct (perform c ws m) as [m1|e]; [|discriminate].
      destruct (fin (st m1)) eqn:E1; [injection Hr as <-; congruence|].
      destruct (IH m1 m' Hr Hf k ltac:(lia)) as (mk & Hk1 & Hk2). exists mk. split; [exact Hk1|].
      intros Hlt. destruct k; [left; cbn in Hk1; injection Hk1 as <-; exact E1|]. destruct (Hk2 ltac:(lia)); [left; assumption|lia].
  Qed.

  (* ---- C07: chronology, termination ------------------------------------------------------ *)
  Definition row_bound (m : Model) : Z := if fin (st m) then tsc (st m) + 1 else tsc (st m).
  Definition rows_inv (m : Model) : Prop :=
    StronglySorted Z.gt (map fst (rows (tabs m))) /\ Forall (fun r => 0 <= fst r < row_bound m) (rows (tabs m)).

  Lemma perform_rows_inv c ws m m' : wf_clock c -> minv c m -> rows_inv m -> perform c ws m = Ok m' -> rows_inv m'.
  Proof.
    intros Hwf Hm [Hs Hb] Hp. pose proof (ci_tsc c _ (proj1 Hm)) as H0.
    destruct (perform_inv c ws m m' Hwf Hm Hp) as (w & s1 & row & sr & _ & Hd & Hr & Hi & _ & Hfin & Hnf).
    unfold rows_inv, row_bound in *. rewrite (proj2 Hm) in Hb. rewrite Hr. cbn [map].
    assert (Hlt : tsc (st m) < (if fin (st m') then tsc (st m') + 1 else tsc (st m')) /\ tsc (st m) <= tsc (st m')).
    { destruct (fin (st m')) eqn:E.
      - destruct (Hfin eq_refl) as [-> _]. cbn. destruct (day_step_clock c w _ _ _ _ Hd) as (T1 & _). lia.
      - destruct (Hnf eq_refl) as (_ & L & _). lia. }
    split.
    - constructor; [exact Hs|]. rewrite Forall_map. rewrite Hi. eapply Forall_impl; [|exact Hb]. cbn. intros; lia.
    - constructor; [rewrite Hi; lia|]. eapply Forall_impl; [|exact Hb]. cbn. intros a Ha. destruct (fin (st m')); lia.
  Qed.

  (* every run prefix: rows carry the step index at which they were written, strictly increasing in time
     (each calendar day at most once, in chronological order); no day is skipped when the off-season is simulated *)
  Theorem run_steps_chronological c ws n : forall m m', wf_clock c -> minv c m -> rows_inv m ->
    run_steps c ws n m = Ok m' -> rows_inv m' /\ tsc (st m) <= tsc (st m') /\ (fin (st m') = false -> minv c m').
  Proof.
    induction n as [|n IH]; intros m m' Hwf Hm Hr Hs.
    - cbn in Hs. injection Hs as <-. split; [exact Hr|]. split; [lia|]. intros _; exact Hm.
    - cbn in Hs. destruct (perform c ws m) as [m1|e] eqn:Ep; [|discriminate].
      pose proof (perform_rows_inv c ws m m1 Hwf Hm Hr Ep) as Hr1.
      destruct (perform_inv c ws m m1 Hwf Hm Ep) as (w & s1 & row & sr & _ & Hd & _ & _ & _ & Hfin & Hnf).
      destruct (fin (st m1)) eqn:E1.
      + injection Hs as <-. split; [exact Hr1|]. split; [|congruence].
        destruct (Hfin eq_refl) as [-> _]. cbn. destruct (day_step_clock c w _ _ _ _ Hd) as (T1 & _). lia.
      + destruct (Hnf eq_refl) as (Hm1 & L & _).
        destruct (IH m1 m' Hwf Hm1 Hr1 Hs) as (A & B & C). split; [exact A|]. split; [lia|exact C].
  Qed.

  (* the run always terminates, without raising, within n_steps - tsc steps; it ends at the last season's harvest
     or on the day before the end date *)
  Theorem run_till_terminates c ws : wf_clock c -> weather_covers c ws -> forall fuel m, minv c m ->
    (Z.to_nat (n_steps c - 1 - tsc (st m)) <= fuel)%nat ->
    exists m', run_till c ws fuel m = Some (Ok m') /\ fin (st m') = true /\
      ((hflag (st m') = true /\ season (st m') = n_seasons c - 1) \/ tsc (st m') + 1 = n_steps c - 1).
  Proof.
    intros Hwf Hw. induction fuel as [|fuel IH]; intros m Hm Hle.
    - pose proof (ci_end c _ (proj1 Hm)). lia.
    - cbn. rewrite (proj2 Hm). destruct (perform_ok c ws m Hwf Hm Hw) as [m1 Ep]. rewrite Ep.
      destruct (perform_inv c ws m m1 Hwf Hm Ep) as (w & s1 & row & sr & _ & Hd & _ & _ & _ & Hfin & Hnf).
      destruct (fin (st m1)) eqn:E1.
      + exists m1. split; [destruct fuel; cbn; rewrite E1; reflexivity|]. split; [exact E1|].
        destruct (Hfin eq_refl) as [Es Hc]. rewrite Es. cbn.
        destruct (day_step_clock c w _ _ _ _ Hd) as (T1 & T2 & _).
        destruct Hc as [Hc|Hc]; [left|right; lia].
        apply andb_true_iff in Hc as [Hc1 Hc2]. apply Z.eqb_eq in Hc2. split; assumption.
      + destruct (Hnf eq_refl) as (Hm1 & L & _). apply IH; [exact Hm1|].
        pose proof (ci_end c _ (proj1 Hm1)). lia.
  Qed.

  (* ---- C06: one summary row per harvested season, in season order ---------------------------- *)
  Definition sums_inv (m : Model) : Prop :=
    StronglySorted Z.gt (map s_season (sums (tabs m))) /\
    Forall (fun r => 0 <= s_season r <= season (st m) /\ s_date r = s_step r + 1) (sums (tabs m)) /\
    (hflag (st m) = false -> Forall (fun r => s_season r < season (st m)) (sums (tabs m))) /\
    (hflag (st m) = true -> exists r, In r (sums (tabs m)) /\ s_season r = season (st m)).

  Lemma day_step_hflag_season c w (s s1 : St) row sr : day_step c w s = (s1, row, sr) -> hflag s1 = true -> hflag s = false -> 0 <= season s.
  Proof.
    unfold Clock.day_step. destruct (proc _ _ _ _ _ _) as [ph r]. intros H. injection H as <- <- <-. cbn.
    intros H1 H2. rewrite H2 in H1. destruct (-1 <? season s) eqn:E; [apply Z.ltb_lt in E; lia|]. cbn in H1. discriminate.
  Qed.

  Lemma perform_sums_inv c ws m m' : wf_clock c -> minv c m -> sums_inv m -> perform c ws m = Ok m' -> sums_inv m'.
  Proof.
    intros Hwf Hm (S1 & S2 & S3 & S4) Hp.
    destruct (perform_inv c ws m m' Hwf Hm Hp) as (w & s1 & row & sr & _ & Hd & _ & _ & Hsum & Hfin & Hnf).
    destruct (day_step_clock c w _ _ _ _ Hd) as (T1 & T2 & T3 & T4 & T5 & T6 & T7 & T8).
    (* the summary list after the day, relative to s1 *)
    assert (A : StronglySorted Z.gt (map s_season (sums (tabs m'))) /\
                Forall (fun r => 0 <= s_season r <= season s1 /\ s_date r = s_step r + 1) (sums (tabs m')) /\
                (hflag s1 = false -> Forall (fun r => s_season r < season s1) (sums (tabs m'))) /\
                (hflag s1 = true -> exists r, In r (sums (tabs m')) /\ s_season r = season s1)).
    { rewrite Hsum, T2. destruct sr as [x|].
      - destruct (T8 x eq_refl) as (X1 & X2 & X3).
        assert (Hf0 : hflag (st m) = false /\ hflag s1 = true) by (apply T7; discriminate). destruct Hf0 as [Hf0 Hf1].
        pose proof (day_step_hflag_season c w _ _ _ _ Hd Hf1 Hf0) as Hs0.
        split; [|split; [|split]].
        + cbn [map]. constructor; [exact S1|]. rewrite Forall_map. eapply Forall_impl; [|exact (S3 Hf0)]. cbn; intros; lia.
        + constructor; [split; lia|exact S2].
        + congruence.
        + intros _. exists x. split; [left; reflexivity|exact X1].
      - assert (Hsame : hflag s1 = hflag (st m)).
        { destruct (hflag (st m)) eqn:E0; [apply T6; reflexivity|]. destruct (hflag s1) eqn:E1; [|reflexivity].
          exfalso. assert (@None (SumRow Out) <> None) by (apply T7; split; reflexivity). congruence. }
        rewrite Hsame. repeat split; assumption. }
    destruct A as (A1 & A2 & A3 & A4).
    destruct (fin (st m')) eqn:E.
    - destruct (Hfin eq_refl) as [Es _]. unfold sums_inv. rewrite Es. cbn. repeat split; assumption.
    - destruct (Hnf eq_refl) as (Hm1 & L & K1 & K2 & K3). unfold sums_inv.
      destruct K3 as [(Q1 & Q2 & _)|(Q1 & _ & _ & _ & Q2)]; rewrite Q1, Q2.
      + repeat split; assumption.
      + split; [exact A1|]. split; [eapply Forall_impl; [|exact A2]; cbn; intros; lia|]. split; [|discriminate].
        intros _. eapply Forall_impl; [|exact A2]; cbn; intros; lia.
  Qed.

  Theorem run_steps_summary c ws n : forall m m', wf_clock c -> minv c m -> sums_inv m ->
    run_steps c ws n m = Ok m' -> sums_inv m'.
  Proof.
    induction n as [|n IH]; intros m m' Hwf Hm Hs Hr.
    - cbn in Hr. injection Hr as <-. exact Hs.
    - cbn in Hr. destruct (perform c ws m) as [m1|e] eqn:Ep; [|discriminate].
      pose proof (perform_sums_inv c ws m m1 Hwf Hm Hs Ep) as Hs1.
      destruct (fin (st m1)) eqn:E1; [injection Hr as <-; exact Hs1|].
      destruct (perform_inv c ws m m1 Hwf Hm Ep) as (w & s1 & row & sr & _ & _ & _ & _ & _ & _ & Hnf).
      destruct (Hnf E1) as (Hm1 & _). apply (IH m1 m' Hwf Hm1 Hs1 Hr).
  Qed.

  (* every summary row was written on the step it names, from the physical state of that very day *)
  Lemma perform_summary_row c ws m m' : perform c ws m = Ok m' ->
    sums (tabs m') = sums (tabs m) \/
    exists w r, nthW W ws (tsc (st m)) = Some w /\ sums (tabs m') = r :: sums (tabs m) /\
      s_season r = season (st m) /\ s_step r = tsc (st m) /\ s_date r = tsc (st m) + 1 /\
      let gs := in_season c (st m) in
      let dap' := if gs then dap (st m) + 1 else 0 in
      s_out r = summary_of (season (st m)) gs (fst (proc (season (st m)) gs dap' (tsc (st m)) w (phys (st m)))) /\
      exists row, rows (tabs m') = (tsc (st m), row) :: rows (tabs m) /\
                  row = snd (proc (season (st m)) gs dap' (tsc (st m)) w (phys (st m))).
  Proof.
    unfold Clock.perform. destruct (nthW W ws (tsc (st m))) as [w|]; [|discriminate].
    unfold Clock.day_step. destruct (proc _ _ _ _ _ _) as [ph row] eqn:Epr.
    set (e := ((-1 <? season (st m)) && _ && _)). destruct e.
    - destruct (update_time _ _ _); [|discriminate]. intros H; injection H as <-. right. cbn.
      exists w. eexists. split; [reflexivity|]. split; [reflexivity|]. cbn. rewrite Epr. cbn. repeat split.
      exists row. split; reflexivity.
    - destruct (update_time _ _ _); [|discriminate]. intros H; injection H as <-. left. reflexivity.
  Qed.


  (* ---- C14: no look-ahead ----------------------------------------------------------------- *)
  Definition agree_before (t : Z) (ws ws' : list W) : Prop := forall i, i < t -> nthW W ws i = nthW W ws' i.
  (* crops with a calendar-day calendar: the season reset does not read the weather table *)
  Definition reset_weather_free : Prop := forall k ws ws' p, reset k ws p = reset k ws' p.
  Definition rows_before (t : Z) (m : Model) := filter (fun r : Z * Row => fst r <? t) (rows (tabs m)).
  Definition sums_before (t : Z) (m : Model) := filter (fun r : SumRow Out => s_step r <? t) (sums (tabs m)).

  Lemma update_time_weather_free c ws ws' s : reset_weather_free -> update_time c ws s = update_time c ws' s.
  Proof.
    intros Hr. unfold Clock.update_time, Clock.start_season.
    destruct (fin s); [reflexivity|]. destruct (hflag s && negb (off_season c)).
    - destruct (season s <? n_seasons c - 1); [|reflexivity]. destruct (nthZ (plant c) (season s + 1)); [|reflexivity].
      rewrite (Hr _ ws ws'). reflexivity.
    - destruct (tsc s + 1 + 1 <? n_steps c); [|reflexivity]. destruct (season s <? n_seasons c - 1); [|reflexivity].
      destruct (nthZ (plant c) (season s + 1)); [|reflexivity]. cbn. rewrite (Hr _ ws ws'). reflexivity.
  Qed.

  Lemma perform_agree c ws ws' t m : agree_before t ws ws' -> reset_weather_free -> tsc (st m) < t ->
    perform c ws m = perform c ws' m.
  Proof.
    intros Ha Hr Ht. unfold Clock.perform. rewrite (Ha _ Ht). destruct (nthW W ws' (tsc (st m))); [|reflexivity].
    destruct (day_step c w (st m)) as [[s1 row] sr]. rewrite (update_time_weather_free c ws ws' _ Hr). reflexivity.
  Qed.

  Lemma run_steps_late c ws t n : forall m a, wf_clock c -> minv c m -> t <= tsc (st m) -> run_steps c ws n m = Ok a ->
    rows_before t a = rows_before t m /\ sums_before t a = sums_before t m.
  Proof.
    induction n as [|n IH]; intros m a Hwf Hm Ht Hr.
    - cbn in Hr. injection Hr as <-. split; reflexivity.
    - cbn in Hr. destruct (perform c ws m) as [m1|e] eqn:Ep; [|discriminate].
      destruct (perform_inv c ws m m1 Hwf Hm Ep) as (w & s1 & row & sr & _ & Hd & Hrows & Hi & Hsum & _ & Hnf).
      destruct (day_step_clock c w _ _ _ _ Hd) as (_ & _ & _ & _ & _ & _ & _ & T8).
      assert (H1 : rows_before t m1 = rows_before t m /\ sums_before t m1 = sums_before t m).
      { unfold rows_before, sums_before. rewrite Hrows, Hsum. cbn [filter].
        replace (fst row <? t) with false by (symmetry; apply Z.ltb_ge; lia). split; [reflexivity|].
        destruct sr as [x|]; [|reflexivity]. destruct (T8 x eq_refl) as (_ & X2 & _). cbn [filter].
        replace (s_step x <? t) with false by (symmetry; apply Z.ltb_ge; lia). reflexivity. }
      destruct (fin (st m1)) eqn:E1; [injection Hr as Hr'; rewrite <- Hr'; exact H1|].
      destruct (Hnf eq_refl) as (Hm1 & L & _).
      destruct (IH m1 a Hwf Hm1 ltac:(lia) Hr) as [A B]. destruct H1 as [C D]. split; congruence.
  Qed.

  (* changing the weather on day t or later never changes a row (or summary row) of a step before t *)
  Theorem prefix_causal c ws ws' t n : wf_clock c -> agree_before t ws ws' -> reset_weather_free ->
    forall m a b, minv c m -> run_steps c ws n m = Ok a -> run_steps c ws' n m = Ok b ->
      rows_before t a = rows_before t b /\ sums_before t a = sums_before t b.
  Proof.
    intros Hwf Ha Hrf. induction n as [|n IH]; intros m a b Hm H1 H2.
    - cbn in H1, H2. injection H1 as <-. injection H2 as <-. split; reflexivity.
    - destruct (Z_lt_ge_dec (tsc (st m)) t) as [Hlt|Hge].
      + cbn in H1, H2. rewrite <- (perform_agree c ws ws' t m Ha Hrf Hlt) in H2.
        destruct (perform c ws m) as [m1|e] eqn:Ep; [|discriminate].
        destruct (fin (st m1)) eqn:E1; [injection H1 as <-; injection H2 as <-; split; reflexivity|].
        destruct (perform_inv c ws m m1 Hwf Hm Ep) as (w0 & s10 & row0 & sr0 & _ & _ & _ & _ & _ & _ & Hnf).
        destruct (Hnf E1) as (Hm1 & _). apply (IH m1 a b Hm1 H1 H2).
      + destruct (run_steps_late c ws t _ m a Hwf Hm ltac:(lia) H1) as [A1 A2].
        destruct (run_steps_late c ws' t _ m b Hwf Hm ltac:(lia) H2) as [B1 B2]. split; congruence.
  Qed.

  (* the initial model satisfies the invariants *)
  Lemma init_model_inv c p0 m : wf_clock c -> 2 <= n_steps c -> plant c <> [] ->
    (forall p, nthZ (plant c) 0 = Some p -> 0 <= p) ->
    init_model Phys Row Out c p0 = Ok m -> minv c m /\ rows_inv m /\ sums_inv m.
  Proof.
    intros Hwf Hn Hne Hp0. unfold Clock.init_model. destruct (plant c) as [|p r] eqn:Epl; [congruence|].
    intros H; injection H as <-.
    assert (E0 : nthZ (plant c) 0 = Some p) by (rewrite Epl; reflexivity).
    assert (Hns : 1 <= n_seasons c) by (unfold Clock.n_seasons; rewrite Epl; cbn [length]; lia).
    destruct (wf_window c Hwf _ _ E0) as [W0 W1].
    split; [|split].
    - split; [|reflexivity]. cbn. destruct (p =? 0) eqn:E.
      + apply Z.eqb_eq in E. subst p. apply (inv_new_season c _ 0 Hwf); cbn; try lia; try assumption.
      + apply Z.eqb_neq in E. constructor; cbn [tsc season hflag]; try lia.
        * intros _ q Hq. rewrite E0 in Hq. injection Hq as <-. lia.
        * intros q Hq. apply nthZ_range in Hq. lia.
        * intros _ h Hh. apply nthZ_range in Hh. lia.
        * intros q Hq. replace (-1 + 1) with 0 in Hq by lia. rewrite E0 in Hq. injection Hq as <-. lia.
    - split; cbn; constructor.
    - unfold sums_inv. cbn. repeat split; try constructor. intros H; destruct (p =? 0); discriminate.
  Qed.
End ClockProofs.
