(* CropInitR.v — theorems about the cropinit unit (Init/CropInit.v) at the real instance.

   1. bounded loops: [while_pow step n = while_lin step (2^n)], orbits, first exit;
   2. calculate_HIGC: exact exit index, termination bound, specification, divergence (exact characterisation);
   3. calculate_HI_linear: totality, specification (end point HI0 at YldFormCD when tLinSwitch > 0), sign of dHILinear;
   4. connection with proofs/YieldR.v: the computed (HIGC, tLinSwitch, dHILinear) satisfy [hiref_crop_ok], so that
      [hi_ref_monotone] / [hi_ref_le_HI0] apply to the crop record the initialisation builds;
   5. examples (Maize, Wheat) and the assumptions. *)
From Coq Require Import Reals Lra Lia ZArith List Bool Psatz.
From Flocq Require Import Core.
From Interval Require Import Tactic.   (* used by the numerical Examples of section 5 only *)
From AC Require Import Num RInst Params Kernels.
From AC.Init Require Import Calendar CropInit.
From AC.Crop Require Import Yield.
From AC.proofs Require Import YieldR.
Local Open Scope R_scope.

(* ================================================================== 1. bounded loops *)
Section LoopFacts.
  Context {St Rs : Type}.
  Variable step : St -> St + Rs.

  Lemma while_lin_add a b s :
    while_lin step (a + b) s = match while_lin step a s with inl s' => while_lin step b s' | inr r => inr r end.
  Proof.
    revert s. induction a as [|a IH]; intros s; cbn [while_lin plus]; [reflexivity|].
    destruct (step s) as [s'|r]; [apply IH | reflexivity].
  Qed.

  Lemma while_pow_lin n s : while_pow step n s = while_lin step (2 ^ n) s.
  Proof.
    revert s. induction n as [|n IH]; intros s.
    - cbn. destruct (step s); reflexivity.
    - cbn [while_pow]. replace (2 ^ S n)%nat with (2 ^ n + 2 ^ n)%nat by (cbn; lia).
      rewrite while_lin_add, IH. destruct (while_lin step (2 ^ n) s); [apply IH | reflexivity].
  Qed.

  (* the states visited from [s0] (the orbit stays where the loop is left) *)
  Fixpoint orbit (s0 : St) (j : nat) : St :=
    match j with
    | O => s0
    | S j' => match step (orbit s0 j') with inl s' => s' | inr _ => orbit s0 j' end
    end.

  Definition goes (s : St) : Prop := exists s', step s = inl s'.

  Lemma goes_dec s : {goes s} + {exists r, step s = inr r}.
  Proof. unfold goes. destruct (step s) as [s'|r]; [left; eauto | right; eauto]. Qed.

  Lemma lin_run s0 k : (forall i, (i < k)%nat -> goes (orbit s0 i)) -> while_lin step k s0 = inl (orbit s0 k).
  Proof.
    induction k as [|k IH]; intros H; [reflexivity|].
    assert (A : while_lin step (k + 1) s0 = inl (orbit s0 (S k))).
    { rewrite while_lin_add, IH by (intros; apply H; lia).
      cbn [while_lin orbit]. destruct (H k ltac:(lia)) as [s' E]. rewrite E. reflexivity. }
    rewrite Nat.add_1_r in A. exact A.
  Qed.

  Lemma lin_exit s0 K k r : (forall i, (i < K)%nat -> goes (orbit s0 i)) -> step (orbit s0 K) = inr r -> (K < k)%nat ->
    while_lin step k s0 = inr r.
  Proof.
    intros H E Hk. replace k with (K + S (k - K - 1))%nat by lia.
    rewrite while_lin_add, lin_run by exact H. cbn [while_lin]. rewrite E. reflexivity.
  Qed.

  Lemma first_exit s0 k :
    (forall i, (i < k)%nat -> goes (orbit s0 i)) \/
    (exists K r, (K < k)%nat /\ (forall i, (i < K)%nat -> goes (orbit s0 i)) /\ step (orbit s0 K) = inr r).
  Proof.
    induction k as [|k [IH|[K [r [HK [H E]]]]]].
    - left; intros; lia.
    - destruct (goes_dec (orbit s0 k)) as [G|[r E]].
      + left. intros i Hi. destruct (Nat.eq_dec i k) as [->|]; [exact G | apply IH; lia].
      + right. exists k, r. repeat split; [lia | exact IH | exact E].
    - right. exists K, r. repeat split; [lia | exact H | exact E].
  Qed.

  Lemma lin_inr_inv s0 k r : while_lin step k s0 = inr r ->
    exists K, (K < k)%nat /\ (forall i, (i < K)%nat -> goes (orbit s0 i)) /\ step (orbit s0 K) = inr r.
  Proof.
    intros Hw. destruct (first_exit s0 k) as [H|[K [r' [HK [H E]]]]].
    - rewrite lin_run in Hw by exact H. discriminate.
    - rewrite (lin_exit s0 K k r' H E HK) in Hw. injection Hw as <-. exists K. auto.
  Qed.

  Lemma lin_inl_inv s0 k s : while_lin step k s0 = inl s -> (forall i, (i < k)%nat -> goes (orbit s0 i)) /\ s = orbit s0 k.
  Proof.
    intros Hw. destruct (first_exit s0 k) as [H|[K [r' [HK [H E]]]]].
    - rewrite lin_run in Hw by exact H. injection Hw as <-. auto.
    - rewrite (lin_exit s0 K k r' H E HK) in Hw. discriminate.
  Qed.
End LoopFacts.

(* ================================================================== 2. calculate_HIGC *)
Lemma hi_est_R HIini HI0 g t : hi_est HIini HI0 g t = HIini * HI0 / (HIini + (HI0 - HIini) * exp (- g * t)).
Proof. reflexivity. Qed.

Section HIGC.
  Variables tHI HI0 HIini : R.

  (* the k-th grid value 0.001 (k + 1) and the estimate the loop test sees before the (k+1)-th iteration *)
  Definition grid (j : nat) : R := 1 / 1000 + INR j * (1 / 1000).
  Definition gest (j : nat) : R := match j with O => 0 | S _ => hi_est HIini HI0 (grid j) tHI end.
  Definition gstate (j : nat) : R * R := (grid j, gest j).
  (* the value returned when the loop is left in state j *)
  Definition gfin (j : nat) : R := if Rleb HI0 (gest j) then grid j - 1 / 1000 else grid j.
  Notation c98 := (98 / 100 * HI0).
  Notation hstep := (higc_step tHI HI0 HIini).

  Lemma grid_S j : grid (S j) = grid j + 1 / 1000.
  Proof. unfold grid. rewrite S_INR. lra. Qed.

  Lemma grid_pos j : 0 < grid j.
  Proof. unfold grid. pose proof (pos_INR j). lra. Qed.

  Lemma step_go j : gest j <= c98 -> hstep (gstate j) = inl (gstate (S j)).
  Proof.
    intros H. unfold higc_step, gstate. rnum. rewrite (Rleb_true _ _ H).
    rewrite <- grid_S. reflexivity.
  Qed.

  Lemma step_stop j : c98 < gest j -> hstep (gstate j) = inr (gfin j).
  Proof. intros H. unfold higc_step, gstate, gfin. rnum. rewrite (Rleb_false _ _ H). reflexivity. Qed.

  Lemma orbit_gstate K : (forall i, (i < K)%nat -> goes hstep (orbit hstep higc_init i)) ->
    (forall i, (i < K)%nat -> gest i <= c98) /\ orbit hstep higc_init K = gstate K.
  Proof.
    induction K as [|K IH]; intros H.
    - split; [intros; lia|]. unfold higc_init, gstate, grid, gest. rnum. cbn [orbit INR]. f_equal. lra.
    - destruct IH as [IH1 IH2]; [intros; apply H; lia|].
      assert (HK : gest K <= c98).
      { destruct (Rle_dec (gest K) c98) as [L|L]; [exact L|exfalso].
        destruct (H K ltac:(lia)) as [s' E]. rewrite IH2, step_stop in E by lra. discriminate. }
      split.
      + intros i Hi. destruct (Nat.eq_dec i K) as [->|]; [exact HK | apply IH1; lia].
      + cbn [orbit]. rewrite IH2, step_go by exact HK. reflexivity.
  Qed.

  Lemma gest_goes K : (forall i, (i < K)%nat -> gest i <= c98) ->
    (forall i, (i < K)%nat -> goes hstep (orbit hstep higc_init i)) /\ orbit hstep higc_init K = gstate K.
  Proof.
    induction K as [|K IH]; intros H.
    - split; [intros; lia|]. apply orbit_gstate. intros; lia.
    - destruct IH as [IH1 IH2]; [intros; apply H; lia|].
      assert (G : goes hstep (orbit hstep higc_init K)).
      { rewrite IH2. exists (gstate (S K)). apply step_go. apply H. lia. }
      split.
      + intros i Hi. destruct (Nat.eq_dec i K) as [->|]; [exact G | apply IH1; lia].
      + cbn [orbit]. rewrite IH2, step_go by (apply H; lia). reflexivity.
  Qed.

  (* exact description of the search with a budget of k steps: it returns exactly when the first grid state whose
     estimate exceeds 0.98 HI0 has an index K < k, and then the value is [gfin K] *)
  Theorem higc_lin_some k g :
    higc_lin k tHI HI0 HIini = Some g <->
    exists K, (K < k)%nat /\ (forall i, (i < K)%nat -> gest i <= c98) /\ c98 < gest K /\ g = gfin K.
  Proof.
    unfold higc_lin. split.
    - intros H. destruct (while_lin hstep k higc_init) as [s|r] eqn:E; [discriminate|]. cbn in H. injection H as ->.
      apply lin_inr_inv in E. destruct E as [K [HK [Hg Es]]]. exists K.
      destruct (orbit_gstate K Hg) as [H1 H2]. rewrite H2 in Es.
      destruct (Rle_dec (gest K) c98) as [L|L].
      + rewrite step_go in Es by exact L. discriminate.
      + rewrite step_stop in Es by lra. injection Es as <-. repeat split; [exact HK | exact H1 | lra].
    - intros [K [HK [H1 [H2 ->]]]]. destruct (gest_goes K H1) as [G1 G2].
      rewrite (lin_exit hstep higc_init K k (gfin K) G1); [reflexivity | | exact HK].
      rewrite G2. apply step_stop. exact H2.
  Qed.

  Theorem higc_lin_none k : higc_lin k tHI HI0 HIini = None <-> (forall i, (i < k)%nat -> gest i <= c98).
  Proof.
    unfold higc_lin. split.
    - intros H. destruct (while_lin hstep k higc_init) as [s|r] eqn:E; [|discriminate].
      apply lin_inl_inv in E. destruct E as [Hg _]. apply (orbit_gstate k Hg).
    - intros H. destruct (gest_goes k H) as [G1 G2]. rewrite lin_run by exact G1. reflexivity.
  Qed.

  Lemma calculate_HIGC_lin : calculate_HIGC tHI HI0 HIini = higc_lin (2 ^ higc_bits) tHI HI0 HIini.
  Proof. unfold calculate_HIGC, higc_lin. rewrite while_pow_lin. reflexivity. Qed.
End HIGC.

(* ---- where the logistic estimate crosses 0.98 HI0 *)
Definition Lbound (HI0 HIini : R) : R := ln (49 * (HI0 - HIini) / HIini).

Lemma est_gt_iff tHI HI0 HIini g : 0 < HIini < HI0 ->
  (98 / 100 * HI0 < hi_est HIini HI0 g tHI <-> Lbound HI0 HIini < g * tHI).
Proof.
  intros [Hi H0]. rewrite hi_est_R. unfold Lbound.
  set (E := exp (- g * tHI)). assert (HE : 0 < E) by apply exp_pos.
  set (u := (HI0 - HIini) * E). assert (Hu : 0 < u) by (apply Rmult_lt_0_compat; lra).
  assert (HD : 0 < HIini + u) by lra.
  assert (S1 : 98 / 100 * HI0 < HIini * HI0 / (HIini + u) <-> 49 * u < HIini).
  { split; intros H.
    - apply (Rmult_lt_compat_r (HIini + u)) in H; [|exact HD].
      replace (HIini * HI0 / (HIini + u) * (HIini + u)) with (HIini * HI0) in H by (field; lra). nra.
    - apply (Rmult_lt_reg_r (HIini + u)); [exact HD|].
      replace (HIini * HI0 / (HIini + u) * (HIini + u)) with (HIini * HI0) by (field; lra). nra. }
  rewrite S1. clear S1.
  set (Q := 49 * (HI0 - HIini) / HIini). assert (HQ : 0 < Q) by (unfold Q; apply Rdiv_lt_0_compat; lra).
  assert (S2 : 49 * u < HIini <-> E < / Q).
  { assert (EQ : E * Q = 49 * u / HIini) by (unfold u, Q; field; lra).
    split; intros H.
    - apply (Rmult_lt_reg_r Q); [exact HQ|]. rewrite Rinv_l, EQ by lra.
      apply (Rmult_lt_reg_r HIini); [lra|]. replace (49 * u / HIini * HIini) with (49 * u) by (field; lra). lra.
    - apply (Rmult_lt_compat_r Q) in H; [|exact HQ]. rewrite Rinv_l, EQ in H by lra.
      apply (Rmult_lt_compat_r HIini) in H; [|lra]. replace (49 * u / HIini * HIini) with (49 * u) in H by (field; lra). lra. }
  rewrite S2. clear S2. unfold E.
  rewrite <- (exp_ln (/ Q)) by (apply Rinv_0_lt_compat; exact HQ). rewrite ln_Rinv by exact HQ.
  split; intros H.
  - apply exp_lt_inv in H. lra.
  - apply exp_increasing. lra.
Qed.

Lemma est_lt_HI0 tHI HI0 HIini g : 0 < HIini < HI0 -> hi_est HIini HI0 g tHI < HI0.
Proof.
  intros [Hi H0]. rewrite hi_est_R. pose proof (exp_pos (- g * tHI)) as HE.
  set (u := (HI0 - HIini) * exp (- g * tHI)). assert (Hu : 0 < u) by (apply Rmult_lt_0_compat; lra).
  apply (Rmult_lt_reg_r (HIini + u)); [lra|].
  replace (HIini * HI0 / (HIini + u) * (HIini + u)) with (HIini * HI0) by (field; lra). nra.
Qed.

(* the index of the grid state in which the loop is left: max(1, floor(1000 L / tHI)), L = ln(49 (HI0 - HIini) / HIini) *)
Definition higc_exit (tHI HI0 HIini : R) : nat := Z.to_nat (Z.max 1 (Zfloor (1000 * Lbound HI0 HIini / tHI))).

Lemma exit_index_facts x : let K := Z.to_nat (Z.max 1 (Zfloor x)) in
  (1 <= K)%nat /\ x < INR K + 1 /\ (forall i, (1 <= i)%nat -> (i < K)%nat -> INR i + 1 <= x).
Proof.
  intros K. set (z := Z.max 1 (Zfloor x)) in *. assert (Hz : (1 <= z)%Z) by (unfold z; lia).
  assert (HK : INR K = IZR z) by (unfold K; rewrite INR_IZR_INZ, Z2Nat.id by lia; reflexivity).
  pose proof (Zfloor_lb x) as Hl. pose proof (Zfloor_ub x) as Hu.
  repeat split.
  - unfold K. lia.
  - rewrite HK. assert (IZR (Zfloor x) <= IZR z) by (apply IZR_le; unfold z; lia). lra.
  - intros i Hi1 HiK. assert (Hiz : (Z.of_nat i + 1 <= z)%Z) by (unfold K in HiK; lia).
    assert (Hzf : z = Zfloor x) by (unfold z in *; lia).
    rewrite Hzf in Hiz. apply IZR_le in Hiz. rewrite plus_IZR, <- INR_IZR_INZ in Hiz. lra.
Qed.

(* Termination with the exact exit index and the exact value: over the reals the search returns 0.001 (K + 1),
   K = max(1, floor(1000 ln(49 (HI0 - HIini) / HIini) / tHI)), as soon as the budget exceeds K. *)
Theorem higc_terminates tHI HI0 HIini : 0 < HIini < HI0 -> 0 < tHI ->
  let K := higc_exit tHI HI0 HIini in
  (1 <= K)%nat /\ forall k, (K < k)%nat -> higc_lin k tHI HI0 HIini = Some (grid K).
Proof.
  intros Hi Ht K. set (x := 1000 * Lbound HI0 HIini / tHI).
  destruct (exit_index_facts x) as [K1 [K2 K3]]. fold x in K. change (Z.to_nat (Z.max 1 (Zfloor x))) with K in *.
  split; [exact K1|]. intros k Hk. apply higc_lin_some. exists K.
  assert (Hx : forall y, y <= x <-> y / 1000 * tHI <= Lbound HI0 HIini).
  { intros y. unfold x. split; intros H.
    - apply (Rmult_le_compat_r (tHI / 1000)) in H; [|lra].
      replace (1000 * Lbound HI0 HIini / tHI * (tHI / 1000)) with (Lbound HI0 HIini) in H by (field; lra). lra.
    - apply (Rmult_le_compat_r (1000 / tHI)) in H; [|apply Rlt_le, Rdiv_lt_0_compat; lra].
      replace (y / 1000 * tHI * (1000 / tHI)) with y in H by (field; lra).
      replace (Lbound HI0 HIini * (1000 / tHI)) with (1000 * Lbound HI0 HIini / tHI) in H by (field; lra). exact H. }
  assert (Hg : forall j, grid j = (INR j + 1) / 1000) by (intros; unfold grid; lra).
  repeat split; [exact Hk| | |].
  - intros i HiK. destruct i as [|i]; [cbn; lra|]. cbn [gest].
    destruct (Rle_dec (hi_est HIini HI0 (grid (S i)) tHI) (98 / 100 * HI0)) as [L|L]; [exact L|exfalso].
    apply Rnot_le_lt, est_gt_iff in L; [|exact Hi]. rewrite Hg in L.
    pose proof (K3 (S i) ltac:(lia) HiK) as H3. apply Hx in H3. lra.
  - destruct K as [|K']; [lia|]. cbn [gest]. apply est_gt_iff; [exact Hi|]. rewrite Hg.
    destruct (Rle_dec ((INR (S K') + 1) / 1000 * tHI) (Lbound HI0 HIini)) as [L|L]; [|lra].
    apply Hx in L. lra.
  - unfold gfin. destruct K as [|K']; [lia|]. cbn [gest]. rewrite Rleb_false; [reflexivity|]. apply est_lt_HI0. exact Hi.
Qed.

(* the model's search (2^20 steps) *)
Corollary calculate_HIGC_defined tHI HI0 HIini : 0 < HIini < HI0 -> 0 < tHI ->
  1000 * Lbound HI0 HIini / tHI < 1048576 ->
  calculate_HIGC tHI HI0 HIini = Some (grid (higc_exit tHI HI0 HIini)).
Proof.
  intros Hi Ht Hb. rewrite calculate_HIGC_lin. apply higc_terminates; [exact Hi | exact Ht|].
  unfold higc_exit, higc_bits. set (x := 1000 * Lbound HI0 HIini / tHI) in *.
  assert (Hz : (Zfloor x < 1048576)%Z). { apply lt_IZR. pose proof (Zfloor_lb x). lra. }
  apply Nat2Z.inj_lt. rewrite Nat2Z.inj_pow, Z2Nat.id by lia.
  change (Z.of_nat 2 ^ Z.of_nat 20)%Z with 1048576%Z. lia.
Qed.

(* Specification, no hypothesis: the returned value is the first grid value 0.001 (K + 1) whose estimate exceeds
   0.98 HI0, minus one step when that estimate reaches HI0 (K = 0: the loop body never ran; the "estimate" is the initial 0) *)
Theorem higc_spec tHI HI0 HIini g : calculate_HIGC tHI HI0 HIini = Some g ->
  exists K, (forall i, (i < K)%nat -> gest tHI HI0 HIini i <= 98 / 100 * HI0) /\ 98 / 100 * HI0 < gest tHI HI0 HIini K /\
            g = (if Rleb HI0 (gest tHI HI0 HIini K) then grid K - 1 / 1000 else grid K).
Proof.
  rewrite calculate_HIGC_lin. intros H. apply higc_lin_some in H. destruct H as [K [_ [H1 [H2 H3]]]]. exists K. auto.
Qed.

Corollary higc_nonneg tHI HI0 HIini g : calculate_HIGC tHI HI0 HIini = Some g -> 0 <= g.
Proof.
  intros H. apply higc_spec in H. destruct H as [K [_ [_ ->]]]. pose proof (pos_INR K). unfold grid.
  destruct (Rleb _ _); lra.
Qed.

(* ---- divergence: the inputs on which the loop never ends (for every budget, hence also the model's 2^20) *)
Lemma higc_none_all tHI HI0 HIini : (forall i, gest tHI HI0 HIini i <= 98 / 100 * HI0) ->
  (forall k, higc_lin k tHI HI0 HIini = None) /\ calculate_HIGC tHI HI0 HIini = None.
Proof.
  intros H. split; [intros k|rewrite calculate_HIGC_lin]; apply higc_lin_none; intros; apply H.
Qed.

(* (a) a yield-formation period of zero or negative length, for every valid pair HIini <= 0.98 HI0 *)
Theorem higc_diverges_YldFormCD tHI HI0 HIini : tHI <= 0 -> 0 < HIini <= 98 / 100 * HI0 ->
  (forall k, higc_lin k tHI HI0 HIini = None) /\ calculate_HIGC tHI HI0 HIini = None.
Proof.
  intros Ht [Hi H0]. apply higc_none_all. intros [|i]; [cbn; lra|]. cbn [gest]. rewrite hi_est_R.
  pose proof (grid_pos (S i)) as Hg. set (g := grid (S i)) in *. clearbody g.
  assert (HE : 1 <= exp (- g * tHI)) by (apply exp_ge_1; nra).
  set (E := exp (- g * tHI)) in *. clearbody E.
  assert (HD : HI0 <= HIini + (HI0 - HIini) * E) by nra.
  apply Rle_trans with HIini; [|exact H0].
  apply (Rmult_le_reg_r (HIini + (HI0 - HIini) * E)); [lra|].
  replace (HIini * HI0 / (HIini + (HI0 - HIini) * E) * (HIini + (HI0 - HIini) * E)) with (HIini * HI0) by (field; lra).
  nra.
Qed.

(* (b) HIini = 0 (real semantics; in IEEE arithmetic the loop is left through a NaN once exp underflows, see the report) *)
Theorem higc_diverges_HIini0 tHI HI0 : 0 <= HI0 ->
  (forall k, higc_lin k tHI HI0 0 = None) /\ calculate_HIGC tHI HI0 0 = None.
Proof.
  intros H0. apply higc_none_all. intros [|i]; [cbn; lra|]. cbn [gest]. rewrite hi_est_R.
  unfold Rdiv. rewrite !Rmult_0_l. lra.
Qed.

(* (c) HI0 = 0 *)
Theorem higc_diverges_HI0 tHI HIini :
  (forall k, higc_lin k tHI 0 HIini = None) /\ calculate_HIGC tHI 0 HIini = None.
Proof.
  apply higc_none_all. intros [|i]; [cbn; lra|]. cbn [gest]. rewrite hi_est_R.
  unfold Rdiv. rewrite Rmult_0_r, Rmult_0_l. lra.
Qed.

(* when HIini already exceeds 0.98 HI0 the loop is left after its first iteration *)
Lemma higc_first_step tHI HI0 HIini : 0 < HIini -> 0 < HI0 -> 0 <= tHI -> 98 / 100 * HI0 < HIini ->
  exists k g, higc_lin k tHI HI0 HIini = Some g.
Proof.
  intros Hi H0 Ht Hb.
  all: cut (98 / 100 * HI0 < gest tHI HI0 HIini 1).
  all: try (intros G; exists 2%nat, (gfin tHI HI0 HIini 1); apply higc_lin_some; exists 1%nat;
            repeat split; [lia | intros i Hi1; replace i with 0%nat by lia; cbn; lra | exact G]).
  all: cbn [gest]; rewrite hi_est_R.
  all: pose proof (grid_pos 1) as Hg; set (g := grid 1) in *; clearbody g.
  all: assert (HE : 0 < exp (- g * tHI) <= 1) by (split; [apply exp_pos | apply exp_le_1; nra]).
  all: set (E := exp (- g * tHI)) in *; clearbody E.
  all: assert (HD : 0 < HIini + (HI0 - HIini) * E) by nra.
  all: apply (Rmult_lt_reg_r (HIini + (HI0 - HIini) * E)); [exact HD|].
  all: replace (HIini * HI0 / (HIini + (HI0 - HIini) * E) * (HIini + (HI0 - HIini) * E)) with (HIini * HI0) by (field; lra).
  all: destruct (Rle_dec HIini HI0) as [C|C].
  all: try (assert (HD2 : HIini + (HI0 - HIini) * E <= HI0) by nra;
            assert (98 / 100 * HI0 * (HIini + (HI0 - HIini) * E) <= 98 / 100 * HI0 * HI0) by (apply Rmult_le_compat_l; lra); nra).
  all: assert (HD2 : HIini + (HI0 - HIini) * E <= HIini) by nra.
  all: assert (98 / 100 * HI0 * (HIini + (HI0 - HIini) * E) <= 98 / 100 * HI0 * HIini) by (apply Rmult_le_compat_l; lra); nra.
Qed.

(* Exact characterisation on the documented domain (positive harvest indices, non-negative period):
   the search ends for SOME budget iff the period is positive or HIini already exceeds 0.98 HI0 *)
Theorem higc_terminates_iff tHI HI0 HIini : 0 < HIini -> 0 < HI0 -> 0 <= tHI ->
  ((exists k g, higc_lin k tHI HI0 HIini = Some g) <-> (0 < tHI \/ 98 / 100 * HI0 < HIini)).
Proof.
  intros Hi H0 Ht. split.
  - intros [k [g H]]. destruct (Rlt_dec 0 tHI) as [|N]; [left; assumption|].
    destruct (Rlt_dec (98 / 100 * HI0) HIini) as [|N2]; [right; assumption|exfalso].
    destruct (higc_diverges_YldFormCD tHI HI0 HIini) as [D _]; [lra|lra|]. rewrite D in H. discriminate.
  - intros [Hp|Hb].
    + destruct (Rlt_dec (98 / 100 * HI0) HIini) as [Hb|Hb]; [apply higc_first_step; assumption|].
      destruct (higc_terminates tHI HI0 HIini) as [_ T]; [lra|exact Hp|].
      exists (S (higc_exit tHI HI0 HIini)), (grid (higc_exit tHI HI0 HIini)). apply T. lia.
    + apply higc_first_step; assumption.
Qed.
(* ---- the documented domain: the model's budget of 2^20 steps is never exhausted *)
Lemma ln_lt_20 y : 0 < y < 1048576 -> ln y < 20.
Proof.
  intros [H0 H1]. apply Rlt_trans with (ln 1048576); [apply ln_increasing; lra|].
  replace 1048576 with (2 ^ 20) by lra. rewrite ln_pow by lra.
  assert (ln 2 < 1).
  { rewrite <- (ln_exp 1). apply ln_increasing; [lra|]. pose proof (exp_ineq1 1 ltac:(lra)). lra. }
  change (INR 20) with (IZR (Z.of_nat 20)) || rewrite INR_IZR_INZ. cbn [Z.of_nat Pos.of_succ_nat Pos.succ]. lra.
Qed.

Corollary calculate_HIGC_defined_domain tHI HI0 HIini : 0 < HIini < HI0 -> HI0 <= 20000 * HIini -> 1 <= tHI ->
  calculate_HIGC tHI HI0 HIini = Some (grid (higc_exit tHI HI0 HIini)).
Proof.
  intros Hi Hr Ht. apply calculate_HIGC_defined; [exact Hi | lra |].
  assert (HL : Lbound HI0 HIini < 20).
  { unfold Lbound. apply ln_lt_20. split.
    - apply Rdiv_lt_0_compat; lra.
    - apply (Rmult_lt_reg_r HIini); [lra|].
      replace (49 * (HI0 - HIini) / HIini * HIini) with (49 * (HI0 - HIini)) by (field; lra). lra. }
  apply (Rmult_lt_reg_r tHI); [lra|].
  replace (1000 * Lbound HI0 HIini / tHI * tHI) with (1000 * Lbound HI0 HIini) by (field; lra). nra.
Qed.

(* ================================================================== 3. calculate_HI_linear *)
Lemma Z2Nat_neg z : (z <= 0)%Z -> Z.to_nat z = 0%nat.
Proof. lia. Qed.

(* a loop whose states are an explicit family [st j], continuing from [st j] exactly when [P j] *)
Section Family.
  Context {St Rs : Type}.
  Variables (step : St -> St + Rs) (st : nat -> St) (P : nat -> Prop) (fin : nat -> Rs).
  Hypothesis P_dec : forall j, {P j} + {~ P j}.
  Hypothesis go : forall j, P j -> step (st j) = inl (st (S j)).
  Hypothesis stop : forall j, ~ P j -> step (st j) = inr (fin j).

  Lemma fam_orbit K : (forall i, (i < K)%nat -> goes step (orbit step (st 0) i)) ->
    (forall i, (i < K)%nat -> P i) /\ orbit step (st 0) K = st K.
  Proof.
    induction K as [|K IH]; intros H; [split; [intros; lia | reflexivity]|].
    destruct IH as [IH1 IH2]; [intros; apply H; lia|].
    assert (HK : P K).
    { destruct (P_dec K) as [L|L]; [exact L|exfalso].
      destruct (H K ltac:(lia)) as [s' E]. rewrite IH2, stop in E by exact L. discriminate. }
    split.
    - intros i Hi. destruct (Nat.eq_dec i K) as [->|]; [exact HK | apply IH1; lia].
    - cbn [orbit]. rewrite IH2, go by exact HK. reflexivity.
  Qed.

  Lemma fam_goes K : (forall i, (i < K)%nat -> P i) ->
    (forall i, (i < K)%nat -> goes step (orbit step (st 0) i)) /\ orbit step (st 0) K = st K.
  Proof.
    induction K as [|K IH]; intros H; [split; [intros; lia | reflexivity]|].
    destruct IH as [IH1 IH2]; [intros; apply H; lia|].
    assert (G : goes step (orbit step (st 0) K)) by (rewrite IH2; exists (st (S K)); apply go, H; lia).
    split.
    - intros i Hi. destruct (Nat.eq_dec i K) as [->|]; [exact G | apply IH1; lia].
    - cbn [orbit]. rewrite IH2, go by (apply H; lia). reflexivity.
  Qed.

  Theorem fam_inr k r : while_lin step k (st 0) = inr r <->
    exists K, (K < k)%nat /\ (forall i, (i < K)%nat -> P i) /\ ~ P K /\ r = fin K.
  Proof.
    split.
    - intros E. apply lin_inr_inv in E. destruct E as [K [HK [Hg Es]]]. exists K.
      destruct (fam_orbit K Hg) as [H1 H2]. rewrite H2 in Es.
      destruct (P_dec K) as [L|L]; [rewrite go in Es by exact L; discriminate|].
      rewrite stop in Es by exact L. injection Es as <-. auto.
    - intros [K [HK [H1 [H2 ->]]]]. destruct (fam_goes K H1) as [G1 G2].
      apply (lin_exit step (st 0) K k (fin K) G1); [|exact HK]. rewrite G2. apply stop, H2.
  Qed.

  Theorem fam_inl k : (exists s, while_lin step k (st 0) = inl s) <-> (forall i, (i < k)%nat -> P i).
  Proof.
    split.
    - intros [s E]. apply lin_inl_inv in E. destruct E as [Hg _]. apply (fam_orbit k Hg).
    - intros H. destruct (fam_goes k H) as [G1 G2]. exists (orbit step (st 0) k). apply lin_run, G1.
  Qed.
End Family.

Section HILinear.
  Variables tmax HIini HI0 HIGC : R.
  Notation lg := (hi_est HIini HI0 HIGC).
  Notation nz j := (IZR (Z.of_nat j)).

  (* HIprev and the tangent extrapolation HIest after j iterations *)
  Definition lprev (j : nat) : R := match j with O => HIini | S _ => lg (nz j) end.
  Definition lest (j : nat) : R :=
    match j with O => 0 | S j' => lg (nz j) + (tmax - nz j) * (lg (nz j) - lprev j') end.
  Definition lstate (j : nat) : Z * R * R := (Z.of_nat j, lest j, lprev j).
  Definition lcont (j : nat) : Prop := lest j <= HI0 /\ nz j < tmax.
  Notation lstep := (hilin_step tmax HIini HI0 HIGC).

  Lemma lcont_dec j : {lcont j} + {~ lcont j}.
  Proof. unfold lcont. destruct (Rle_dec (lest j) HI0), (Rlt_dec (nz j) tmax); (left; tauto) || (right; tauto). Qed.

  Lemma lstep_go j : lcont j -> lstep (lstate j) = inl (lstate (S j)).
  Proof.
    intros [H1 H2]. unfold hilin_step, lstate. rnum. rewrite (Rleb_true _ _ H1), (Rltb_true _ _ H2). cbn [andb].
    replace (Z.of_nat j + 1)%Z with (Z.of_nat (S j)) by lia. reflexivity.
  Qed.

  Lemma lstep_stop j : ~ lcont j -> lstep (lstate j) = inr (Z.of_nat j).
  Proof.
    intros H. unfold hilin_step, lstate. rnum.
    destruct (Rleb_spec (lest j) HI0), (Rltb_spec (nz j) tmax); cbn [andb]; try reflexivity.
    exfalso. apply H. split; assumption.
  Qed.

  Lemma lstate0 : hilin_init HIini = lstate 0.
  Proof. reflexivity. Qed.

  Lemma hilin_lin_inr k ti : while_lin lstep k (hilin_init HIini) = inr ti <->
    exists K, (K < k)%nat /\ (forall i, (i < K)%nat -> lcont i) /\ ~ lcont K /\ ti = Z.of_nat K.
  Proof. rewrite lstate0. apply (fam_inr lstep lstate lcont Z.of_nat lcont_dec lstep_go lstep_stop). Qed.

  (* the loop is left after at most ceil(tmax) iterations *)
  Lemma lcont_bound : ~ lcont (Z.to_nat (Zceil tmax)).
  Proof.
    intros [_ H]. pose proof (Zceil_ub tmax) as Hc.
    destruct (Z_lt_le_dec (Zceil tmax) 0) as [N|N].
    - rewrite Z2Nat_neg in H by lia. apply IZR_lt in N. cbn in H. lra.
    - rewrite Z2Nat.id in H by lia. lra.
  Qed.

  Lemma hilin_bits_enough : (Z.to_nat (Zceil tmax) < 2 ^ hilin_bits tmax)%nat.
  Proof.
    unfold hilin_bits. rnum. set (m := Z.max 2 (Ztrunc tmax + 2)%Z).
    assert (Hm : (2 <= m)%Z) by (unfold m; lia).
    assert (Hc : (Zceil tmax <= Ztrunc tmax + 1)%Z).
    { destruct (Rlt_le_dec tmax 0) as [N|N].
      - rewrite Ztrunc_ceil by lra. lia.
      - rewrite Ztrunc_floor by lra. apply Zceil_glb. rewrite plus_IZR. pose proof (Zfloor_ub tmax). lra. }
    pose proof (Z.log2_up_spec m ltac:(lia)) as [_ Hs]. pose proof (Z.log2_up_nonneg m) as Hn.
    apply Nat2Z.inj_lt. rewrite Nat2Z.inj_pow, (Z2Nat.id (Z.log2_up m)) by exact Hn. change (Z.of_nat 2) with 2%Z.
    destruct (Z_lt_le_dec (Zceil tmax) 0) as [N|N].
    - rewrite Z2Nat_neg by lia. cbn [Z.of_nat]. lia.
    - rewrite Z2Nat.id by lia. unfold m in *. lia.
  Qed.

  (* the loop always ends within the model's budget: the final ti *)
  Lemma hilin_loop_total : exists K, (forall i, (i < K)%nat -> lcont i) /\ ~ lcont K /\
    while_pow lstep (hilin_bits tmax) (hilin_init HIini) = inr (Z.of_nat K).
  Proof.
    rewrite while_pow_lin. set (k := (2 ^ hilin_bits tmax)%nat). pose proof hilin_bits_enough as Hk. fold k in Hk.
    destruct (while_lin lstep k (hilin_init HIini)) as [s|ti] eqn:E.
    - exfalso. rewrite lstate0 in E.
      pose proof (proj1 (fam_inl lstep lstate lcont Z.of_nat lcont_dec lstep_go lstep_stop k) (ex_intro _ s E)) as H.
      apply lcont_bound. apply H. exact Hk.
    - apply hilin_lin_inr in E. destruct E as [K [_ [H1 [H2 ->]]]]. exists K. auto.
  Qed.

  (* Totality: the only input without a result is YldFormCD = -1 (ZeroDivisionError) *)
  Theorem hi_linear_total : tmax <> -1 -> exists ts d, calculate_HI_linear tmax HIini HI0 HIGC = Some (ts, d).
  Proof.
    intros Hm. unfold calculate_HI_linear. destruct hilin_loop_total as [K [H1 [H2 ->]]].
    unfold hilin_result, hilin_finish. destruct (0 <? Z.of_nat K - 1)%Z eqn:E; [eauto|].
    rnum. destruct (Reqb_spec (tmax - IZR (Z.of_nat K - 1)) 0) as [Z0|Z0]; [exfalso|eauto].
    apply Z.ltb_ge in E. destruct K as [|[|K]]; [| |lia].
    - cbn in Z0. lra.
    - destruct (H1 0%nat ltac:(lia)) as [_ Hp]. cbn in Z0, Hp. lra.
  Qed.

  Theorem hi_linear_none_iff : calculate_HI_linear tmax HIini HI0 HIGC = None <-> tmax = -1.
  Proof.
    split.
    - intros H. destruct (Req_EM_T tmax (-1)) as [|N]; [assumption|].
      destruct (hi_linear_total N) as [ts [d E]]. rewrite E in H. discriminate.
    - intros Ht. unfold calculate_HI_linear. destruct hilin_loop_total as [K [H1 [H2 ->]]].
      destruct K as [|K]; [|destruct (H1 0%nat ltac:(lia)) as [_ Hp]; cbn in Hp; lra].
      unfold hilin_result, hilin_finish. cbn [Z.of_nat Z.sub Z.ltb Z.compare Z.opp Z.add]. rnum.
      destruct (Reqb_spec (tmax - IZR (-1)) 0) as [Z0|Z0]; [reflexivity|]. exfalso. apply Z0. lra.
  Qed.

  (* Specification of the result *)
  Theorem hi_linear_spec ts d : calculate_HI_linear tmax HIini HI0 HIGC = Some (ts, d) ->
    (-1 <= ts)%Z /\
    ((0 <= ts)%Z -> IZR ts < tmax) /\
    (* the tangent extrapolations up to day ts + ... stay below HI0, the next one does not (or the period is over) *)
    (forall i, (Z.of_nat i <= ts)%Z -> lest i <= HI0) /\
    (HI0 < lest (Z.to_nat (ts + 1)) \/ tmax <= IZR (ts + 1)) /\
    ((0 < ts)%Z -> d = (HI0 - lg (IZR ts)) / (tmax - IZR ts) /\ lg (IZR ts) + d * (tmax - IZR ts) = HI0) /\
    ((ts <= 0)%Z -> d = HI0 / (tmax - IZR ts) /\ tmax - IZR ts <> 0).
  Proof.
    unfold calculate_HI_linear. destruct hilin_loop_total as [K [H1 [H2 ->]]].
    unfold hilin_result, hilin_finish. intros H.
    assert (Hts : ts = (Z.of_nat K - 1)%Z).
    { destruct (0 <? Z.of_nat K - 1)%Z; [congruence|]. revert H. rnum. destruct (Reqb _ _); congruence. }
    assert (Hlt : (0 <= ts)%Z -> IZR ts < tmax).
    { intros Hp. destruct (H1 (Z.to_nat ts) ltac:(lia)) as [_ Hq]. rewrite Z2Nat.id in Hq by lia. exact Hq. }
    split; [lia|]. split; [exact Hlt|]. split; [|split].
    - intros i Hi. apply (H1 i). lia.
    - replace (Z.to_nat (ts + 1)) with K by lia. replace (ts + 1)%Z with (Z.of_nat K) by lia.
      unfold lcont in H2. destruct (Rle_dec (lest K) HI0), (Rlt_dec (nz K) tmax); try tauto; lra.
    - split.
      + intros Hp. rewrite <- Hts in H. rewrite (proj2 (Z.ltb_lt 0 ts) Hp) in H. injection H as <-.
        split; [reflexivity|]. unfold hi_est. rnum. set (a := HIini * HI0 / _). clearbody a. specialize (Hlt ltac:(lia)). field. lra.
      + intros Hp. rewrite <- Hts in H. rewrite (proj2 (Z.ltb_ge 0 ts) Hp) in H. revert H. rnum.
        destruct (Reqb_spec (tmax - IZR ts) 0) as [Z0|Z0]; [discriminate|].
        intros [= <-]. split; [unfold Rminus; rewrite Ropp_0, Rplus_0_r; reflexivity | exact Z0].
  Qed.
End HILinear.
(* ================================================================== 4. connection with the yield unit (proofs/YieldR.v) *)
Lemma hi_logistic_est (c : YCrop (F:=R)) t : hi_logistic c t = hi_est (y_HIini c) (y_HI0 c) (y_HIGC c) t.
Proof. reflexivity. Qed.

Lemma est_le_HI0 HIini HI0 g t : 0 < HIini <= HI0 -> hi_est HIini HI0 g t <= HI0.
Proof.
  intros [Hi H0]. rewrite hi_est_R. pose proof (exp_pos (- g * t)) as HE.
  set (u := (HI0 - HIini) * exp (- g * t)). assert (Hu : 0 <= u) by (apply Rmult_le_pos; lra).
  apply (Rmult_le_reg_r (HIini + u)); [lra|].
  replace (HIini * HI0 / (HIini + u) * (HIini + u)) with (HIini * HI0) by (field; lra). nra.
Qed.

Lemma est_at_0 HIini HI0 g : HI0 <> 0 -> hi_est HIini HI0 g 0 = HIini.
Proof. intros H. rewrite hi_est_R, Rmult_0_r, exp_0. field. lra. Qed.

(* with a positive period the loop body runs at least once, and the linear rate is not negative *)
Theorem hi_linear_rate_nonneg tmax HIini HI0 g ts d : 0 < HIini <= HI0 -> 0 < tmax ->
  calculate_HI_linear tmax HIini HI0 g = Some (ts, d) -> (0 <= ts)%Z /\ IZR ts < tmax /\ 0 <= d.
Proof.
  intros Hi Ht H. apply hi_linear_spec in H. destruct H as [S1 [S2 [S3 [S4 [S5 S6]]]]].
  assert (Hts : (0 <= ts)%Z).
  { destruct (Z_lt_le_dec ts 0) as [N|N]; [exfalso|exact N]. replace ts with (-1)%Z in S4 by lia.
    cbn in S4. lra. }
  specialize (S2 Hts). split; [exact Hts|]. split; [exact S2|].
  destruct (Z_lt_le_dec 0 ts) as [P|P].
  - destruct (S5 P) as [-> _]. pose proof (est_le_HI0 HIini HI0 g (IZR ts) Hi).
    apply Rmult_le_pos; [lra|]. left. apply Rinv_0_lt_compat. lra.
  - destruct (S6 P) as [-> _]. apply Rmult_le_pos; [lra|]. left. apply Rinv_0_lt_compat. lra.
Qed.

(* what compute_variables writes on the crop record, as hypotheses about the record of the yield unit *)
Record crop_init_ok (c : YCrop (F:=R)) : Prop := {
  ci_type : (y_CropType c = 1 \/ y_CropType c = 2 \/ y_CropType c = 3)%Z;
  ci_ini : 0 < y_HIini c <= y_HI0 c;
  ci_yld : 0 < y_YldFormCD c;
  ci_higc : calculate_HIGC (y_YldFormCD c) (y_HI0 c) (y_HIini c) = Some (y_HIGC c);
  ci_lin3 : y_CropType c = 3%Z -> exists ts,
              calculate_HI_linear (y_YldFormCD c) (y_HIini c) (y_HI0 c) (y_HIGC c) = Some (ts, y_dHILinear c) /\
              y_tLinSwitch c = IZR ts;
  ci_lin12 : y_CropType c <> 3%Z -> y_tLinSwitch c = 0 /\ y_dHILinear c = 0 }.

(* the hypothesis [hiref_crop_ok] of YieldR.hi_ref_monotone / hi_val_mono / logistic_range is discharged by the initialisation *)
Theorem crop_init_hiref_ok c : crop_init_ok c -> hiref_crop_ok c.
Proof.
  intros [Ty Hi Hy Hg H3 H12]. constructor; try lra; try exact Ty.
  - apply (higc_nonneg _ _ _ _ Hg).
  - destruct (Z.eq_dec (y_CropType c) 3) as [E|E].
    + destruct (H3 E) as [ts [Hl _]]. apply (hi_linear_rate_nonneg _ _ _ _ _ _ Hi Hy Hl).
    + destruct (H12 E) as [_ ->]. lra.
Qed.

Corollary crop_init_hi_ref_monotone c hifinal hiref1 hiref2 dap1 dap2 dcds1 dcds2 yf1 yf2 pct1 pct2 cc1 cc2 ccxw1 ccxw2 :
  crop_init_ok c -> 0 <= hifinal -> hit c dap1 dcds1 <= hit c dap2 dcds2 ->
  fst (fst (HIref_current_day c hiref1 hifinal dap1 dcds1 yf1 pct1 cc1 ccxw1 true)) <=
  fst (fst (HIref_current_day c hiref2 hifinal dap2 dcds2 yf2 pct2 cc2 ccxw2 true)).
Proof. intros H. apply hi_ref_monotone. apply crop_init_hiref_ok, H. Qed.

Corollary crop_init_hi_ref_range c hiref hifinal dap dcds yf pct cc ccxw gs :
  crop_init_ok c -> 0 <= hifinal ->
  0 <= fst (fst (HIref_current_day c hiref hifinal dap dcds yf pct cc ccxw gs)) <= y_HI0 c.
Proof.
  intros [_ Hi _ _ _ _] Hf. split; [apply hi_ref_nonneg | apply hi_ref_le_HI0]; lra.
Qed.

(* fruit / grain crops, tLinSwitch > 0: the piecewise curve (before [hi_limit]) is continuous at the switch, stays below HI0
   during yield formation and reaches exactly HI0 at YldFormCD *)
Theorem crop_init_curve_endpoint c : crop_init_ok c -> y_CropType c = 3%Z -> 0 < y_tLinSwitch c ->
  hi_val c (y_tLinSwitch c) = hi_logistic c (y_tLinSwitch c) /\
  hi_val c (y_YldFormCD c) = y_HI0 c /\
  (forall t, t <= y_YldFormCD c -> hi_val c t <= y_HI0 c).
Proof.
  intros Hc E Hp. pose proof (crop_init_hiref_ok c Hc) as Hr. destruct Hc as [Ty Hi Hy Hg H3 H12].
  destruct (H3 E) as [ts [Hl Hs]]. pose proof (hi_linear_rate_nonneg _ _ _ _ _ _ Hi Hy Hl) as [T0 [T1 T2]].
  apply hi_linear_spec in Hl. destruct Hl as [_ [_ [_ [_ [S5 _]]]]].
  assert (Hts : (0 < ts)%Z) by (apply lt_IZR; rewrite <- Hs; exact Hp).
  destruct (S5 Hts) as [_ Hend]. rewrite <- Hs, <- hi_logistic_est in Hend.
  assert (V : forall t, hi_val c t = if Rltb t (y_tLinSwitch c) then hi_logistic c t
                                    else hi_logistic c (y_tLinSwitch c) + y_dHILinear c * (t - y_tLinSwitch c)).
  { intros t. unfold hi_val, hi_curve, is12. rewrite E. cbn [Z.eqb Pos.eqb orb]. rnum.
    destruct (Rltb t (y_tLinSwitch c)); reflexivity. }
  split; [|split].
  - rewrite V, Rltb_false by lra. ring.
  - rewrite V, Rltb_false by lra. exact Hend.
  - intros t Ht. rewrite V. destruct (Rltb_spec t (y_tLinSwitch c)).
    + apply logistic_range, Hr.
    + rewrite <- Hend. apply Rplus_le_compat_l, Rmult_le_compat_l; lra.
Qed.

(* tLinSwitch = 0 (the tangent at day 1 already overshoots, or YldFormCD <= 1): dHILinear = HI0 / YldFormCD is the slope from 0,
   but the curve of the yield unit starts from the logistic value HIini, so that before [hi_limit] it ends at HI0 + HIini *)
Theorem crop_init_curve_endpoint_ts0 c : crop_init_ok c -> y_CropType c = 3%Z -> y_tLinSwitch c = 0 ->
  hi_val c (y_YldFormCD c) = y_HI0 c + y_HIini c.
Proof.
  intros [Ty Hi Hy Hg H3 H12] E Hz. destruct (H3 E) as [ts [Hl Hs]].
  assert (Hts : ts = 0%Z) by (apply eq_IZR; rewrite <- Hs; exact Hz).
  apply hi_linear_spec in Hl. destruct Hl as [_ [_ [_ [_ [_ S6]]]]]. destruct (S6 ltac:(lia)) as [Hd _].
  unfold hi_val, hi_curve, is12. rewrite E. cbn [Z.eqb Pos.eqb orb]. rnum. rewrite Hz, Rltb_false by lra. cbn [snd].
  rewrite hi_logistic_est, est_at_0 by lra. rewrite Hd, Hts. field. lra.
Qed.

(* a one-day yield formation period: (tLinSwitch, dHILinear) = (0, HI0) whatever HIGC *)
Theorem hi_linear_one_day HIini HI0 g : 0 < HIini <= HI0 -> calculate_HI_linear 1 HIini HI0 g = Some (0%Z, HI0).
Proof.
  intros Hi. destruct (hi_linear_total 1 HIini HI0 g ltac:(lra)) as [ts [d H]]. rewrite H.
  pose proof (hi_linear_rate_nonneg 1 HIini HI0 g ts d Hi ltac:(lra) H) as [T0 [T1 _]].
  assert (Hts : ts = 0%Z). { apply lt_IZR in T1. lia. }
  apply hi_linear_spec in H. destruct H as [_ [_ [_ [_ [_ S6]]]]]. destruct (S6 ltac:(lia)) as [-> _].
  rewrite Hts. f_equal. f_equal. field.
Qed.

(* "the linear part reaches HI0 at YldFormCD" is false for the faithful model: witness YldFormCD = 1 *)
Theorem hi_linear_endpoint_refuted : exists tmax HIini HI0 g ts d,
  0 < HIini < HI0 /\ 0 < tmax /\ 0 <= g /\ calculate_HI_linear tmax HIini HI0 g = Some (ts, d) /\
  HI0 < hi_est HIini HI0 g (IZR ts) + d * (tmax - IZR ts).
Proof.
  exists 1, (1 / 100), (48 / 100), 1, 0%Z, (48 / 100). repeat split; try lra.
  - apply hi_linear_one_day. lra.
  - rewrite est_at_0 by lra. lra.
Qed.

(* ================================================================== 5. examples *)
(* Maize of the catalogue: YldFormCD = 61, HI0 = 0.48, HIini = 0.01: HIGC = 0.127 (the value the package computes) *)
Lemma higc_value tHI HI0 HIini (n : Z) : 0 < HIini < HI0 -> 0 < tHI -> (1 <= n < 1048576)%Z ->
  IZR n <= 1000 * Lbound HI0 HIini / tHI < IZR (n + 1) ->
  calculate_HIGC tHI HI0 HIini = Some ((IZR n + 1) / 1000).
Proof.
  intros Hi Ht Hn Hx. rewrite calculate_HIGC_defined; [|exact Hi|exact Ht|].
  - unfold higc_exit. rewrite (Zfloor_imp n _ Hx). f_equal. unfold grid.
    rewrite INR_IZR_INZ, Z2Nat.id by lia. replace (Z.max 1 n) with n by lia. field.
  - destruct Hx as [_ Hx]. apply Rlt_le_trans with (IZR (n + 1)); [exact Hx|]. apply IZR_le. lia.
Qed.

Example maize_HIGC : calculate_HIGC 61 (48 / 100) (1 / 100) = Some (127 / 1000).
Proof.
  replace (127 / 1000) with ((IZR 126 + 1) / 1000) by lra. apply higc_value; try lra; try lia.
  unfold Lbound. split; interval.
Qed.

(* Wheat: YldFormCD = 67 *)
Example wheat_HIGC : calculate_HIGC 67 (48 / 100) (1 / 100) = Some (116 / 1000).
Proof.
  replace (116 / 1000) with ((IZR 115 + 1) / 1000) by lra. apply higc_value; try lra; try lia.
  unfold Lbound. split; interval.
Qed.

(* identification of tLinSwitch from the tangent test *)
Lemma hilin_value tmax HIini HI0 g (n : nat) : 0 < HIini <= HI0 -> INR n + 1 < tmax ->
  (forall i, (i <= n)%nat -> lest tmax HIini HI0 g i <= HI0) -> HI0 < lest tmax HIini HI0 g (S n) ->
  exists d, calculate_HI_linear tmax HIini HI0 g = Some (Z.of_nat n, d) /\
            ((0 < n)%nat -> d = (HI0 - hi_est HIini HI0 g (INR n)) / (tmax - INR n)).
Proof.
  intros Hi Ht Hle Hgt. pose proof (pos_INR n) as Hn.
  destruct (hi_linear_total tmax HIini HI0 g ltac:(lra)) as [ts [d H]]. exists d.
  pose proof (hi_linear_spec _ _ _ _ _ _ H) as [S1 [S2 [S3 [S4 [S5 S6]]]]].
  assert (Hts : ts = Z.of_nat n).
  { destruct (Z_lt_le_dec ts (Z.of_nat n)) as [A|A].
    - exfalso. destruct S4 as [S4|S4].
      + specialize (Hle (Z.to_nat (ts + 1)) ltac:(lia)). lra.
      + assert (IZR (ts + 1) <= IZR (Z.of_nat n)) by (apply IZR_le; lia). rewrite <- INR_IZR_INZ in *. lra.
    - destruct (Z_lt_le_dec (Z.of_nat n) ts) as [B|B]; [exfalso|lia].
      specialize (S3 (S n) ltac:(lia)). lra. }
  rewrite H, Hts. split; [reflexivity|]. intros Hp. destruct (S5 ltac:(lia)) as [-> _].
  rewrite Hts, <- INR_IZR_INZ. reflexivity.
Qed.

Ltac lest_interval := unfold lest, lprev; cbn [Z.of_nat Pos.of_succ_nat Pos.succ]; rewrite ?hi_est_R; interval.

(* Maize: tLinSwitch = 19 and dHILinear = (HI0 - logistic(19)) / (61 - 19) = 0.00923... *)
Example maize_HI_linear : exists d,
  calculate_HI_linear 61 (1 / 100) (48 / 100) (127 / 1000) = Some (19%Z, d) /\ 923 / 100000 < d < 924 / 100000.
Proof.
  destruct (hilin_value 61 (1 / 100) (48 / 100) (127 / 1000) 19) as [d [H Hd]].
  - lra.
  - cbn. lra.
  - intros i Hi. do 20 (destruct i as [|i]; [lest_interval|]). lia.
  - lest_interval.
  - exists d. split; [exact H|]. rewrite Hd by lia. rewrite hi_est_R. cbn [INR]. split; interval.
Qed.

(* the record of the yield unit for Maize with the initialised values: all hypotheses of section 4 hold *)
Definition maize_init (d : R) : YCrop (F:=R) := {|
  y_CropType := 3; y_Determinant := 1; y_HIstartCD := 66; y_YldFormCD := 61; y_HIendCD := 127; y_FloweringCD := 13;
  y_CanopyDevEndCD := 72; y_tLinSwitch := 19; y_dHILinear := d; y_HIGC := 127 / 1000; y_HI0 := 48 / 100;
  y_HIini := 1 / 100; y_WP := 337 / 10; y_WPy := 100; y_fCO2 := 977 / 1000; y_dHI_pre := 0; y_dHI0 := 15; y_a_HI := 7;
  y_b_HI := 3; y_exc := 50; y_CCmin := 5 / 100; y_YldWC := 90 |}.

Example maize_crop_init_ok : exists d, crop_init_ok (maize_init d) /\ 923 / 100000 < d < 924 / 100000.
Proof.
  destruct maize_HI_linear as [d [H Hd]]. exists d. split; [|exact Hd].
  constructor; cbn [maize_init y_CropType y_HIini y_HI0 y_YldFormCD y_HIGC y_dHILinear y_tLinSwitch].
  - right; right; reflexivity.
  - lra.
  - lra.
  - exact maize_HIGC.
  - intros _. exists 19%Z. split; [exact H | reflexivity].
  - intros N. exfalso. apply N. reflexivity.
Qed.

(* hence the reference harvest index of Maize is monotone, within [0, HI0], and its unclipped curve ends exactly at HI0 *)
Example maize_curve : exists d, hi_val (maize_init d) 61 = 48 / 100 /\ hiref_crop_ok (maize_init d).
Proof.
  destruct maize_crop_init_ok as [d [H _]]. exists d. split; [|apply crop_init_hiref_ok, H].
  apply (crop_init_curve_endpoint (maize_init d) H); [reflexivity | cbn; lra].
Qed.

(* divergence is reachable: YldFormCD = 0 with the catalogue's harvest indices *)
Example maize_YldFormCD_0 : calculate_HIGC 0 (48 / 100) (1 / 100) = None.
Proof. apply higc_diverges_YldFormCD; lra. Qed.

(* the termination hypotheses on a non-trivial instance (HIini above 0.98 HI0: one iteration, one step back) *)
Example higc_one_step : exists g, calculate_HIGC 30 (5 / 100) (499 / 10000) = Some g /\ 0 <= g.
Proof.
  destruct (higc_first_step 30 (5 / 100) (499 / 10000)) as [k [g H]]; try lra.
  assert (T : (0 < 30 \/ 98 / 100 * (5 / 100) < 499 / 10000)) by (left; lra).
  destruct (higc_terminates 30 (5 / 100) (499 / 10000)) as [_ T2]; try lra.
  exists (grid (higc_exit 30 (5 / 100) (499 / 10000))). split; [|pose proof (grid_pos (higc_exit 30 (5 / 100) (499 / 10000))); lra].
  apply calculate_HIGC_defined; try lra. unfold Lbound. interval.
Qed.

(* ================================================================== assumptions *)
Print Assumptions while_pow_lin.
Print Assumptions higc_terminates.
Print Assumptions calculate_HIGC_defined_domain.
Print Assumptions higc_spec.
Print Assumptions higc_terminates_iff.
Print Assumptions higc_diverges_YldFormCD.
Print Assumptions hi_linear_total.
Print Assumptions hi_linear_spec.
Print Assumptions crop_init_hiref_ok.
Print Assumptions crop_init_curve_endpoint.
Print Assumptions hi_linear_endpoint_refuted.
Print Assumptions maize_crop_init_ok.
