(* CropSrcOK.v — the definitions of gen/CropSrc.v (harvest_index, canopy_cover), which harness/gen_kernels.py
   regenerates from the TEXT of the Python functions on every run, are equal to the hand models of Crop/Yield.v and
   Crop/Canopy.v for EVERY number type.  The generated definitions call the generated callees ([water_stress_src],
   [temperature_stress_src], [HIadj_*_src], [cc_development_src], ...); the proofs replace each call by the hand model
   through the theorems of KernelsSrcOK.v / ProcsSrcOK.v and then proceed by case analysis and conversion.
   The algebraically neutral operations of the source that the hand models omit are explicit hypotheses (they hold in
   IEEE doubles and in R); they are inherited from the callees except where stated. *)
From Coq Require Import String.
From AC Require Import Num Params Kernels.
From AC.Water Require Import RootZone.
From AC.Crop Require Import Yield Canopy.
From AC.gen Require Import KernelsSrc ProcsSrc CropSrc.
From AC.proofs Require Import KernelsSrcOK ProcsSrcOK.

Ltac atom c ::=
  lazymatch c with
  | (?a && _)%bool => atom a
  | (?a || _)%bool => atom a
  | negb ?a => atom a
  | Bool.eqb ?a _ => atom a
  | _ => constr:(c)
  end.
(* [once]: when the final [reflexivity] fails (a mutated source) Ltac must not retry every other order of case analysis *)
Ltac c_split_if :=
  once match goal with
  | |- context [if ?c then _ else _] =>
    let a := atom c in
    lazymatch a with true => fail | false => fail | context [if _ then _ else _] => fail | _ => idtac end;
    destruct a eqn:?; cbn [andb orb negb Bool.eqb]; cbv beta iota
  end.
Ltac c_split_opt :=
  once match goal with
  | |- context [match ?x with Some _ => _ | None => _ end] =>
    lazymatch x with
    | Some _ => fail | None => fail
    | context [if _ then _ else _] => fail
    | context [match _ with Some _ => _ | None => _ end] => fail
    | _ => idtac end;
    destruct x eqn:?; cbv beta iota
  end.

(* the external calls are the ones the theorems below assume *)
Example harvest_index_src_calls_pinned :
  harvest_index_src_calls =
  [("root_zone_water"%string,
    ["prof"%string; "float(NewCond.z_root)"%string; "NewCond.th"%string; "Soil_zTop"%string;
     "float(Crop.Zmin)"%string; "Crop.Aer"%string])].
Proof. reflexivity. Qed.

Section HI.
  Context {F : Type} {N : NumOps F} {T : TrigOps F}.
  Local Open Scope num_scope.

  (* the attributes harvest_index writes, in the order of their first store in the source *)
  Definition hstate_tuple (s : HState (F:=F)) : bool * F * F * F * F * F * F * F * F * F :=
    (h_preadj s, h_fpre s, h_fpol s, h_scor1 s, h_scor2 s, h_upp s, h_dwn s, h_fpost s, h_hi s, h_hiadj s).

  (* ---- harvest_index.  The generated function takes: Soil_zTop; the Crop attributes in the order of their first use
     (directly or through a callee: root_zone_water arguments, water_stress, temperature_stress, then the harvest-index
     parameters); the InitCond attributes it reads; et0, temp_max, temp_min, growing_season; and the four results of
     root_zone_water it reads (Dr.Zt, Dr.Rz, TAW.Zt, TAW.Rz).  The hand model takes the records YCrop / SCrop / HState
     and calls its own [root_zone_water].
     Hypotheses: all three are inherited from callees —
       [#1 * x = x]          water_stress: np.ones(nstress) * Crop_p_up
       [x * #1 = x]          HIadj_post_anthesis: NewCond_sCor1 * 1
       [#(z - 1) = #z - #1]  HIadj_post_anthesis: DayCor = dap - 1 - HIstartCD on the integer dap
     harvest_index.py itself has no operation that the hand model omits or reorders. *)
  Theorem harvest_index_src_ok :
    (forall x : F, #1 * x = x) -> (forall x : F, x * #1 = x) -> (forall z : Z, #(z - 1) = #z - #1) ->
    forall (p : list (Comp F)) (ztop : F) (c : YCrop (F:=F)) (sc : SCrop (F:=F)) (s : HState (F:=F)) (zroot : F) (th : list F)
           (t_early_sen hiref : F) (dap dcds : Z) (yf : bool) (B Bns cc et0 tmax tmin : F) (gs : bool) (rz : RZ (F:=F)),
    (gs = true -> root_zone_water p zroot th ztop (s_Zmin sc) (s_Aer sc) = Some rz) ->
    harvest_index_src ztop (s_Zmin sc) (s_Aer sc)
        (s_pu0 sc) (s_pu1 sc) (s_pu2 sc) (s_pu3 sc) (s_pl0 sc) (s_pl1 sc) (s_pl2 sc) (s_pl3 sc)
        (s_ETadj sc) (s_beta sc) (s_fs0 sc) (s_fs1 sc) (s_fs2 sc)
        (s_PolHeat sc) (s_Tmax_lo sc) (s_Tmax_up sc) (s_fshape_b sc) (s_PolCold sc) (s_Tmin_up sc) (s_Tmin_lo sc)
        (y_HIstartCD c) (y_CropType c) (y_dHI_pre c) (y_FloweringCD c) (y_CCmin c) (y_exc c) (y_HI0 c)
        (y_CanopyDevEndCD c) (y_a_HI c) (y_YldFormCD c) (y_HIendCD c) (y_b_HI c) (y_dHI0 c)
        (h_hi s) (h_hiadj s) (h_preadj s) zroot t_early_sen hiref dap dcds yf
        (h_fpre s) B Bns cc (h_fpol s) (h_scor1 s) (h_scor2 s) (h_upp s) (h_dwn s) (h_fpost s)
        et0 tmax tmin gs (rz_Dr_Zt rz) (rz_Dr_Rz rz) (rz_TAW_Zt rz) (rz_TAW_Rz rz)
    = match harvest_index p ztop c sc s zroot th t_early_sen hiref dap dcds yf B Bns cc et0 tmax tmin gs with
      | Some s' => Some (hstate_tuple s')
      | None => None
      end.
  Proof.
    intros Hone Hmul Hpred. intros until rz. intros Hrz.
    unfold harvest_index_src, harvest_index, hstate_tuple.
    destruct gs; cbn [Bool.eqb]; [|reflexivity].
    rewrite (Hrz eq_refl). unfold hi_core, hi_mult, hit, is23. cbv beta zeta.
    repeat (first
      [ progress (rewrite ?(water_stress_src_ok Hone), ?temperature_stress_src_ok, ?HIadj_pre_anthesis_src_ok,
                          ?HIadj_pollination_src_ok, ?(HIadj_post_anthesis_src_ok Hmul Hpred));
        unfold ksw_tuple, post_tuple; cbn [andb]; cbv beta iota zeta
      | c_split_if | c_split_opt ]; cbn [p_scor1 p_scor2 p_upp p_dwn p_fpost]);
    try reflexivity; try congruence.
  Qed.
End HI.

Print Assumptions harvest_index_src_ok.

(* ---- canopy_cover.  The generated function is one expression made of four option-joined blocks
   (potential canopy / actual canopy / senescence due to water stress / raise + micro-advective adjustment), once for
   each calendar type.  The proof follows the blocks: each block's scrutinee is shown equal to [Some] of the hand
   model's block function ([cc_potential], [cc_actual], [cc_senescence]; tuple components in the order the translator
   joins them), then replaced.  Every block is a separate sentence under [Timeout]: on this machine they take about
   1 s / 5 s / 22 s / 2 s; when the generated text does not match (a mutated source) the case analysis of a block can
   grow many times larger before any leaf is compared, and the time limit turns that into a prompt failure.  The hand model takes the four root-zone results as arguments, so there is no
   hypothesis about root_zone_water; Crop.Zmin / Crop.Aer (only arguments of that call) are arbitrary.
   Hypotheses:
     [#1 * x = x]           inherited from water_stress (np.ones(nstress) * Crop_p_up)
     [nrint (#z) = z]       calendar days: tCCadj is the Python int dap - delayed_cds and round(tCCadj) is the identity,
                            the hand model rounds the converted float ([cc_outside]: #(nrint tcc))
     [#(z - 1) = #z - #1]   calendar days: `tCCadj - dtCC - Crop.Senescence` subtracts the int 1 from the int tCCadj
                            and then converts; the hand model computes tcc - dt - senescence on floats *)
Example canopy_cover_src_calls_pinned :
  canopy_cover_src_calls =
  [("root_zone_water"%string,
    ["prof"%string; "float(NewCond.z_root)"%string; "NewCond.th"%string; "Soil_zTop"%string;
     "float(Crop.Zmin)"%string; "Crop.Aer"%string])].
Proof. reflexivity. Qed.

Section CC.
  Context {F : Type} {N : NumOps F}.
  Local Open Scope num_scope.

  Lemma cc_dev_growth (a b c d t e : F) :
    cc_development_src a b c d t Str_Growth e = Some (cc_development a b c d t Growth e).
  Proof. exact (cc_development_src_ok a b c d t Growth e). Qed.
  Lemma cc_dev_decline (a b c d t e : F) :
    cc_development_src a b c d t Str_Decline e = Some (cc_development a b c d t Decline e).
  Proof. exact (cc_development_src_ok a b c d t Decline e). Qed.

  Definition canopy_tuple (s : CanopyS (F:=F)) : F * F * F * F * F * F * bool * F * bool * bool * F * F * F * F * F :=
    (s_cc_prev s, s_cc_ns s, s_ccx_act_ns s, s_ccx_w_ns s, s_cc s, s_cc0_adj s, s_protected_seed s, s_ccx_act s,
     s_crop_dead s, s_premat_senes s, s_ccx_early_sen s, s_t_early_sen s, s_ccx_w s, s_cc_adj s, s_cc_adj_ns s).

  Section Body.
    Hypothesis Hone : forall x : F, #1 * x = x.
    Hypothesis Hrint : forall z : Z, nrint num_ops (#z) = z.
    Hypothesis Hpred : forall z : Z, #(z - 1) = #z - #1.

    Ltac cc_rw :=
      rewrite ?cc_dev_growth, ?cc_dev_decline, ?cc_required_time_src_cgc_ok, ?adjust_CCx_src_ok,
              ?update_CCx_CDC_src_ok, ?(water_stress_src_ok Hone), ?Hrint, ?Hpred.
    Ltac q_split_if :=
      once match goal with
      | |- context [if ?c then _ else _] =>
        let a := atom c in
        lazymatch a with true => fail | false => fail | context [if _ then _ else _] => fail | _ => idtac end;
        destruct a; cbn [andb orb negb Bool.eqb]; cbv beta iota
      end.
    (* [once]: [repeat] is a backtracking point (it may stop earlier); when a leaf fails, Ltac must not re-run the final
       check on every prefix of the case analysis *)
    Ltac phase :=
      once (cbv beta zeta;
            repeat (first [ progress cc_rw; unfold ksw_tuple, update_CCx_CDC; cbn [andb]; cbv beta iota zeta
                          | q_split_if ]));
      (* the leaves are closed by conversion in milliseconds; a leaf that does NOT hold (mutated source) can send the
         conversion test into unfolding the hand model for minutes, hence the time limit *)
      timeout 30 reflexivity.

    Ltac split_all :=
      once (repeat (first [ progress cc_rw; unfold ksw_tuple, update_CCx_CDC; cbn [andb]; cbv beta iota zeta
                          | q_split_if ])).

    (* the canopy size after senescence, CCsen (the body of [cc_sen]), occurs about ten times on each side once the lets
       are expanded and contains two tests of its own; it is the same term on both sides, so it is replaced by a variable
       before the case analysis (if the source computes it differently the terms differ, something is left over and the
       leaves fail) *)
    Ltac abstract_ccsen :=
      repeat match goal with
             | |- context [if ?a <? 1#/1000 then #0 else (if ?c <? #0 then #0 else ?c)] =>
               generalize (if a <? 1#/1000 then #0 else (if c <? #0 then #0 else c)); intro
             end.

    Theorem canopy_cover_src_ok :
      forall (zmin aer ztop zroot : F) (k : CropC (F:=F)) (s : CanopyS (F:=F)) (dap dcds : Z) (gdd_cum dgdd gdd : F)
             (Dr_Rz Dr_Zt TAW_Rz TAW_Zt et0 : F) (gs : bool),
      canopy_cover_src zmin aer (k_pu0 k) (k_pu1 k) (k_pu2 k) (k_pu3 k) (k_pl0 k) (k_pl1 k) (k_pl2 k) (k_pl3 k)
          (k_etadj k) (k_beta k) (k_fs0 k) (k_fs1 k) (k_fs2 k) (k_cal k) (k_emergence k) (k_maturity k)
          (k_canopy_dev_end k) (k_CC0 k) (k_CGC k) (k_CCx k) (k_CDC k) (k_senescence k) ztop
          (s_cc_ns s) (s_cc s) (s_protected_seed s) (s_ccx_act s) (s_crop_dead s) (s_t_early_sen s) (s_ccx_w s) zroot
          dap dcds gdd_cum dgdd (s_ccx_act_ns s) (s_ccx_w_ns s) (s_cc0_adj s) (s_premat_senes s) (s_ccx_early_sen s)
          gdd et0 gs Dr_Zt Dr_Rz TAW_Zt TAW_Rz
      = match canopy_cover k s dap dcds gdd_cum dgdd gdd Dr_Rz Dr_Zt TAW_Rz TAW_Zt et0 gs with
        | Some s' => Some (canopy_tuple s')
        | None => None
        end.
    Proof.
      intros. unfold canopy_cover_src, canopy_cover, canopy_tuple, canopy_gs, ws_of. cbv beta zeta.
      destruct gs; cbn [Bool.eqb]; [|reflexivity].
      destruct (if Dr_Rz / TAW_Rz <=? Dr_Zt / TAW_Zt then (Dr_Rz, TAW_Rz) else (Dr_Zt, TAW_Zt)) as [Dr taw].
      rewrite (water_stress_src_ok Hone). unfold ksw_tuple. cbn [andb]. cbv beta iota zeta.
      match goal with |- context [Ksw_Exp ?w] => remember w as ksw eqn:Eksw; clear Eksw end.
      destruct (k_cal k =? 1)%Z; [| destruct (k_cal k =? 2)%Z; [| reflexivity]].
      - (* potential canopy *)
        Timeout 60 match goal with |- match ?p1 with Some _ => _ | None => _ end = _ =>
          assert (H1 : p1 = Some (let '(a, b, c) := cc_potential k (#(dap - dcds)) (#1) (s_cc_ns s) (s_ccx_act_ns s) (s_ccx_w_ns s) in (a, b, c)))
            by (unfold cc_potential, cc_outside; phase);
          rewrite H1; clear H1 end.
        destruct (cc_potential k (#(dap - dcds)) (#1) (s_cc_ns s) (s_ccx_act_ns s) (s_ccx_w_ns s)) as [[cc_ns ccx_act_ns] ccx_w_ns].
        cbv beta iota.
        (* actual canopy *)
        Timeout 120 match goal with |- match ?p2 with Some _ => _ | None => _ end = _ =>
          assert (H2 : p2 = Some (let '(cc, c0a, ca, pr, de) := cc_actual k (#(dap - dcds)) (#1) (Ksw_Exp ksw) s in (cc, pr, ca, de, c0a)))
            by (unfold cc_actual, cc_outside, cc_growing, death_check; phase);
          rewrite H2; clear H2 end.
        destruct (cc_actual k (#(dap - dcds)) (#1) (Ksw_Exp ksw) s) as [[[[cc cc0_adj] ccx_act] prot] dead].
        cbv beta iota.
        (* senescence due to water stress *)
        match goal with |- match ?p3 with Some _ => _ | None => _ end = _ =>
          assert (H3 : p3 = Some (let '(cc', c0a', ca', de', pm, ces, tes, cw) :=
                                    cc_senescence k s (#(dap - dcds)) (#1) (Ksw_Sen ksw) Dr taw et0 cc cc0_adj ccx_act dead in
                                  (tes, pm, ces, ca', c0a', de', cc', cw))) end.
        { unfold cc_senescence, cc_stress_branch, cc_rewater_branch, cc_sen, death_check, ws_of. cbv beta zeta.
          cc_rw. unfold ksw_tuple, update_CCx_CDC. cbn [andb]. cbv beta iota zeta. abstract_ccsen.
          Timeout 150 split_all.
          Timeout 120 all: (timeout 10 reflexivity). }
        rewrite H3; clear H3.
        destruct (cc_senescence k s (#(dap - dcds)) (#1) (Ksw_Sen ksw) Dr taw et0 cc cc0_adj ccx_act dead)
          as [[[[[[[cc' cc0_adj'] ccx_act'] dead'] premat] ces] tes] ccx_w].
        cbv beta iota.
        (* potential not below actual, micro-advective adjustment *)
        Timeout 60 (unfold cc_ns_raise, cc_adj_of; phase).
      - (* potential canopy *)
        Timeout 60 match goal with |- match ?p1 with Some _ => _ | None => _ end = _ =>
          assert (H1 : p1 = Some (let '(a, b, c) := cc_potential k (gdd_cum - dgdd) gdd (s_cc_ns s) (s_ccx_act_ns s) (s_ccx_w_ns s) in (a, b, c)))
            by (unfold cc_potential, cc_outside; phase);
          rewrite H1; clear H1 end.
        destruct (cc_potential k (gdd_cum - dgdd) gdd (s_cc_ns s) (s_ccx_act_ns s) (s_ccx_w_ns s)) as [[cc_ns ccx_act_ns] ccx_w_ns].
        cbv beta iota.
        (* actual canopy *)
        Timeout 120 match goal with |- match ?p2 with Some _ => _ | None => _ end = _ =>
          assert (H2 : p2 = Some (let '(cc, c0a, ca, pr, de) := cc_actual k (gdd_cum - dgdd) gdd (Ksw_Exp ksw) s in (cc, pr, ca, de, c0a)))
            by (unfold cc_actual, cc_outside, cc_growing, death_check; phase);
          rewrite H2; clear H2 end.
        destruct (cc_actual k (gdd_cum - dgdd) gdd (Ksw_Exp ksw) s) as [[[[cc cc0_adj] ccx_act] prot] dead].
        cbv beta iota.
        (* senescence due to water stress *)
        match goal with |- match ?p3 with Some _ => _ | None => _ end = _ =>
          assert (H3 : p3 = Some (let '(cc', c0a', ca', de', pm, ces, tes, cw) :=
                                    cc_senescence k s (gdd_cum - dgdd) gdd (Ksw_Sen ksw) Dr taw et0 cc cc0_adj ccx_act dead in
                                  (tes, pm, ces, ca', c0a', de', cc', cw))) end.
        { unfold cc_senescence, cc_stress_branch, cc_rewater_branch, cc_sen, death_check, ws_of. cbv beta zeta.
          cc_rw. unfold ksw_tuple, update_CCx_CDC. cbn [andb]. cbv beta iota zeta. abstract_ccsen.
          Timeout 150 split_all.
          Timeout 120 all: (timeout 10 reflexivity). }
        rewrite H3; clear H3.
        destruct (cc_senescence k s (gdd_cum - dgdd) gdd (Ksw_Sen ksw) Dr taw et0 cc cc0_adj ccx_act dead)
          as [[[[[[[cc' cc0_adj'] ccx_act'] dead'] premat] ces] tes] ccx_w].
        cbv beta iota.
        (* potential not below actual, micro-advective adjustment *)
        Timeout 60 (unfold cc_ns_raise, cc_adj_of; phase).
    Qed.
  End Body.
End CC.

Print Assumptions canopy_cover_src_ok.

(* ------------------------------------------------------------------------------------------------------------
   harvest_index over R: the three hypotheses are theorems; transfer of the C05 invariant of proofs/YieldR.v. *)
From AC Require Import RInst.
From AC.proofs Require Import YieldR.

Section HIR.
  Local Open Scope R_scope.
  Variables (p : list (Comp R)) (ztop : R) (c : YCrop (F:=R)) (sc : SCrop (F:=R)) (s : HState (F:=R)) (zroot : R) (th : list R)
            (tes hiref : R) (dap dcds : Z) (yf : bool) (B Bns cc et0 tmax tmin : R) (gs : bool) (rz : RZ (F:=R)).
  Hypothesis RZW : gs = true -> root_zone_water p zroot th ztop (s_Zmin sc) (s_Aer sc) = Some rz.

  Definition harvest_index_src_at : option (bool * R * R * R * R * R * R * R * R * R) :=
    harvest_index_src ztop (s_Zmin sc) (s_Aer sc)
        (s_pu0 sc) (s_pu1 sc) (s_pu2 sc) (s_pu3 sc) (s_pl0 sc) (s_pl1 sc) (s_pl2 sc) (s_pl3 sc)
        (s_ETadj sc) (s_beta sc) (s_fs0 sc) (s_fs1 sc) (s_fs2 sc)
        (s_PolHeat sc) (s_Tmax_lo sc) (s_Tmax_up sc) (s_fshape_b sc) (s_PolCold sc) (s_Tmin_up sc) (s_Tmin_lo sc)
        (y_HIstartCD c) (y_CropType c) (y_dHI_pre c) (y_FloweringCD c) (y_CCmin c) (y_exc c) (y_HI0 c)
        (y_CanopyDevEndCD c) (y_a_HI c) (y_YldFormCD c) (y_HIendCD c) (y_b_HI c) (y_dHI0 c)
        (h_hi s) (h_hiadj s) (h_preadj s) zroot tes hiref dap dcds yf
        (h_fpre s) B Bns cc (h_fpol s) (h_scor1 s) (h_scor2 s) (h_upp s) (h_dwn s) (h_fpost s)
        et0 tmax tmin gs (rz_Dr_Zt rz) (rz_Dr_Rz rz) (rz_TAW_Zt rz) (rz_TAW_Rz rz).

  Theorem harvest_index_src_ok_over_R :
    harvest_index_src_at
    = match harvest_index p ztop c sc s zroot th tes hiref dap dcds yf B Bns cc et0 tmax tmin gs with
      | Some s' => Some (hstate_tuple s')
      | None => None
      end.
  Proof.
    unfold harvest_index_src_at.
    refine (harvest_index_src_ok (F:=R) (N:=RNops) Rmult_1_l Rmult_1_r _ p ztop c sc s zroot th tes hiref dap dcds yf
                                 B Bns cc et0 tmax tmin gs rz RZW).
    intros z. rnum. apply minus_IZR.
  Qed.

  (* C05: the state written by the source-generated harvest_index satisfies the invariant (HI in [0, HI0], adjusted HI
     in [0, (1 + dHI0/100) HI0], factors non-negative) *)
  Corollary harvest_index_src_invariant tup :
    harvest_index_src_at = Some tup ->
    hi_crop_ok c -> hs_ok c s -> 0 <= hiref <= y_HI0 c ->
    s_fs0 sc <> 0 -> s_fs1 sc <> 0 -> s_fs2 sc <> 0 ->
    (forall rz, root_zone_water p zroot th ztop (s_Zmin sc) (s_Aer sc) = Some rz -> 0 < rz_TAW_Rz rz /\ 0 < rz_TAW_Zt rz) ->
    exists s', tup = hstate_tuple s' /\ hs_ok c s'.
  Proof.
    rewrite harvest_index_src_ok_over_R.
    destruct (harvest_index p ztop c sc s zroot th tes hiref dap dcds yf B Bns cc et0 tmax tmin gs) as [s'|] eqn:E; [|discriminate].
    intros [= <-] Hc Hs Hr F0 F1 F2 Ht. exists s'. split; [reflexivity|].
    eapply harvest_index_invariant; eauto.
  Qed.

  Corollary harvest_index_src_defined :
    root_zone_water p zroot th ztop (s_Zmin sc) (s_Aer sc) = Some rz ->
    (s_PolHeat sc = 0 \/ s_PolHeat sc = 1)%Z -> (s_PolCold sc = 0 \/ s_PolCold sc = 1)%Z ->
    (y_CropType c = 1 \/ y_CropType c = 2 \/ y_CropType c = 3)%Z ->
    exists tup, harvest_index_src_at = Some tup.
  Proof.
    intros Hrz Hh Hc Ty. rewrite harvest_index_src_ok_over_R.
    destruct (harvest_index_defined p ztop c sc s zroot th tes hiref dap dcds yf B Bns cc et0 tmax tmin gs rz Hrz Hh Hc Ty) as [s' ->].
    eexists; reflexivity.
  Qed.
End HIR.

(* ------------------------------------------------------------------------------------------------------------
   canopy_cover over R; transfer of the canopy facts of proofs/CanopyR.v (C05: envelope invariant, CC <= CC_NS). *)
From AC.proofs Require Import CanopyR.

Section CCR.
  Local Open Scope R_scope.
  Variables (zmin aer ztop zroot : R) (k : CropC (F:=R)) (s : CanopyS (F:=R)) (dap dcds : Z) (gdd_cum dgdd gdd : R)
            (Dr_Rz Dr_Zt TAW_Rz TAW_Zt et0 : R) (gs : bool).

  Definition canopy_cover_src_at :=
    canopy_cover_src zmin aer (k_pu0 k) (k_pu1 k) (k_pu2 k) (k_pu3 k) (k_pl0 k) (k_pl1 k) (k_pl2 k) (k_pl3 k)
        (k_etadj k) (k_beta k) (k_fs0 k) (k_fs1 k) (k_fs2 k) (k_cal k) (k_emergence k) (k_maturity k)
        (k_canopy_dev_end k) (k_CC0 k) (k_CGC k) (k_CCx k) (k_CDC k) (k_senescence k) ztop
        (s_cc_ns s) (s_cc s) (s_protected_seed s) (s_ccx_act s) (s_crop_dead s) (s_t_early_sen s) (s_ccx_w s) zroot
        dap dcds gdd_cum dgdd (s_ccx_act_ns s) (s_ccx_w_ns s) (s_cc0_adj s) (s_premat_senes s) (s_ccx_early_sen s)
        gdd et0 gs Dr_Zt Dr_Rz TAW_Zt TAW_Rz.

  Theorem canopy_cover_src_ok_over_R :
    canopy_cover_src_at
    = match canopy_cover k s dap dcds gdd_cum dgdd gdd Dr_Rz Dr_Zt TAW_Rz TAW_Zt et0 gs with
      | Some s' => Some (canopy_tuple s')
      | None => None
      end.
  Proof.
    unfold canopy_cover_src_at.
    refine (canopy_cover_src_ok (F:=R) (N:=RNops) Rmult_1_l _ _ zmin aer ztop zroot k s dap dcds gdd_cum dgdd gdd
                                Dr_Rz Dr_Zt TAW_Rz TAW_Zt et0 gs).
    - intros z. rnum. apply RainIrrR.ZnearestE_IZR.
    - intros z. rnum. apply minus_IZR.
  Qed.

  Corollary canopy_cover_src_inv_step t0 tup :
    crop_ok k -> canopy_inv k t0 s ->
    (gs = true -> step_ok k (dt_of k gdd) /\ t0 <= tcc_of k dap dcds gdd_cum dgdd) ->
    canopy_cover_src_at = Some tup ->
    exists s', tup = canopy_tuple s' /\
               (if gs then canopy_inv k (tcc_of k dap dcds gdd_cum dgdd) s' else forall t, canopy_inv k t s').
  Proof.
    intros Hk Hi Hg. rewrite canopy_cover_src_ok_over_R.
    destruct (canopy_cover k s dap dcds gdd_cum dgdd gdd Dr_Rz Dr_Zt TAW_Rz TAW_Zt et0 gs) as [s'|] eqn:E; [|discriminate].
    intros [= <-]. exists s'. split; [reflexivity|]. eapply canopy_inv_step; eauto.
  Qed.

  Corollary canopy_cover_src_cc_le_ns tup :
    canopy_cover_src_at = Some tup ->
    exists s', tup = canopy_tuple s' /\ s_cc s' <= s_cc_ns s'.
  Proof.
    rewrite canopy_cover_src_ok_over_R.
    destruct (canopy_cover k s dap dcds gdd_cum dgdd gdd Dr_Rz Dr_Zt TAW_Rz TAW_Zt et0 gs) as [s'|] eqn:E; [|discriminate].
    intros [= <-]. exists s'. split; [reflexivity|]. eapply cc_le_ns; eauto.
  Qed.

  Corollary canopy_cover_src_defined :
    (k_cal k = 1 \/ k_cal k = 2)%Z -> exists tup, canopy_cover_src_at = Some tup.
  Proof.
    intros H. rewrite canopy_cover_src_ok_over_R.
    destruct (canopy_cover_defined k s dap dcds gdd_cum dgdd gdd Dr_Rz Dr_Zt TAW_Rz TAW_Zt et0 gs H) as [s' ->].
    eexists; reflexivity.
  Qed.
End CCR.
