(* DayConcreteP.v — the concrete day (DayConcrete.v) satisfies the hypotheses of the day-level theorems of DayP.v.

   Part A: a day that is defined in the option monad ([results_opt] = Some R) is the day computed by Day.v with the
           totalised processes ([results_opt_total], [day_proc_opt_total]) and every call recorded in the trace returned
           Some, namely the result kept in R ([results_opt_spec]).
   Part B: for [procs_concrete] those calls are calls of the unit models ([c_x_inv], [u_x]).
   Part C: under the day-level invariant [DayInv] (well-formed profile, th and thini within [th_dry, th_s], adjusted field
           capacity within [th_fc, th_s], ponding >= 0, net-irrigation threshold in [0,100], bund parameters >= 0) the unit
           theorems discharge DayP.CallsBalance ([concrete_calls_balance]) — no further hypothesis:
           [day_balance_concrete], with the capillary term within the rounding allowance of the reported CR.
   Part D: bounds: [day_bounds_concrete] (th within bounds, 0 <= ponding <= bund height of the field management in force,
           and [DayInv] again holds after the day, so an induction over days closes; [reset_inv_preserved] for the season
           reset) under the per-day side conditions [DaySide], which are facts of OTHER properties about intermediate values
           of the same day and are NOT discharged here (see the comment at [DaySide]): room for the capillary overshoot
           when there is a water table, potential evaporation / transpiration >= 0 (C04 from the canopy ranges of C05),
           TranspirationR.tr_wf for the day's call, layers_ok with net irrigation.
   Part E: [off_season_concrete]: outside the season the concrete day has Tr = TrPot = IrrDay = 0, no canopy, biomass,
           roots, yield; the counters are reset (from the units' off-season theorems). *)
From Coq Require Import List Bool ZArith.
From AC Require Import Num RInst Params Kernels Clock Day DayConcrete.
From AC.Water Require RootZone RainIrr Infiltration Drainage Groundwater Evaporation Transpiration.
From AC.Crop Require Canopy Roots Yield.
From AC.proofs Require Import ProfR DayP.
From AC.proofs Require DrainageR InfiltrationR GroundwaterR EvaporationR TranspirationR RootsR YieldR RainIrrR.
Import ListNotations.
Local Open Scope R_scope.

#[local] Existing Instance YieldR.RTrig.

(* ============================================================================================================ *)
(*  Part A                                                                                                       *)
(* ============================================================================================================ *)
Record SpecO (x : Ctx R) (PO : ProcsO R) (Rs : Results R) : Prop := {
  so_gdd : if x_gs x then exists g, po_gd PO (arg_gd x) = Some g /\ rs_gdd Rs = gdR_gdd g else rs_gdd Rs = 3 / 10;
  so_gw : po_gw PO (x_prof x) (t_gw (trace_of x Rs)) = Some (rs_gw Rs);
  so_rd : po_rd PO (x_prof x) (t_rd (trace_of x Rs)) = Some (rs_rd Rs);
  so_pi : po_pi PO (x_prof x) (t_pi (trace_of x Rs)) = Some (rs_pi Rs);
  so_dr : po_dr PO (x_prof x) (t_dr (trace_of x Rs)) = Some (rs_dr Rs);
  so_rp : po_rp PO (x_prof x) (t_rp (trace_of x Rs)) = Some (rs_rp Rs);
  so_ir : po_ir PO (x_prof x) (t_ir (trace_of x Rs)) = Some (rs_ir Rs);
  so_inf : po_inf PO (x_prof x) (t_inf (trace_of x Rs)) = Some (rs_inf Rs);
  so_cr : po_cr PO (x_prof x) (t_cr (trace_of x Rs)) = Some (rs_cr Rs);
  so_ge : po_ge PO (x_prof x) (t_ge (trace_of x Rs)) = Some (rs_ge Rs);
  so_gst : po_gst PO (t_gst (trace_of x Rs)) = Some (rs_gst Rs);
  so_cc : po_cc PO (x_prof x) (t_cc (trace_of x Rs)) = Some (rs_cc Rs);
  so_ev : po_ev PO (x_prof x) (t_ev (trace_of x Rs)) = Some (rs_ev Rs);
  so_tr : po_tr PO (x_prof x) (t_tr (trace_of x Rs)) = Some (rs_tr Rs);
  so_gi : po_gi PO (x_prof x) (t_gi (trace_of x Rs)) = Some (rs_gi Rs);
  so_hr : po_hr PO (t_hr (trace_of x Rs)) = Some (rs_hr Rs);
  so_bm : po_bm PO (t_bm (trace_of x Rs)) = Some (rs_bm Rs);
  so_hi : po_hi PO (x_prof x) (t_hi (trace_of x Rs)) = Some (rs_hi Rs);
  so_rz : po_rz PO (x_prof x) (t_rz (trace_of x Rs)) = Some (rs_rz Rs) }.

Lemma results_opt_spec x PO Rs : results_opt x PO = Some Rs -> SpecO x PO Rs.
Proof.
  intros H. unfold results_opt in H. cbv zeta in H. unfold obind in H.
  destruct (if x_gs x then _ else _) as [gdd|] eqn:E0; [|discriminate].
  destruct (po_gw PO _ _) as [r_gw|] eqn:E1; [|discriminate].
  destruct (po_rd PO _ _) as [r_rd|] eqn:E2; [|discriminate].
  destruct (po_pi PO _ _) as [r_pi|] eqn:E3; [|discriminate].
  destruct (po_dr PO _ _) as [r_dr|] eqn:E4; [|discriminate].
  destruct (po_rp PO _ _) as [r_rp|] eqn:E5; [|discriminate].
  destruct (po_ir PO _ _) as [r_ir|] eqn:E6; [|discriminate].
  destruct (po_inf PO _ _) as [r_inf|] eqn:E7; [|discriminate].
  destruct (po_cr PO _ _) as [r_cr|] eqn:E8; [|discriminate].
  destruct (po_ge PO _ _) as [r_ge|] eqn:E9; [|discriminate].
  destruct (po_gst PO _) as [r_gst|] eqn:E10; [|discriminate].
  destruct (po_cc PO _ _) as [r_cc|] eqn:E11; [|discriminate].
  destruct (po_ev PO _ _) as [r_ev|] eqn:E12; [|discriminate].
  destruct (po_tr PO _ _) as [r_tr|] eqn:E13; [|discriminate].
  destruct (po_gi PO _ _) as [r_gi|] eqn:E14; [|discriminate].
  destruct (po_hr PO _) as [r_hr|] eqn:E15; [|discriminate].
  destruct (po_bm PO _) as [r_bm|] eqn:E16; [|discriminate].
  destruct (po_hi PO _ _) as [r_hi|] eqn:E17; [|discriminate].
  destruct (po_rz PO _ _) as [r_rz|] eqn:E18; [|discriminate].
  inversion H; subst Rs; clear H.
  constructor; cbn [trace_of t_gw t_rd t_pi t_dr t_rp t_ir t_inf t_cr t_ge t_gst t_cc t_ev t_tr t_gi t_hr t_bm t_hi t_rz
                    rs_gdd rs_gw rs_rd rs_pi rs_dr rs_rp rs_ir rs_inf rs_cr rs_ge rs_gst rs_cc rs_ev rs_tr rs_gi rs_hr rs_bm rs_hi rs_rz];
    try assumption.
  destruct (x_gs x).
  - destruct (po_gd PO (arg_gd x)) as [g|]; [|discriminate]. exists g. split; [reflexivity|]. congruence.
  - rnum. congruence.
Qed.

(* the totalised processes return the recorded results on the recorded arguments *)
Lemma spec_of_specO x PO Rs : SpecO x PO Rs -> Spec x (total PO) Rs.
Proof.
  intros [S0 S1 S2 S3 S4 S5 S6 S7 S8 S9 S10 S11 S12 S13 S14 S15 S16 S17 S18].
  constructor; cbn [total p_gd p_gw p_rd p_pi p_dr p_rp p_ir p_inf p_cr p_ge p_gst p_cc p_ev p_tr p_gi p_hr p_bm p_hi p_rz];
    try (match goal with H : ?o = Some _ |- _ = odflt _ ?o => rewrite H; reflexivity end).
  destruct (x_gs x); [|exact S0]. destruct S0 as (g & -> & ->). reflexivity.
Qed.

(* Spec determines the results *)
Lemma spec_unique x P R1 R2 : Spec x P R1 -> Spec x P R2 -> R1 = R2.
Proof.
  intros [S0 S1 S2 S3 S4 S5 S6 S7 S8 S9 S10 S11 S12 S13 S14 S15 S16 S17 S18]
         [T0 T1 T2 T3 T4 T5 T6 T7 T8 T9 T10 T11 T12 T13 T14 T15 T16 T17 T18].
  assert (E0 : rs_gdd R1 = rs_gdd R2) by congruence.
  assert (E1 : rs_gw R1 = rs_gw R2) by (rewrite S1, T1; reflexivity).
  assert (E2 : rs_rd R1 = rs_rd R2) by (rewrite S2, T2; cbn [t_rd trace_of]; rewrite E0, E1; reflexivity).
  assert (E3 : rs_pi R1 = rs_pi R2) by (rewrite S3, T3; cbn [t_pi trace_of]; rewrite E2; reflexivity).
  assert (E4 : rs_dr R1 = rs_dr R2) by (rewrite S4, T4; cbn [t_dr trace_of]; rewrite E1, E3; reflexivity).
  assert (E5 : rs_rp R1 = rs_rp R2) by (rewrite S5, T5; cbn [t_rp trace_of]; rewrite E4; reflexivity).
  assert (E6 : rs_ir R1 = rs_ir R2) by (rewrite S6, T6; cbn [t_ir trace_of]; rewrite E2, E4, E5; reflexivity).
  assert (E7 : rs_inf R1 = rs_inf R2) by (rewrite S7, T7; cbn [t_inf trace_of]; rewrite E1, E4, E5, E6; reflexivity).
  assert (E8 : rs_cr R1 = rs_cr R2) by (rewrite S8, T8; cbn [t_cr trace_of]; rewrite E1, E7; reflexivity).
  assert (E9 : rs_ge R1 = rs_ge R2) by (rewrite S9, T9; cbn [t_ge trace_of]; rewrite E0, E8; reflexivity).
  assert (E10 : rs_gst R1 = rs_gst R2) by (rewrite S10, T10; cbn [t_gst trace_of]; rewrite E0, E9; reflexivity).
  assert (E11 : rs_cc R1 = rs_cc R2) by (rewrite S11, T11; cbn [t_cc trace_of]; rewrite E0, E2, E8, E9; reflexivity).
  assert (E12 : rs_ev R1 = rs_ev R2) by (rewrite S12, T12; cbn [t_ev trace_of]; rewrite E0, E6, E7, E8, E9, E11; reflexivity).
  assert (E13 : rs_tr R1 = rs_tr R2) by (rewrite S13, T13; cbn [t_tr trace_of]; rewrite E0, E2, E5, E6, E9, E11, E12; reflexivity).
  assert (E14 : rs_gi R1 = rs_gi R2) by (rewrite S14, T14; cbn [t_gi trace_of]; rewrite E1, E13; reflexivity).
  assert (E15 : rs_hr R1 = rs_hr R2) by (rewrite S15, T15; cbn [t_hr trace_of]; rewrite E9, E11, E13; reflexivity).
  assert (E16 : rs_bm R1 = rs_bm R2) by (rewrite S16, T16; cbn [t_bm trace_of]; rewrite E9, E13, E15; reflexivity).
  assert (E17 : rs_hi R1 = rs_hi R2) by (rewrite S17, T17; cbn [t_hi trace_of]; rewrite E2, E9, E11, E13, E14, E15, E16; reflexivity).
  assert (E18 : rs_rz R1 = rs_rz R2) by (rewrite S18, T18; cbn [t_rz trace_of]; rewrite E2, E14; reflexivity).
  clear - E0 E1 E2 E3 E4 E5 E6 E7 E8 E9 E10 E11 E12 E13 E14 E15 E16 E17 E18. destruct R1, R2. cbn in *. subst. reflexivity.
Qed.

Lemma results_opt_total x PO Rs : results_opt x PO = Some Rs -> results x (total PO) = Rs.
Proof.
  intros H. apply (spec_unique x (total PO)); [apply results_spec | apply spec_of_specO, results_opt_spec, H].
Qed.

Lemma mk_ctx_eq par season gs dap tsc w s : mk_ctx par season gs dap tsc w s = ctx par season gs dap tsc w s.
Proof. reflexivity. Qed.

(* a defined day is the day of Day.v run with the totalised processes *)
Theorem day_proc_opt_total par PO season gs dap tsc w s s' row :
  day_proc_opt par PO season gs dap tsc w s = Some (s', row) ->
  day_proc par (total PO) season gs dap tsc w s = (s', row) /\
  exists Rs, results_opt (ctx par season gs dap tsc w s) PO = Some Rs /\
             day_core par (total PO) season gs dap tsc w s = day_out (ctx par season gs dap tsc w s) Rs /\
             s' = state_of (ctx par season gs dap tsc w s) Rs /\ row = row_of (ctx par season gs dap tsc w s) Rs.
Proof.
  unfold day_proc_opt, day_core_opt. rewrite mk_ctx_eq.
  destruct (results_opt _ PO) as [Rs|] eqn:E; [|discriminate].
  intros [= <- <-]. pose proof (results_opt_total _ _ _ E) as Ht.
  assert (Hc : day_core par (total PO) season gs dap tsc w s = day_out (ctx par season gs dap tsc w s) Rs)
    by (rewrite day_core_out, Ht; reflexivity).
  split.
  - unfold day_proc. rewrite Hc. reflexivity.
  - exists Rs. repeat split; try reflexivity. exact Hc.
Qed.

(* ============================================================================================================ *)
(*  Part B: a call of a concrete process is a call of the unit model                                             *)
(* ============================================================================================================ *)
Lemma c_gw_inv p a r : c_gw p a = Some r ->
  exists o, Groundwater.check_groundwater_table p (gwA_fcadj a) (gwA_wt a) (gwA_gw a) = Some (gwR_fcadj r, o).
Proof. unfold c_gw. destruct (Groundwater.check_groundwater_table _ _ _ _) as [[fc o]|]; intros [= <-]. exists o. reflexivity. Qed.

Lemma c_pi_inv p a r : c_pi p a = Some r ->
  Roots.pre_irrigation p (c_Zmin (piA_crop a)) (piA_zroot a) (piA_th a) (piA_dap a) (piA_gs a) (i_method (piA_irr a)) (i_NetIrrSMT (piA_irr a))
  = Some (piR_th r, piR_preirr r).
Proof. unfold c_pi. destruct (Roots.pre_irrigation _ _ _ _ _ _ _ _) as [[th pre]|]; intros [= <-]. reflexivity. Qed.

Lemma c_dr_inv p a r : c_dr p a = Some r ->
  Drainage.drainage p (drA_th a) (drA_fcadj a) = Some (drR_th r, drR_deepperc r, drR_flux r).
Proof. unfold c_dr. destruct (Drainage.drainage _ _ _) as [[[th dp] fl]|]; intros [= <-]. reflexivity. Qed.

Lemma c_inf_inv p a r : c_inf p a = Some r ->
  Infiltration.infiltration p (infA_surf a) (infA_fcadj a) (infA_th a) (infA_infl a) (infA_irr a) (infA_eff a) (infA_bunds a) (infA_zbund a)
                            (infA_flux a) (infA_deepperc a) (infA_runoff a) (infA_gs a)
  = Some (infR_th r, infR_surf r, infR_deepperc r, infR_runoff r, infR_infl r, infR_flux r).
Proof.
  unfold c_inf. destruct (Infiltration.infiltration _ _ _ _ _ _ _ _ _ _ _ _ _) as [[[[[[th sf] dp] ro] inf] fl]|]; intros [= <-]. reflexivity.
Qed.

Lemma c_cr_inv p a r : c_cr p a = Some r ->
  exists zgw, Groundwater.capillary_rise p (crA_nlayer a) (crA_fshape a) (crA_th a) (crA_fcadj a) zgw (crA_flux a) (crA_wt a)
              = Some (crR_th r, crR_cr r).
Proof.
  unfold c_cr, obind. destruct (zgw_of _ _) as [z|]; [|discriminate].
  destruct (Groundwater.capillary_rise _ _ _ _ _ _ _ _) as [[th cr]|] eqn:E; intros [= <-]. exists z. exact E.
Qed.

Lemma c_ev_inv p a r : c_ev p a = Some r ->
  exists o, Evaporation.soil_evaporation (ev_par a) p (ev_state a) (evA_th a) (evA_et0 a) (evA_infl a) (evA_rain a) (evA_irr a) (evA_gs a) = Some o /\
            evR_th r = Evaporation.eo_th o /\ evR_surf r = Evaporation.eo_surf o /\ evR_es r = Evaporation.eo_es o /\
            evR_espot r = Evaporation.eo_espot o.
Proof.
  unfold c_ev. destruct (Evaporation.soil_evaporation _ _ _ _ _ _ _ _ _) as [o|]; intros [= <-]. exists o. repeat split; reflexivity.
Qed.

Lemma c_tr_inv crops p a r : c_tr crops p a = Some r ->
  exists o, Transpiration.transpiration p (trA_ztop a) (tr_crop (crops (c_id (trA_crop a))) (trA_crop a)) (trA_method a) (trA_smt a) (tr_state a)
                                         (trA_et0 a) (trA_co2c a) (trA_co2r a) (trA_gs a) (trA_gdd a) = Some o /\
            trR_th r = Transpiration.s_th (Transpiration.o_state o) /\ trR_surf r = Transpiration.s_surf (Transpiration.o_state o) /\
            trR_tr r = Transpiration.o_TrAct o /\ trR_irrnet r = Transpiration.o_IrrNet o /\ trR_trpot r = Transpiration.o_TrPot0 o.
Proof.
  unfold c_tr. destruct (Transpiration.transpiration _ _ _ _ _ _ _ _ _ _ _) as [o|]; intros [= <-]. exists o. repeat split; reflexivity.
Qed.

Lemma c_gi_inv p a r : c_gi p a = Some r ->
  exists zgw, Groundwater.groundwater_inflow p (giA_th a) (gi_wts a) zgw = Some (giR_th r, giR_gwin r).
Proof.
  unfold c_gi, obind. destruct (match giA_zgw a with Some z => Some z | None => _ end) as [z|]; [|discriminate].
  destruct (Groundwater.groundwater_inflow _ _ _ _) as [[th g]|] eqn:E; intros [= <-]. exists z. exact E.
Qed.

(* net irrigation is requested only by strategy 4 and only in the season *)
Lemma irrnet_inert p ztop k m smt s et0 co2c co2r gs gdd o : gs = false \/ m <> 4%Z ->
  Transpiration.transpiration p ztop k m smt s et0 co2c co2r gs gdd = Some o -> Transpiration.o_IrrNet o = 0.
Proof.
  intros H. destruct gs.
  - destruct H as [H|H]; [discriminate|]. TranspirationR.tr_inv.
    unfold Transpiration.tr_tail in Et. apply Z.eqb_neq in H. rewrite H in Et. cbn [andb] in Et.
    inversion Et; subst. rnum. reflexivity.
  - unfold Transpiration.transpiration. intros [= <-]. cbn. rnum. reflexivity.
Qed.

Lemma offered_eq (a : A_inf R) : offered a = InfiltrationR.offered (infA_infl a) (infA_irr a) (infA_eff a) (infA_gs a).
Proof. unfold offered, InfiltrationR.offered. destruct (infA_gs a); unfold Rdiv; ring. Qed.

(* ============================================================================================================ *)
(*  the day-level invariant                                                                                       *)
(* ============================================================================================================ *)
Record DayInv (par : DPar R) (s : DState R) : Prop := {
  inv_wf : wf_prof (so_prof (p_soil par));
  inv_th : in_bounds (so_prof (p_soil par)) (d_th s);                 (* th_dry <= th <= th_s, same length as the profile *)
  inv_thini : in_bounds (so_prof (p_soil par)) (d_thini s);           (* ... also for the stored initial content *)
  inv_fc : fcadj_ok (so_prof (p_soil par)) (d_th_fc_Adj s);           (* th_fc <= th_fc_Adj <= th_s *)
  inv_surf : 0 <= d_surface_storage s;
  inv_smt : 0 <= i_NetIrrSMT (p_irr par) <= 100;                      (* net-irrigation threshold, % of TAW *)
  inv_smt_f : 0 <= i_NetIrrSMT (p_fallow_irr par) <= 100;
  inv_bund : 0 <= f_bund_water (p_field par) /\ 0 <= f_z_bund (p_field par) }.

(* the bound on the ponding depth on a day: the bund height of the field management in force, 0 without bunds *)
Definition zb_of (f : DField R) : R := if f_bunds f && Rltb (1 / 1000) (f_z_bund f) then f_z_bund f else 0.

Section ConcreteDay.
  Variables (par : DPar R) (crops : Z -> CropFull R) (season : Z) (gs : bool) (dap tsc : Z) (w : Day.W R) (s : DState R).
  Variable Rs : Results R.
  Let x := ctx par season gs dap tsc w s.
  Let PO := procs_concrete crops.
  Let prof := so_prof (p_soil par).
  Let irr := sel_irr par season.
  Let field := sel_field par season gs.
  Hypothesis HR : results_opt x PO = Some Rs.
  Hypothesis Inv : DayInv par s.

  Let SO : SpecO x PO Rs := results_opt_spec _ _ _ HR.
  Let tr := trace_of x Rs.

  Lemma irr_smt : 0 <= i_NetIrrSMT irr <= 100.
  Proof. subst irr. unfold sel_irr. destruct (0 <=? season)%Z; [apply (inv_smt _ _ Inv) | apply (inv_smt_f _ _ Inv)]. Qed.

  (* ---- the calls of the water processes, as calls of the unit models on the values of the day ---------------- *)
  Lemma u_gw : exists o, Groundwater.check_groundwater_table prof (d_th_fc_Adj s) (p_water_table par) (w_gw w) = Some (gwR_fcadj (rs_gw Rs), o).
  Proof. exact (c_gw_inv _ _ _ (so_gw _ _ _ SO)). Qed.
  Lemma u_pi : Roots.pre_irrigation prof (c_Zmin (sel_crop par season)) (rdR_zroot (rs_rd Rs)) (d_th s) dap gs (i_method irr) (i_NetIrrSMT irr)
               = Some (piR_th (rs_pi Rs), piR_preirr (rs_pi Rs)).
  Proof. exact (c_pi_inv _ _ _ (so_pi _ _ _ SO)). Qed.
  Lemma u_dr : Drainage.drainage prof (piR_th (rs_pi Rs)) (gwR_fcadj (rs_gw Rs)) = Some (drR_th (rs_dr Rs), drR_deepperc (rs_dr Rs), drR_flux (rs_dr Rs)).
  Proof. exact (c_dr_inv _ _ _ (so_dr _ _ _ SO)). Qed.
  Lemma u_inf : Infiltration.infiltration prof (d_surface_storage s) (gwR_fcadj (rs_gw Rs)) (drR_th (rs_dr Rs)) (rpR_infl (rs_rp Rs)) (irR_irr (rs_ir Rs))
                  (i_AppEff irr) (f_bunds field) (f_z_bund field) (drR_flux (rs_dr Rs)) (drR_deepperc (rs_dr Rs)) (rpR_runoff (rs_rp Rs)) gs
                = Some (infR_th (rs_inf Rs), infR_surf (rs_inf Rs), infR_deepperc (rs_inf Rs), infR_runoff (rs_inf Rs), infR_infl (rs_inf Rs),
                        infR_flux (rs_inf Rs)).
  Proof. exact (c_inf_inv _ _ _ (so_inf _ _ _ SO)). Qed.
  Lemma u_cr : exists zgw, Groundwater.capillary_rise prof (so_nLayer (p_soil par)) (so_fshape_cr (p_soil par)) (infR_th (rs_inf Rs)) (gwR_fcadj (rs_gw Rs))
                             zgw (infR_flux (rs_inf Rs)) (p_water_table par) = Some (crR_th (rs_cr Rs), crR_cr (rs_cr Rs)).
  Proof. exact (c_cr_inv _ _ _ (so_cr _ _ _ SO)). Qed.
  Lemma u_ev : exists o, Evaporation.soil_evaporation (ev_par (t_ev tr)) prof (ev_state (t_ev tr)) (crR_th (rs_cr Rs)) (w_et0 w) (infR_infl (rs_inf Rs))
                           (w_rain w) (irR_irr (rs_ir Rs)) gs = Some o /\
            evR_th (rs_ev Rs) = Evaporation.eo_th o /\ evR_surf (rs_ev Rs) = Evaporation.eo_surf o /\ evR_es (rs_ev Rs) = Evaporation.eo_es o /\
            evR_espot (rs_ev Rs) = Evaporation.eo_espot o.
  Proof. exact (c_ev_inv _ _ _ (so_ev _ _ _ SO)). Qed.
  Lemma u_tr : exists o, Transpiration.transpiration prof (so_z_top (p_soil par)) (tr_crop (crops (c_id (sel_crop par season))) (sel_crop par season))
                           (i_method irr) (i_NetIrrSMT irr) (tr_state (t_tr tr)) (w_et0 w) (p_co2c par season) (p_co2r par) gs (rs_gdd Rs) = Some o /\
            trR_th (rs_tr Rs) = Transpiration.s_th (Transpiration.o_state o) /\ trR_surf (rs_tr Rs) = Transpiration.s_surf (Transpiration.o_state o) /\
            trR_tr (rs_tr Rs) = Transpiration.o_TrAct o /\ trR_irrnet (rs_tr Rs) = Transpiration.o_IrrNet o /\
            trR_trpot (rs_tr Rs) = Transpiration.o_TrPot0 o.
  Proof. exact (c_tr_inv _ _ _ _ (so_tr _ _ _ SO)). Qed.
  Lemma u_gi : exists zgw, Groundwater.groundwater_inflow prof (trR_th (rs_tr Rs)) (gi_wts (t_gi tr)) zgw = Some (giR_th (rs_gi Rs), giR_gwin (rs_gi Rs)).
  Proof. exact (c_gi_inv _ _ _ (so_gi _ _ _ SO)). Qed.

  (* ---- bounds up to infiltration (needed by the balance theorems of drainage and infiltration) ---------------- *)
  Lemma b_fc : fcadj_ok prof (gwR_fcadj (rs_gw Rs)).
  Proof. destruct u_gw as [o E]. exact (GroundwaterR.fcadj_range _ _ _ _ _ _ (inv_wf _ _ Inv) (inv_fc _ _ Inv) E). Qed.
  Lemma b_pi : in_bounds prof (piR_th (rs_pi Rs)).
  Proof. exact (proj1 (RootsR.pre_irrigation_bounds _ _ _ _ _ _ _ _ _ _ (inv_wf _ _ Inv) irr_smt (inv_th _ _ Inv) u_pi)). Qed.
  Lemma b_dr : in_bounds prof (drR_th (rs_dr Rs)).
  Proof. exact (DrainageR.drainage_bounds _ _ _ _ _ _ (inv_wf _ _ Inv) b_pi b_fc u_dr). Qed.
  Lemma b_inf : in_bounds prof (infR_th (rs_inf Rs)) /\ 0 <= infR_surf (rs_inf Rs) <= zb_of field.
  Proof.
    destruct (InfiltrationR.infiltration_bounds _ _ _ _ _ _ _ _ _ _ _ _ _ _ _ _ _ _ _ (inv_wf _ _ Inv) b_dr b_fc (inv_surf _ _ Inv) u_inf)
      as (H1 & H2 & H3 & H4 & _).
    split; [exact H1|]. unfold zb_of. destruct (f_bunds field) eqn:Eb; cbn [andb].
    - destruct (Rltb_spec (1 / 1000) (f_z_bund field)) as [Hz|Hz].
      + split; [exact H2 | apply H3; [reflexivity | exact Hz]].
      + rewrite H4 by (right; lra). lra.
    - rewrite H4 by (left; reflexivity). lra.
  Qed.

  (* ============================================================================================================ *)
  (*  Part C: the balance statements of the calls, from the unit theorems                                          *)
  (* ============================================================================================================ *)
  Lemma bal_pi : storage prof (piR_th (rs_pi Rs)) = storage prof (d_th s) + piR_preirr (rs_pi Rs).
  Proof. exact (proj1 (RootsR.pre_irrigation_balance _ _ _ _ _ _ _ _ _ _ (inv_wf _ _ Inv) u_pi)). Qed.
  Lemma inert_pi : gs = false \/ i_method irr <> 4%Z -> piR_preirr (rs_pi Rs) = 0.
  Proof.
    intros H. pose proof u_pi as E.
    rewrite RootsR.pre_irrigation_inert in E by (destruct H as [H|H]; [right; right; exact H | left; exact H]).
    inversion E. reflexivity.
  Qed.
  Lemma bal_dr : storage prof (drR_th (rs_dr Rs)) + drR_deepperc (rs_dr Rs) = storage prof (piR_th (rs_pi Rs)).
  Proof. exact (DrainageR.drainage_balance _ _ _ _ _ _ (inv_wf _ _ Inv) b_pi b_fc u_dr). Qed.
  Lemma bal_inf :
    storage prof (infR_th (rs_inf Rs)) + infR_surf (rs_inf Rs) + infR_deepperc (rs_inf Rs) + infR_runoff (rs_inf Rs) =
    storage prof (drR_th (rs_dr Rs)) + d_surface_storage s + offered (t_inf tr) + drR_deepperc (rs_dr Rs) + rpR_runoff (rs_rp Rs).
  Proof.
    rewrite offered_eq.
    exact (InfiltrationR.infiltration_balance _ _ _ _ _ _ _ _ _ _ _ _ _ _ _ _ _ _ _ (inv_wf _ _ Inv) b_dr b_fc (inv_surf _ _ Inv) u_inf).
  Qed.
  Lemma surf_id : infR_infl (rs_inf Rs) + (infR_runoff (rs_inf Rs) - rpR_runoff (rs_rp Rs)) = offered (t_inf tr).
  Proof. rewrite offered_eq. exact (InfiltrationR.surface_identity _ _ _ _ _ _ _ _ _ _ _ _ _ _ _ _ _ _ _ u_inf). Qed.
  Lemma bal_ev : storage prof (evR_th (rs_ev Rs)) + evR_surf (rs_ev Rs) + evR_es (rs_ev Rs) = storage prof (crR_th (rs_cr Rs)) + infR_surf (rs_inf Rs).
  Proof.
    destruct u_ev as (o & E & -> & -> & -> & _).
    exact (EvaporationR.evaporation_balance_wf _ _ _ _ _ _ _ _ _ _ (inv_wf _ _ Inv) E).
  Qed.
  Lemma bal_tr : storage prof (trR_th (rs_tr Rs)) + trR_surf (rs_tr Rs) + trR_tr (rs_tr Rs) =
                 storage prof (evR_th (rs_ev Rs)) + evR_surf (rs_ev Rs) + trR_irrnet (rs_tr Rs).
  Proof.
    destruct u_tr as (o & E & -> & -> & -> & -> & _).
    exact (TranspirationR.transpiration_balance _ _ _ _ _ _ _ _ _ _ _ _ (inv_wf _ _ Inv) E).
  Qed.
  Lemma inert_tr : gs = false \/ i_method irr <> 4%Z -> trR_irrnet (rs_tr Rs) = 0.
  Proof. intros H. destruct u_tr as (o & E & _ & _ & _ & -> & _). exact (irrnet_inert _ _ _ _ _ _ _ _ _ _ _ _ H E). Qed.
  Lemma bal_gi : storage prof (giR_th (rs_gi Rs)) = storage prof (trR_th (rs_tr Rs)) + giR_gwin (rs_gi Rs).
  Proof. destruct u_gi as (z & E). exact (GroundwaterR.gw_inflow_balance _ _ _ _ _ _ E). Qed.

  Lemma core_eq : day_core par (total PO) season gs dap tsc w s = day_out x Rs.
  Proof. rewrite day_core_out. fold x. rewrite (results_opt_total _ _ _ HR). reflexivity. Qed.

  Lemma concrete_calls_balance : CallsBalance par (total PO) season gs dap tsc w s.
  Proof.
    destruct (spec_of_specO _ _ _ SO) as [S0 S1 S2 S3 S4 S5 S6 S7 S8 S9 S10 S11 S12 S13 S14 S15 S16 S17 S18].
    change (x_prof x) with prof in *.
    constructor; rewrite core_eq; cbn [o_trace day_out]; fold prof;
      rewrite <- ?S3, <- ?S4, <- ?S7, <- ?S12, <- ?S13, <- ?S14.
    - exact bal_pi.
    - exact inert_pi.
    - exact bal_dr.
    - exact bal_inf.
    - exact surf_id.
    - exact bal_ev.
    - exact bal_tr.
    - exact inert_tr.
    - exact bal_gi.
  Qed.

  (* the water added by capillary rise differs from the reported CR by at most the rounding allowance *)
  Definition cr_allowance (p : list (Comp R)) : R := GroundwaterR.eps4 * 1000 * fold_right (fun c a => c_dz c + a) 0 p.
  Lemma cr_close : Rabs (crR_cr (rs_cr Rs) - (storage prof (crR_th (rs_cr Rs)) - storage prof (infR_th (rs_inf Rs)))) <= cr_allowance prof.
  Proof.
    destruct u_cr as (z & E).
    destruct (GroundwaterR.capillary_balance _ _ _ _ _ _ _ _ _ _ (inv_wf _ _ Inv)
                (eq_sym (in_bounds_length _ _ (proj1 b_inf))) (eq_sym (fcadj_ok_length _ _ b_fc)) E) as (ca & H1 & H2).
    fold prof in H1, H2.
    assert (Hca : ca = storage prof (crR_th (rs_cr Rs)) - storage prof (infR_th (rs_inf Rs))) by lra.
    rewrite <- Hca. exact H2.
  Qed.

  (* ============================================================================================================ *)
  (*  Part D: bounds                                                                                               *)
  (* ============================================================================================================ *)
  (* What is assumed about the day beyond [DayInv].  Each item is a fact of another property, about intermediate values
     of this very day:
     - side_cap: with a water table the adjusted field capacity leaves room for the 0.5e-4 overshoot of capillary rise
       (the code stores `th_fc_Adj - th` after rounding it to 4 decimals for the comparison; GroundwaterR.capillary_in_bounds
       needs exactly this, and capillary_in_bounds_refuted shows th_s can be exceeded by eps4 without it);
     - side_espot / side_trpot: potential evaporation / transpiration of the day are non-negative (C04: EvaporationR.espot_nonneg,
       TranspirationR.trpot_nonneg, whose own hypotheses are the canopy-state ranges of C05);
     - side_trwf: TranspirationR.tr_wf for the call of the day (profile geometry, SxTop, SxBot, Zmin >= 0, LagAer > 1, and on
       the values handed to transpiration: r_cor >= 0 from root_development, aeration counters >= 0, day_submerged an integer >= 0);
     - side_layers: with net irrigation the compartments of a layer share th_wp / th_fc (TranspirationR.layers_ok). *)
  Record DaySide : Prop := {
    side_cap : p_water_table par = 1%Z ->
               Forall2 (fun c a => c_th_fc c <= a /\ a + GroundwaterR.eps4 <= c_th_s c) prof (gwR_fcadj (rs_gw Rs));
    side_espot : 0 <= evR_espot (rs_ev Rs);
    side_trpot : 0 <= trR_trpot (rs_tr Rs);
    side_trwf : TranspirationR.tr_wf prof (tr_crop (crops (c_id (sel_crop par season))) (sel_crop par season)) (tr_state (t_tr tr));
    side_layers : i_method irr = 4%Z -> TranspirationR.layers_ok prof }.
  Hypothesis Side : DaySide.

  Lemma b_cr : in_bounds prof (crR_th (rs_cr Rs)).
  Proof.
    destruct u_cr as (z & E). destruct b_inf as [Hb _].
    destruct (Z.eq_dec (p_water_table par) 1) as [W1|W1].
    - exact (GroundwaterR.capillary_in_bounds _ _ _ _ _ _ _ _ _ _ (inv_wf _ _ Inv) Hb (side_cap Side W1) E).
    - unfold Groundwater.capillary_rise in E. destruct (Z.eqb_spec (p_water_table par) 0) as [W0|W0].
      + inversion E as [[E1 E2]]. exact Hb.
      + destruct (Z.eqb_spec (p_water_table par) 1); [contradiction | discriminate].
  Qed.
  Lemma b_ev : in_bounds prof (evR_th (rs_ev Rs)) /\ 0 <= evR_surf (rs_ev Rs) <= zb_of field.
  Proof.
    pose proof (side_espot Side) as Hes. destruct u_ev as (o & E & -> & -> & _ & Ep). rewrite Ep in Hes.
    destruct (EvaporationR.evaporation_bounds _ _ _ _ _ _ _ _ _ _ (inv_wf _ _ Inv) b_cr E) as [H1 _].
    destruct b_inf as [_ Hs].
    pose proof (EvaporationR.evaporation_surface_bounds _ _ _ _ _ _ _ _ _ _ E Hes) as H2.
    cbn [ev_state Evaporation.es_surf t_ev tr trace_of arg_ev evA_surf] in H2. specialize (H2 (proj1 Hs)).
    split; [exact H1 | lra].
  Qed.
  Lemma b_tr : in_bounds prof (trR_th (rs_tr Rs)) /\ 0 <= trR_surf (rs_tr Rs) <= zb_of field.
  Proof.
    pose proof (side_trpot Side) as Htp. destruct u_tr as (o & E & -> & -> & _ & _ & Ep). rewrite Ep in Htp.
    destruct b_ev as [Hb Hs].
    assert (Hm : i_method irr = 4%Z -> 0 <= i_NetIrrSMT irr <= 100 /\ TranspirationR.layers_ok prof)
      by (intros M; split; [exact irr_smt | exact (side_layers Side M)]).
    destruct (TranspirationR.transpiration_bounds _ _ _ _ _ _ _ _ _ _ _ _ (side_trwf Side) Hm Hb E) as [H1 H2].
    specialize (H2 Htp). cbn [tr_state Transpiration.s_surf t_tr tr trace_of arg_tr trA_surf] in H2. specialize (H2 (proj1 Hs)).
    split; [exact H1 | lra].
  Qed.
  Lemma b_gi : in_bounds prof (giR_th (rs_gi Rs)).
  Proof. destruct u_gi as (z & E). exact (GroundwaterR.gw_inflow_in_bounds _ _ _ _ _ _ (proj1 b_tr) E). Qed.

  (* the state after the day *)
  Lemma state_bounds : in_bounds prof (d_th (state_of x Rs)) /\ 0 <= d_surface_storage (state_of x Rs) <= zb_of field.
  Proof. split; [exact b_gi | exact (proj2 b_tr)]. Qed.

  Lemma inv_after : DayInv par (state_of x Rs).
  Proof.
    constructor; try apply Inv.
    - exact b_gi.
    - exact b_fc.
    - exact (proj1 (proj2 b_tr)).
  Qed.
End ConcreteDay.

(* C01 for the concrete day: every term but the capillary one is read from the flux row; the capillary term is within
   the rounding allowance of the reported CR (eps4 = 0.5e-4 of water content per compartment) *)
Theorem day_balance_concrete par crops season gs dap tsc w s s' row :
  DayInv par s ->
  day_proc_opt par (procs_concrete crops) season gs dap tsc w s = Some (s', row) ->
  let prof := so_prof (p_soil par) in
  let f := r_flux row in
  exists CRact,
    storage prof (d_th s') + d_surface_storage s' - (storage prof (d_th s) + d_surface_storage s) =
    fl_Infl f + (if (i_method (sel_irr par season) =? 4)%Z then fl_IrrDay f else 0) + CRact + fl_GwIn f - fl_DeepPerc f - fl_Es f - fl_Tr f
    /\ Rabs (fl_CR f - CRact) <= cr_allowance prof.
Proof.
  intros Inv H. cbv zeta.
  destruct (day_proc_opt_total _ _ _ _ _ _ _ _ _ _ H) as (Hp & Rs & HR & Hc & -> & ->).
  pose proof (day_balance par (total (procs_concrete crops)) season gs dap tsc w s
                (concrete_calls_balance par crops season gs dap tsc w s Rs HR Inv)) as B.
  cbv zeta in B. rewrite Hc in B. cbn [o_state o_row day_out] in B.
  eexists. split; [exact B|].
  unfold CRactual. rewrite Hc. cbn [o_trace day_out t_cr trace_of].
  destruct (spec_of_specO _ _ _ (results_opt_spec _ _ _ HR)) as [_ _ _ _ _ _ _ _ S8 _ _ _ _ _ _ _ _ _ _].
  cbn [t_cr trace_of] in S8. change (x_prof (ctx par season gs dap tsc w s)) with (so_prof (p_soil par)) in S8. rewrite <- S8.
  exact (cr_close par crops season gs dap tsc w s Rs HR Inv).
Qed.


(* C03 for the concrete day *)
Theorem day_bounds_concrete par crops season gs dap tsc w s s' row :
  DayInv par s ->
  day_proc_opt par (procs_concrete crops) season gs dap tsc w s = Some (s', row) ->
  (forall Rs, results_opt (ctx par season gs dap tsc w s) (procs_concrete crops) = Some Rs -> DaySide par crops season gs dap tsc w s Rs) ->
  let prof := so_prof (p_soil par) in
  in_bounds prof (d_th s') /\ 0 <= d_surface_storage s' <= zb_of (sel_field par season gs) /\
  in_bounds prof (st_th (r_sto row)) /\ fl_surf (r_flux row) = d_surface_storage s' /\
  DayInv par s'.
Proof.
  intros Inv H Side. cbv zeta.
  destruct (day_proc_opt_total _ _ _ _ _ _ _ _ _ _ H) as (_ & Rs & HR & _ & -> & ->).
  specialize (Side Rs HR).
  destruct (state_bounds par crops season gs dap tsc w s Rs HR Inv Side) as [H1 H2].
  split; [exact H1|]. split; [exact H2|]. split; [exact H1|]. split; [reflexivity|].
  exact (inv_after par crops season gs dap tsc w s Rs HR Inv Side).
Qed.

(* the season reset keeps the invariant (th restarts from the stored initial content, ponding from the bund water) *)
Theorem reset_inv_preserved par k ws s : DayInv par s -> DayInv par (reset par k ws s).
Proof.
  intros I. constructor; try apply I; cbn [reset d_th d_thini d_th_fc_Adj d_surface_storage].
  - destruct (negb (p_sim_off par)); apply I.
  - destruct (negb (p_sim_off par)); [|apply I].
    destruct (inv_bund _ _ I) as [Hw Hz].
    destruct (f_bunds (p_field par) && _); [|rnum; lra].
    unfold pmin. rnum. destruct (Rltb _ _); assumption.
Qed.


(* ============================================================================================================ *)
(*  Part E: the concrete day outside the growing season (C04 / C05 / C13 shares)                                   *)
(* ============================================================================================================ *)
Lemma c_tr_off crops p a r : trA_gs a = false -> c_tr crops p a = Some r ->
  trR_tr r = 0 /\ trR_trpot r = 0 /\ trR_trpot_ns r = 0 /\ trR_irrnet r = 0 /\ trR_th r = trA_th a /\ trR_surf r = trA_surf a /\
  trR_irr_net_cum r = 0 /\ trR_t_pot r = 0.
Proof.
  intros E. unfold c_tr. rewrite E. unfold Transpiration.transpiration. intros [= <-]. cbn. rnum. repeat split; reflexivity.
Qed.
Lemma c_ir_off p a r : irA_gs a = false -> c_ir p a = Some r ->
  irR_irr r = 0 /\ irR_irrcum r = 0 /\ irR_depletion r = 0 /\ irR_taw r = 0.
Proof.
  intros E. unfold c_ir. rewrite E, RainIrrR.irrigation_off_season. intros [= <-]. cbn. repeat split; reflexivity.
Qed.
Lemma c_cc_off crops p a r : ccA_gs a = false -> c_cc crops p a = Some r ->
  ccR_cc r = 0 /\ ccR_cc_ns r = 0 /\ ccR_cc_adj r = 0 /\ ccR_cc_adj_ns r = 0 /\ ccR_ccx_w r = 0 /\ ccR_ccx_act r = 0 /\
  ccR_cc_prev r = ccA_cc a /\ ccR_dead r = ccA_dead a.
Proof.
  intros E. unfold c_cc. rewrite E. unfold Canopy.canopy_cover. intros [= <-]. cbn. rnum. repeat split; reflexivity.
Qed.
Lemma c_bm_off crops a r : bmA_gs a = false -> c_bm crops a = Some r -> bmR_b r = 0 /\ bmR_bns r = 0.
Proof. intros E. unfold c_bm. rewrite E. unfold Yield.biomass_accumulation. intros [= <-]. cbn. rnum. split; reflexivity. Qed.
Lemma c_gst_off crops a r : gstA_gs a = false -> c_gst crops a = Some r -> gstR_stage r = 0%Z.
Proof. intros E. unfold c_gst. rewrite E. unfold RainIrr.growth_stage. intros [= <-]. reflexivity. Qed.
Lemma c_rd_off crops p a r : rdA_gs a = false -> c_rd crops p a = Some r -> rdR_zroot r = 0 /\ rdR_rcor r = rdA_rcor a.
Proof.
  intros E. unfold c_rd, obind. destruct (zgw_of _ _); [|discriminate]. rewrite E. unfold Roots.root_development.
  intros [= <-]. cbn. rnum. split; reflexivity.
Qed.
Lemma c_ge_off p a r : geA_gs a = false -> c_ge p a = Some r -> geR_germ r = false /\ geR_dcd r = 0%Z /\ geR_dgdd r = 0.
Proof. intros E. unfold c_ge. rewrite E. unfold Roots.germination. intros [= <-]. cbn. rnum. repeat split; reflexivity. Qed.
Lemma c_hi_off crops p a r : hiA_gs a = false -> c_hi crops p a = Some r -> hiR_hi r = 0 /\ hiR_hiadj r = 0.
Proof. intros E. unfold c_hi. rewrite E. unfold Yield.harvest_index. intros [= <-]. cbn. rnum. split; reflexivity. Qed.

(* outside the season the concrete day transpires nothing, irrigates nothing, has no canopy, no biomass, no roots, no
   yield; transpiration leaves water content and ponding as evaporation left them *)
Theorem off_season_concrete par crops season dap tsc w s s' row :
  day_proc_opt par (procs_concrete crops) season false dap tsc w s = Some (s', row) ->
  let f := r_flux row in let g := r_growth row in
  fl_Tr f = 0 /\ fl_TrPot f = 0 /\ fl_IrrDay f = 0 /\ d_irr_cum s' = 0 /\ d_irr_net_cum s' = 0 /\ d_t_pot s' = 0 /\
  gr_cc g = 0 /\ gr_cc_ns g = 0 /\ gr_B g = 0 /\ gr_B_ns g = 0 /\ gr_z_root g = 0 /\ gr_HI g = 0 /\ gr_HIadj g = 0 /\
  gr_Dry g = 0 /\ gr_Fresh g = 0 /\ gr_Pot g = 0 /\ gr_gdd_cum g = 0 /\
  d_growth_stage s' = 0%Z /\ d_germination s' = false /\ d_delayed_cds s' = 0%Z /\ d_delayed_gdds s' = 0 /\
  d_canopy_cover_adj s' = 0 /\ d_ccx_w s' = 0 /\ d_ccx_act s' = 0 /\ d_crop_dead s' = d_crop_dead s /\ d_cc_prev s' = d_canopy_cover s.
Proof.
  intros H. cbv zeta.
  destruct (day_proc_opt_total _ _ _ _ _ _ _ _ _ _ H) as (_ & Rs & HR & _ & -> & ->).
  destruct (results_opt_spec _ _ _ HR) as [_ _ S2 S3 _ _ S6 _ _ S9 S10 S11 _ S13 _ _ S16 S17 _].
  cbn [procs_concrete po_rd po_pi po_ir po_ge po_gst po_cc po_tr po_bm po_hi] in S2, S3, S6, S9, S10, S11, S13, S16, S17.
  pose proof (fun E => c_rd_off _ _ _ _  E S2) as XS2; specialize (XS2 eq_refl); destruct XS2 as (R1 & _).
  pose proof (RootsR.pre_irrigation_inert) as _.
  pose proof (fun E => c_ir_off _ _ _  E S6) as XS6; specialize (XS6 eq_refl); destruct XS6 as (I1 & I2 & _).
  pose proof (fun E => c_ge_off _ _ _  E S9) as XS9; specialize (XS9 eq_refl); destruct XS9 as (G1 & G2 & G3).
  pose proof (fun E => c_gst_off _ _ _ E S10) as St; specialize (St eq_refl).
  pose proof (fun E => c_cc_off _ _ _ _  E S11) as XS11; specialize (XS11 eq_refl); destruct XS11 as (C1 & C2 & C3 & _ & C5 & C6 & C7 & C8).
  pose proof (fun E => c_tr_off _ _ _ _  E S13) as XS13; specialize (XS13 eq_refl); destruct XS13 as (T1 & T2 & _ & _ & _ & _ & T7 & T8).
  pose proof (fun E => c_bm_off _ _ _  E S16) as XS16; specialize (XS16 eq_refl); destruct XS16 as (B1 & B2).
  pose proof (fun E => c_hi_off _ _ _ _  E S17) as XS17; specialize (XS17 eq_refl); destruct XS17 as (H1 & H2).
  assert (P0 : piR_preirr (rs_pi Rs) = 0).
  { pose proof (c_pi_inv _ _ _ S3) as E. rewrite RootsR.pre_irrigation_inert in E by (right; right; reflexivity). inversion E. reflexivity. }
  assert (Tc : trR_cc (rs_tr Rs) = 0).
  { unfold c_tr in S13. cbn [t_tr trace_of arg_tr trA_gs x_gs ctx] in S13. unfold Transpiration.transpiration in S13.
    inversion S13 as [E]. cbn. exact C1. }
  cbn [state_of row_of r_flux r_growth fl_Tr fl_TrPot fl_IrrDay d_irr_cum d_irr_net_cum d_t_pot gr_cc gr_cc_ns gr_B gr_B_ns gr_z_root
       gr_HI gr_HIadj gr_Dry gr_Fresh gr_Pot gr_gdd_cum d_growth_stage d_germination d_delayed_cds d_delayed_gdds d_canopy_cover_adj
       d_ccx_w d_ccx_act d_crop_dead d_cc_prev].
  unfold irrday_of, dry_of, fresh_of, ypot_of, gdd_cum_of. cbn [x_gs ctx].
  rewrite ?T1, ?T2, ?I2, ?T7, ?T8, ?P0, ?Tc, ?C2, ?B1, ?B2, ?R1, ?H1, ?H2, ?St, ?G1, ?G2, ?G3, ?C3, ?C5, ?C6.
  repeat split; try reflexivity; rnum; try lra; try assumption.
Qed.

(* the invariant is satisfiable (the instance of DayP.Ex: one compartment at field capacity, 2 mm ponded, bunds) *)
Example day_inv_satisfiable : DayInv Ex.par0 Ex.zeroS.
Proof.
  constructor; cbn.
  - repeat constructor; cbn; lra.
  - repeat constructor; cbn; lra.
  - repeat constructor; cbn; lra.
  - repeat constructor; cbn; lra.
  - lra.
  - lra.
  - lra.
  - lra.
Qed.
