(* DayCropRowsInit.v — the crop-state part of C05 (DayCropRowsP.v: canopy cover, rooting depth, harvest index, biomass of every
   growth row) from the INITIAL state and from the user's CONFIGURATION.

   Part A  [init_state_cinv3]: the state built by Init/InitState.v [init_state] satisfies the crop invariant [CInv3] for the season
           counter it was built for and dap = 0 — no field fails; premises: hiref_crop_ok / hi_crop_ok of the crop of that season
           counter and 0 <= HI0 of the first season's record (all three are fields of [CropHIOK]); [init_clock_cinv3]: [CInvS] of
           the initial model.
   Part B  [run_from_init_crop_rows(_cap)], [run_steps_from_init_crop_rows(_cap)]: InitStateP.run_from_init with
           [crop_rows_day] for every event in the conclusion (premise added: [ParHIOK]).
   Part C  configuration level: which part of [ParHIOK] follows from the user's crop ([CropYOK], a premise on the CONFIGURATION)
           and which remains on the derived parameters ([TawOK]); [run_config_crop_rows], [run_config_crop_rows_cfg].
   Part D  catalogue: the numeric part of CropHIOK that depends on a catalogue row alone, for all 37 rows.
   Part E  examples, Print Assumptions. *)
From Coq Require Import Reals List Bool ZArith Lra Lia.
From AC Require Import Num RInst Params Kernels Clock Day DayConcrete RunConcrete.
From AC.Water Require RootZone Transpiration.
From AC.Crop Require Canopy Roots Yield.
From AC.Init Require Import SoilBuild InitState.
From AC.proofs Require Import ProfR DayP DayConcreteP ClockP RunP RunConcreteP DaySideU DaySideP DaySideRun DaySideRun2 DayRowsP DaySideRows.
From AC.proofs Require Import InitStateP DayCropRowsP.
From AC.proofs Require YieldR RootsR.
Import ListNotations.
Local Open Scope R_scope.

#[local] Existing Instance YieldR.RTrig.

(* ============================================================================================================ *)
(*  Part A  the initial state                                                                                     *)
(* ============================================================================================================ *)
(* the harvest-index state of init_state: HI = HIadj = 0, fpre = fpost = fpost_upp = fpost_dwn = 1, fpol = sCor1 = sCor2 = 0,
   HIfinal = HI0 of the first season's crop record; dap = 0, so the root part of the invariant is void *)
Theorem init_state_cinv3 par crops k zgw0 fcr th0 s :
  YieldR.hiref_crop_ok (cf_y (crops (c_id (sel_crop par k)))) ->
  YieldR.hi_crop_ok (cf_y (crops (c_id (sel_crop par k)))) ->
  0 <= c_HI0 (p_crop par 0%Z) ->
  init_state par k zgw0 fcr th0 = Some s -> CInv3 par crops k 0 s.
Proof.
  intros Hrc [_ H0 Hd _ _ _ _ _] Hf E. destruct (init_state_inv _ _ _ _ _ _ E) as (z & b & fc & th & _ & ->).
  constructor.
  - cbn [d_HIfinal]. exact Hf.
  - constructor; cbn [hstate_st d_harvest_index d_harvest_index_adj d_pre_adj d_f_pre d_f_pol d_s_cor1 d_s_cor2 d_fpost_upp d_fpost_dwn
                      d_f_post Yield.h_hi Yield.h_hiadj Yield.h_fpre Yield.h_fpol Yield.h_scor1 Yield.h_scor2 Yield.h_upp Yield.h_dwn Yield.h_fpost];
      try lra. unfold YieldR.hi_cap. split; [lra|]. apply Rmult_le_pos; lra.
  - intros dap' dcd' _. cbn [d_harvest_index d_HIfinal]. apply HRf_range; assumption.
  - intros D. contradiction D. reflexivity.
Qed.

Corollary init_state_cinv3_hiok par crops k zgw0 fcr th0 s :
  ParHIOK par crops -> init_state par k zgw0 fcr th0 = Some s -> CInv3 par crops k 0 s.
Proof.
  intros PH. apply init_state_cinv3; [exact (ho_hiref _ _ _ (PH k)) | exact (ho_hi _ _ _ (PH k)) | exact (ho_HI0 _ _ _ (PH 0%Z))].
Qed.

(* [CInvS] of the initial model: the clock starts with season counter [init_season c] and dap = 0 *)
Lemma init_clock_cinv3 par crops c (s0 : DState R) (m0 : Model (DState R) (DRow R) (DOut R)) :
  init_c c s0 = Ok m0 -> CInv3 par crops (init_season c) 0 s0 -> CInvS par crops (st m0).
Proof.
  unfold init_c, init_model, init_season, CInvS. destruct (plant c) as [|p r]; [discriminate|]. intros [= <-] H.
  cbn [st season dap phys]. exact H.
Qed.

(* ============================================================================================================ *)
(*  Part B  from the initial state to the crop columns of every day                                               *)
(* ============================================================================================================ *)
Section FromInitCrop.
  Variables (par : DPar R) (crops : Z -> CropFull R) (c : ClockP) (ws : list (Day.W R)).
  Variables (zgw0 : option R) (fcr : bool) (th0 : list R) (s0 : DState R).
  Variables (m0 : Model (DState R) (DRow R) (DOut R)).
  (* the premises of InitStateP.run_from_init_cap ... *)
  Hypothesis Hcn : cn_ok par.
  Hypothesis Hmax : 0 <= i_MaxIrrSeason (p_irr par).
  Hypothesis POK : ParOK par crops.
  Hypothesis MOK : MgmtOK par.
  Hypothesis Hwf : wf_clock c.
  Hypothesis Hws : weather_ok (Day.W R) WOK2 ws.
  Hypothesis HSeason : forall k p h, nthZ (plant c) k = Some p -> nthZ (harv c) k = Some h ->
    let kk := cf_tr (crops (c_id (sel_crop par k))) in
    (IZR (h - p) - Transpiration.k_MaxCanopyCD kk - 5) * (Transpiration.k_fage kk / 100) <= Transpiration.k_Kcb kk.
  Hypothesis Htab : table_ok (so_prof (p_soil par)) (p_water_table par).
  Hypothesis HCap : forall season gs dap tsc w s Rs,
    results_opt (ctx par season gs dap tsc w s) (procs_concrete crops) = Some Rs -> CapOK par Rs.
  Hypothesis Hth0 : in_bounds (so_prof (p_soil par)) th0.
  Hypothesis Hinit : init_state par (init_season c) zgw0 fcr th0 = Some s0.
  Hypothesis Hclock : init_c c s0 = Ok m0.
  (* ... and the yield-side static conditions of every season's crop *)
  Hypothesis HIOK : ParHIOK par crops.

  Lemma from_init_crop_premises :
    minv (DState R) (DRow R) (DOut R) c m0 /\ SInv par crops (st m0) /\ DapInv (DState R) c (st m0) /\ RInv2 par (phys (st m0)) /\
    CInvS par crops (st m0).
  Proof.
    destruct (from_init_premises par crops c zgw0 fcr th0 s0 m0 Hmax POK MOK Hwf Htab Hth0 Hinit Hclock) as (A & B & C & D).
    split; [exact A|]. split; [exact B|]. split; [exact C|]. split; [exact D|].
    apply (init_clock_cinv3 par crops c s0 m0 Hclock). exact (init_state_cinv3_hiok par crops _ zgw0 fcr th0 s0 HIOK Hinit).
  Qed.

  Theorem run_from_init_crop_rows_cap fuel (m' : Model (DState R) (DRow R) (DOut R)) :
    run_till_c par crops c ws fuel m0 = Some (GOk m') ->
    exists evs : list (Ev (DState R) (Day.W R) (DRow R)),
      Reach (DState R) (Day.W R) (DRow R) (DOut R) (proc_c par crops) dead (matured par) (summary_of par) (reset par) (defined_c par crops)
            c ws m0 evs m' /\
      SInv par crops (st m') /\ RInv2 par (phys (st m')) /\ CInvS par crops (st m') /\
      Forall (fun e => strong_ev par crops e /\ rows_day par crops e /\ crop_rows_day par crops e) evs /\
      chained _ _ _ (reset par) ws (phys (st m')) evs /\
      rows (tabs m') = map (fun e => (e_tsc _ _ _ e, e_row _ _ _ e)) evs ++ rows (tabs m0).
  Proof.
    destruct from_init_crop_premises as (A & B & C & D & E).
    exact (run_till_crop_rows_strong_season par crops Hcn Hmax POK HIOK c ws Hwf Hws HSeason HCap fuel m0 m' A B C D E).
  Qed.

  Theorem run_steps_from_init_crop_rows_cap k (m' : Model (DState R) (DRow R) (DOut R)) :
    run_steps_c par crops c ws k m0 = GOk m' ->
    exists evs : list (Ev (DState R) (Day.W R) (DRow R)),
      Reach (DState R) (Day.W R) (DRow R) (DOut R) (proc_c par crops) dead (matured par) (summary_of par) (reset par) (defined_c par crops)
            c ws m0 evs m' /\
      SInv par crops (st m') /\ RInv2 par (phys (st m')) /\ CInvS par crops (st m') /\
      Forall (fun e => strong_ev par crops e /\ rows_day par crops e /\ crop_rows_day par crops e) evs /\
      chained _ _ _ (reset par) ws (phys (st m')) evs /\
      rows (tabs m') = map (fun e => (e_tsc _ _ _ e, e_row _ _ _ e)) evs ++ rows (tabs m0).
  Proof.
    destruct from_init_crop_premises as (A & B & C & D & E).
    exact (run_steps_crop_rows_strong_season par crops Hcn Hmax POK HIOK c ws Hwf Hws HSeason HCap k m0 m' A B C D E).
  Qed.
End FromInitCrop.

(* THE CLOSED STATEMENT (no water table): run_model(till_termination = True) right after _initialize(); the premises of
   InitStateP.run_from_init plus [ParHIOK]; every event additionally satisfies [crop_rows_day] *)
Theorem run_from_init_crop_rows par crops c ws zgw0 fcr th0 s0 (m0 m' : Model (DState R) (DRow R) (DOut R)) fuel :
  cn_ok par -> 0 <= i_MaxIrrSeason (p_irr par) -> ParOK par crops -> ParHIOK par crops -> MgmtOK par ->
  wf_clock c -> weather_ok (Day.W R) WOK2 ws ->
  (forall k p h, nthZ (plant c) k = Some p -> nthZ (harv c) k = Some h ->
     let kk := cf_tr (crops (c_id (sel_crop par k))) in
     (IZR (h - p) - Transpiration.k_MaxCanopyCD kk - 5) * (Transpiration.k_fage kk / 100) <= Transpiration.k_Kcb kk) ->
  p_water_table par = 0%Z ->
  in_bounds (so_prof (p_soil par)) th0 ->
  init_state par (init_season c) zgw0 fcr th0 = Some s0 ->
  init_c c s0 = Ok m0 ->
  run_till_c par crops c ws fuel m0 = Some (GOk m') ->
  exists evs : list (Ev (DState R) (Day.W R) (DRow R)),
    Reach (DState R) (Day.W R) (DRow R) (DOut R) (proc_c par crops) dead (matured par) (summary_of par) (reset par) (defined_c par crops)
          c ws m0 evs m' /\
    SInv par crops (st m') /\ RInv2 par (phys (st m')) /\ CInvS par crops (st m') /\
    Forall (fun e => strong_ev par crops e /\ rows_day par crops e /\ crop_rows_day par crops e) evs /\
    chained _ _ _ (reset par) ws (phys (st m')) evs /\
    rows (tabs m') = map (fun e => (e_tsc _ _ _ e, e_row _ _ _ e)) evs ++ rows (tabs m0).
Proof.
  intros Hcn Hmax P PH M Hwf Hws HS Hwt Hth Hi Hc.
  apply (run_from_init_crop_rows_cap par crops c ws zgw0 fcr th0 s0 m0 Hcn Hmax P M Hwf Hws HS (or_introl Hwt)); try assumption.
  intros season gs dap tsc w s Rs _. apply CapOK_no_table. rewrite Hwt. discriminate.
Qed.

(* run_model(num_steps = k, initialize_model = False) right after _initialize() *)
Theorem run_steps_from_init_crop_rows par crops c ws zgw0 fcr th0 s0 (m0 m' : Model (DState R) (DRow R) (DOut R)) k :
  cn_ok par -> 0 <= i_MaxIrrSeason (p_irr par) -> ParOK par crops -> ParHIOK par crops -> MgmtOK par ->
  wf_clock c -> weather_ok (Day.W R) WOK2 ws ->
  (forall k p h, nthZ (plant c) k = Some p -> nthZ (harv c) k = Some h ->
     let kk := cf_tr (crops (c_id (sel_crop par k))) in
     (IZR (h - p) - Transpiration.k_MaxCanopyCD kk - 5) * (Transpiration.k_fage kk / 100) <= Transpiration.k_Kcb kk) ->
  p_water_table par = 0%Z ->
  in_bounds (so_prof (p_soil par)) th0 ->
  init_state par (init_season c) zgw0 fcr th0 = Some s0 ->
  init_c c s0 = Ok m0 ->
  run_steps_c par crops c ws k m0 = GOk m' ->
  exists evs : list (Ev (DState R) (Day.W R) (DRow R)),
    Reach (DState R) (Day.W R) (DRow R) (DOut R) (proc_c par crops) dead (matured par) (summary_of par) (reset par) (defined_c par crops)
          c ws m0 evs m' /\
    SInv par crops (st m') /\ RInv2 par (phys (st m')) /\ CInvS par crops (st m') /\
    Forall (fun e => strong_ev par crops e /\ rows_day par crops e /\ crop_rows_day par crops e) evs /\
    chained _ _ _ (reset par) ws (phys (st m')) evs /\
    rows (tabs m') = map (fun e => (e_tsc _ _ _ e, e_row _ _ _ e)) evs ++ rows (tabs m0).
Proof.
  intros Hcn Hmax P PH M Hwf Hws HS Hwt Hth Hi Hc.
  apply (run_steps_from_init_crop_rows_cap par crops c ws zgw0 fcr th0 s0 m0 Hcn Hmax P M Hwf Hws HS (or_introl Hwt)); try assumption.
  intros season gs dap tsc w s Rs _. apply CapOK_no_table. rewrite Hwt. discriminate.
Qed.

(* ============================================================================================================ *)
(*  Part C  configuration level                                                                                   *)
(* ============================================================================================================ *)
(* What CropHIOK needs, split by where it comes from.
   (1) From the user's CROP record alone (catalogue row after the overrides) — [CropYOK], a premise on the configuration:
       crop type 1..3, 0 < HIini <= HI0, -100 <= dHI0 (0 <= dHI0 for leafy crops), -100 <= exc, b_HI >= 1 when positive, the three
       shape factors fshape_w1..3 non-zero, 0 <= WP, 0 <= WPy <= 100.
   (2) From the initialisation itself (proved here from `initialise cfg = IOk i`): HIGC and the linear switch of every season's
       crop record are the results of calculate_HIGC / calculate_HI_linear on that record's YldFormCD ([YOutOK]) — hence
       0 <= HIGC and 0 <= dHILinear (CropInitR.crop_init_hiref_ok).
   (3) Remaining premises on the DERIVED parameters ([CropYDerivedOK], per season): 0 < YldFormCD and HIstartCD <= CanopyDevEndCD (both
       come out of the crop calendar; in calendar-day mode YldFormCD is the user's number), 0 <= fCO2 (CO2 response), and [TawOK]
       (profile and Zmin; discharged from the profile by [taw_ok_profile] below under a static premise on the first compartment). *)
From AC.Init Require Calendar Inputs CropInit.
From AC.Init Require Import Initialise.
From AC.proofs Require Import CalendarP InputsP SoilBuildR InitialiseP InitialiseP2 CropInitR.

Record CropYOK (u : CropU R) : Prop := {
  cy_type : (u_CropType u = 1 \/ u_CropType u = 2 \/ u_CropType u = 3)%Z;
  cy_ini : 0 < u_HIini u <= u_HI0 u;
  cy_dHI0 : -100 <= u_dHI0 u;
  cy_leafy : u_CropType u = 1%Z -> 0 <= u_dHI0 u;
  cy_exc : -100 <= u_exc u;
  cy_bHI : 0 < u_b_HI u -> 1 <= u_b_HI u;
  cy_fw1 : u_fw1 u <> 0; cy_fw2 : u_fw2 u <> 0; cy_fw3 : u_fw3 u <> 0;
  cy_WP : 0 <= u_WP u;
  cy_WPy : 0 <= u_WPy u <= 100 }.

(* HIGC, tLinSwitch and dHILinear of a crop record are what calculate_HIGC / calculate_HI_linear return on its YldFormCD *)
Definition YOutOK (u : CropU R) (o : CropInit.CropOut (F:=R)) : Prop :=
  CropInit.calculate_HIGC (CropInit.o_YldFormCD o) (u_HI0 u) (u_HIini u) = Some (CropInit.o_HIGC o) /\
  (u_CropType u = 3%Z ->
     CropInit.calculate_HI_linear (CropInit.o_YldFormCD o) (u_HIini u) (u_HI0 u) (CropInit.o_HIGC o)
     = Some (CropInit.o_tLinSwitch o, CropInit.o_dHILinear o)) /\
  (u_CropType u <> 3%Z -> CropInit.o_tLinSwitch o = 0%Z /\ CropInit.o_dHILinear o = 0).

Lemma cal_of_croptype (u : CropU R) b cc0 : Calendar.k_croptype (CropInit.with_cc0 (cal_of u b) cc0) = u_CropType u.
Proof. unfold cal_of. destruct (u_CalendarType u =? 1)%Z; reflexivity. Qed.

Lemma crop_init_yout (u : CropU R) b gdd conc ref o :
  CropInit.crop_init (crop_in u b) gdd conc ref = CropInit.IOk o -> YOutOK u o.
Proof.
  unfold CropInit.crop_init. destruct (CropInit.sx_terms _ _) as [sxt sxb].
  cbn [crop_in CropInit.i_mode CropInit.i_cal CropInit.i_PlantPop CropInit.i_SeedSize CropInit.i_HI0 CropInit.i_HIini].
  rewrite cal_of_croptype.
  match goal with |- match ?cal with _ => _ end = _ -> _ => destruct cal as [[[d g] yf]|e]; [|discriminate] end.
  destruct (CropInit.calculate_HIGC yf (u_HI0 u) (u_HIini u)) as [higc|] eqn:Eh; [|discriminate].
  destruct (Z.eqb_spec (u_CropType u) 3) as [E3|E3].
  - destruct (CropInit.calculate_HI_linear yf (u_HIini u) (u_HI0 u) higc) as [[ts dl]|] eqn:El; [|discriminate].
    intros [= <-]. cbn. split; [exact Eh|]. split; [intros _; exact El | intros N; contradiction].
  - intros [= <-]. cbn. rnum. split; [exact Eh|]. split; [intros N; contradiction | intros _; split; reflexivity].
Qed.

Lemma reseason_yout u o gdd o2 : reseason_gdd (F:=R) u o gdd = Some o2 -> YOutOK u o2.
Proof.
  unfold reseason_gdd. destruct (CropInit.crop_init _ _ _ _) as [o'|] eqn:E; [|discriminate]. intros [= <-].
  exact (crop_init_yout _ _ _ _ _ _ E).
Qed.

Lemma season_of_yout (u : CropU R) s k0 wsel co2 conc0 o0 k p : YOutOK u o0 -> YOutOK u (snd (fst (season_of u s k0 wsel co2 conc0 o0 k p))).
Proof.
  intros H0. unfold season_of. destruct ((k =? 0)%Z && (k0 =? 0)%Z); [exact H0|].
  destruct (Inputs.co2_season _ _); [|exact H0].
  destruct (u_CalendarType u =? 2)%Z; [|exact H0].
  destruct (gdd_from _ _ _); [|exact H0].
  destruct (reseason_gdd _ _ _) eqn:E; [|exact H0].
  cbn [fst snd]. exact (reseason_yout _ _ _ _ E).
Qed.

Lemma look3_yout (u : CropU R) s k0 l wsel co2 conc0 o0 k : YOutOK u o0 ->
  YOutOK u (snd (fst (look3 (seasons_of u s k0 l wsel co2 conc0 o0) conc0 o0 k))).
Proof.
  intros H0. unfold look3. destruct (k <? 0)%Z; [exact H0|].
  unfold seasons_of. set (f := fun kp : Z * Z => season_of u s k0 wsel co2 conc0 o0 (fst kp) (snd kp)).
  destruct (nth_in_or_default (Z.to_nat k) (map f (combine (Calendar.zrange 0 (Z.of_nat (length l))) (map fst l))) (conc0, o0, true)) as [Hin | ->].
  - apply in_map_iff in Hin as (kp & <- & _). apply season_of_yout. exact H0.
  - exact H0.
Qed.

(* the part of CropHIOK that remains a premise on the derived parameters of season k *)
Record CropYDerivedOK (par : DPar R) (crops : Z -> CropFull R) (k : Z) : Prop := {
  yd_yld : 0 < Yield.y_YldFormCD (cf_y (crops (c_id (sel_crop par k))));
  yd_cde : Yield.y_HIstartCD (cf_y (crops (c_id (sel_crop par k)))) <= Yield.y_CanopyDevEndCD (cf_y (crops (c_id (sel_crop par k))));
  yd_fco2 : 0 <= Yield.y_fCO2 (cf_y (crops (c_id (sel_crop par k))));
  yd_taw : TawOK par (sel_crop par k) }.

(* CropHIOK of a season from the user's crop, the initialisation's own HIGC / linear switch and the derived premises *)
Lemma crop_hi_ok_of (par : DPar R) (crops : Z -> CropFull R) (k : Z) (u : CropU R) (o : CropInit.CropOut (F:=R)) :
  CropYOK u -> YOutOK u o -> crops (c_id (sel_crop par k)) = cropfull_of u o -> c_HI0 (sel_crop par k) = u_HI0 u ->
  CropYDerivedOK par crops k -> CropHIOK par crops k.
Proof.
  intros U (Y1 & Y2 & Y3) Ec Eh [D1 D2 D3 D4]. rewrite Ec in D1, D2, D3.
  assert (CI : crop_init_ok (cf_y (cropfull_of u o))).
  { constructor; unfold cropfull_of;
      cbn [cf_y Yield.y_CropType Yield.y_HIini Yield.y_HI0 Yield.y_YldFormCD Yield.y_HIGC Yield.y_dHILinear Yield.y_tLinSwitch].
    - exact (cy_type _ U).
    - exact (cy_ini _ U).
    - exact D1.
    - exact Y1.
    - intros E3. exists (CropInit.o_tLinSwitch o). split; [exact (Y2 E3)|]. rnum. reflexivity.
    - intros N3. destruct (Y3 N3) as [-> ->]. rnum. split; reflexivity. }
  pose proof (cy_ini _ U) as Hini.
  constructor; rewrite ?Ec.
  - exact (crop_init_hiref_ok _ CI).
  - constructor; try (unfold cropfull_of; cbn [cf_y Yield.y_CropType Yield.y_HI0 Yield.y_dHI0 Yield.y_exc Yield.y_b_HI]).
    + exact (cy_type _ U).
    + lra.
    + exact (cy_dHI0 _ U).
    + exact (cy_leafy _ U).
    + exact (cy_exc _ U).
    + exact (cy_bHI _ U).
    + exact D2.
    + apply Rlt_le. exact D1.
  - unfold cropfull_of. cbn [cf_s Yield.s_fs0]. exact (cy_fw1 _ U).
  - unfold cropfull_of. cbn [cf_s Yield.s_fs1]. exact (cy_fw2 _ U).
  - unfold cropfull_of. cbn [cf_s Yield.s_fs2]. exact (cy_fw3 _ U).
  - exact D4.
  - rewrite Eh. lra.
  - unfold cropfull_of. cbn [cf_y Yield.y_WP]. exact (cy_WP _ U).
  - exact D3.
  - unfold cropfull_of. cbn [cf_y Yield.y_WPy]. exact (cy_WPy _ U).
Qed.

(* ParHIOK of the initialised parameters *)
Theorem derived_crop_hi (cfg : Config R) i :
  initialise cfg = IOk i -> CropYOK (cf_crop cfg) ->
  (forall k, CropYDerivedOK (i_par i) (i_crops i) k) -> ParHIOK (i_par i) (i_crops i).
Proof.
  intros Hi U DK k. specialize (DK k). destruct (initialise_inv _ _ Hi) as [x X]. revert DK.
  rewrite (ii_eq _ _ _ X). cbn [i_par i_crops]. intros DK.
  pose proof (crop_init_yout _ _ _ _ _ _ (ii_o0 _ _ _ X)) as Y0.
  set (u := cf_crop cfg) in *.
  destruct (0 <=? k)%Z eqn:Ek.
  - apply (crop_hi_ok_of _ _ k u (snd (fst (look3 (x_seasons cfg x) (conc0_of cfg) (x_o0 x) k)))); try assumption.
    + unfold x_seasons. apply look3_yout. exact Y0.
    + unfold sel_crop. rewrite Ek. unfold x_par, par_of. cbn [p_crop dcrop_of c_id]. reflexivity.
    + unfold sel_crop. rewrite Ek. unfold x_par, par_of. cbn [p_crop dcrop_of c_HI0]. reflexivity.
  - apply (crop_hi_ok_of _ _ k u (x_o0 x)); try assumption.
    + unfold sel_crop. rewrite Ek. unfold x_par, par_of. cbn [p_fallow_crop fallow_crop dcrop_of c_id]. unfold x_crops, crops_of, look3.
      change (-1 <? 0)%Z with true. reflexivity.
    + unfold sel_crop. rewrite Ek. unfold x_par, par_of. cbn [p_fallow_crop fallow_crop dcrop_of c_HI0]. reflexivity.
Qed.

(* THE CLOSED STATEMENT with the crop columns: AquaCropModel(<the user's objects>).run_model(till_termination=True), no water table.
   Premises: those of InitialiseP.run_config_theorem ([CfgOK] on the configuration, [DerivedOK] on the derived parameters) and
   [ParHIOK] of the derived parameters.  Conclusion: that of run_config_theorem with [crop_rows_day] for every event (and [CInvS]). *)
Theorem run_config_crop_rows (cfg : Config R) fuel m' :
  CfgOK cfg ->
  (forall i, initialise cfg = IOk i -> DerivedOK i /\ ParHIOK (i_par i) (i_crops i)) ->
  run_config cfg fuel = RRun (Some (GOk m')) ->
  exists i m0 (evs : list (Ev (DState R) (Day.W R) (DRow R))),
    initialise cfg = IOk i /\ init_c (i_clock i) (i_state i) = Ok m0 /\
    Reach (DState R) (Day.W R) (DRow R) (DOut R) (proc_c (i_par i) (i_crops i)) dead (matured (i_par i)) (summary_of (i_par i))
          (reset (i_par i)) (defined_c (i_par i) (i_crops i)) (i_clock i) (i_weather i) m0 evs m' /\
    SInv (i_par i) (i_crops i) (st m') /\ RInv2 (i_par i) (phys (st m')) /\ CInvS (i_par i) (i_crops i) (st m') /\
    Forall (fun e => strong_ev (i_par i) (i_crops i) e /\ rows_day (i_par i) (i_crops i) e /\ crop_rows_day (i_par i) (i_crops i) e) evs /\
    chained _ _ _ (reset (i_par i)) (i_weather i) (phys (st m')) evs /\
    rows (tabs m') = map (fun e => (e_tsc _ _ _ e, e_row _ _ _ e)) evs ++ rows (tabs m0).
Proof.
  intros CK DK HR. destruct (run_config_run _ _ _ HR) as (i & m0 & Hi & Hc & Hrun).
  exists i, m0. destruct (initialise_inv _ _ Hi) as [x X]. destruct (DK i Hi) as [D PH].
  destruct (initialise_state _ _ Hi) as (zgw0 & th0 & rows & zs & _ & _ & E3).
  pose proof (cfg_no_table _ _ _ CK X) as Hwt.
  assert (Hth : in_bounds (so_prof (p_soil (i_par i))) th0).
  { destruct (init_state_defined_no_table (i_par i) (init_season (i_clock i)) zgw0 (fc_reset_of (cf_iwc cfg)) th0 Hwt) as (s & Es & Et & _).
    rewrite E3 in Es. injection Es as <-. rewrite <- Et. exact (dk_th0 _ D). }
  destruct (run_from_init_crop_rows (i_par i) (i_crops i) (i_clock i) (i_weather i) zgw0 (fc_reset_of (cf_iwc cfg)) th0 (i_state i) m0 m' fuel
              (cfg_cn _ _ _ CK X) (cfg_maxirr _ _ _ CK X) (cfg_parok _ _ _ CK X D) PH (cfg_mgmt _ _ _ CK X)
              (initialise_clock_wf _ _ Hi) (cfg_weather_ok _ _ _ CK X) (dk_season _ D) Hwt Hth E3 Hc Hrun) as (evs & H).
  exists evs. split; [exact Hi|]. split; [exact Hc|]. exact H.
Qed.

(* ... with everything discharged from the configuration that can be: premises on the configuration [CfgOK], [soil_u_ok], [CropUOK],
   [iwc_layer_ok] (InitialiseP2.run_config_theorem_cfg2) and [CropYOK]; premises that remain on the DERIVED parameters: the CO2
   concentration of every season, the bound on the length of a season (both as in run_config_theorem_cfg2), and per season
   [CropYDerivedOK]: 0 < YldFormCD, HIstartCD <= CanopyDevEndCD, 0 <= fCO2, TawOK *)
Theorem run_config_crop_rows_cfg (cfg : Config R) fuel m' :
  CfgOK cfg -> soil_u_ok (cf_soil cfg) -> CropUOK (cf_crop cfg) -> iwc_layer_ok cfg -> CropYOK (cf_crop cfg) ->
  (forall i, initialise cfg = IOk i ->
     (forall k, p_co2c (i_par i) k - p_co2r (i_par i) <= 20 * (550 - p_co2r (i_par i))) /\
     (forall k p h, nthZ (plant (i_clock i)) k = Some p -> nthZ (harv (i_clock i)) k = Some h ->
        let kk := cf_tr (i_crops i (c_id (sel_crop (i_par i) k))) in
        (IZR (h - p) - Transpiration.k_MaxCanopyCD kk - 5) * (Transpiration.k_fage kk / 100) <= Transpiration.k_Kcb kk) /\
     (forall k, CropYDerivedOK (i_par i) (i_crops i) k)) ->
  run_config cfg fuel = RRun (Some (GOk m')) ->
  exists i m0 (evs : list (Ev (DState R) (Day.W R) (DRow R))),
    initialise cfg = IOk i /\ init_c (i_clock i) (i_state i) = Ok m0 /\
    Reach (DState R) (Day.W R) (DRow R) (DOut R) (proc_c (i_par i) (i_crops i)) dead (matured (i_par i)) (summary_of (i_par i))
          (reset (i_par i)) (defined_c (i_par i) (i_crops i)) (i_clock i) (i_weather i) m0 evs m' /\
    SInv (i_par i) (i_crops i) (st m') /\ RInv2 (i_par i) (phys (st m')) /\ CInvS (i_par i) (i_crops i) (st m') /\
    Forall (fun e => strong_ev (i_par i) (i_crops i) e /\ rows_day (i_par i) (i_crops i) e /\ crop_rows_day (i_par i) (i_crops i) e) evs /\
    chained _ _ _ (reset (i_par i)) (i_weather i) (phys (st m')) evs /\
    rows (tabs m') = map (fun e => (e_tsc _ _ _ e, e_row _ _ _ e)) evs ++ rows (tabs m0).
Proof.
  intros CK SK UK WK YK DK. apply run_config_crop_rows; [exact CK|].
  intros i Hi. destruct (DK i Hi) as (D2 & D3 & D5).
  destruct (derived_layers_th0 cfg i Hi (ck_no_table _ CK) SK) as (D1 & D4).
  destruct (derived_soil cfg i Hi (ck_no_table _ CK) SK) as (S1 & S2 & S3).
  split; [|exact (derived_crop_hi cfg i Hi YK D5)].
  constructor; try assumption; [exact (derived_crop cfg i Hi UK D2) | exact (D4 WK)].
Qed.

(* ============================================================================================================ *)
(*  Part C.2  TawOK from the profile                                                                              *)
(* ============================================================================================================ *)
(* A static sufficient condition: the profile is well formed with dzsum the running sum of dz (both follow from [soil_u_ok] at
   configuration level: InitialiseP.derived_soil), its first compartment lies within the minimum rooting depth rounded to
   centimetres, and holds more than 0.01 mm of available water (1000 (th_fc - th_wp) dz > 0.01: the root-zone totals are sums of
   terms rounded to 0.01 mm).  Then TAW of the root zone and of the top soil are positive whatever the rooting depth. *)
Import RootZone.
From Flocq Require Raux.

Lemma rz_term_mono f x y dz : 0 <= f -> 0 <= dz -> x <= y -> rz_term f x dz <= rz_term f y dz.
Proof.
  intros Hf Hd Hxy. unfold rz_term. rnum. apply Rround_mono.
  assert (0 <= f * 1000 * dz) by (apply Rmult_le_pos; [apply Rmult_le_pos; lra|lra]). nra.
Qed.

Lemma rz_loop_taw_mono rd aer : forall p z0 th a a', TranspirationR.geom z0 p -> wf_prof p -> z0 < rd ->
  rz_loop rd aer p th a = Some a' -> a_fc a - a_wp a <= a_fc a' - a_wp a'.
Proof.
  induction p as [|c p IH]; intros z0 th a a' G W Hz; [discriminate|].
  destruct th as [|t th]; [discriminate|]. cbn [rz_loop]. destruct G as [G1 G2]. inversion W as [|? ? Wc Wp]; subst.
  pose proof (wf_dz c Wc) as Hdz. pose proof (wf_wp_fc c Wc) as Hwf.
  set (f := if (rd <? c_dzsum c)%num then _ else _).
  assert (Hf : 0 <= f).
  { unfold f. rnum. destruct (Rltb_spec rd (c_dzsum c)); [|lra].
    replace (1 - (c_dzsum c - rd) / c_dz c) with ((rd - z0) / c_dz c) by (rewrite G1; field; lra).
    apply Rmult_le_pos; [lra | left; apply Rinv_0_lt_compat; exact Hdz]. }
  pose proof (rz_term_mono f (c_th_wp c) (c_th_fc c) (c_dz c) Hf ltac:(lra) ltac:(lra)) as Hm.
  clearbody f. set (u1 := rz_term f (c_th_wp c) (c_dz c)) in *. set (u2 := rz_term f (c_th_fc c) (c_dz c)) in *.
  rnum. destruct (Rleb_spec rd (c_dzsum c)) as [Hle|Hgt].
  - intros [= <-]. cbn [a_fc a_wp]. lra.
  - intros E. apply (IH (c_dzsum c) th _ a' G2 Wp ltac:(lra)) in E. cbn [a_fc a_wp] in E. lra.
Qed.

Lemma top_loop_taw_mono : forall n p th act fc wp, wf_prof p ->
  fc - wp <= snd (fst (top_loop n p th act fc wp)) - snd (top_loop n p th act fc wp).
Proof.
  induction n as [|n IH]; intros p th act fc wp W; cbn [top_loop]; [cbn; lra|].
  destruct p as [|c p]; [cbn; lra|]. destruct th as [|t th]; [cbn; lra|]. inversion W as [|? ? Wc Wp]; subst.
  eapply Rle_trans; [|apply IH; exact Wp]. rnum.
  pose proof (wf_dz c Wc). pose proof (wf_wp_fc c Wc). nra.
Qed.

Theorem taw_ok_profile (par : DPar R) (dc : DCrop R) c1 rest :
  so_prof (p_soil par) = c1 :: rest -> wf_prof (c1 :: rest) -> TranspirationR.geom 0 (c1 :: rest) ->
  c_dzsum c1 <= Rround 2 (c_Zmin dc) ->
  1 / 100 < 1000 * (c_th_fc c1 - c_th_wp c1) * c_dz c1 ->
  TawOK par dc.
Proof.
  intros Ep W G Hz Hw zroot th rz. rewrite Ep. unfold root_zone_water.
  set (rd := nround_np num_ops 2 (npmax zroot (c_Zmin dc))).
  assert (Hrd : c_dzsum c1 <= rd).
  { eapply Rle_trans; [exact Hz|]. unfold rd, npmax. rnum. apply Rround_mono. destruct (Rltb_spec zroot (c_Zmin dc)); lra. }
  clearbody rd.
  inversion W as [|? ? Wc Wp]; subst. destruct G as [G1 G2].
  pose proof (wf_dz c1 Wc) as Hdz. pose proof (wf_wp_fc c1 Wc) as Hwf.
  (* the first compartment *)
  destruct th as [|t1 th]; [discriminate|]. cbn [rz_loop].
  assert (Hf1 : (if (rd <? c_dzsum c1)%num then #1 - ((c_dzsum c1 - rd) / c_dz c1) else #1)%num = 1)
    by (rnum; rewrite (Rltb_false rd (c_dzsum c1)) by lra; reflexivity).
  rewrite Hf1.
  assert (H1 : 0 < rz_term 1 (c_th_fc c1) (c_dz c1) - rz_term 1 (c_th_wp c1) (c_dz c1)).
  { unfold rz_term. rnum.
    pose proof (Rround_err 2 (1 * 1000 * c_th_fc c1 * c_dz c1)) as E1. pose proof (Rround_err 2 (1 * 1000 * c_th_wp c1 * c_dz c1)) as E2.
    apply Raux.Rabs_le_inv in E1. apply Raux.Rabs_le_inv in E2.
    assert (Hp : / 2 / pow10 2 = 5 / 1000) by (unfold pow10; simpl; lra). rewrite Hp in E1, E2. lra. }
  set (v2 := rz_term 1 (c_th_fc c1) (c_dz c1)) in *. set (v1 := rz_term 1 (c_th_wp c1) (c_dz c1)) in *.
  match goal with |- match (if ?b then Some ?a1 else _) with _ => _ end = _ -> _ =>
    assert (Ha : forall a, (if b then Some a1 else rz_loop rd (c_Aer dc) rest th a1) = Some a -> 0 < a_fc a - a_wp a);
    [|destruct (if b then Some a1 else rz_loop rd (c_Aer dc) rest th a1) as [a|] eqn:El; [specialize (Ha a eq_refl)|discriminate]] end.
  { intros a. rnum. destruct (Rleb_spec rd (c_dzsum c1)) as [Hle|Hgt].
    - intros [= <-]. cbn [a_fc a_wp]. lra.
    - intros E. apply (rz_loop_taw_mono rd (c_Aer dc) rest (c_dzsum c1) th _ a G2 Wp ltac:(lra)) in E. cbn [a_fc a_wp] in E. lra. }
  assert (Hpm : forall v, 0 < v -> 0 < pmax v 0) by (intros v Hv; unfold pmax; rnum; destruct (Rltb_spec v 0); lra).
  rnum. destruct (Rltb_spec (so_z_top (p_soil par)) rd) as [Ht|Ht]; cbv beta iota.
  - destruct (_ <=? 0)%Z eqn:En; [discriminate|]. apply Z.leb_gt in En.
    set (n := Z.to_nat _). assert (Hn : exists n', n = S n') by (exists (Nat.pred n); unfold n; lia).
    destruct Hn as [n' ->]. cbn [top_loop].
    pose proof (top_loop_taw_mono n' rest th (0 + 1 * 1000 * t1 * c_dz c1) (0 + 1 * 1000 * c_th_fc c1 * c_dz c1)
                  (0 + 1 * 1000 * c_th_wp c1 * c_dz c1) Wp) as Hm.
    rnum. destruct (top_loop n' rest th _ _ _) as [[act fc] wp]. cbn [fst snd] in Hm.
    intros [= <-]. cbn [rz_TAW_Rz rz_TAW_Zt]. split; apply Hpm; [exact Ha | lra].
  - intros [= <-]. cbn [rz_TAW_Rz rz_TAW_Zt]. split; apply Hpm; exact Ha.
Qed.

(* ============================================================================================================ *)
(*  Part C.3  TawOK of every season from the first compartment of the derived profile                             *)
(* ============================================================================================================ *)
(* at configuration level the profile is well formed with running sums (InitialiseP.derived_soil, from [soil_u_ok]); what remains is
   the premise on its FIRST compartment: it lies within the smaller of the crop's Zmin and the filler crop's 0.3 m (rounded to
   centimetres) and holds more than 0.01 mm of available water *)
Theorem derived_taw (cfg : Config R) i :
  initialise cfg = IOk i -> gw_present (cf_gw cfg) = false -> soil_u_ok (cf_soil cfg) ->
  (forall c1 rest, so_prof (p_soil (i_par i)) = c1 :: rest ->
     c_dzsum c1 <= Rround 2 (Rmin (u_Zmin (cf_crop cfg)) (3 / 10)) /\ 1 / 100 < 1000 * (c_th_fc c1 - c_th_wp c1) * c_dz c1) ->
  forall k, TawOK (i_par i) (sel_crop (i_par i) k).
Proof.
  intros Hi Hgw SK H1 k. destruct (derived_soil cfg i Hi Hgw SK) as (W & G & _).
  destruct (so_prof (p_soil (i_par i))) as [|c1 rest] eqn:Ep.
  - intros zroot th rz. rewrite Ep. unfold root_zone_water. cbn [rz_loop]. discriminate.
  - destruct (H1 c1 rest eq_refl) as [A B]. apply (taw_ok_profile (i_par i) _ c1 rest Ep W G); [|exact B].
    eapply Rle_trans; [exact A|]. apply Rround_mono.
    destruct (initialise_inv _ _ Hi) as [x X]. rewrite (ii_eq _ _ _ X). cbn [i_par]. unfold sel_crop.
    destruct (0 <=? k)%Z; unfold x_par, par_of; cbn [p_crop p_fallow_crop fallow_crop dcrop_of Day.c_Zmin]; rnum; [apply Rmin_l | apply Rmin_r].
Qed.

(* ============================================================================================================ *)
(*  Part D  the catalogue                                                                                         *)
(* ============================================================================================================ *)
(* the part of CropYOK / CropHIOK that depends on a catalogue row alone, for every row of gen/CropCatalogue.v (37 rows,
   regenerated from /repo): crop type 1..3, 0 < HIini < HI0 (hence 0 <= HI0), 0 <= WP, 0 <= WPy <= 100, -100 <= dHI0, -100 <= exc,
   b_HI <= 0 or b_HI >= 1, the three shape factors of the water-stress curves non-zero *)
From Coq Require Import QArith Qreals String.
From AC.gen Require Import CropCatalogue.
From AC.proofs Require Import CatalogueR.
Local Open Scope R_scope.

Definition crop_y_row_okb (r : CropRow) : bool :=
  (Qeq_bool (c_CropType r) 1 || Qeq_bool (c_CropType r) 2 || Qeq_bool (c_CropType r) 3) &&
  Qltb 0 (c_HIini r) && Qltb (c_HIini r) (CropCatalogue.c_HI0 r) &&
  Qleb 0 (c_WP r) && Qleb 0 (c_WPy r) && Qleb (c_WPy r) 100 &&
  Qleb (-100) (c_dHI0 r) && Qleb (-100) (c_exc r) && (Qleb (c_b_HI r) 0 || Qleb 1 (c_b_HI r)) &&
  Qneqb (c_fshape_w1 r) 0 && Qneqb (c_fshape_w2 r) 0 && Qneqb (c_fshape_w3 r) 0.

Lemma catalogue_crop_y_okb : forallb crop_y_row_okb crop_catalogue = true.
Proof. vm_compute. reflexivity. Qed.

Lemma catalogue_size : List.length crop_catalogue = 37%nat.
Proof. vm_compute. reflexivity. Qed.

Theorem catalogue_crop_y_ok r : In r crop_catalogue ->
  (Q2R (c_CropType r) = 1 \/ Q2R (c_CropType r) = 2 \/ Q2R (c_CropType r) = 3) /\
  0 < Q2R (c_HIini r) < Q2R (CropCatalogue.c_HI0 r) /\ 0 <= Q2R (CropCatalogue.c_HI0 r) /\
  0 <= Q2R (c_WP r) /\ 0 <= Q2R (c_WPy r) <= 100 /\
  -100 <= Q2R (c_dHI0 r) /\ -100 <= Q2R (c_exc r) /\ (0 < Q2R (c_b_HI r) -> 1 <= Q2R (c_b_HI r)) /\
  Q2R (c_fshape_w1 r) <> 0 /\ Q2R (c_fshape_w2 r) <> 0 /\ Q2R (c_fshape_w3 r) <> 0.
Proof.
  intros H. pose proof (proj1 (forallb_forall _ _) catalogue_crop_y_okb r H) as K.
  unfold crop_y_row_okb in K. rewrite !andb_true_iff in K.
  destruct K as [[[[[[[[[[[K0 K1] K2] K3] K4] K5] K6] K7] K8] K9] K10] K11].
  apply Qltb_R in K1, K2. apply Qleb_R in K3, K4, K5, K6, K7. apply Qneqb_R in K9, K10, K11.
  assert (E100 : Q2R 100 = 100) by (unfold Q2R; simpl; lra).
  assert (Em100 : Q2R (-100) = -100) by (unfold Q2R; simpl; lra).
  assert (E2 : Q2R 2 = 2) by (unfold Q2R; simpl; lra).
  assert (E3 : Q2R 3 = 3) by (unfold Q2R; simpl; lra).
  rewrite ?Q2R_0, ?E100, ?Em100 in *.
  split.
  { rewrite !orb_true_iff in K0. destruct K0 as [[K0|K0]|K0]; apply Qeq_bool_iff, Qeq_eqR in K0; rewrite ?Q2R_1, ?E2, ?E3 in K0; auto. }
  repeat split; try lra; try assumption.
  intros Hb. apply orb_true_iff in K8. destruct K8 as [K8|K8]; apply Qleb_R in K8; rewrite ?Q2R_0, ?Q2R_1 in K8; lra.
Qed.

(* the one condition of CropYOK that the catalogue does NOT satisfy: a leafy crop (type 1) needs 0 <= dHI0 (its HIadj is HIref itself,
   which the cap (1 + dHI0/100) HI0 must cover — YieldR.hi_adj_le_refuted).  Exactly one row violates it: SugarCane, dHI0 = -9
   ("not applicable" used as a number).  For SugarCane the bound gr_HIadj <= (1 + dHI0/100) HI0 of day_hi_concrete is therefore not
   available (CropYOK / hi_crop_ok exclude it); every other row satisfies the leafy condition *)
Lemma catalogue_leafy_violations :
  map c_name (filter (fun r => Qeq_bool (c_CropType r) 1 && Qltb (c_dHI0 r) 0) crop_catalogue) = ["SugarCane"%string].
Proof. vm_compute. reflexivity. Qed.

Theorem catalogue_leafy_ok r : In r crop_catalogue -> c_name r <> "SugarCane"%string ->
  Q2R (c_CropType r) = 1 -> 0 <= Q2R (c_dHI0 r).
Proof.
  intros H Hn Ht.
  assert (K : forallb (fun r => negb (Qeq_bool (c_CropType r) 1 && Qltb (c_dHI0 r) 0) || String.eqb (c_name r) "SugarCane") crop_catalogue = true)
    by (vm_compute; reflexivity).
  pose proof (proj1 (forallb_forall _ _) K r H) as K'. cbv beta in K'.
  apply orb_true_iff in K'. destruct K' as [K'|K']; [|apply String.eqb_eq in K'; contradiction].
  apply negb_true_iff, andb_false_iff in K'. destruct K' as [K'|K'].
  - exfalso. assert (E : (c_CropType r == 1)%Q) by (apply eqR_Qeq; rewrite Q2R_1; exact Ht).
    apply Qeq_bool_iff in E. rewrite E in K'. discriminate.
  - unfold Qltb in K'. apply negb_false_iff in K'. apply Qle_bool_iff, Qle_Rle in K'. rewrite Q2R_0 in K'. exact K'.
Qed.

(* ============================================================================================================ *)
(*  Part E  examples, assumptions                                                                                 *)
(* ============================================================================================================ *)
(* the initial state of the instance DaySideP.Ex (InitStateP.init_state_example) satisfies the crop invariant *)
Example init_state_cinv3_example :
  exists s, init_state DaySideP.Ex.par 0 None false ex_th0 = Some s /\
            StrongInv DaySideP.Ex.par DaySideP.Ex.crops 0 0 s /\ RInv2 DaySideP.Ex.par s /\ CInv3 DaySideP.Ex.par DaySideP.Ex.crops 0 0 s.
Proof.
  destruct init_state_example as (_ & _ & _ & _ & s & E & _ & _ & _ & _ & _ & SI & R2).
  exists s. split; [exact E|]. split; [exact SI|]. split; [exact R2|].
  exact (init_state_cinv3_hiok _ _ _ _ _ _ _ par_hi_ok_example E).
Qed.

(* TawOK of the instance from the profile condition (agrees with DayCropRowsP.ex_taw_ok): first compartment 0.1 m deep within
   Zmin = 0.3 m, 12 mm of available water *)
Example taw_ok_profile_example k : TawOK DaySideP.Ex.par (sel_crop DaySideP.Ex.par k).
Proof.
  destruct (ex_sel_zmin k) as [Ez _].
  apply (taw_ok_profile DaySideP.Ex.par _ _ _ eq_refl).
  - exact (po_wf _ _ DaySideP.Ex.par_ok).
  - exact (po_geom _ _ DaySideP.Ex.par_ok).
  - rewrite Ez. replace (3 / 10) with (IZR 30 / 100) by lra. rewrite RootsR.Rround2_cent. cbn. lra.
  - cbn. lra.
Qed.

(* every premise of [run_from_init_crop_rows] holds on the instance of InitStateP.run_from_init_example (120-step window, one
   season planted at step 0 and harvested at step 100), so its conclusion holds for every terminated run of it *)
Example run_from_init_crop_rows_example :
  exists s0 m0, init_state DaySideP.Ex.par (init_season ex_clock) None false ex_th0 = Some s0 /\ init_c ex_clock s0 = Ok m0 /\
    forall fuel m', run_till_c DaySideP.Ex.par DaySideP.Ex.crops ex_clock ex_ws fuel m0 = Some (GOk m') ->
    exists evs : list (Ev (DState R) (Day.W R) (DRow R)),
      Reach (DState R) (Day.W R) (DRow R) (DOut R) (proc_c DaySideP.Ex.par DaySideP.Ex.crops) dead (matured DaySideP.Ex.par)
            (summary_of DaySideP.Ex.par) (reset DaySideP.Ex.par) (defined_c DaySideP.Ex.par DaySideP.Ex.crops) ex_clock ex_ws m0 evs m' /\
      SInv DaySideP.Ex.par DaySideP.Ex.crops (st m') /\ RInv2 DaySideP.Ex.par (phys (st m')) /\
      CInvS DaySideP.Ex.par DaySideP.Ex.crops (st m') /\
      Forall (fun e => strong_ev DaySideP.Ex.par DaySideP.Ex.crops e /\ rows_day DaySideP.Ex.par DaySideP.Ex.crops e /\
                       crop_rows_day DaySideP.Ex.par DaySideP.Ex.crops e) evs /\
      chained _ _ _ (reset DaySideP.Ex.par) ex_ws (phys (st m')) evs /\
      rows (tabs m') = map (fun e => (e_tsc _ _ _ e, e_row _ _ _ e)) evs ++ rows (tabs m0).
Proof.
  destruct (init_state_defined_no_table DaySideP.Ex.par (init_season ex_clock) None false ex_th0 eq_refl) as (s0 & E & _).
  exists s0. eexists. split; [exact E|]. split; [reflexivity|]. intros fuel m'.
  destruct rows_strong_hypotheses_satisfiable as (Hcn & Hmax & _ & _).
  apply (run_from_init_crop_rows DaySideP.Ex.par DaySideP.Ex.crops ex_clock ex_ws None false ex_th0 s0 _ m' fuel Hcn Hmax DaySideP.Ex.par_ok
           par_hi_ok_example ex_mgmt ex_clock_wf ex_ws_ok); [| reflexivity | exact ex_th0_bounds | exact E | reflexivity].
  intros k p h Hp Hh. cbn [ex_clock plant harv] in Hp, Hh.
  destruct (nthZ_single _ _ _ Hp) as [_ ->]. destruct (nthZ_single _ _ _ Hh) as [_ ->]. cbn. lra.
Qed.

(* the premise on the user's crop is satisfiable: the crop record of InitialiseP.ex_cfg *)
Example crop_y_ok_example : CropYOK (cf_crop (ex_cfg (2000, 5, 3)%Z)).
Proof. constructor; cbn; try lra; try (right; right; reflexivity); try discriminate; intros; lra. Qed.

Print Assumptions init_state_cinv3.
Print Assumptions init_clock_cinv3.
Print Assumptions run_from_init_crop_rows_cap.
Print Assumptions run_from_init_crop_rows.
Print Assumptions run_steps_from_init_crop_rows.
Print Assumptions derived_crop_hi.
Print Assumptions run_config_crop_rows.
Print Assumptions run_config_crop_rows_cfg.
Print Assumptions taw_ok_profile.
Print Assumptions derived_taw.
Print Assumptions catalogue_crop_y_ok.
Print Assumptions catalogue_leafy_ok.
Print Assumptions run_from_init_crop_rows_example.
