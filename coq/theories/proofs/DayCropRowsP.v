(* DayCropRowsP.v — the crop-state part of property C05 for the CONCRETE day and for whole runs: canopy cover, rooting
   depth, harvest index and biomass of the growth row the day writes, from the clock-indexed invariant
   DaySideP.StrongInv (static conditions ParOK, weather WOK, clock condition DapOK) plus the yield-side static conditions
   [CropHIOK] and the crop invariant [CInv3] introduced here; lifted to every event of every run on top of
   DaySideRows.strong_perform_rows.

   Part A  inversions of the concrete processes (root development with the table depth handed over, germination,
           harvest index, transpiration with the canopy / potential it hands back).
   Part B  Section CropDay: one defined day — canopy, harvest index, roots, biomass.
   Part C  the day theorems [day_canopy_concrete], [day_hi_concrete], [day_roots_concrete], [day_biomass_concrete].
   Part D  [CInv3], its preservation by the day and the reset, [crop_rows_day], the run lift
           [run_till_crop_rows_strong_season(_no_table)], [run_steps_crop_rows_strong_season(_no_table)].
   Part E  examples (instance DaySideP.Ex) and Print Assumptions. *)
From Coq Require Import Reals List Bool ZArith Lra Lia.
From AC Require Import Num RInst Params Kernels Clock Day DayConcrete RunConcrete.
From AC.Water Require RootZone RainIrr Infiltration Drainage Groundwater Evaporation Transpiration.
From AC.Crop Require Canopy Roots Yield.
From AC.proofs Require Import ProfR DayP DayConcreteP ClockP RunP RunConcreteP DaySideU DaySideP DaySideRun DaySideRun2 DayRowsP DaySideRows.
From AC.proofs Require KernelsR CanopyR RootsR YieldR TranspirationR GroundwaterR.
Import ListNotations.
Local Open Scope R_scope.

#[local] Existing Instance YieldR.RTrig.

(* ============================================================================================================ *)
(*  Part A: inversions                                                                                           *)
(* ============================================================================================================ *)
Lemma crd_call crops p a r : c_rd crops p a = Some r -> exists zgw,
  zgw_of (rdA_wt a) (rdA_zgw a) = Some zgw /\
  Roots.root_development (root_crop (crops (c_id (rdA_crop a))) (rdA_crop a)) p (rdA_dap a) (rdA_zroot a) (rdA_dcd a) (rdA_gddcum a)
    (rdA_dgdd a) (rdA_trratio a) (rdA_th a) (rdA_cc a) (rdA_ccns a) (rdA_germ a) (rdA_rcor a) (rdA_tpot a) zgw (rdA_gdd a)
    (rdA_gs a) (rdA_wt a) = Some (rdR_zroot r, rdR_rcor r).
Proof.
  unfold c_rd, obind. destruct (zgw_of _ _) as [z|]; [|discriminate].
  destruct (Roots.root_development _ _ _ _ _ _ _ _ _ _ _ _ _ _ _ _ _ _) as [[z' r']|] eqn:E; intros [= <-]. exists z. split; [reflexivity|exact E].
Qed.

Lemma cge_call p a r : c_ge p a = Some r -> exists g,
  Roots.germination (geA_germ a) (geA_prot a) (geA_dcd a) (geA_dgdd a) (geA_th a) (geA_zgerm a) p (geA_germthr a) (geA_plantmethod a)
                    (geA_gdd a) (geA_gs a) = Some g /\
  geR_germ r = Roots.g_germ g /\ geR_dcd r = Roots.g_dcd g /\ geR_dgdd r = Roots.g_dgdd g.
Proof.
  unfold c_ge. destruct (Roots.germination _ _ _ _ _ _ _ _ _ _ _) as [g|]; intros [= <-]. exists g. repeat split; reflexivity.
Qed.

Definition hstate_of (a : A_hi R) : Yield.HState (F:=R) :=
  {| Yield.h_hi := hiA_hi a; Yield.h_hiadj := hiA_hiadj a; Yield.h_preadj := hiA_preadj a; Yield.h_fpre := hiA_fpre a;
     Yield.h_fpol := hiA_fpol a; Yield.h_scor1 := hiA_scor1 a; Yield.h_scor2 := hiA_scor2 a; Yield.h_upp := hiA_upp a;
     Yield.h_dwn := hiA_dwn a; Yield.h_fpost := hiA_fpost a |}.
Definition hstate_res (r : R_hi R) : Yield.HState (F:=R) :=
  {| Yield.h_hi := hiR_hi r; Yield.h_hiadj := hiR_hiadj r; Yield.h_preadj := hiR_preadj r; Yield.h_fpre := hiR_fpre r;
     Yield.h_fpol := hiR_fpol r; Yield.h_scor1 := hiR_scor1 r; Yield.h_scor2 := hiR_scor2 r; Yield.h_upp := hiR_upp r;
     Yield.h_dwn := hiR_dwn r; Yield.h_fpost := hiR_fpost r |}.

Lemma chi_call crops p a r : c_hi crops p a = Some r ->
  Yield.harvest_index p (hiA_ztop a) (cf_y (crops (c_id (hiA_crop a)))) (s_crop (crops (c_id (hiA_crop a))) (hiA_crop a)) (hstate_of a)
                      (hiA_zroot a) (hiA_th a) (hiA_t_early_sen a) (hiA_hiref a) (hiA_dap a) (hiA_dcd a) (hiA_yf a) (hiA_b a)
                      (hiA_bns a) (hiA_cc a) (hiA_et0 a) (hiA_tmax a) (hiA_tmin a) (hiA_gs a) = Some (hstate_res r).
Proof.
  unfold c_hi. cbv zeta. fold (hstate_of a).
  destruct (Yield.harvest_index _ _ _ _ _ _ _ _ _ _ _ _ _ _ _ _ _ _ _) as [h|]; intros [= <-]. destruct h. reflexivity.
Qed.

Lemma ctr_call3 crops p a r : c_tr crops p a = Some r ->
  exists o, Transpiration.transpiration p (trA_ztop a) (tr_crop (crops (c_id (trA_crop a))) (trA_crop a)) (trA_method a) (trA_smt a) (tr_state a)
                                         (trA_et0 a) (trA_co2c a) (trA_co2r a) (trA_gs a) (trA_gdd a) = Some o /\
            trR_cc r = Transpiration.s_cc (Transpiration.o_state o) /\ trR_trpot_ns r = Transpiration.o_TrPot_NS o /\
            trR_tr r = Transpiration.o_TrAct o.
Proof.
  unfold c_tr. destruct (Transpiration.transpiration _ _ _ _ _ _ _ _ _ _ _) as [o|]; intros [= <-]. exists o. repeat split; reflexivity.
Qed.

(* the canopy cover transpiration hands back: today's, or yesterday's when today's grew by more than 0.005 while nothing
   was transpired *)
Lemma tr_cc_cases p ztop k m smt s et0 co2c co2r gs gdd o :
  Transpiration.transpiration p ztop k m smt s et0 co2c co2r gs gdd = Some o ->
  Transpiration.s_cc (Transpiration.o_state o) = Transpiration.s_cc s \/
  (Transpiration.s_cc (Transpiration.o_state o) = Transpiration.s_cc_prev s /\
   Transpiration.s_cc_prev s + 5 / 1000 < Transpiration.s_cc s).
Proof.
  destruct gs.
  - TranspirationR.tr_inv. cbn [Transpiration.s_cc Transpiration.o_state]. rnum.
    destruct (Rltb_spec (5 / 1000) (Transpiration.s_cc s - Transpiration.s_cc_prev s)) as [H|H]; cbn [andb]; [|left; reflexivity].
    destruct (Reqb _ 0); [right; split; [reflexivity|lra] | left; reflexivity].
  - unfold Transpiration.transpiration. intros [= <-]. left. reflexivity.
Qed.

Lemma hit_le c dap1 dcd1 dap2 dcd2 : (dap1 - dcd1 <= dap2 - dcd2)%Z -> Yield.hit c dap1 dcd1 <= Yield.hit c dap2 dcd2.
Proof. intros H. unfold Yield.hit. rnum. apply IZR_le in H. lra. Qed.

(* ============================================================================================================ *)
(*  static conditions on the yield side of a crop, and the crop invariant                                          *)
(* ============================================================================================================ *)
(* total available water of the root zone and of the top soil is positive whatever the rooting depth (static: profile
   and Zmin; it is the denominator of the depletion fractions harvest_index hands to water_stress) *)
Definition TawOK (par : DPar R) (dc : DCrop R) : Prop :=
  forall zroot th rz,
    RootZone.root_zone_water (so_prof (p_soil par)) zroot th (so_z_top (p_soil par)) (c_Zmin dc) (c_Aer dc) = Some rz ->
    0 < RootZone.rz_TAW_Rz rz /\ 0 < RootZone.rz_TAW_Zt rz.

(* the crop of season k (a negative k selects the filler crop) *)
Record CropHIOK (par : DPar R) (crops : Z -> CropFull R) (k : Z) : Prop := {
  ho_hiref : YieldR.hiref_crop_ok (cf_y (crops (c_id (sel_crop par k))));   (* CropInitR.crop_init_hiref_ok *)
  ho_hi : YieldR.hi_crop_ok (cf_y (crops (c_id (sel_crop par k))));
  ho_fs0 : Yield.s_fs0 (cf_s (crops (c_id (sel_crop par k)))) <> 0;
  ho_fs1 : Yield.s_fs1 (cf_s (crops (c_id (sel_crop par k)))) <> 0;
  ho_fs2 : Yield.s_fs2 (cf_s (crops (c_id (sel_crop par k)))) <> 0;
  ho_taw : TawOK par (sel_crop par k);
  ho_HI0 : 0 <= c_HI0 (sel_crop par k);                                      (* the HIfinal the season reset stores *)
  ho_WP : 0 <= Yield.y_WP (cf_y (crops (c_id (sel_crop par k))));
  ho_fCO2 : 0 <= Yield.y_fCO2 (cf_y (crops (c_id (sel_crop par k))));
  ho_WPy : 0 <= Yield.y_WPy (cf_y (crops (c_id (sel_crop par k)))) <= 100 }.
Definition ParHIOK (par : DPar R) (crops : Z -> CropFull R) : Prop := forall k, CropHIOK par crops k.

(* the reference harvest index as a function of the crop, HIfinal and the clock (dap, delayed days) alone *)
Definition HRf (c : Yield.YCrop (F:=R)) (hf : R) (dap dcd : Z) : R :=
  fst (fst (Yield.HIref_current_day c 0 hf dap dcd false 0 0 0 true)).

Lemma HRf_eq c hf h dap dcd yf pct cc ccxw : YieldR.hiref_crop_ok c -> 0 <= hf ->
  fst (fst (Yield.HIref_current_day c h hf dap dcd yf pct cc ccxw true)) = HRf c hf dap dcd.
Proof. intros Hc Hf. unfold HRf. apply Rle_antisym; apply YieldR.hi_ref_monotone; try assumption; lra. Qed.

Lemma HRf_mono c hf dap1 dcd1 dap2 dcd2 : YieldR.hiref_crop_ok c -> 0 <= hf -> (dap1 - dcd1 <= dap2 - dcd2)%Z ->
  HRf c hf dap1 dcd1 <= HRf c hf dap2 dcd2.
Proof. intros Hc Hf H. unfold HRf. apply YieldR.hi_ref_monotone; try assumption. apply hit_le. exact H. Qed.

Lemma HRf_range c hf dap dcd : YieldR.hiref_crop_ok c -> 0 <= hf -> 0 <= HRf c hf dap dcd <= Yield.y_HI0 c.
Proof.
  intros Hc Hf. assert (H0 : 0 <= Yield.y_HI0 c) by (destruct Hc; lra). assert (Hi : -(4/1000) <= Yield.y_HIini c) by (destruct Hc; lra).
  unfold HRf. split; [apply YieldR.hi_ref_nonneg | apply YieldR.hi_ref_le_HI0]; assumption.
Qed.

(* in the season the harvest index is today's reference value or is left unchanged *)
Lemma hi_cases p ztop c sc s zroot th tes hiref dap dcds yf B Bns cc et0 tmax tmin s' :
  Yield.harvest_index p ztop c sc s zroot th tes hiref dap dcds yf B Bns cc et0 tmax tmin true = Some s' ->
  Yield.h_hi s' = hiref \/ Yield.h_hi s' = Yield.h_hi s.
Proof.
  unfold Yield.harvest_index. destruct (RootZone.root_zone_water _ _ _ _ _ _) as [rz|]; [|discriminate].
  match goal with |- (let '(_, _) := ?pf in _) = _ -> _ => destruct pf as [dr taw] end.
  destruct (kst_heat _ _ _ _ _) as [kh|]; [|discriminate]. destruct (kst_cold _ _ _ _ _) as [kc|]; [|discriminate].
  unfold Yield.hi_core. destruct (yf && _); [|intros [= <-]; right; reflexivity].
  destruct (Yield.is23 c).
  - match goal with |- (let '(_, _) := ?pf in _) = _ -> _ => destruct pf as [pa fpre] end.
    match goal with |- match ?fp with _ => _ end = _ -> _ => destruct fp as [fpol|]; [|discriminate] end.
    match goal with |- match ?pp with _ => _ end = _ -> _ => destruct pp as [po|]; [|discriminate] end.
    intros [= <-]. left. reflexivity.
  - destruct (Yield.y_CropType c =? 1)%Z; [|discriminate]. intros [= <-]. left. reflexivity.
Qed.

(* the harvest-index state of a day state *)
Definition hstate_st (s : DState R) : Yield.HState (F:=R) :=
  {| Yield.h_hi := d_harvest_index s; Yield.h_hiadj := d_harvest_index_adj s; Yield.h_preadj := d_pre_adj s; Yield.h_fpre := d_f_pre s;
     Yield.h_fpol := d_f_pol s; Yield.h_scor1 := d_s_cor1 s; Yield.h_scor2 := d_s_cor2 s; Yield.h_upp := d_fpost_upp s;
     Yield.h_dwn := d_fpost_dwn s; Yield.h_fpost := d_f_post s |}.

(* the root clock tAdj of the day just completed, as the state and the clock determine it (= tOld of the next day) *)
Definition troot (c : Roots.RootCrop R) (dap : Z) (s : DState R) : R :=
  if (Roots.rc_cal c =? 1)%Z then IZR (dap - d_delayed_cds s) else d_gdd_cum s - d_delayed_gdds s.

(* RootsR.root_range's invariant: the roots are above the (restricted) potential depth at the root clock *)
Definition RootInv (par : DPar R) (crops : Z -> CropFull R) (season dap : Z) (s : DState R) : Prop :=
  dap <> 0%Z ->
  forall zo, Roots.rd_restricted (so_prof (p_soil par)) (c_Zmin (sel_crop par season))
               (RootsR.pot (root_crop (crops (c_id (sel_crop par season))) (sel_crop par season))
                           (troot (root_crop (crops (c_id (sel_crop par season))) (sel_crop par season)) dap s)) = Some zo ->
             d_z_root s <= zo.

(* the crop invariant, indexed like StrongInv by the clock's season index and days-after-planting counter *)
Record CInv3 (par : DPar R) (crops : Z -> CropFull R) (season dap : Z) (s : DState R) : Prop := {
  c3_hifinal : 0 <= d_HIfinal s;
  c3_hs : YieldR.hs_ok (cf_y (crops (c_id (sel_crop par season)))) (hstate_st s);
  (* the harvest index is below every later reference value *)
  c3_hi_le : forall dap' dcd', (dap - d_delayed_cds s <= dap' - dcd')%Z ->
             d_harvest_index s <= HRf (cf_y (crops (c_id (sel_crop par season)))) (d_HIfinal s) dap' dcd';
  c3_root : RootInv par crops season dap s }.

(* the same facts for either value of the in-season flag *)
Lemma HIref_gs c h hf dap dcd yf pct cc ccxw gs : YieldR.hiref_crop_ok c -> 0 <= hf ->
  fst (fst (Yield.HIref_current_day c h hf dap dcd yf pct cc ccxw gs)) = if gs then HRf c hf dap dcd else 0.
Proof. intros Hc Hf. destruct gs; [apply HRf_eq; assumption | reflexivity]. Qed.

Lemma hi_cases_gs p ztop c sc s zroot th tes hiref dap dcds yf B Bns cc et0 tmax tmin gs s' :
  Yield.harvest_index p ztop c sc s zroot th tes hiref dap dcds yf B Bns cc et0 tmax tmin gs = Some s' ->
  if gs then Yield.h_hi s' = hiref \/ Yield.h_hi s' = Yield.h_hi s else Yield.h_hi s' = 0.
Proof. destruct gs; [apply hi_cases|]. unfold Yield.harvest_index. intros [= <-]. reflexivity. Qed.

(* ============================================================================================================ *)
(*  Part B: one defined concrete day from the strong invariant                                                    *)
(* ============================================================================================================ *)
Section CropDay.
  Variables (par : DPar R) (crops : Z -> CropFull R) (season : Z) (gs : bool) (dap0 tsc : Z) (w : Day.W R) (s : DState R).
  Variable Rs : Results R.
  Let dap := dap_of gs dap0.
  Let x := ctx par season gs dap tsc w s.
  Let PO := procs_concrete crops.
  Let prof := so_prof (p_soil par).
  Let dc := sel_crop par season.
  Let cf := crops (c_id dc).
  Let kc := cf_can cf.
  Let yc := cf_y cf.
  Let rc := root_crop cf dc.
  Let tr := trace_of x Rs.
  Hypothesis HR : results_opt x PO = Some Rs.
  Hypothesis POK : ParOK par crops.
  Hypothesis SI : StrongInv par crops season dap0 s.
  Let SO : SpecO x PO Rs := results_opt_spec _ _ _ HR.
  Let CK : CropOK dc cf (p_co2c par season) (p_co2r par) := po_crop _ _ POK season.
  Let Hdap : dap = if gs then (dap0 + 1)%Z else 0%Z := eq_refl.

  (* ---- canopy ------------------------------------------------------------------------------------------------- *)
  Lemma cd_canopy :
    0 <= ccR_cc_ns (rs_cc Rs) <= Canopy.k_CCx kc /\ 0 <= trR_cc (rs_tr Rs) <= Canopy.k_CCx kc /\
    trR_cc (rs_tr Rs) <= ccR_cc_ns (rs_cc Rs) /\
    (trR_cc (rs_tr Rs) = ccR_cc (rs_cc Rs) \/
     (trR_cc (rs_tr Rs) = d_canopy_cover s /\ d_canopy_cover s + 5 / 1000 < ccR_cc (rs_cc Rs))).
  Proof.
    destruct (sd_cc par crops season gs dap0 dap tsc w s Rs HR POK SI Hdap) as (s1 & Er & Hs & _ & _ & _ & _ & Hprev).
    fold dc cf kc in Hs.
    assert (Hi : (0 <= Canopy.s_cc s1 <= Canopy.k_CCx kc) /\ (0 <= Canopy.s_cc_ns s1 <= Canopy.k_CCx kc)).
    { destruct gs; [destruct Hs as [A B _ _ _] | destruct (Hs 0) as [A B _ _ _]]; split; assumption. }
    pose proof (so_cc _ _ _ SO) as S11. cbn [PO procs_concrete po_cc] in S11.
    destruct (c_cc_inv _ _ _ _ S11) as (d1 & d2 & d3 & d4 & s2 & E & Er2).
    pose proof (CanopyR.cc_le_ns _ _ _ _ _ _ _ _ _ _ _ _ _ _ E) as Hle.
    assert (Hle' : ccR_cc (rs_cc Rs) <= ccR_cc_ns (rs_cc Rs)) by (rewrite Er2; exact Hle).
    destruct Hi as [A B].
    assert (A' : 0 <= ccR_cc (rs_cc Rs) <= Canopy.k_CCx kc) by (rewrite Er; exact A).
    assert (B' : 0 <= ccR_cc_ns (rs_cc Rs) <= Canopy.k_CCx kc) by (rewrite Er; exact B).
    assert (P' : ccR_cc_prev (rs_cc Rs) = d_canopy_cover s) by (rewrite Er; exact Hprev).
    pose proof (cv_cc _ _ _ (si_can _ _ _ _ _ SI)) as Hold. fold dc cf kc in Hold.
    pose proof (so_tr _ _ _ SO) as S13. cbn [PO procs_concrete po_tr] in S13.
    destruct (ctr_call3 _ _ _ _ S13) as (o & Et & Ec & _ & _).
    destruct (tr_cc_cases _ _ _ _ _ _ _ _ _ _ _ _ Et) as [T|[T1 T2]];
      cbn [tr_state Transpiration.s_cc Transpiration.s_cc_prev t_tr trace_of arg_tr trA_cc trA_cc_prev] in *.
    - rewrite Ec, T. split; [exact B'|]. split; [exact A'|]. split; [exact Hle'|]. left. reflexivity.
    - rewrite Ec, T1, P' in *. split; [exact B'|]. split; [exact Hold|]. split; [lra|]. right. split; [reflexivity|exact T2].
  Qed.

  (* ---- harvest index -------------------------------------------------------------------------------------------- *)
  Hypothesis HOK : CropHIOK par crops season.
  Hypothesis C3 : CInv3 par crops season dap0 s.
  Let Hrc : YieldR.hiref_crop_ok yc := ho_hiref _ _ _ HOK.
  Let Hhf : 0 <= d_HIfinal s := c3_hifinal _ _ _ _ _ C3.

  (* the clock value dap - DelayedCDs does not run backwards *)
  Lemma cd_clock : gs = true -> (dap0 - d_delayed_cds s <= dap - geR_dcd (rs_ge Rs))%Z.
  Proof.
    intros G. destruct (sd_ge par crops season gs dap0 dap tsc w s Rs HR POK SI) as (_ & H & _). destruct (H G) as [H1 _].
    unfold dap, dap_of. rewrite G. lia.
  Qed.

  Lemma cd_hiref : hrR_hiref (rs_hr Rs) = if gs then HRf yc (d_HIfinal s) dap (geR_dcd (rs_ge Rs)) else 0.
  Proof.
    pose proof (v_hr par crops season gs dap tsc w s Rs HR) as V. fold dc cf yc in V.
    pose proof (HIref_gs yc (d_hi_ref s) (d_HIfinal s) dap (geR_dcd (rs_ge Rs)) (d_yield_form s) (d_pct_lag_phase s) (trR_cc (rs_tr Rs))
                  (ccR_ccx_w (rs_cc Rs)) gs Hrc Hhf) as Q.
    rewrite V in Q. exact Q.
  Qed.

  Lemma cd_hiref_range : 0 <= hrR_hiref (rs_hr Rs) <= Yield.y_HI0 yc.
  Proof.
    rewrite cd_hiref. pose proof (HRf_range yc (d_HIfinal s) dap (geR_dcd (rs_ge Rs)) Hrc Hhf).
    assert (0 <= Yield.y_HI0 yc) by (destruct Hrc; lra). destruct gs; lra.
  Qed.

  Lemma cd_hi_call :
    Yield.harvest_index prof (so_z_top (p_soil par)) yc (s_crop cf dc) (hstate_st s) (rdR_zroot (rs_rd Rs)) (giR_th (rs_gi Rs))
      (ccR_t_early_sen (rs_cc Rs)) (hrR_hiref (rs_hr Rs)) dap (geR_dcd (rs_ge Rs)) (hrR_yf (rs_hr Rs)) (bmR_b (rs_bm Rs)) (bmR_bns (rs_bm Rs))
      (trR_cc (rs_tr Rs)) (w_et0 w) (w_tmax w) (w_tmin w) gs = Some (hstate_res (rs_hi Rs)).
  Proof. pose proof (so_hi _ _ _ SO) as S17. cbn [PO procs_concrete po_hi] in S17. exact (chi_call _ _ _ _ S17). Qed.

  (* the state of harvest_index after the day satisfies YieldR.hs_ok again *)
  Lemma cd_hs : YieldR.hs_ok yc (hstate_res (rs_hi Rs)).
  Proof.
    refine (YieldR.harvest_index_invariant _ _ _ _ _ _ _ _ _ _ _ _ _ _ _ _ _ _ _ _ cd_hi_call (ho_hi _ _ _ HOK) (c3_hs _ _ _ _ _ C3)
              cd_hiref_range _ _ _ _); cbn [s_crop Yield.s_fs0 Yield.s_fs1 Yield.s_fs2 Yield.s_Zmin Yield.s_Aer].
    - exact (ho_fs0 _ _ _ HOK).
    - exact (ho_fs1 _ _ _ HOK).
    - exact (ho_fs2 _ _ _ HOK).
    - intros rz E. exact (ho_taw _ _ _ HOK _ _ _ E).
  Qed.

  Lemma cd_hi_cases :
    if gs then hiR_hi (rs_hi Rs) = hrR_hiref (rs_hr Rs) \/ hiR_hi (rs_hi Rs) = d_harvest_index s else hiR_hi (rs_hi Rs) = 0.
  Proof. exact (hi_cases_gs _ _ _ _ _ _ _ _ _ _ _ _ _ _ _ _ _ _ _ _ cd_hi_call). Qed.

  (* C05: the harvest index never decreases within the season, lies in [0, HI0]; the adjusted index within [0, cap] *)
  Lemma cd_hi :
    0 <= hiR_hi (rs_hi Rs) <= Yield.y_HI0 yc /\
    0 <= hiR_hiadj (rs_hi Rs) <= (1 + Yield.y_dHI0 yc / 100) * Yield.y_HI0 yc /\
    (gs = true -> d_harvest_index s <= hiR_hi (rs_hi Rs)) /\
    (gs = true -> hiR_hi (rs_hi Rs) <= hrR_hiref (rs_hr Rs)).
  Proof.
    destruct cd_hs as [_ _ _ _ _ _ _ A B]. cbn [hstate_res Yield.h_hi Yield.h_hiadj] in A, B. unfold YieldR.hi_cap in A.
    split; [exact B|]. split; [exact A|].
    pose proof cd_hi_cases as Hc. pose proof cd_hiref as Hr.
    split; intros G; rewrite G in Hc, Hr; pose proof (cd_clock G) as Hk;
      pose proof (c3_hi_le _ _ _ _ _ C3 dap (geR_dcd (rs_ge Rs)) Hk) as Hle; fold dc cf yc in Hle.
    - destruct Hc as [-> | ->]; [rewrite Hr; exact Hle | lra].
    - destruct Hc as [-> | ->]; [lra | rewrite Hr; exact Hle].
  Qed.

  (* ---- roots ---------------------------------------------------------------------------------------------------- *)
  Let Hrok : RootsR.rc_ok rc := co_root _ _ _ _ CK.
  Let Hcm : RootsR.zmin_cm (Roots.rc_Zmin rc) := co_zmin_cm _ _ _ _ CK.
  Let Hwfp : wf_prof prof := po_wf _ _ POK.
  Let Hpen : RootsR.pen_ok prof := po_pen _ _ POK.
  Let Htrr : 0 <= d_tr_ratio s <= 1 := si_trratio _ _ _ _ _ SI.
  Let Hgdd : 0 <= rs_gdd Rs := proj1 (sd_gdd par crops season gs dap tsc w s Rs HR POK).

  Lemma cd_rd_call : exists zgw, zgw_of (p_water_table par) (gwR_zgw (rs_gw Rs)) = Some zgw /\
    Roots.root_development rc prof dap (d_z_root s) (d_delayed_cds s) (gdd_cum_of x (rs_gdd Rs)) (d_delayed_gdds s) (d_tr_ratio s) (d_th s)
      (d_canopy_cover s) (d_canopy_cover_ns s) (d_germination s) (d_r_cor s) (d_t_pot s) zgw (rs_gdd Rs) gs (p_water_table par)
    = Some (rdR_zroot (rs_rd Rs), rdR_rcor (rs_rd Rs)).
  Proof. pose proof (so_rd _ _ _ SO) as S2. cbn [PO procs_concrete po_rd] in S2. exact (crd_call _ _ _ _ S2). Qed.

  (* with a water table the depth handed to root_development is the day's observation *)
  Lemma cd_zgw_table zgw : p_water_table par = 1%Z -> zgw_of (p_water_table par) (gwR_zgw (rs_gw Rs)) = Some zgw -> zgw = w_gw w.
  Proof.
    intros W1 E. pose proof (so_gw _ _ _ SO) as S1. cbn [PO procs_concrete po_gw] in S1.
    assert (E1 : gwA_wt (t_gw tr) = 1%Z) by exact W1.
    destruct (cgw_call_table (x_prof x) (t_gw tr) (rs_gw Rs) E1 S1) as (_ & G2 & _). rewrite G2 in E. cbn in E. congruence.
  Qed.

  Lemma cd_germ_call : exists g,
    Roots.germination (d_germination s) (d_protected_seed s) (d_delayed_cds s) (d_delayed_gdds s) (crR_th (rs_cr Rs)) (so_z_germ (p_soil par)) prof
                      (c_GermThr dc) (c_PlantMethod dc) (rs_gdd Rs) gs = Some g /\
    geR_germ (rs_ge Rs) = Roots.g_germ g /\ geR_dcd (rs_ge Rs) = Roots.g_dcd g /\ geR_dgdd (rs_ge Rs) = Roots.g_dgdd g.
  Proof. pose proof (so_ge _ _ _ SO) as S9. cbn [PO procs_concrete po_ge] in S9. exact (cge_call _ _ _ S9). Qed.

  (* the day's delay: either the counters are unchanged, or the crop had not germinated and both advance *)
  Lemma cd_delay : gs = true ->
    (geR_dcd (rs_ge Rs) = d_delayed_cds s /\ geR_dgdd (rs_ge Rs) = d_delayed_gdds s) \/
    (d_germination s = false /\ geR_dcd (rs_ge Rs) = (d_delayed_cds s + 1)%Z /\ geR_dgdd (rs_ge Rs) = d_delayed_gdds s + rs_gdd Rs).
  Proof.
    intros G. destruct cd_germ_call as (g & E & _ & -> & ->). rewrite G in E. apply RootsR.germination_frame in E.
    destruct E as [[_ ->]|[E0 [w0 [_ [[_ ->]|[_ ->]]]]]]; cbn; [left; split; reflexivity | left; split; reflexivity | right; repeat split; auto].
  Qed.

  Lemma cd_times tadj told : gs = true ->
    Roots.rd_times rc dap (d_delayed_cds s) (gdd_cum_of x (rs_gdd Rs)) (d_delayed_gdds s) (rs_gdd Rs) = Some (tadj, told) ->
    told = troot rc dap0 s /\
    (geR_dcd (rs_ge Rs) = d_delayed_cds s -> geR_dgdd (rs_ge Rs) = d_delayed_gdds s -> troot rc dap (state_of x Rs) = tadj) /\
    (geR_dcd (rs_ge Rs) = (d_delayed_cds s + 1)%Z -> geR_dgdd (rs_ge Rs) = d_delayed_gdds s + rs_gdd Rs ->
     troot rc dap (state_of x Rs) = told).
  Proof.
    intros G. unfold Roots.rd_times, troot, gdd_cum_of. cbn [state_of d_delayed_cds d_gdd_cum d_delayed_gdds x_gs x_s x ctx].
    unfold gdd_cum_of. change (x_gs x) with gs. change (x_s x) with s. unfold dap, dap_of. rewrite G. rnum.
    destruct (Roots.rc_cal rc =? 1)%Z.
    - intros [= <- <-]. split; [f_equal; lia|]. split; intros -> _; f_equal; lia.
    - destruct (Roots.rc_cal rc =? 2)%Z; [|discriminate]. intros [= <- <-]. split; [lra|]. split; intros _ ->; lra.
  Qed.

  Hypothesis RI : RootInv par crops season dap0 s.

  (* what RootsR.root_range / root_monotone / root_above_table give for the day's call, and the invariant again *)
  Lemma cd_roots : gs = true ->
    c_Zmin dc <= rdR_zroot (rs_rd Rs) <= Roots.rc_Zmax rc /\
    (dap0 <> 0%Z -> d_z_root s <= rdR_zroot (rs_rd Rs) \/
                    (p_water_table par = 1%Z /\ 0 < w_gw w /\ rdR_zroot (rs_rd Rs) = Rmax (w_gw w) (c_Zmin dc))) /\
    (p_water_table par = 1%Z -> 0 < w_gw w -> rdR_zroot (rs_rd Rs) <= Rmax (w_gw w) (c_Zmin dc)) /\
    RootInv par crops season dap (state_of x Rs).
  Proof.
    intros G. destruct cd_rd_call as (zgw & Ez & E). rewrite G in E.
    assert (Hf : Roots.rc_fshape_r rc <> 0) by (pose proof (RootsR.ok_fr rc Hrok); lra).
    destruct (root_development_inv2 _ _ _ _ _ _ _ _ _ _ _ _ _ _ _ _ _ _ _ Hf E) as (tadj & told & d & b & Et & Ed & Ez' & _).
    destruct (cd_times tadj told G Et) as (T0 & T1 & T2).
    assert (Hpre : dap = 1%Z \/ (Roots.rc_Zmin rc <= d_z_root s /\
                     forall zo, Roots.rd_restricted prof (Roots.rc_Zmin rc) (RootsR.pot rc told) = Some zo -> d_z_root s <= zo)).
    { destruct (Z.eq_dec dap0 0) as [D0|D0]; [left; unfold dap, dap_of; rewrite G, D0; reflexivity|]. right.
      split; [exact (si_zroot _ _ _ _ _ SI D0)|]. intros zo Hzo. rewrite T0 in Hzo. exact (RI D0 zo Hzo). }
    destruct (RootsR.root_range _ _ _ _ _ _ _ _ _ _ _ _ _ _ _ _ _ _ _ _ _ Hrok Hcm Hwfp Hpen Htrr Hgdd Et E Hpre) as (zn & En & Hz & Hn).
    cbn [rc root_crop Roots.rc_Zmin] in Hz. fold rc in Hz.
    split; [lra|]. split; [|split].
    - intros D0. assert (D1 : dap <> 1%Z) by (unfold dap, dap_of; rewrite G; lia).
      destruct (RootsR.root_monotone _ _ _ _ _ _ _ _ _ _ _ _ _ _ _ _ _ _ _ Hrok Hcm Hwfp Hpen Htrr Hgdd D1 E) as [H|(W1 & Hg & Hr)]; [left; exact H|].
      right. rewrite (cd_zgw_table zgw W1 Ez) in *. split; [exact W1|]. split; [exact Hg|exact Hr].
    - intros W1 Hg. rewrite <- (cd_zgw_table zgw W1 Ez) in *. rewrite W1 in E.
      exact (RootsR.root_above_table _ _ _ _ _ _ _ _ _ _ _ _ _ _ _ _ _ _ Hg E).
    - (* the invariant after the day *)
      intros _ zo Hzo. cbn [state_of d_z_root]. fold dc cf rc in Hzo. change (so_prof (p_soil par)) with prof in Hzo.
      destruct (cd_delay G) as [[D1 D2]|(Dg & D1 & D2)].
      + rewrite (T1 D1 D2) in Hzo. cbn [rc root_crop Roots.rc_Zmin] in En. fold rc in En. rewrite En in Hzo. inversion Hzo; subst. lra.
      + rewrite (T2 D1 D2) in Hzo.
        (* not germinated: no expansion today *)
        assert (Hd0 : d = 0).
        { revert Ed. rewrite Dg. unfold Roots.rd_dzr.
          match goal with |- match ?e with _ => _ end = _ -> _ => destruct e as [d0|]; [|discriminate] end.
          destruct (Roots.rd_dry _ _ _ _ _) as [d1|]; [|discriminate]. intros [= <-]. rnum. reflexivity. }
        pose proof (RootsR.pot_range rc told Hrok) as Hpr.
        pose proof (RootsR.rd_restricted_range _ _ _ _ Hwfp Hpen Hcm (proj1 Hpr) Hzo) as Hzo_r.
        set (zinit := if (dap =? 1)%Z then Roots.rc_Zmin rc else d_z_root s) in *.
        assert (Hzi : Roots.rc_Zmin rc <= zinit /\ zinit <= zo).
        { unfold zinit. destruct (Z.eqb_spec dap 1) as [D|D]; [lra|]. destruct Hpre as [D'|[A B]]; [contradiction|].
          split; [exact A | exact (B zo Hzo)]. }
        pose proof (RootsR.rd_table_range (Roots.rc_Zmin rc) (zinit + d) zgw (p_water_table par) ltac:(lra)) as Htb.
        rewrite Ez'. lra.
  Qed.

  (* ---- biomass --------------------------------------------------------------------------------------------------- *)
  Hypothesis WK : WOK w.
  Hypothesis DK : DapOK par crops season gs dap.
  Hypothesis Cap : CapOK par Rs.
  Let Side : DaySide par crops season gs dap tsc w s Rs := sd_side par crops season gs dap0 dap tsc w s Rs HR POK WK DK SI Hdap Cap.

  Lemma cd_tr_nonneg : 0 <= trR_tr (rs_tr Rs).
  Proof. exact (proj1 (f_tr par crops season gs dap tsc w s Rs HR (side_trwf _ _ _ _ _ _ _ _ _ Side) (side_trpot _ _ _ _ _ _ _ _ _ Side))). Qed.

  (* potential transpiration of the no-stress canopy (the second half of TranspirationR.trpot_nonneg) *)
  Lemma cd_trpot_ns_nonneg : 0 <= trR_trpot_ns (rs_tr Rs).
  Proof.
    pose proof (so_tr _ _ _ SO) as S13. cbn [PO procs_concrete po_tr] in S13.
    destruct (gs_cases gs) as [G|G].
    - destruct (ctr_call3 _ _ _ _ S13) as (o & E & _ & -> & _).
      destruct (sd_cc par crops season gs dap0 dap tsc w s Rs HR POK SI Hdap) as (s1 & Er & _ & Hw & Hwn & Ha & Han & _).
      pose proof (CanopyR.ck_CCx _ (co_can _ _ _ _ CK)) as H1. fold dc cf in Hw, Hwn.
      assert (Hdcd : 0 <= IZR (geR_dcd (rs_ge Rs))) by (apply IZR_le; apply (sd_ge par crops season gs dap0 dap tsc w s Rs HR POK SI)).
      refine (proj2 (TranspirationR.trpot_nonneg _ _ _ _ _ _ _ _ _ _ _ _ (wo_et0 _ WK) _ _ _ _ E));
        cbn [tr_state t_tr trace_of arg_tr Transpiration.s_cc_adj Transpiration.s_cc_adj_ns Transpiration.s_dap Transpiration.s_delayed_cds
             Transpiration.s_age_days Transpiration.s_age_days_ns Transpiration.s_ccx_w Transpiration.s_ccx_w_ns
             trA_cc_adj trA_cc_adj_ns trA_dap trA_dcd trA_age_days trA_age_days_ns trA_ccx_w trA_ccx_w_ns trA_crop x_crop x_par x_season x_dap x_s x ctx];
        rewrite ?Er; cbn [canopy_result ccR_cc_adj ccR_cc_adj_ns ccR_ccx_w ccR_ccx_w_ns]; try assumption.
      + fold dc cf. cbn [tr_crop Transpiration.k_MaxCanopyCD].
        apply tr_kcb_nonneg_age; cbn [tr_crop Transpiration.k_Kcb Transpiration.k_fage];
          [exact (co_kcb _ _ _ _ CK) | exact (co_fage _ _ _ _ CK) | | lra | exact (po_co2r _ _ POK) | exact (co_co2 _ _ _ _ CK)].
        rnum. apply tr_age_bound; [exact (co_fage _ _ _ _ CK) | exact Hdcd | exact (si_age _ _ _ _ _ SI) | exact (DK G)].
      + fold dc cf. cbn [tr_crop Transpiration.k_MaxCanopyCD].
        apply tr_kcb_nonneg_age; cbn [tr_crop Transpiration.k_Kcb Transpiration.k_fage];
          [exact (co_kcb _ _ _ _ CK) | exact (co_fage _ _ _ _ CK) | | lra | exact (po_co2r _ _ POK) | exact (co_co2 _ _ _ _ CK)].
        rnum. apply tr_age_bound; [exact (co_fage _ _ _ _ CK) | exact Hdcd | exact (si_age_ns _ _ _ _ _ SI) | exact (DK G)].
    - destruct (c_tr_off crops (x_prof x) (t_tr tr) (rs_tr Rs) G S13) as (_ & _ & -> & _). lra.
  Qed.

  (* a defined in-season day has ET0 <> 0 (biomass_accumulation divides by it) *)
  Lemma cd_et0_pos : gs = true -> 0 < w_et0 w.
  Proof.
    intros G. pose proof (v_bm par crops season gs dap tsc w s Rs HR) as V. rewrite G in V. pose proof (wo_et0 _ WK) as H0.
    destruct (Req_dec (w_et0 w) 0) as [E|E]; [|lra]. exfalso. revert V. unfold Yield.biomass_accumulation.
    destruct (Yield.wp_adj _ _ _ _) as [w1|]; [|discriminate]. rnum. rewrite E. destruct (Reqb_spec 0 0); [discriminate|lra].
  Qed.

  Hypothesis Hpct : 0 <= d_pct_lag_phase s <= 100.

  Lemma cd_biomass : gs = true -> d_biomass s <= bmR_b (rs_bm Rs) /\ d_biomass_ns s <= bmR_bns (rs_bm Rs).
  Proof.
    intros G. pose proof (v_bm par crops season gs dap tsc w s Rs HR) as V. rewrite G in V. fold dc cf yc in V.
    pose proof (v_hr par crops season gs dap tsc w s Rs HR) as VH. fold dc cf yc in VH.
    assert (Hp : 0 <= hrR_pct (rs_hr Rs) <= 100).
    { pose proof (YieldR.pct_lag_range yc (d_hi_ref s) (d_HIfinal s) dap (geR_dcd (rs_ge Rs)) (d_yield_form s) (d_pct_lag_phase s)
                    (trR_cc (rs_tr Rs)) (ccR_ccx_w (rs_cc Rs)) gs Hpct) as Q. rewrite VH in Q. exact Q. }
    assert (Hh : 0 < hrR_hiref (rs_hr Rs) -> 0 <= Yield.hit yc dap (geR_dcd (rs_ge Rs))).
    { intros Hh. pose proof (YieldR.hiref_pos_hit yc (d_hi_ref s) (d_HIfinal s) dap (geR_dcd (rs_ge Rs)) (d_yield_form s) (d_pct_lag_phase s)
                               (trR_cc (rs_tr Rs)) (ccR_ccx_w (rs_cc Rs)) gs) as Q. rewrite VH in Q. cbn [fst] in Q. specialize (Q Hh). lra. }
    exact (YieldR.biomass_monotone _ _ _ _ _ _ _ _ _ _ _ _ V Hp Hh cd_tr_nonneg cd_trpot_ns_nonneg (cd_et0_pos G)
             (ho_WP _ _ _ HOK) (ho_fCO2 _ _ _ HOK) (proj1 (ho_WPy _ _ _ HOK))).
  Qed.
End CropDay.

(* ============================================================================================================ *)
(*  Part C: the day theorems (C05, crop state), on the growth row the day writes                                   *)
(* ============================================================================================================ *)
(* [dap0] is the clock's days-after-planting counter before the day; the day runs with [dap_of gs dap0] *)

(* ---- canopy cover: 0 <= CC <= CCx, CC <= CC_NS <= CCx; the row's CC is what transpiration hands back (today's canopy, or
   yesterday's when today's grew by more than 0.005 while nothing was transpired), both are covered ---- *)
Theorem day_canopy_concrete par crops season gs dap0 tsc w s s' row :
  ParOK par crops -> StrongInv par crops season dap0 s ->
  day_proc_opt par (procs_concrete crops) season gs (dap_of gs dap0) tsc w s = Some (s', row) ->
  let g := r_growth row in let CCx := Canopy.k_CCx (cf_can (crops (c_id (sel_crop par season)))) in
  0 <= gr_cc g <= CCx /\ 0 <= gr_cc_ns g <= CCx /\ gr_cc g <= gr_cc_ns g /\
  d_canopy_cover s' = gr_cc g /\ d_canopy_cover_ns s' = gr_cc_ns g /\
  (gs = false -> gr_cc g = 0 /\ gr_cc_ns g = 0).
Proof.
  intros P S H. cbv zeta.
  assert (Hoff : gs = false -> gr_cc (r_growth row) = 0 /\ gr_cc_ns (r_growth row) = 0).
  { intros G. rewrite G in H. pose proof (off_season_concrete _ _ _ _ _ _ _ _ _ H) as X. cbv zeta in X. tauto. }
  destruct (day_proc_opt_total _ _ _ _ _ _ _ _ _ _ H) as (_ & Rs & HR & _ & -> & ->).
  destruct (cd_canopy par crops season gs dap0 tsc w s Rs HR P S) as (A & B & C & _).
  cbn [row_of r_growth gr_cc gr_cc_ns state_of d_canopy_cover d_canopy_cover_ns] in *.
  split; [exact B|]. split; [exact A|]. split; [exact C|]. split; [reflexivity|]. split; [reflexivity|exact Hoff].
Qed.

(* ---- harvest index ---- *)
Theorem day_hi_concrete par crops season gs dap0 tsc w s s' row :
  ParOK par crops -> StrongInv par crops season dap0 s -> CropHIOK par crops season -> CInv3 par crops season dap0 s ->
  day_proc_opt par (procs_concrete crops) season gs (dap_of gs dap0) tsc w s = Some (s', row) ->
  let g := r_growth row in let c := cf_y (crops (c_id (sel_crop par season))) in
  0 <= gr_HI g <= Yield.y_HI0 c /\
  0 <= gr_HIadj g <= (1 + Yield.y_dHI0 c / 100) * Yield.y_HI0 c /\
  (gs = true -> d_harvest_index s <= gr_HI g) /\
  (gs = true -> gr_HI g <= d_hi_ref s' /\ d_hi_ref s' <= Yield.y_HI0 c) /\
  d_harvest_index s' = gr_HI g /\ d_harvest_index_adj s' = gr_HIadj g /\
  (gs = false -> gr_HI g = 0 /\ gr_HIadj g = 0).
Proof.
  intros P S HO C3 H. cbv zeta.
  assert (Hoff : gs = false -> gr_HI (r_growth row) = 0 /\ gr_HIadj (r_growth row) = 0).
  { intros G. rewrite G in H. pose proof (off_season_concrete _ _ _ _ _ _ _ _ _ H) as X. cbv zeta in X. tauto. }
  destruct (day_proc_opt_total _ _ _ _ _ _ _ _ _ _ H) as (_ & Rs & HR & _ & -> & ->).
  destruct (cd_hi par crops season gs dap0 tsc w s Rs HR P S HO C3) as (A & B & C & D).
  pose proof (cd_hiref_range par crops season gs dap0 tsc w s Rs HR HO C3) as Hr.
  cbn [row_of r_growth gr_HI gr_HIadj state_of d_harvest_index d_harvest_index_adj d_hi_ref] in *.
  split; [exact A|]. split; [exact B|]. split; [exact C|]. split; [intros G; split; [exact (D G) | apply Hr]|].
  split; [reflexivity|]. split; [reflexivity|exact Hoff].
Qed.

(* ---- rooting depth: what RootsR.root_range (with root_first_day for dap = 1), root_monotone and root_above_table give for
   the day's call, and RootsR.root_range's invariant again ---- *)
Theorem day_roots_concrete par crops season gs dap0 tsc w s s' row :
  ParOK par crops -> StrongInv par crops season dap0 s -> RootInv par crops season dap0 s ->
  day_proc_opt par (procs_concrete crops) season gs (dap_of gs dap0) tsc w s = Some (s', row) ->
  let g := r_growth row in let Zmin := c_Zmin (sel_crop par season) in
  let Zmax := Roots.rc_Zmax (cf_root (crops (c_id (sel_crop par season)))) in
  (gs = true ->
     Zmin <= gr_z_root g <= Zmax /\
     (* never shrinks within the season, except when a water table inside the root zone forces the roots up *)
     (dap0 <> 0%Z -> d_z_root s <= gr_z_root g \/ (p_water_table par = 1%Z /\ 0 < w_gw w /\ gr_z_root g = Rmax (w_gw w) Zmin)) /\
     (* never below a present water table (below the surface), unless the table is shallower than Zmin *)
     (p_water_table par = 1%Z -> 0 < w_gw w -> gr_z_root g <= Rmax (w_gw w) Zmin)) /\
  (gs = false -> gr_z_root g = 0) /\
  d_z_root s' = gr_z_root g /\
  RootInv par crops season (dap_of gs dap0) s'.
Proof.
  intros P S RI H. cbv zeta.
  assert (Hoff : gs = false -> gr_z_root (r_growth row) = 0).
  { intros G. rewrite G in H. pose proof (off_season_concrete _ _ _ _ _ _ _ _ _ H) as X. cbv zeta in X. tauto. }
  destruct (day_proc_opt_total _ _ _ _ _ _ _ _ _ _ H) as (_ & Rs & HR & _ & -> & ->).
  cbn [row_of r_growth gr_z_root state_of d_z_root] in *.
  split; [|split; [exact Hoff|split; [reflexivity|]]].
  - intros G. destruct (cd_roots par crops season gs dap0 tsc w s Rs HR P S RI G) as (A & B & C & _).
    cbn [root_crop Roots.rc_Zmax] in A. split; [exact A|]. split; [exact B|exact C].
  - destruct (gs_cases gs) as [G|G].
    + exact (proj2 (proj2 (proj2 (cd_roots par crops season gs dap0 tsc w s Rs HR P S RI G)))).
    + intros D. exfalso. apply D. rewrite G. reflexivity.
Qed.

(* ---- biomass: B and B_NS never decrease within the season ---- *)
Theorem day_biomass_concrete par crops season gs dap0 tsc w s s' row :
  ParOK par crops -> WOK w -> DapOK par crops season gs (dap_of gs dap0) -> StrongInv par crops season dap0 s ->
  CropHIOK par crops season -> 0 <= d_pct_lag_phase s <= 100 ->
  day_proc_opt par (procs_concrete crops) season gs (dap_of gs dap0) tsc w s = Some (s', row) ->
  (forall Rs, results_opt (ctx par season gs (dap_of gs dap0) tsc w s) (procs_concrete crops) = Some Rs -> CapOK par Rs) ->
  let g := r_growth row in
  (gs = true -> d_biomass s <= gr_B g /\ d_biomass_ns s <= gr_B_ns g /\ 0 < w_et0 w) /\
  (gs = false -> gr_B g = 0 /\ gr_B_ns g = 0) /\
  d_biomass s' = gr_B g /\ d_biomass_ns s' = gr_B_ns g.
Proof.
  intros P Wk D S HO Hp H Cap. cbv zeta.
  assert (Hoff : gs = false -> gr_B (r_growth row) = 0 /\ gr_B_ns (r_growth row) = 0).
  { intros G. rewrite G in H. pose proof (off_season_concrete _ _ _ _ _ _ _ _ _ H) as X. cbv zeta in X. tauto. }
  destruct (day_proc_opt_total _ _ _ _ _ _ _ _ _ _ H) as (_ & Rs & HR & _ & -> & ->).
  cbn [row_of r_growth gr_B gr_B_ns state_of d_biomass d_biomass_ns] in *.
  split; [|split; [exact Hoff|split; reflexivity]].
  intros G. destruct (cd_biomass par crops season gs dap0 tsc w s Rs HR P S HO Wk D (Cap Rs HR) Hp G) as [A B].
  split; [exact A|]. split; [exact B|]. exact (cd_et0_pos par crops season gs dap0 tsc w s Rs HR Wk G).
Qed.

(* ============================================================================================================ *)
(*  Part D: the crop invariant is preserved by the day and by the season reset; whole runs                         *)
(* ============================================================================================================ *)
Theorem cinv3_step par crops season gs dap0 tsc w s Rs :
  ParOK par crops -> StrongInv par crops season dap0 s -> CropHIOK par crops season -> CInv3 par crops season dap0 s ->
  results_opt (ctx par season gs (dap_of gs dap0) tsc w s) (procs_concrete crops) = Some Rs ->
  CInv3 par crops season (dap_of gs dap0) (state_of (ctx par season gs (dap_of gs dap0) tsc w s) Rs).
Proof.
  intros P S HO C3 HR.
  pose proof (ho_hiref _ _ _ HO) as Hrc. pose proof (c3_hifinal _ _ _ _ _ C3) as Hhf.
  constructor.
  - exact Hhf.
  - exact (cd_hs par crops season gs dap0 tsc w s Rs HR HO C3).
  - intros dap' dcd' Hk. cbn [state_of d_delayed_cds d_harvest_index d_HIfinal] in *.
    pose proof (cd_hi_cases par crops season gs dap0 tsc w s Rs HR) as Hc.
    pose proof (cd_hiref par crops season gs dap0 tsc w s Rs HR HO C3) as Hr.
    cbn [x_s ctx]. destruct gs.
    + pose proof (cd_clock par crops season true dap0 tsc w s Rs HR P S eq_refl) as Hk0.
      destruct Hc as [-> | ->].
      * rewrite Hr. apply HRf_mono; assumption.
      * apply (c3_hi_le _ _ _ _ _ C3). lia.
    + rewrite Hc. apply HRf_range; assumption.
  - destruct (gs_cases gs) as [G|G].
    + exact (proj2 (proj2 (proj2 (cd_roots par crops season gs dap0 tsc w s Rs HR P S (c3_root _ _ _ _ _ C3) G)))).
    + intros D. exfalso. apply D. rewrite G. reflexivity.
Qed.

Theorem cinv3_reset par crops season ws s :
  (-1 <= season)%Z -> CropHIOK par crops (season + 1) -> CInv3 par crops (season + 1) 0 (reset par (season + 1) ws s).
Proof.
  intros Hs HO.
  assert (Hsel : sel_crop par (season + 1) = p_crop par (season + 1)).
  { unfold sel_crop. destruct (Z.leb_spec 0 (season + 1)); [reflexivity|lia]. }
  pose proof (ho_hiref _ _ _ HO) as Hrc. pose proof (ho_hi _ _ _ HO) as [_ H0 Hd _ _ _ _ _].
  pose proof (ho_HI0 _ _ _ HO) as Hf. rewrite Hsel in Hf.
  constructor.
  - cbn [reset d_HIfinal]. exact Hf.
  - constructor; cbn [hstate_st reset d_harvest_index d_harvest_index_adj d_pre_adj d_f_pre d_f_pol d_s_cor1 d_s_cor2 d_fpost_upp d_fpost_dwn
                      d_f_post Yield.h_hi Yield.h_hiadj Yield.h_fpre Yield.h_fpol Yield.h_scor1 Yield.h_scor2 Yield.h_upp Yield.h_dwn Yield.h_fpost];
      rnum; try lra. unfold YieldR.hi_cap. split; [lra|]. apply Rmult_le_pos; lra.
  - intros dap' dcd' _. cbn [reset d_harvest_index d_HIfinal]. rnum. apply HRf_range; assumption.
  - intros D. contradiction D. reflexivity.
Qed.

Theorem cinv3_day par crops season gs dap0 tsc w s s' row :
  ParOK par crops -> StrongInv par crops season dap0 s -> CropHIOK par crops season -> CInv3 par crops season dap0 s ->
  day_proc_opt par (procs_concrete crops) season gs (dap_of gs dap0) tsc w s = Some (s', row) ->
  CInv3 par crops season (dap_of gs dap0) s'.
Proof.
  intros P S HO C3 H. destruct (day_proc_opt_total _ _ _ _ _ _ _ _ _ _ H) as (_ & Rs & HR & _ & -> & _).
  exact (cinv3_step par crops season gs dap0 tsc w s Rs P S HO C3 HR).
Qed.

(* the conclusions of the four day theorems as predicates of the day's clock values, weather, states and row ([dap] is the
   day's days-after-planting value: dap <> 1 says the day is not the first after planting) *)
Section CropRowPredicates.
  Variables (par : DPar R) (crops : Z -> CropFull R) (season : Z) (gs : bool) (dap : Z) (w : Day.W R) (s s' : DState R) (row : DRow R).

  Definition canopy_row : Prop :=
    let g := r_growth row in let CCx := Canopy.k_CCx (cf_can (crops (c_id (sel_crop par season)))) in
    0 <= gr_cc g <= CCx /\ 0 <= gr_cc_ns g <= CCx /\ gr_cc g <= gr_cc_ns g /\
    d_canopy_cover s' = gr_cc g /\ d_canopy_cover_ns s' = gr_cc_ns g /\
    (gs = false -> gr_cc g = 0 /\ gr_cc_ns g = 0).

  Definition hi_row : Prop :=
    let g := r_growth row in let c := cf_y (crops (c_id (sel_crop par season))) in
    0 <= gr_HI g <= Yield.y_HI0 c /\
    0 <= gr_HIadj g <= (1 + Yield.y_dHI0 c / 100) * Yield.y_HI0 c /\
    (gs = true -> d_harvest_index s <= gr_HI g) /\
    (gs = true -> gr_HI g <= d_hi_ref s' /\ d_hi_ref s' <= Yield.y_HI0 c) /\
    d_harvest_index s' = gr_HI g /\ d_harvest_index_adj s' = gr_HIadj g /\
    (gs = false -> gr_HI g = 0 /\ gr_HIadj g = 0).

  Definition roots_row : Prop :=
    let g := r_growth row in let Zmin := c_Zmin (sel_crop par season) in
    let Zmax := Roots.rc_Zmax (cf_root (crops (c_id (sel_crop par season)))) in
    (gs = true ->
       Zmin <= gr_z_root g <= Zmax /\
       (dap <> 1%Z -> d_z_root s <= gr_z_root g \/ (p_water_table par = 1%Z /\ 0 < w_gw w /\ gr_z_root g = Rmax (w_gw w) Zmin)) /\
       (p_water_table par = 1%Z -> 0 < w_gw w -> gr_z_root g <= Rmax (w_gw w) Zmin)) /\
    (gs = false -> gr_z_root g = 0) /\
    d_z_root s' = gr_z_root g.

  Definition biomass_row : Prop :=
    let g := r_growth row in
    (gs = true -> d_biomass s <= gr_B g /\ d_biomass_ns s <= gr_B_ns g /\ 0 < w_et0 w) /\
    (gs = false -> gr_B g = 0 /\ gr_B_ns g = 0) /\
    d_biomass s' = gr_B g /\ d_biomass_ns s' = gr_B_ns g.
End CropRowPredicates.

Section CropRowsStrong.
  Variables (par : DPar R) (crops : Z -> CropFull R).

  Notation PO := (procs_concrete crops).
  Notation procc := (proc_c par crops).
  Notation defc := (defined_c par crops).
  Notation EvC := (Ev (DState R) (Day.W R) (DRow R)).
  Notation is_day_c := (is_day (DState R) (Day.W R) (DRow R) procc defc).
  Notation ReachC := (Reach (DState R) (Day.W R) (DRow R) (DOut R) procc dead (matured par) (summary_of par) (reset par) defc).
  Notation performc := (perform (DState R) (Day.W R) (DRow R) (DOut R) procc dead (matured par) (summary_of par) (reset par)).
  Notation evof := (event_of (DState R) (Day.W R) (DRow R) procc dead).
  Notation minvc := (minv (DState R) (DRow R) (DOut R)).
  Notation CModelR := (Model (DState R) (DRow R) (DOut R)).
  Notation SInvc := (SInv par crops).
  Notation DapInvc := (DapInv (DState R)).

  (* the crop invariant on a clock state *)
  Definition CInvS (st : St (DState R)) : Prop := CInv3 par crops (season st) (dap st) (phys st).

  (* what one day of a run establishes about the crop columns of its growth row *)
  Record crop_rows_day (e : EvC) : Prop := {
    cr_canopy : canopy_row par crops (e_season _ _ _ e) (e_gs _ _ _ e) (e_post _ _ _ e) (e_row _ _ _ e);
    cr_hi : hi_row par crops (e_season _ _ _ e) (e_gs _ _ _ e) (e_pre _ _ _ e) (e_post _ _ _ e) (e_row _ _ _ e);
    cr_roots : roots_row par crops (e_season _ _ _ e) (e_gs _ _ _ e) (e_dap _ _ _ e) (e_w _ _ _ e) (e_pre _ _ _ e) (e_post _ _ _ e) (e_row _ _ _ e);
    cr_biomass : biomass_row (e_gs _ _ _ e) (e_w _ _ _ e) (e_pre _ _ _ e) (e_post _ _ _ e) (e_row _ _ _ e);
    cr_inv_post : CInv3 par crops (e_season _ _ _ e) (e_dap _ _ _ e) (e_post _ _ _ e) }.

  Hypothesis Hcn : cn_ok par.
  Hypothesis Hmaxseason : 0 <= i_MaxIrrSeason (p_irr par).
  Hypothesis POK : ParOK par crops.
  Hypothesis HIOK : ParHIOK par crops.
  Variable c : ClockP.
  Variable ws : list (Day.W R).
  Hypothesis Hwf : wf_clock c.
  Hypothesis Hws : weather_ok (Day.W R) WOK2 ws.
  Hypothesis HSeason : forall k p h, nthZ (plant c) k = Some p -> nthZ (harv c) k = Some h ->
    let kk := cf_tr (crops (c_id (sel_crop par k))) in
    (IZR (h - p) - Transpiration.k_MaxCanopyCD kk - 5) * (Transpiration.k_fage kk / 100) <= Transpiration.k_Kcb kk.
  Hypothesis HCap : forall season gs dap tsc w s Rs,
    results_opt (ctx par season gs dap tsc w s) PO = Some Rs -> CapOK par Rs.

  Definition strong_crop_ev (e : EvC) : Prop := strong_ev par crops e /\ rows_day par crops e /\ crop_rows_day e.

  Lemma strong_perform_crop_rows (m m' : CModelR) w :
    minvc c m -> SInvc (st m) -> DapInvc c (st m) -> RInv2 par (phys (st m)) -> CInvS (st m) ->
    nthW (Day.W R) ws (tsc (st m)) = Some w -> day_defined (DState R) (Day.W R) dead defc c w (st m) = true ->
    performc c ws m = Ok m' ->
    strong_crop_ev (evof c w (st m)) /\ SInvc (st m') /\ RInv2 par (phys (st m')) /\ CInvS (st m') /\
    (fin (st m') = false -> minvc c m' /\ DapInvc c (st m')).
  Proof.
    intros Hm HS HJ HR2 HC Ew Ed Hp.
    destruct (strong_perform_rows par crops Hcn Hmaxseason POK c ws Hwf Hws HSeason HCap m m' w Hm HS HJ HR2 Ew Ed Hp)
      as ((He & Hrows) & HS' & HR2' & Hnf).
    pose proof (Hws _ _ Ew) as W2.
    set (e := evof c w (st m)) in *.
    assert (Hday : is_day_c e) by exact (proj1 He).
    pose proof (is_day_opt par crops e Hday) as Hopt.
    set (gs := in_season (DState R) dead c (st m)) in *.
    assert (Hes : e_season _ _ _ e = season (st m)) by reflexivity.
    assert (Hg : e_gs _ _ _ e = gs) by reflexivity.
    assert (Hed : e_dap _ _ _ e = dap_of gs (dap (st m))) by reflexivity.
    assert (Hep : e_pre _ _ _ e = phys (st m)) by reflexivity.
    assert (Hew : e_w _ _ _ e = w) by reflexivity.
    rewrite Hes, Hg, Hed, Hep, Hew in Hopt.
    assert (Dk : DapOK par crops (season (st m)) gs (dap_of gs (dap (st m))))
      by exact (dapok_of_clock par crops POK c HSeason (st m) (proj1 Hm) HJ).
    pose proof (HIOK (season (st m))) as HO.
    pose proof (day_canopy_concrete _ _ _ _ _ _ _ _ _ _ POK HS Hopt) as T1.
    pose proof (day_hi_concrete _ _ _ _ _ _ _ _ _ _ POK HS HO HC Hopt) as T2.
    pose proof (day_roots_concrete _ _ _ _ _ _ _ _ _ _ POK HS (c3_root _ _ _ _ _ HC) Hopt) as T3.
    pose proof (day_biomass_concrete _ _ _ _ _ _ _ _ _ _ POK (WOK2_WOK _ W2) Dk HS HO (proj1 HR2) Hopt
                  (fun Rs HRs => HCap _ _ _ _ _ _ Rs HRs)) as T4.
    pose proof (cinv3_day _ _ _ _ _ _ _ _ _ _ POK HS HO HC Hopt) as T5.
    assert (Hcrop : crop_rows_day e).
    { constructor; rewrite ?Hes, ?Hg, ?Hed, ?Hep, ?Hew.
      - exact T1.
      - exact T2.
      - cbv zeta in T3. destruct T3 as (A & B & C & _). unfold roots_row. cbv zeta. split; [|split; [exact B|exact C]].
        intros G. destruct (A G) as (A1 & A2 & A3). split; [exact A1|]. split; [|exact A3].
        intros D. apply A2. intros D0. apply D. rewrite G, D0. reflexivity.
      - exact T4.
      - exact T5. }
    split; [split; [exact He|split; [exact Hrows|exact Hcrop]]|]. split; [exact HS'|]. split; [exact HR2'|]. split; [|exact Hnf].
    pose proof (perform_cases _ _ _ _ procc dead (matured par) (summary_of par) (reset par) c ws m m' w Ew Hp) as Hc.
    cbv zeta in Hc. fold e in Hc. unfold CInvS.
    destruct Hc as [(E1 & E2 & E3) | (E1 & E2 & E3)]; rewrite E1, E2, E3.
    - rewrite Hed. exact T5.
    - apply cinv3_reset; [exact (si_season _ _ _ _ _ HS) | apply HIOK].
  Qed.

  Lemma run_steps_crop_acc k : forall (m0 : CModelR) evs m m',
    ReachC c ws m0 evs m -> Forall strong_crop_ev evs ->
    minvc c m -> SInvc (st m) -> DapInvc c (st m) -> RInv2 par (phys (st m)) -> CInvS (st m) ->
    run_steps_c par crops c ws k m = GOk m' ->
    exists evs', ReachC c ws m0 (evs' ++ evs) m' /\ Forall strong_crop_ev (evs' ++ evs) /\ SInvc (st m') /\ RInv2 par (phys (st m')) /\
                 CInvS (st m').
  Proof.
    unfold run_steps_c. induction k as [|k IH]; intros m0 evs m m' HR HF Hm HS Hd H2 H3; cbn [Clock.run_steps_g].
    - intros [= <-]. exists []. repeat (split; [assumption|]). assumption.
    - destruct (perform_g _ _ _ _ _ _ _ _ _ _ c ws m) as [m1|e|t] eqn:Ep; try discriminate.
      destruct (perform_g_ok _ _ _ _ _ _ _ _ _ _ _ _ _ _ Ep) as (Hp & w & Ew & Ed).
      pose proof (Reach_step _ _ _ _ _ _ _ _ _ _ c ws m0 evs m m1 w HR Ew Ed Hp) as HR1.
      destruct (strong_perform_crop_rows m m1 w Hm HS Hd H2 H3 Ew Ed Hp) as (He & HS1 & H21 & H31 & Hnf).
      assert (HF1 : Forall strong_crop_ev (evof c w (st m) :: evs)) by (constructor; assumption).
      destruct (fin (st m1)) eqn:Ef.
      + intros [= <-]. exists [evof c w (st m)]. repeat (split; [assumption|]). assumption.
      + intros H. destruct (Hnf eq_refl) as [Hm1 Hd1].
        destruct (IH m0 _ m1 m' HR1 HF1 Hm1 HS1 Hd1 H21 H31 H) as (evs' & A & B & C).
        exists (evs' ++ [evof c w (st m)]). rewrite <- app_assoc. split; [exact A|]. split; [exact B|exact C].
  Qed.

  Lemma run_till_crop_acc fuel : forall (m0 : CModelR) evs m m',
    ReachC c ws m0 evs m -> Forall strong_crop_ev evs -> SInvc (st m) -> RInv2 par (phys (st m)) -> CInvS (st m) ->
    (fin (st m) = false -> minvc c m /\ DapInvc c (st m)) ->
    run_till_c par crops c ws fuel m = Some (GOk m') ->
    exists evs', ReachC c ws m0 (evs' ++ evs) m' /\ Forall strong_crop_ev (evs' ++ evs) /\ SInvc (st m') /\ RInv2 par (phys (st m')) /\
                 CInvS (st m').
  Proof.
    unfold run_till_c. induction fuel as [|fuel IH]; intros m0 evs m m' HR HF HS H2 H3 Hnf; cbn [Clock.run_till_g];
      destruct (fin (st m)) eqn:Ef; try discriminate;
      try (intros [= <-]; exists []; repeat (split; [assumption|]); assumption).
    destruct (perform_g _ _ _ _ _ _ _ _ _ _ c ws m) as [m1|e|t] eqn:Ep; try discriminate.
    destruct (perform_g_ok _ _ _ _ _ _ _ _ _ _ _ _ _ _ Ep) as (Hp & w & Ew & Ed).
    pose proof (Reach_step _ _ _ _ _ _ _ _ _ _ c ws m0 evs m m1 w HR Ew Ed Hp) as HR1.
    destruct (Hnf eq_refl) as [Hm Hd].
    destruct (strong_perform_crop_rows m m1 w Hm HS Hd H2 H3 Ew Ed Hp) as (He & HS1 & H21 & H31 & Hnf1).
    assert (HF1 : Forall strong_crop_ev (evof c w (st m) :: evs)) by (constructor; assumption).
    intros H. destruct (IH m0 _ m1 m' HR1 HF1 HS1 H21 H31 Hnf1 H) as (evs' & A & B & C).
    exists (evs' ++ [evof c w (st m)]). rewrite <- app_assoc. split; [exact A|]. split; [exact B|exact C].
  Qed.

  (* run_model(num_steps = k) *)
  Theorem run_steps_crop_rows_strong_season k (m0 m' : CModelR) :
    minvc c m0 -> SInvc (st m0) -> DapInvc c (st m0) -> RInv2 par (phys (st m0)) -> CInvS (st m0) ->
    run_steps_c par crops c ws k m0 = GOk m' ->
    exists evs : list EvC,
      ReachC c ws m0 evs m' /\ SInvc (st m') /\ RInv2 par (phys (st m')) /\ CInvS (st m') /\
      Forall (fun e => strong_ev par crops e /\ rows_day par crops e /\ crop_rows_day e) evs /\
      chained _ _ _ (reset par) ws (phys (st m')) evs /\
      rows (tabs m') = map (fun e => (e_tsc _ _ _ e, e_row _ _ _ e)) evs ++ rows (tabs m0).
  Proof.
    intros Hm HS Hd H2 H3 H.
    destruct (run_steps_crop_acc k m0 [] m0 m' (Reach_nil _ _ _ _ _ _ _ _ _ _ c ws m0) (Forall_nil _) Hm HS Hd H2 H3 H)
      as (evs & HR & HF & HS' & H2' & H3').
    rewrite app_nil_r in HR, HF. exists evs. split; [exact HR|]. split; [exact HS'|]. split; [exact H2'|]. split; [exact H3'|].
    split; [exact HF|]. split.
    - exact (proj1 (reach_chained _ _ _ _ _ _ _ _ _ _ _ _ _ _ _ HR)).
    - exact (reach_rows _ _ _ _ _ _ _ _ _ _ _ _ _ _ _ HR).
  Qed.

  (* run_model(till_termination = True) *)
  Theorem run_till_crop_rows_strong_season fuel (m0 m' : CModelR) :
    minvc c m0 -> SInvc (st m0) -> DapInvc c (st m0) -> RInv2 par (phys (st m0)) -> CInvS (st m0) ->
    run_till_c par crops c ws fuel m0 = Some (GOk m') ->
    exists evs : list EvC,
      ReachC c ws m0 evs m' /\ SInvc (st m') /\ RInv2 par (phys (st m')) /\ CInvS (st m') /\
      Forall (fun e => strong_ev par crops e /\ rows_day par crops e /\ crop_rows_day e) evs /\
      chained _ _ _ (reset par) ws (phys (st m')) evs /\
      rows (tabs m') = map (fun e => (e_tsc _ _ _ e, e_row _ _ _ e)) evs ++ rows (tabs m0).
  Proof.
    intros Hm HS Hd H2 H3 H.
    destruct (run_till_crop_acc fuel m0 [] m0 m' (Reach_nil _ _ _ _ _ _ _ _ _ _ c ws m0) (Forall_nil _) HS H2 H3 (fun _ => conj Hm Hd) H)
      as (evs & HR & HF & HS' & H2' & H3').
    rewrite app_nil_r in HR, HF. exists evs. split; [exact HR|]. split; [exact HS'|]. split; [exact H2'|]. split; [exact H3'|].
    split; [exact HF|]. split.
    - exact (proj1 (reach_chained _ _ _ _ _ _ _ _ _ _ _ _ _ _ _ HR)).
    - exact (reach_rows _ _ _ _ _ _ _ _ _ _ _ _ _ _ _ HR).
  Qed.
End CropRowsStrong.

(* without a water table no hypothesis about intermediate values of any day is left *)
Theorem run_till_crop_rows_strong_season_no_table par crops c ws fuel (m0 m' : Model (DState R) (DRow R) (DOut R)) :
  cn_ok par -> 0 <= i_MaxIrrSeason (p_irr par) ->
  ParOK par crops -> ParHIOK par crops -> wf_clock c -> weather_ok (Day.W R) WOK2 ws ->
  (forall k p h, nthZ (plant c) k = Some p -> nthZ (harv c) k = Some h ->
     let kk := cf_tr (crops (c_id (sel_crop par k))) in
     (IZR (h - p) - Transpiration.k_MaxCanopyCD kk - 5) * (Transpiration.k_fage kk / 100) <= Transpiration.k_Kcb kk) ->
  p_water_table par <> 1%Z ->
  minv (DState R) (DRow R) (DOut R) c m0 -> SInv par crops (st m0) -> DapInv (DState R) c (st m0) -> RInv2 par (phys (st m0)) ->
  CInvS par crops (st m0) ->
  run_till_c par crops c ws fuel m0 = Some (GOk m') ->
  exists evs : list (Ev (DState R) (Day.W R) (DRow R)),
    Reach (DState R) (Day.W R) (DRow R) (DOut R) (proc_c par crops) dead (matured par) (summary_of par) (reset par) (defined_c par crops)
          c ws m0 evs m' /\
    SInv par crops (st m') /\ RInv2 par (phys (st m')) /\ CInvS par crops (st m') /\
    Forall (fun e => strong_ev par crops e /\ rows_day par crops e /\ crop_rows_day par crops e) evs /\
    chained _ _ _ (reset par) ws (phys (st m')) evs /\
    rows (tabs m') = map (fun e => (e_tsc _ _ _ e, e_row _ _ _ e)) evs ++ rows (tabs m0).
Proof.
  intros Hcn Hmx P PH Hwf Hws HD Hwt. apply (run_till_crop_rows_strong_season par crops Hcn Hmx P PH c ws Hwf Hws HD).
  intros season gs dap tsc w s Rs _. apply CapOK_no_table. exact Hwt.
Qed.

Theorem run_steps_crop_rows_strong_season_no_table par crops c ws k (m0 m' : Model (DState R) (DRow R) (DOut R)) :
  cn_ok par -> 0 <= i_MaxIrrSeason (p_irr par) ->
  ParOK par crops -> ParHIOK par crops -> wf_clock c -> weather_ok (Day.W R) WOK2 ws ->
  (forall k p h, nthZ (plant c) k = Some p -> nthZ (harv c) k = Some h ->
     let kk := cf_tr (crops (c_id (sel_crop par k))) in
     (IZR (h - p) - Transpiration.k_MaxCanopyCD kk - 5) * (Transpiration.k_fage kk / 100) <= Transpiration.k_Kcb kk) ->
  p_water_table par <> 1%Z ->
  minv (DState R) (DRow R) (DOut R) c m0 -> SInv par crops (st m0) -> DapInv (DState R) c (st m0) -> RInv2 par (phys (st m0)) ->
  CInvS par crops (st m0) ->
  run_steps_c par crops c ws k m0 = GOk m' ->
  exists evs : list (Ev (DState R) (Day.W R) (DRow R)),
    Reach (DState R) (Day.W R) (DRow R) (DOut R) (proc_c par crops) dead (matured par) (summary_of par) (reset par) (defined_c par crops)
          c ws m0 evs m' /\
    SInv par crops (st m') /\ RInv2 par (phys (st m')) /\ CInvS par crops (st m') /\
    Forall (fun e => strong_ev par crops e /\ rows_day par crops e /\ crop_rows_day par crops e) evs /\
    chained _ _ _ (reset par) ws (phys (st m')) evs /\
    rows (tabs m') = map (fun e => (e_tsc _ _ _ e, e_row _ _ _ e)) evs ++ rows (tabs m0).
Proof.
  intros Hcn Hmx P PH Hwf Hws HD Hwt. apply (run_steps_crop_rows_strong_season par crops Hcn Hmx P PH c ws Hwf Hws HD).
  intros season gs dap tsc w s Rs _. apply CapOK_no_table. exact Hwt.
Qed.

(* ============================================================================================================ *)
(*  Part E: non-vacuity on the instance of DaySideP.Ex; assumptions                                                *)
(* ============================================================================================================ *)
Lemma ex_sel_zmin k : c_Zmin (sel_crop DaySideP.Ex.par k) = 3 / 10 /\ c_Aer (sel_crop DaySideP.Ex.par k) = 5.
Proof. unfold sel_crop. destruct (0 <=? k)%Z; cbn; rnum; split; lra. Qed.

Lemma Rround2_pos_diff a b : a <= b -> Rround 2 a <= Rround 2 b.
Proof. apply Rround_mono. Qed.

(* root zone of at least 0.3 m in the four-compartment profile: TAW of the root zone is at least 40 mm *)
Lemma ex_rz_loop rd aer th a : 3 / 10 <= rd ->
  RootZone.rz_loop rd aer TranspirationR.ex_p th
    {| RootZone.a_act := 0; RootZone.a_s := 0; RootZone.a_fc := 0; RootZone.a_wp := 0; RootZone.a_dry := 0; RootZone.a_aer := 0 |} = Some a ->
  40 <= RootZone.a_fc a - RootZone.a_wp a /\ th <> [].
Proof.
  intros Hrd. unfold TranspirationR.ex_p.
  assert (R22 : Rround 2 (1 * 1000 * (22 / 100) * (10 / 100)) = 22) by (apply RainIrrR.Rround2_int; lra).
  assert (R10 : Rround 2 (1 * 1000 * (10 / 100) * (10 / 100)) = 10) by (apply RainIrrR.Rround2_int; lra).
  assert (R39 : Rround 2 (1 * 1000 * (39 / 100) * (10 / 100)) = 39) by (apply RainIrrR.Rround2_int; lra).
  assert (R23 : Rround 2 (1 * 1000 * (23 / 100) * (10 / 100)) = 23) by (apply RainIrrR.Rround2_int; lra).
  destruct th as [|t1 th]; [discriminate|]. cbn [RootZone.rz_loop TranspirationR.ex_comp c_dzsum c_dz c_th_fc c_th_wp c_th_s c_th_dry].
  unfold RootZone.rz_term. rnum.
  rewrite (Rltb_false rd (10 / 100)) by lra. rewrite (Rleb_false rd (10 / 100)) by lra.
  destruct th as [|t2 th]; [discriminate|]. cbn [RootZone.rz_loop TranspirationR.ex_comp c_dzsum c_dz c_th_fc c_th_wp c_th_s c_th_dry RootZone.a_fc RootZone.a_wp
                                                 RootZone.a_act RootZone.a_s RootZone.a_dry RootZone.a_aer].
  rewrite (Rltb_false rd (20 / 100)) by lra. rewrite (Rleb_false rd (20 / 100)) by lra.
  destruct th as [|t3 th]; [discriminate|]. cbn [RootZone.rz_loop TranspirationR.ex_comp c_dzsum c_dz c_th_fc c_th_wp c_th_s c_th_dry RootZone.a_fc RootZone.a_wp
                                                 RootZone.a_act RootZone.a_s RootZone.a_dry RootZone.a_aer].
  rewrite (Rltb_false rd (30 / 100)) by lra.
  destruct (Rleb_spec rd (30 / 100)) as [H3|H3].
  - intros [= <-]. cbn [RootZone.a_fc RootZone.a_wp]. rewrite R22, R10, R39, R23. split; [lra|discriminate].
  - destruct th as [|t4 th]; [discriminate|]. cbn [RootZone.rz_loop TranspirationR.ex_comp c_dzsum c_dz c_th_fc c_th_wp c_th_s c_th_dry RootZone.a_fc RootZone.a_wp
                                                   RootZone.a_act RootZone.a_s RootZone.a_dry RootZone.a_aer].
    set (f := if Rltb rd (40 / 100) then 1 - (40 / 100 - rd) / (10 / 100) else 1).
    assert (Hf : 0 <= f) by (unfold f; destruct (Rltb_spec rd (40 / 100)); lra).
    assert (Hm : Rround 2 (f * 1000 * (23 / 100) * (10 / 100)) <= Rround 2 (f * 1000 * (39 / 100) * (10 / 100))) by (apply Rround_mono; nra).
    destruct (Rleb rd (40 / 100)); [|discriminate].
    intros [= <-]. cbn [RootZone.a_fc RootZone.a_wp]. rewrite R22, R10, R39, R23. split; [lra|discriminate].
Qed.

Lemma ex_taw_ok k : TawOK DaySideP.Ex.par (sel_crop DaySideP.Ex.par k).
Proof.
  intros zroot th rz. destruct (ex_sel_zmin k) as [-> ->].
  cbn [DaySideP.Ex.par p_soil DaySideP.Ex.soil so_prof so_z_top].
  unfold RootZone.root_zone_water.
  set (rd := nround_np num_ops 2 (npmax zroot (3 / 10))).
  assert (Hrd : 3 / 10 <= rd).
  { unfold rd, npmax. rnum. replace (3 / 10) with (IZR 30 / 100) at 1 by lra. rewrite <- (RootsR.Rround2_cent 30).
    apply Rround_mono. destruct (Rltb_spec zroot (3 / 10)); lra. }
  clearbody rd.
  destruct (RootZone.rz_loop rd 5 TranspirationR.ex_p th _) as [a|] eqn:E; [|discriminate].
  destruct (ex_rz_loop rd 5 th a Hrd E) as [Ha Hth]. rnum.
  rewrite (Rltb_true (1 / 10) rd) by lra.
  assert (Rz : Rround 2 (1 / 10) = 1 / 10) by (replace (1 / 10) with (IZR 10 / 100) by lra; apply RootsR.Rround2_cent).
  rewrite Rz. unfold TranspirationR.ex_p. cbn [count_if TranspirationR.ex_comp c_dzsum]. rnum.
  rewrite (Rleb_true (10 / 100) (1 / 10)) by lra. rewrite (Rleb_false (20 / 100) (1 / 10)), (Rleb_false (30 / 100) (1 / 10)), (Rleb_false (40 / 100) (1 / 10)) by lra.
  cbn [Z.add Z.leb Z.compare Z.to_nat Pos.to_nat Pos.iter_op Nat.add].
  destruct th as [|t1 th]; [contradiction|]. cbn [RootZone.top_loop TranspirationR.ex_comp c_dz c_th_fc c_th_wp]. rnum.
  intros [= <-]. cbn [RootZone.rz_TAW_Rz RootZone.rz_TAW_Zt]. unfold pmax. rnum.
  split; [destruct (Rltb_spec (RootZone.a_fc a - RootZone.a_wp a) 0); lra|].
  match goal with |- 0 < (if Rltb ?u 0 then _ else _) => destruct (Rltb_spec u 0) as [H|H]; lra end.
Qed.

(* the yield-side conditions hold for every season of the instance (maize yield constants of YieldR, stress constants of
   DaySideP.Ex.scrop, the four-compartment two-layer profile) *)
Example crop_hi_ok_all k : CropHIOK DaySideP.Ex.par DaySideP.Ex.crops k.
Proof.
  constructor; cbn [DaySideP.Ex.crops DaySideP.Ex.cfull cf_y cf_s DaySideP.Ex.scrop Yield.s_fs0 Yield.s_fs1 Yield.s_fs2].
  - exact YieldR.maize_hiref_ok.
  - exact YieldR.maize_hi_ok.
  - lra.
  - lra.
  - lra.
  - exact (ex_taw_ok k).
  - unfold sel_crop. destruct (0 <=? k)%Z; cbn; lra.
  - cbn; lra.
  - cbn; lra.
  - cbn; lra.
Qed.
Example par_hi_ok_example : ParHIOK DaySideP.Ex.par DaySideP.Ex.crops.
Proof. exact crop_hi_ok_all. Qed.

(* the crop invariant right after a season reset (what a run starts a season from), together with the strong invariant
   of DaySideP.strong_reset_example: the premises of the four day theorems and of the run theorems hold together *)
Example cinv3_reset_example :
  ParOK DaySideP.Ex.par DaySideP.Ex.crops /\ ParHIOK DaySideP.Ex.par DaySideP.Ex.crops /\
  StrongInv DaySideP.Ex.par DaySideP.Ex.crops 1 0 (reset DaySideP.Ex.par 1 [] DaySideP.Ex.st) /\
  CInv3 DaySideP.Ex.par DaySideP.Ex.crops 1 0 (reset DaySideP.Ex.par 1 [] DaySideP.Ex.st) /\
  RootInv DaySideP.Ex.par DaySideP.Ex.crops 1 0 (reset DaySideP.Ex.par 1 [] DaySideP.Ex.st) /\
  0 <= d_pct_lag_phase (reset DaySideP.Ex.par 1 [] DaySideP.Ex.st) <= 100 /\
  WOK DayP.Ex.w0 /\ DapOK DaySideP.Ex.par DaySideP.Ex.crops 1 true (dap_of true 0) /\ p_water_table DaySideP.Ex.par <> 1%Z.
Proof.
  pose proof (cinv3_reset DaySideP.Ex.par DaySideP.Ex.crops 0 [] DaySideP.Ex.st ltac:(lia) (crop_hi_ok_all 1)) as C.
  split; [exact DaySideP.Ex.par_ok|]. split; [exact par_hi_ok_example|]. split; [exact strong_reset_example|]. split; [exact C|].
  split; [exact (c3_root _ _ _ _ _ C)|]. split; [cbn; lra|]. split; [constructor; cbn; lra|]. split; [intros _; cbn; lra|].
  cbn. discriminate.
Qed.

(* the harvest-index part of the invariant on the mid-season state of DaySideP.Ex (day 40, before yield formation) *)
Example cinv3_hi_midseason_example :
  0 <= d_HIfinal DaySideP.Ex.st /\
  YieldR.hs_ok (cf_y (DaySideP.Ex.crops (c_id (sel_crop DaySideP.Ex.par 0)))) (hstate_st DaySideP.Ex.st) /\
  (forall dap' dcd', d_harvest_index DaySideP.Ex.st <=
                     HRf (cf_y (DaySideP.Ex.crops (c_id (sel_crop DaySideP.Ex.par 0)))) (d_HIfinal DaySideP.Ex.st) dap' dcd').
Proof.
  split; [cbn; lra|]. split.
  - constructor; cbn; try lra. unfold YieldR.hi_cap. cbn. lra.
  - intros dap' dcd'. cbn [DaySideP.Ex.st d_harvest_index d_HIfinal]. apply HRf_range; [exact YieldR.maize_hiref_ok | lra].
Qed.

Print Assumptions day_canopy_concrete.
Print Assumptions day_hi_concrete.
Print Assumptions day_roots_concrete.
Print Assumptions day_biomass_concrete.
Print Assumptions cinv3_step.
Print Assumptions cinv3_reset.
Print Assumptions strong_perform_crop_rows.
Print Assumptions run_steps_crop_rows_strong_season.
Print Assumptions run_till_crop_rows_strong_season.
Print Assumptions run_till_crop_rows_strong_season_no_table.
Print Assumptions run_steps_crop_rows_strong_season_no_table.
Print Assumptions cinv3_reset_example.
