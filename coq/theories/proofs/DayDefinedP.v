(* DayDefinedP.v — property C16 (the run terminates WITHOUT RAISING), for the concrete day and the concrete whole run.
   A raising process is [None] in the model; [day_proc_opt ... = Some _] says that no process of the day raises.

   Part A  definedness of the unit models that had no such lemma (growth_stage, germination, pre_irrigation, irrigation,
           root_development) and a strengthened one for soil_evaporation (the depth of the evaporation layer is only known to stay
           below evap_z_max + 0.001, see the report).
   Part B  [DefOK] (static conditions + two conditions on the day's weather / step) and [DefSt] (three conditions on the state);
           [day_defined_strong]: under ParOK / WOK / DapOK / StrongInv / RootInv / DefOK / DefSt the day is defined.
   Part C  whole runs. *)
From Coq Require Import Reals List Bool ZArith Lra Lia.
From AC Require Import Num RInst Params Kernels Clock Day DayConcrete RunConcrete.
From AC.Water Require RootZone RainIrr Infiltration Drainage Groundwater Evaporation Transpiration.
From AC.Crop Require Canopy Roots Yield.
From AC.proofs Require Import ProfR DayP DayConcreteP ClockP RunP RunConcreteP DaySideU DaySideP DaySideRun DaySideRun2 DayRowsP DaySideRows DayCropRowsP.
From AC.proofs Require KernelsR CanopyR RootsR YieldR TranspirationR GroundwaterR EvaporationR InfiltrationR DrainageR RainIrrR.
Import ListNotations.
Local Open Scope R_scope.

#[local] Existing Instance YieldR.RTrig.

(* ============================================================================================================ *)
(*  Part A  unit definedness                                                                                      *)
(* ============================================================================================================ *)
Lemma growth_stage_defined caltype dap dcds gddcum dgdd c10 maxcan sen old gs : (caltype = 1 \/ caltype = 2)%Z ->
  exists r, RainIrr.growth_stage (F:=R) caltype dap dcds gddcum dgdd c10 maxcan sen old gs = Some r.
Proof. intros H. unfold RainIrr.growth_stage. destruct gs; [|eauto]. destruct H as [-> | ->]; cbn; eauto. Qed.

Lemma germ_loop_defined zgerm p : forall th a b c, Exists (fun k => zgerm <= c_dzsum k) p -> (length p <= length th)%nat ->
  exists w, Roots.germ_loop (F:=R) zgerm p th a b c = Some w.
Proof.
  induction p as [|k p IH]; intros th a b c Hex Hl; [inversion Hex|].
  destruct th as [|t th]; [cbn in Hl; lia|]. cbn [Roots.germ_loop]. rnum.
  destruct (Rleb_spec zgerm (c_dzsum k)) as [H|H]; [eauto|].
  apply IH; [inversion Hex; subst; [lra|assumption] | cbn in Hl; lia].
Qed.

Lemma germination_defined germ prot dcd dgdd th zgerm p thr pm gdd gs :
  Exists (fun k => zgerm <= c_dzsum k) p -> (length p <= length th)%nat ->
  exists g, Roots.germination (F:=R) germ prot dcd dgdd th zgerm p thr pm gdd gs = Some g.
Proof.
  intros Hex Hl. unfold Roots.germination. destruct gs; [|eauto]. destruct germ; [eauto|].
  destruct (germ_loop_defined zgerm p th 0 0 0 Hex Hl) as [w0 E]. rnum. rewrite E. destruct (Rleb _ _); eauto.
Qed.

Lemma pre_loop_defined rd smt p : forall th pre, Exists (fun k => rd <= c_dzsum k) p -> (length p <= length th)%nat ->
  exists r, Roots.pre_loop (F:=R) rd smt p th pre = Some r.
Proof.
  induction p as [|k p IH]; intros th pre Hex Hl; [inversion Hex|]. cbn [Roots.pre_loop]. rnum.
  destruct (Rleb_spec rd (c_dzsum k)) as [H|H]; [eauto|].
  destruct th as [|t th]; [cbn in Hl; lia|].
  assert (Hex' : Exists (fun k0 => rd <= c_dzsum k0) p) by (inversion Hex; subst; [lra|assumption]).
  assert (Hl' : (length p <= length th)%nat) by (cbn in Hl; lia).
  destruct (Rltb t _);
    match goal with |- context [Roots.pre_loop rd smt p th ?a] => destruct (IH th a Hex' Hl') as [[r q] ->] end; eauto.
Qed.

Lemma pre_irrigation_defined p zmin zroot th dap gs method smt :
  Exists (fun k => Rround 2 (pmax zroot zmin) <= c_dzsum k) p -> (length p <= length th)%nat ->
  exists r, Roots.pre_irrigation (F:=R) p zmin zroot th dap gs method smt = Some r.
Proof.
  intros Hex Hl. unfold Roots.pre_irrigation. destruct gs; [|eauto]. destruct (_ || _); [eauto|]. rnum.
  apply pre_loop_defined; assumption.
Qed.

(* irrigation: the root-zone depletion is defined; the strategy is one of 0..5, with four thresholds for strategy 1 (one per growth
   stage; stage 0 reads SMT[-1]), a non-zero interval for strategy 2 and a non-negative scheduled depth for the step for strategy 3 *)
Definition irr_method_ok (irr : DIrr R) (tsc : Z) : Prop :=
  (0 <= i_method irr <= 5)%Z /\
  (i_method irr = 1%Z -> length (i_SMT irr) = 4%nat) /\
  (i_method irr = 2%Z -> i_IrrInterval irr <> 0%Z) /\
  (i_method irr = 3%Z -> exists v, RainIrr.py_index (i_Schedule irr) tsc = Some v /\ 0 <= v).

Lemma py_index_4 (l : list R) i : length l = 4%nat -> (-1 <= i <= 3)%Z -> exists v, RainIrr.py_index l i = Some v.
Proof.
  intros Hl Hi. unfold RainIrr.py_index. rewrite Hl. cbn [Z.of_nat Pos.of_succ_nat Pos.succ].
  destruct l as [|a [|b [|c [|d [|e l]]]]]; try discriminate.
  assert (E : (i = -1 \/ i = 0 \/ i = 1 \/ i = 2 \/ i = 3)%Z) by lia.
  destruct E as [->|[->|[->|[->| ->]]]]; cbn; eauto;
    match goal with |- context [Pos.to_nat ?q] => let n := eval compute in (Pos.to_nat q) in change (Pos.to_nat q) with n end; cbn; eauto.
Qed.

Lemma irrigation_defined (irr : DIrr R) stage irrcum epot tpot zroot th dap tsc zmin aer p ztop gs rain runoff :
  irr_method_ok irr tsc -> (0 <= stage <= 4)%Z ->
  RootZone.root_zone_water p zroot th ztop zmin aer <> None ->
  exists r, RainIrr.irrigation (i_method irr) (i_SMT irr) (i_AppEff irr) (i_MaxIrr irr) (i_IrrInterval irr) (i_Schedule irr) (i_depth irr)
              (i_MaxIrrSeason irr) stage irrcum epot tpot zroot th dap tsc zmin aer p ztop gs rain runoff = Some r.
Proof.
  intros (Hm & H1 & H2 & H3) Hs Hrz. unfold RainIrr.irrigation. destruct gs; [|eauto].
  unfold RainIrr.irr_depletion. destruct (RootZone.root_zone_water p zroot th ztop zmin aer) as [rz|]; [|contradiction].
  cbv zeta.
  assert (Hi : exists v, RainIrr.irr_method (i_method irr) (i_SMT irr) (i_AppEff irr) (i_MaxIrr irr) (i_IrrInterval irr) (i_Schedule irr)
                           (i_depth irr) (if (dap =? 1)%Z then 1%Z else stage) dap tsc
                           (RootZone.rz_Dr_Rz rz + (tpot + epot - rain + runoff -
                              (if RootZone.rz_FC rz <? RootZone.rz_Act rz then (RootZone.rz_Act rz - RootZone.rz_FC rz) * #1000 * pmax zroot zmin else #0)))%num
                           (RootZone.rz_TAW_Rz rz) = Some v).
  { unfold RainIrr.irr_method.
    assert (E : (i_method irr = 0 \/ i_method irr = 1 \/ i_method irr = 2 \/ i_method irr = 3 \/ i_method irr = 4 \/ i_method irr = 5)%Z) by lia.
    destruct E as [E|[E|[E|[E|[E|E]]]]]; rewrite E; cbn [Z.eqb Pos.eqb].
    - eauto.
    - destruct (py_index_4 (i_SMT irr) ((if (dap =? 1)%Z then 1%Z else stage) - 1) (H1 E)) as [v ->]; [destruct (dap =? 1)%Z; lia|].
      destruct (_ <? _)%num; eauto.
    - pose proof (H2 E) as H2'. apply Z.eqb_neq in H2'. rewrite H2'. destruct (((dap - 1) mod i_IrrInterval irr =? 0)%Z); eauto.
    - destruct (H3 E) as (v & -> & Hv). rnum. rewrite (Rleb_true 0 v Hv). eauto.
    - eauto.
    - eauto. }
  destruct Hi as [v ->]. eauto.
Qed.

(* root_development: the calendar type is 1 or 2, SxBot <> 0 (the root-density correction divides by it), the restrictive-horizon walk
   is defined for the profile (layers numbered 1..n), the expansion front lies inside the profile, and RootsR.root_range's invariant *)
Lemma root_development_defined c p dap zroot dcd gddcum dgdd trr th cc ccns germ rcor tpot zgw gdd gs wt :
  RootsR.rc_ok c -> RootsR.zmin_cm (Roots.rc_Zmin c) -> wf_prof p -> RootsR.pen_ok p -> 0 <= trr <= 1 -> 0 <= gdd ->
  (Roots.rc_cal c = 1 \/ Roots.rc_cal c = 2)%Z -> Roots.rc_SxBot c <> 0 ->
  (forall z, Roots.rd_restrict p (Roots.rc_Zmin c) z <> None) ->
  (forall zi, zi <= Roots.rc_Zmax c -> Roots.rd_find zi p th <> None) ->
  (gs = true -> dap = 1%Z \/
     (Roots.rc_Zmin c <= zroot /\
      forall tadj told zo, Roots.rd_times c dap dcd gddcum dgdd gdd = Some (tadj, told) ->
        Roots.rd_restricted p (Roots.rc_Zmin c) (RootsR.pot c told) = Some zo -> zroot <= zo)) ->
  exists r, Roots.root_development c p dap zroot dcd gddcum dgdd trr th cc ccns germ rcor tpot zgw gdd gs wt = Some r.
Proof.
  intros Hc Hcm Hp Hpen Ht Hg Hcal Hsx Hres Hfind Hinv. unfold Roots.root_development. destruct gs; [|eauto].
  specialize (Hinv eq_refl).
  assert (Hf : Roots.rc_fshape_r c <> 0) by (pose proof (RootsR.ok_fr c Hc); lra).
  assert (Et : exists tadj told, Roots.rd_times c dap dcd gddcum dgdd gdd = Some (tadj, told))
    by (unfold Roots.rd_times; destruct Hcal as [-> | ->]; cbn; eauto).
  destruct Et as (tadj & told & Et). rewrite Et.
  destruct (RootsR.rd_potential_val c told Hf) as [b1 E1]. destruct (RootsR.rd_potential_val c tadj Hf) as [b2 E2]. rewrite E1, E2.
  pose proof (RootsR.rd_times_le _ _ _ _ _ _ _ _ Hg Et) as Hle.
  pose proof (RootsR.pot_mono c told tadj Hc Hle) as Hm. pose proof (RootsR.pot_range c told Hc) as Hr1. pose proof (RootsR.pot_range c tadj Hc) as Hr2.
  set (zinit := if (dap =? 1)%Z then Roots.rc_Zmin c else zroot).
  set (zo_ := RootsR.pot c told) in *. set (zr_ := RootsR.pot c tadj) in *.
  (* the two restricted depths *)
  assert (Ho : exists zo, Roots.rd_restricted p (Roots.rc_Zmin c) zo_ = Some zo).
  { unfold Roots.rd_restricted. destruct (_ >? _)%num; [|eauto]. destruct (Roots.rd_restrict p (Roots.rc_Zmin c) zo_) eqn:E; [eauto|]. exfalso. exact (Hres _ E). }
  assert (Hn : exists zn, Roots.rd_restricted p (Roots.rc_Zmin c) zr_ = Some zn).
  { unfold Roots.rd_restricted. destruct (_ >? _)%num; [|eauto]. destruct (Roots.rd_restrict p (Roots.rc_Zmin c) zr_) eqn:E; [eauto|]. exfalso. exact (Hres _ E). }
  destruct Ho as [zo Eo]. destruct Hn as [zn En].
  pose proof (RootsR.rd_restricted_range _ _ _ _ Hp Hpen Hcm (proj1 Hr1) Eo) as Hzo.
  pose proof (RootsR.rd_restricted_range _ _ _ _ Hp Hpen Hcm (proj1 Hr2) En) as Hzn.
  pose proof (RootsR.rd_restricted_mono _ _ _ _ _ _ Hp Hpen Hcm (proj1 Hr1) Hm Eo En) as Hon.
  assert (Hzi : Roots.rc_Zmin c <= zinit <= zo).
  { unfold zinit. destruct (Z.eqb_spec dap 1) as [D|D]; [lra|]. destruct Hinv as [D'|[A B]]; [contradiction|]. split; [exact A | exact (B tadj told zo Et Eo)]. }
  (* the day's expansion *)
  assert (Ed : exists d, Roots.rd_dzr c p th zinit zo_ zr_ trr cc ccns germ = Some d).
  { unfold Roots.rd_dzr.
    assert (E0 : (if (zr_ >? Roots.rc_Zmin c)%num
                  then match Roots.rd_restrict p (Roots.rc_Zmin c) zr_ with
                       | Some zr1 => match Roots.rd_restricted p (Roots.rc_Zmin c) zo_ with Some zo1 => Some (zr1 - zo1)%num | None => None end
                       | None => None end
                  else Some (zr_ - zo_)%num) = Some (zn - zo)).
    { revert En. unfold Roots.rd_restricted at 1. rnum. destruct (Rltb_spec (Roots.rc_Zmin c) zr_) as [H|H].
      - intros ->. rewrite Eo. reflexivity.
      - intros [= <-]. revert Eo. unfold Roots.rd_restricted. rnum. rewrite (Rltb_false (Roots.rc_Zmin c) zo_) by lra. intros [= <-]. reflexivity. }
    rewrite E0. pose proof (RootsR.rd_stomatal_range c trr (zn - zo) Ht ltac:(lra)) as Hs.
    set (sd := Roots.rd_stomatal c trr (zn - zo)) in *.
    assert (Edry : exists d1, Roots.rd_dry c p th zinit sd = Some d1).
    { unfold Roots.rd_dry. rnum. destruct (Rltb (1 / 1000) sd); [|eauto].
      destruct (Roots.rd_find (zinit + sd) p th) as [[cm t]|] eqn:Ef; [|exfalso; revert Ef; apply Hfind; lra].
      repeat match goal with |- context [if ?b then _ else _] => destruct b end; eauto. }
    destruct Edry as [d1 ->]. eauto. }
  destruct Ed as [d Ed]. fold zinit. rewrite Ed.
  destruct (RootsR.rd_dzr_range _ _ _ _ _ _ _ _ _ _ _ Hc Hp Hpen Hcm Ht (proj1 Hr1) Hm Ed) as (zo' & zn' & _ & _ & Hd).
  pose proof (RootsR.ok_zmin c Hc) as Hz0.
  assert (Er : exists r1, Roots.rd_rcor c (zinit + d)%num zr_ b2 tpot trr = Some r1).
  { unfold Roots.rd_rcor. rnum. destruct (Rltb (zinit + d) zr_); [|eauto].
    destruct (Reqb_spec (zinit + d) 0) as [Hz|Hz]; [lra|]. destruct (Reqb_spec (Roots.rc_SxBot c) 0) as [Hb|Hb]; [contradiction|].
    cbn [orb]. rewrite andb_false_r.
    destruct (Rltb 0 tpot); eauto. }
  destruct Er as [r1 ->]. eauto.
Qed.

(* ---- the concrete wrappers ------------------------------------------------------------------------------------- *)
Lemma c_gd_defined (a : A_gd R) : KernelsR.gdd_ok (gdA_method a) -> exists r, c_gd a = Some r.
Proof. intros H. unfold c_gd. destruct (KernelsR.gdd_defined _ (gdA_tupp a) (gdA_tbase a) (gdA_tmax a) (gdA_tmin a) H) as [g ->]. eauto. Qed.

Lemma c_gw_defined_notable p (a : A_gw R) : gwA_wt a = 0%Z ->
  c_gw p a = Some {| gwR_fcadj := gwA_fcadj a; gwR_wtsoil := None; gwR_zgw := None |}.
Proof. intros E. unfold c_gw, Groundwater.check_groundwater_table. rewrite E. reflexivity. Qed.

Lemma c_pi_defined p (a : A_pi R) :
  Exists (fun k => Rround 2 (pmax (piA_zroot a) (c_Zmin (piA_crop a))) <= c_dzsum k) p -> (length p <= length (piA_th a))%nat ->
  exists r, c_pi p a = Some r.
Proof.
  intros H1 H2. unfold c_pi.
  destruct (pre_irrigation_defined p (c_Zmin (piA_crop a)) (piA_zroot a) (piA_th a) (piA_dap a) (piA_gs a) (i_method (piA_irr a))
              (i_NetIrrSMT (piA_irr a)) H1 H2) as [[th pre] ->]. eauto.
Qed.

Lemma c_dr_defined p (a : A_dr R) : wf_prof p -> length p = length (drA_th a) -> length (drA_fcadj a) = length (drA_th a) ->
  exists r, c_dr p a = Some r.
Proof. intros W H1 H2. unfold c_dr. destruct (DrainageR.drainage_defined p (drA_th a) (drA_fcadj a) W H1 H2) as [[[th dp] fl] ->]. eauto. Qed.

Lemma c_inf_defined p (a : A_inf R) : p <> [] -> in_bounds p (infA_th a) -> fcadj_ok p (infA_fcadj a) ->
  length (infA_flux a) = length (infA_th a) -> 0 <= infA_irr a -> 0 <= infA_eff a -> exists r, c_inf p a = Some r.
Proof.
  intros Hn Hb Hf Hl Hi He. unfold c_inf.
  destruct (InfiltrationR.infiltration_defined p (infA_surf a) (infA_fcadj a) (infA_th a) (infA_infl a) (infA_irr a) (infA_eff a) (infA_bunds a)
              (infA_zbund a) (infA_flux a) (infA_deepperc a) (infA_runoff a) (infA_gs a) Hn Hb Hf Hl Hi He) as [[[[[[th sf] dp] ro] inf] fl] ->]. eauto.
Qed.

Lemma c_cr_notable p (a : A_cr R) : crA_wt a = 0%Z -> c_cr p a = Some {| crR_th := crA_th a; crR_cr := 0 |}.
Proof.
  intros E. unfold c_cr, obind, zgw_of, Groundwater.capillary_rise. rewrite E. cbn [Z.eqb]. destruct (crA_zgw a); rnum; reflexivity.
Qed.

Lemma c_ge_defined p (a : A_ge R) : Exists (fun k => geA_zgerm a <= c_dzsum k) p -> (length p <= length (geA_th a))%nat ->
  exists r, c_ge p a = Some r.
Proof.
  intros H1 H2. unfold c_ge.
  destruct (germination_defined (geA_germ a) (geA_prot a) (geA_dcd a) (geA_dgdd a) (geA_th a) (geA_zgerm a) p (geA_germthr a)
              (geA_plantmethod a) (geA_gdd a) (geA_gs a) H1 H2) as [g ->]. eauto.
Qed.

Lemma c_gst_defined crops (a : A_gst R) : (c_CalendarType (gstA_crop a) = 1 \/ c_CalendarType (gstA_crop a) = 2)%Z ->
  exists r, c_gst crops a = Some r.
Proof.
  intros H. unfold c_gst. cbv zeta.
  destruct (growth_stage_defined (c_CalendarType (gstA_crop a)) (gstA_dap a) (gstA_dcd a) (gstA_gddcum a) (gstA_dgdd a)
              (cf_c10 (crops (c_id (gstA_crop a)))) (cf_maxcan (crops (c_id (gstA_crop a)))) (c_Senescence (gstA_crop a)) (gstA_old a) (gstA_gs a) H) as [z ->].
  eauto.
Qed.

Lemma c_cc_defined crops p (a : A_cc R) :
  (Canopy.k_cal (cf_can (crops (c_id (ccA_crop a)))) = 1 \/ Canopy.k_cal (cf_can (crops (c_id (ccA_crop a)))) = 2)%Z ->
  (ccA_gs a = true -> RootZone.root_zone_water p (ccA_zroot a) (ccA_th a) (ccA_ztop a) (c_Zmin (ccA_crop a)) (c_Aer (ccA_crop a)) <> None) ->
  exists r, c_cc crops p a = Some r.
Proof.
  intros Hk Hrz. unfold c_cc. cbv zeta. destruct (ccA_gs a) eqn:G.
  - destruct (RootZone.root_zone_water _ _ _ _ _ _) as [rz|]; [|exfalso; apply Hrz; reflexivity].
    destruct (CanopyR.canopy_cover_defined (cf_can (crops (c_id (ccA_crop a)))) (canopy_state a) (ccA_dap a) (ccA_dcd a) (ccA_gddcum a) (ccA_dgdd a)
                (ccA_gdd a) (RootZone.rz_Dr_Rz rz) (RootZone.rz_Dr_Zt rz) (RootZone.rz_TAW_Rz rz) (RootZone.rz_TAW_Zt rz) (ccA_et0 a) true Hk) as [s' ->].
    eauto.
  - destruct (CanopyR.canopy_cover_defined (cf_can (crops (c_id (ccA_crop a)))) (canopy_state a) (ccA_dap a) (ccA_dcd a) (ccA_gddcum a) (ccA_dgdd a)
                (ccA_gdd a) 0 0 0 0 (ccA_et0 a) false Hk) as [s' E]. rnum. rewrite E. eauto.
Qed.

Lemma c_ev_defined p (a : A_ev R) :
  (0 < evA_steps a)%Z -> (evA_gs a = false \/ evA_caltype a = 1 \/ evA_caltype a = 2)%Z -> evA_zmin a <= evA_zmax a ->
  evA_evapz a <= evA_zmax a -> EvaporationR.deep_enough p (evA_zmax a + 1 / 1000) -> length (evA_th a) = length p ->
  exists r, c_ev p a = Some r.
Proof.
  intros H1 H2 H3 H4 H5 H6. unfold c_ev.
  destruct (EvaporationR.soil_evaporation_defined (ev_par a) p (ev_state a) (evA_th a) (evA_et0 a) (evA_infl a) (evA_rain a) (evA_irr a) (evA_gs a)
              H1 H2 H3 H4 H5 H6) as [o ->]. eauto.
Qed.

Lemma c_tr_defined crops p (a : A_tr R) :
  (Transpiration.k_TrColdStress (cf_tr (crops (c_id (trA_crop a)))) = 0 \/ Transpiration.k_TrColdStress (cf_tr (crops (c_id (trA_crop a)))) = 1)%Z ->
  Transpiration.k_ETadj (cf_tr (crops (c_id (trA_crop a)))) = 1%Z ->
  length (trA_th a) = length p -> length (trA_aer_comp a) = length p ->
  RootZone.root_zone_water p (trA_zroot a) (trA_th a) (trA_ztop a) (c_Zmin (trA_crop a)) (c_Aer (trA_crop a)) <> None ->
  exists r, c_tr crops p a = Some r.
Proof.
  intros H1 H2 H3 H4 H5. unfold c_tr. cbv zeta.
  destruct (TranspirationR.transpiration_defined p (trA_ztop a) (tr_crop (crops (c_id (trA_crop a))) (trA_crop a)) (trA_method a) (trA_smt a)
              (tr_state a) (trA_et0 a) (trA_co2c a) (trA_co2r a) (trA_gs a) (trA_gdd a) H1 H2 H3 H4 H5) as [o ->]. eauto.
Qed.

Lemma c_gi_off p (a : A_gi R) : giA_wtsoil a = None -> c_gi p a = Some {| giR_th := giA_th a; giR_gwin := 0 |}.
Proof. intros E. unfold c_gi, obind, gi_wts. rewrite E. destruct (giA_zgw a); reflexivity. Qed.

Lemma c_bm_defined crops (a : A_bm R) : bmA_et0 a <> 0 ->
  (Yield.y_Determinant (cf_y (crops (c_id (bmA_crop a)))) = 1 \/ Yield.y_YldFormCD (cf_y (crops (c_id (bmA_crop a)))) <> 0) ->
  exists r, c_bm crops a = Some r.
Proof.
  intros H1 H2. unfold c_bm.
  destruct (YieldR.biomass_defined (cf_y (crops (c_id (bmA_crop a)))) (bmA_dap a) (bmA_dcd a) (bmA_hiref a) (bmA_pct a) (bmA_b a) (bmA_bns a)
              (bmA_tr a) (bmA_trpot a) (bmA_et0 a) (bmA_gs a) H1 H2) as [[b bns] ->]. eauto.
Qed.

Lemma c_bm_off crops (a : A_bm R) : bmA_gs a = false -> c_bm crops a = Some {| bmR_b := 0; bmR_bns := 0 |}.
Proof. intros E. unfold c_bm. rewrite E. reflexivity. Qed.

Lemma c_hi_defined crops p (a : A_hi R) :
  (hiA_gs a = true -> RootZone.root_zone_water p (hiA_zroot a) (hiA_th a) (hiA_ztop a) (c_Zmin (hiA_crop a)) (c_Aer (hiA_crop a)) <> None) ->
  (Yield.s_PolHeat (cf_s (crops (c_id (hiA_crop a)))) = 0 \/ Yield.s_PolHeat (cf_s (crops (c_id (hiA_crop a)))) = 1)%Z ->
  (Yield.s_PolCold (cf_s (crops (c_id (hiA_crop a)))) = 0 \/ Yield.s_PolCold (cf_s (crops (c_id (hiA_crop a)))) = 1)%Z ->
  (Yield.y_CropType (cf_y (crops (c_id (hiA_crop a)))) = 1 \/ Yield.y_CropType (cf_y (crops (c_id (hiA_crop a)))) = 2 \/
   Yield.y_CropType (cf_y (crops (c_id (hiA_crop a)))) = 3)%Z ->
  exists r, c_hi crops p a = Some r.
Proof.
  intros Hrz Hh Hc Ht. unfold c_hi. cbv zeta. destruct (hiA_gs a) eqn:G.
  - destruct (RootZone.root_zone_water p (hiA_zroot a) (hiA_th a) (hiA_ztop a) (c_Zmin (hiA_crop a)) (c_Aer (hiA_crop a))) as [rz|] eqn:E;
      [|exfalso; apply Hrz; reflexivity].
    match goal with |- context [Yield.harvest_index p ?zt ?c ?sc ?s ?zr ?th ?tes ?hr ?dap ?dcd ?yf ?B ?Bn ?cc ?et ?tx ?tn true] =>
      destruct (YieldR.harvest_index_defined p zt c sc s zr th tes hr dap dcd yf B Bn cc et tx tn true rz E Hh Hc Ht) as [h ->] end. eauto.
  - unfold Yield.harvest_index. eauto.
Qed.

Lemma c_rz_defined p (a : A_rz R) : RootZone.root_zone_water p (rzA_zroot a) (rzA_th a) (rzA_ztop a) (rzA_zmin a) (rzA_aer a) <> None ->
  exists r, c_rz p a = Some r.
Proof. intros H. unfold c_rz. destruct (RootZone.root_zone_water _ _ _ _ _ _); [eauto|contradiction]. Qed.

Lemma c_bm_defined2 crops (a : A_bm R) : (bmA_gs a = true -> bmA_et0 a <> 0) ->
  (Yield.y_Determinant (cf_y (crops (c_id (bmA_crop a)))) = 1 \/ Yield.y_YldFormCD (cf_y (crops (c_id (bmA_crop a)))) <> 0) ->
  exists r, c_bm crops a = Some r.
Proof. intros H1 H2. destruct (bmA_gs a) eqn:G; [apply c_bm_defined; auto | rewrite (c_bm_off crops a G); eauto]. Qed.

Lemma c_hr_defined crops (a : A_hr R) : exists r, c_hr crops a = Some r.
Proof. unfold c_hr. destruct (Yield.HIref_current_day _ _ _ _ _ _ _ _ _ _) as [[h yf] pct]. eauto. Qed.

(* ============================================================================================================ *)
(*  Part B  the premises of a defined day                                                                          *)
(* ============================================================================================================ *)
(* static conditions on the parameters (profile, soil, crop of the season, managements) and two conditions on the day: the
   scheduled depth of the step (strategy 3) and the weather record (rain >= 0; ET0 > 0 on an in-season day) *)
Record DefOK (par : DPar R) (crops : Z -> CropFull R) (season : Z) (gs : bool) (tsc : Z) (w : Day.W R) : Prop := {
  do_wt : p_water_table par = 0%Z;                                                          (* the water-table branch is not covered *)
  do_gdd : KernelsR.gdd_ok (c_GDDmethod (sel_crop par season));                              (* growing_degree_day *)
  do_cal : (c_CalendarType (sel_crop par season) = 1 \/ c_CalendarType (sel_crop par season) = 2)%Z;    (* growth_stage, soil_evaporation *)
  do_cal_r : (Roots.rc_cal (cf_root (crops (c_id (sel_crop par season)))) = 1 \/
              Roots.rc_cal (cf_root (crops (c_id (sel_crop par season)))) = 2)%Z;          (* root_development *)
  do_cal_c : (Canopy.k_cal (cf_can (crops (c_id (sel_crop par season)))) = 1 \/
              Canopy.k_cal (cf_can (crops (c_id (sel_crop par season)))) = 2)%Z;           (* canopy_cover *)
  do_sxbot : Roots.rc_SxBot (cf_root (crops (c_id (sel_crop par season)))) <> 0;            (* root_development: rCor divides by SxBot *)
  do_restrict : forall z, Roots.rd_restrict (so_prof (p_soil par)) (c_Zmin (sel_crop par season)) z <> None;   (* layers numbered 1..n *)
  (* the profile reaches below the maximum rooting depth (also after rounding to centimetres): root_zone_water (5 callers),
     pre_irrigation, the expansion front of root_development *)
  do_deep : Exists (fun c => Roots.rc_Zmax (cf_root (crops (c_id (sel_crop par season)))) <= c_dzsum c /\
                             Rround 2 (Roots.rc_Zmax (cf_root (crops (c_id (sel_crop par season))))) <= c_dzsum c) (so_prof (p_soil par));
  do_top : exists c1 rest, so_prof (p_soil par) = c1 :: rest /\ c_dzsum c1 <= Rround 2 (so_z_top (p_soil par));   (* root_zone_water: top soil *)
  do_germ : Exists (fun c => so_z_germ (p_soil par) <= c_dzsum c) (so_prof (p_soil par));   (* germination *)
  do_evap : (0 < p_evap_steps par)%Z /\ so_evap_z_min (p_soil par) <= so_evap_z_max (p_soil par) /\
            EvaporationR.deep_enough (so_prof (p_soil par)) (so_evap_z_max (p_soil par) + 1 / 1000);   (* soil_evaporation *)
  do_irr : irr_method_ok (sel_irr par season) tsc;                                          (* irrigation *)
  do_eff : 0 <= i_AppEff (sel_irr par season);                                              (* infiltration *)
  do_rain : 0 <= w_rain w;
  do_rp : forall P th ds, 0 <= P -> length th = length (so_prof (p_soil par)) ->            (* rainfall_partition *)
    let f := sel_field par season gs in
    RainIrr.rainfall_partition P th ds (f_sr_inhb f) (f_bunds f) (f_z_bund f) (if f_cn_adj f then f_cn_adj_pct f else 0)
      (so_cn (p_soil par)) (so_adj_cn (p_soil par)) (so_z_cn (p_soil par)) (so_nComp (p_soil par)) (so_prof (p_soil par)) <> None;
  do_tr : (Transpiration.k_TrColdStress (cf_tr (crops (c_id (sel_crop par season)))) = 0 \/
           Transpiration.k_TrColdStress (cf_tr (crops (c_id (sel_crop par season)))) = 1)%Z /\
          Transpiration.k_ETadj (cf_tr (crops (c_id (sel_crop par season)))) = 1%Z;         (* transpiration *)
  do_pol : (Yield.s_PolHeat (cf_s (crops (c_id (sel_crop par season)))) = 0 \/ Yield.s_PolHeat (cf_s (crops (c_id (sel_crop par season)))) = 1)%Z /\
           (Yield.s_PolCold (cf_s (crops (c_id (sel_crop par season)))) = 0 \/ Yield.s_PolCold (cf_s (crops (c_id (sel_crop par season)))) = 1)%Z;
  do_type : (Yield.y_CropType (cf_y (crops (c_id (sel_crop par season)))) = 1 \/ Yield.y_CropType (cf_y (crops (c_id (sel_crop par season)))) = 2 \/
             Yield.y_CropType (cf_y (crops (c_id (sel_crop par season)))) = 3)%Z;           (* harvest_index *)
  do_yld : Yield.y_Determinant (cf_y (crops (c_id (sel_crop par season)))) = 1 \/
           Yield.y_YldFormCD (cf_y (crops (c_id (sel_crop par season)))) <> 0;              (* biomass_accumulation *)
  do_et0 : gs = true -> 0 < w_et0 w }.                                                      (* biomass_accumulation divides by ET0 *)

(* conditions on the state *)
Record DefSt (par : DPar R) (s : DState R) : Prop := {
  ds_aer : length (d_aer_days_comp s) = length (so_prof (p_soil par));                      (* transpiration *)
  ds_evapz : d_evap_z s <= so_evap_z_max (p_soil par);                                      (* soil_evaporation *)
  ds_stage : (0 <= d_growth_stage s <= 4)%Z }.                                              (* irrigation, strategy 1 *)

(* the root zone is defined for every rooting depth up to Zmax and every water-content array as long as the profile *)
Lemma rz_defined_deep (p : list (Comp R)) zr th ztop zmin aer zmax :
  (length p <= length th)%nat -> zr <= zmax -> zmin <= zmax ->
  Exists (fun c => Rround 2 zmax <= c_dzsum c) p ->
  (exists c1 rest, p = c1 :: rest /\ c_dzsum c1 <= Rround 2 ztop) ->
  RootZone.root_zone_water p zr th ztop zmin aer <> None.
Proof.
  intros Hl Hz Hm Hex Htop. apply TranspirationR.rz_defined; [exact Hl | | intros _; exact Htop].
  eapply Exists_impl; [|exact Hex]. cbn. intros c Hc. eapply Rle_trans; [|exact Hc].
  unfold Transpiration.tr_rootdepth. rnum. apply Rround_mono. unfold pmax. rnum. destruct (Rltb_spec zr zmin); lra.
Qed.

Theorem day_defined_strong par crops season gs dap0 tsc w s :
  ParOK par crops -> StrongInv par crops season dap0 s -> RootInv par crops season dap0 s ->
  DefOK par crops season gs tsc w -> DefSt par s ->
  exists s' row, day_proc_opt par (procs_concrete crops) season gs (dap_of gs dap0) tsc w s = Some (s', row).
Proof.
  intros P SI RI DO DS.
  set (dap := dap_of gs dap0). set (x := mk_ctx par season gs dap tsc w s).
  enough (HR : exists Rs, results_opt x (procs_concrete crops) = Some Rs).
  { destruct HR as [Rs HR]. unfold day_proc_opt, day_core_opt. fold x. rewrite HR. eauto. }
  set (prof := so_prof (p_soil par)). set (dc := sel_crop par season). set (cf := crops (c_id dc)). set (rc := root_crop cf dc).
  pose proof (po_crop _ _ P season) as CK. fold dc cf in CK.
  pose proof (si_day _ _ _ _ _ SI) as DI.
  pose proof (po_wf _ _ P) as W. fold prof in W.
  pose proof (inv_th _ _ DI) as B0. pose proof (inv_fc _ _ DI) as F0. fold prof in B0, F0.
  pose proof (co_root _ _ _ _ CK) as Hrok. fold rc in Hrok.
  pose proof (co_zmin_cm _ _ _ _ CK) as Hcm.
  pose proof (RootsR.ok_zmin rc Hrok) as Hzmin0. pose proof (RootsR.ok_zmax rc Hrok) as Hzmax0. cbn [rc root_crop Roots.rc_Zmin Roots.rc_Zmax] in Hzmin0, Hzmax0.
  destruct DO as [Dwt Dgdd Dcal Dcalr Dcalc Dsx Dres Ddeep Dtop Dgerm (Dst & Dzz & Ddp) Dirr Deff Drain Drp (Dtr1 & Dtr2) (Dp1 & Dp2) Dty Dyld Det0].
  fold prof dc cf in Dgdd, Dcal, Dcalr, Dcalc, Dsx, Dres, Ddeep, Dtop, Dgerm, Ddp, Drp, Dtr1, Dtr2, Dp1, Dp2, Dty, Dyld.
  destruct DS as [Saer Sevz Sstg]. fold prof in Saer.
  set (zmax := Roots.rc_Zmax (cf_root cf)) in *.
  assert (Ddeep2 : Exists (fun c => Rround 2 zmax <= c_dzsum c) prof) by (eapply Exists_impl; [|exact Ddeep]; cbn; intros c [_ H]; exact H).
  assert (Ddeep1 : Exists (fun c => zmax <= c_dzsum c) prof) by (eapply Exists_impl; [|exact Ddeep]; cbn; intros c [H _]; exact H).
  assert (Hne : prof <> []) by (destruct Dtop as (c1 & rest & -> & _); discriminate).
  unfold results_opt. cbv zeta. unfold obind. cbn [procs_concrete po_gd po_gw po_rd po_pi po_dr po_rp po_ir po_inf po_cr po_ge po_gst po_cc po_ev po_tr po_gi po_hr po_bm po_hi po_rz].
  change (x_prof x) with prof. change (x_gs x) with gs.
  (* 0. growing degree days *)
  assert (S0 : exists g, (if gs then match c_gd (arg_gd x) with Some g0 => Some (gdR_gdd g0) | None => None end else Some 3#/10)%num = Some g /\ 0 <= g).
  { destruct gs.
    - destruct (c_gd_defined (arg_gd x) Dgdd) as [r E]. rewrite E. exists (gdR_gdd r). split; [reflexivity|].
      pose proof (cgd_call _ _ E) as G. exact (proj1 (KernelsR.gdd_range _ _ _ _ _ _ (co_temp _ _ _ _ CK) G)).
    - eexists. split; [reflexivity|]. rnum. lra. }
  destruct S0 as (gdd & -> & Hgdd).
  (* 1. groundwater table: none *)
  rewrite (c_gw_defined_notable prof (arg_gw x) Dwt).
  set (r_gw := {| gwR_fcadj := gwA_fcadj (arg_gw x); gwR_wtsoil := None; gwR_zgw := None |}).
  (* 2. root development *)
  assert (S2 : exists r, c_rd crops prof (arg_rd x gdd r_gw) = Some r).
  { unfold c_rd, obind, zgw_of. cbn [arg_rd rdA_wt rdA_zgw r_gw gwR_zgw]. unfold x_wt. cbn [x_par x mk_ctx]. rewrite Dwt. cbn [Z.eqb].
    cbn [arg_rd rdA_crop rdA_dap rdA_zroot rdA_dcd rdA_gddcum rdA_dgdd rdA_trratio rdA_th rdA_cc rdA_ccns rdA_germ rdA_rcor rdA_tpot rdA_gdd rdA_gs].
    change (x_crop x) with dc. fold cf rc. cbn [x_dap x_s x_gs x mk_ctx].
    destruct (root_development_defined rc prof dap (d_z_root s) (d_delayed_cds s) (gdd_cum_of x gdd) (d_delayed_gdds s) (d_tr_ratio s)
                (d_th s) (d_canopy_cover s) (d_canopy_cover_ns s) (d_germination s) (d_r_cor s) (d_t_pot s) #0%num gdd gs 0%Z
                Hrok Hcm W (po_pen _ _ P) (si_trratio _ _ _ _ _ SI) Hgdd Dcalr Dsx Dres) as [[z r] E].
    - intros zi Hzi. assert (Hzi' : zi <= zmax) by exact Hzi. clear - Ddeep1 B0 Hzi'. pose proof (in_bounds_length _ _ B0) as Hl. clear B0. revert Hl. generalize (d_th s).
      induction Ddeep1 as [c p Hc|c p Hex IH]; intros th Hl; (destruct th as [|t th]; [discriminate|]); cbn [Roots.rd_find]; rnum.
      + rewrite (Rleb_true zi (c_dzsum c)) by lra. discriminate.
      + destruct (Rleb zi (c_dzsum c)); [discriminate|]. apply IH. cbn in Hl. lia.
    - intros G. destruct (Z.eq_dec dap0 0) as [D0|D0]; [left; unfold dap, dap_of; rewrite G, D0; reflexivity|]. right.
      split; [exact (si_zroot _ _ _ _ _ SI D0)|]. intros tadj told zo Et Hzo. apply (RI D0 zo). fold dc cf rc.
      replace (troot rc dap0 s) with told; [exact Hzo|].
      revert Et. unfold Roots.rd_times, troot, gdd_cum_of. cbn [x_gs x_s x mk_ctx]. unfold dap, dap_of. rewrite G. rnum.
      destruct (Roots.rc_cal rc =? 1)%Z; [intros [= _ <-]; f_equal; lia|].
      destruct (Roots.rc_cal rc =? 2)%Z; [|discriminate]. intros [= _ <-]. lra.
    - rewrite E. eauto. }
  destruct S2 as [r_rd E2]. rewrite E2.
  assert (Hrd : 0 <= rdR_rcor r_rd /\ rdR_zroot r_rd <= zmax).
  { destruct (crd_call _ _ _ _ E2) as (zgw & _ & E).
    cbn [arg_rd rdA_crop rdA_dap rdA_zroot rdA_dcd rdA_gddcum rdA_dgdd rdA_trratio rdA_th rdA_cc rdA_ccns rdA_germ rdA_rcor rdA_tpot rdA_gdd rdA_gs rdA_wt] in E.
    change (x_crop x) with dc in E. fold cf rc in E. cbn [x_dap x_s x_gs x mk_ctx] in E.
    assert (Hside : 0 <= rdR_rcor r_rd /\ (gs = true -> Roots.rc_Zmin rc <= rdR_zroot r_rd)).
    { refine (root_development_side _ _ _ _ _ _ _ _ _ _ _ _ _ _ _ _ _ _ _ _ Hrok Hcm W (po_pen _ _ P) (co_rsxtop _ _ _ _ CK) (co_rsxbot _ _ _ _ CK)
                (si_trratio _ _ _ _ _ SI) Hgdd (si_rcor _ _ _ _ _ SI) _ E).
      intros G Hd1. cbn [rc root_crop Roots.rc_Zmin]. apply (si_zroot _ _ _ _ _ SI). unfold dap, dap_of in Hd1. rewrite G in Hd1. lia. }
    split; [exact (proj1 Hside)|].
    destruct gs eqn:G.
    - assert (Hf : Roots.rc_fshape_r rc <> 0) by (pose proof (RootsR.ok_fr rc Hrok); lra).
      destruct (root_development_inv2 _ _ _ _ _ _ _ _ _ _ _ _ _ _ _ _ _ _ _ Hf E) as (tadj & told & d & b & Et & _).
      assert (Hpre : dap = 1%Z \/ (Roots.rc_Zmin rc <= d_z_root s /\
                        forall zo, Roots.rd_restricted prof (Roots.rc_Zmin rc) (RootsR.pot rc told) = Some zo -> d_z_root s <= zo)).
      { destruct (Z.eq_dec dap0 0) as [D0|D0]; [left; unfold dap, dap_of; rewrite D0; reflexivity|]. right.
        split; [exact (si_zroot _ _ _ _ _ SI D0)|]. intros zo Hzo. apply (RI D0 zo). fold dc cf rc.
        replace (troot rc dap0 s) with told; [exact Hzo|].
        revert Et. unfold Roots.rd_times, troot, gdd_cum_of. cbn [x_gs x_s x mk_ctx]. unfold dap, dap_of. rnum.
        destruct (Roots.rc_cal rc =? 1)%Z; [intros [= _ <-]; f_equal; lia|].
        destruct (Roots.rc_cal rc =? 2)%Z; [|discriminate]. intros [= _ <-]. lra. }
      destruct (RootsR.root_range _ _ _ _ _ _ _ _ _ _ _ _ _ _ _ _ _ _ _ _ _ Hrok Hcm W (po_pen _ _ P) (si_trratio _ _ _ _ _ SI) Hgdd Et E Hpre)
        as (zn & _ & Hz & Hn). cbn [rc root_crop Roots.rc_Zmax] in Hn. fold zmax in Hn. lra.
    - unfold Roots.root_development in E. injection E as <- _. rnum. lra. }
  destruct Hrd as [Hrcor Hzr].
  assert (RZ : forall th, (length prof <= length th)%nat ->
                 RootZone.root_zone_water prof (rdR_zroot r_rd) th (so_z_top (p_soil par)) (c_Zmin dc) (c_Aer dc) <> None).
  { intros th Hl. apply (rz_defined_deep prof _ th _ _ _ zmax Hl Hzr Hzmax0 Ddeep2 Dtop). }
  (* 3. pre-irrigation *)
  assert (S3 : exists r, c_pi prof (arg_pi x r_rd) = Some r).
  { apply c_pi_defined; cbn [arg_pi piA_zroot piA_crop piA_th]; change (x_crop x) with dc; [|cbn [x_s x mk_ctx]; rewrite (in_bounds_length _ _ B0); lia].
    eapply Exists_impl; [|exact Ddeep2]. cbn. intros c Hc. eapply Rle_trans; [|exact Hc]. apply Rround_mono. unfold pmax. rnum.
    destruct (Rltb_spec (rdR_zroot r_rd) (c_Zmin dc)); lra. }
  destruct S3 as [r_pi E3]. rewrite E3.
  assert (B3 : in_bounds prof (piR_th r_pi)).
  { pose proof (c_pi_inv _ _ _ E3) as U. cbn [arg_pi piA_th x_s x mk_ctx] in U.
    exact (proj1 (RootsR.pre_irrigation_bounds _ _ _ _ _ _ _ _ _ _ W (irr_smt par season s DI) B0 U)). }
  (* 4. drainage *)
  assert (S4 : exists r, c_dr prof (arg_dr x r_gw r_pi) = Some r).
  { apply c_dr_defined; cbn [arg_dr drA_th drA_fcadj r_gw gwR_fcadj arg_gw gwA_fcadj x_s x mk_ctx]; [exact W | exact (in_bounds_length _ _ B3)|].
    rewrite <- (fcadj_ok_length _ _ F0). exact (in_bounds_length _ _ B3). }
  destruct S4 as [r_dr E4]. rewrite E4.
  pose proof (c_dr_inv _ _ _ E4) as U4. cbn [arg_dr drA_th drA_fcadj r_gw gwR_fcadj arg_gw gwA_fcadj x_s x mk_ctx] in U4.
  pose proof (DrainageR.drainage_bounds _ _ _ _ _ _ W B3 F0 U4) as B4.
  pose proof (DrainageR.drainage_length _ _ _ _ _ _ U4) as [L4a L4b].
  (* 5. rainfall partition *)
  assert (S5 : exists r, c_rp prof (arg_rp x r_dr) = Some r).
  { unfold c_rp. cbn [arg_rp rpA_rain rpA_th rpA_daysub rpA_srinhb rpA_bunds rpA_zbund rpA_pct rpA_cn rpA_adjcn rpA_zcn rpA_ncomp].
    change (x_field x) with (sel_field par season gs). change (x_soil x) with (p_soil par). cbn [x_w x_s x mk_ctx].
    destruct (RainIrr.rainfall_partition _ _ _ _ _ _ _ _ _ _ _ _) as [[[ro infl] ds]|] eqn:E; [eauto|].
    exfalso. revert E. apply (Drp (w_rain w) (drR_th r_dr) _ Drain). symmetry. exact (in_bounds_length _ _ B4). }
  destruct S5 as [r_rp E5]. rewrite E5.
  assert (Hds : nonneg_int (rpR_daysub r_rp)).
  { destruct (c_rp_daysub _ _ _ E5) as [-> | ->]; [apply nonneg_int_0|].
    cbn [arg_rp rpA_daysub x_s x mk_ctx]. rewrite (Ztrunc_nonneg_int _ (si_daysub _ _ _ _ _ SI)). exact (si_daysub _ _ _ _ _ SI). }
  (* 6. irrigation *)
  assert (S6 : exists r, c_ir prof (arg_ir x r_rd r_dr r_rp) = Some r).
  { unfold c_ir.
    match goal with |- exists r, match ?call with _ => _ end = Some r =>
      assert (Hc : exists v, call = Some v); [|destruct Hc as [[[[d t] c] i] ->]; eauto] end.
    cbn [arg_ir irA_method irA_smt irA_eff irA_maxirr irA_interval irA_sched irA_depth irA_maxseason irA_stage irA_irrcum irA_epot irA_tpot
         irA_zroot irA_th irA_dap irA_tsc irA_crop irA_ztop irA_gs irA_rain irA_runoff].
    apply (irrigation_defined (x_irr x)); [exact Dirr | exact Sstg |].
    change (x_crop x) with dc. change (x_soil x) with (p_soil par). apply RZ. rewrite (in_bounds_length _ _ B4). lia. }
  destruct S6 as [r_ir E6]. rewrite E6.
  assert (Hirr : 0 <= irR_irr r_ir) by exact (RainIrrR.irr_nonneg _ _ _ _ _ _ _ _ _ _ _ _ _ _ _ _ _ _ _ _ _ _ _ _ _ _ _ (cir_call _ _ _ E6)).
  (* 7. infiltration *)
  assert (S7 : exists r, c_inf prof (arg_inf x r_gw r_dr r_rp r_ir) = Some r).
  { apply c_inf_defined; cbn [arg_inf infA_th infA_fcadj infA_flux infA_irr infA_eff r_gw gwR_fcadj arg_gw gwA_fcadj x_s x mk_ctx]; try assumption;
      try (rewrite L4a, L4b; reflexivity); try exact Deff. }
  destruct S7 as [r_inf E7]. rewrite E7.
  assert (B7 : in_bounds prof (infR_th r_inf)).
  { pose proof (c_inf_inv _ _ _ E7) as U. cbn [arg_inf infA_surf infA_fcadj infA_th r_gw gwR_fcadj arg_gw gwA_fcadj x_s x mk_ctx] in U.
    exact (proj1 (InfiltrationR.infiltration_bounds _ _ _ _ _ _ _ _ _ _ _ _ _ _ _ _ _ _ _ W B4 F0 (inv_surf _ _ DI) U)). }
  (* 8. capillary rise: none *)
  rewrite (c_cr_notable prof (arg_cr x r_gw r_inf) Dwt). cbn [arg_cr crA_th].
  set (r_cr := {| crR_th := infR_th r_inf; crR_cr := 0 |}).
  (* 9. germination *)
  assert (S9 : exists r, c_ge prof (arg_ge x gdd r_cr) = Some r).
  { apply c_ge_defined; cbn [arg_ge geA_zgerm geA_th r_cr crR_th]; [exact Dgerm | rewrite (in_bounds_length _ _ B7); lia]. }
  destruct S9 as [r_ge E9]. rewrite E9.
  (* 10. growth stage *)
  destruct (c_gst_defined crops (arg_gst x gdd r_ge) Dcal) as [r_gst E10]. rewrite E10.
  (* 11. canopy cover *)
  assert (S11 : exists r, c_cc crops prof (arg_cc x gdd r_rd r_cr r_ge) = Some r).
  { apply c_cc_defined; cbn [arg_cc ccA_crop ccA_gs ccA_zroot ccA_th ccA_ztop r_cr crR_th]; change (x_crop x) with dc; fold cf; [exact Dcalc|].
    intros _. apply RZ. rewrite (in_bounds_length _ _ B7). lia. }
  destruct S11 as [r_cc E11]. rewrite E11.
  (* 12. soil evaporation *)
  assert (S12 : exists r, c_ev prof (arg_ev x gdd r_ir r_inf r_cr r_ge r_cc) = Some r).
  { apply c_ev_defined; cbn [arg_ev evA_steps evA_gs evA_caltype evA_zmin evA_zmax evA_evapz evA_th r_cr crR_th]; change (x_crop x) with dc;
      change (x_soil x) with (p_soil par); cbn [x_par x_s x mk_ctx]; try assumption.
    - right. exact Dcal.
    - symmetry. exact (in_bounds_length _ _ B7). }
  destruct S12 as [r_ev E12]. rewrite E12.
  assert (B12 : in_bounds prof (evR_th r_ev)).
  { destruct (c_ev_inv _ _ _ E12) as (o & U & -> & _). cbn [arg_ev evA_th r_cr crR_th] in U.
    exact (proj1 (EvaporationR.evaporation_bounds _ _ _ _ _ _ _ _ _ _ W B7 U)). }
  (* 13. transpiration *)
  assert (S13 : exists r, c_tr crops prof (arg_tr x gdd r_rd r_rp r_ir r_ge r_cc r_ev) = Some r).
  { apply c_tr_defined; cbn [arg_tr trA_crop trA_th trA_aer_comp trA_zroot trA_ztop]; change (x_crop x) with dc; fold cf; cbn [x_s x mk_ctx]; try assumption.
    - symmetry. exact (in_bounds_length _ _ B12).
    - apply RZ. rewrite (in_bounds_length _ _ B12). lia. }
  destruct S13 as [r_tr E13]. rewrite E13.
  assert (B13 : in_bounds prof (trR_th r_tr)).
  { destruct (c_tr_inv _ _ _ _ E13) as (o & U & -> & _).
    cbn [arg_tr trA_crop trA_ztop trA_method trA_smt trA_et0 trA_co2c trA_co2r trA_gs trA_gdd] in U. change (x_crop x) with dc in U. fold cf in U.
    destruct (co_lag_int _ _ _ _ CK) as (L & HL).
    refine (proj1 (TranspirationR.transpiration_bounds _ _ _ _ _ _ _ _ _ _ _ _ _ _ _ U)).
    - constructor; cbn [tr_crop tr_state arg_tr Transpiration.k_SxTop Transpiration.k_SxBot Transpiration.s_r_cor Transpiration.k_Zmin
                        Transpiration.k_LagAer Transpiration.s_aer_comp Transpiration.s_day_sub trA_rcor trA_aer_comp trA_day_sub x_s x mk_ctx].
      + exact W.
      + exact (po_geom _ _ P).
      + exact (co_sxtop _ _ _ _ CK).
      + exact (co_sxbot _ _ _ _ CK).
      + exact Hrcor.
      + lra.
      + exact (co_lag _ _ _ _ CK).
      + exact (si_aer _ _ _ _ _ SI).
      + apply nonneg_int_ge0, Hds.
      + rewrite HL. apply nonneg_int_step, Hds.
    - intros M. change (x_irr x) with (sel_irr par season). split; [exact (irr_smt par season s DI) | exact (po_layers _ _ P)].
    - cbn [tr_state arg_tr Transpiration.s_th trA_th]. exact B12. }
  (* 14. groundwater inflow: none *)
  rewrite (c_gi_off prof (arg_gi x r_gw r_tr) eq_refl). cbn [arg_gi giA_th].
  set (r_gi := {| giR_th := trR_th r_tr; giR_gwin := 0 |}).
  (* 15. reference harvest index *)
  destruct (c_hr_defined crops (arg_hr x r_ge r_cc r_tr)) as [r_hr E15]. rewrite E15.
  (* 16. biomass *)
  assert (S16 : exists r, c_bm crops (arg_bm x r_ge r_tr r_hr) = Some r).
  { apply c_bm_defined2; cbn [arg_bm bmA_gs bmA_et0 bmA_crop]; change (x_crop x) with dc; fold cf; [|exact Dyld].
    cbn [x_gs x_w x mk_ctx]. intros G. pose proof (Det0 G). lra. }
  destruct S16 as [r_bm E16]. rewrite E16.
  (* 17. harvest index *)
  assert (S17 : exists r, c_hi crops prof (arg_hi x r_rd r_ge r_cc r_tr r_gi r_hr r_bm) = Some r).
  { apply c_hi_defined; cbn [arg_hi hiA_gs hiA_zroot hiA_th hiA_ztop hiA_crop r_gi giR_th]; change (x_crop x) with dc; fold cf; try assumption.
    intros _. apply RZ. rewrite (in_bounds_length _ _ B13). lia. }
  destruct S17 as [r_hi E17]. rewrite E17.
  (* 18. root zone water *)
  assert (S18 : exists r, c_rz prof (arg_rz x r_rd r_gi) = Some r).
  { apply c_rz_defined. cbn [arg_rz rzA_zroot rzA_th rzA_ztop rzA_zmin rzA_aer r_gi giR_th]. change (x_crop x) with dc.
    apply RZ. rewrite (in_bounds_length _ _ B13). lia. }
  destruct S18 as [r_rz E18]. rewrite E18. eauto.
Qed.

(* the guard of the concrete run loop (RunConcrete.defined_c) is passed *)
Corollary defined_c_strong par crops season gs dap0 tsc w s :
  ParOK par crops -> StrongInv par crops season dap0 s -> RootInv par crops season dap0 s ->
  DefOK par crops season gs tsc w -> DefSt par s ->
  defined_c par crops season gs (dap_of gs dap0) tsc w s = true.
Proof.
  intros P SI RI DO DS. destruct (day_defined_strong par crops season gs dap0 tsc w s P SI RI DO DS) as (s' & row & E).
  unfold defined_c. rewrite E. reflexivity.
Qed.

(* ... and for one step of a run: the day the clock is about to perform is defined *)
Corollary day_defined_clock par crops c w (st : St (DState R)) :
  ParOK par crops -> SInv par crops st -> RootInv par crops (season st) (dap st) (phys st) ->
  DefOK par crops (season st) (in_season (DState R) dead c st) (tsc st) w -> DefSt par (phys st) ->
  day_defined (DState R) (Day.W R) dead (defined_c par crops) c w st = true.
Proof.
  intros P SI RI DO DS. unfold day_defined. exact (defined_c_strong par crops _ _ (dap st) _ w _ P SI RI DO DS).
Qed.

(* ============================================================================================================ *)
(*  Part C  the instance DaySideP.Ex                                                                              *)
(* ============================================================================================================ *)
(* the state conditions hold on the mid-season state of the instance ... *)
Example def_st_example : DefSt DaySideP.Ex.par DaySideP.Ex.st.
Proof. constructor; cbn; [reflexivity | lra | lia]. Qed.

(* ... but [DefOK] does NOT: the instance pairs the 0.4 m profile of TranspirationR with the wheat roots of RootsR (Zmax = 1.5 m), which
   no initialised model does (read_model_parameters deepens the profile below Zmax).  It was built for the sign / range theorems, which do
   not need the profile to reach Zmax; definedness does (the expansion front of root_development, root_zone_water). *)
Example def_ok_fails_on_ex season gs tsc w : ~ DefOK DaySideP.Ex.par DaySideP.Ex.crops season gs tsc w.
Proof.
  intros [_ _ _ _ _ _ _ D _ _ _ _ _ _ _ _ _ _ _ _]. apply Exists_exists in D. destruct D as (c & Hc & H1 & _).
  cbn [DaySideP.Ex.par p_soil DaySideP.Ex.soil so_prof DaySideP.Ex.crops DaySideP.Ex.cfull cf_root RootsR.ex_crop Roots.rc_Zmax] in Hc, H1.
  unfold TranspirationR.ex_p in Hc. cbn [In] in Hc. destruct Hc as [<-|[<-|[<-|[<-|[]]]]]; cbn in H1; lra.
Qed.

Print Assumptions root_development_defined.
Print Assumptions irrigation_defined.
Print Assumptions day_defined_strong.
Print Assumptions defined_c_strong.
Print Assumptions day_defined_clock.
Print Assumptions def_ok_fails_on_ex.
