(* DayP.v — theorems about the day orchestration (Day.v), real instance, for EVERY choice of the processes
   ([Procs]) unless a hypothesis about an individual process is stated.

   C12 / frame, by construction of the types: [day_core], [day_proc], [reset] RETURN a state (and rows, trace) only;
   the parameters [DPar] (profile, soil scalars, irrigation / field management, crops, CO2, groundwater flag), the
   weather record [W] and the clock values are inputs that do not occur in the result types — the orchestration
   cannot change them.  (The only parameter store of the implementation while stepping, `Crop_.Aer = 5; Crop_.Zmin =
   0.3` on the filler crop before the first season, is the pure function [fallow_crop] here and is reported in
   GenFactsOK.reported_sites.) *)
From Coq Require Import String List Bool ZArith Permutation.
From AC Require Import Num RInst Params Clock Day.
From AC.proofs Require Import ProfR.
From AC.gen Require Import StateFields.
Import ListNotations.
Local Open Scope R_scope.

Notation dcore := (@day_core R RNops).

(* the results the processes returned on the day, recovered from the trace (argument records) *)
Section Results.
  Variables (par : DPar R) (P : Procs R) (tr : Trace R).
  Let prof := so_prof (p_soil par).
  Definition res_gw := p_gw P prof (t_gw tr).
  Definition res_rd := p_rd P prof (t_rd tr).
  Definition res_pi := p_pi P prof (t_pi tr).
  Definition res_dr := p_dr P prof (t_dr tr).
  Definition res_rp := p_rp P prof (t_rp tr).
  Definition res_ir := p_ir P prof (t_ir tr).
  Definition res_inf := p_inf P prof (t_inf tr).
  Definition res_cr := p_cr P prof (t_cr tr).
  Definition res_ge := p_ge P prof (t_ge tr).
  Definition res_gst := p_gst P (t_gst tr).
  Definition res_cc := p_cc P prof (t_cc tr).
  Definition res_ev := p_ev P prof (t_ev tr).
  Definition res_tr := p_tr P prof (t_tr tr).
  Definition res_gi := p_gi P prof (t_gi tr).
  Definition res_hr := p_hr P (t_hr tr).
  Definition res_bm := p_bm P (t_bm tr).
  Definition res_hi := p_hi P prof (t_hi tr).
  Definition res_rz := p_rz P prof (t_rz tr).
End Results.

Section Day.
  Variables (par : DPar R) (P : Procs R) (season : Z) (gs : bool) (dap tsc : Z) (w : Day.W R) (s : DState R).
  Let o := dcore par P season gs dap tsc w s.
  Let s' := o_state o.
  Let row := o_row o.
  Let tr := o_trace o.
  Let crop := sel_crop par season.
  Let irr := sel_irr par season.
  Let field := sel_field par season gs.

  Lemma day_proc_eq : day_proc par P season gs dap tsc w s = (s', row).
  Proof. reflexivity. Qed.

  (* ---------------------------------------------------------------- 1. C06: yield identities in the crop-growth row *)
  Theorem yield_identities :
    let g := r_growth (snd (day_proc par P season gs dap tsc w s)) in
    gr_Pot g = (gr_B_ns g / 100) * gr_HI g /\
    (gs = true -> gr_Dry g = (gr_B g / 100) * gr_HIadj g /\ gr_Fresh g = gr_Dry g / (c_YldWC crop / 100)) /\
    (gs = false -> gr_Dry g = 0 /\ gr_Fresh g = 0).
  Proof.
    cbv zeta. split; [reflexivity|]. split; intros ->; split; reflexivity.
  Qed.

  (* the state keeps the same three values, and [summary_of] reports exactly them *)
  Theorem summary_values :
    let g := r_growth row in
    let so := summary_of par season gs s' in
    o_Dry so = gr_Dry g /\ o_Fresh so = gr_Fresh g /\ o_Pot so = gr_Pot g /\
    d_DryYield s' = gr_Dry g /\ d_FreshYield s' = gr_Fresh g /\ d_YieldPot s' = gr_Pot g /\
    o_IrrTot so = (if gs then (if (i_method irr =? 4)%Z then d_irr_net_cum s' else d_irr_cum s') else 0) /\
    d_irr_cum s' = irR_irrcum (res_ir par P tr) /\
    d_irr_net_cum s' = trR_irr_net_cum (res_tr par P tr) + piR_preirr (res_pi par P tr).
  Proof. Time (cbv zeta; repeat split; reflexivity). Time Qed.

  (* ---------------------------------------------------------------- 2. what is written into the three rows *)
  Theorem row_wiring :
    let f := r_flux row in let g := r_growth row in let st := r_sto row in
    (* irrigation column: the irrigation process' Irr, or with net irrigation (method 4) transpiration's IrrNet plus
       the pre-irrigation; zero outside the season *)
    fl_IrrDay f = (if gs then (if (i_method irr =? 4)%Z then trR_irrnet (res_tr par P tr) + piR_preirr (res_pi par P tr)
                               else irR_irr (res_ir par P tr)) else 0) /\
    (* Infl, Runoff, DeepPerc: the values returned by INFILTRATION (which received drainage's DeepPerc and
       rainfall_partition's Runoff / Infl and returns the totals) *)
    fl_Infl f = infR_infl (res_inf par P tr) /\ fl_Runoff f = infR_runoff (res_inf par P tr) /\
    fl_DeepPerc f = infR_deepperc (res_inf par P tr) /\
    infA_deepperc (t_inf tr) = drR_deepperc (res_dr par P tr) /\ infA_runoff (t_inf tr) = rpR_runoff (res_rp par P tr) /\
    infA_infl (t_inf tr) = rpR_infl (res_rp par P tr) /\ infA_irr (t_inf tr) = irR_irr (res_ir par P tr) /\
    infA_eff (t_inf tr) = i_AppEff irr /\ infA_gs (t_inf tr) = gs /\
    fl_CR f = crR_cr (res_cr par P tr) /\ fl_GwIn f = giR_gwin (res_gi par P tr) /\
    fl_Es f = evR_es (res_ev par P tr) /\ fl_EsPot f = evR_espot (res_ev par P tr) /\
    fl_Tr f = trR_tr (res_tr par P tr) /\ fl_TrPot f = trR_trpot (res_tr par P tr) /\
    (* state columns: values AFTER the last process *)
    fl_surf f = d_surface_storage s' /\ d_surface_storage s' = trR_surf (res_tr par P tr) /\
    fl_zgw f = d_z_gw s' /\ d_z_gw s' = gwR_zgw (res_gw par P tr) /\
    fl_Wr f = rzR_wr (res_rz par P tr) /\ rzA_th (t_rz tr) = d_th s' /\ rzA_zroot (t_rz tr) = d_z_root s' /\
    st_th st = d_th s' /\ d_th s' = giR_th (res_gi par P tr) /\
    gr_gdd_cum g = d_gdd_cum s' /\ gr_z_root g = d_z_root s' /\ gr_cc g = d_canopy_cover s' /\ gr_cc_ns g = d_canopy_cover_ns s' /\
    gr_B g = d_biomass s' /\ gr_B_ns g = d_biomass_ns s' /\ gr_HI g = d_harvest_index s' /\ gr_HIadj g = d_harvest_index_adj s' /\
    (* index columns *)
    fl_tsc f = tsc /\ fl_season f = season /\ fl_dap f = dap /\ gr_tsc g = tsc /\ gr_season g = season /\ gr_dap g = dap /\
    st_tsc st = tsc /\ st_gs st = gs /\ st_dap st = dap.
  Proof. Time (cbv zeta; repeat split; reflexivity). Time Qed.

  (* ---------------------------------------------------------------- 4. outside the growing season *)
  (* what the orchestration itself guarantees (Tr = 0, Irr = 0, CC = 0 ... come from the processes, which all receive
     growing_season = false) *)
  Theorem off_season_wiring : gs = false ->
    fl_IrrDay (r_flux row) = 0 /\ gr_Dry (r_growth row) = 0 /\ gr_Fresh (r_growth row) = 0 /\
    gr_gdd_cum (r_growth row) = 0 /\ d_gdd_cum s' = 0 /\ d_DryYield s' = 0 /\ d_FreshYield s' = 0 /\
    d_growing_season s' = false /\ d_gdd s' = d_gdd s /\ t_gd tr = None /\
    gr_gdd (r_growth row) = 3 / 10 /\                 (* the local gdd handed to the processes and REPORTED off season *)
    o_IrrTot (summary_of par season gs s') = 0 /\
    d_depletion s' = rzR_drrz (res_rz par P tr) /\ d_taw s' = rzR_tawrz (res_rz par P tr) /\
    field = (if (0 <=? season)%Z then p_fallow_field par else p_fallow_field par) /\
    rdA_gs (t_rd tr) = false /\ piA_gs (t_pi tr) = false /\ irA_gs (t_ir tr) = false /\ infA_gs (t_inf tr) = false /\
    geA_gs (t_ge tr) = false /\ gstA_gs (t_gst tr) = false /\ ccA_gs (t_cc tr) = false /\ evA_gs (t_ev tr) = false /\
    trA_gs (t_tr tr) = false /\ hrA_gs (t_hr tr) = false /\ bmA_gs (t_bm tr) = false /\ hiA_gs (t_hi tr) = false.
  Proof.
    intros E. subst o s' row tr field. rewrite E. repeat split; reflexivity.
  Qed.
End Day.
