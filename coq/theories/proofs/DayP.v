(* DayP.v — theorems about the day orchestration (Day.v), real instance, for EVERY choice of the processes
   ([Procs]) unless a hypothesis about an individual process is stated.

   C12 / frame, by construction of the types: [day_core], [day_proc], [reset] RETURN a state (and rows, trace) only;
   the parameters [DPar] (profile, soil scalars, irrigation / field management, crops, CO2, groundwater flag), the
   weather record [W] and the clock values are inputs that do not occur in the result types — the orchestration
   cannot change them.  (The only parameter store of the implementation while stepping, `Crop_.Aer = 5; Crop_.Zmin =
   0.3` on the filler crop before the first season, is the pure function [fallow_crop] here and is listed in
   GenFactsOK.reported_sites.)

   Method: a day is [day_out x R] where [x : Ctx] is everything the step receives and [R : Results] what the processes
   returned; [Spec x P R] says that R is what the processes [P] return on the arguments recorded in the trace
   ([results_spec]: the results computed by [day_core] satisfy it).  The theorems are stated for the day [day_core]
   computes; hypotheses about individual processes are statements about THE CALLS OF THAT DAY (argument record in the
   trace, result record), named like the theorems of the process units that discharge them. *)
From Coq Require Import String List Bool ZArith.
From AC Require Import Num RInst Params Clock Day.
From AC.proofs Require Import ProfR GenFactsOK.
From AC.gen Require Import StateFields.
Import ListNotations.
Local Open Scope R_scope.

(* ------------------------------------------------------------------------------------------------------------ *)
(*  the results are the processes applied to the traced arguments                                                *)
(* ------------------------------------------------------------------------------------------------------------ *)
Record Spec (x : Ctx R) (P : Procs R) (R : Results R) : Prop := {
  sp_gdd : rs_gdd R = if x_gs x then gdR_gdd (p_gd P (arg_gd x)) else 3 / 10;
  sp_gw : rs_gw R = p_gw P (x_prof x) (t_gw (trace_of x R));
  sp_rd : rs_rd R = p_rd P (x_prof x) (t_rd (trace_of x R));
  sp_pi : rs_pi R = p_pi P (x_prof x) (t_pi (trace_of x R));
  sp_dr : rs_dr R = p_dr P (x_prof x) (t_dr (trace_of x R));
  sp_rp : rs_rp R = p_rp P (x_prof x) (t_rp (trace_of x R));
  sp_ir : rs_ir R = p_ir P (x_prof x) (t_ir (trace_of x R));
  sp_inf : rs_inf R = p_inf P (x_prof x) (t_inf (trace_of x R));
  sp_cr : rs_cr R = p_cr P (x_prof x) (t_cr (trace_of x R));
  sp_ge : rs_ge R = p_ge P (x_prof x) (t_ge (trace_of x R));
  sp_gst : rs_gst R = p_gst P (t_gst (trace_of x R));
  sp_cc : rs_cc R = p_cc P (x_prof x) (t_cc (trace_of x R));
  sp_ev : rs_ev R = p_ev P (x_prof x) (t_ev (trace_of x R));
  sp_tr : rs_tr R = p_tr P (x_prof x) (t_tr (trace_of x R));
  sp_gi : rs_gi R = p_gi P (x_prof x) (t_gi (trace_of x R));
  sp_hr : rs_hr R = p_hr P (t_hr (trace_of x R));
  sp_bm : rs_bm R = p_bm P (t_bm (trace_of x R));
  sp_hi : rs_hi R = p_hi P (x_prof x) (t_hi (trace_of x R));
  sp_rz : rs_rz R = p_rz P (x_prof x) (t_rz (trace_of x R)) }.

Lemma results_spec x P : Spec x P (results x P).
Proof. constructor; reflexivity. Qed.

Definition ctx (par : DPar R) (season : Z) (gs : bool) (dap tsc : Z) (w : Day.W R) (s : DState R) : Ctx R :=
  {| x_par := par; x_season := season; x_gs := gs; x_dap := dap; x_tsc := tsc; x_w := w; x_s := s |}.

Lemma day_core_out par P season gs dap tsc w s :
  day_core par P season gs dap tsc w s = day_out (ctx par season gs dap tsc w s) (results (ctx par season gs dap tsc w s) P).
Proof. reflexivity. Qed.

Lemma day_proc_out par P season gs dap tsc w s :
  day_proc par P season gs dap tsc w s =
  (state_of (ctx par season gs dap tsc w s) (results (ctx par season gs dap tsc w s) P),
   row_of (ctx par season gs dap tsc w s) (results (ctx par season gs dap tsc w s) P)).
Proof. reflexivity. Qed.

(* ============================================================================================================ *)
Section Day.
  Variables (par : DPar R) (P : Procs R) (season : Z) (gs : bool) (dap tsc : Z) (w : Day.W R) (s : DState R).
  Let x := ctx par season gs dap tsc w s.
  Let Rs := results x P.
  Let o := day_core par P season gs dap tsc w s.
  Let s' := o_state o.
  Let row := o_row o.
  Let tr := o_trace o.
  Let prof := so_prof (p_soil par).
  Let crop := sel_crop par season.
  Let irr := sel_irr par season.
  Let field := sel_field par season gs.
  (* the argument and result records of the day's calls *)
  Let a_pi := t_pi tr.   Let r_pi := p_pi P prof a_pi.
  Let a_dr := t_dr tr.   Let r_dr := p_dr P prof a_dr.
  Let a_rp := t_rp tr.   Let r_rp := p_rp P prof a_rp.
  Let a_ir := t_ir tr.   Let r_ir := p_ir P prof a_ir.
  Let a_inf := t_inf tr. Let r_inf := p_inf P prof a_inf.
  Let a_cr := t_cr tr.   Let r_cr := p_cr P prof a_cr.
  Let a_ev := t_ev tr.   Let r_ev := p_ev P prof a_ev.
  Let a_tr := t_tr tr.   Let r_tr := p_tr P prof a_tr.
  Let a_gi := t_gi tr.   Let r_gi := p_gi P prof a_gi.
  Let a_gw := t_gw tr.   Let r_gw := p_gw P prof a_gw.
  Let a_rz := t_rz tr.   Let r_rz := p_rz P prof a_rz.

  Lemma day_proc_eq : day_proc par P season gs dap tsc w s = (s', row).
  Proof. reflexivity. Qed.

  (* ---------------------------------------------------------------- 1. C06: yield identities in the crop-growth row *)
  Theorem yield_identities :
    let g := r_growth (snd (day_proc par P season gs dap tsc w s)) in
    gr_Pot g = (gr_B_ns g / 100) * gr_HI g /\
    (gs = true -> gr_Dry g = (gr_B g / 100) * gr_HIadj g /\ gr_Fresh g = gr_Dry g / (c_YldWC crop / 100)) /\
    (gs = false -> gr_Dry g = 0 /\ gr_Fresh g = 0).
  Proof.
    cbv zeta. split; [reflexivity|]. split; intros E.
    - split; cbn [snd day_proc o_row day_core day_out row_of r_growth gr_Dry gr_Fresh gr_B gr_HIadj]; unfold fresh_of, dry_of;
        cbn [x_gs]; rewrite E; reflexivity.
    - split; cbn [snd day_proc o_row day_core day_out row_of r_growth gr_Dry gr_Fresh]; unfold fresh_of, dry_of; cbn [x_gs];
        rewrite E; reflexivity.
  Qed.

  (* the state keeps the same three values, and [summary_of] reports exactly them; the seasonal irrigation reported is
     the counter of the selected strategy AFTER the step *)
  Theorem summary_values :
    let g := r_growth row in
    let so := summary_of par season gs s' in
    o_Dry so = gr_Dry g /\ o_Fresh so = gr_Fresh g /\ o_Pot so = gr_Pot g /\
    d_DryYield s' = gr_Dry g /\ d_FreshYield s' = gr_Fresh g /\ d_YieldPot s' = gr_Pot g /\
    o_IrrTot so = (if gs then (if (i_method irr =? 4)%Z then d_irr_net_cum s' else d_irr_cum s') else 0) /\
    d_irr_cum s' = irR_irrcum r_ir /\
    d_irr_net_cum s' = trR_irr_net_cum r_tr + piR_preirr r_pi.
  Proof. cbv zeta. repeat split; reflexivity. Qed.

  (* ---------------------------------------------------------------- 2. what is written into the three rows *)
  Theorem row_wiring :
    let f := r_flux row in let g := r_growth row in let st := r_sto row in
    (* irrigation column: the irrigation process' Irr, or with net irrigation (method 4) transpiration's IrrNet plus
       the pre-irrigation; zero outside the season *)
    fl_IrrDay f = (if gs then (if (i_method irr =? 4)%Z then trR_irrnet r_tr + piR_preirr r_pi else irR_irr r_ir) else 0) /\
    (* Infl, Runoff, DeepPerc: the values returned by INFILTRATION, which received drainage's DeepPerc and
       rainfall_partition's Runoff / Infl and the irrigation process' Irr, and returns the totals *)
    fl_Infl f = infR_infl r_inf /\ fl_Runoff f = infR_runoff r_inf /\ fl_DeepPerc f = infR_deepperc r_inf /\
    infA_deepperc a_inf = drR_deepperc r_dr /\ infA_runoff a_inf = rpR_runoff r_rp /\
    infA_infl a_inf = rpR_infl r_rp /\ infA_irr a_inf = irR_irr r_ir /\ infA_eff a_inf = i_AppEff irr /\ infA_gs a_inf = gs /\
    (* CR: capillary_rise; GwIn: groundwater_inflow; Es, EsPot: soil_evaporation; Tr, TrPot: transpiration *)
    fl_CR f = crR_cr r_cr /\ fl_GwIn f = giR_gwin r_gi /\ fl_Es f = evR_es r_ev /\ fl_EsPot f = evR_espot r_ev /\
    fl_Tr f = trR_tr r_tr /\ fl_TrPot f = trR_trpot r_tr /\
    (* state columns: values AFTER the last process *)
    fl_surf f = d_surface_storage s' /\ d_surface_storage s' = trR_surf r_tr /\
    fl_zgw f = d_z_gw s' /\ d_z_gw s' = gwR_zgw r_gw /\
    fl_Wr f = rzR_wr r_rz /\ rzA_th a_rz = d_th s' /\ rzA_zroot a_rz = d_z_root s' /\
    st_th st = d_th s' /\ d_th s' = giR_th r_gi /\
    gr_gdd_cum g = d_gdd_cum s' /\ gr_z_root g = d_z_root s' /\ gr_cc g = d_canopy_cover s' /\ gr_cc_ns g = d_canopy_cover_ns s' /\
    gr_B g = d_biomass s' /\ gr_B_ns g = d_biomass_ns s' /\ gr_HI g = d_harvest_index s' /\ gr_HIadj g = d_harvest_index_adj s' /\
    (* index columns *)
    fl_tsc f = tsc /\ fl_season f = season /\ fl_dap f = dap /\ gr_tsc g = tsc /\ gr_season g = season /\ gr_dap g = dap /\
    st_tsc st = tsc /\ st_gs st = gs /\ st_dap st = dap.
  Proof. cbv zeta. repeat split; reflexivity. Qed.

  (* ---------------------------------------------------------------- 4. outside the growing season *)
  (* what the orchestration itself guarantees (Tr = 0, Irr = 0, CC = 0 ... come from the processes, which all receive
     growing_season = false and, in the season's place, the fallow field management) *)
  Theorem off_season_wiring : gs = false ->
    fl_IrrDay (r_flux row) = 0 /\ gr_Dry (r_growth row) = 0 /\ gr_Fresh (r_growth row) = 0 /\
    gr_gdd_cum (r_growth row) = 0 /\ d_gdd_cum s' = 0 /\ d_DryYield s' = 0 /\ d_FreshYield s' = 0 /\
    d_growing_season s' = false /\ d_gdd s' = d_gdd s /\ t_gd tr = None /\
    gr_gdd (r_growth row) = 3 / 10 /\                 (* the local gdd handed to the processes and REPORTED off season *)
    o_IrrTot (summary_of par season gs s') = 0 /\
    d_depletion s' = rzR_drrz r_rz /\ d_taw s' = rzR_tawrz r_rz /\
    field = p_fallow_field par /\
    rdA_gs (t_rd tr) = false /\ piA_gs (t_pi tr) = false /\ irA_gs (t_ir tr) = false /\ infA_gs (t_inf tr) = false /\
    geA_gs (t_ge tr) = false /\ gstA_gs (t_gst tr) = false /\ ccA_gs (t_cc tr) = false /\ evA_gs (t_ev tr) = false /\
    trA_gs (t_tr tr) = false /\ hrA_gs (t_hr tr) = false /\ bmA_gs (t_bm tr) = false /\ hiA_gs (t_hi tr) = false.
  Proof.
    intros E.
    assert (Ef : field = p_fallow_field par) by (subst field; rewrite E; unfold sel_field; destruct (0 <=? season)%Z; reflexivity).
    subst r_rz a_rz r_ir a_ir r_tr a_tr r_pi a_pi o s' row tr x Rs. clear - E Ef.
    unfold day_core, day_out, state_of, row_of, trace_of, irrday_of, dry_of, fresh_of, gdd_cum_of, summary_of.
    cbn [o_state o_row o_trace r_flux r_growth fl_IrrDay gr_Dry gr_Fresh gr_gdd_cum gr_gdd d_gdd_cum d_DryYield d_FreshYield
         d_growing_season d_gdd t_gd o_IrrTot d_depletion d_taw x_gs x_s t_rd t_pi t_ir t_inf t_ge t_gst t_cc t_ev t_tr t_hr t_bm t_hi
         t_rz rs_gdd results].
    rewrite E. repeat split; try reflexivity. exact Ef.
  Qed.

  (* ---------------------------------------------------------------- 3. C01: the water balance of the day *)
  (* water offered to the surface by the infiltration call: max(Infl,0) plus, in the season, Irr * AppEff/100 *)
  Definition offered (a : A_inf R) : R := Rmax (infA_infl a) 0 + (if infA_gs a then infA_irr a * (infA_eff a / 100) else 0).
  (* the water the capillary-rise call actually added to the profile (its reported CR differs by rounding, see
     GroundwaterR.capillary_balance) *)
  Definition CRactual : R := storage prof (crR_th r_cr) - storage prof (crA_th a_cr).

  (* the balance statements of the individual processes, for the calls of this day *)
  Record CallsBalance : Prop := {
    pre_irrigation_balance : storage prof (piR_th r_pi) = storage prof (piA_th a_pi) + piR_preirr r_pi;
    pre_irrigation_inert : piA_gs a_pi = false \/ i_method (piA_irr a_pi) <> 4%Z -> piR_preirr r_pi = 0;
    drainage_balance : storage prof (drR_th r_dr) + drR_deepperc r_dr = storage prof (drA_th a_dr);
    infiltration_balance :
      storage prof (infR_th r_inf) + infR_surf r_inf + infR_deepperc r_inf + infR_runoff r_inf =
      storage prof (infA_th a_inf) + infA_surf a_inf + offered a_inf + infA_deepperc a_inf + infA_runoff a_inf;
    surface_identity : infR_infl r_inf + (infR_runoff r_inf - infA_runoff a_inf) = offered a_inf;
    evaporation_balance : storage prof (evR_th r_ev) + evR_surf r_ev + evR_es r_ev = storage prof (evA_th a_ev) + evA_surf a_ev;
    transpiration_balance :
      storage prof (trR_th r_tr) + trR_surf r_tr + trR_tr r_tr = storage prof (trA_th a_tr) + trA_surf a_tr + trR_irrnet r_tr;
    net_irrigation_inert : trA_gs a_tr = false \/ trA_method a_tr <> 4%Z -> trR_irrnet r_tr = 0;
    gw_inflow_balance : storage prof (giR_th r_gi) = storage prof (giA_th a_gi) + giR_gwin r_gi }.

  (* every term but CRactual is read from the flux row written by the day; th/surf are those of the state before and
     after the step.  No extra term is needed: the Runoff and DeepPerc produced before infiltration (rainfall_partition,
     drainage) are handed to infiltration and come back inside the totals it returns, which are the ones reported. *)
  Theorem day_balance : CallsBalance ->
    let f := r_flux row in
    storage prof (d_th s') + d_surface_storage s' - (storage prof (d_th s) + d_surface_storage s) =
    fl_Infl f + (if (i_method irr =? 4)%Z then fl_IrrDay f else 0) + CRactual + fl_GwIn f - fl_DeepPerc f - fl_Es f - fl_Tr f.
  Proof.
    intros [B1 B2 B3 B4 B5 B6 B7 B8 B9]. cbv zeta.
    change (d_th s') with (giR_th r_gi). change (d_surface_storage s') with (trR_surf r_tr).
    change (fl_Infl (r_flux row)) with (infR_infl r_inf). change (fl_GwIn (r_flux row)) with (giR_gwin r_gi).
    change (fl_DeepPerc (r_flux row)) with (infR_deepperc r_inf). change (fl_Es (r_flux row)) with (evR_es r_ev).
    change (fl_Tr (r_flux row)) with (trR_tr r_tr).
    change (fl_IrrDay (r_flux row)) with (if gs then (if (i_method irr =? 4)%Z then trR_irrnet r_tr + piR_preirr r_pi else irR_irr r_ir) else 0).
    unfold CRactual.
    change (piA_th a_pi) with (d_th s) in B1. change (piA_gs a_pi) with gs in B2. change (piA_irr a_pi) with irr in B2.
    change (drA_th a_dr) with (piR_th r_pi) in B3.
    change (infA_th a_inf) with (drR_th r_dr) in B4. change (infA_surf a_inf) with (d_surface_storage s) in B4.
    change (infA_deepperc a_inf) with (drR_deepperc r_dr) in B4.
    change (crA_th a_cr) with (infR_th r_inf).
    change (evA_th a_ev) with (crR_th r_cr) in B6. change (evA_surf a_ev) with (infR_surf r_inf) in B6.
    change (trA_th a_tr) with (evR_th r_ev) in B7. change (trA_surf a_tr) with (evR_surf r_ev) in B7.
    change (trA_gs a_tr) with gs in B8. change (trA_method a_tr) with (i_method irr) in B8.
    change (giA_th a_gi) with (trR_th r_tr) in B9.
    destruct (Z.eqb_spec (i_method irr) 4) as [Em|Em].
    - destruct gs.
      + lra.
      + rewrite B2, B8 in * by (left; reflexivity). lra.
    - rewrite B2 in * by (right; exact Em). rewrite B8 in * by (right; exact Em). lra.
  Qed.

  (* ---------------------------------------------------------------- 3b. C03: bounds are preserved by the day *)
  Variable zb : R.     (* the bound on the ponding depth (bund height, or 0 without bunds) *)
  Definition surf_ok (v : R) : Prop := 0 <= v <= zb.
  Record CallsBounds : Prop := {
    pre_irrigation_bounds : in_bounds prof (piA_th a_pi) -> in_bounds prof (piR_th r_pi);
    drainage_bounds : in_bounds prof (drA_th a_dr) -> in_bounds prof (drR_th r_dr);
    infiltration_bounds : in_bounds prof (infA_th a_inf) -> surf_ok (infA_surf a_inf) ->
                          in_bounds prof (infR_th r_inf) /\ surf_ok (infR_surf r_inf);
    capillary_in_bounds : in_bounds prof (crA_th a_cr) -> in_bounds prof (crR_th r_cr);
    evaporation_bounds : in_bounds prof (evA_th a_ev) -> surf_ok (evA_surf a_ev) ->
                         in_bounds prof (evR_th r_ev) /\ surf_ok (evR_surf r_ev);
    transpiration_bounds : in_bounds prof (trA_th a_tr) -> surf_ok (trA_surf a_tr) ->
                           in_bounds prof (trR_th r_tr) /\ surf_ok (trR_surf r_tr);
    gw_inflow_in_bounds : in_bounds prof (giA_th a_gi) -> in_bounds prof (giR_th r_gi) }.

  (* the state after the day is within bounds, and so is the water content handed to every process in between *)
  Theorem day_bounds : CallsBounds -> in_bounds prof (d_th s) -> surf_ok (d_surface_storage s) ->
    (in_bounds prof (d_th s') /\ surf_ok (d_surface_storage s')) /\
    in_bounds prof (piA_th a_pi) /\ in_bounds prof (drA_th a_dr) /\ in_bounds prof (infA_th a_inf) /\
    in_bounds prof (crA_th a_cr) /\ in_bounds prof (evA_th a_ev) /\ in_bounds prof (trA_th a_tr) /\ in_bounds prof (giA_th a_gi) /\
    surf_ok (infA_surf a_inf) /\ surf_ok (evA_surf a_ev) /\ surf_ok (trA_surf a_tr).
  Proof.
    intros [C1 C2 C3 C4 C5 C6 C7] H0 S0.
    change (piA_th a_pi) with (d_th s) in *. change (drA_th a_dr) with (piR_th r_pi) in *.
    change (infA_th a_inf) with (drR_th r_dr) in *. change (infA_surf a_inf) with (d_surface_storage s) in *.
    change (crA_th a_cr) with (infR_th r_inf) in *. change (evA_th a_ev) with (crR_th r_cr) in *.
    change (evA_surf a_ev) with (infR_surf r_inf) in *. change (trA_th a_tr) with (evR_th r_ev) in *.
    change (trA_surf a_tr) with (evR_surf r_ev) in *. change (giA_th a_gi) with (trR_th r_tr) in *.
    change (d_th s') with (giR_th r_gi). change (d_surface_storage s') with (trR_surf r_tr).
    pose proof (C1 H0) as H1. pose proof (C2 H1) as H2. destruct (C3 H2 S0) as [H3 S3]. pose proof (C4 H3) as H4.
    destruct (C5 H4 S3) as [H5 S5]. destruct (C6 H5 S5) as [H6 S6]. pose proof (C7 H6) as H7.
    repeat split; assumption.
  Qed.
End Day.

(* the universally quantified form: processes that satisfy their balance statements on every argument *)
Corollary day_balance_all par P season gs dap tsc w s :
  let prof := so_prof (p_soil par) in
  (forall a, storage prof (piR_th (p_pi P prof a)) = storage prof (piA_th a) + piR_preirr (p_pi P prof a)) ->
  (forall a, piA_gs a = false \/ i_method (piA_irr a) <> 4%Z -> piR_preirr (p_pi P prof a) = 0) ->
  (forall a, storage prof (drR_th (p_dr P prof a)) + drR_deepperc (p_dr P prof a) = storage prof (drA_th a)) ->
  (forall a, let r := p_inf P prof a in
             storage prof (infR_th r) + infR_surf r + infR_deepperc r + infR_runoff r =
             storage prof (infA_th a) + infA_surf a + offered a + infA_deepperc a + infA_runoff a) ->
  (forall a, let r := p_inf P prof a in infR_infl r + (infR_runoff r - infA_runoff a) = offered a) ->
  (forall a, let r := p_ev P prof a in storage prof (evR_th r) + evR_surf r + evR_es r = storage prof (evA_th a) + evA_surf a) ->
  (forall a, let r := p_tr P prof a in
             storage prof (trR_th r) + trR_surf r + trR_tr r = storage prof (trA_th a) + trA_surf a + trR_irrnet r) ->
  (forall a, trA_gs a = false \/ trA_method a <> 4%Z -> trR_irrnet (p_tr P prof a) = 0) ->
  (forall a, storage prof (giR_th (p_gi P prof a)) = storage prof (giA_th a) + giR_gwin (p_gi P prof a)) ->
  let o := day_core par P season gs dap tsc w s in
  let f := r_flux (o_row o) in
  storage prof (d_th (o_state o)) + d_surface_storage (o_state o) - (storage prof (d_th s) + d_surface_storage s) =
  fl_Infl f + (if (i_method (sel_irr par season) =? 4)%Z then fl_IrrDay f else 0) + CRactual par P season gs dap tsc w s
  + fl_GwIn f - fl_DeepPerc f - fl_Es f - fl_Tr f.
Proof.
  intros prof H1 H2 H3 H4 H5 H6 H7 H8 H9. apply day_balance. constructor; auto.
  - apply H4. - apply H5. - apply H6. - apply H7.
Qed.
